// C09 harness: runs gojq.Parse / (*Query).String / the lexer (hook VerifLex, verif_lexer.go) on generated
// sources.  Streams:
//
//	ops   all ordered pairs and triples of the 24 binary operators around atoms (exhaustive), parenthesised
//	      variants, random deeper operator expressions: one (ops <hexsrc> <ast> <hex String()>) line per case
//	lex   the token stream of the real lexer, one (lex <hexsrc> <tok>...) line per source, over the corpus
//	      (corpus=FILE: JSON array of strings), generated programs of the full surface grammar,
//	      whitespace/comment re-spacings and token/byte-level mutations of each
//
//	full  (full.go) the AST (module metadata included) or the ParseError, and the bytes of String(), of every source:
//	      judged by the full-grammar parser and printer models (coq/c09/ParseFull.v, Printer.v)
//
// Oracles evaluated on the implementation alone for EVERY source of the ops and lex streams (reported as violations):
//
//	roundtrip   Parse(src) = q  =>  Parse(q.String()) succeeds and is reflect.DeepEqual to q
//	respace     Parse of a re-spaced source (whitespace/comments inserted between tokens) is DeepEqual
//	panic       Parse / String never panic
//	erroffset   a *ParseError has 0 <= Offset <= len(src)
//	errtoken    ParseError.Token is the substring of src ending at Offset (or empty)
//	emul        the paren-matching emulation of the parser's inString feedback in VerifLex agrees with the
//	            real parse (the ParseError is the one VerifLex predicts at some token; an accepted source has
//	            no invalid token)
package main

import (
	"encoding/hex"
	"encoding/json"
	"fmt"
	"os"
	"reflect"
	"strings"
	. "verifharness/hlib"

	"github.com/itchyny/gojq"
)

func main() {
	Register("ops", runOps)
	Register("lex", runLex)
	Register("one", runOne)
	Register("full", runFull)
	Main()
}

// ---------------------------------------------------------------------------------------------
// oracles

type parsed struct {
	q     *gojq.Query
	err   error
	panic any
}

func safeParse(src string) (p parsed) {
	defer func() {
		if r := recover(); r != nil {
			p.panic = r
		}
	}()
	p.q, p.err = gojq.Parse(src)
	return
}

func safeString(q *gojq.Query) (s string, pan any) {
	defer func() {
		if r := recover(); r != nil {
			pan = r
		}
	}()
	return q.String(), nil
}

var seen = map[string]bool{}
var emul []string
var reported = map[string]bool{}

const classIdentityIndex = `. .[0]`
const classEmptyImport = `import "" as a; .`

var classWhat = map[string]string{
	classIdentityIndex: "Term{Identity} followed by the suffix .[e] (rule term '.' suffix) prints as .[e], which parses to Term{Type: TermTypeIndex}: AST not deeply equal",
	classEmptyImport:   "an import with the empty path prints as include \"\" (Import.writeTo tests ImportPath != \"\"): AST not deeply equal",
}

var termType = reflect.TypeOf(gojq.Term{})
var importType = reflect.TypeOf(gojq.Import{})

// normalizeAST rewrites, in place, the two AST shapes whose printed form is known to parse differently.
func normalizeAST(v reflect.Value, classes map[string]bool) {
	switch v.Kind() {
	case reflect.Ptr:
		if v.IsNil() {
			return
		}
		e := v.Elem()
		switch e.Type() {
		case termType:
			t := v.Interface().(*gojq.Term)
			if t.Type == gojq.TermTypeIdentity && len(t.SuffixList) > 0 {
				if ix := t.SuffixList[0].Index; ix != nil && ix.Name == "" && ix.Str == nil {
					t.Type, t.Index = gojq.TermTypeIndex, ix
					if len(t.SuffixList) == 1 {
						t.SuffixList = nil
					} else {
						t.SuffixList = t.SuffixList[1:]
					}
					classes[classIdentityIndex] = true
				}
			}
		case importType:
			im := v.Interface().(*gojq.Import)
			if im.ImportPath == "" && im.ImportAlias != "" {
				im.ImportAlias = ""
				classes[classEmptyImport] = true
			}
		}
		normalizeAST(e, classes)
	case reflect.Struct:
		for i := 0; i < v.NumField(); i++ {
			normalizeAST(v.Field(i), classes)
		}
	case reflect.Slice:
		for i := 0; i < v.Len(); i++ {
			normalizeAST(v.Index(i), classes)
		}
	}
}

// checkSource applies the implementation-only oracles; returns the parse result.
func checkSource(c *Ctx, src string, tag string) parsed {
	p := safeParse(src)
	if seen[src] {
		return p
	}
	seen[src] = true
	c.Count("src:" + tag)
	if p.panic != nil {
		c.Violation("panic %q :: Parse panicked: %v", src, p.panic)
		return p
	}
	toks := gojq.VerifLex(src)
	if p.err != nil {
		c.Count("rejected")
		pe, ok := p.err.(*gojq.ParseError)
		if !ok {
			c.Violation("errtype %q :: Parse returned %T, not *ParseError", src, p.err)
			return p
		}
		if pe.Offset < 0 || pe.Offset > len(src) {
			c.Violation("erroffset %q :: ParseError.Offset=%d outside [0,%d]", src, pe.Offset, len(src))
			return p
		}
		if pe.Token != "" && !strings.HasSuffix(src[:pe.Offset], pe.Token) {
			c.Violation("errtoken %q :: ParseError.Token=%q is not the text ending at Offset=%d", src, pe.Token, pe.Offset)
		}
		found := false
		for _, t := range toks {
			if t.ErrOffset == pe.Offset && t.ErrToken == pe.Token {
				found = true
				break
			}
		}
		if !found {
			emul = append(emul, fmt.Sprintf("%q: ParseError{%d,%q} is at no token of VerifLex", src, pe.Offset, pe.Token))
		}
		return p
	}
	c.Count("accepted")
	for _, t := range toks {
		switch t.Name {
		case "tokInvalid", "tokInvalidEscapeSequence", "tokUnterminatedString":
			emul = append(emul, fmt.Sprintf("%q: accepted but VerifLex has %s", src, t.Name))
		}
	}
	str, pan := safeString(p.q)
	if pan != nil {
		c.Violation("panic %q :: String() panicked: %v", src, pan)
		return p
	}
	p2 := safeParse(str)
	switch {
	case p2.panic != nil:
		c.Violation("roundtrip %q :: Parse(String()) panicked on %q: %v", src, str, p2.panic)
	case p2.err != nil:
		c.Violation("roundtrip %q :: String() = %q is rejected: %v", src, str, p2.err)
	case !reflect.DeepEqual(p.q, p2.q):
		// map the instance to its root cause: re-parse for a private copy, rewrite the known patterns on both
		// sides; if that explains the whole difference report the canonical case of each class involved
		classes := map[string]bool{}
		n1, n2 := safeParse(src).q, safeParse(str).q
		normalizeAST(reflect.ValueOf(n1), classes)
		normalizeAST(reflect.ValueOf(n2), classes)
		if len(classes) > 0 && reflect.DeepEqual(n1, n2) {
			for k := range classes {
				c.Count("roundtrip-class:" + k)
				if !reported[k] {
					reported[k] = true
					c.Violation("roundtrip %q :: %s (first instance: %q prints as %q)", k, classWhat[k], src, str)
				}
			}
		} else {
			s2, _ := safeString(p2.q)
			c.Violation("roundtrip %q :: String() = %q parses to a different AST (printing it again gives %q)", src, str, s2)
		}
	}
	return p
}

// ---------------------------------------------------------------------------------------------
// transport

// hexl: a byte string as (h <hex chunk> ...), 16 bytes per chunk
func hexl(b []byte) string {
	var sb strings.Builder
	sb.WriteString("(h")
	for i := 0; i < len(b); i += 16 {
		sb.WriteByte(' ')
		sb.WriteString(hex.EncodeToString(b[i:min(i+16, len(b))]))
	}
	sb.WriteByte(')')
	return sb.String()
}

func kindSexp(t gojq.VerifToken) string {
	switch {
	case t.Name != "":
		return t.Name
	default:
		return fmt.Sprintf("(c %d)", t.Kind)
	}
}

func emitLex(c *Ctx, src string) {
	var sb strings.Builder
	sb.WriteString("(lex " + hexl([]byte(src)))
	for _, t := range gojq.VerifLex(src) {
		in := 0
		if t.InString {
			in = 1
		}
		fmt.Fprintf(&sb, " (%s %s %d %d %d %s)", kindSexp(t), hexl([]byte(t.Token)), t.Offset, in, t.ErrOffset, hexl([]byte(t.ErrToken)))
	}
	sb.WriteString(")")
	c.Emit("%s", sb.String())
}

func astSexp(q *gojq.Query) string {
	if q == nil {
		return "other"
	}
	if q.Meta != nil || q.Imports != nil || q.FuncDefs != nil || q.Patterns != nil {
		return "other"
	}
	if q.Term != nil {
		if q.Left != nil || q.Right != nil || q.Op != 0 {
			return "other"
		}
		t := q.Term
		if len(t.SuffixList) != 0 {
			return "other"
		}
		switch t.Type {
		case gojq.TermTypeFunc:
			if t.Func != nil && t.Func.Args == nil && reflect.DeepEqual(t, &gojq.Term{Type: gojq.TermTypeFunc, Func: &gojq.Func{Name: t.Func.Name}}) {
				return "(a " + Hexs([]byte(t.Func.Name)) + ")"
			}
		case gojq.TermTypeQuery:
			if reflect.DeepEqual(t, &gojq.Term{Type: gojq.TermTypeQuery, Query: t.Query}) {
				return "(p " + astSexp(t.Query) + ")"
			}
		}
		return "other"
	}
	if q.Left == nil || q.Right == nil {
		return "other"
	}
	return "(b " + strings.TrimPrefix(q.Op.GoString(), "gojq.") + " " + astSexp(q.Left) + " " + astSexp(q.Right) + ")"
}

func emitOps(c *Ctx, src string) {
	p := checkSource(c, src, "ops")
	if p.panic != nil {
		return
	}
	if p.err != nil {
		c.Emit("(ops %s err (h))", hexl([]byte(src)))
		return
	}
	str, _ := safeString(p.q)
	c.Emit("(ops %s %s %s)", hexl([]byte(src)), astSexp(p.q), hexl([]byte(str)))
}

// ---------------------------------------------------------------------------------------------
// ops stream

var opTexts = []string{"|", ",", "//", "=", "|=", "+=", "-=", "*=", "/=", "%=", "//=", "or", "and",
	"==", "!=", "<", "<=", ">", ">=", "+", "-", "*", "/", "%"}

func runOps(c *Ctx) {
	if len(c.Args) > 0 { // explicit sources (hex)
		for _, h := range c.Args {
			b, err := hex.DecodeString(h)
			if err == nil {
				emitOps(c, string(b))
			}
		}
		return
	}
	for _, o := range opTexts {
		emitOps(c, "a "+o+" b")
	}
	for _, o1 := range opTexts {
		for _, o2 := range opTexts {
			emitOps(c, "a "+o1+" b "+o2+" c")
			emitOps(c, "(a "+o1+" b) "+o2+" c")
			emitOps(c, "a "+o1+" (b "+o2+" c)")
		}
	}
	for _, o1 := range opTexts {
		for _, o2 := range opTexts {
			for _, o3 := range opTexts {
				emitOps(c, "a "+o1+" b "+o2+" c "+o3+" d")
			}
		}
	}
	// random deeper expressions with parentheses, comments and odd spacing
	r := c.Rng
	for i := 0; i < c.N; i++ {
		emitOps(c, genOpExpr(r, 2+r.Intn(5)))
	}
	c.Stats["operators"] = len(opTexts)
	c.Stats["emul_mismatch"] = emul
}

var opAtoms = []string{"a", "b", "c", "d", "x1", "_y", "orx", "andy", "ifx"}

func genOpExpr(r *Rng, n int) string {
	if n <= 1 {
		a := opAtoms[r.Intn(len(opAtoms))]
		if r.Chance(1, 8) {
			return "(" + a + ")"
		}
		return a
	}
	k := 1 + r.Intn(n-1)
	l, rr := genOpExpr(r, k), genOpExpr(r, n-k)
	o := opTexts[r.Intn(len(opTexts))]
	sp := func() string {
		switch r.Intn(8) {
		case 0:
			return "\n"
		case 1:
			return " # c\n"
		case 2:
			return "\t "
		default:
			return " "
		}
	}
	s := l + sp() + o + sp() + rr
	if r.Chance(1, 3) {
		return "(" + s + ")"
	}
	return s
}

// ---------------------------------------------------------------------------------------------
// full surface grammar generator

type gen struct {
	r *Rng
}

func (g *gen) pick(xs ...string) string { return xs[g.r.Intn(len(xs))] }

var idents = []string{"a", "b", "f", "foo", "_x", "map", "select", "empty", "x1", "nullx", "iff", "ands", "input_line_number"}
var keywordsList = []string{"or", "and", "module", "import", "include", "def", "as", "label", "break", "null", "true",
	"false", "if", "then", "elif", "else", "end", "try", "catch", "reduce", "foreach"}
var varsList = []string{"$x", "$y", "$__loc__", "$ENV", "$_a1", "$m::v", "$if"}

func (g *gen) ident() string { return idents[g.r.Intn(len(idents))] }
func (g *gen) variable() string {
	return varsList[g.r.Intn(len(varsList))]
}
func (g *gen) bindvar() string { return g.pick("$x", "$y", "$_a1", "$if", "$__loc__") }

func (g *gen) number() string {
	return g.pick("0", "1", "42", "007", "1.5", "1.", ".5", "1e3", "1E-2", "1.5e+10", "0.0", "123456789012345678901234567890", "1e1000", ".5e1", "3.e2")
}

func (g *gen) strBody(d int, interp bool) string {
	var sb strings.Builder
	n := g.r.Intn(5)
	for i := 0; i < n; i++ {
		switch g.r.Intn(14) {
		case 0:
			sb.WriteString(g.pick(`\n`, `\t`, `\"`, `\\`, `\/`, `\b`, `\f`, `\r`))
		case 1:
			sb.WriteString(g.pick(`\u00e9`, `\u0000`, `\ud83d\ude00`, `\ud800`, `\u001f`, `\uFFFF`, `\u0041`))
		case 2:
			sb.WriteString(g.pick("é", "日本", "😀", "\u2028", "\x7f"))
		case 3:
			sb.WriteString(g.pick("\t", "\n", "\x01", "\r"))
		case 4:
			sb.WriteString(g.pick("\xff", "\xc3", "\xe2\x82"))
		case 5, 6:
			if interp && d > 0 {
				sb.WriteString(`\(` + g.query(d-1) + `)`)
			} else {
				sb.WriteString("x")
			}
		case 7:
			sb.WriteString(g.pick("#", "'", "(", ")", "$", "<", ">", "&", " ", "  "))
		default:
			sb.WriteString(g.pick("a", "bc", "key", "0", " and ", "."))
		}
	}
	return sb.String()
}

func (g *gen) str(d int) string { return `"` + g.strBody(d, true) + `"` }
func (g *gen) constStr() string { return `"` + g.strBody(0, false) + `"` }
func (g *gen) sep() string      { return g.pick("", " ", " ", " ", "\n", "  ") }
func (g *gen) sp() string       { return g.pick(" ", " ", " ", "\n", "\t") }
func (g *gen) binop() string    { return opTexts[2+g.r.Intn(len(opTexts)-2)] }
func (g *gen) maybe(p int, s string) string {
	if g.r.Chance(p, 100) {
		return s
	}
	return ""
}

func (g *gen) pattern(d int) string {
	if d <= 0 {
		return g.bindvar()
	}
	switch g.r.Intn(6) {
	case 0, 1:
		return g.bindvar()
	case 2:
		n := 1 + g.r.Intn(3)
		ps := make([]string, n)
		for i := range ps {
			ps[i] = g.pattern(d - 1)
		}
		return "[" + strings.Join(ps, g.pick(",", ", ")) + "]"
	default:
		n := 1 + g.r.Intn(3)
		ps := make([]string, n)
		for i := range ps {
			switch g.r.Intn(6) {
			case 0:
				ps[i] = g.bindvar()
			case 1:
				ps[i] = g.ident() + ":" + g.sep() + g.pattern(d-1)
			case 2:
				ps[i] = g.pick(keywordsList...) + ": " + g.pattern(d-1)
			case 3:
				ps[i] = g.str(d-1) + ": " + g.pattern(d-1)
			case 4:
				ps[i] = "(" + g.query(d-1) + "): " + g.pattern(d-1)
			default:
				ps[i] = g.bindvar() + ": " + g.pattern(d-1)
			}
		}
		return "{" + strings.Join(ps, ", ") + "}"
	}
}

func (g *gen) objectVal(d int) string {
	if g.r.Chance(1, 6) {
		return g.expr(d) + " | " + g.expr(d)
	}
	return g.expr(d)
}

func (g *gen) object(d int) string {
	n := g.r.Intn(4)
	if n == 0 {
		return g.pick("{}", "{ }")
	}
	kvs := make([]string, n)
	for i := range kvs {
		switch g.r.Intn(9) {
		case 0:
			kvs[i] = g.ident()
		case 1:
			kvs[i] = g.variable()
		case 2:
			kvs[i] = g.str(d - 1)
		case 3:
			kvs[i] = g.ident() + ":" + g.sep() + g.objectVal(d-1)
		case 4:
			kvs[i] = g.pick(keywordsList...) + ": " + g.objectVal(d-1)
		case 5:
			kvs[i] = g.str(d-1) + ": " + g.objectVal(d-1)
		case 6:
			kvs[i] = "(" + g.query(d-1) + "): " + g.objectVal(d-1)
		case 7:
			kvs[i] = g.bindvar() + ": " + g.objectVal(d-1)
		default:
			kvs[i] = g.pick(keywordsList...)
		}
	}
	return "{" + g.sep() + strings.Join(kvs, ","+g.sep()) + g.maybe(10, ",") + g.sep() + "}"
}

func (g *gen) suffix(d int) string {
	switch g.r.Intn(12) {
	case 0, 1:
		return "." + g.ident()
	case 2:
		return "." + g.pick(keywordsList...)
	case 3:
		return "[]"
	case 4:
		return "?"
	case 5:
		return "[" + g.query(d-1) + "]"
	case 6:
		return "[" + g.query(d-1) + ":" + g.query(d-1) + "]"
	case 7:
		return g.pick("[:"+g.query(d-1)+"]", "["+g.query(d-1)+":]")
	case 8:
		return "." + g.str(d-1)
	case 9:
		return ".[" + g.query(d-1) + "]"
	case 10:
		return g.pick(".[]", " .[]", " ."+g.ident(), " [0]", " ?")
	default:
		return "." + g.ident() + "?"
	}
}

func (g *gen) term(d int) string {
	var t string
	if d <= 0 {
		t = g.pick(".", "..", "."+g.ident(), g.number(), g.ident(), g.variable(), "null", "true", "false", `"s"`, "[]", "{}", "@base64", ".[]", `."k"`, "m::f")
	} else {
		switch g.r.Intn(30) {
		case 0:
			t = "."
		case 1:
			t = ".."
		case 2:
			t = "." + g.pick(g.ident(), g.pick(keywordsList...))
		case 3:
			t = g.number()
		case 4:
			t = g.ident()
		case 5:
			n := 1 + g.r.Intn(3)
			as := make([]string, n)
			for i := range as {
				as[i] = g.query(d - 1)
			}
			t = g.pick(g.ident(), "m::f") + "(" + strings.Join(as, g.pick(";", "; ")) + ")"
		case 6:
			t = g.variable()
		case 7:
			t = g.pick("null", "true", "false")
		case 8, 9:
			t = g.str(d - 1)
		case 10:
			t = g.pick("@base64", "@json", "@text", "@a1") + g.maybe(60, g.sep()+g.str(d-1))
		case 11, 12:
			t = g.object(d)
		case 13:
			t = g.pick("[]", "[ ]", "["+g.query(d-1)+"]")
		case 14:
			t = g.pick("-", "+", "- ", "+ ") + g.term(d-1)
		case 15:
			t = "if " + g.query(d-1) + " then " + g.query(d-1)
			for i := g.r.Intn(3); i > 0; i-- {
				t += " elif " + g.query(d-1) + " then " + g.query(d-1)
			}
			t += g.maybe(60, " else "+g.query(d-1)) + " end"
		case 16:
			t = "try " + g.postfix(d-1) + g.maybe(50, " catch "+g.postfix(d-1))
		case 17:
			t = "reduce " + g.postfix(d-1) + " as " + g.pattern(2) + " (" + g.query(d-1) + "; " + g.query(d-1) + ")"
		case 18:
			t = "foreach " + g.postfix(d-1) + " as " + g.pattern(2) + " (" + g.query(d-1) + "; " + g.query(d-1) + g.maybe(50, "; "+g.query(d-1)) + ")"
		case 19:
			t = "break " + g.bindvar()
		case 20, 21:
			t = "(" + g.query(d-1) + ")"
		case 22:
			t = "." + g.str(d-1)
		case 23:
			t = ".[" + g.query(d-1) + "]"
		case 24:
			t = g.pick(".[]", ".["+g.query(d-1)+":"+g.query(d-1)+"]", ".[:"+g.query(d-1)+"]", ".["+g.query(d-1)+":]")
		case 25:
			t = "reduce " + g.expr(d-1) + " as " + g.pattern(1) + " (" + g.query(d-1) + "; " + g.query(d-1) + ")"
		case 26:
			t = "try " + g.expr(d-1) + g.maybe(50, " catch "+g.expr(d-1))
		default:
			t = g.pick(".", "."+g.ident(), g.ident(), g.number())
		}
	}
	for g.r.Chance(30, 100) {
		t += g.suffix(d)
	}
	return t
}

func (g *gen) postfix(d int) string { return g.term(d) }

func (g *gen) expr(d int) string {
	if d <= 0 || g.r.Chance(40, 100) {
		return g.term(d)
	}
	return g.expr(d-1) + g.sp() + g.binop() + g.sp() + g.expr(d-1)
}

func (g *gen) funcdef(d int) string {
	s := "def " + g.ident()
	if g.r.Chance(1, 2) {
		n := 1 + g.r.Intn(3)
		as := make([]string, n)
		for i := range as {
			as[i] = g.pick(g.ident(), g.bindvar())
		}
		s += "(" + strings.Join(as, g.pick(";", "; ")) + ")"
	}
	return s + ":" + g.sp() + g.query(d-1) + ";"
}

func (g *gen) query(d int) string {
	if d <= 0 {
		return g.expr(0)
	}
	switch g.r.Intn(14) {
	case 0:
		return g.query(d-1) + " | " + g.query(d-1)
	case 1:
		return g.query(d-1) + g.pick(", ", ",", " , ") + g.query(d-1)
	case 2:
		ps := g.pattern(2)
		for g.r.Chance(1, 4) {
			ps += g.pick(" ?// ", "?//") + g.pattern(2)
		}
		return g.postfix(d-1) + " as " + ps + " | " + g.query(d-1)
	case 3:
		return "label " + g.bindvar() + " | " + g.query(d-1)
	case 4:
		return g.funcdef(d) + " " + g.query(d-1)
	default:
		return g.expr(d)
	}
}

func (g *gen) constTerm(d int) string {
	if d <= 0 {
		return g.pick(g.number(), g.constStr(), "null", "true", "false", "{}", "[]")
	}
	switch g.r.Intn(5) {
	case 0:
		return g.constObject(d - 1)
	case 1:
		n := g.r.Intn(3)
		es := make([]string, n)
		for i := range es {
			es[i] = g.constTerm(d - 1)
		}
		return "[" + strings.Join(es, ", ") + "]"
	default:
		return g.constTerm(0)
	}
}

func (g *gen) constObject(d int) string {
	n := g.r.Intn(3)
	kvs := make([]string, n)
	for i := range kvs {
		kvs[i] = g.pick(g.ident(), g.pick(keywordsList...), g.constStr()) + ": " + g.constTerm(d)
	}
	return "{" + strings.Join(kvs, ", ") + g.maybe(10, ",") + "}"
}

func (g *gen) program(d int) string {
	var sb strings.Builder
	if g.r.Chance(1, 6) {
		sb.WriteString("module " + g.constObject(2) + ";\n")
	}
	for g.r.Chance(1, 6) {
		if g.r.Chance(1, 2) {
			sb.WriteString("import " + g.constStr() + " as " + g.pick(g.ident(), g.bindvar()) + g.maybe(40, " "+g.constObject(1)) + ";\n")
		} else {
			sb.WriteString("include " + g.constStr() + g.maybe(40, " "+g.constObject(1)) + ";")
		}
	}
	if g.r.Chance(1, 10) {
		for i := g.r.Intn(3); i >= 0; i-- {
			sb.WriteString(g.funcdef(d) + g.sp())
		}
		return sb.String()
	}
	sb.WriteString(g.query(d))
	return sb.String()
}

var trickySeeds = []string{
	".", "..", `import "" as a; .`, `import "" as $a; .`, `include ""; .`, ". .[1:2]", ". .[:-1]", ". .[null]", ". .[0].a", ". .[0][1]", ". .x", "0 .x", "1 .x", "1. .x", "1.5 .x", ".. .x", "..|.x", `. ."x"`, `.x."y"`, `.x.y`, `."x"."y"`, `."x".y`, ". .[0]",
	".[0]", ".[0].a", ".a[0]", ".a.[0]", ".a[]", ".a.[]", ". []", ".[]?", ".a?", ".a??", ".a? // 1", ".a?//1", "..?", "..[0]", `.. ."a"`,
	". as [$a] ?// $a | 1", ". as [$a]?//$a|1", ". as {a:$x} ?// [$x] ?// $x | $x", ". as {$a, b: [$c]} | 1", `. as {"a": $x, ("b"): $y, $z} | 1`,
	`. as {"a\(1)": $x} | $x`, "try error catch .", "try error", "try error catch . | 1", "[.[]?]", "-1", "- 1", "--1", "-.a", "- -.a", "+1", "+-1",
	"-(1)", "1 - -1", "1 -1", ".a-1", "1-1", "- 1 * 2", "-.a.b?", "-.[0]", "-a(1)", "-if . then 1 end", "- -1 .a", "-1 .a", "-1.a",
	"if . then 1 end", "if . then 1 elif . then 2 else 3 end", "if . then 1 end?", "if . then 1 end.a", "if 1,2 then 3|4 else 5 as $x|$x end",
	"{}", "{a:1}", "{a}", "{$x}", `{"a":1}`, `{"a"}`, `{"a\(1)":2}`, `{"a\(1)"}`, "{(1):2}", "{(1,2):3}", "{if:1}", "{if}", "{and:or}",
	"{a:1|2}", "{a:1|2|3}", "{a:1,b:2,}", "{a:(1,2)}", "{a:1 as $x|$x}", "{$__loc__}", "{a:-1}", "{a:.b?}", "{a:try 1}", `{"a\("b\(1)")"}`,
	"{a:reduce . as $x (0;1)}", "{a: 1 // 2}", "{a: 1 == 2 and 3}", "{a: . = 1}",
	"@base64", `@base64 "x\(1)"`, `@base64"x"`, `@json "\(.)\(.)"`, `@text ""`, `"\u00e9"`, `"\ud83d\ude00"`, `"\ud800"`, `"a\u0000b"`,
	`""`, `"\(1)"`, `"\(1)\(2)"`, `"a\(1)b\(2)c"`, `"\("\("\(1)")")"`, `"\(1 + 2 | . as $x | "\($x)")"`, `"\("a" + "b")"`, `"\(  1  )"`,
	`"\\("`, `"\\\(1)"`, "\"\t\"", "\"\x7f\"", "\"\xff\"", `"<>&'"`, "\"\u2028\"",
	"reduce . as $x (0; 1)", "reduce .[] as [$a, {b: $c}] (0; . + $a)", "foreach . as $x (0; 1)", "foreach . as $x (0; 1; 2)",
	"reduce a + b as $x (0; 1)", "reduce -.a as $x (0;1)", "foreach .[] as $x (0;1)|2", "reduce . as $x (0; 1)?", "reduce . as $x (0;1).a",
	"label $f | 1, break $f", "label $f | label $g | break $f", "1 | label $f | 2 | 3", "1 , label $f | 2", "label $f | 1 as $x | 2",
	"def f: 1; f", "def f(a; $b): a + $b; f(1; 2)", "def f: def g: 1; g; f", "1 | def f: 1; f | 2", "def f: 1; def g: 2; f, g", "def f: 1;",
	"def f: 1; def g: 2;", "", "def f($a; $b): 1; f(1;2)", "1 as $x | def f: $x; f", "def f: 1; 1 as $x | f", "(def f: 1; f) + 1", "[def f: 1; f]",
	"1 as $x | 2 as $y | 3", "1 as $x | 2, 3", "1, 2 as $x | 3", "1 as [$a, $b] | 2", "(1 as $x | 2) | 3", "1 + 2 as $x | 3", ". as $x | . as $y | $x",
	"a | b | c", "a , b , c", "a // b // c", "a or b or c", "a and b and c", "a + b - c", "a * b / c % d", "a | b , c // d = e or f and g == h + i * j",
	"a = b", "a |= b", "a += b", "a -= b", "a *= b", "a /= b", "a %= b", "a //= b", "a == b", "a != b", "a < b", "a <= b", "a > b", "a >= b",
	"module {}; 1", `module {a: 1, "b": [1, "x", null, true, false, {}]}; .`, `import "a" as b; b::f`, `import "a" as $b; $b::b`, `import "a" as $b {search: "./"}; $b`,
	`include "a"; f`, `include "a" {search: "x"}; f`, `module {name: "m"}; import "a" as a; include "b"; def f: 1;`, `import "a" as a; import "b" as b; a::f, b::g`,
	`module {if: 1, and: 2};.`, `module {"a": 1.5e3,}; .`, `import "a\tb" as x; .`, `import "é" as x; .`, `include "\u00e9"; .`,
	"$__loc__", "$ENV.PATH", "$x::y", "m::f(1)", "m::f", "$__prog_args", "input_line_number", "a::b::c",
	". # comment", "# comment\n.", "1 # a \\\n b\n+ 2", "1 #\\\r\n x\n + 2", "1 # \\\\\n+2", "1\t+\r\n2", " \n . \n ",
	".[1:2]", ".[:2]", ".[1:]", ".[1:2][3]", ".a[1:2]", ".[1:2]?", ".[1,2:3|4]", ".[.[0]:.[1]]", `.["a"]`, `.["a"]?`, ".[-1]", ".[1:2].a", ".[:-1]",
	"[1,2,3]", "[1|2]", "[]", "[[]]", "[.[]|{a}]", "[1,2][0]", "{a:1}.a", "{a:1}|.a", `"abc"[0:1]`, `"abc".[0:1]`, "(1).a", "(1)?", "(.a)[0]", "(1,2)|(3)",
	"1 as $x | 2 as $y | [$x,$y,$__loc__]", "break $x", "label $x | break $x", "try break $x", "try (break $x) catch .", "try try 1 catch 2 catch 3",
	"try 1 catch try 2 catch 3", "try -1", "try -1 catch -2", "try .a.b catch .c.d", "try {a:1} catch [2]", "try if . then 1 end catch 2", "try reduce . as $x (0;1) catch 2",
	"a(b;c)", "a(b|c;d,e)", "a((b;c))", "a(def f: 1; f)", "a(1 as $x | $x)", "a(label $f | 1)", "f(.)", "f(..)", "f(.a;.b)",
	"1 and 2 or 3", "not", "a and (b or c)", "1 < 2 == true", "1 == 2 < 3", "(1 < 2) == (3 < 4)", "a = (b = c)", "(a = b) = c", "a |= (b |= c)",
	"0", "00", "1.0", "1e0", "1E+0", "0.5", ".5", "5.", "1.e1", "100000000000000000000", "1.000000000000000000001", "0e0", "1e-0",
}

// ---------------------------------------------------------------------------------------------
// re-spacing and mutations

var gaps = []string{" ", "\n", "\t", "  ", "\r\n", " # comment\n", "#\n", " \n \t", "# a \\\n still a comment\n", "# x \\\\\n", "#é😀\n", " #\r"}

// respace inserts a separator before every token lexed outside string mode (chosen with probability p/100)
func respace(r *Rng, src string, p int) (string, bool) {
	toks := gojq.VerifLex(src)
	var sb strings.Builder
	prevEnd := 0
	n := 0
	for _, t := range toks {
		if t.Offset < prevEnd || t.Offset > len(src) { // a lexer reporting offsets outside the source
			break
		}
		if !t.Before && r.Chance(p, 100) {
			sb.WriteString(gaps[r.Intn(len(gaps))])
			n++
		}
		sb.WriteString(src[prevEnd:t.Offset])
		prevEnd = t.Offset
	}
	sb.WriteString(src[prevEnd:])
	return sb.String(), n > 0
}

func mutate(r *Rng, src string) string {
	toks := gojq.VerifLex(src)
	type span struct{ a, b int }
	var sp []span
	prev := 0
	for _, t := range toks {
		if t.Offset > len(src) {
			break
		}
		if t.Offset > prev {
			sp = append(sp, span{prev, t.Offset})
		}
		prev = t.Offset
	}
	pool := []string{"(", ")", "[", "]", "{", "}", "|", ",", ".", "..", "?", "//", "?//", ":", ";", "as", "def", "if", "then", "else", "end",
		"try", "catch", "reduce", "foreach", "label", "$x", "\"", "\\(", "1", ".a", "-", "and", "=", "==", "@base64", "import", "module", "::", "$", "@", "#", "\\", "!", "'", "`", "~", "^", "&", "1.2.3", "1e", "0x1", "\"\\u12\"", "\"\\q\"", "é", "\xff", "\x00"}
	switch r.Intn(8) {
	case 0: // delete a token
		if len(sp) > 0 {
			s := sp[r.Intn(len(sp))]
			return src[:s.a] + src[s.b:]
		}
	case 1: // duplicate a token
		if len(sp) > 0 {
			s := sp[r.Intn(len(sp))]
			return src[:s.b] + " " + src[s.a:]
		}
	case 2: // swap adjacent tokens
		if len(sp) > 1 {
			i := r.Intn(len(sp) - 1)
			a, b := sp[i], sp[i+1]
			return src[:a.a] + src[b.a:b.b] + " " + src[a.a:a.b] + src[b.b:]
		}
	case 3: // replace a token
		if len(sp) > 0 {
			s := sp[r.Intn(len(sp))]
			return src[:s.a] + " " + pool[r.Intn(len(pool))] + " " + src[s.b:]
		}
	case 4: // insert a token
		i := r.Intn(len(src) + 1)
		return src[:i] + pool[r.Intn(len(pool))] + src[i:]
	case 5: // delete a byte
		if len(src) > 0 {
			i := r.Intn(len(src))
			return src[:i] + src[i+1:]
		}
	case 6: // replace a byte
		if len(src) > 0 {
			i := r.Intn(len(src))
			return src[:i] + string([]byte{byte(r.Intn(256))}) + src[i+1:]
		}
	default: // truncate
		if len(src) > 0 {
			return src[:r.Intn(len(src))]
		}
	}
	return src + pool[r.Intn(len(pool))]
}

func loadCorpus(path string) []string {
	if path == "" {
		return nil
	}
	b, err := os.ReadFile(path)
	if err != nil {
		fmt.Fprintln(os.Stderr, "cannot read corpus:", err)
		os.Exit(2)
	}
	var xs []string
	if err := json.Unmarshal(b, &xs); err != nil {
		fmt.Fprintln(os.Stderr, "cannot decode corpus:", err)
		os.Exit(2)
	}
	return xs
}

// one source through all oracles: itself, re-spacings, mutations
func processSource(c *Ctx, src, tag string, nresp, nmut int) {
	p := checkSource(c, src, tag)
	emitLex(c, src)
	if p.panic == nil && p.err == nil {
		for i := 0; i < nresp; i++ {
			rs, changed := respace(c.Rng, src, []int{100, 50, 20}[i%3])
			if !changed {
				continue
			}
			p2 := checkSource(c, rs, "respaced")
			emitLex(c, rs)
			switch {
			case p2.panic != nil:
			case p2.err != nil:
				c.Violation("respace %q :: accepted, but the re-spaced %q is rejected: %v", src, rs, p2.err)
			case !reflect.DeepEqual(p.q, p2.q):
				c.Violation("respace %q :: the re-spaced %q parses to a different AST: %q", src, rs, p2.q.String())
			}
		}
	}
	for i := 0; i < nmut; i++ {
		m := mutate(c.Rng, src)
		checkSource(c, m, "mutated")
		emitLex(c, m)
	}
}

// suffixMatrix: every term kind x every first-suffix form (glued and spaced) x a second suffix, bare and inside
// array / object / interpolation / unary / pipe contexts.  Exhaustive; the sources that parse go through the
// round-trip oracle (the printer's spacing rules are per adjacent-token pair), the others through the error oracles.
var mxTerms = []string{"1", "10", "007", "1.5", ".5", "1e3", "1E-2", "1.", "1.e2", "0", "-1", "- 1.5", "+1", `"s"`, `"a\(1)b"`, `""`,
	"@base64", `@base64 "x"`, `@json "\(.)"`, ".", "..", ".a", ".a1", ".if", `."k"`, `."k\(1)"`, ".[0]", ".[]", "$x", "$x1", "$__loc__", "$m::v",
	"{}", "{a:1}", `{"a":1}`, "[]", "[1]", "(1)", "(.a)", "(1,2)", "f", "f1", "f(1)", "f(1;2)", "m::f", "-.a", "-f", "-(1)", "null", "true", "false",
	"if . then 1 end", "try 1", "try 1 catch 2", "reduce . as $x (0;1)", "foreach . as $x (0;1;2)", "break $x", "-1.5e3", "1e1000", "100000000000000000000"}
var mxFirst = []string{".x", ".a1", ".if", "._x", ".e1", ".E2", ".x1", `."str"`, `."s\(1)"`, `.""`, `.["k"]`, ".[0]", ".[1:2]", ".[:2]", ".[1:]", ".[]",
	"[0]", `["k"]`, "[1:2]", "[:2]", "[1:]", "[]", "?", ".x?", `."k"?`, "..", ". x"}
var mxSecond = []string{"", ".y", `."z"`, "[0]", "[]", "?", ".[1]", ".e2", ".[]", `.["k"]`, " .y", ` ."z"`, " [0]", " ?"}

func suffixMatrix(c *Ctx, each func(src string)) {
	for _, t := range mxTerms {
		for _, f := range mxFirst {
			for _, sp := range []string{"", " "} {
				core := t + sp + f
				for _, g := range mxSecond {
					each(core + g)
				}
				each("[" + core + "]")
				each("[" + core + ", " + core + "]")
				each("{a: " + core + "}")
				each("{(" + core + "): " + core + "}")
				each(`"x\(` + core + `)y"`)
				each("-" + core)
				each(core + " | " + core)
				each(core + " + " + core)
				each("f(" + core + "; " + core + ")")
				each(".[" + core + "]")
				each(".[" + core + ":" + core + "]")
				each(core + " as $v | $v")
				each("try " + core + " catch " + core)
				each("if " + core + " then " + core + " else " + core + " end")
				each("reduce " + core + " as $v (" + core + "; " + core + ")")
			}
		}
	}
}

// stringMatrix: interpolated strings piece by piece.  Every piece is drawn from a class (empty, plain ASCII, raw
// control characters, escapes, non-ASCII, invalid UTF-8, mixed); all class tuples for 1, 2 and 3 pieces, a sample
// for 4; the interpolated queries rotate over {1, ., "x", "\(1)", (1,2)}; each string bare, behind a format, as
// object key (plain, shorthand, computed) and in index position.  each(src, alt): alt spells the raw control
// characters of src as escapes and must parse to a DeepEqual AST.
type piece struct{ raw, esc string }

var pieceClasses = [][]piece{
	{{"", ""}},
	{{"ab", "ab"}, {" x ", " x "}, {"#(", "#("}},
	{{"a\tb", `a\tb`}, {"\n", `\n`}, {"\x01\r", `\u0001\r`}, {"\x7f", `\u007f`}, {"\t", `\t`}, {"\x1f\x00", `\u001f\u0000`}},
	{{`\n`, `\n`}, {`\t\"`, `\t\"`}, {`\\\/`, `\\\/`}, {`\b\f\r`, `\b\f\r`}, {`\u00e9`, `\u00e9`}, {`\ud83d\ude00`, `\ud83d\ude00`}, {`\ud800`, `\ud800`}, {`\u0000`, `\u0000`}},
	{{"é", "é"}, {"日本", "日本"}, {"😀", "😀"}},
	{{"\xff", "\xff"}, {"\xc3", "\xc3"}, {"\xe2\x82", "\xe2\x82"}},
	{{"a\t\\n é", `a\t\n é`}, {"\n\\u00e9\xff", `\n\u00e9` + "\xff"}, {"😀\r\\\"", `😀\r\"`}},
}
var pieceQueries = []string{"1", ".", `"x"`, `"\(1)"`, "(1,2)", `"a\tb"`, `"\n"`}

func stringMatrix(c *Ctx, each func(src, alt string)) {
	n := 0
	emit := func(classes []int) {
		n++
		var raw, esc strings.Builder
		for i, k := range classes {
			ps := pieceClasses[k]
			p := ps[(n+i)%len(ps)]
			if i > 0 {
				q := pieceQueries[(n+i)%len(pieceQueries)]
				raw.WriteString(`\(` + q + `)`)
				esc.WriteString(`\(` + q + `)`)
			}
			raw.WriteString(p.raw)
			esc.WriteString(p.esc)
		}
		r, e := `"`+raw.String()+`"`, `"`+esc.String()+`"`
		for _, w := range [][2]string{{"", ""}, {"@base64 ", ""}, {"{", ": 1}"}, {"{", "}"}, {"{(", "): 2}"}, {".[", "]"}, {".", ""}, {".a.", "?"}, {"[", ", 1]"}, {". as {", ": $v} | $v"}} {
			each(w[0]+r+w[1], w[0]+e+w[1])
		}
	}
	nc := len(pieceClasses)
	for a := 0; a < nc; a++ {
		for rep := 0; rep < 8; rep++ { // every representative of the class as a single-piece (plain) string and as first piece
			emit([]int{a})
			emit([]int{a, 0})
		}
		for b := 0; b < nc; b++ {
			emit([]int{a, b})
			emit([]int{b, a})
			for d := 0; d < nc; d++ {
				emit([]int{a, b, d})
			}
		}
	}
	for i := 0; i < 400; i++ {
		emit([]int{c.Rng.Intn(nc), c.Rng.Intn(nc), c.Rng.Intn(nc), c.Rng.Intn(nc)})
	}
}

func runLex(c *Ctx) {
	var corpusPath string
	var explicit []string
	for i := 0; i < len(c.Args); i++ {
		if strings.HasPrefix(c.Args[i], "corpus=") {
			corpusPath = strings.TrimPrefix(c.Args[i], "corpus=")
		} else if b, err := hex.DecodeString(c.Args[i]); err == nil {
			explicit = append(explicit, string(b))
		}
	}
	if len(explicit) > 0 {
		for _, s := range explicit {
			processSource(c, s, "explicit", 6, 0)
		}
		return
	}
	thorough := c.Tier != "quick"
	nresp, nmut := 2, 2
	if thorough {
		nresp, nmut = 6, 8
	}
	for _, s := range trickySeeds {
		processSource(c, s, "seed", 3*nresp, nmut)
	}
	nm := 0
	suffixMatrix(c, func(src string) {
		nm++
		p := checkSource(c, src, "matrix")
		// token streams of the matrix: every source in the thorough tier, a deterministic sample otherwise
		if thorough || nm%8 == int(c.Seed%8) {
			emitLex(c, src)
			if p.panic == nil && p.err == nil && (thorough || nm%64 == int(c.Seed%8)) {
				if rs, changed := respace(c.Rng, src, 50); changed {
					p2 := checkSource(c, rs, "respaced")
					emitLex(c, rs)
					switch {
					case p2.panic != nil:
					case p2.err != nil:
						c.Violation("respace %q :: accepted, but the re-spaced %q is rejected: %v", src, rs, p2.err)
					case !reflect.DeepEqual(p.q, p2.q):
						c.Violation("respace %q :: the re-spaced %q parses to a different AST: %q", src, rs, p2.q.String())
					}
				}
			}
		}
	})
	c.Stats["matrix"] = nm
	ns := 0
	stringMatrix(c, func(src, alt string) {
		ns++
		p := checkSource(c, src, "strings")
		emitLex(c, src)
		if alt != src {
			p2 := checkSource(c, alt, "strings")
			emitLex(c, alt)
			switch {
			case p.panic != nil || p2.panic != nil:
			case (p.err == nil) != (p2.err == nil):
				c.Violation("spelling %q :: with the raw control characters written as escapes, %q, the outcome differs: %v vs %v", src, alt, p.err, p2.err)
			case p.err == nil && !reflect.DeepEqual(p.q, p2.q):
				c.Violation("spelling %q :: with the raw control characters written as escapes, %q, the AST differs", src, alt)
			}
		}
	})
	c.Stats["strings"] = ns
	// a comment is irrelevant whatever it contains
	if a, b := safeParse("1 + 2"), safeParse("1 #\x00\n+ 2"); a.q != nil && !reflect.DeepEqual(a.q, b.q) {
		got := "rejected"
		if b.q != nil {
			got = b.q.String()
		}
		c.Violation("respace %q :: a NUL byte inside a comment ends the program: parses as %q, while \"1 #c\\n+ 2\" parses as \"1 + 2\"", "1 #\x00\n+ 2", got)
	}
	corpus := loadCorpus(corpusPath)
	for _, s := range corpus {
		processSource(c, s, "corpus", nresp, nmut)
	}
	c.Stats["corpus"] = len(corpus)
	g := &gen{c.Rng}
	for i := 0; i < c.N; i++ {
		processSource(c, g.program(1+g.r.Intn(4)), "generated", nresp, nmut)
	}
	// random byte strings over a lexically interesting alphabet
	alpha := []string{"\"", "\\", "(", ")", "u", "0", "a", "F", ".", "e", "+", "-", "#", "\n", "\r", " ", "?", "/", "=", "|", "$", ":", "@", "x", "1", "\x00", "\xc3", "\xa9", "\xff", "[", "]", "{", "}", ",", ";", "<", ">", "!", "%", "*", "_", "E", "\t", "n"}
	for i := 0; i < c.N; i++ {
		n := 1 + c.Rng.Intn(12)
		var sb strings.Builder
		for j := 0; j < n; j++ {
			sb.WriteString(alpha[c.Rng.Intn(len(alpha))])
		}
		s := sb.String()
		checkSource(c, s, "random")
		emitLex(c, s)
	}
	c.Stats["emul_mismatch"] = emul
}

// runOne: explicit sources (hex) through the oracles only; prints what happened (for replay)
func runOne(c *Ctx) {
	for _, h := range c.Args {
		b, err := hex.DecodeString(h)
		if err != nil {
			continue
		}
		processSource(c, string(b), "explicit", 12, 0)
	}
	c.Stats["emul_mismatch"] = emul
}
