// C09c stream `full`: the full-grammar parser and printer models (coq/c09/ParseFull.v, Printer.v) against the
// implementation.  One line per distinct source:
//
//	(full <h src> <prog> <h String()>)          Parse accepted: the AST (module metadata included) and its print
//	(full <h src> (err <Offset> <h Token>) -)   Parse failed with that *ParseError
//
// Sources: the tricky seeds, every argument string of cli/test.yaml, the suffix and string matrices (a
// deterministic sample in the quick tier), generated programs of the full surface grammar with re-spacings and
// token/byte mutations (malformed programs), random strings over a lexical alphabet, and — for every accepted
// source — its print q.String() (so re-parsed prints are cases too).  The implementation-side oracles (roundtrip,
// respace, ...) are those of the lex stream and are not repeated here.
package main

import (
	"encoding/hex"
	"strings"

	. "verifharness/hlib"

	"github.com/itchyny/gojq"
)

var seenFull = map[string]bool{}

func emitFull(c *Ctx, src string, depth int) {
	if seenFull[src] {
		return
	}
	seenFull[src] = true
	p := safeParse(src)
	if p.panic != nil {
		return // reported by the panic oracle of the lex stream
	}
	if p.err != nil {
		pe, ok := p.err.(*gojq.ParseError)
		if !ok {
			return
		}
		c.Count("rejected")
		c.Emit("(full %s (err %d %s) -)", hexl([]byte(src)), pe.Offset, hexl([]byte(pe.Token)))
		return
	}
	s, pan := safeString(p.q)
	if pan != nil {
		return
	}
	c.Count("accepted")
	c.Emit("(full %s %s %s)", hexl([]byte(src)), sexpProg(p.q), hexl([]byte(s)))
	if depth < 2 {
		emitFull(c, s, depth+1)
	}
}

func runFull(c *Ctx) {
	var corpusPath string
	var explicit []string
	for i := 0; i < len(c.Args); i++ {
		if strings.HasPrefix(c.Args[i], "corpus=") {
			corpusPath = strings.TrimPrefix(c.Args[i], "corpus=")
		} else if b, err := hex.DecodeString(c.Args[i]); err == nil {
			explicit = append(explicit, string(b))
		}
	}
	if len(explicit) > 0 {
		for _, s := range explicit {
			emitFull(c, s, 0)
		}
		return
	}
	thorough := c.Tier != "quick"
	nresp, nmut := 1, 2
	if thorough {
		nresp, nmut = 3, 6
	}
	each := func(src string) {
		emitFull(c, src, 0)
		for i := 0; i < nresp; i++ {
			if rs, changed := respace(c.Rng, src, []int{100, 50, 20}[i%3]); changed {
				emitFull(c, rs, 0)
			}
		}
		for i := 0; i < nmut; i++ {
			emitFull(c, mutate(c.Rng, src), 0)
		}
	}
	for _, s := range trickySeeds {
		each(s)
	}
	for _, s := range loadCorpus(corpusPath) {
		each(s)
	}
	nm := 0
	suffixMatrix(c, func(src string) {
		nm++
		if thorough && nm%4 == int(c.Seed%4) || nm%97 == int(c.Seed%97) {
			emitFull(c, src, 0)
		}
	})
	ns := 0
	stringMatrix(c, func(src, alt string) {
		ns++
		if thorough || ns%16 == int(c.Seed%16) {
			emitFull(c, src, 0)
			if alt != src {
				emitFull(c, alt, 0)
			}
		}
	})
	g := &gen{c.Rng}
	for i := 0; i < c.N; i++ {
		each(g.program(1 + g.r.Intn(4)))
	}
	alpha := []string{"\"", "\\", "(", ")", "u", "0", "a", "F", ".", "e", "+", "-", "#", "\n", " ", "?", "/", "=", "|", "$", ":", "@", "x", "1", "\x00", "\xc3", "\xa9", "\xff", "[", "]", "{", "}", ",", ";", "<", "!", "%", "*", "_", "n"}
	for i := 0; i < c.N/2; i++ {
		n := 1 + c.Rng.Intn(10)
		var sb strings.Builder
		for j := 0; j < n; j++ {
			sb.WriteString(alpha[c.Rng.Intn(len(alpha))])
		}
		emitFull(c, sb.String(), 0)
	}
}
