package main

// Transport: parser for the s-expression case lines (the printer is hlib.SexpVal plus the two
// extra atoms anil / onil for a nil []any / nil map[string]any).

import (
	"encoding/hex"
	"encoding/json"
	"fmt"
	"math"
	"math/big"
	"sort"
	"strconv"
	"strings"

	. "verifharness/hlib"
)

type sx struct {
	atom string
	list []*sx
	isl  bool
}

func parseSx(s string) (*sx, error) {
	pos := 0
	var rec func() (*sx, error)
	rec = func() (*sx, error) {
		for pos < len(s) && s[pos] == ' ' {
			pos++
		}
		if pos >= len(s) {
			return nil, fmt.Errorf("unexpected end")
		}
		if s[pos] == '(' {
			pos++
			n := &sx{isl: true}
			for {
				for pos < len(s) && s[pos] == ' ' {
					pos++
				}
				if pos >= len(s) {
					return nil, fmt.Errorf("unclosed list")
				}
				if s[pos] == ')' {
					pos++
					return n, nil
				}
				c, err := rec()
				if err != nil {
					return nil, err
				}
				n.list = append(n.list, c)
			}
		}
		if s[pos] == ')' {
			return nil, fmt.Errorf("unexpected )")
		}
		st := pos
		for pos < len(s) && s[pos] != ' ' && s[pos] != '(' && s[pos] != ')' {
			pos++
		}
		return &sx{atom: s[st:pos]}, nil
	}
	n, err := rec()
	if err != nil {
		return nil, err
	}
	for pos < len(s) && s[pos] == ' ' {
		pos++
	}
	if pos != len(s) {
		return nil, fmt.Errorf("trailing text")
	}
	return n, nil
}

func unhex(a string) (string, error) {
	if a == "-" {
		return "", nil
	}
	b, err := hex.DecodeString(a)
	return string(b), err
}

// sxVal decodes a transport value into the Go representation it names.
func sxVal(n *sx) (any, error) {
	if !n.isl {
		switch n.atom {
		case "null":
			return nil, nil
		case "true":
			return true, nil
		case "false":
			return false, nil
		case "anil":
			return []any(nil), nil
		case "onil":
			return map[string]any(nil), nil
		}
		return nil, fmt.Errorf("bad atom %q", n.atom)
	}
	if len(n.list) == 0 || n.list[0].isl {
		return nil, fmt.Errorf("bad value list")
	}
	tag := n.list[0].atom
	arg := func() (string, error) {
		if len(n.list) != 2 || n.list[1].isl {
			return "", fmt.Errorf("bad %s", tag)
		}
		return n.list[1].atom, nil
	}
	switch tag {
	case "i":
		a, err := arg()
		if err != nil {
			return nil, err
		}
		i, err := strconv.ParseInt(a, 10, 64)
		return int(i), err
	case "b":
		a, err := arg()
		if err != nil {
			return nil, err
		}
		z, ok := new(big.Int).SetString(a, 10)
		if !ok {
			return nil, fmt.Errorf("bad big")
		}
		return z, nil
	case "f":
		a, err := arg()
		if err != nil {
			return nil, err
		}
		u, err := strconv.ParseUint(a, 10, 64)
		return math.Float64frombits(u), err
	case "l":
		a, err := arg()
		if err != nil {
			return nil, err
		}
		s, err := unhex(a)
		return json.Number(s), err
	case "s":
		a, err := arg()
		if err != nil {
			return nil, err
		}
		return unhex(a)
	case "a":
		xs := make([]any, 0, len(n.list)-1)
		for _, c := range n.list[1:] {
			v, err := sxVal(c)
			if err != nil {
				return nil, err
			}
			xs = append(xs, v)
		}
		return xs, nil
	case "o":
		m := make(map[string]any, len(n.list)-1)
		for _, c := range n.list[1:] {
			if !c.isl || len(c.list) != 2 || c.list[0].isl {
				return nil, fmt.Errorf("bad object entry")
			}
			k, err := unhex(c.list[0].atom)
			if err != nil {
				return nil, err
			}
			v, err := sxVal(c.list[1])
			if err != nil {
				return nil, err
			}
			m[k] = v
		}
		return m, nil
	}
	return nil, fmt.Errorf("bad tag %q", tag)
}

// valSx prints a Go value in the transport format (nil slice / nil map kept apart).
func valSx(v any) string {
	switch v := v.(type) {
	case []any:
		if v == nil {
			return "anil"
		}
		var b strings.Builder
		b.WriteString("(a")
		for _, x := range v {
			b.WriteByte(' ')
			b.WriteString(valSx(x))
		}
		b.WriteByte(')')
		return b.String()
	case map[string]any:
		if v == nil {
			return "onil"
		}
		keys := make([]string, 0, len(v))
		for k := range v {
			keys = append(keys, k)
		}
		sort.Strings(keys)
		var b strings.Builder
		b.WriteString("(o")
		for _, k := range keys {
			b.WriteString(" (" + Hexs([]byte(k)) + " " + valSx(v[k]) + ")")
		}
		b.WriteByte(')')
		return b.String()
	}
	return SexpVal(v)
}

func hexList(xs []string) string {
	var b strings.Builder
	b.WriteByte('(')
	for i, x := range xs {
		if i > 0 {
			b.WriteByte(' ')
		}
		b.WriteString(Hexs([]byte(x)))
	}
	b.WriteByte(')')
	return b.String()
}

func unhexList(n *sx) ([]string, error) {
	if !n.isl {
		return nil, fmt.Errorf("expected list")
	}
	out := make([]string, 0, len(n.list))
	for _, c := range n.list {
		if c.isl {
			return nil, fmt.Errorf("expected atom")
		}
		s, err := unhex(c.atom)
		if err != nil {
			return nil, err
		}
		out = append(out, s)
	}
	return out, nil
}
