package main

// C08 harness.
//   crash    stream A: crash search over library and command (implementation-only oracle), cases run
//            in a pool of child worker processes so that a fatal runtime error is attributed to a case
//   flags    stream C: parseFlags outcome on random argument vectors (judged by the extracted model)
//   preview  stream D: Preview / typeErrorPreview truncation (judged by the extracted model)
//   lr       stream B: token numbers fed to the goyacc driver + accept/reject (judged by the model)
//   worker   (internal) child process; replay <case> runs one case in a child and prints the result

import (
	"bufio"
	"bytes"
	"encoding/json"
	"fmt"
	"io"
	"os"
	"os/exec"
	"path/filepath"
	"runtime"
	"sort"
	"strconv"
	"strings"
	"sync"
	"time"

	"github.com/itchyny/gojq"
	"github.com/itchyny/gojq/cli"
	. "verifharness/hlib"
)

func repoDir() string {
	if r := os.Getenv("VERIF_REPO"); r != "" {
		return r
	}
	return "/repo"
}

func main() {
	if len(os.Args) >= 2 && os.Args[1] == "worker" {
		cfg := workerCfg{repo: repoDir(), deadline: 100 * time.Millisecond, memMB: 2048}
		for i := 2; i+1 < len(os.Args); i += 2 {
			switch os.Args[i] {
			case "-deadline":
				ms, _ := strconv.Atoi(os.Args[i+1])
				cfg.deadline = time.Duration(ms) * time.Millisecond
			case "-mem":
				mb, _ := strconv.Atoi(os.Args[i+1])
				cfg.memMB = uint64(mb)
			}
		}
		workerMain(cfg)
		return
	}
	if len(os.Args) >= 3 && os.Args[1] == "replay" {
		p := newPool(1, 200, 15*time.Second, filepath.Join(filepath.Dir(os.Args[0]), "gojq-c08"))
		res := p.run(os.Args[2])
		fmt.Printf("%s\n%s\n", res.class, res.detail)
		p.close()
		if res.failed() {
			os.Exit(1)
		}
		return
	}
	Register("crash", runCrash)
	Register("flags", runFlags)
	Register("preview", runPreview)
	Register("lr", runLR)
	Register("cmd", runCmd)
	Main()
}

// ---------------------------------------------------------------------------------------------
// worker pool

type result struct {
	class  string // worker classes + FATAL | hang | oom
	detail string
}

func (r result) failed() bool { return r.class == "PANIC" || r.class == "VIOL" || r.class == "FATAL" }

type proc struct {
	cmd    *exec.Cmd
	in     io.WriteCloser
	out    *bufio.Reader
	stderr *bytes.Buffer
}

type pool struct {
	n        int
	deadline int
	watchdog time.Duration
	gojqBin  string
	jobs     chan job
	wg       sync.WaitGroup
}

type job struct {
	line string
	done func(result)
}

func newPool(n, deadlineMs int, watchdog time.Duration, gojqBin string) *pool {
	p := &pool{n: n, deadline: deadlineMs, watchdog: watchdog, gojqBin: gojqBin, jobs: make(chan job, 4*n)}
	for i := 0; i < n; i++ {
		p.wg.Add(1)
		go p.loop()
	}
	return p
}

func (p *pool) spawn() *proc {
	cmd := exec.Command(os.Args[0], "worker", "-deadline", strconv.Itoa(p.deadline))
	cmd.Env = append(os.Environ(), "VERIF_REPO="+repoDir(), "GOTRACEBACK=single")
	in, _ := cmd.StdinPipe()
	out, _ := cmd.StdoutPipe()
	eb := &bytes.Buffer{}
	cmd.Stderr = eb
	if err := cmd.Start(); err != nil {
		panic(err)
	}
	return &proc{cmd: cmd, in: in, out: bufio.NewReaderSize(out, 1<<20), stderr: eb}
}

func (w *proc) kill() {
	w.in.Close()
	w.cmd.Process.Kill()
	w.cmd.Wait()
}

func (p *pool) loop() {
	defer p.wg.Done()
	var w *proc
	for j := range p.jobs {
		if strings.HasPrefix(j.line, "(bin ") {
			j.done(runBinary(p.gojqBin, j.line))
			continue
		}
		if w == nil {
			w = p.spawn()
		}
		res, alive := p.exchange(w, j.line)
		if !alive || strings.HasPrefix(res.detail, "Parse did not return") {
			w.kill()
			w = nil
		}
		j.done(res)
	}
	if w != nil {
		w.kill()
	}
}

func (p *pool) exchange(w *proc, line string) (result, bool) {
	if _, err := io.WriteString(w.in, line+"\n"); err != nil {
		w.cmd.Wait()
		return classifyDeath(w.stderr.String()), false
	}
	type rd struct {
		s   string
		err error
	}
	ch := make(chan rd, 1)
	go func() {
		s, err := w.out.ReadString('\n')
		ch <- rd{s, err}
	}()
	select {
	case r := <-ch:
		if r.err != nil {
			w.cmd.Wait()
			return classifyDeath(w.stderr.String()), false
		}
		class, hx, _ := strings.Cut(strings.TrimRight(r.s, "\n"), " ")
		d, _ := unhex(hx)
		return result{class, d}, true
	case <-time.After(p.watchdog):
		return result{"hang", ""}, false
	}
}

// a dead worker: out-of-memory under the address-space limit is outside the claim; anything else
// (stack overflow, concurrent map access, nil dereference in a goroutine …) is a fatal error
func classifyDeath(stderr string) result {
	// the worker marks the parse stage: dying inside Parse (even of memory exhaustion) is a parser failure,
	// the driver is proved to terminate within a linear number of rounds
	if i := strings.LastIndex(stderr, "c08-stage "); i >= 0 && strings.HasPrefix(stderr[i:], "c08-stage parse\n") {
		rest := stderr[i+len("c08-stage parse\n"):]
		if len(rest) > 1200 {
			rest = rest[:600] + "\n...\n" + rest[len(rest)-600:]
		}
		return result{"FATAL", "the worker died inside gojq.Parse: " + rest}
	}
	stderr = strings.ReplaceAll(strings.ReplaceAll(stderr, "c08-stage parsed\n", ""), "c08-stage parse\n", "")
	for _, m := range []string{"out of memory", "cannot allocate memory", "failed to reserve", "runtime: cannot map pages", "failed to allocate"} {
		if strings.Contains(stderr, m) {
			return result{"oom", ""}
		}
	}
	if len(stderr) > 1500 {
		stderr = stderr[:700] + "\n...\n" + stderr[len(stderr)-700:]
	}
	return result{"FATAL", stderr}
}

func (p *pool) run(line string) result {
	var res result
	var wg sync.WaitGroup
	wg.Add(1)
	p.jobs <- job{line, func(r result) { res = r; wg.Done() }}
	wg.Wait()
	return res
}

func (p *pool) close() { close(p.jobs); p.wg.Wait() }

// the built command in a child process under ulimit -v and timeout
func runBinary(bin, line string) result {
	n, err := parseSx(line)
	if err != nil || len(n.list) != 4 {
		return result{"badcase", "bin"}
	}
	args, err1 := unhexList(n.list[1])
	stdin, err2 := unhex(n.list[2].atom)
	if err1 != nil || err2 != nil {
		return result{"badcase", "bin"}
	}
	for _, a := range args {
		if strings.ContainsRune(a, 0) {
			return result{"skip", ""}
		}
	}
	sh := "ulimit -v 2097152; exec timeout -s KILL 10 \"$0\" \"$@\""
	cmd := exec.Command("bash", append([]string{"-c", sh, bin}, args...)...)
	cmd.Dir = filepath.Join(repoDir(), "cli")
	cmd.Env = []string{"HOME=/nonexistent-c08", "PATH=/usr/bin:/bin", "GOTRACEBACK=single"}
	for _, c := range n.list[3].list {
		kv, err := unhexList(c)
		if err == nil && len(kv) == 2 && !strings.ContainsRune(kv[0]+kv[1], 0) {
			cmd.Env = append(cmd.Env, kv[0]+"="+kv[1])
		}
	}
	cmd.Stdin = strings.NewReader(stdin)
	var so, se capWriter
	so.max, se.max = 1<<62, 1<<62
	cmd.Stdout, cmd.Stderr = &so, &se
	err = cmd.Run()
	st := 0
	if ee, ok := err.(*exec.ExitError); ok {
		st = ee.ExitCode()
	} else if err != nil {
		return result{"skip", err.Error()}
	}
	errs := string(se.buf)
	if st == 137 || st == -1 || st == 124 {
		return result{"hang", ""}
	}
	if r := classifyDeath(errs); r.class == "oom" {
		return r
	}
	if tr := stackTraceIn(errs); tr != "" {
		return result{"FATAL", fmt.Sprintf("exit status %d, stderr: %s", st, tr)}
	}
	if st > 5 {
		if bad := badStatus(st, args, stdin); bad != "" {
			return result{"VIOL", bad}
		}
	}
	return result{fmt.Sprintf("ok%d", st), ""}
}

// ---------------------------------------------------------------------------------------------
// stream A

func loadBuiltins() (bs []builtin) {
	// a tree whose parser or VM is broken must still get its crash search: fall back to a fixed list
	defer func() {
		if r := recover(); r != nil || len(bs) == 0 {
			bs = nil
			for _, s := range strings.Fields("length/0 keys/0 map/1 select/1 path/1 getpath/1 setpath/2 delpaths/1 to_entries/0 from_entries/0 mktime/0 gmtime/0 strftime/1 strptime/1 todate/0 test/2 sub/3 gsub/2 split/2 implode/0 explode/0 tojson/0 fromjson/0 limit/2 range/3 first/1 until/2 flatten/1 join/1 ltrimstr/1 add/0 sort_by/1 group_by/1 indices/1 splits/1 ascii/0 tostring/0 tonumber/0 error/1 input/0") {
				name, ar, _ := strings.Cut(s, "/")
				n, _ := strconv.Atoi(ar)
				bs = append(bs, builtin{name, n})
			}
		}
	}()
	q, err := gojq.Parse("builtins[]")
	if err != nil {
		return nil
	}
	it := q.Run(nil)
	for {
		v, ok := it.Next()
		if !ok {
			break
		}
		s, ok := v.(string)
		if !ok {
			return nil
		}
		name, ar, _ := strings.Cut(s, "/")
		n, _ := strconv.Atoi(ar)
		bs = append(bs, builtin{name, n})
	}
	sort.Slice(bs, func(i, j int) bool { return bs[i].name+"/"+fmt.Sprint(bs[i].arity) < bs[j].name+"/"+fmt.Sprint(bs[j].arity) })
	return bs
}

func loadCorpus() []corpusQuery {
	tests, err := cli.VerifC08Corpus(filepath.Join(repoDir(), "cli", "test.yaml"))
	if err != nil {
		panic(err)
	}
	var out []corpusQuery
	for _, t := range tests {
		cq := corpusQuery{input: t.Input, args: t.Args, env: t.Env, query: "."}
		func() {
			defer func() { _ = recover() }() // a panicking parseFlags is the flags/cli streams' business
			rest, _, err := cli.VerifC08ParseFlags(t.Args)
			if err == nil && len(rest) > 0 {
				cq.query = rest[0]
				if bs, err := os.ReadFile(filepath.Join(repoDir(), "cli", rest[0])); err == nil && len(rest[0]) < 100 {
					cq.query = string(bs) // -f file
				}
			}
		}()
		out = append(out, cq)
	}
	return out
}

func (g *gen) corpusInput(cq corpusQuery) any {
	dec := json.NewDecoder(strings.NewReader(cq.input))
	dec.UseNumber()
	var v any
	if err := dec.Decode(&v); err != nil {
		return g.input()
	}
	return g.rerep(v)
}

type failure struct {
	line   string
	res    result
	sig    string
	stream string
}

func signature(r result) string {
	// class + first line of the message + first gojq frame
	lines := strings.Split(r.detail, "\n")
	sig := r.class + ": " + lines[0]
	for _, l := range lines[1:] {
		if strings.Contains(l, "gojq") && strings.Contains(l, "(") && !strings.HasPrefix(l, "\t") {
			sig += " @ " + strings.TrimSpace(l[:strings.Index(l, "(")])
			break
		}
	}
	if len(sig) > 300 {
		sig = sig[:300]
	}
	// numbers (indices, lengths, addresses) vary between instances of one defect
	var b strings.Builder
	for i := 0; i < len(sig); i++ {
		if sig[i] >= '0' && sig[i] <= '9' {
			if i == 0 || sig[i-1] < '0' || sig[i-1] > '9' {
				b.WriteByte('N')
			}
			continue
		}
		b.WriteByte(sig[i])
	}
	return b.String()
}

func runCrash(c *Ctx) {
	g := &gen{r: c.Rng, builtins: loadBuiltins(), corpus: loadCorpus()}
	nw := runtime.NumCPU()
	deadline := 100
	if c.Tier == "thorough" {
		deadline = 200
	}
	gojqBin := ""
	for _, a := range c.Args {
		if strings.HasPrefix(a, "gojq=") {
			gojqBin = a[5:]
		}
	}
	watchdog := 6 * time.Second
	if c.Tier == "thorough" {
		watchdog = 12 * time.Second
	}
	p := newPool(nw, deadline, watchdog, gojqBin)
	var mu sync.Mutex
	classes := map[string]int{}
	var fails []failure
	var hangs []string
	var pending sync.WaitGroup
	submit := func(stream, line string) {
		pending.Add(1)
		p.jobs <- job{line, func(r result) {
			mu.Lock()
			classes[stream+":"+r.class]++
			if r.failed() {
				fails = append(fails, failure{line, r, signature(r), stream})
			} else if (r.class == "hang" || r.class == "oom") && len(hangs) < 40 {
				hangs = append(hangs, r.class+" "+line)
			}
			mu.Unlock()
			pending.Done()
		}}
		c.Emit("%s", line)
		c.Count(stream)
	}
	vars := func() []any { return []any{g.input(), g.scalar(), g.value(2)} }

	// explicit cases (replay / regression)
	for _, a := range c.Args {
		if strings.HasPrefix(a, "(") {
			submit("explicit", a)
		}
	}
	// regression seeds: the two repaired panics and the other baseline observations
	for _, q := range []string{"1 + (label $l | .)", ".[]", "first(.[])", "limit(1;.[])", "label $f|1, break $f", "path(.[])", "{}|.[]",
		"path([][])", "path({}[])", "path([][].a)", "path(scan(\"\"))", ".[]|error", "path(..|error)"} {
		for _, in := range []any{nil, []any{}, map[string]any{}, []any{1}, ""} {
			submit("seed", libCase(q, in, nil))
		}
	}
	n := c.N
	nb := len(g.builtins)
	// 1. every corpus query unchanged on its own input and on pool inputs
	for i, cq := range g.corpus {
		submit("corpus", libCase(cq.query, g.corpusInput(cq), vars()))
		if i%2 == 0 {
			submit("corpus-poolinput", libCase(cq.query, g.input(), vars()))
		}
	}
	// 2. every builtin systematically, several rounds
	rounds := n / 10 / max(nb, 1)
	for rd := 0; rd < max(rounds, 2); rd++ {
		for i := 0; i < nb; i++ {
			submit("builtin", libCase(g.builtinQuery(i), g.input(), vars()))
		}
	}
	// 2b. structured arguments: every family at every size 0..12 (below, at and above what the builtins expect)
	svars := func(size int) []any {
		switch g.r.Intn(4) {
		case 0:
			return []any{g.numArray(size, 10), timeFormats[g.r.Intn(len(timeFormats))], g.num()}
		case 1:
			return []any{g.pathValue(2), g.scalar(), g.entriesValue()}
		case 2:
			return []any{g.num(), g.num(), g.numArray(size, 30)}
		}
		return vars()
	}
	reps := max(n/5000, 3)
	for rep := 0; rep < reps; rep++ {
		for fam := 0; fam < nFamilies; fam++ {
			for size := 0; size <= 12; size++ {
				q, in := g.structuredCase(fam, size)
				submit("structured", libCase(q, in, svars(size)))
			}
		}
	}
	// 3. mutations, grammar, structured, command
	for i := 0; i < n; i++ {
		k := g.r.Intn(20)
		if k == 19 && !g.r.Chance(1, 4) {
			k = g.r.Intn(19) // child-process runs of the binary are slow: 1 case in 80
		}
		switch {
		case k < 4:
			size := g.r.Intn(13)
			q, in := g.structuredCase(g.r.Intn(nFamilies), size)
			submit("structured", libCase(q, in, svars(size)))
		case k < 9:
			cq := g.corpus[g.r.Intn(len(g.corpus))]
			other := g.corpus[g.r.Intn(len(g.corpus))].query
			in := g.corpusInput(cq)
			if g.r.Chance(1, 3) {
				in = g.input()
			}
			submit("mutation", libCase(g.mutate(cq.query, other), in, vars()))
		case k < 15:
			submit("grammar", libCase(g.grammarQuery(), g.input(), vars()))
		case k < 19:
			args, stdin, env := g.cliCase()
			submit("cli", cliCaseLine("cli", args, stdin, env))
		default:
			if gojqBin != "" {
				args, stdin, env := g.cliCase()
				submit("bin", cliCaseLine("bin", args, stdin, env))
			} else {
				submit("grammar", libCase(g.grammarQuery(), g.input(), vars()))
			}
		}
	}
	pending.Wait()

	// minimise and report distinct failures
	seen := map[string]bool{}
	var reported []map[string]string
	for _, f := range fails {
		if seen[f.sig] {
			continue
		}
		seen[f.sig] = true
		if len(reported) >= 6 {
			continue
		}
		min := minimise(p, f)
		c.Violation("%s", min)
		r2 := p.run(min)
		reported = append(reported, map[string]string{"case": min, "original": f.line, "class": r2.class, "detail": r2.detail, "stream": f.stream, "readable": readable(min)})
	}
	p.close()
	c.Stats["classes"] = classes
	c.Stats["failures_total"] = len(fails)
	c.Stats["failures_distinct"] = len(seen)
	c.Stats["failures"] = reported
	c.Stats["skipped_unbounded"] = hangs
	c.Stats["builtins"] = nb
	c.Stats["corpus_queries"] = len(g.corpus)
	c.Stats["workers"] = nw
}

// human-readable rendering of a case for the report (the hex line stays the replay key)
func readable(line string) string {
	n, err := parseSx(line)
	if err != nil || !n.isl || len(n.list) < 3 {
		return line
	}
	switch n.list[0].atom {
	case "lib":
		q, _ := unhex(n.list[1].atom)
		in, _ := sxVal(n.list[2])
		return fmt.Sprintf("query=%q input=%s", q, goString(in))
	default:
		args, _ := unhexList(n.list[1])
		stdin, _ := unhex(n.list[2].atom)
		return fmt.Sprintf("args=%q stdin=%q", args, stdin)
	}
}

func goString(v any) string {
	s := fmt.Sprintf("%#v", v)
	if len(s) > 300 {
		s = s[:300] + "..."
	}
	return s
}

// delta-debug the query bytes (lib) or the argument list + stdin (cli) keeping the failure signature class
func minimise(p *pool, f failure) string {
	n, err := parseSx(f.line)
	if err != nil {
		return f.line
	}
	same := func(line string) bool {
		r := p.run(line)
		return r.failed() && signature(r) == f.sig
	}
	budget := 400
	ddmin := func(cur []byte, build func([]byte) string) []byte {
		chunk := len(cur) / 2
		for chunk >= 1 && budget > 0 {
			progress := false
			for i := 0; i+chunk <= len(cur) && budget > 0; {
				cand := append(append([]byte(nil), cur[:i]...), cur[i+chunk:]...)
				budget--
				if same(build(cand)) {
					cur = cand
					progress = true
				} else {
					i += chunk
				}
			}
			if !progress || chunk > len(cur) {
				chunk /= 2
			}
			if chunk > len(cur) {
				chunk = len(cur)
			}
		}
		return cur
	}
	switch n.list[0].atom {
	case "lib":
		q, _ := unhex(n.list[1].atom)
		inS := sxString(n.list[2])
		varS := sxString(n.list[3])
		build := func(b []byte) string { return fmt.Sprintf("(lib %s %s %s)", Hexs(b), inS, varS) }
		// simpler input / no variables first
		for _, alt := range []string{"null", "(a)", "(o)", "(i 0)", "(s -)"} {
			if cand := fmt.Sprintf("(lib %s %s %s)", Hexs([]byte(q)), alt, varS); same(cand) {
				inS = alt
				break
			}
		}
		if cand := fmt.Sprintf("(lib %s %s ())", Hexs([]byte(q)), inS); same(cand) {
			varS = "()"
		}
		qb := ddmin([]byte(q), build)
		// shrink an array input: drop elements, then replace elements by 0
		if in := n.list[2]; in.isl && len(in.list) > 1 && in.list[0].atom == "a" {
			elems := make([]string, 0, len(in.list)-1)
			for _, e := range in.list[1:] {
				elems = append(elems, sxString(e))
			}
			mk := func(es []string) string { return strings.TrimSpace("(a " + strings.Join(es, " ")) + ")" }
			for i := len(elems) - 1; i >= 0 && budget > 0; i-- {
				cand := append(append([]string(nil), elems[:i]...), elems[i+1:]...)
				budget--
				inS = mk(cand)
				if same(build(qb)) {
					elems = cand
				}
			}
			for i := range elems {
				if elems[i] == "(i 0)" || budget <= 0 {
					continue
				}
				cand := append([]string(nil), elems...)
				cand[i] = "(i 0)"
				budget--
				inS = mk(cand)
				if same(build(qb)) {
					elems = cand
				}
			}
			inS = mk(elems)
		}
		return build(qb)
	case "cli", "bin":
		kind := n.list[0].atom
		args, _ := unhexList(n.list[1])
		stdin, _ := unhex(n.list[2].atom)
		envS := sxString(n.list[3])
		if cand := fmt.Sprintf("(%s %s %s ())", kind, hexList(args), Hexs([]byte(stdin))); same(cand) {
			envS = "()"
		}
		for i := 0; i < len(args) && budget > 0; {
			cand := append(append([]string(nil), args[:i]...), args[i+1:]...)
			budget--
			if same(fmt.Sprintf("(%s %s %s %s)", kind, hexList(cand), Hexs([]byte(stdin)), envS)) {
				args = cand
			} else {
				i++
			}
		}
		sb := ddmin([]byte(stdin), func(b []byte) string {
			return fmt.Sprintf("(%s %s %s %s)", kind, hexList(args), Hexs(b), envS)
		})
		for i := range args {
			ai := i
			ab := ddmin([]byte(args[ai]), func(b []byte) string {
				cand := append([]string(nil), args...)
				cand[ai] = string(b)
				return fmt.Sprintf("(%s %s %s %s)", kind, hexList(cand), Hexs(sb), envS)
			})
			args[ai] = string(ab)
		}
		return fmt.Sprintf("(%s %s %s %s)", kind, hexList(args), Hexs(sb), envS)
	}
	return f.line
}

func sxString(n *sx) string {
	if !n.isl {
		return n.atom
	}
	parts := make([]string, len(n.list))
	for i, c := range n.list {
		parts[i] = sxString(c)
	}
	return "(" + strings.Join(parts, " ") + ")"
}
