package main

// Worker: runs cases one per line from stdin under recover(); answers one line per case:
//   <class> <hex detail>
// class: ok | parse-error | compile-error | timeout | capped | PANIC | VIOL | badcase
// A fatal runtime error (stack overflow, concurrent map write, OOM under the address-space limit)
// kills the worker; the parent attributes it to the case in flight.

import (
	"bufio"
	"context"
	"errors"
	"fmt"
	"io"
	"os"
	"path/filepath"
	"runtime/debug"
	"strings"
	"syscall"
	"time"

	"github.com/itchyny/gojq"
	"github.com/itchyny/gojq/cli"
	. "verifharness/hlib"
)

type workerCfg struct {
	repo     string
	deadline time.Duration
	memMB    uint64
}

var varNames = []string{"$a", "$b", "$c"}

type capWriter struct {
	n, max int
	buf    []byte
}

var errCap = errors.New("output cap reached")

func (w *capWriter) Write(p []byte) (int, error) {
	if w.n+len(p) > w.max {
		return 0, errCap
	}
	w.n += len(p)
	if len(w.buf) < 4096 {
		w.buf = append(w.buf, p...)
	}
	return len(p), nil
}

// a reader that is not an io.Seeker and hands out small chunks (like a pipe)
type pipeReader struct {
	s     string
	chunk int
}

func (r *pipeReader) Read(b []byte) (int, error) {
	if len(r.s) == 0 {
		return 0, io.EOF
	}
	n := len(b)
	if r.chunk > 0 && n > r.chunk {
		n = r.chunk
	}
	n = copy(b[:n], r.s)
	r.s = r.s[n:]
	return n, nil
}

func workerMain(cfg workerCfg) {
	if cfg.memMB > 0 {
		lim := syscall.Rlimit{Cur: cfg.memMB << 20, Max: cfg.memMB << 20}
		_ = syscall.Setrlimit(syscall.RLIMIT_AS, &lim)
	}
	// the corpus refers to testdata/ relative to the cli package directory
	_ = os.Chdir(filepath.Join(cfg.repo, "cli"))
	os.Setenv("HOME", "/nonexistent-c08")
	os.Unsetenv("GOJQ_COLORS")
	os.Unsetenv("NO_COLOR")
	in := bufio.NewReaderSize(os.Stdin, 1<<20)
	out := bufio.NewWriter(os.Stdout)
	for {
		line, err := in.ReadString('\n')
		if len(line) > 0 {
			class, detail := runCase(cfg, strings.TrimRight(line, "\n"))
			fmt.Fprintf(out, "%s %s\n", class, Hexs([]byte(detail)))
			out.Flush()
		}
		if err != nil {
			return
		}
	}
}

func runCase(cfg workerCfg, line string) (class, detail string) {
	n, err := parseSx(line)
	if err != nil || !n.isl || len(n.list) == 0 || n.list[0].isl {
		return "badcase", fmt.Sprint(err)
	}
	switch n.list[0].atom {
	case "lib":
		if len(n.list) != 4 || n.list[1].isl || !n.list[3].isl {
			return "badcase", "lib arity"
		}
		src, err := unhex(n.list[1].atom)
		if err != nil {
			return "badcase", err.Error()
		}
		input, err := sxVal(n.list[2])
		if err != nil {
			return "badcase", err.Error()
		}
		var vars []any
		for _, c := range n.list[3].list {
			v, err := sxVal(c)
			if err != nil {
				return "badcase", err.Error()
			}
			vars = append(vars, v)
		}
		for len(vars) < len(varNames) {
			vars = append(vars, nil)
		}
		return runLib(cfg, src, input, vars[:len(varNames)])
	case "cli":
		if len(n.list) != 4 || n.list[2].isl || !n.list[3].isl {
			return "badcase", "cli arity"
		}
		args, err := unhexList(n.list[1])
		if err != nil {
			return "badcase", err.Error()
		}
		stdin, err := unhex(n.list[2].atom)
		if err != nil {
			return "badcase", err.Error()
		}
		var env [][2]string
		for _, c := range n.list[3].list {
			kv, err := unhexList(c)
			if err != nil || len(kv) != 2 {
				return "badcase", "env"
			}
			env = append(env, [2]string{kv[0], kv[1]})
		}
		return runCli(args, stdin, env)
	}
	return "badcase", "unknown kind"
}

const (
	maxOutputs  = 48
	maxOutBytes = 1 << 20
)

// exercise every public observer on an output value (each may panic on an unsupported Go type)
func observe(v any) int {
	bs, err := gojq.Marshal(v)
	if err != nil {
		panic(fmt.Sprintf("Marshal returned error for an output value: %v", err))
	}
	_ = gojq.Preview(v)
	_ = gojq.VerifC08TypeErrorPreview(v)
	_ = gojq.TypeOf(v)
	_ = gojq.Compare(v, v)
	return len(bs)
}

func runLib(cfg workerCfg, src string, input any, vars []any) (class, detail string) {
	stage := "parse"
	defer func() {
		if r := recover(); r != nil {
			class = "PANIC"
			detail = fmt.Sprintf("stage=%s: %v\n%s", stage, r, trimStack(debug.Stack()))
		}
	}()
	// Parse is proved to return within a number of driver rounds linear in the token count
	// (C08_parse_driver_total_correct): a parse that is still running after 5 s is a hang of the parser, not a
	// program that legitimately needs time.  The worker answers for itself and exits (Parse cannot be interrupted).
	parsed := make(chan struct{})
	if len(src) < 1<<16 {
		os.Stderr.WriteString("c08-stage parse\n")
		go func() {
			select {
			case <-parsed:
			case <-time.After(5 * time.Second):
				fmt.Fprintf(os.Stdout, "VIOL %s\n", Hexs([]byte(fmt.Sprintf("Parse did not return within 5 s for a query of %d bytes", len(src)))))
				os.Exit(3)
			}
		}()
	}
	q, err := gojq.Parse(src)
	close(parsed)
	if len(src) < 1<<16 {
		os.Stderr.WriteString("c08-stage parsed\n")
	}
	if err != nil {
		pe, ok := err.(*gojq.ParseError)
		if !ok {
			return "VIOL", fmt.Sprintf("Parse returned an error that is not *ParseError: %T", err)
		}
		if pe.Offset < 0 || pe.Offset > len(src) {
			return "VIOL", fmt.Sprintf("ParseError.Offset=%d outside source of length %d", pe.Offset, len(src))
		}
		stage = "parse-error-string"
		_ = err.Error()
		return "parse-error", ""
	}
	if q == nil {
		return "VIOL", "Parse returned (nil, nil)"
	}
	stage = "query-string"
	s := q.String()
	stage = "reparse"
	if _, err := gojq.Parse(s); err != nil {
		_ = err.Error()
	}
	stage = "compile"
	inputs := []any{input, nil, 1, "x"}
	code, err := gojq.Compile(q,
		gojq.WithVariables(varNames),
		gojq.WithEnvironLoader(func() []string { return []string{"A=b", "EMPTY=", "noequal", "=x"} }),
		gojq.WithModuleLoader(gojq.NewModuleLoader([]string{filepath.Join(cfg.repo, "cli", "testdata")})),
		gojq.WithInputIter(gojq.NewIter(inputs...)),
	)
	if err != nil {
		stage = "compile-error-string"
		_ = err.Error()
		return "compile-error", ""
	}
	if code == nil {
		return "VIOL", "Compile returned (nil, nil)"
	}
	stage = "run"
	ctx, cancel := context.WithTimeout(context.Background(), cfg.deadline)
	defer cancel()
	iter := code.RunWithContext(ctx, input, vars...)
	class = "ok"
	nerr, nbytes := 0, 0
	for i := 0; ; i++ {
		if i >= maxOutputs || nbytes > maxOutBytes {
			class = "capped"
			break
		}
		stage = "next"
		v, ok := iter.Next()
		if !ok {
			break
		}
		if err, ok := v.(error); ok {
			stage = "error-string"
			_ = err.Error()
			if ve, ok := err.(gojq.ValueError); ok {
				stage = "error-value"
				nbytes += observe(ve.Value())
			}
			if errors.Is(err, context.DeadlineExceeded) || ctx.Err() != nil {
				class = "timeout"
				break
			}
			if _, ok := err.(*gojq.HaltError); ok {
				break
			}
			if nerr++; nerr > 3 {
				break
			}
			continue
		}
		stage = "observe-output"
		nbytes += observe(v)
	}
	stage = "extra-next"
	for k := 0; k < 3; k++ {
		if v, ok := iter.Next(); ok {
			if err, ok := v.(error); ok {
				_ = err.Error()
			}
		}
	}
	return class, ""
}

func runCli(args []string, stdin string, env [][2]string) (class, detail string) {
	for _, kv := range env {
		old, had := os.LookupEnv(kv[0])
		os.Setenv(kv[0], kv[1])
		if had {
			defer os.Setenv(kv[0], old)
		} else {
			defer os.Unsetenv(kv[0])
		}
	}
	stdout := &capWriter{max: maxOutBytes}
	stderr := &capWriter{max: maxOutBytes}
	defer func() {
		if r := recover(); r != nil {
			class = "PANIC"
			detail = fmt.Sprintf("stage=cli: %v\n%s", r, trimStack(debug.Stack()))
		}
	}()
	st := cli.VerifC08Command(args, &pipeReader{s: stdin, chunk: 1 + len(stdin)%7*300}, stdout, stderr)
	if bad := badStatus(st, args, stdin); bad != "" {
		return "VIOL", bad
	}
	if tr := stackTraceIn(string(stderr.buf)); tr != "" {
		return "VIOL", "stack trace on stderr: " + tr
	}
	return fmt.Sprintf("ok%d", st), ""
}

// documented statuses: 0 ok, 1 falsy last value with -e, 2 usage, 3 compile, 4 no value with -e,
// 5 any other error; halt_error/$__prog exit codes are the user's own.
func badStatus(st int, args []string, stdin string) string {
	if st >= 0 && st <= 5 {
		return ""
	}
	for _, a := range args {
		if strings.Contains(a, "halt") {
			return "" // halt_error(n): the status is the user's own
		}
		if len(a) < 200 && !strings.ContainsRune(a, 0) {
			if bs, err := os.ReadFile(a); err == nil && strings.Contains(string(bs), "halt") {
				return ""
			}
		}
	}
	return fmt.Sprintf("undocumented exit status %d", st)
}

func stackTraceIn(s string) string {
	for _, m := range []string{"panic: ", "fatal error: ", "goroutine ", "runtime error"} {
		if i := strings.Index(s, m); i >= 0 {
			j := i + 200
			if j > len(s) {
				j = len(s)
			}
			return s[i:j]
		}
	}
	return ""
}

// keep the panic value line and the frames below the panic call, drop harness frames
func trimStack(st []byte) string {
	s := string(st)
	if i := strings.Index(s, "panic("); i >= 0 {
		s = s[i:]
	}
	lines := strings.Split(s, "\n")
	var out []string
	for _, l := range lines {
		if strings.Contains(l, "verifharness") || strings.Contains(l, "harness/c08") {
			break
		}
		out = append(out, l)
		if len(out) >= 24 {
			break
		}
	}
	return strings.Join(out, "\n")
}
