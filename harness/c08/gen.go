package main

// Case generators for the crash search: value pool over every supported Go representation,
// byte-level mutators of corpus queries, a grammar generator that calls every builtin with
// wrong-typed and boundary arguments, and a generator of command lines + stdin.

import (
	"encoding/json"
	"sort"
	"fmt"
	"math"
	"math/big"
	"strings"

	. "verifharness/hlib"
)

// ---------------------------------------------------------------------------------------------
// values

func bigOf(s string) *big.Int { z, _ := new(big.Int).SetString(s, 10); return z }

var scalarPool = []any{
	nil, true, false,
	0, 1, -1, 2, 7, 255, 65536, math.MaxInt32, math.MinInt32, math.MaxInt64, math.MinInt64, math.MaxInt64 - 1, 1 << 53, 0x20000000, 0x1fffffff,
	0.0, math.Copysign(0, -1), 0.5, -0.5, 1.5, 1e17, 1e19, -1e19, 9007199254740993.0, 1e308, -1e308, math.MaxFloat64, math.SmallestNonzeroFloat64,
	math.NaN(), math.Inf(1), math.Inf(-1), 9223372036854775807.0, -9223372036854775808.0, 4294967296.0, 1e-7, 3.0,
	bigOf("0"), bigOf("1"), bigOf("-1"), bigOf("18446744073709551616"), bigOf("-18446744073709551616"), bigOf("9223372036854775808"),
	bigOf("-9223372036854775809"), bigOf("10000000000000000000000000000000000000000"),
	new(big.Int).Lsh(big.NewInt(1), 1100), new(big.Int).Neg(new(big.Int).Lsh(big.NewInt(1), 1100)),
	json.Number("0"), json.Number("-0"), json.Number("1"), json.Number("1.0"), json.Number("0.1"), json.Number("1e1000"), json.Number("-1e1000"),
	json.Number("1e-1000"), json.Number("1E+400"), json.Number("123456789012345678901234567890"), json.Number("-123456789012345678901234567890"),
	json.Number("1e999999999"), json.Number("-1e-999999999"), json.Number("9223372036854775807"), json.Number("9223372036854775808"),
	json.Number("1.000000000000000000000000000001"), json.Number("100000000000000000000e-20"), json.Number("0e10"), json.Number("1e2"),
	json.Number("0.00000000000000000000000000000000000001e40"), json.Number("12345678901234567890.5"),
	"", "a", "abc", "a,b, c", " ", "\x00", "\n", "\"\\", "日本語", "🙂", "é", "\xff", "\xc0\x80", "\xe3\x81", "a\xed\xa0\x80b", "\xf4\x90\x80\x80", "\xf0\x9f",
	"0", "1", "-1", "1e1000", "nan", "NaN", "Infinity", " 1 ", "0x10", "1_000", "[1,2", "{\"a\":nan}", "null", "true", "[]", "{}", "\"x\"",
	"2015-03-05T23:51:47Z", "10:20", "%Y-%m-%dT%H:%M:%SZ", "%", "%Q", "(?<x>a)|b", "[", "\\", "(", "a*", "", "gx", "x", "g", "n", "gin",
	"test test", "aAbB", "\u00e9\u0301", "abcabcabc", "  x  ", strings.Repeat("a", 31), strings.Repeat("日", 11), strings.Repeat("\xff", 40), strings.Repeat("ab\"", 12),
	"\U0010ffff", "\ufffd", "\u2028", "<&'\">", "a b", "$__loc__", "__proto__", "key", "value", "name",
}

func (g *gen) scalar() any { return scalarPool[g.r.Intn(len(scalarPool))] }

func (g *gen) key() string {
	for {
		if s, ok := g.scalar().(string); ok {
			return s
		}
	}
}

func (g *gen) value(depth int) any {
	k := g.r.Intn(10)
	if depth <= 0 || k < 5 {
		return g.scalar()
	}
	switch {
	case k < 8:
		n := g.r.Intn(5)
		if g.r.Chance(1, 30) {
			return []any(nil)
		}
		xs := make([]any, n)
		for i := range xs {
			xs[i] = g.value(depth - 1)
		}
		return xs
	default:
		if g.r.Chance(1, 30) {
			return map[string]any(nil)
		}
		n := g.r.Intn(4)
		m := make(map[string]any, n)
		for i := 0; i < n; i++ {
			m[g.key()] = g.value(depth - 1)
		}
		return m
	}
}

// structured inputs that builtins like from_entries/mktime/implode/transpose/fromstream look at
func (g *gen) shaped() any {
	switch g.r.Intn(14) {
	case 0:
		return []any{map[string]any{"key": g.scalar(), "value": g.scalar()}, map[string]any{"k": g.scalar(), "v": 1}, map[string]any{"name": g.scalar()}, g.scalar()}
	case 1: // broken-down time
		xs := make([]any, 6+g.r.Intn(4))
		for i := range xs {
			xs[i] = g.scalar()
		}
		return xs
	case 2:
		return []any{2015, 2, 5, 23, 51, 47, 4, 63}
	case 3: // code points
		xs := make([]any, g.r.Intn(6))
		for i := range xs {
			xs[i] = []any{0, 65, 0x10ffff, 0x110000, -1, 0xd800, 0xdfff, math.MaxInt64, 1.5, math.NaN(), bigOf("18446744073709551616"), "a", nil}[g.r.Intn(13)]
		}
		return xs
	case 4: // ragged matrix
		return []any{[]any{1, 2, 3}, []any{}, []any{nil, g.scalar()}, g.scalar()}
	case 5: // stream events
		return []any{[]any{[]any{0}, 1}, []any{[]any{"a", g.scalar()}, g.scalar()}, []any{[]any{0}}, g.scalar()}
	case 6: // paths
		return []any{[]any{"a", 0, "b"}, []any{g.scalar()}, []any{-1}, []any{map[string]any{"start": g.scalar(), "end": g.scalar()}}, g.scalar()}
	case 7: // deep nesting
		var v any = g.scalar()
		for i := 0; i < 40+g.r.Intn(200); i++ {
			if g.r.Chance(1, 2) {
				v = []any{v}
			} else {
				v = map[string]any{"a": v}
			}
		}
		return v
	case 8:
		return map[string]any{"a": []any{1, map[string]any{"b": g.scalar()}}, "b": g.value(2), "": g.scalar(), "\xff": 1}
	case 9: // long arrays
		n := []int{30, 100, 1000}[g.r.Intn(3)]
		xs := make([]any, n)
		for i := range xs {
			xs[i] = g.scalar()
		}
		return xs
	case 10:
		return []any{g.scalar(), g.scalar(), g.scalar()}
	case 11:
		return map[string]any{"start": g.scalar(), "end": g.scalar(), "named": map[string]any{}, "positional": []any{}}
	case 12:
		return []any{[]any{g.scalar(), g.scalar()}, []any{g.scalar()}, []any{}}
	}
	return g.value(3)
}

func (g *gen) input() any {
	switch g.r.Intn(4) {
	case 0:
		return g.scalar()
	case 1:
		return g.shaped()
	}
	return g.value(3)
}

// re-represent the numbers of a decoded JSON document in random Go representations
func (g *gen) rerep(v any) any {
	switch v := v.(type) {
	case json.Number:
		switch g.r.Intn(4) {
		case 0:
			return v
		case 1:
			if z, ok := new(big.Int).SetString(v.String(), 10); ok {
				return z
			}
		case 2:
			if z, ok := new(big.Int).SetString(v.String(), 10); ok && z.IsInt64() {
				return int(z.Int64())
			}
		}
		f, _ := v.Float64()
		return f
	case []any:
		for i := range v {
			v[i] = g.rerep(v[i])
		}
	case map[string]any:
		for k := range v {
			v[k] = g.rerep(v[k])
		}
	}
	return v
}

// ---------------------------------------------------------------------------------------------
// byte-level mutation of corpus queries

var spice = []string{"\"", "\\", "\\(", "(", ")", "[", "]", "{", "}", "|", ".", "..", ",", ":", ";", "$", "@", "#", "?", "//", "?//", "*", "+", "-", "=", "|=", "<", ">", "!", "%",
	"\x00", "\x80", "\xff", "\xe3", "\n", "\r", " ", "0", "9", "e", "E", "1e", "1e1000", ".5", "_", "::", "$__loc__", "$a", "$ENV", "@base64", "@json",
	" as ", " def ", " if ", " then ", " else ", " elif ", " end ", " try ", " catch ", " reduce ", " foreach ", " label ", " break ", " import ", " include ", " module ", " and ", " or ", " not ",
	"\\u", "\\ud800", "\\udc00", "\\u00", "9223372036854775808", "-9223372036854775809", "nan", "infinite", "input", "error", "empty", "limit(", "path(", "getpath(", ".[", ".[]", "?", ".a", ".\"", "$__prog"}

func (g *gen) mutate(src string, other string) string {
	b := []byte(src)
	for k := 1 + g.r.Intn(3); k > 0; k-- {
		n := len(b)
		switch g.r.Intn(11) {
		case 0: // bit flip
			if n > 0 {
				b[g.r.Intn(n)] ^= 1 << uint(g.r.Intn(8))
			}
		case 1: // insert interesting text
			s := spice[g.r.Intn(len(spice))]
			i := g.r.Intn(n + 1)
			b = append(b[:i:i], append([]byte(s), b[i:]...)...)
		case 2: // insert random byte
			i := g.r.Intn(n + 1)
			b = append(b[:i:i], append([]byte{byte(g.r.Intn(256))}, b[i:]...)...)
		case 3: // delete a byte
			if n > 0 {
				i := g.r.Intn(n)
				b = append(b[:i:i], b[i+1:]...)
			}
		case 4: // delete a range
			if n > 1 {
				i := g.r.Intn(n)
				j := i + 1 + g.r.Intn(min(n-i, 8))
				b = append(b[:i:i], b[j:]...)
			}
		case 5: // duplicate a range
			if n > 0 {
				i := g.r.Intn(n)
				j := i + 1 + g.r.Intn(min(n-i, 12))
				d := append([]byte(nil), b[i:j]...)
				b = append(b[:j:j], append(d, b[j:]...)...)
			}
		case 6: // truncate
			if n > 0 {
				b = b[:g.r.Intn(n)]
			}
		case 7: // splice with another query
			if n > 0 && len(other) > 0 {
				i := g.r.Intn(n)
				b = append(b[:i:i], other[g.r.Intn(len(other)):]...)
			}
		case 8: // replace a byte by an interesting one
			if n > 0 {
				s := spice[g.r.Intn(len(spice))]
				b[g.r.Intn(n)] = s[0]
			}
		case 9: // swap two bytes
			if n > 1 {
				i, j := g.r.Intn(n), g.r.Intn(n)
				b[i], b[j] = b[j], b[i]
			}
		case 10: // wrap
			w := [][2]string{{"(", ")"}, {"[", "]"}, {"{a:", "}"}, {"path(", ")"}, {"try (", ") catch ."}, {"[limit(3;", ")]"}, {"", " |= ."}, {"", " = 1"}, {"del(", ")"}, {"1 + (", ")"},
				{"\"\\(", ")\""}, {"def f: ", "; f"}, {"label $l | ", ""}, {"reduce (", ") as $x (0; .+1)"}, {"first(", ")"}, {". as [$a] | ", ""}, {"", " as $a | $a"}, {"", "?"}, {"-(", ")"}}[g.r.Intn(19)]
			b = append([]byte(w[0]), append(b, w[1]...)...)
		}
	}
	return string(b)
}

// ---------------------------------------------------------------------------------------------
// grammar generator

type builtin struct {
	name  string
	arity int
}

type gen struct {
	r        *Rng
	builtins []builtin
	corpus   []corpusQuery
}

type corpusQuery struct {
	query string
	input string
	args  []string
	env   []string
}

var numLits = []string{"0", "1", "-1", "2", "3", "10", "0.5", "-0.5", "1e1000", "-1e1000", "1e-1000", "nan", "infinite", "-infinite", "9223372036854775807", "-9223372036854775808",
	"9223372036854775808", "18446744073709551616", "1e18", "1e19", "4294967296", "2147483648", "-2147483649", "1e308", "1.7976931348623157e308", "5e-324",
	"100000000000000000000000000000", "0.1", "3.0", "1e3", "00012", "536870912", "536870911", "1.5", "-0", "(0/0)?", "1e9", "1e6", "65536", "1114112", "55296", "(-1|sqrt)", "-1e9", "31", "32", "64"}
var strLits = []string{`""`, `"a"`, `"abc"`, `"\u0000"`, `"\ud83d"`, `"\(1,2)"`, `"a,b, c"`, `"%Y-%m-%dT%H:%M:%SZ"`, `"2015-03-05T23:51:47Z"`, `"(?<x>a)|b"`, `"["`, `"\\"`, `"g"`, `"gx"`, `"x"`,
	`"1"`, `"1e1000"`, `"nan"`, `" 1 "`, `"[1,2"`, `"{\"a\":nan}"`, `("a"*100)`, `"日本語"`, `"%"`, `"%e %Z %j"`, `"a*"`, `"(a)|(b)"`, `"\\b"`, `"n"`, `"gs"`, `"é"`, `"\(.)"`, `@base64 "\(.)"`, `"key"`, `"a.b"`, `"$"`, `"^"`, `"."`, `""?`}
var otherLits = []string{"null", "true", "false", "[]", "{}", "[[]]", "[1,2,3]", `["a","b"]`, `{"a":1}`, `{"a":{"b":[1,2]}}`, "[null]", "[nan]", "[[1,2],[3]]", `[{"key":"a","value":1}]`, `[{"name":"x"}]`,
	".", ".[]", "..", ".a", ".[0]", "$a", "$b", "$c", "empty", "error", `error("x")`, "error(null)", "input", "$ENV", "env", "$__loc__", "[limit(3;repeat(1))]", "[range(10)]", `("a"|explode)`, "(., .)", "(1,null)",
	"first(range(5))", "({} | .a.b.c)", "[path(..)]", "[.[]?]", `["a",0]`, `[[0],1]`, `[0,"a",null]`, `{"start":1,"end":null}`, "[2015,2,5,23,51,47,4,63]", "[1e1000,nan,-1]", "[[\"a\",1],[\"b\"]]", "now", "input_filename", "$__prog_args?",
	"[.,.]", "{a:.}", "(.. | numbers)", "{(\"a\",\"b\"):(1,2)}", ".[1:]", ".[:-1]", ".[-1]", "getpath([\"a\",\"b\"])", "paths", "[paths]", "tojson", "keys?", "length?", "(.[0]?)", "$ENV.A", "halt", "\"\\(1;2)\"?"}
var formats = []string{"@text", "@json", "@html", "@uri", "@urid", "@csv", "@tsv", "@sh", "@base64", "@base64d", "@base32", "@base32d", "@unknown"}
var binops = []string{"+", "-", "*", "/", "%", "==", "!=", "<", "<=", ">", ">=", "and", "or", "//", "|", ","}
var updops = []string{"=", "|=", "+=", "-=", "*=", "/=", "%=", "//="}
var infinite = map[string]bool{"repeat": true, "recurse": true, "while": true, "until": true, "range": true, "inputs": true, "combinations": true, "limit": true, "walk": true}

func (g *gen) pick(xs []string) string { return xs[g.r.Intn(len(xs))] }

func (g *gen) atom() string {
	switch g.r.Intn(6) {
	case 0, 1:
		return g.pick(numLits)
	case 2:
		return g.pick(strLits)
	}
	return g.pick(otherLits)
}

func (g *gen) call(depth int) string {
	b := g.builtins[g.r.Intn(len(g.builtins))]
	if b.arity == 0 {
		return b.name
	}
	args := make([]string, b.arity)
	for i := range args {
		args[i] = g.expr(depth - 1)
	}
	s := b.name + "(" + strings.Join(args, "; ") + ")"
	if infinite[b.name] && !g.r.Chance(1, 8) {
		return "limit(" + g.pick([]string{"3", "5", "0", "1", "-1", "1e1000"}) + "; " + s + ")"
	}
	return s
}

func (g *gen) pattern(depth int) string {
	switch {
	case depth <= 0 || g.r.Chance(1, 2):
		return g.pick([]string{"$x", "$a", "$y", "$__loc__"})
	case g.r.Chance(1, 2):
		return "[" + g.pattern(depth-1) + ", " + g.pattern(depth-1) + "]"
	}
	return g.pick([]string{"{a: ", "{$x, b: ", "{\"a\": ", "{(\"a\",\"b\"): ", "{$y: ", "{\"\\(1)\": ", "{@json \"k\": "}) + g.pattern(depth-1) + "}"
}

func (g *gen) expr(depth int) string {
	if depth <= 0 {
		return g.atom()
	}
	switch g.r.Intn(40) {
	case 0, 1, 2, 3, 4, 5, 6, 7:
		return g.atom()
	case 8, 9, 10, 11, 12, 13, 14, 15, 16:
		return g.call(depth)
	case 17, 18:
		return "(" + g.expr(depth-1) + " | " + g.call(depth) + ")"
	case 19:
		return "(" + g.expr(depth-1) + " " + g.pick(binops) + " " + g.expr(depth-1) + ")"
	case 20:
		return "(" + g.pathexpr(depth-1) + " " + g.pick(updops) + " " + g.expr(depth-1) + ")"
	case 21:
		return g.expr(depth-1) + "[" + g.expr(depth-1) + "]"
	case 22:
		return g.pick([]string{".", g.expr(depth - 1)}) + "[" + g.pick([]string{"", g.expr(depth - 1)}) + ":" + g.pick([]string{"", g.expr(depth - 1)}) + "]" + g.pick([]string{"", "?"})
	case 23:
		return "[" + g.expr(depth-1) + "]"
	case 24:
		return "{" + g.pick([]string{"a", "\"b\"", "(" + g.expr(depth-1) + ")", "$a", "@base64 \"x\"", "\"a\\(" + g.expr(depth-1) + ")\"", "$__loc__"}) + g.pick([]string{": " + g.expr(depth-1), ""}) + "}"
	case 25:
		return "try " + g.postfix(depth-1) + g.pick([]string{"", " catch .", " catch error", " catch (" + g.expr(depth-1) + ")"})
	case 26:
		return "path(" + g.expr(depth-1) + ")"
	case 27:
		return "if " + g.expr(depth-1) + " then " + g.expr(depth-1) + g.pick([]string{"", " elif " + g.expr(depth-1) + " then 1", ""}) + g.pick([]string{" else " + g.expr(depth-1), ""}) + " end"
	case 28:
		return "reduce " + g.postfix(depth-1) + " as " + g.pattern(2) + " (" + g.expr(depth-1) + "; " + g.expr(depth-1) + ")"
	case 29:
		return "foreach " + g.postfix(depth-1) + " as " + g.pattern(2) + " (" + g.expr(depth-1) + "; " + g.expr(depth-1) + g.pick([]string{"", "; " + g.expr(depth-1)}) + ")"
	case 30:
		return "(" + g.postfix(depth-1) + " as " + g.pattern(2) + g.pick([]string{"", " ?// " + g.pattern(2)}) + " | " + g.pick([]string{"$x", "$a", "[$x,$y]?", ".", g.expr(depth - 1)}) + ")"
	case 31:
		return "(label $l | " + g.expr(depth-1) + ", break $l, " + g.expr(depth-1) + ")"
	case 32:
		return g.pick(formats) + g.pick([]string{"", " \"a\\(" + g.expr(depth-1) + ")b\""})
	case 33:
		return "\"x\\(" + g.expr(depth-1) + ")\\(" + g.atom() + ")\""
	case 34:
		return "(def f" + g.pick([]string{"", "(g)", "($x)", "(g; $x)"}) + ": " + g.expr(depth-1) + "; " + g.pick([]string{"f", "f(.)", "f(1)", "f(.[]; 2)", "f(f)", "[f]"}) + ")"
	case 35:
		return "-" + g.postfix(depth-1)
	case 36:
		return g.postfix(depth-1) + g.pick([]string{"?", ".a", ".[]", ".[]?", "[0]", "[-1]", ".\"a\"", ".a.b?", "..", "[\"a\"]", "[1e1000]", "[nan]", "[null]", "[{}]", "[[]]", "[[1]]", "[-1e1000:]", "[:1e1000]", "[.5:1.5]", ".a[1:][0]"})
	case 37:
		return "(def r: if " + g.pick([]string{". < 3", "length < 3", "type == \"number\"", "."}) + " then " + g.pick([]string{".+1", "[.]", "., 1", g.expr(depth - 1)}) + " | r else . end; limit(5; r))"
	case 38:
		return "del(" + g.pathexpr(depth-1) + ")"
	}
	return "[limit(3; " + g.expr(depth-1) + ")]"
}

func (g *gen) postfix(depth int) string {
	if g.r.Chance(1, 2) {
		return g.atom()
	}
	return "(" + g.expr(depth) + ")"
}

func (g *gen) pathexpr(depth int) string {
	switch g.r.Intn(12) {
	case 0:
		return "."
	case 1:
		return ".a"
	case 2:
		return ".[" + g.atom() + "]"
	case 3:
		return ".[" + g.pick(numLits) + ":" + g.pick(numLits) + "]"
	case 4:
		return ".[]"
	case 5:
		return ".."
	case 6:
		return "getpath(" + g.expr(depth) + ")"
	case 7:
		return "(" + g.pathexpr(depth) + ", " + g.pathexpr(depth) + ")"
	case 8:
		return g.pathexpr(depth) + g.pick([]string{".a", "[0]", "[]", "[1:]", "[-1]", "?", "[:2]", "[536870911]", "[\"a\"]", "[-1:]"})
	case 9:
		return "(" + g.pathexpr(depth) + " | " + g.pick([]string{"select(" + g.expr(depth) + ")", "first", "last", "recurse", "paths", "to_entries[]", "if . then .a else .b end", "first(.[])", "limit(1; .[])", ".a // .b", "empty", "error", "getpath([\"a\",0])", "$__loc__", "input", "map(.)", "reduce .[] as $x (.; .a)", "foreach (1,2) as $x (.; .[0])"}) + ")"
	}
	return g.expr(depth)
}

func (g *gen) grammarQuery() string {
	q := g.expr(2 + g.r.Intn(3))
	switch g.r.Intn(8) {
	case 0:
		return "[" + q + "]"
	case 1:
		return "try (" + q + ") catch ."
	case 2:
		return ".[] | " + q
	case 3:
		return q + " | " + g.call(2)
	}
	return q
}

// every builtin in turn with boundary arguments (systematic part)
func (g *gen) builtinQuery(i int) string {
	b := g.builtins[i%len(g.builtins)]
	args := make([]string, b.arity)
	for k := range args {
		if g.r.Chance(2, 3) {
			args[k] = g.atom()
		} else {
			args[k] = g.expr(1)
		}
	}
	s := b.name
	if b.arity > 0 {
		s += "(" + strings.Join(args, "; ") + ")"
	}
	if infinite[b.name] && !g.r.Chance(1, 10) {
		s = "limit(5; " + s + ")"
	}
	switch g.r.Intn(12) {
	case 0:
		return g.atom() + " | " + s
	case 1:
		return "[" + g.atom() + " | " + s + "]"
	case 2:
		return "path(" + s + ")"
	case 3:
		return "try (" + s + ") catch ."
	case 4:
		return s + " |= " + g.atom()
	case 5:
		return ".[] | " + s
	case 6:
		return "[.[]? | " + s + "?]"
	case 7:
		return s + " as $x | [$x, " + s + "]"
	case 8:
		return "del(" + s + ")"
	case 9:
		return "$a | " + s
	}
	return s
}

// ---------------------------------------------------------------------------------------------
// command lines

var cliFlags = []string{"-r", "--raw-output", "--raw-output0", "-j", "--join-output", "-c", "--compact-output", "--indent", "--tab", "--yaml-output", "-C", "--color-output", "-M", "--monochrome-output",
	"-n", "--null-input", "-R", "--raw-input", "--stream", "--yaml-input", "-s", "--slurp", "-f", "--from-file", "-L", "--library-path", "--arg", "--argjson", "--slurpfile", "--rawfile",
	"--args", "--jsonargs", "-e", "--exit-status", "-v", "--version", "-h", "--help", "--", "-", "--indent=3", "--indent=", "--arg=x", "-L=testdata", "-Ltestdata", "-rn", "-nrc", "-sR", "-ce", "-rf", "-fn",
	"--unknown", "-x", "-rX", "-1", "--tab=1", "-n=1", "--arg", "--argjson", "--indent", "---", "--=", "-=", "-e=", "--stream=x", "-Cr", "-Mj", "--seq", "-S", "--sort-keys", "-a", "--ascii-output"}
var cliVals = []string{"0", "1", "7", "9", "10", "-1", "x", "", "1e3", " 2", "+3", "9223372036854775808", "a", "$a", "1", "null", "[1,2", "{\"a\":1}", "\"s\"", "nan", "1 2",
	"testdata/1.json", "testdata/2.json", "testdata/1.yaml", "testdata/1.jq", "testdata/2.jq", "testdata", "testdata/nonexistent", "/dev/null", ".", "..", "-", "--", "\xff", "a\x00b",
	".", ".[]", ".a", "$a", "$ARGS", "$ENV|length", "$__prog_args", "input", "[inputs]", "input_filename", "$named", "halt_error", "\"\\(1;2)\"", "import \"m1\" as m; m::f", "include \"1\"; .", "1 + (label $l | .)", "@csv", ". as [$a] | $a",
	"..", "tostream", "first(inputs)", "debug", "stderr", "error", "{}|.a.b", "\"\\u0000\"", "nan", "[nan]", "{a:nan}", "1e1000", "-0", "[limit(3;repeat(1))]", "ltrimstr(1)", "$ARGS.positional", "$ARGS.named", "env|type", "now|type", "\"a\",1|tojson", "\"x\" * 1e9"}

var stdinPool = []string{"", "null", "1", "1 2 3", "{\"a\":1}", "[1,[2,{\"a\":\"b\"}]]", "\"s\"", "{\"a\":", "[1,2", "tru", "nan", "NaN", "-", "1e1000", "-0", "{\"a\":1}{\"a\":2}", "[]\n\n[]", "\xff", "\"\xff\"", "\"\\ud800\"", "\"\\u0000\"",
	"{\"\\u0000\":1}", "a: 1\nb: [1, 2]\n", "- a\n- b: c\n", "a: &x 1\nb: *x\n", "a: *unknown\n", "? - 1\n: 2\n", "---\n1\n---\n2\n...\n", "!!binary x\n", "a:\n\t- b\n", "{a: 1, b: }", "0x10", "1_000", ".inf", ".nan", "2015-01-01", "<<: {a: 1}\n",
	"line1\nline2\r\nline3", "\x00\x01\x02", strings.Repeat("[", 300), strings.Repeat("[", 200) + strings.Repeat("]", 200), strings.Repeat("{\"a\":", 150) + "1" + strings.Repeat("}", 150), "\xef\xbb\xbf1", " \n\t1\n", "1 // comment", "1,2", "[1,]", "{\"a\" 1}", "'a'", "\"a\nb\"",
	"123456789012345678901234567890", "1.000000000000000000000000001", "1e-400", "\"" + strings.Repeat("a", 5000) + "\"", strings.Repeat("1 ", 2000), "&a [*a]", "a: |\n  x\n  y\n", "a: >-\n  x\n", "\"\\x\"", "\"\\", "\"", "{\"a\":1,\"a\":2}", "[\"\\uD83D\\uDE00\"]", "\x1e1\n\x1e2\n"}

func (g *gen) cliCase() (args []string, stdin string, env [][2]string) {
	var base corpusQuery
	if len(g.corpus) > 0 {
		base = g.corpus[g.r.Intn(len(g.corpus))]
	}
	switch g.r.Intn(5) {
	case 0: // fully random vector
		n := g.r.Intn(7)
		for i := 0; i < n; i++ {
			if g.r.Chance(1, 2) {
				args = append(args, g.pick(cliFlags))
			} else {
				args = append(args, g.pick(cliVals))
			}
		}
		stdin = g.pick(stdinPool)
	default: // a corpus command line with edits
		args = append(args, base.args...)
		stdin = base.input
		for k := g.r.Intn(4); k > 0; k-- {
			n := len(args)
			switch g.r.Intn(7) {
			case 0, 1:
				i := g.r.Intn(n + 1)
				args = append(args[:i:i], append([]string{g.pick(cliFlags)}, args[i:]...)...)
			case 2:
				i := g.r.Intn(n + 1)
				args = append(args[:i:i], append([]string{g.pick(cliVals)}, args[i:]...)...)
			case 3:
				if n > 0 {
					i := g.r.Intn(n)
					args = append(args[:i:i], args[i+1:]...)
				}
			case 4:
				if n > 0 {
					i := g.r.Intn(n)
					args = append(args, args[i])
				}
			case 5:
				if n > 0 {
					i := g.r.Intn(n)
					args[i] = g.mutate(args[i], g.pick(cliVals))
				}
			case 6:
				if n > 1 {
					i, j := g.r.Intn(n), g.r.Intn(n)
					args[i], args[j] = args[j], args[i]
				}
			}
		}
		switch g.r.Intn(4) {
		case 0:
			stdin = g.pick(stdinPool)
		case 1:
			stdin = g.mutate(stdin, g.pick(stdinPool))
		}
	}
	for _, e := range base.env {
		if k, v, ok := strings.Cut(e, "="); ok {
			if g.r.Chance(1, 3) {
				v = g.mutate(v, "4;1:0:1;31:::")
			}
			env = append(env, [2]string{k, v})
		}
	}
	if g.r.Chance(1, 12) {
		env = append(env, [2]string{"GOJQ_COLORS", g.pick([]string{"", ":", "4;1", "0;30:0;31:0;32:0;33:0;34:0;35:0;36:0;37", "x", "1;2;3;4;5;6;7;8;9;10;11;12;13:", "38;5;200", ";", "0:" + strings.Repeat("1;", 20), "\x1b[0m", ":::::::::", "1:2:3:4:5:6:7:8:9"})})
	}
	// the command must never be pointed at a file that blocks (fifo/tty): only names from the pools are used
	for i, a := range args {
		if strings.ContainsRune(a, 0) {
			args[i] = strings.ReplaceAll(a, "\x00", "\\u0000") // exec cannot pass NUL; keep both modes identical
		}
	}
	return
}

func libCase(q string, in any, vars []any) string {
	vs := make([]string, len(vars))
	for i, v := range vars {
		vs[i] = valSx(v)
	}
	return fmt.Sprintf("(lib %s %s (%s))", Hexs([]byte(q)), valSx(in), strings.Join(vs, " "))
}

func cliCaseLine(kind string, args []string, stdin string, env [][2]string) string {
	es := make([]string, len(env))
	for i, kv := range env {
		es[i] = hexList(kv[:])
	}
	return fmt.Sprintf("(%s %s %s (%s))", kind, hexList(args), Hexs([]byte(stdin)), strings.Join(es, " "))
}

// ---------------------------------------------------------------------------------------------
// structured arguments: every builtin that looks INSIDE its argument gets that structure at, below and
// above the expected size and with wrong element types

var numPool = []any{0, 1, -1, 2, 5, 7, 11, 12, 13, 23, 24, 31, 59, 60, 61, 99, 365, 366, 1970, 2015, 2024, 9999, 10000, -1970, 100000,
	math.MaxInt32, math.MinInt32, math.MaxInt64, math.MinInt64, 1 << 53,
	0.0, math.Copysign(0, -1), 0.5, 1.5, 47.999, 59.9999999999, -0.5, 1e9, 1e17, 1e19, -1e19, 1e300, math.MaxFloat64, math.SmallestNonzeroFloat64,
	math.NaN(), math.Inf(1), math.Inf(-1),
	bigOf("0"), bigOf("7"), bigOf("18446744073709551616"), bigOf("-18446744073709551616"), bigOf("9223372036854775808"),
	json.Number("3"), json.Number("2024"), json.Number("1e1000"), json.Number("-1e1000"), json.Number("1.5"), json.Number("12345678901234567890"), json.Number("0.0000001")}

func (g *gen) num() any { return numPool[g.r.Intn(len(numPool))] }

// an array of n elements, numeric except for `wrong` positions
func (g *gen) numArray(n int, wrongPct int) []any {
	xs := make([]any, n)
	for i := range xs {
		if g.r.Intn(100) < wrongPct {
			xs[i] = g.scalar()
		} else {
			xs[i] = g.num()
		}
	}
	return xs
}

var timeFormats = []string{"%Y-%m-%dT%H:%M:%SZ", "%", "%%", "%Y%", "%-", "%E", "%O", "%Ey", "%_", "%0", "%^", "%#", "%:", "%::z", "%:::z", "%10Y", "%-d", "%_d", "%e %Z %j %a %A %b %B %c %C %D %F %g %G %h %I %k %l %n %p %P %r %R %s %S %t %T %u %U %V %v %w %W %x %X %y %z %+",
	"", "a", "%Q", "%J", "%é", "%\xff", "%1", "%999999999999999999999Y", "%N", "%f", "%L", "%3N", "%%%", "%Y-%m-%d %H:%M:%S %z", "%s", "%j", "%U %w", "%G-W%V-%u", "%Z", "%c"}
var timeStrings = []string{"2015-03-05T23:51:47Z", "", "2015", "10:20", "2015-13-45T25:61:61Z", "0000-00-00T00:00:00Z", "9999-12-31T23:59:60Z", "-1", "1425599507", "Thu Mar  5 23:51:47 2015", "2015-03-05T23:51:47+99:99",
	"2015-03-05T23:51:47.123456789123Z", "366", "53 7", "2015-W53-7", "%", "\xff", "UTC", "JST", "12 PM", "Z", "+0000", "99999999999999999999"}
var timeFuncs = []string{"mktime", "gmtime", "localtime", "todate", "todateiso8601", "fromdate", "fromdateiso8601", "date", "dateadd(\"seconds\"; 1)", "datesub(\"seconds\"; 1)", "dateadd(\"x\"; nan)",
	"strftime(%F)", "strflocaltime(%F)", "strptime(%F)", "strptime(%F) | mktime", "gmtime | mktime", "gmtime | todate", "mktime | gmtime", "strftime(%F) | strptime(%F)", "todate | fromdate", "now | gmtime | .[:$n] | mktime", "gmtime | strftime(%F)", "localtime | strflocaltime(%F)"}

var regexFlagLetters = "gixsnlpGIXSNabcdefhjkmoqrtuvwyz01 -,\x00é"
var regexes = []string{"", "a", "a*", "(a)|(b)", "(?<x>a)(?<y>b)?", "(?<x>a)|(?<x>b)", "[", "(", "\\", "a{1000}", "a{1001}", "(a*)*b", "^", "$", "\\b", ".", "(?i)A", "(?<n>)", "\\p{Greek}", "\\X", "(?=a)", "(?<=a)b", "\\1", "(a)\\1", "[[:alpha:]]", "\xff", "é+", "(?P<x>a)", "(|)", "()", "a|", "x*?", "\\z", "\\Z"}

var entryKeys = []string{"key", "k", "name", "Name", "Key", "K", "value", "v", "Value", "V", "KEY", "keys", "", "key ", "\x00"}

func (g *gen) entriesValue() any {
	n := g.r.Intn(5)
	xs := make([]any, n)
	for i := range xs {
		switch g.r.Intn(6) {
		case 0:
			xs[i] = g.scalar()
		case 1:
			xs[i] = []any{g.scalar(), g.scalar()}
		default:
			m := map[string]any{}
			for k := g.r.Intn(4); k > 0; k-- {
				m[entryKeys[g.r.Intn(len(entryKeys))]] = g.value(1)
			}
			xs[i] = m
		}
	}
	return xs
}

func (g *gen) pathElem(depth int) any {
	switch g.r.Intn(12) {
	case 0:
		return g.key()
	case 1, 2:
		return g.num()
	case 3:
		return nil
	case 4:
		m := map[string]any{}
		for _, k := range []string{"start", "end", "step", "x", "Start", ""} {
			if g.r.Chance(1, 2) {
				m[k] = g.num()
			}
		}
		if g.r.Chance(1, 5) {
			m["start"] = g.scalar()
		}
		return m
	case 5:
		if depth > 0 {
			return g.pathValue(depth - 1)
		}
		return []any{}
	case 6:
		return []any{0, 1}[g.r.Intn(2)]
	case 7:
		return "a"
	case 8:
		return -1
	}
	return g.scalar()
}

func (g *gen) pathValue(depth int) any {
	n := g.r.Intn(6)
	xs := make([]any, n)
	for i := range xs {
		xs[i] = g.pathElem(depth)
	}
	return xs
}

func (g *gen) jsonLit(v any) string {
	var sb strings.Builder
	enc := json.NewEncoder(&sb)
	enc.SetEscapeHTML(false)
	_ = enc.Encode(jsonable(v))
	return strings.TrimRight(sb.String(), "\n")
}

// jsonable maps a Go value of the pool to something encoding/json prints as a gojq literal (NaN/Inf/big
// become expressions later; here they are replaced by neighbours that are literals)
func jsonable(v any) any {
	switch v := v.(type) {
	case float64:
		if math.IsNaN(v) || math.IsInf(v, 0) {
			return nil
		}
		return v
	case *big.Int:
		return json.Number(v.String())
	case string:
		return strings.ToValidUTF8(v, "?")
	case []any:
		out := make([]any, len(v))
		for i := range v {
			out[i] = jsonable(v[i])
		}
		return out
	case map[string]any:
		out := map[string]any{}
		for k, x := range v {
			out[strings.ToValidUTF8(k, "?")] = jsonable(x)
		}
		return out
	}
	return v
}

var countLits = []string{"0", "1", "-1", "2", "3", "10", "nan", "infinite", "-infinite", "1e1000", "-1e1000", "0.5", "-0.5", "1e9", "1e18", "9223372036854775807", "-9223372036854775808", "9223372036854775808",
	"null", "\"1\"", "[]", "{}", "true", "(1,2)", "empty", "1.9999999", "-0", "2147483648", "536870912", "(0/0)?", "$a", "."}
var wrappers = []string{"%s", "try (%s) catch .", "[%s]", "[limit(3; %s)]", "first(%s)", "path(%s)", "(%s)?", "[.[]? | %s]", "%s | tojson", "[%s] | length", "%s as $x | $x", "del(%s)", "(%s) |= .", "(%s) = 1", "[paths(%s)]?", "label $l | %s | ., break $l", "reduce (%s) as $x (0; . + 1)", "isvalid(%s)?", "%s, %s", "[%s | .. ]", "input | %s", "$a | %s", "$b | %s"}

func (g *gen) wrap(q string) string {
	w := wrappers[g.r.Intn(len(wrappers))]
	if g.r.Chance(1, 2) {
		w = "%s"
	}
	return strings.ReplaceAll(w, "%s", q)
}

// structuredCase returns a query and its input. k selects the family (systematic sweeps pass k and size).
func (g *gen) structuredCase(k, size int) (string, any) {
	qs := func(s string) string { return g.jsonLit(s) }
	switch k % nFamilies {
	case 0: // broken-down time of every length, mostly numeric
		f := timeFuncs[g.r.Intn(len(timeFuncs))]
		f = strings.ReplaceAll(f, "%F", qs(timeFormats[g.r.Intn(len(timeFormats))]))
		f = strings.ReplaceAll(f, "$n", fmt.Sprint(size))
		in := any(g.numArray(size, []int{0, 0, 10, 30}[g.r.Intn(4)]))
		if g.r.Chance(1, 6) {
			in = g.num()
		}
		return g.wrap(f), in
	case 1: // time strings and formats
		f := g.pick([]string{"strptime(%F)", "strptime(%F) | mktime", "fromdate", "fromdateiso8601", "dateadd(\"seconds\"; 1)", "date", "strptime(%F) | strftime(%F)", "strptime(%F) | todate"})
		for strings.Contains(f, "%F") {
			f = strings.Replace(f, "%F", qs(timeFormats[g.r.Intn(len(timeFormats))]), 1)
		}
		return g.wrap(f), timeStrings[g.r.Intn(len(timeStrings))]
	case 2: // paths of odd shapes
		p := g.jsonLit(g.pathValue(2))
		ps := g.jsonLit([]any{g.pathValue(1), g.pathValue(1), g.pathElem(1)})
		f := g.pick([]string{"getpath(" + p + ")", "setpath(" + p + "; 1)", "setpath(" + p + "; .)", "delpaths(" + ps + ")", "delpaths([" + p + "])", "getpath($a)", "setpath($a; $b)", "delpaths($a)", "delpaths([$a])",
			"paths(type == \"number\")", "[paths]", "leaf_paths", "pick(getpath(" + p + "))", "pick(.[" + g.pick(countLits) + "])", "to_entries", "path(getpath(" + p + "))", "getpath(" + p + ") |= 1", "del(getpath(" + p + "))",
			"tostream", "fromstream(tostream)", "[tostream] | fromstream(.[])", "truncate_stream(" + g.pick(countLits) + "; tostream)", "fromstream(" + ps + "[])", "fromstream($a[]?)", "getpath([limit(1e6; repeat(\"a\"))])", "getpath([range(1e6)])",
			"setpath([limit(1e5; repeat(0))]; 1)", "try setpath([range(3e5)]; 1) catch \"x\"", "delpaths([[range(1e5)]])", ".[" + p + "]", ".[" + p + "]?", "has(" + p + "[0]?)", "input_line_number?", "splits(" + p + "[0]?)", "ltrimstr(" + p + ")",
			"getpath(" + p + "; 1)?", "paths(..)", "any(paths; . == " + p + ")", "[getpath(" + ps + "[])?]", "to_entries | from_entries", "with_entries(.value |= .)", "walk(.)", "walk(if type == \"array\" then sort else . end)", "[..]", "[.. | scalars]", "flatten(" + g.pick(countLits) + ")", "transpose", "add", "any", "all", "group_by(.)", "unique_by(length?)", "min_by(.[0]?)", "tojson | fromjson", "@json", "combinations", "combinations(" + g.pick(countLits) + ")", "indices(" + p + ")", "index(" + p + ")", "inside(" + p + ")", "contains(" + p + ")", "IN(" + p + "[])", "bsearch(" + p + ")", "splits(\"a\"; " + p + ")?", "getpath(" + p + ") as [$x, {a: $y}] | [$x, $y]", ". as " + g.pattern(3) + " | [$x?]?"})
		in := []any{g.value(3), g.shaped(), g.pathValue(2)}[g.r.Intn(3)]
		return g.wrap(f), in
	case 3: // entries
		f := g.pick([]string{"from_entries", "with_entries(.)", "with_entries(.value += 1)", "with_entries(.key |= tostring)", "with_entries(select(.key))", "map(from_entries?)", "from_entries | to_entries", "with_entries(empty)", "with_entries(., .)", "with_entries({})", "with_entries({key: .value, value: .key})", "with_entries(.key = null)", "with_entries(.key = 1)", "with_entries(.key = [])", "to_entries | map(del(.key)) | from_entries", "INDEX(.key?)", "INDEX(.[]?; .name?)", "[JOIN(INDEX(.[]?; .k?); .[]?; .v?)]", "JOIN({}; .[]?; .key?; add?)", "IN(.[]?)", "group_by(.key?)", "map(has(\"key\")?)", "from_entries?"})
		return g.wrap(f), g.entriesValue()
	case 4: // slices: [start,end] given as indices, as slice objects with extra keys, through paths
		a, b := g.pick(countLits), g.pick(countLits)
		obj := g.jsonLit(g.pathElem(0))
		f := g.pick([]string{".[" + a + ":" + b + "]", ".[" + a + ":]", ".[:" + b + "]", ".[" + a + ":" + b + "] = [1]", ".[" + a + ":" + b + "] |= map(.)", "del(.[" + a + ":" + b + "])", ".[" + a + ":" + b + "][" + a + ":" + b + "]", "path(.[" + a + ":" + b + "])",
			"getpath([{\"start\":" + a + ",\"end\":" + b + "}])", "setpath([{\"start\":" + a + ",\"end\":" + b + ",\"x\":1}]; [1])", "delpaths([[{\"start\":" + a + ",\"end\":" + b + "}]])", "delpaths([[{\"start\":" + a + "}]])", "setpath([{\"end\":" + b + "}]; [])",
			".[" + obj + "]", ".[" + obj + "]?", "getpath([" + obj + "])", "setpath([" + obj + "]; 1)", "delpaths([[" + obj + "]])", "to_entries[" + a + ":" + b + "]", "tojson[" + a + ":" + b + "]", "explode[" + a + ":" + b + "] | implode", "[.[" + a + ":" + b + "]?, .[" + b + ":" + a + "]?]", "limit(" + a + "; .[]?)", "skip(" + a + "; .[]?)", "nth(" + a + "; .[]?)", "nth(" + a + ")", "first(range(" + a + "; " + b + "))", "[range(" + a + "; " + b + "; " + g.pick(countLits) + ")][:5]", "[limit(5; range(" + a + "; " + b + "; " + g.pick(countLits) + "))]", "until(. > " + a + "; . + 1e17)?", "[limit(3; repeat(" + a + "))]", ". * " + a, "ltrimstr(" + a + ")", "splits(" + a + ")?", ".[" + a + "] = 1", ".[" + a + "]", "del(.[" + a + ", " + b + "])", "to_entries | .[" + a + ":" + b + "] | from_entries", "indices(" + a + ")", ".[" + a + ":" + b + "] as [$x] | $x", "getpath([" + a + ", " + b + "])", "setpath([" + a + "]; " + b + ")", "flatten(" + a + ")", "combinations(" + a + ")", "[limit(" + a + "; inputs)]", "ascii(" + a + ")?", "@text \"\\(.[" + a + ":" + b + "])\"", "tostring[" + a + ":" + b + "]", "ltrimstr(.[" + a + ":" + b + "]?)", "walk(.[" + a + ":" + b + "]?)", "getpath([" + a + "]) = " + b, "input[" + a + ":" + b + "]?", "$a[" + a + ":" + b + "]", "[.[]?[" + a + ":" + b + "]?]", "splits(\"\")[" + a + ":" + b + "]?"})
		in := []any{g.numArray(size, 50), "abcdefghij日本語", g.value(2), nil, g.key()}[g.r.Intn(5)]
		return g.wrap(f), in
	case 5: // regular expressions with every flag letter and 3+ argument forms
		re := qs(regexes[g.r.Intn(len(regexes))])
		fl := ""
		for n := g.r.Intn(4); n > 0; n-- {
			fl += string(regexFlagLetters[g.r.Intn(len(regexFlagLetters))])
		}
		flags := qs(strings.ToValidUTF8(fl, "?"))
		if g.r.Chance(1, 6) {
			flags = g.pick(countLits)
		}
		rep := g.pick([]string{"\"x\"", "\"\\(.x)\"", "\"\\(.x, .y)\"", "(\"a\",\"b\")", "empty", "1", ".x", "\"\\(.)\"", "[.x]", "null", "\"\\(error)\"", "\"\\(.x?)\"", "$a"})
		f := g.pick([]string{"test(" + re + "; " + flags + ")", "match(" + re + "; " + flags + ")", "capture(" + re + "; " + flags + ")", "scan(" + re + "; " + flags + ")", "split(" + re + "; " + flags + ")", "splits(" + re + "; " + flags + ")", "sub(" + re + "; " + rep + "; " + flags + ")", "gsub(" + re + "; " + rep + "; " + flags + ")",
			"sub(" + re + "; " + rep + ")", "gsub(" + re + "; " + rep + ")", "test([" + re + ", " + flags + "])", "match([" + re + ", " + flags + ", 1])", "match([" + re + "])", "match([])", "test([])", "capture([" + re + ", " + flags + "])", "[match(" + re + "; \"g\") | .captures | length]", "ascii_downcase | test(" + re + ")", "split(" + re + ")", "[splits(" + re + ")]", "sub(" + re + "; " + rep + "; " + flags + "; 1)?", "gsub(\"\"; " + rep + ")", "[match(" + re + "; \"g\").offset]", "capture(" + re + ") | keys", "match(" + re + "; null)", "test(" + re + "; [])", "sub((\"a\",\"b\"); (\"c\",\"d\"))", "gsub(\"(?<x>.)\"; \"\\(.x)\\(.x)\")", "gsub(\"\\\\s\"; \"\")", "gsub(\"^\"; \">\")", "gsub(\"$\"; \"<\")", "gsub(\"\"; \"-\"; \"g\")", "[scan(\".\"; \"g\")]", "scan(" + re + ") | tojson", "ltrimstr(" + re + ")", "trimstr(" + re + ")", "rtrimstr(" + re + ")", "startswith(" + re + ")", "endswith(" + re + ")", "index(" + re + ")", "indices(" + re + ")", "splits(" + re + "; " + flags + "; 1)?", "ascii", "@uri \"\\(.)\" | test(" + re + ")", "test(" + re + "; " + flags + "; 1)?"})
		in := []any{"abc", "", "aAbB\nab", "日本語 abc", "a\xffb", "aaaaaaaaaaaaaaaaaaaaaaaaaaaaaaaaaaaaaaaaaaaaaaaaaaaa", "ab\x00ab", g.key(), g.scalar()}[g.r.Intn(9)]
		return g.wrap(f), in
	case 6: // counts: huge / negative / NaN / wrong-typed
		n, m := g.pick(countLits), g.pick(countLits)
		f := g.pick([]string{"limit(" + n + "; range(" + m + "))", "[limit(" + n + "; repeat(1))][:3]", "first(limit(" + n + "; 1, 2))", "range(" + n + ")", "[range(" + n + "; " + m + ")][:3]", "[limit(3; range(0; " + n + "; " + m + "))]", "[limit(3; range(" + n + "; 0; " + m + "))]", "until(. >= " + n + "; . * 2 + 1)", "[limit(4; while(. < " + n + "; . + " + m + "))]", "nth(" + n + "; range(" + m + "))", "nth(" + n + ")", "skip(" + n + "; range(5))", "[limit(3; skip(" + n + "; repeat(1)))]", "first(range(" + n + "))", "last(range(" + n + "))?", "isempty(range(" + n + "))", "\"ab\" * " + n, ". * " + n, "[.[]? * " + n + "]", "flatten(" + n + ")", "combinations(" + n + ")", "[limit(3; combinations(" + n + "))]", "ltrimstr(" + n + ")", "rtrimstr(" + n + ")", "trimstr(" + n + ")", "startswith(" + n + ")", "endswith(" + n + ")", "join(" + n + ")", "split(" + n + ")", "splits(" + n + ")", "ascii_downcase", "ascii_upcase", "trim", "ltrim", "rtrim", "tojson", "fromjson", "tonumber", "tostring", "toarray", "toboolean?", "implode", "explode", "@sh", "@csv", "@tsv", "@html", "@uri", "@urid", "@base64", "@base64d", "@base32", "@base32d", "@json", "@text", "@sh \"x \\(.)\"", "@csv \"\\(.)\"", "@tsv \"\\(.[]?)\"", "utf8bytelength", "length", "abs", "not", "keys", "keys_unsorted?", "values", "has(" + n + ")", "in(" + n + ")", "contains(" + n + ")", "inside(" + n + ")", "indices(" + n + ")", "index(" + n + ")", "rindex(" + n + ")", "bsearch(" + n + ")", "getpath([" + n + "])", "pow(.; " + n + ")", "pow(" + n + "; .)", "log2", "exp10", "ldexp(.; " + n + ")", "scalb(.; " + n + ")", "scalbln(.; " + n + ")", "nearbyint", "trunc", "significand", "drem(.; " + n + ")", "frexp", "modf", "gamma", "lgamma", "tgamma", "lgamma_r?", "fma(.; " + n + "; " + m + ")", "jn(3; .)", "yn(3; .)", "splits(\"a\"; null)", "env[" + n + "]?", "$ENV[" + n + "]?", "input_filename", "halt_error(" + n + ")", "error(" + n + ")", "try error(" + n + ") catch .", "limit(" + n + "; error)", "tojson | .[:" + n + "] | fromjson?", "getpath([\"a\"] * " + n + ")?", "add(" + n + "; .[]?)?", "add(.[]?)", "any(.[]?; " + n + ")", "all(" + n + "; .)", "min_by(" + n + ")", "sort_by(" + n + ", " + m + ")", "group_by(" + n + ")", "unique_by(" + n + ")", "[.[]?] | sort | bsearch(" + n + ")", "walk(" + n + ")", "with_entries(" + n + ")?", "recurse(.[]?; " + n + ")", "[limit(5; recurse(. + 1; . < " + n + "))]", "[limit(5; recurse(if . < " + n + " then . + 1 else empty end))]", "last(limit(" + n + "; range(10)))", "[limit(" + n + "; limit(" + m + "; repeat(1)))][:2]", "first(inputs)", "[limit(" + n + "; inputs)]", "input, input, input, input, input", "ltrimstr(\"a\") * " + n, "[splits(\"\")] | .[" + n + "]", "getpath([\"a\", " + n + ", \"b\"])", "setpath([" + n + "]; 1)", "setpath([\"a\", " + n + "]; 1)", "del(.[" + n + "])", "to_entries[" + n + "]", "delpaths([[" + n + "]])", "[.[" + n + "]?, .[" + m + "]?]", "tojson | length"})
		var in any
		switch g.r.Intn(6) {
		case 0:
			in = g.num()
		case 1: // code points, in and out of range
			xs := make([]any, size)
			for i := range xs {
				xs[i] = []any{0, 65, 0x7f, 0x80, 0x7ff, 0x800, 0xd7ff, 0xd800, 0xdfff, 0xe000, 0xfffd, 0xffff, 0x10000, 0x10ffff, 0x110000, -1, math.MaxInt32, math.MaxInt64, math.MinInt64, 1.5, 65.9, math.NaN(), math.Inf(1), bigOf("18446744073709551616"), bigOf("65"), json.Number("66"), json.Number("1e1000"), "a", nil, []any{65}}[g.r.Intn(30)]
			}
			in = xs
		case 2: // nested containers for @sh / @csv / @tsv
			in = []any{g.scalar(), []any{g.scalar()}, map[string]any{"a": g.scalar()}, g.num(), g.key(), nil, true, []any{[]any{}}}[:1+g.r.Intn(8)]
		case 3: // deep value for tojson / walk / flatten
			var v any = g.scalar()
			for i := 0; i < []int{10, 100, 1000, 5000}[g.r.Intn(4)]; i++ {
				if g.r.Chance(2, 3) {
					v = []any{v}
				} else {
					v = map[string]any{"a": v}
				}
			}
			in = v
		case 4:
			in = g.key()
		default:
			in = g.numArray(size, 20)
		}
		return g.wrap(f), in
	case 7: // the jq-defined wrappers get the same structures through variables
		f := g.pick([]string{"$a | mktime", "$a | todate", "$a | strftime($b)", "$a | strptime($b)", "getpath($a)", "setpath($a; $b)", "delpaths($a)", "$a | from_entries", "$a | implode", "$a | join($b)", "$a | flatten", "$a | transpose", "$a | add", "$a | tojson", "$a | @csv", "$a | @tsv", "$a | @sh", ".[$a]", ".[$a:$b]", ".[$a] = $b", "limit($a; .[]?)", "range($a; $b)", "test($a; $b)", "sub($a; $b)", "$a | ltrimstr($b)", "$a * $b", "$a - $b", "$a / $b", "$a % $b", "$a | indices($b)", "$a | has($b)", "$b | in($a)", "$a | contains($b)", "$a | splits($b)", "$a | bsearch($b)", "$a | group_by($b)?", "$a | strflocaltime($b)", "$a | gmtime", "$a | dateadd($b; 1)", "$ENV | getpath($a)", "$a | fromstream(.[]?)", "$a | combinations", "$a | tostream", "[$a, $b] | transpose", "$a | to_entries", "$a | with_entries(.)", "$a | @base32d", "$a | fromjson", "$a | tonumber", "$a | ascii", "$a | @uri", "$a | min_by(.[0]?)", "$a | pick(.[0]?)", "$a | getpath([\"a\", 0]) = $b", "$a | walk($b)", "$a | error", "$a | halt_error", "try ($a | error) catch .", "$a | splits(\"a\"; $b)", "$a as [$x, $y] | [$x, $y]", "$a as {a: $x} | $x", "$a | .[] as [$x] ?// $x | $x"})
		return g.wrap(f), g.value(2)
	case 8: // strftime family again, numeric epoch inputs of every representation
		f := timeFuncs[g.r.Intn(len(timeFuncs))]
		f = strings.ReplaceAll(f, "%F", qs(timeFormats[g.r.Intn(len(timeFormats))]))
		f = strings.ReplaceAll(f, "$n", fmt.Sprint(size))
		return g.wrap(f), g.num()
	case 9: // object construction / destructuring with odd keys
		f := g.pick([]string{"{(.[]?): 1}", "{(.[]?|tostring): .}", "with_entries(.key |= ascii_downcase?)", "to_entries | map(.key) | implode?", ". as {a: $x, $y, \"b\": [$z]} | [$x, $y, $z]", ". as [$x, [$y], {a: $z}] | [$x, $y, $z]", ". as [$x] ?// {a: $x} ?// $x | $x", "[.[]? as [$a, $b] | {a: $a, b: $b}]", "{a: .[]?} | .a", "{$__loc__}", "{\"a\\(.[]?)\": 1}", "{(\"a\", \"b\"): (1, 2)}", "{a: 1} * .", ". * {a: {b: 1}}", "[.[]? | objects] | add", "map_values(empty)", "map_values(., .)", "map(., .)", "del(.[])", "del(..)", "delpaths([paths])", "to_entries | map(select(.value)) | from_entries", "[paths] | map(tojson) | unique", "reduce .[]? as [$k, $v] ({}; .[$k|tostring] = $v)", "foreach .[]? as {a: $x} (0; . + ($x // 0))", "getpath(paths)", "[paths(type == \"array\")] | length", "pick(.a.b.c)", "pick(.[0][1])", "pick(first)", "pick(..)?", "have_literal_numbers", "$__prog_args?", "ltrimstr(.a?)", "tojson | fromjson == ."})
		return g.wrap(f), g.value(3)
	case 10: // implode / explode / string functions on out-of-range and wrong-typed data
		f := g.pick([]string{"implode", "implode | explode", "map(implode?)", "[.[]?] | implode", "explode | implode", "explode | map(. + 1) | implode", "explode | map(. * 1000) | implode", "[.[]? | [.] | implode?]", "implode | @json", "implode | ascii_downcase", "implode | test(\"a\")", "implode | utf8bytelength", "implode | ltrimstr(\"a\")", "implode | @uri", "implode | @base32 | @base32d", "implode | @base64 | @base64d", "implode | tojson | fromjson", "implode | split(\"\")", "implode | [splits(\"\")]", "implode | .[1:-1]", "implode | ascii", "implode | trim"})
		_, in := g.structuredCase(6, size) // reuse the code point arrays of family 6 often enough
		if g.r.Chance(1, 2) {
			xs := make([]any, size)
			for i := range xs {
				xs[i] = []any{0, 65, 0xd800, 0xdfff, 0x10ffff, 0x110000, -1, math.MaxInt64, 1.5, math.NaN(), bigOf("18446744073709551616"), "a", nil}[g.r.Intn(13)]
			}
			in = xs
		}
		return g.wrap(f), in
	case 12: // generated regular expressions: out-of-order / overlapping / non-participating / empty groups
		re := qs(g.regex(2 + g.r.Intn(2)))
		if g.r.Chance(1, 6) {
			re = qs(g.pick(groupRegexes))
		}
		fl := ""
		for n := g.r.Intn(3); n > 0; n-- {
			fl += string("gixsnlp"[g.r.Intn(7)])
		}
		if g.r.Chance(1, 2) && !strings.Contains(fl, "g") {
			fl += "g"
		}
		flags := qs(fl)
		rep := g.pick([]string{"\"<\\(.x)>\"", "\"\\(.x // \"-\")\\(.y // \"-\")\"", "\"[\\(.)]\"", "\"\"", "(\"1\",\"2\")", "\"\\(.x?)\"", ".x", "\"\\(.n)\""})
		f := g.pick([]string{"match(" + re + "; " + flags + ")", "[match(" + re + "; " + flags + ")]", "[match(" + re + "; " + flags + ") | .captures[] | [.offset, .length, .string, .name]]", "match(" + re + ")",
			"test(" + re + "; " + flags + ")", "capture(" + re + "; " + flags + ")", "[capture(" + re + "; " + flags + ")]", "capture(" + re + ")", "[scan(" + re + "; " + flags + ")]", "[scan(" + re + ")]", "scan(" + re + ")",
			"[splits(" + re + "; " + flags + ")]", "[splits(" + re + ")]", "split(" + re + "; " + flags + ")", "split(" + re + "; null)", "sub(" + re + "; " + rep + "; " + flags + ")", "sub(" + re + "; " + rep + ")",
			"gsub(" + re + "; " + rep + "; " + flags + ")", "gsub(" + re + "; " + rep + ")", "[match(" + re + "; \"g\") | .offset]", "[match(" + re + "; \"g\").captures | map(.offset)]",
			"match([" + re + ", " + flags + "])", "[.[]? | strings | match(" + re + "; " + flags + ")]", "ascii_downcase | [match(" + re + "; \"g\")] | length", "[match(" + re + ", " + qs(g.regex(2)) + "; \"g\")]"})
		var in any = g.subject()
		if g.r.Chance(1, 12) {
			in = []any{g.subject(), g.subject(), g.scalar()}
		}
		return g.wrap(f), in
	case 13: // deletions that FAIL after earlier paths were already marked: the error message previews a value
		// that contains the internal deletion marker
		in := g.delInput(size)
		paths := realPaths(in, nil, 60)
		var ps [][]any
		for n := 1 + g.r.Intn(3); n > 0 && len(paths) > 0; n-- {
			ps = append(ps, paths[g.r.Intn(len(paths))])
		}
		// one or two failing paths built from a real one: wrong key type on a sibling or on the marked container,
		// index into the marked element, slice of an object, key into an array
		for n := 1 + g.r.Intn(2); n > 0 && len(paths) > 0; n-- {
			base := append([]any(nil), paths[g.r.Intn(len(paths))]...)
			bad := []any{"a", 0, -1, map[string]any{"start": 0, "end": 1}, nil, 1.5, "", true, []any{0}, 1000000, map[string]any{"start": "x"}}[g.r.Intn(11)]
			switch g.r.Intn(4) {
			case 0:
				if len(base) > 0 {
					base[len(base)-1] = bad
				} else {
					base = []any{bad}
				}
			case 1:
				base = append(base, bad)
			case 2:
				if len(base) > 1 {
					base = append(base[:len(base)-1:len(base)-1], bad, base[len(base)-1])
				} else {
					base = append(base, bad)
				}
			default:
				base = append(base, 0, bad)
			}
			ps = append(ps, base)
		}
		g.shufflePaths(ps)
		lits := make([]string, len(ps))
		exprs := make([]string, len(ps))
		for i, q := range ps {
			lits[i] = g.jsonLit(q)
			exprs[i] = pathExprOf(g, q)
		}
		pl := "[" + strings.Join(lits, ",") + "]"
		pe := strings.Join(exprs, ", ")
		f := g.pick([]string{"try delpaths(" + pl + ") catch .", "delpaths(" + pl + ")", "try del(" + pe + ") catch .", "del(" + pe + ")", "try ((" + pe + ") |= empty) catch .", "(" + pe + ") |= empty",
			"try delpaths(" + pl + ") catch (. | length)", "[.[]? | try delpaths(" + pl + ") catch .]", "try (delpaths(" + pl + ") | tojson) catch tojson", "try del(" + pe + ") catch ascii_downcase",
			"try delpaths($a) catch .", "try (reduce " + pl + "[] as $p (.; delpaths([$p]))) catch .", "try ((" + pe + ") |= (empty, 1)) catch .", "try (del(" + pe + ") | del(" + pe + ")) catch .",
			"try (to_entries | delpaths(" + pl + ")) catch .", "try (path(" + pe + ")) catch .", "try ((" + pe + ") = empty) catch .", "try (delpaths(" + pl + "), delpaths(" + pl + ")) catch ."})
		return f, in
	}
	// 11: every builtin applied to a numeric array of the given size, and with it as each argument
	b := g.builtins[g.r.Intn(len(g.builtins))]
	args := make([]string, b.arity)
	for i := range args {
		args[i] = g.pick([]string{".", "$a", ".[0]", ".[]", "length", g.atom(), g.pick(countLits)})
	}
	s := b.name
	if b.arity > 0 {
		s += "(" + strings.Join(args, "; ") + ")"
	}
	if infinite[b.name] {
		s = "limit(5; " + s + ")"
	}
	return g.wrap(s), g.numArray(size, 10)
}


// ---------------------------------------------------------------------------------------------
// a small regex grammar over the alphabet {a, b, c, á, é, .}: alternations of groups under * + {n},
// nested groups, optional groups that do not participate, empty-matching groups, named and unnamed mixed

const nFamilies = 14

var groupRegexes = []string{"(?:(a)|(b))*", "((a)|(b))+", "(a|(b))*(c)?", "(?:(?<x>a)|(?<y>b))*", "((?<x>a)|(b))*", "(b)|(a)", "(?:(b)|(a))+", "((a*)|(b))*", "(a)?(b)?(a)?", "(?:(á)|(b))*", "(?:(a)|(é))+",
	"(()|a)+", "(a|())*b", "((a)|(b)|(c)){2}", "(?:(a)|(b)){1,3}", "(?<x>(?<y>b)|a)*", "(?:a(b)?|(c))*", "((?:(a)|b)+)", "(?:(?:(a))|(?:(b)))*", "(a)*(b)*(a)*", "(?:(a)(b)?)*", "(?:(b)(?:(a)|c))*", "(.)(?:(a)|(b))*\\b?"}

func (g *gen) regexAtom() string {
	return g.pick([]string{"a", "b", "c", "á", "é", ".", "a", "b", "[ab]", "[^a]", "", "\\w", "a?", "b*", "\\b", "^", "$"})
}

func (g *gen) regex(depth int) string {
	if depth <= 0 {
		return g.regexAtom()
	}
	switch g.r.Intn(12) {
	case 0, 1: // alternation of capture groups under a quantifier
		n := 2 + g.r.Intn(2)
		alts := make([]string, n)
		for i := range alts {
			alts[i] = g.group(g.regex(depth - 1))
		}
		open := g.pick([]string{"(?:", "(", "(?<o>"})
		return open + strings.Join(alts, "|") + ")" + g.pick([]string{"*", "+", "{2}", "{1,3}", "*?", "+?", "", "?"})
	case 2:
		return g.group(g.regex(depth-1)) + g.pick([]string{"?", "*", "", "+", "{0,2}"})
	case 3:
		return g.regex(depth-1) + g.regex(depth-1)
	case 4:
		return g.regex(depth-1) + "|" + g.regex(depth-1)
	case 5: // a group that need not participate, followed by one that does
		return g.group(g.regexAtom()) + "?" + g.group(g.regex(depth-1))
	case 6: // empty-matching group
		return g.group(g.pick([]string{"", "a*", "b?", "()", "|a"})) + g.regex(depth-1)
	case 7: // nested
		return g.group(g.group(g.regex(depth-1)) + g.pick([]string{"", "|", "|b", "*"}) + g.group(g.regexAtom()))
	case 8:
		return "(?:" + g.regex(depth-1) + ")" + g.pick([]string{"*", "+", "?", "{2}"})
	}
	return g.regexAtom()
}

func (g *gen) group(inner string) string {
	switch g.r.Intn(5) {
	case 0:
		return "(?<" + g.pick([]string{"x", "y", "n", "x1"}) + ">" + inner + ")"
	case 1:
		return "(?:" + inner + ")"
	}
	return "(" + inner + ")"
}

// subjects over the same alphabet, including look-alike multi-byte ones
func (g *gen) subject() string {
	if g.r.Chance(1, 4) {
		return g.pick([]string{"ba", "ab", "bá", "éa", "aéb", "", "a", "b", "abcabc", "bab", "cba", "ááb", "a\xffb", "bb", "aab", "b\u00e9a", "a\nb"})
	}
	n := g.r.Intn(6)
	var sb strings.Builder
	for i := 0; i < n; i++ {
		sb.WriteString(g.pick([]string{"a", "b", "c", "á", "é", "a", "b", " "}))
	}
	return sb.String()
}


// inputs for the deletion family: nested containers, some with long scalars so that the 30-byte preview cut
// falls at different places relative to a marked element
func (g *gen) delInput(size int) any {
	leaf := func() any {
		return []any{1, 2, "x", nil, true, strings.Repeat("y", g.r.Intn(30)), 123456789012, []any{}, map[string]any{}}[g.r.Intn(9)]
	}
	var mk func(d int) any
	mk = func(d int) any {
		if d <= 0 || g.r.Chance(1, 4) {
			return leaf()
		}
		if g.r.Chance(1, 2) {
			n := 1 + g.r.Intn(3+size%4)
			xs := make([]any, n)
			for i := range xs {
				xs[i] = mk(d - 1)
			}
			return xs
		}
		m := map[string]any{}
		for _, k := range []string{"a", "b", "c", "key with a long name 0123456789"}[:1+g.r.Intn(4)] {
			m[k] = mk(d - 1)
		}
		return m
	}
	switch g.r.Intn(6) {
	case 0:
		return []any{[]any{1, 2}}
	case 1:
		return map[string]any{"a": []any{1, 2}, "b": map[string]any{"c": 1}}
	case 2:
		return []any{[]any{1, 2}, []any{3, 4}, map[string]any{"a": []any{5}}}
	}
	return mk(2 + g.r.Intn(2))
}

func realPaths(v any, prefix []any, limit int) [][]any {
	var out [][]any
	var walk func(v any, p []any)
	walk = func(v any, p []any) {
		if len(out) >= limit {
			return
		}
		if len(p) > 0 {
			out = append(out, append([]any(nil), p...))
		}
		switch v := v.(type) {
		case []any:
			for i, x := range v {
				walk(x, append(p, i))
			}
		case map[string]any:
			keys := make([]string, 0, len(v))
			for k := range v {
				keys = append(keys, k)
			}
			sort.Strings(keys)
			for _, k := range keys {
				walk(v[k], append(p, k))
			}
		}
	}
	walk(v, prefix)
	return out
}

func (g *gen) shufflePaths(ps [][]any) {
	for i := len(ps) - 1; i > 0; i-- {
		j := g.r.Intn(i + 1)
		ps[i], ps[j] = ps[j], ps[i]
	}
}

// a path as a jq path expression: .[0]["a"][1:2]
func pathExprOf(g *gen, p []any) string {
	if len(p) == 0 {
		return "."
	}
	var sb strings.Builder
	sb.WriteString(".")
	for _, e := range p {
		if m, ok := e.(map[string]any); ok {
			st, en := "", ""
			if x, ok := m["start"]; ok {
				st = g.jsonLit(x)
			}
			if x, ok := m["end"]; ok {
				en = g.jsonLit(x)
			}
			sb.WriteString("[" + st + ":" + en + "]")
			continue
		}
		sb.WriteString("[" + g.jsonLit(e) + "]")
	}
	return sb.String()
}
