package main

// Case generators for the crash search: value pool over every supported Go representation,
// byte-level mutators of corpus queries, a grammar generator that calls every builtin with
// wrong-typed and boundary arguments, and a generator of command lines + stdin.

import (
	"encoding/json"
	"fmt"
	"math"
	"math/big"
	"strings"

	. "verifharness/hlib"
)

// ---------------------------------------------------------------------------------------------
// values

func bigOf(s string) *big.Int { z, _ := new(big.Int).SetString(s, 10); return z }

var scalarPool = []any{
	nil, true, false,
	0, 1, -1, 2, 7, 255, 65536, math.MaxInt32, math.MinInt32, math.MaxInt64, math.MinInt64, math.MaxInt64 - 1, 1 << 53, 0x20000000, 0x1fffffff,
	0.0, math.Copysign(0, -1), 0.5, -0.5, 1.5, 1e17, 1e19, -1e19, 9007199254740993.0, 1e308, -1e308, math.MaxFloat64, math.SmallestNonzeroFloat64,
	math.NaN(), math.Inf(1), math.Inf(-1), 9223372036854775807.0, -9223372036854775808.0, 4294967296.0, 1e-7, 3.0,
	bigOf("0"), bigOf("1"), bigOf("-1"), bigOf("18446744073709551616"), bigOf("-18446744073709551616"), bigOf("9223372036854775808"),
	bigOf("-9223372036854775809"), bigOf("10000000000000000000000000000000000000000"),
	new(big.Int).Lsh(big.NewInt(1), 1100), new(big.Int).Neg(new(big.Int).Lsh(big.NewInt(1), 1100)),
	json.Number("0"), json.Number("-0"), json.Number("1"), json.Number("1.0"), json.Number("0.1"), json.Number("1e1000"), json.Number("-1e1000"),
	json.Number("1e-1000"), json.Number("1E+400"), json.Number("123456789012345678901234567890"), json.Number("-123456789012345678901234567890"),
	json.Number("1e999999999"), json.Number("-1e-999999999"), json.Number("9223372036854775807"), json.Number("9223372036854775808"),
	json.Number("1.000000000000000000000000000001"), json.Number("100000000000000000000e-20"), json.Number("0e10"), json.Number("1e2"),
	json.Number("0.00000000000000000000000000000000000001e40"), json.Number("12345678901234567890.5"),
	"", "a", "abc", "a,b, c", " ", "\x00", "\n", "\"\\", "日本語", "🙂", "é", "\xff", "\xc0\x80", "\xe3\x81", "a\xed\xa0\x80b", "\xf4\x90\x80\x80", "\xf0\x9f",
	"0", "1", "-1", "1e1000", "nan", "NaN", "Infinity", " 1 ", "0x10", "1_000", "[1,2", "{\"a\":nan}", "null", "true", "[]", "{}", "\"x\"",
	"2015-03-05T23:51:47Z", "10:20", "%Y-%m-%dT%H:%M:%SZ", "%", "%Q", "(?<x>a)|b", "[", "\\", "(", "a*", "", "gx", "x", "g", "n", "gin",
	"test test", "aAbB", "\u00e9\u0301", "abcabcabc", "  x  ", strings.Repeat("a", 31), strings.Repeat("日", 11), strings.Repeat("\xff", 40), strings.Repeat("ab\"", 12),
	"\U0010ffff", "\ufffd", "\u2028", "<&'\">", "a b", "$__loc__", "__proto__", "key", "value", "name",
}

func (g *gen) scalar() any { return scalarPool[g.r.Intn(len(scalarPool))] }

func (g *gen) key() string {
	for {
		if s, ok := g.scalar().(string); ok {
			return s
		}
	}
}

func (g *gen) value(depth int) any {
	k := g.r.Intn(10)
	if depth <= 0 || k < 5 {
		return g.scalar()
	}
	switch {
	case k < 8:
		n := g.r.Intn(5)
		if g.r.Chance(1, 30) {
			return []any(nil)
		}
		xs := make([]any, n)
		for i := range xs {
			xs[i] = g.value(depth - 1)
		}
		return xs
	default:
		if g.r.Chance(1, 30) {
			return map[string]any(nil)
		}
		n := g.r.Intn(4)
		m := make(map[string]any, n)
		for i := 0; i < n; i++ {
			m[g.key()] = g.value(depth - 1)
		}
		return m
	}
}

// structured inputs that builtins like from_entries/mktime/implode/transpose/fromstream look at
func (g *gen) shaped() any {
	switch g.r.Intn(14) {
	case 0:
		return []any{map[string]any{"key": g.scalar(), "value": g.scalar()}, map[string]any{"k": g.scalar(), "v": 1}, map[string]any{"name": g.scalar()}, g.scalar()}
	case 1: // broken-down time
		xs := make([]any, 6+g.r.Intn(4))
		for i := range xs {
			xs[i] = g.scalar()
		}
		return xs
	case 2:
		return []any{2015, 2, 5, 23, 51, 47, 4, 63}
	case 3: // code points
		xs := make([]any, g.r.Intn(6))
		for i := range xs {
			xs[i] = []any{0, 65, 0x10ffff, 0x110000, -1, 0xd800, 0xdfff, math.MaxInt64, 1.5, math.NaN(), bigOf("18446744073709551616"), "a", nil}[g.r.Intn(13)]
		}
		return xs
	case 4: // ragged matrix
		return []any{[]any{1, 2, 3}, []any{}, []any{nil, g.scalar()}, g.scalar()}
	case 5: // stream events
		return []any{[]any{[]any{0}, 1}, []any{[]any{"a", g.scalar()}, g.scalar()}, []any{[]any{0}}, g.scalar()}
	case 6: // paths
		return []any{[]any{"a", 0, "b"}, []any{g.scalar()}, []any{-1}, []any{map[string]any{"start": g.scalar(), "end": g.scalar()}}, g.scalar()}
	case 7: // deep nesting
		var v any = g.scalar()
		for i := 0; i < 40+g.r.Intn(200); i++ {
			if g.r.Chance(1, 2) {
				v = []any{v}
			} else {
				v = map[string]any{"a": v}
			}
		}
		return v
	case 8:
		return map[string]any{"a": []any{1, map[string]any{"b": g.scalar()}}, "b": g.value(2), "": g.scalar(), "\xff": 1}
	case 9: // long arrays
		n := []int{30, 100, 1000}[g.r.Intn(3)]
		xs := make([]any, n)
		for i := range xs {
			xs[i] = g.scalar()
		}
		return xs
	case 10:
		return []any{g.scalar(), g.scalar(), g.scalar()}
	case 11:
		return map[string]any{"start": g.scalar(), "end": g.scalar(), "named": map[string]any{}, "positional": []any{}}
	case 12:
		return []any{[]any{g.scalar(), g.scalar()}, []any{g.scalar()}, []any{}}
	}
	return g.value(3)
}

func (g *gen) input() any {
	switch g.r.Intn(4) {
	case 0:
		return g.scalar()
	case 1:
		return g.shaped()
	}
	return g.value(3)
}

// re-represent the numbers of a decoded JSON document in random Go representations
func (g *gen) rerep(v any) any {
	switch v := v.(type) {
	case json.Number:
		switch g.r.Intn(4) {
		case 0:
			return v
		case 1:
			if z, ok := new(big.Int).SetString(v.String(), 10); ok {
				return z
			}
		case 2:
			if z, ok := new(big.Int).SetString(v.String(), 10); ok && z.IsInt64() {
				return int(z.Int64())
			}
		}
		f, _ := v.Float64()
		return f
	case []any:
		for i := range v {
			v[i] = g.rerep(v[i])
		}
	case map[string]any:
		for k := range v {
			v[k] = g.rerep(v[k])
		}
	}
	return v
}

// ---------------------------------------------------------------------------------------------
// byte-level mutation of corpus queries

var spice = []string{"\"", "\\", "\\(", "(", ")", "[", "]", "{", "}", "|", ".", "..", ",", ":", ";", "$", "@", "#", "?", "//", "?//", "*", "+", "-", "=", "|=", "<", ">", "!", "%",
	"\x00", "\x80", "\xff", "\xe3", "\n", "\r", " ", "0", "9", "e", "E", "1e", "1e1000", ".5", "_", "::", "$__loc__", "$a", "$ENV", "@base64", "@json",
	" as ", " def ", " if ", " then ", " else ", " elif ", " end ", " try ", " catch ", " reduce ", " foreach ", " label ", " break ", " import ", " include ", " module ", " and ", " or ", " not ",
	"\\u", "\\ud800", "\\udc00", "\\u00", "9223372036854775808", "-9223372036854775809", "nan", "infinite", "input", "error", "empty", "limit(", "path(", "getpath(", ".[", ".[]", "?", ".a", ".\"", "$__prog"}

func (g *gen) mutate(src string, other string) string {
	b := []byte(src)
	for k := 1 + g.r.Intn(3); k > 0; k-- {
		n := len(b)
		switch g.r.Intn(11) {
		case 0: // bit flip
			if n > 0 {
				b[g.r.Intn(n)] ^= 1 << uint(g.r.Intn(8))
			}
		case 1: // insert interesting text
			s := spice[g.r.Intn(len(spice))]
			i := g.r.Intn(n + 1)
			b = append(b[:i:i], append([]byte(s), b[i:]...)...)
		case 2: // insert random byte
			i := g.r.Intn(n + 1)
			b = append(b[:i:i], append([]byte{byte(g.r.Intn(256))}, b[i:]...)...)
		case 3: // delete a byte
			if n > 0 {
				i := g.r.Intn(n)
				b = append(b[:i:i], b[i+1:]...)
			}
		case 4: // delete a range
			if n > 1 {
				i := g.r.Intn(n)
				j := i + 1 + g.r.Intn(min(n-i, 8))
				b = append(b[:i:i], b[j:]...)
			}
		case 5: // duplicate a range
			if n > 0 {
				i := g.r.Intn(n)
				j := i + 1 + g.r.Intn(min(n-i, 12))
				d := append([]byte(nil), b[i:j]...)
				b = append(b[:j:j], append(d, b[j:]...)...)
			}
		case 6: // truncate
			if n > 0 {
				b = b[:g.r.Intn(n)]
			}
		case 7: // splice with another query
			if n > 0 && len(other) > 0 {
				i := g.r.Intn(n)
				b = append(b[:i:i], other[g.r.Intn(len(other)):]...)
			}
		case 8: // replace a byte by an interesting one
			if n > 0 {
				s := spice[g.r.Intn(len(spice))]
				b[g.r.Intn(n)] = s[0]
			}
		case 9: // swap two bytes
			if n > 1 {
				i, j := g.r.Intn(n), g.r.Intn(n)
				b[i], b[j] = b[j], b[i]
			}
		case 10: // wrap
			w := [][2]string{{"(", ")"}, {"[", "]"}, {"{a:", "}"}, {"path(", ")"}, {"try (", ") catch ."}, {"[limit(3;", ")]"}, {"", " |= ."}, {"", " = 1"}, {"del(", ")"}, {"1 + (", ")"},
				{"\"\\(", ")\""}, {"def f: ", "; f"}, {"label $l | ", ""}, {"reduce (", ") as $x (0; .+1)"}, {"first(", ")"}, {". as [$a] | ", ""}, {"", " as $a | $a"}, {"", "?"}, {"-(", ")"}}[g.r.Intn(19)]
			b = append([]byte(w[0]), append(b, w[1]...)...)
		}
	}
	return string(b)
}

// ---------------------------------------------------------------------------------------------
// grammar generator

type builtin struct {
	name  string
	arity int
}

type gen struct {
	r        *Rng
	builtins []builtin
	corpus   []corpusQuery
}

type corpusQuery struct {
	query string
	input string
	args  []string
	env   []string
}

var numLits = []string{"0", "1", "-1", "2", "3", "10", "0.5", "-0.5", "1e1000", "-1e1000", "1e-1000", "nan", "infinite", "-infinite", "9223372036854775807", "-9223372036854775808",
	"9223372036854775808", "18446744073709551616", "1e18", "1e19", "4294967296", "2147483648", "-2147483649", "1e308", "1.7976931348623157e308", "5e-324",
	"100000000000000000000000000000", "0.1", "3.0", "1e3", "00012", "536870912", "536870911", "1.5", "-0", "(0/0)?", "1e9", "1e6", "65536", "1114112", "55296", "(-1|sqrt)", "-1e9", "31", "32", "64"}
var strLits = []string{`""`, `"a"`, `"abc"`, `"\u0000"`, `"\ud83d"`, `"\(1,2)"`, `"a,b, c"`, `"%Y-%m-%dT%H:%M:%SZ"`, `"2015-03-05T23:51:47Z"`, `"(?<x>a)|b"`, `"["`, `"\\"`, `"g"`, `"gx"`, `"x"`,
	`"1"`, `"1e1000"`, `"nan"`, `" 1 "`, `"[1,2"`, `"{\"a\":nan}"`, `("a"*100)`, `"日本語"`, `"%"`, `"%e %Z %j"`, `"a*"`, `"(a)|(b)"`, `"\\b"`, `"n"`, `"gs"`, `"é"`, `"\(.)"`, `@base64 "\(.)"`, `"key"`, `"a.b"`, `"$"`, `"^"`, `"."`, `""?`}
var otherLits = []string{"null", "true", "false", "[]", "{}", "[[]]", "[1,2,3]", `["a","b"]`, `{"a":1}`, `{"a":{"b":[1,2]}}`, "[null]", "[nan]", "[[1,2],[3]]", `[{"key":"a","value":1}]`, `[{"name":"x"}]`,
	".", ".[]", "..", ".a", ".[0]", "$a", "$b", "$c", "empty", "error", `error("x")`, "error(null)", "input", "$ENV", "env", "$__loc__", "[limit(3;repeat(1))]", "[range(10)]", `("a"|explode)`, "(., .)", "(1,null)",
	"first(range(5))", "({} | .a.b.c)", "[path(..)]", "[.[]?]", `["a",0]`, `[[0],1]`, `[0,"a",null]`, `{"start":1,"end":null}`, "[2015,2,5,23,51,47,4,63]", "[1e1000,nan,-1]", "[[\"a\",1],[\"b\"]]", "now", "input_filename", "$__prog_args?",
	"[.,.]", "{a:.}", "(.. | numbers)", "{(\"a\",\"b\"):(1,2)}", ".[1:]", ".[:-1]", ".[-1]", "getpath([\"a\",\"b\"])", "paths", "[paths]", "tojson", "keys?", "length?", "(.[0]?)", "$ENV.A", "halt", "\"\\(1;2)\"?"}
var formats = []string{"@text", "@json", "@html", "@uri", "@urid", "@csv", "@tsv", "@sh", "@base64", "@base64d", "@base32", "@base32d", "@unknown"}
var binops = []string{"+", "-", "*", "/", "%", "==", "!=", "<", "<=", ">", ">=", "and", "or", "//", "|", ","}
var updops = []string{"=", "|=", "+=", "-=", "*=", "/=", "%=", "//="}
var infinite = map[string]bool{"repeat": true, "recurse": true, "while": true, "until": true, "range": true, "inputs": true, "combinations": true, "limit": true, "walk": true}

func (g *gen) pick(xs []string) string { return xs[g.r.Intn(len(xs))] }

func (g *gen) atom() string {
	switch g.r.Intn(6) {
	case 0, 1:
		return g.pick(numLits)
	case 2:
		return g.pick(strLits)
	}
	return g.pick(otherLits)
}

func (g *gen) call(depth int) string {
	b := g.builtins[g.r.Intn(len(g.builtins))]
	if b.arity == 0 {
		return b.name
	}
	args := make([]string, b.arity)
	for i := range args {
		args[i] = g.expr(depth - 1)
	}
	s := b.name + "(" + strings.Join(args, "; ") + ")"
	if infinite[b.name] && !g.r.Chance(1, 8) {
		return "limit(" + g.pick([]string{"3", "5", "0", "1", "-1", "1e1000"}) + "; " + s + ")"
	}
	return s
}

func (g *gen) pattern(depth int) string {
	switch {
	case depth <= 0 || g.r.Chance(1, 2):
		return g.pick([]string{"$x", "$a", "$y", "$__loc__"})
	case g.r.Chance(1, 2):
		return "[" + g.pattern(depth-1) + ", " + g.pattern(depth-1) + "]"
	}
	return g.pick([]string{"{a: ", "{$x, b: ", "{\"a\": ", "{(\"a\",\"b\"): ", "{$y: ", "{\"\\(1)\": ", "{@json \"k\": "}) + g.pattern(depth-1) + "}"
}

func (g *gen) expr(depth int) string {
	if depth <= 0 {
		return g.atom()
	}
	switch g.r.Intn(40) {
	case 0, 1, 2, 3, 4, 5, 6, 7:
		return g.atom()
	case 8, 9, 10, 11, 12, 13, 14, 15, 16:
		return g.call(depth)
	case 17, 18:
		return "(" + g.expr(depth-1) + " | " + g.call(depth) + ")"
	case 19:
		return "(" + g.expr(depth-1) + " " + g.pick(binops) + " " + g.expr(depth-1) + ")"
	case 20:
		return "(" + g.pathexpr(depth-1) + " " + g.pick(updops) + " " + g.expr(depth-1) + ")"
	case 21:
		return g.expr(depth-1) + "[" + g.expr(depth-1) + "]"
	case 22:
		return g.pick([]string{".", g.expr(depth - 1)}) + "[" + g.pick([]string{"", g.expr(depth - 1)}) + ":" + g.pick([]string{"", g.expr(depth - 1)}) + "]" + g.pick([]string{"", "?"})
	case 23:
		return "[" + g.expr(depth-1) + "]"
	case 24:
		return "{" + g.pick([]string{"a", "\"b\"", "(" + g.expr(depth-1) + ")", "$a", "@base64 \"x\"", "\"a\\(" + g.expr(depth-1) + ")\"", "$__loc__"}) + g.pick([]string{": " + g.expr(depth-1), ""}) + "}"
	case 25:
		return "try " + g.postfix(depth-1) + g.pick([]string{"", " catch .", " catch error", " catch (" + g.expr(depth-1) + ")"})
	case 26:
		return "path(" + g.expr(depth-1) + ")"
	case 27:
		return "if " + g.expr(depth-1) + " then " + g.expr(depth-1) + g.pick([]string{"", " elif " + g.expr(depth-1) + " then 1", ""}) + g.pick([]string{" else " + g.expr(depth-1), ""}) + " end"
	case 28:
		return "reduce " + g.postfix(depth-1) + " as " + g.pattern(2) + " (" + g.expr(depth-1) + "; " + g.expr(depth-1) + ")"
	case 29:
		return "foreach " + g.postfix(depth-1) + " as " + g.pattern(2) + " (" + g.expr(depth-1) + "; " + g.expr(depth-1) + g.pick([]string{"", "; " + g.expr(depth-1)}) + ")"
	case 30:
		return "(" + g.postfix(depth-1) + " as " + g.pattern(2) + g.pick([]string{"", " ?// " + g.pattern(2)}) + " | " + g.pick([]string{"$x", "$a", "[$x,$y]?", ".", g.expr(depth - 1)}) + ")"
	case 31:
		return "(label $l | " + g.expr(depth-1) + ", break $l, " + g.expr(depth-1) + ")"
	case 32:
		return g.pick(formats) + g.pick([]string{"", " \"a\\(" + g.expr(depth-1) + ")b\""})
	case 33:
		return "\"x\\(" + g.expr(depth-1) + ")\\(" + g.atom() + ")\""
	case 34:
		return "(def f" + g.pick([]string{"", "(g)", "($x)", "(g; $x)"}) + ": " + g.expr(depth-1) + "; " + g.pick([]string{"f", "f(.)", "f(1)", "f(.[]; 2)", "f(f)", "[f]"}) + ")"
	case 35:
		return "-" + g.postfix(depth-1)
	case 36:
		return g.postfix(depth-1) + g.pick([]string{"?", ".a", ".[]", ".[]?", "[0]", "[-1]", ".\"a\"", ".a.b?", "..", "[\"a\"]", "[1e1000]", "[nan]", "[null]", "[{}]", "[[]]", "[[1]]", "[-1e1000:]", "[:1e1000]", "[.5:1.5]", ".a[1:][0]"})
	case 37:
		return "(def r: if " + g.pick([]string{". < 3", "length < 3", "type == \"number\"", "."}) + " then " + g.pick([]string{".+1", "[.]", "., 1", g.expr(depth - 1)}) + " | r else . end; limit(5; r))"
	case 38:
		return "del(" + g.pathexpr(depth-1) + ")"
	}
	return "[limit(3; " + g.expr(depth-1) + ")]"
}

func (g *gen) postfix(depth int) string {
	if g.r.Chance(1, 2) {
		return g.atom()
	}
	return "(" + g.expr(depth) + ")"
}

func (g *gen) pathexpr(depth int) string {
	switch g.r.Intn(12) {
	case 0:
		return "."
	case 1:
		return ".a"
	case 2:
		return ".[" + g.atom() + "]"
	case 3:
		return ".[" + g.pick(numLits) + ":" + g.pick(numLits) + "]"
	case 4:
		return ".[]"
	case 5:
		return ".."
	case 6:
		return "getpath(" + g.expr(depth) + ")"
	case 7:
		return "(" + g.pathexpr(depth) + ", " + g.pathexpr(depth) + ")"
	case 8:
		return g.pathexpr(depth) + g.pick([]string{".a", "[0]", "[]", "[1:]", "[-1]", "?", "[:2]", "[536870911]", "[\"a\"]", "[-1:]"})
	case 9:
		return "(" + g.pathexpr(depth) + " | " + g.pick([]string{"select(" + g.expr(depth) + ")", "first", "last", "recurse", "paths", "to_entries[]", "if . then .a else .b end", "first(.[])", "limit(1; .[])", ".a // .b", "empty", "error", "getpath([\"a\",0])", "$__loc__", "input", "map(.)", "reduce .[] as $x (.; .a)", "foreach (1,2) as $x (.; .[0])"}) + ")"
	}
	return g.expr(depth)
}

func (g *gen) grammarQuery() string {
	q := g.expr(2 + g.r.Intn(3))
	switch g.r.Intn(8) {
	case 0:
		return "[" + q + "]"
	case 1:
		return "try (" + q + ") catch ."
	case 2:
		return ".[] | " + q
	case 3:
		return q + " | " + g.call(2)
	}
	return q
}

// every builtin in turn with boundary arguments (systematic part)
func (g *gen) builtinQuery(i int) string {
	b := g.builtins[i%len(g.builtins)]
	args := make([]string, b.arity)
	for k := range args {
		if g.r.Chance(2, 3) {
			args[k] = g.atom()
		} else {
			args[k] = g.expr(1)
		}
	}
	s := b.name
	if b.arity > 0 {
		s += "(" + strings.Join(args, "; ") + ")"
	}
	if infinite[b.name] && !g.r.Chance(1, 10) {
		s = "limit(5; " + s + ")"
	}
	switch g.r.Intn(12) {
	case 0:
		return g.atom() + " | " + s
	case 1:
		return "[" + g.atom() + " | " + s + "]"
	case 2:
		return "path(" + s + ")"
	case 3:
		return "try (" + s + ") catch ."
	case 4:
		return s + " |= " + g.atom()
	case 5:
		return ".[] | " + s
	case 6:
		return "[.[]? | " + s + "?]"
	case 7:
		return s + " as $x | [$x, " + s + "]"
	case 8:
		return "del(" + s + ")"
	case 9:
		return "$a | " + s
	}
	return s
}

// ---------------------------------------------------------------------------------------------
// command lines

var cliFlags = []string{"-r", "--raw-output", "--raw-output0", "-j", "--join-output", "-c", "--compact-output", "--indent", "--tab", "--yaml-output", "-C", "--color-output", "-M", "--monochrome-output",
	"-n", "--null-input", "-R", "--raw-input", "--stream", "--yaml-input", "-s", "--slurp", "-f", "--from-file", "-L", "--library-path", "--arg", "--argjson", "--slurpfile", "--rawfile",
	"--args", "--jsonargs", "-e", "--exit-status", "-v", "--version", "-h", "--help", "--", "-", "--indent=3", "--indent=", "--arg=x", "-L=testdata", "-Ltestdata", "-rn", "-nrc", "-sR", "-ce", "-rf", "-fn",
	"--unknown", "-x", "-rX", "-1", "--tab=1", "-n=1", "--arg", "--argjson", "--indent", "---", "--=", "-=", "-e=", "--stream=x", "-Cr", "-Mj", "--seq", "-S", "--sort-keys", "-a", "--ascii-output"}
var cliVals = []string{"0", "1", "7", "9", "10", "-1", "x", "", "1e3", " 2", "+3", "9223372036854775808", "a", "$a", "1", "null", "[1,2", "{\"a\":1}", "\"s\"", "nan", "1 2",
	"testdata/1.json", "testdata/2.json", "testdata/1.yaml", "testdata/1.jq", "testdata/2.jq", "testdata", "testdata/nonexistent", "/dev/null", ".", "..", "-", "--", "\xff", "a\x00b",
	".", ".[]", ".a", "$a", "$ARGS", "$ENV|length", "$__prog_args", "input", "[inputs]", "input_filename", "$named", "halt_error", "\"\\(1;2)\"", "import \"m1\" as m; m::f", "include \"1\"; .", "1 + (label $l | .)", "@csv", ". as [$a] | $a",
	"..", "tostream", "first(inputs)", "debug", "stderr", "error", "{}|.a.b", "\"\\u0000\"", "nan", "[nan]", "{a:nan}", "1e1000", "-0", "[limit(3;repeat(1))]", "ltrimstr(1)", "$ARGS.positional", "$ARGS.named", "env|type", "now|type", "\"a\",1|tojson", "\"x\" * 1e9"}

var stdinPool = []string{"", "null", "1", "1 2 3", "{\"a\":1}", "[1,[2,{\"a\":\"b\"}]]", "\"s\"", "{\"a\":", "[1,2", "tru", "nan", "NaN", "-", "1e1000", "-0", "{\"a\":1}{\"a\":2}", "[]\n\n[]", "\xff", "\"\xff\"", "\"\\ud800\"", "\"\\u0000\"",
	"{\"\\u0000\":1}", "a: 1\nb: [1, 2]\n", "- a\n- b: c\n", "a: &x 1\nb: *x\n", "a: *unknown\n", "? - 1\n: 2\n", "---\n1\n---\n2\n...\n", "!!binary x\n", "a:\n\t- b\n", "{a: 1, b: }", "0x10", "1_000", ".inf", ".nan", "2015-01-01", "<<: {a: 1}\n",
	"line1\nline2\r\nline3", "\x00\x01\x02", strings.Repeat("[", 300), strings.Repeat("[", 200) + strings.Repeat("]", 200), strings.Repeat("{\"a\":", 150) + "1" + strings.Repeat("}", 150), "\xef\xbb\xbf1", " \n\t1\n", "1 // comment", "1,2", "[1,]", "{\"a\" 1}", "'a'", "\"a\nb\"",
	"123456789012345678901234567890", "1.000000000000000000000000001", "1e-400", "\"" + strings.Repeat("a", 5000) + "\"", strings.Repeat("1 ", 2000), "&a [*a]", "a: |\n  x\n  y\n", "a: >-\n  x\n", "\"\\x\"", "\"\\", "\"", "{\"a\":1,\"a\":2}", "[\"\\uD83D\\uDE00\"]", "\x1e1\n\x1e2\n"}

func (g *gen) cliCase() (args []string, stdin string, env [][2]string) {
	var base corpusQuery
	if len(g.corpus) > 0 {
		base = g.corpus[g.r.Intn(len(g.corpus))]
	}
	switch g.r.Intn(5) {
	case 0: // fully random vector
		n := g.r.Intn(7)
		for i := 0; i < n; i++ {
			if g.r.Chance(1, 2) {
				args = append(args, g.pick(cliFlags))
			} else {
				args = append(args, g.pick(cliVals))
			}
		}
		stdin = g.pick(stdinPool)
	default: // a corpus command line with edits
		args = append(args, base.args...)
		stdin = base.input
		for k := g.r.Intn(4); k > 0; k-- {
			n := len(args)
			switch g.r.Intn(7) {
			case 0, 1:
				i := g.r.Intn(n + 1)
				args = append(args[:i:i], append([]string{g.pick(cliFlags)}, args[i:]...)...)
			case 2:
				i := g.r.Intn(n + 1)
				args = append(args[:i:i], append([]string{g.pick(cliVals)}, args[i:]...)...)
			case 3:
				if n > 0 {
					i := g.r.Intn(n)
					args = append(args[:i:i], args[i+1:]...)
				}
			case 4:
				if n > 0 {
					i := g.r.Intn(n)
					args = append(args, args[i])
				}
			case 5:
				if n > 0 {
					i := g.r.Intn(n)
					args[i] = g.mutate(args[i], g.pick(cliVals))
				}
			case 6:
				if n > 1 {
					i, j := g.r.Intn(n), g.r.Intn(n)
					args[i], args[j] = args[j], args[i]
				}
			}
		}
		switch g.r.Intn(4) {
		case 0:
			stdin = g.pick(stdinPool)
		case 1:
			stdin = g.mutate(stdin, g.pick(stdinPool))
		}
	}
	for _, e := range base.env {
		if k, v, ok := strings.Cut(e, "="); ok {
			if g.r.Chance(1, 3) {
				v = g.mutate(v, "4;1:0:1;31:::")
			}
			env = append(env, [2]string{k, v})
		}
	}
	if g.r.Chance(1, 12) {
		env = append(env, [2]string{"GOJQ_COLORS", g.pick([]string{"", ":", "4;1", "0;30:0;31:0;32:0;33:0;34:0;35:0;36:0;37", "x", "1;2;3;4;5;6;7;8;9;10;11;12;13:", "38;5;200", ";", "0:" + strings.Repeat("1;", 20), "\x1b[0m", ":::::::::", "1:2:3:4:5:6:7:8:9"})})
	}
	// the command must never be pointed at a file that blocks (fifo/tty): only names from the pools are used
	for i, a := range args {
		if strings.ContainsRune(a, 0) {
			args[i] = strings.ReplaceAll(a, "\x00", "\\u0000") // exec cannot pass NUL; keep both modes identical
		}
	}
	return
}

func libCase(q string, in any, vars []any) string {
	vs := make([]string, len(vars))
	for i, v := range vars {
		vs[i] = valSx(v)
	}
	return fmt.Sprintf("(lib %s %s (%s))", Hexs([]byte(q)), valSx(in), strings.Join(vs, " "))
}

func cliCaseLine(kind string, args []string, stdin string, env [][2]string) string {
	es := make([]string, len(env))
	for i, kv := range env {
		es[i] = hexList(kv[:])
	}
	return fmt.Sprintf("(%s %s %s (%s))", kind, hexList(args), Hexs([]byte(stdin)), strings.Join(es, " "))
}
