package main

// Correspondence streams judged by the extracted model (coq/c08/Run.v).

import (
	"encoding/json"
	"fmt"
	"math"
	"math/big"
	"os"
	"path/filepath"
	"reflect"
	"sort"
	"strconv"
	"strings"

	"github.com/itchyny/gojq"
	"github.com/itchyny/gojq/cli"
	. "verifharness/hlib"
)

// a stream records at most 20 violations (a broken tree panics on every case)
func violate(c *Ctx, line string) {
	if len(c.Viol) < 20 {
		c.Violation("%s", line)
	}
}

// ---- C: parseFlags ----------------------------------------------------------------------------------

func fieldSx(v reflect.Value) string {
	switch v.Kind() {
	case reflect.Bool:
		if v.Bool() {
			return "(b 1)"
		}
		return "(b 0)"
	case reflect.String:
		return "(s " + Hexs([]byte(v.String())) + ")"
	case reflect.Pointer:
		if v.Type().Elem().Kind() == reflect.Int {
			if v.IsNil() {
				return "(i nil)"
			}
			return fmt.Sprintf("(i %d)", v.Elem().Int())
		}
		return "x"
	case reflect.Slice:
		var b strings.Builder
		b.WriteString("(l")
		for i := 0; i < v.Len(); i++ {
			e := v.Index(i)
			if e.Kind() == reflect.Interface {
				if e.IsNil() {
					b.WriteString(" nil")
					continue
				}
				e = e.Elem()
			}
			b.WriteString(" " + Hexs([]byte(e.String())))
		}
		b.WriteString(")")
		return b.String()
	case reflect.Map:
		keys := []string{}
		for _, k := range v.MapKeys() {
			keys = append(keys, k.String())
		}
		sort.Strings(keys)
		var b strings.Builder
		b.WriteString("(m")
		for _, k := range keys {
			b.WriteString(" (" + Hexs([]byte(k)) + " " + Hexs([]byte(v.MapIndex(reflect.ValueOf(k)).String())) + ")")
		}
		b.WriteString(")")
		return b.String()
	}
	return "x"
}

func flagsLine(args []string) (line string, panicked any) {
	defer func() {
		if r := recover(); r != nil {
			panicked = r
		}
	}()
	rest, opts, err := cli.VerifC08ParseFlags(args)
	if err != nil {
		return fmt.Sprintf("(flags %s (err %s))", hexList(args), Hexs([]byte(err.Error()))), nil
	}
	v := reflect.ValueOf(opts).Elem()
	fs := make([]string, v.NumField())
	for i := range fs {
		fs[i] = fieldSx(v.Field(i))
	}
	return fmt.Sprintf("(flags %s (ok %s (%s)))", hexList(args), hexList(rest), strings.Join(fs, " ")), nil
}

func runFlags(c *Ctx) {
	g := &gen{r: c.Rng, corpus: loadCorpus()}
	emit := func(args []string) {
		line, p := flagsLine(args)
		if p != nil {
			violate(c, cliCaseLine("cli", args, "", nil))
			return
		}
		c.Emit("%s", line)
		c.Count("flags")
	}
	for _, a := range c.Args {
		if n, err := parseSx(a); err == nil {
			if args, err := unhexList(n); err == nil {
				emit(args)
			}
		}
	}
	// every corpus command line unchanged
	for _, cq := range g.corpus {
		emit(cq.args)
	}
	words := append(append([]string{}, cliFlags...), "-L", "-Lx", "-L=x", "-rL", "-rLx", "-rL=x", "-L=", "-nL", "--library-path=x", "--library-path=", "--arg=a", "--args=x", "--jsonargs=--args=z",
		"--args=--args", "--indent=--", "--indent=-1", "--indent", "+5", "-5", "007", "9223372036854775807", "9223372036854775808", "-9223372036854775808", "1_0", "0x1", " 1", "",
		"-", "--", "---", "-=", "--=", "-r=", "-r=x", "-rr", "-rnc", "-r-", "-rZ", "-Zr", "-é", "-\xff", "-r\xff", "--\xff", "a", "b", "a=b", "=", "--raw-output=1", "--rawfile", "--slurpfile", "--argjson", "x", "y", "z", "k", "k")
	for i := 0; i < c.N; i++ {
		var args []string
		switch g.r.Intn(3) {
		case 0:
			args = append(args, g.corpus[g.r.Intn(len(g.corpus))].args...)
			for k := g.r.Intn(4); k > 0; k-- {
				j := g.r.Intn(len(args) + 1)
				args = append(args[:j:j], append([]string{words[g.r.Intn(len(words))]}, args[j:]...)...)
			}
		default:
			n := g.r.Intn(9)
			for k := 0; k < n; k++ {
				w := words[g.r.Intn(len(words))]
				if g.r.Chance(1, 10) {
					w = g.mutate(w, words[g.r.Intn(len(words))])
				}
				args = append(args, w)
			}
		}
		emit(args)
	}
}

// ---- B: LR driver -------------------------------------------------------------------------------------

func runLR(c *Ctx) {
	g := &gen{r: c.Rng, builtins: loadBuiltins(), corpus: loadCorpus()}
	emit := func(src string) {
		if len(src) > 4000 {
			return
		}
		defer func() {
			if r := recover(); r != nil {
				violate(c, libCase(src, nil, nil))
			}
		}()
		chars, offs := gojq.VerifC08Lex(src)
		status, err := gojq.VerifC08ParseStatus(src)
		eo := -1
		if pe, ok := err.(*gojq.ParseError); ok {
			eo = pe.Offset
		}
		cs := make([]string, 0, len(chars))
		// the final eof (-1) is what the model's lexer returns anyway; a final 0 (a NUL byte in the source:
		// goyacc maps every char <= 0 to $end but re-reads only when char < 0) is kept
		if n := len(chars); n > 0 && chars[n-1] == -1 {
			chars = chars[:n-1]
		}
		for _, ch := range chars {
			cs = append(cs, strconv.Itoa(ch))
		}
		os := make([]string, len(offs))
		for i, o := range offs {
			os[i] = strconv.Itoa(o)
		}
		c.Emit("(lr (%s) %d %d (%s) %d)", strings.Join(cs, " "), status, eo, strings.Join(os, " "), len(src))
		c.Count(fmt.Sprintf("lr-status%d", status))
	}
	for _, cq := range g.corpus {
		emit(cq.query)
	}
	for i := 0; i < c.N; i++ {
		switch g.r.Intn(3) {
		case 0:
			emit(g.grammarQuery())
		default:
			cq := g.corpus[g.r.Intn(len(g.corpus))]
			emit(g.mutate(cq.query, g.corpus[g.r.Intn(len(g.corpus))].query))
		}
	}
}

// ---- D: Preview / encoder -------------------------------------------------------------------------------

func runPreview(c *Ctx) {
	g := &gen{r: c.Rng}
	emitVal := func(v any) {
		defer func() {
			if r := recover(); r != nil {
				violate(c, libCase(".", v, nil))
			}
		}()
		tag := "other"
		switch v.(type) {
		case string:
			tag = "string"
		case []any:
			tag = "array"
		case map[string]any:
			tag = "object"
		}
		isnil := 0
		if v == nil {
			isnil = 1
		}
		m, _ := gojq.Marshal(v)
		c.Emit("(preview %s %d %s %s %s %s %s)", tag, isnil, Hexs([]byte(gojq.TypeOf(v))), Hexs(m),
			Hexs(gojq.VerifC08LimitedMarshal(v, 32)), Hexs([]byte(gojq.Preview(v))), Hexs([]byte(gojq.VerifC08TypeErrorPreview(v))))
		c.Count("preview-" + tag)
		if s, ok := v.(string); ok {
			c.Emit("(encstr %s %s)", Hexs([]byte(s)), Hexs(m))
			c.Count("encstr")
		}
		if f, ok := v.(float64); ok && !math.IsNaN(f) {
			f = min(max(f, -math.MaxFloat64), math.MaxFloat64)
			if x := math.Abs(f); x != 0 && x < 1e-6 || x >= 1e21 {
				c.Emit("(fexp %s %s)", Hexs(strconv.AppendFloat(nil, f, 'e', -1, 64)), Hexs(m))
				c.Count("fexp")
			}
		}
	}
	for _, v := range scalarPool {
		emitVal(v)
	}
	pieces := []string{"a", "b", " ", "\"", "\\", "\n", "\x00", "\x1f", "\x7f", "é", "日", "🙂", " ", " ", "�", "\xff", "\xc3", "\xe6\x97", "\xf0\x9f\x99", "\x80", "\xed\xa0\x80", "\xc0\x80", "\xf4\x90\x80\x80", "\xe0\x80\x80", "\t", "<", "~", "\x7e"}
	for i := 0; i < c.N; i++ {
		switch g.r.Intn(8) {
		case 0, 1, 2, 3:
			// strings whose encoding straddles the 30/32 byte limits with multi-byte runes at the cut
			var sb strings.Builder
			n := 18 + g.r.Intn(22)
			for sb.Len() < n {
				if g.r.Chance(2, 3) {
					sb.WriteByte(byte('a' + g.r.Intn(26)))
				} else {
					sb.WriteString(pieces[g.r.Intn(len(pieces))])
				}
			}
			emitVal(sb.String())
		case 4:
			var sb strings.Builder
			for n := g.r.Intn(12); n > 0; n-- {
				sb.WriteByte(byte(g.r.Intn(256)))
			}
			emitVal(sb.String())
		case 5:
			emitVal(g.value(3))
		case 6:
			// numbers of every representation with long encodings
			switch g.r.Intn(4) {
			case 0:
				emitVal(math.Float64frombits(g.r.Next()))
			case 1:
				emitVal(new(big.Int).Lsh(big.NewInt(int64(g.r.Intn(1000))+1), uint(60+g.r.Intn(80))))
			case 2:
				emitVal(json.Number(strings.Repeat("1234567890", 1+g.r.Intn(4)) + "." + strings.Repeat("5", g.r.Intn(5)+1)))
			default:
				emitVal(math.Ldexp(float64(g.r.Intn(1000)+1), -g.r.Intn(1100)))
			}
		default:
			emitVal(g.shaped())
		}
	}
}

// ---- integ: the command's top level (flags + option errors + query errors + exit status) ----------------
// Queries are drawn from a fixed set whose library outcomes are known, so that the world handed to the model
// (coq/integ/CliTotal.v) does not depend on a model of the library.
type cmdQuery struct {
	src        string
	parse, cmp bool
	outs       string // outcomes of one run on null
}

var cmdQueries = []cmdQuery{{".", true, true, "n"}, {"false", true, true, "f"}, {"1", true, true, "o"}, {"empty", true, true, ""}, {"null, 1", true, true, "n o"},
	{"1, false", true, true, "o f"}, {"[", false, false, ""}, {"nosuchfunction", true, false, ""}, {"halt_error(7)", true, true, "(h 7)"}, {"1, halt_error(3), 2", true, true, "o (h 3)"},
	{"halt", true, true, "(h 0)"}, {"", true, false, ""}, {". as [$a] ?// $a | 1", true, true, "o"}, {"}", false, false, ""}}

func runCmd(c *Ctx) {
	g := &gen{r: c.Rng}
	words := []string{"-h", "--help", "-v", "--version", "--indent", "--indent", "--tab", "--yaml-output", "-e", "--exit-status", "-n", "-n", "-n", "--null-input", "-r", "-c", "-j", "--raw-output0", "-s",
		"--unknown", "-f", "--from-file", "--", "-rn", "-en", "-ne", "-hn", "-nce", "--indent=3", "--indent=10", "--indent=-1", "--indent=x", "-C", "-M", "--stream", "-R", "-x", "--tab=1", "-e=1"}
	nums := []string{"0", "1", "7", "9", "10", "-1", "11", "x", "", "+9", "007", "9223372036854775808"}
	for i := 0; i < c.N; i++ {
		q := cmdQueries[g.r.Intn(len(cmdQueries))]
		var args []string
		for k := g.r.Intn(5); k > 0; k-- {
			w := words[g.r.Intn(len(words))]
			args = append(args, w)
			if w == "--indent" && !g.r.Chance(1, 6) {
				args = append(args, nums[g.r.Intn(len(nums))])
			}
		}
		pos := g.r.Intn(len(args) + 1)
		if !g.r.Chance(1, 8) {
			args = append(args[:pos:pos], append([]string{q.src}, args[pos:]...)...)
		}
		func() {
			defer func() {
				if r := recover(); r != nil {
					violate(c, cliCaseLine("cli", args, "", nil))
				}
			}()
			rest, optsAny, err := cli.VerifC08ParseFlags(args)
			// what the query text will be, and whether -n is in force, follows from the parsed options
			query, fromFile, null, slurp, fileOK := ".", false, false, false, true
			if err == nil {
				v := reflect.ValueOf(optsAny).Elem()
				fromFile = v.FieldByName("FromFile").Bool()
				null = v.FieldByName("InputNull").Bool()
				slurp = v.FieldByName("InputSlurp").Bool()
				if fromFile {
					if len(rest) > 0 {
						if bs, e := os.ReadFile(filepath.Join(repoDir(), "cli", rest[0])); e == nil {
							query = string(bs)
						} else {
							fileOK = false
						}
					}
				} else if len(rest) > 0 {
					query = strings.TrimSpace(rest[0])
				}
				if len(rest) > 1 {
					return // further arguments are input files: outside this stream
				}
			}
			var known *cmdQuery
			for k := range cmdQueries {
				if cmdQueries[k].src == query {
					known = &cmdQueries[k]
				}
			}
			if known == nil {
				return
			}
			runs := ""
			if null {
				runs = "(" + known.outs + ")"
			} else if slurp {
				// empty stdin slurped: one run on [] (or "" with -R): `.` is then a non-null, non-false value
				o := known.outs
				if known.src == "." {
					o = "o"
				}
				runs = "(" + o + ")"
			}
			var so, se capWriter
			so.max, se.max = 1<<20, 1<<20
			st := cli.VerifC08Command(args, &pipeReader{s: ""}, &so, &se)
			b := func(x bool) int {
				if x {
					return 1
				}
				return 0
			}
			c.Emit("(cmd %s %d %d %d %d (%s))", hexList(args), st, b(known.parse), b(known.cmp), b(fileOK), runs)
			c.Count(fmt.Sprintf("cmd-status%d", st))
		}()
	}
}
