package main

import . "verifharness/hlib"

func runFlags(c *Ctx)   {}
func runPreview(c *Ctx) {}
func runLR(c *Ctx)      {}
