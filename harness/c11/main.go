// C11 harness: runs gojq.Compare and the order-consuming builtins of the IMPLEMENTATION on a value
// universe and on random arrays of universe values (public API only: gojq.Compare, gojq.Parse,
// gojq.Compile, Code.Run, gojq.Marshal).  One s-expression line per case carrying what the
// implementation returned; the extracted Gallina model (coq/c11/Run.v) judges the lines.
// Streams:
//
//	c11pairs  all ordered pairs of the universe: (cmp a b r eq ne lt le gt ge);
//	          implementation-only oracles on the property's domain (NaN-free, |float| < 2^53):
//	          reflexivity, Compare(b,a) = -Compare(a,b), transitivity over ALL ordered triples
//	          (computed from the pair matrix), operators = projections of Compare.
//	c11case   replay: re-runs the implementation on the inputs of recorded case lines (args) and emits
//	          the lines with the results observed now.
//	c11nat    sort, sort_by, group_by, unique, unique_by, min, max, min_by, max_by, bsearch, array -,
//	          indices/index/rindex on arrays, keys, [.[]], tojson / Marshal key order.
package main

import (
	"encoding/json"
	"fmt"
	"math"
	"math/big"
	"strconv"
	"strings"
	. "verifharness/hlib"

	"github.com/itchyny/gojq"
)

func main() {
	Register("c11pairs", runPairs)
	Register("c11nat", runNatives)
	Register("c11case", runCase)
	Main()
}

func bigOf(s string) *big.Int {
	x, ok := new(big.Int).SetString(s, 10)
	if !ok {
		panic(s)
	}
	return x
}

func pow2(k uint) *big.Int { return new(big.Int).Lsh(big.NewInt(1), k) }

// good: the value lies in the property's domain (no NaN, every float finite with magnitude < 2^53;
// integers of any size in any representation).  Conservative for json.Number.
func good(v any) bool {
	switch v := v.(type) {
	case float64:
		return !math.IsNaN(v) && math.Abs(v) < 1<<53
	case json.Number:
		s := v.String()
		if strings.ContainsAny(s, ".eE") {
			f, err := v.Float64()
			return err == nil && math.Abs(f) < 1<<53
		}
		return true
	case []any:
		for _, x := range v {
			if !good(x) {
				return false
			}
		}
		return true
	case map[string]any:
		for _, x := range v {
			if !good(x) {
				return false
			}
		}
		return true
	default:
		return true
	}
}

// numbers: every Go representation, boundary magnitudes
func numbers() []any {
	var xs []any
	for _, i := range []int{0, 1, -1, 2, 3, 10, -10, 100, 1 << 52, 1<<53 - 1, 1 << 53, 1<<53 + 1, 1<<53 + 2, -(1<<53 - 1), -(1 << 53), -(1<<53 + 1),
		1 << 62, math.MaxInt64, math.MaxInt64 - 1, math.MinInt64, math.MinInt64 + 1} {
		xs = append(xs, i)
	}
	for _, b := range []*big.Int{big.NewInt(0), big.NewInt(1), big.NewInt(-1), big.NewInt(5), pow2(53), new(big.Int).Add(pow2(53), big.NewInt(1)),
		new(big.Int).Neg(new(big.Int).Add(pow2(53), big.NewInt(1))), pow2(63), new(big.Int).Add(pow2(63), big.NewInt(1)), new(big.Int).Neg(new(big.Int).Add(pow2(63), big.NewInt(1))),
		pow2(64), bigOf("1000000000000000000000000000000"), bigOf("-1000000000000000000000000000000"), bigOf("1000000000000000000000000000001"),
		pow2(1023), new(big.Int).Sub(pow2(1024), pow2(970)), new(big.Int).Sub(pow2(1024), pow2(969)), pow2(1024), new(big.Int).Neg(pow2(1024)), pow2(1100)} {
		xs = append(xs, b)
	}
	for _, f := range []float64{0, math.Copysign(0, -1), 0.5, -0.5, 1, -1, 1.5, 2, 2.5, 3, 10, 0.1, 1e-300, 5e-324, -5e-324, 100.25,
		1 << 52, 1<<52 + 0.5, 1<<53 - 1, 1 << 53, 1<<53 + 2, -(1<<53 - 1), -(1 << 53), -(1<<53 + 2), 1 << 62, 1 << 63, -(1 << 63), 1 << 64, 1e30, -1e30, 1e300,
		math.MaxFloat64, -math.MaxFloat64, math.Inf(1), math.Inf(-1), math.NaN()} {
		xs = append(xs, f)
	}
	for _, l := range []string{"0", "1", "-1", "-0", "1.0", "1.5", "-0.0", "0.1", "1e2", "1E2", "100.25", "25e-1", "9007199254740992", "9007199254740993",
		"9007199254740993.0", "9007199254740991.0", "-9007199254740993", "9223372036854775807", "9223372036854775808", "-9223372036854775809",
		"1000000000000000000000000000000", "1e30", "1e400", "-1e400", "1e-400", "5e-324", "2.4703282292062327e-324", "2.4703282292062328e-324",
		"1.7976931348623157e308", "1.7976931348623159e308", "0.30000000000000004", "1.000000000000000000001", "4503599627370496.5", "4503599627370497.5"} {
		xs = append(xs, json.Number(l))
	}
	return xs
}

func stringsU() []any {
	return []any{"", "a", "b", "ab", "abc", "aa", "A", "a\x00", "a\x00b", "~", "\x7f", "é", "ÿ", "￿", "\U00010000", "\U0010ffff", "\xff", "a\xc3", "日本", "1", "10", "9"}
}

func arraysU() []any {
	return []any{[]any{}, []any{nil}, []any{[]any{}}, []any{[]any{}, []any{}}, []any{[]any{[]any{[]any{}}}}, []any{1}, []any{1.0}, []any{big.NewInt(1)}, []any{json.Number("1.0")},
		[]any{1, 2}, []any{2}, []any{2, 1}, []any{1, []any{2}}, []any{[]any{1}, 2}, []any{"a"}, []any{"a", "b"}, []any{map[string]any{}}, []any{false}, []any{true, nil},
		[]any{1 << 53}, []any{float64(1 << 53)}, []any{1<<53 + 1}, []any{math.NaN()}, []any{0.5, "x"}, []any{1, 2, 3}, []any{1, 2, 3, 4}, []any{map[string]any{"a": 1}, 0},
		[]any{nil, nil}, []any{[]any{1, 2}, []any{1}}, []any{"", ""}, []any{math.Copysign(0, -1)}, []any{0}}
}

func objectsU() []any {
	return []any{map[string]any{}, map[string]any{"a": nil}, map[string]any{"a": 1}, map[string]any{"a": 1.0}, map[string]any{"a": big.NewInt(1)}, map[string]any{"a": 2},
		map[string]any{"b": 1}, map[string]any{"a": 1, "b": 2}, map[string]any{"a": 2, "b": 1}, map[string]any{"a": 1, "b": 3}, map[string]any{"ab": 1}, map[string]any{"": 1},
		map[string]any{"a": map[string]any{"a": 1}}, map[string]any{"a": map[string]any{}}, map[string]any{"a": []any{1}}, map[string]any{"a": []any{}},
		map[string]any{"a": 1, "b": 2, "c": 3}, map[string]any{"a": 1, "c": 0}, map[string]any{"b": 0, "a": 5}, map[string]any{"a": "x"}, map[string]any{"a": false},
		map[string]any{"é": 1}, map[string]any{"￿": 1}, map[string]any{"\U00010000": 1}, map[string]any{"a": math.NaN()}, map[string]any{"a": float64(1 << 53)},
		map[string]any{"a": 1<<53 + 1}, map[string]any{"a": 1 << 53}, map[string]any{"A": 1, "a": 1}, map[string]any{"a": []any{map[string]any{"k": nil}}},
		map[string]any{"a": 0.5, "b": []any{1, "q"}}, map[string]any{"10": 1, "9": 1}, map[string]any{"a": 1, "aa": 1}, map[string]any{"aa": 1}}
}

// random nested value built from good atoms
func randValue(r *Rng, depth int, atoms []any) any {
	k := r.Intn(10)
	if depth <= 0 || k < 5 {
		return atoms[r.Intn(len(atoms))]
	}
	if k < 8 {
		n := r.Intn(4)
		xs := make([]any, n)
		for i := range xs {
			xs[i] = randValue(r, depth-1, atoms)
		}
		return xs
	}
	n := r.Intn(4)
	m := map[string]any{}
	keys := []string{"a", "b", "ab", "", "é", "k", "a\x00"}
	for i := 0; i < n; i++ {
		m[keys[r.Intn(len(keys))]] = randValue(r, depth-1, atoms)
	}
	return m
}

func universe(r *Rng, nrand int) []any {
	u := []any{nil, false, true}
	u = append(u, numbers()...)
	u = append(u, stringsU()...)
	u = append(u, arraysU()...)
	u = append(u, objectsU()...)
	var atoms []any
	for _, v := range u {
		if good(v) {
			atoms = append(atoms, v)
		}
	}
	for i := 0; i < nrand; i++ {
		u = append(u, randValue(r, 4, atoms))
	}
	return u
}

func compile(src string, vars ...string) *gojq.Code {
	q, err := gojq.Parse(src)
	if err != nil {
		panic(err)
	}
	c, err := gojq.Compile(q, gojq.WithVariables(vars))
	if err != nil {
		panic(err)
	}
	return c
}

func run1(c *gojq.Code, in any, vals ...any) any {
	it := c.Run(in, vals...)
	v, ok := it.Next()
	if !ok {
		return fmt.Errorf("no output")
	}
	if _, ok2 := it.Next(); ok2 {
		return fmt.Errorf("more than one output")
	}
	return v
}

func boolAtom(v any) string {
	if b, ok := v.(bool); ok {
		if b {
			return "true"
		}
		return "false"
	}
	return "nonbool"
}

func sign(i int) int {
	switch {
	case i < 0:
		return -1
	case i > 0:
		return 1
	}
	return 0
}

func runPairs(c *Ctx) {
	nrand := 16
	if c.Tier != "quick" {
		nrand = 60
	}
	u := universe(c.Rng, nrand)
	n := len(u)
	c.Stats["universe"] = n
	ops := compile("[$a == $b, $a != $b, $a < $b, $a <= $b, $a > $b, $a >= $b]", "$a", "$b")
	sx := make([]string, n)
	gd := make([]bool, n)
	ngood := 0
	for i, v := range u {
		sx[i] = SexpVal(v)
		gd[i] = good(v)
		if gd[i] {
			ngood++
		}
	}
	c.Stats["universe_in_domain"] = ngood
	m := make([][]int8, n)
	for i := range u {
		m[i] = make([]int8, n)
	}
	// all ordered pairs, in a scattered order (costly operands such as 300-digit integers are spread
	// evenly over the file, which the model run splits into contiguous shards)
	for d := 0; d < n; d++ {
		for i := range u {
			j := (i + d) % n
			r := gojq.Compare(u[i], u[j])
			m[i][j] = int8(sign(r))
			res := run1(ops, nil, u[i], u[j])
			bs, ok := res.([]any)
			if !ok || len(bs) != 6 {
				c.Violation("(ops %s %s %s)", sx[i], sx[j], SexpVal(res))
				c.Emit("(cmp %s %s %d)", sx[i], sx[j], r)
				continue
			}
			c.Emit("(cmp %s %s %d %s %s %s %s %s %s)", sx[i], sx[j], r, boolAtom(bs[0]), boolAtom(bs[1]), boolAtom(bs[2]), boolAtom(bs[3]), boolAtom(bs[4]), boolAtom(bs[5]))
			c.Count("cmp+ops")
			// operators are the projections of Compare (holds for every pair, NaN included)
			want := []bool{r == 0, r != 0, r < 0, r <= 0, r > 0, r >= 0}
			for k := range want {
				if b, ok := bs[k].(bool); !ok || b != want[k] {
					c.Violation("(cmp %s %s %d %s %s %s %s %s %s)", sx[i], sx[j], r,
						boolAtom(bs[0]), boolAtom(bs[1]), boolAtom(bs[2]), boolAtom(bs[3]), boolAtom(bs[4]), boolAtom(bs[5]))
					break
				}
			}
		}
	}
	// implementation-only order oracles on the domain
	nv := 0
	viol := func(format string, a ...any) {
		if nv < 20 {
			c.Violation(format, a...)
		}
		nv++
	}
	for i := range u {
		if !gd[i] {
			continue
		}
		if m[i][i] != 0 {
			viol("(refl %s %d)", sx[i], m[i][i])
		}
		for j := range u {
			if gd[j] && m[j][i] != -m[i][j] {
				viol("(antisym %s %s %d %d)", sx[i], sx[j], m[i][j], m[j][i])
			}
		}
	}
	triples := 0
	for i := range u {
		if !gd[i] {
			continue
		}
		for j := range u {
			if !gd[j] || m[i][j] > 0 {
				continue
			}
			for k := range u {
				if !gd[k] || m[j][k] > 0 {
					continue
				}
				triples++
				// a <= b <= c  =>  a <= c, strict when one of the two is strict
				if m[i][k] > 0 || ((m[i][j] < 0 || m[j][k] < 0) && m[i][k] >= 0) {
					viol("(trans %s %s %s %d %d %d)", sx[i], sx[j], sx[k], m[i][j], m[j][k], m[i][k])
				}
			}
		}
	}
	c.Stats["triples_checked"] = triples
	c.Stats["order_oracle_violations"] = nv
}

// ---------------------------------------------------------------------------------------------

// parseOrdered parses JSON text keeping the order in which object keys were written; numbers must be
// small integers (the objects used for the key-order cases contain nothing else).
func parseOrdered(dec *json.Decoder) (string, error) {
	t, err := dec.Token()
	if err != nil {
		return "", err
	}
	switch t := t.(type) {
	case json.Delim:
		switch t {
		case '[':
			var b strings.Builder
			b.WriteString("(a")
			for dec.More() {
				s, err := parseOrdered(dec)
				if err != nil {
					return "", err
				}
				b.WriteString(" " + s)
			}
			if _, err := dec.Token(); err != nil {
				return "", err
			}
			b.WriteString(")")
			return b.String(), nil
		case '{':
			var b strings.Builder
			b.WriteString("(o")
			for dec.More() {
				k, err := dec.Token()
				if err != nil {
					return "", err
				}
				ks, ok := k.(string)
				if !ok {
					return "", fmt.Errorf("non-string key")
				}
				s, err := parseOrdered(dec)
				if err != nil {
					return "", err
				}
				b.WriteString(" (" + Hexs([]byte(ks)) + " " + s + ")")
			}
			if _, err := dec.Token(); err != nil {
				return "", err
			}
			b.WriteString(")")
			return b.String(), nil
		}
		return "", fmt.Errorf("unexpected delimiter")
	case nil:
		return "null", nil
	case bool:
		if t {
			return "true", nil
		}
		return "false", nil
	case string:
		return "(s " + Hexs([]byte(t)) + ")", nil
	case json.Number:
		i, err := t.Int64()
		if err != nil {
			return "", err
		}
		return fmt.Sprintf("(i %d)", i), nil
	}
	return "", fmt.Errorf("unexpected token")
}

func orderedOf(text string) string {
	dec := json.NewDecoder(strings.NewReader(text))
	dec.UseNumber()
	s, err := parseOrdered(dec)
	if err != nil {
		return "(err " + Hexs([]byte(err.Error())) + ")"
	}
	return s
}

var keyPool = []string{"", "a", "b", "ab", "abc", "aa", "A", "B", "Z", "a\x00", "~", "é", "ÿ", "￿", "\U00010000", "\U0010ffff", "日本", "1", "10", "9", "2", "k", "key", "kez", " ", "_", "a b", "ba"}

// randObject: object with plain JSON content (strings, small ints, null, bool, nested), many keys
func randObject(r *Rng, depth int) map[string]any {
	n := r.Intn(9)
	if r.Chance(1, 6) {
		n = 10 + r.Intn(15)
	}
	m := map[string]any{}
	for i := 0; i < n; i++ {
		k := keyPool[r.Intn(len(keyPool))]
		if r.Chance(1, 4) {
			k += keyPool[r.Intn(len(keyPool))]
		}
		var v any
		switch r.Intn(7) {
		case 0:
			v = nil
		case 1:
			v = r.Chance(1, 2)
		case 2:
			v = r.Intn(1000) - 500
		case 3:
			v = keyPool[r.Intn(len(keyPool))]
		case 4:
			if depth > 0 {
				v = randObject(r, depth-1)
			} else {
				v = 0
			}
		case 5:
			if depth > 0 {
				v = []any{randObject(r, depth-1), r.Intn(10)}
			} else {
				v = []any{}
			}
		default:
			v = i
		}
		m[k] = v
	}
	return m
}

func runNatives(c *Ctx) {
	r := c.Rng
	u := universe(r, 24)
	var dom []any // in-domain values: the only ones given to the sort-based builtins
	for _, v := range u {
		if good(v) {
			dom = append(dom, v)
		}
	}
	// clusters of Compare-equal but distinguishable values make stability and first/last choice observable
	clusters := [][]any{
		{1, 1.0, big.NewInt(1), json.Number("1"), json.Number("1.0")},
		{0, 0.0, math.Copysign(0, -1), big.NewInt(0), json.Number("-0.0")},
		{1<<53 + 1, new(big.Int).Add(pow2(53), big.NewInt(1)), json.Number("9007199254740993")},
		{100, 100.0, json.Number("1e2"), json.Number("100.0")},
		{[]any{1}, []any{1.0}, []any{big.NewInt(1)}},
		{map[string]any{"a": 1}, map[string]any{"a": 1.0}},
		{2.5, json.Number("2.5"), json.Number("25e-1")},
	}
	code := map[string]*gojq.Code{}
	for _, s := range []string{"sort", "unique", "min", "max", "keys", "tojson"} {
		code[s] = compile(s)
	}
	code["iter"] = compile("[.[]]")
	byNames := []string{"sort_by", "group_by", "unique_by", "min_by", "max_by"}
	cached := func(src string, vars ...string) *gojq.Code {
		if cd, ok := code[src]; ok {
			return cd
		}
		cd := compile(src, vars...)
		code[src] = cd
		return cd
	}
	code["bsearch"] = compile("bsearch($t)", "$t")
	code["sub"] = compile(". - $t", "$t")
	code["indices"] = compile("indices($t)", "$t")
	code["index"] = compile("index($t)", "$t")
	code["rindex"] = compile("rindex($t)", "$t")

	pick := func(pool []any) any {
		if r.Chance(1, 12) {
			// repeated values at the smallest positions of the order (null is also Go's nil)
			return []any{nil, nil, false, true, 0}[r.Intn(5)]
		}
		if r.Chance(2, 5) {
			cl := clusters[r.Intn(len(clusters))]
			return cl[r.Intn(len(cl))]
		}
		return pool[r.Intn(len(pool))]
	}
	length := func() int {
		switch r.Intn(10) {
		case 0:
			return 0
		case 1:
			return 1
		case 2, 3:
			return 20 + r.Intn(45) // beyond the insertion-sort block of sort.SliceStable
		default:
			return 2 + r.Intn(9)
		}
	}
	// narrow pools make ties frequent
	randArray := func(pool []any) []any {
		n := length()
		sub := pool
		if r.Chance(1, 2) {
			k := 2 + r.Intn(6)
			sub = make([]any, k)
			for i := range sub {
				sub[i] = pick(pool)
			}
		}
		xs := make([]any, n)
		for i := range xs {
			xs[i] = pick(sub)
		}
		return xs
	}
	randPairs := func(pool []any) []any {
		ks := randArray(pool)
		ps := make([]any, len(ks))
		for i, k := range ks {
			var v any = i
			if r.Chance(1, 3) {
				v = pick(pool)
			}
			ps[i] = []any{v, k}
		}
		return ps
	}
	emit2 := func(name string, in any) {
		res := run1(code[name], in)
		c.Emit("(%s %s %s)", name, SexpVal(in), SexpVal(res))
		c.Count(name)
	}
	emit3 := func(name string, in, t any) {
		res := run1(code[name], in, t)
		c.Emit("(%s %s %s %s)", name, SexpVal(in), SexpVal(t), SexpVal(res))
		c.Count(name)
	}
	// b(f) on A.  The keys the builtin receives are computed by the implementation's own `map([f])`
	// (builtin.jq: def sort_by(f): _sort_by(map([f]))): the key of an element is the ARRAY of all
	// outputs of f, whatever their number.
	emitBy := func(f string, in []any) {
		ks, ok := run1(cached("map(["+f+"])"), in).([]any)
		if !ok || len(ks) != len(in) {
			c.Count("by-skipped")
			return
		}
		for _, b := range byNames {
			res := run1(cached(b+"("+f+")"), in)
			c.Emit("(%s %s %s %s %s)", b, SexpVal(in), SexpVal(ks), SexpVal(f), SexpVal(res))
			c.Count(b)
		}
		c.Count("by:" + f)
	}
	// key expressions with 0, 1, 2 and a varying number of outputs per element
	byCase := func(pool []any) (string, []any) {
		n := length()
		sub := make([]any, 2+r.Intn(5))
		for i := range sub {
			sub[i] = pick(pool)
		}
		some := func(k int) []any {
			xs := make([]any, k)
			for i := range xs {
				xs[i] = pick(sub)
			}
			return xs
		}
		xs := make([]any, n)
		switch r.Intn(8) {
		case 0:
			return ".[1]", randPairs(pool)
		case 1:
			for i := range xs {
				ks := some(r.Intn(4))
				if r.Chance(1, 4) {
					ks = []any{some(1 + r.Intn(2))} // one output that is itself an array: [[x,y]] next to [x,y]
				}
				xs[i] = map[string]any{"v": i, "ks": ks}
			}
			return ".ks[]", xs
		case 2:
			for i := range xs {
				switch r.Intn(5) {
				case 0:
					xs[i] = map[string]any{"b": i}
				case 1:
					xs[i] = pick(sub) // numbers, strings, arrays: .a fails, `?` gives no output; null and objects give one
				default:
					xs[i] = map[string]any{"a": pick(sub), "i": i}
				}
			}
			return ".a?", xs
		case 3:
			for i := range xs {
				switch r.Intn(5) {
				case 0:
					xs[i] = pick(sub)
				case 1:
					xs[i] = map[string]any{"x": pick(sub), "y": pick(sub)}
				default:
					xs[i] = some(r.Intn(4))
				}
			}
			return ".[]?", xs
		case 4:
			for i := range xs {
				m := map[string]any{"i": i}
				if r.Chance(2, 3) {
					m["a"] = pick(sub)
				}
				if r.Chance(2, 3) {
					m["b"] = pick(sub)
				}
				xs[i] = m
			}
			return "(.a, .b)", xs
		case 5:
			for i := range xs {
				xs[i] = pick(sub)
			}
			return "empty", xs
		case 6:
			nums := []any{-1, 0, 1, 1.0, big.NewInt(1), 2, 0.5, -0.5, nil, json.Number("1.0")}
			for i := range xs {
				xs[i] = map[string]any{"a": nums[r.Intn(len(nums))], "i": r.Intn(3)}
			}
			return "select(.a > 0)", xs
		default:
			for i := range xs {
				xs[i] = some(r.Intn(5))
			}
			return ".[0:2][]", xs
		}
	}
	// deterministic block: repeated values at every position of the order, null first ([v,v], [v,v,w], [w,v,v], [v])
	for i, v := range dom {
		w := dom[(i*7+3)%len(dom)]
		for _, a := range [][]any{{v, v}, {v, v, w}, {w, v, v}, {v}} {
			for _, s := range []string{"sort", "unique", "min", "max"} {
				emit2(s, a)
			}
			emitBy(".", a)
		}
	}
	for iter := 0; iter < c.N; iter++ {
		a := randArray(dom)
		for _, s := range []string{"sort", "unique", "min", "max"} {
			emit2(s, a)
		}
		emitBy(".[1]", randPairs(dom))
		for k := 0; k < 2; k++ {
			f, in := byCase(dom)
			emitBy(f, in)
		}
		// min/max copy a loop, no sort involved: any value may take part (NaN, huge floats)
		emit2("min", randArray(u))
		emit2("max", randArray(u))
		{
			// min_by/max_by copy a loop: any value may be a key
			in := randPairs(u)
			if ks, ok := run1(cached("map([.[1]])"), in).([]any); ok {
				for _, b := range []string{"min_by", "max_by"} {
					c.Emit("(%s %s %s %s %s)", b, SexpVal(in), SexpVal(ks), SexpVal(".[1]"), SexpVal(run1(cached(b+"(.[1])"), in)))
					c.Count(b)
				}
			}
		}
		// bsearch: on the implementation's own sort output, and on an arbitrary array
		sorted, _ := run1(code["sort"], randArray(dom)).([]any)
		var t any
		if len(sorted) > 0 && r.Chance(1, 2) {
			t = sorted[r.Intn(len(sorted))]
		} else {
			t = pick(dom)
		}
		emit3("bsearch", sorted, t)
		emit3("bsearch", randArray(u), pick(u))
		// array difference
		emit3("sub", randArray(u), randArray(u))
		emit3("sub", a, randArray(dom))
		// indices / index / rindex on arrays: element needle, window needle, absent needle
		h := randArray(u)
		var needle any
		switch {
		case len(h) > 0 && r.Chance(1, 3):
			needle = h[r.Intn(len(h))]
		case len(h) > 1 && r.Chance(1, 2):
			i := r.Intn(len(h) - 1)
			j := i + 1 + r.Intn(min(3, len(h)-i-1)+1)
			if j > len(h) {
				j = len(h)
			}
			needle = append([]any{}, h[i:j]...)
		default:
			needle = pick(u)
		}
		for _, s := range []string{"indices", "index", "rindex"} {
			emit3(s, h, needle)
		}
		// keys / iteration / output key order
		var o any
		if r.Chance(1, 3) {
			objs := objectsU()
			o = objs[r.Intn(len(objs))]
		} else {
			o = randObject(r, 2)
		}
		emit2("keys", o)
		emit2("iter", o)
		emit2("keys", a)
		po := randObject(r, 2)
		if s, ok := run1(code["tojson"], po).(string); ok {
			c.Emit("(jsonkeys %s %s)", SexpVal(po), orderedOf(s))
		} else {
			c.Violation("(tojson %s) did not return a string", SexpVal(po))
		}
		c.Count("jsonkeys")
		if bs, err := gojq.Marshal(po); err == nil {
			c.Emit("(jsonkeys %s %s)", SexpVal(po), orderedOf(string(bs)))
		} else {
			c.Violation("(marshal %s) error %v", SexpVal(po), err)
		}
		c.Count("jsonkeys")
	}
}

// ---------------------------------------------------------------------------------------------
// replay of recorded case lines

type sx struct {
	atom string
	list []*sx
	isl  bool
}

func parseSx(s string) (*sx, error) {
	var stack [][]*sx
	cur := []*sx{}
	i := 0
	for i < len(s) {
		switch ch := s[i]; {
		case ch == ' ' || ch == '\t':
			i++
		case ch == '(':
			stack = append(stack, cur)
			cur = []*sx{}
			i++
		case ch == ')':
			if len(stack) == 0 {
				return nil, fmt.Errorf("unbalanced")
			}
			l := &sx{list: cur, isl: true}
			cur = append(stack[len(stack)-1], l)
			stack = stack[:len(stack)-1]
			i++
		default:
			j := i
			for j < len(s) && s[j] != ' ' && s[j] != '(' && s[j] != ')' {
				j++
			}
			cur = append(cur, &sx{atom: s[i:j]})
			i = j
		}
	}
	if len(stack) != 0 || len(cur) != 1 {
		return nil, fmt.Errorf("not one expression")
	}
	return cur[0], nil
}

func unhex(s string) ([]byte, error) {
	if s == "-" {
		return nil, nil
	}
	b := make([]byte, len(s)/2)
	for i := range b {
		v, err := strconv.ParseUint(s[2*i:2*i+2], 16, 8)
		if err != nil {
			return nil, err
		}
		b[i] = byte(v)
	}
	return b, nil
}

func valueOf(e *sx) (any, error) {
	if !e.isl {
		switch e.atom {
		case "null":
			return nil, nil
		case "true":
			return true, nil
		case "false":
			return false, nil
		}
		return nil, fmt.Errorf("bad atom %q", e.atom)
	}
	if len(e.list) == 0 || e.list[0].isl {
		return nil, fmt.Errorf("bad list")
	}
	switch tag := e.list[0].atom; tag {
	case "a":
		xs := make([]any, 0, len(e.list)-1)
		for _, x := range e.list[1:] {
			v, err := valueOf(x)
			if err != nil {
				return nil, err
			}
			xs = append(xs, v)
		}
		return xs, nil
	case "o":
		m := map[string]any{}
		for _, kv := range e.list[1:] {
			if !kv.isl || len(kv.list) != 2 || kv.list[0].isl {
				return nil, fmt.Errorf("bad object entry")
			}
			k, err := unhex(kv.list[0].atom)
			if err != nil {
				return nil, err
			}
			v, err := valueOf(kv.list[1])
			if err != nil {
				return nil, err
			}
			m[string(k)] = v
		}
		return m, nil
	case "i", "b", "f", "l", "s":
		if len(e.list) != 2 || e.list[1].isl {
			return nil, fmt.Errorf("bad scalar")
		}
		t := e.list[1].atom
		switch tag {
		case "i":
			i, err := strconv.ParseInt(t, 10, 64)
			return int(i), err
		case "b":
			x, ok := new(big.Int).SetString(t, 10)
			if !ok {
				return nil, fmt.Errorf("bad big")
			}
			return x, nil
		case "f":
			u, err := strconv.ParseUint(t, 10, 64)
			return math.Float64frombits(u), err
		case "l":
			b, err := unhex(t)
			return json.Number(string(b)), err
		default:
			b, err := unhex(t)
			return string(b), err
		}
	}
	return nil, fmt.Errorf("unknown tag")
}

var caseQueries = map[string]string{"sort": "sort", "unique": "unique", "min": "min", "max": "max", "keys": "keys", "iter": "[.[]]",
	"bsearch": "bsearch($t)", "sub": ". - $t", "indices": "indices($t)", "index": "index($t)", "rindex": "rindex($t)"}

func runCase(c *Ctx) {
	for _, line := range c.Args {
		e, err := parseSx(line)
		if err != nil || !e.isl || len(e.list) < 2 || e.list[0].isl {
			c.Emit("(unparsable-case)")
			continue
		}
		kind := e.list[0].atom
		var vals []any
		bad := false
		nin := map[string]int{"cmp": 2, "refl": 1, "antisym": 2, "trans": 3, "jsonkeys": 1, "bsearch": 2, "sub": 2, "indices": 2, "index": 2, "rindex": 2}[kind]
		if nin == 0 {
			nin = 1
		}
		if len(e.list) < 1+nin {
			c.Emit("(unparsable-case)")
			continue
		}
		for _, x := range e.list[1 : 1+nin] {
			v, err := valueOf(x)
			if err != nil {
				bad = true
			}
			vals = append(vals, v)
		}
		if bad {
			c.Emit("(unparsable-case)")
			continue
		}
		sxs := make([]string, len(vals))
		for i, v := range vals {
			sxs[i] = SexpVal(v)
		}
		switch kind {
		case "cmp":
			ops := compile("[$a == $b, $a != $b, $a < $b, $a <= $b, $a > $b, $a >= $b]", "$a", "$b")
			r := gojq.Compare(vals[0], vals[1])
			bs, _ := run1(ops, nil, vals[0], vals[1]).([]any)
			if len(bs) != 6 {
				c.Emit("(cmp %s %s %d)", sxs[0], sxs[1], r)
				continue
			}
			c.Emit("(cmp %s %s %d %s %s %s %s %s %s)", sxs[0], sxs[1], r, boolAtom(bs[0]), boolAtom(bs[1]), boolAtom(bs[2]), boolAtom(bs[3]), boolAtom(bs[4]), boolAtom(bs[5]))
			want := []bool{r == 0, r != 0, r < 0, r <= 0, r > 0, r >= 0}
			for k := range want {
				if b, ok := bs[k].(bool); !ok || b != want[k] {
					c.Violation("%s", line)
					break
				}
			}
		case "refl":
			if r := sign(gojq.Compare(vals[0], vals[0])); r != 0 {
				c.Violation("(refl %s %d)", sxs[0], r)
			}
		case "antisym":
			ab, ba := sign(gojq.Compare(vals[0], vals[1])), sign(gojq.Compare(vals[1], vals[0]))
			if ba != -ab {
				c.Violation("(antisym %s %s %d %d)", sxs[0], sxs[1], ab, ba)
			}
		case "trans":
			ab, bc, ac := sign(gojq.Compare(vals[0], vals[1])), sign(gojq.Compare(vals[1], vals[2])), sign(gojq.Compare(vals[0], vals[2]))
			if ab <= 0 && bc <= 0 && (ac > 0 || ((ab < 0 || bc < 0) && ac >= 0)) {
				c.Violation("(trans %s %s %s %d %d %d)", sxs[0], sxs[1], sxs[2], ab, bc, ac)
			}
		case "jsonkeys":
			if s, ok := run1(compile("tojson"), vals[0]).(string); ok {
				c.Emit("(jsonkeys %s %s)", sxs[0], orderedOf(s))
			}
			if bs, err := gojq.Marshal(vals[0]); err == nil {
				c.Emit("(jsonkeys %s %s)", sxs[0], orderedOf(string(bs)))
			}
		case "sort_by", "group_by", "unique_by", "min_by", "max_by":
			// (b A KS F R): recompute KS = map([f]) and R = b(f) on A
			in, ok := vals[0].([]any)
			if !ok || len(e.list) < 5 {
				c.Emit("(unparsable-case)")
				continue
			}
			fv, err := valueOf(e.list[3])
			f, ok := fv.(string)
			if err != nil || !ok {
				c.Emit("(unparsable-case)")
				continue
			}
			q1, err1 := gojq.Parse("map([" + f + "])")
			q2, err2 := gojq.Parse(kind + "(" + f + ")")
			if err1 != nil || err2 != nil {
				c.Emit("(unparsable-case)")
				continue
			}
			var ks, res any
			if it := q1.Run(in); true {
				ks, _ = it.Next()
			}
			if it := q2.Run(in); true {
				res, _ = it.Next()
			}
			c.Emit("(%s %s %s %s %s)", kind, sxs[0], SexpVal(ks), SexpVal(f), SexpVal(res))
		default:
			q, ok := caseQueries[kind]
			if !ok {
				c.Emit("(unparsable-case)")
				continue
			}
			if nin == 1 {
				c.Emit("(%s %s %s)", kind, sxs[0], SexpVal(run1(compile(q), vals[0])))
			} else {
				c.Emit("(%s %s %s %s)", kind, sxs[0], sxs[1], SexpVal(run1(compile(q, "$t"), vals[0], vals[1])))
			}
		}
	}
}
