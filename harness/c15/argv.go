// C15 harness, stream "c15argv": the COMMAND FROM ARGV.  Random argument vectors (valid flag mixes, clustered short
// options, --k=v, unknown flags, missing values, "--", several files, the --arg family, --indent out of range, -h,
// --version, -C/-M, --yaml-output, -f, -L) are run through cli.VerifRun in-process; in the same process the harness reads
// the option struct parseFlags fills (hook cli.VerifC08ParseFlags), derives the "job" for the library (query source,
// bindings, module paths, input configuration, files) the way cli.go runInternal does, and asks the LIBRARY
// (gojq.Parse / Compile / Run, encoding/json for the inputs) for the outcomes.  One line per case (format:
// coq/c15/MainRun.v); the extracted cli_main (coq/c15/Main.v) derives the job from the argv ITSELF, must agree with the
// harness's job, and judges stdout bytes, status and stderr.
package main

import (
	"bytes"
	"encoding/json"
	"fmt"
	"io"
	"os"
	"path/filepath"
	"reflect"
	"sort"
	"strings"
	. "verifharness/hlib"

	yaml "github.com/itchyny/go-yaml"
	"github.com/itchyny/gojq"
	"github.com/itchyny/gojq/cli"
)

func init() {
	Register("c15argv", runArgv)
}

// ---------------------------------------------------------------------------------------------
// fixed files (deterministic names and contents so that recorded cases replay)

var argvDir string

var argvFiles = map[string]string{
	"d0.json":  "1 2",
	"d1.json":  "false\n{\"a\":[1]}\n",
	"bad.json": "3 {",
	"e.json":   "",
	"s.json":   "\"a\\u0000b\" null",
	"q0.jq":    ".",
	"q1.jq":    "  ., 1\n",
	"qbad.jq":  ".[",
	"qc.jq":    "nosuchfunc",
	"qh.jq":    "., (\"bye\\n\"|halt_error(3))",
	"raw.txt":  "line1\nline2",
	"m.jq":     "def f: 42;",
}

func argvSetup() {
	out := "."
	for i, a := range os.Args {
		if a == "-out" && i+1 < len(os.Args) {
			out = filepath.Dir(os.Args[i+1])
		}
	}
	argvDir = filepath.Join(out, "c15argv_files")
	os.MkdirAll(argvDir, 0o755)
	for n, c := range argvFiles {
		os.WriteFile(filepath.Join(argvDir, n), []byte(c), 0o644)
	}
	os.Unsetenv("GOJQ_COLORS")
}

func fpath(n string) string { return filepath.Join(argvDir, n) }

// ---------------------------------------------------------------------------------------------
// the job, as cli.go runInternal derives it from the option struct

type named struct{ name, kind, val string }

type jobT struct {
	qkind        string // dot | arg | file
	qa, qb       string
	named        []named
	positional   []any // nil | "s"+str | "j"+text   (encoded as strings with a kind prefix; nil = nil)
	modpaths     []string
	raw, stream  bool
	yamlin       bool
	slurp, null  bool
	files        []string
	indent       *int
	tab, compact bool
}

func (j *jobT) sexp() string {
	var b strings.Builder
	b.WriteString("(job ")
	switch j.qkind {
	case "dot":
		b.WriteString("dot")
	case "arg":
		b.WriteString("(arg " + Hexs([]byte(j.qa)) + ")")
	default:
		b.WriteString("(file " + Hexs([]byte(j.qa)) + " " + Hexs([]byte(j.qb)) + ")")
	}
	b.WriteString(" (")
	for i, n := range j.named {
		if i > 0 {
			b.WriteByte(' ')
		}
		fmt.Fprintf(&b, "(%s %s %s)", Hexs([]byte(n.name)), n.kind, Hexs([]byte(n.val)))
	}
	b.WriteString(") (")
	for i, p := range j.positional {
		if i > 0 {
			b.WriteByte(' ')
		}
		if p == nil {
			b.WriteString("n")
		} else {
			s := p.(string)
			fmt.Fprintf(&b, "(%s %s)", s[:1], Hexs([]byte(s[1:])))
		}
	}
	b.WriteString(") (")
	for i, p := range j.modpaths {
		if i > 0 {
			b.WriteByte(' ')
		}
		b.WriteString(Hexs([]byte(p)))
	}
	fmt.Fprintf(&b, ") %s %s %s %s (", bit(j.raw), bit(j.stream), bit(j.yamlin), bit(j.slurp))
	for i, p := range j.files {
		if i > 0 {
			b.WriteByte(' ')
		}
		b.WriteString(Hexs([]byte(p)))
	}
	b.WriteString("))")
	return b.String()
}

// first JSON value of a text, the way newJSONInputIter(...).Next() sees it
func firstJSON(text string) (any, bool) {
	dec := json.NewDecoder(strings.NewReader(text))
	dec.UseNumber()
	var v any
	if err := dec.Decode(&v); err != nil {
		if err == io.EOF {
			return nil, true
		}
		return nil, false
	}
	return v, true
}

func decodeAll(text string) (docs []any, bad bool) { return decodeStream(text) }

type worldT struct {
	colorsOK bool
	jsonbad  map[string]bool
	slurpbad map[string]bool
	files    map[string]string // every path the command may read through os.ReadFile, with its contents
}

func (w *worldT) sexp(help, version []byte) string {
	keys := func(m map[string]bool) string {
		var ks []string
		for k := range m {
			ks = append(ks, Hexs([]byte(k)))
		}
		sort.Strings(ks)
		return "(" + strings.Join(ks, " ") + ")"
	}
	var fs []string
	for k, v := range w.files {
		fs = append(fs, "("+Hexs([]byte(k))+" "+Hexs([]byte(v))+")")
	}
	sort.Strings(fs)
	return fmt.Sprintf("(world 0 %s %s %s (%s) %s %s)", bit(w.colorsOK), keys(w.jsonbad), keys(w.slurpbad),
		strings.Join(fs, " "), Hexs(help), Hexs(version))
}

func fieldBool(v reflect.Value, n string) bool { return v.FieldByName(n).Bool() }
func fieldMap(v reflect.Value, n string) map[string]string {
	m := map[string]string{}
	f := v.FieldByName(n)
	for _, k := range f.MapKeys() {
		m[k.String()] = f.MapIndex(k).String()
	}
	return m
}
func sortedKeys(m map[string]string) []string {
	var ks []string
	for k := range m {
		ks = append(ks, k)
	}
	sort.Strings(ks)
	return ks
}

var helpText, versionText []byte

// ---------------------------------------------------------------------------------------------

type argvDesc struct {
	Args   []string `json:"args"`
	Stdin  string   `json:"stdin"`
	Mode   string   `json:"mode"`
	Colors string   `json:"gojq_colors,omitempty"`
}

func emitArgv(c *Ctx, args []string, stdin string, colorsEnv string) {
	if argvDir == "" {
		argvSetup()
	}
	if helpText == nil {
		var o, e bytes.Buffer
		cli.VerifRun([]string{"--help"}, strings.NewReader(""), &o, &e)
		helpText = append([]byte{}, o.Bytes()...)
		o.Reset()
		cli.VerifRun([]string{"--version"}, strings.NewReader(""), &o, &e)
		versionText = append([]byte{}, o.Bytes()...)
	}
	w := &worldT{colorsOK: colorsEnv == "", jsonbad: map[string]bool{}, slurpbad: map[string]bool{}, files: map[string]string{}}
	for n, ct := range argvFiles {
		w.files[fpath(n)] = ct
	}
	lib, job, pretty, li := deriveAndAsk(c, args, stdin, w)
	if lib == "skip" {
		c.Count("argv-skipped")
		return
	}

	// the command
	if colorsEnv != "" {
		os.Setenv("GOJQ_COLORS", colorsEnv)
	}
	var o, e bytes.Buffer
	status := cli.VerifRun(args, strings.NewReader(stdin), &o, &e)
	if colorsEnv != "" {
		os.Unsetenv("GOJQ_COLORS")
	}

	var ah []string
	for _, a := range args {
		ah = append(ah, Hexs([]byte(a)))
	}
	desc, _ := json.Marshal(argvDesc{Args: args, Stdin: stdin, Mode: "argv", Colors: colorsEnv})
	c.Emit("(argv (%s) %s %s (pretty%s) %s (impl raw %s %d %s))", strings.Join(ah, " "), w.sexp(helpText, versionText),
		lib, pretty, job, Hexs(o.Bytes()), status, Hexs(e.Bytes()))
	cmdsLine(desc)
	c.Count(fmt.Sprintf("argv-status:%d", status))
	c.Count("argv-lib:" + strings.SplitN(strings.Trim(lib, "()"), " ", 2)[0])
	for _, ec := range li.errCodes {
		if ec != 5 {
			c.Count("argv-error-with-own-code")
		}
	}
}

// deriveAndAsk mirrors cli.go runInternal up to cli.process on the option struct filled by parseFlags and collects what
// the library yields.  Returns the <lib> field, the <job> field and the pretty table.
func deriveAndAsk(c *Ctx, args []string, stdin string, w *worldT) (lib, job, pretty string, li libInfo) {
	lib, job = "none", "-"
	rest, optsAny, perr := cli.VerifC08ParseFlags(args)
	if perr != nil {
		c.Count("argv-phase:usage")
		return
	}
	ov := reflect.ValueOf(optsAny).Elem()
	if fieldBool(ov, "Help") || fieldBool(ov, "Version") {
		c.Count("argv-phase:help-version")
		return
	}
	colorOn := false
	if fieldBool(ov, "OutputColor") || fieldBool(ov, "OutputMono") {
		colorOn = !fieldBool(ov, "OutputMono")
	}
	if colorOn && !w.colorsOK {
		c.Count("argv-phase:opterr-colors")
		return
	}
	var indent *int
	if f := ov.FieldByName("OutputIndent"); !f.IsNil() {
		i := int(f.Elem().Int())
		indent = &i
		if i > 9 || i < 0 {
			c.Count("argv-phase:opterr-indent")
			return
		}
	}
	yamlOut, tab := fieldBool(ov, "OutputYAML"), fieldBool(ov, "OutputTab")
	if yamlOut && tab {
		c.Count("argv-phase:opterr-yamltab")
		return
	}
	j := &jobT{indent: indent, tab: tab, compact: fieldBool(ov, "OutputCompact")}
	var argnames []string
	var argvalues []any
	namedVals := map[string]any{}
	bad := false
	bind := func(k string, v any) {
		argnames = append(argnames, "$"+k)
		argvalues = append(argvalues, v)
	}
	m := fieldMap(ov, "Arg")
	for _, k := range sortedKeys(m) {
		j.named = append(j.named, named{k, "a", m[k]})
		bind(k, m[k])
	}
	m = fieldMap(ov, "ArgJSON")
	for _, k := range sortedKeys(m) {
		j.named = append(j.named, named{k, "j", m[k]})
		v, ok := firstJSON(m[k])
		if !ok {
			w.jsonbad[m[k]] = true
			bad = true
		}
		bind(k, v)
	}
	m = fieldMap(ov, "SlurpFile")
	for _, k := range sortedKeys(m) {
		j.named = append(j.named, named{k, "s", m[k]})
		ct, ok := w.files[m[k]]
		docs, badTail := decodeAll(ct)
		if !ok || badTail {
			w.slurpbad[m[k]] = true
			bad = true
		}
		if docs == nil {
			docs = []any{}
		}
		bind(k, docs)
	}
	m = fieldMap(ov, "RawFile")
	for _, k := range sortedKeys(m) {
		j.named = append(j.named, named{k, "r", m[k]})
		ct, ok := w.files[m[k]]
		if !ok {
			bad = true
		}
		bind(k, ct)
	}
	for i, n := range argnames {
		namedVals[n[1:]] = argvalues[i]
	}
	// positional
	var positional []any
	var posVals []any
	as := ov.FieldByName("Args")
	for i := 0; i < as.Len(); i++ {
		if as.Index(i).IsNil() {
			positional = append(positional, nil)
			posVals = append(posVals, nil)
		} else {
			s := as.Index(i).Elem().String()
			positional = append(positional, "s"+s)
			posVals = append(posVals, s)
		}
	}
	js := ov.FieldByName("JSONArgs")
	for i := 0; i < js.Len(); i++ {
		if js.Index(i).IsNil() {
			continue
		}
		t := js.Index(i).Elem().String()
		v, ok := firstJSON(t)
		if !ok {
			w.jsonbad[t] = true
			bad = true
		}
		if i < len(positional) {
			positional[i], posVals[i] = "j"+t, v
		} else {
			positional, posVals = append(positional, "j"+t), append(posVals, v)
		}
	}
	j.positional = positional
	if bad {
		c.Count("argv-phase:opterr-binding")
		return
	}
	if posVals == nil {
		posVals = []any{}
	}
	argnames = append(argnames, "$ARGS")
	argvalues = append(argvalues, map[string]any{"named": namedVals, "positional": posVals})
	// the query
	var src string
	if fieldBool(ov, "FromFile") {
		if len(rest) == 0 {
			c.Count("argv-phase:opterr-f-nofile")
			return
		}
		ct, ok := w.files[rest[0]]
		if !ok {
			c.Count("argv-phase:opterr-f-unreadable")
			return
		}
		j.qkind, j.qa, j.qb, src = "file", rest[0], ct, ct
		rest = rest[1:]
	} else if len(rest) == 0 {
		j.qkind, src = "dot", "."
	} else {
		j.qkind, j.qa, src = "arg", rest[0], strings.TrimSpace(rest[0])
		rest = rest[1:]
	}
	j.files = rest
	mp := ov.FieldByName("ModulePaths")
	for i := 0; i < mp.Len(); i++ {
		j.modpaths = append(j.modpaths, mp.Index(i).String())
	}
	j.raw, j.stream, j.yamlin = fieldBool(ov, "InputRaw"), fieldBool(ov, "InputStream"), fieldBool(ov, "InputYAML")
	j.slurp, j.null = fieldBool(ov, "InputSlurp"), fieldBool(ov, "InputNull")
	job = j.sexp()
	if (j.stream || j.yamlin) && !j.null {
		// the --stream / --yaml-input decoders are not replicated by this harness (the generator pairs them with -n, but
		// the -n may have been eaten as the value of a preceding option)
		lib = "skip"
		return
	}

	if strings.Contains(src, "input") || strings.Contains(src, "debug") || strings.Contains(src, "stderr") {
		// input / inputs / input_filename / debug / stderr are bound to the command's own iterator and streams: outside the
		// modelled space (a positional such as --null-input after "--" is parsed as the query -(-(null - input)))
		lib = "skip"
		return
	}
	q, err := gojq.Parse(src)
	if err != nil {
		c.Count("argv-phase:parseerr")
		lib = "parseerr"
		return
	}
	modulePaths := j.modpaths
	if len(modulePaths) == 0 {
		modulePaths = []string{"~/.jq", "$ORIGIN/../lib/gojq", "$ORIGIN/../lib"}
	}
	code, err := gojq.Compile(q,
		gojq.WithModuleLoader(gojq.NewModuleLoader(modulePaths)),
		gojq.WithEnvironLoader(os.Environ),
		gojq.WithVariables(argnames),
		gojq.WithFunction("debug", 0, 0, func(v any, _ []any) any { return v }),
		gojq.WithFunction("stderr", 0, 0, func(v any, _ []any) any { return v }),
		gojq.WithFunction("input_filename", 0, 0, func(any, []any) any { return nil }),
	)
	if err != nil {
		c.Count("argv-phase:compileerr")
		lib = "compileerr"
		return
	}
	c.Count("argv-phase:run")
	// the inputs, the way createInputIter reads them
	type item struct {
		err bool
		v   any
	}
	var items []item
	var readers []string // contents, or "\x00missing"
	if len(j.files) == 0 {
		readers = []string{stdin}
	} else {
		for _, f := range j.files {
			if f == "-" { // the one stdin reader: a second "-" finds it exhausted
				readers = append(readers, stdin)
				stdin = ""
			} else if ct, ok := w.files[f]; ok {
				readers = append(readers, ct)
			} else {
				readers = append(readers, "\x00missing")
			}
		}
	}
	for _, ct := range readers {
		if ct == "\x00missing" {
			items = append(items, item{err: true})
			continue
		}
		switch {
		case j.raw && j.slurp:
			items = append(items, item{v: ct})
		case j.raw:
			lines := strings.SplitAfter(ct, "\n")
			for _, l := range lines {
				if l == "" {
					continue
				}
				items = append(items, item{v: strings.TrimSuffix(l, "\n")})
			}
		default: // JSON (the generator gives --stream / --yaml-input only together with -n)
			docs, badTail := decodeAll(ct)
			for _, d := range docs {
				items = append(items, item{v: d})
			}
			if badTail {
				items = append(items, item{err: true})
			}
		}
	}
	// the slurped value (used by the model only under -s and when no item is an error)
	var slurpVal any
	slurpOK := true
	if j.raw {
		var sb strings.Builder
		for _, it := range items {
			if it.err {
				slurpOK = false
				break
			}
			sb.WriteString(it.v.(string))
		}
		slurpVal = sb.String()
	} else {
		vs := []any{}
		for _, it := range items {
			if it.err {
				slurpOK = false
				break
			}
			vs = append(vs, it.v)
		}
		slurpVal = vs
	}
	var ins []string
	var prettyB strings.Builder
	seen := map[string]bool{}
	needPretty := yamlOut || colorOn
	onValue := func(v any) {
		if !needPretty {
			return
		}
		bs, err := gojq.Marshal(v)
		if err != nil || seen[string(bs)] {
			return
		}
		seen[string(bs)] = true
		var buf bytes.Buffer
		if yamlOut {
			enc := yaml.NewEncoder(&buf)
			if indent != nil {
				enc.SetIndent(*indent)
			} else {
				enc.SetIndent(2)
			}
			if err := enc.Encode(v); err != nil {
				c.Count("argv-yaml-encoder-error")
				return
			}
			enc.Close()
		} else {
			ind := 2
			if j.compact {
				ind = -1
			} else if j.tab {
				ind = 1
			} else if indent != nil {
				ind = *indent
			}
			if err := cli.VerifC12Encode(v, j.tab, ind, false, "default", &buf); err != nil {
				return
			}
		}
		fmt.Fprintf(&prettyB, " (%s %s)", Hexs(bs), Hexs(buf.Bytes()))
	}
	for _, it := range items {
		if it.err {
			ins = append(ins, "inerr")
			continue
		}
		ins = append(ins, libOutcomesP(code, it.v, argvalues, &li, onValue))
	}
	nullRun := libOutcomesP(code, nil, argvalues, &li, onValue)
	slurpRun := "(run)"
	if slurpOK && j.slurp {
		slurpRun = libOutcomesP(code, slurpVal, argvalues, &li, onValue)
	}
	lib = "(ans (items" + prefixEach(ins) + ") " + nullRun + " " + slurpRun + ")"
	pretty = prettyB.String()
	return
}

// libOutcomes with a callback on every value
func libOutcomesP(code *gojq.Code, v any, argvalues []any, li *libInfo, onValue func(any)) string {
	it := code.Run(v, argvalues...)
	var b strings.Builder
	b.WriteString("(run")
	after := -1
	for i := 0; i < 64; i++ {
		if after >= 0 {
			if after++; after > 2 {
				break
			}
		}
		x, ok := it.Next()
		if !ok {
			break
		}
		if e, ok := x.(error); ok {
			if after < 0 {
				after = 0
			}
			if he, ok := e.(*gojq.HaltError); ok {
				li.nHalt++
				fmt.Fprintf(&b, " (h %s %d)", valueSexp(he.Value()), he.ExitCode())
				continue
			}
			li.nErr++
			cd := "-"
			if ec, ok := e.(interface{ ExitCode() int }); ok {
				cd = fmt.Sprint(ec.ExitCode())
				li.errCodes = append(li.errCodes, ec.ExitCode())
			}
			fmt.Fprintf(&b, " (e %s %s)", cd, Hexs([]byte(e.Error())))
			continue
		}
		li.nVal++
		onValue(x)
		b.WriteString(" " + valueSexp(x))
	}
	b.WriteString(")")
	return b.String()
}

// ---------------------------------------------------------------------------------------------
// generator

var argvQueries = []string{
	`.`, `.`, ` . `, `., 1`, `$ARGS`, `$ARGS.named`, `$ARGS.positional`, `$a`, `$ARGS.named.a, $ARGS.named.b`, `[$ARGS.named.a, $ARGS.positional]`, `"a\u0000b"`,
	`"s", [1,{"a":"x"}]`, `if . == 2 then error("x") else . end`, `., ("bye\n"|halt_error(3))`, `false`, `null`, `empty`,
	`.[`, `nosuchfunc`, `include "m"; f`, `halt`, `error`, `{"a":[1,2,{"b":null}]}, "x"`,
	`"é", 1.5, [[]]`, `if . == null then halt_error(300) else . end`, `$__loc__`, `$ENV|type`, `"a", "b\u0000", "c"`,
	`(1,2,3) as $x | $x`, `[.[]?]`, `tostream`, `type`,
}

var argvStdins = []string{"", "1", "1 2", "null", "false 2 {", "\"s\"\n[1,{\"a\":2}]\n", "2 1", "{", "line1\nline2\n", "1 2 3 tru"}

func genArgv(r *Rng) (args []string, stdin string, colors string) {
	stdin = argvStdins[r.Intn(len(argvStdins))]
	// boolean flags: (long, short)
	bools := [][2]string{{"raw-output", "r"}, {"raw-output0", ""}, {"join-output", "j"}, {"compact-output", "c"}, {"tab", ""},
		{"exit-status", "e"}, {"null-input", "n"}, {"slurp", "s"}, {"color-output", "C"}, {"monochrome-output", "M"},
		{"yaml-output", ""}, {"raw-input", "R"}}
	var units [][]string
	cluster := ""
	nb := r.Intn(5)
	for i := 0; i < nb; i++ {
		b := bools[r.Intn(len(bools))]
		switch {
		case b[1] != "" && r.Chance(1, 3):
			cluster += b[1]
		case b[1] != "" && r.Chance(1, 2):
			units = append(units, []string{"-" + b[1]})
		default:
			units = append(units, []string{"--" + b[0]})
		}
	}
	null := false
	if r.Chance(1, 10) { // --stream / --yaml-input only together with -n (their decoders are not replicated here)
		units = append(units, []string{[]string{"--stream", "--yaml-input"}[r.Intn(2)]}, []string{"-n"})
		null = true
	}
	_ = null
	if r.Chance(1, 4) {
		v := []string{"0", "1", "2", "3", "7", "9", "10", "-1", "11", "x", "", "007", "+3", "99999999999999999999"}[r.Intn(14)]
		switch r.Intn(3) {
		case 0:
			units = append(units, []string{"--indent", v})
		case 1:
			units = append(units, []string{"--indent=" + v})
		default:
			units = append(units, []string{"--indent"}) // value = whatever comes next
		}
	}
	names := []string{"a", "b", "a", "ARGS", "x y", ""}
	if r.Chance(1, 3) {
		n := 1 + r.Intn(2)
		for i := 0; i < n; i++ {
			nm := names[r.Intn(len(names))]
			switch r.Intn(5) {
			case 0, 1:
				units = append(units, []string{"--arg", nm, []string{"v", "", "1", "é\x00"}[r.Intn(4)]})
			case 2:
				units = append(units, []string{"--argjson", nm, []string{"1", `{"k":[1,2]}`, `"s"`, "{", "", "1 2", "tru", "1.0", "nan"}[r.Intn(9)]})
			case 3:
				units = append(units, []string{"--slurpfile", nm, fpath([]string{"d0.json", "d1.json", "bad.json", "e.json", "missing.json"}[r.Intn(5)])})
			default:
				units = append(units, []string{"--rawfile", nm, fpath([]string{"raw.txt", "e.json", "missing.txt"}[r.Intn(3)])})
			}
		}
	}
	if r.Chance(1, 12) {
		units = append(units, []string{"--arg", "a"}) // missing value(s)
	}
	if r.Chance(1, 10) {
		units = append(units, []string{"-L", argvDirOr()})
	} else if r.Chance(1, 30) {
		units = append(units, []string{"-L" + argvDirOr()})
	}
	if r.Chance(1, 25) {
		units = append(units, [][]string{{"-h"}, {"--help"}, {"--version"}, {"-v"}, {"-hv"}}[r.Intn(5)])
	}
	if r.Chance(1, 12) {
		units = append(units, [][]string{{"--unknown"}, {"-q"}, {"--raw-output=1"}, {"-rq"}, {"--tabs"}, {"--exit-status=true"},
			{"-"}, {"--indent=3=4"}, {"---"}, {"-é"}, {"--arg=a"}, {"-r=1"}, {"-L"}}[r.Intn(13)])
	}
	if cluster != "" {
		units = append(units, []string{"-" + cluster})
	}
	// the query (or -f file), the input files
	var positional []string
	fromFile := r.Chance(1, 8)
	if fromFile {
		units = append(units, []string{[]string{"-f", "--from-file"}[r.Intn(2)]})
		if !r.Chance(1, 6) {
			positional = append(positional, fpath([]string{"q0.jq", "q1.jq", "qbad.jq", "qc.jq", "qh.jq", "missing.jq"}[r.Intn(6)]))
		}
	} else if !r.Chance(1, 10) {
		positional = append(positional, argvQueries[r.Intn(len(argvQueries))])
	}
	if len(positional) > 0 && r.Chance(1, 5) {
		n := 1 + r.Intn(2)
		for i := 0; i < n; i++ {
			positional = append(positional, []string{fpath("d0.json"), fpath("d1.json"), fpath("bad.json"), fpath("missing.json"), "-", fpath("e.json"), fpath("s.json")}[r.Intn(7)])
		}
	}
	// shuffle the option units, interleave the positionals
	for i := len(units) - 1; i > 0; i-- {
		k := r.Intn(i + 1)
		units[i], units[k] = units[k], units[i]
	}
	for _, p := range positional {
		k := r.Intn(len(units) + 1)
		if r.Chance(2, 3) {
			k = len(units)
		}
		units = append(units[:k], append([][]string{{p}}, units[k:]...)...)
	}
	if r.Chance(1, 15) {
		k := r.Intn(len(units) + 1)
		units = append(units[:k], append([][]string{{"--"}}, units[k:]...)...)
	}
	for _, u := range units {
		args = append(args, u...)
	}
	// --args / --jsonargs with trailing positionals
	if r.Chance(1, 6) {
		n := 1 + r.Intn(3)
		for i := 0; i < n; i++ {
			if r.Chance(1, 2) {
				args = append(args, []string{"--args", "--jsonargs"}[r.Intn(2)])
			}
			args = append(args, []string{"p", "1", `{"a":1}`, "tru", "", "[1", `"s"`, "-x", "--tab"}[r.Intn(9)])
		}
	}
	if r.Chance(1, 40) {
		colors = "garbage"
	}
	return
}

func argvDirOr() string {
	if argvDir == "" {
		argvSetup()
	}
	return argvDir
}

func runArgv(c *Ctx) {
	argvSetup()
	r := c.Rng
	// fixed cases first
	fixed := [][]string{{}, {"-h"}, {"--version"}, {"-v", "-h"}, {"--indent"}, {"--indent", "10", "."}, {"--indent", "-1"}, {"-f"},
		{"-f", fpath("missing.jq")}, {"--yaml-output", "--tab", "."}, {"-C", "."}, {"-CM", "."}, {"--yaml-output", "--raw-output0", `"a\u0000b", 1`},
		{"--arg", "a", "1", "--argjson", "a", "2", "$a"}, {"--jsonargs", "1", "--args", "a", "--jsonargs", "2", "$ARGS"},
		{"--args", "$ARGS", "a", "--jsonargs"}, {"-nr", "--", "-h"}, {"-L", argvDir, `include "m"; f`}, {"-e"}, {".", "--unknown"}}
	for _, a := range fixed {
		emitArgv(c, a, "1 2", "")
	}
	emitArgv(c, []string{"-C", "."}, "1", "garbage")
	emitArgv(c, []string{"-M", "."}, "1", "garbage")
	for i := 0; i < c.N; i++ {
		args, stdin, colors := genArgv(r)
		emitArgv(c, args, stdin, colors)
	}
}

func replayArgv(c *Ctx, raw []byte) bool {
	var d argvDesc
	if err := json.Unmarshal(raw, &d); err != nil || d.Mode != "argv" {
		return false
	}
	emitArgv(c, d.Args, d.Stdin, d.Colors)
	return true
}
