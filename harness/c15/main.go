// C15 harness: runs the gojq COMMAND (in-process through the hook cli.VerifRun, or the built
// cmd/gojq binary) on generated (options, query, stdin) cases and, in the same process, asks the
// LIBRARY (gojq.Parse / Compile / Run, encoding/json for the input stream) what it yields for the
// same inputs.  One s-expression line per case (format: coq/c15/Run.v).  The verdict is computed by
// the extracted model, never here.
package main

import (
	"bytes"
	"encoding/hex"
	"encoding/json"
	"fmt"
	"io"
	"os"
	"os/exec"
	"strconv"
	"strings"
	. "verifharness/hlib"

	"github.com/itchyny/gojq"
	"github.com/itchyny/gojq/cli"
)

func main() {
	Register("c15", runC15)
	Register("c15replay", runC15Replay)
	Main()
}

type optset struct {
	r, r0, j, c, tab bool
	indent           int // -1000 = not given
	e, n, s          bool
}

const noIndent = -1000

func bit(b bool) string {
	if b {
		return "1"
	}
	return "0"
}

func (o optset) sexp() string {
	ind := "-"
	if o.indent != noIndent && o.indent >= 0 {
		ind = strconv.Itoa(o.indent)
	}
	return fmt.Sprintf("(o %s %s %s %s %s %s %s %s %s)", bit(o.r), bit(o.r0), bit(o.j), bit(o.c), bit(o.tab), ind, bit(o.e), bit(o.n), bit(o.s))
}

// args spells the option set as command-line flags (long/short/clustered forms chosen by rng)
func (o optset) args(r *Rng) []string {
	var units [][]string
	short := ""
	add := func(on bool, s, l string) {
		if !on {
			return
		}
		switch {
		case s != "" && r.Chance(1, 3):
			short += s
		case s != "" && r.Chance(1, 2):
			units = append(units, []string{"-" + s})
		default:
			units = append(units, []string{"--" + l})
		}
	}
	add(o.r, "r", "raw-output")
	add(o.r0, "", "raw-output0")
	add(o.j, "j", "join-output")
	add(o.c, "c", "compact-output")
	add(o.tab, "", "tab")
	add(o.e, "e", "exit-status")
	add(o.n, "n", "null-input")
	add(o.s, "s", "slurp")
	if o.indent != noIndent {
		if r.Chance(1, 2) {
			units = append(units, []string{"--indent", strconv.Itoa(o.indent)})
		} else {
			units = append(units, []string{"--indent=" + strconv.Itoa(o.indent)})
		}
	}
	if short != "" {
		units = append(units, []string{"-" + short})
	}
	for i := len(units) - 1; i > 0; i-- {
		k := r.Intn(i + 1)
		units[i], units[k] = units[k], units[i]
	}
	var a []string
	for _, u := range units {
		a = append(a, u...)
	}
	return a
}

// ---------------------------------------------------------------------------------------------
// what the library yields

func valueSexp(v any) string {
	bs, err := gojq.Marshal(v)
	if err != nil {
		return "(badvalue)"
	}
	switch x := v.(type) {
	case nil:
		return "(v n " + Hexs(bs) + ")"
	case bool:
		if !x {
			return "(v f " + Hexs(bs) + ")"
		}
	case string:
		return "(v s " + Hexs([]byte(x)) + " " + Hexs(bs) + ")"
	}
	return "(v o " + Hexs(bs) + ")"
}

type libInfo struct {
	pre      string
	ins      []string // "inerr" | "(run ...)"
	errCodes []int    // exit codes of non-halt errors that carry one
	nHalt    int
	nErr     int
	nVal     int
}

// outcomes of one run of the library, collected the way any consumer of the iterator sees them;
// after the first error we look at (at most) two more items to show that the command ignores them
func libOutcomes(code *gojq.Code, v any, argvalues []any, li *libInfo) (s string) {
	var b strings.Builder
	b.WriteString("(run")
	defer func() {
		if r := recover(); r != nil {
			// the library panicked while being driven past an error: keep what we have
			b.WriteString(")")
			s = b.String()
		}
	}()
	it := code.Run(v, argvalues...)
	after := -1
	for i := 0; i < 64; i++ {
		if after >= 0 {
			if after++; after > 2 {
				break
			}
		}
		x, ok := it.Next()
		if !ok {
			break
		}
		if e, ok := x.(error); ok {
			if after < 0 {
				after = 0
			}
			if he, ok := e.(*gojq.HaltError); ok {
				li.nHalt++
				fmt.Fprintf(&b, " (h %s %d)", valueSexp(he.Value()), he.ExitCode())
				continue
			}
			li.nErr++
			code := "-"
			if ec, ok := e.(interface{ ExitCode() int }); ok {
				code = strconv.Itoa(ec.ExitCode())
				li.errCodes = append(li.errCodes, ec.ExitCode())
			}
			fmt.Fprintf(&b, " (e %s %s)", code, Hexs([]byte(e.Error())))
			continue
		}
		li.nVal++
		b.WriteString(" " + valueSexp(x))
	}
	b.WriteString(")")
	return b.String()
}

func decodeStream(stdin string) (docs []any, bad bool) {
	dec := json.NewDecoder(strings.NewReader(stdin))
	dec.UseNumber()
	for {
		var v any
		if err := dec.Decode(&v); err != nil {
			return docs, err != io.EOF
		}
		docs = append(docs, v)
	}
}

func libRun(o optset, query string, stdin string, forcePre string) (li libInfo, ndocs int, tail bool) {
	docs, bad := decodeStream(stdin)
	ndocs, tail = len(docs), bad
	li.pre = forcePre
	if li.pre != "" {
		return
	}
	if o.indent != noIndent && (o.indent > 9 || o.indent < 0) {
		li.pre = "opterr"
		return
	}
	q, err := gojq.Parse(strings.TrimSpace(query))
	if err != nil {
		li.pre = "parseerr"
		return
	}
	argvalues := []any{map[string]any{"named": map[string]any{}, "positional": []any{}}}
	code, err := gojq.Compile(q, gojq.WithEnvironLoader(os.Environ), gojq.WithVariables([]string{"$ARGS"}))
	if err != nil {
		li.pre = "compileerr"
		return
	}
	li.pre = "ready"
	switch {
	case o.n:
		li.ins = append(li.ins, libOutcomes(code, nil, argvalues, &li))
	case o.s:
		if bad {
			li.ins = append(li.ins, "inerr")
		} else {
			if docs == nil {
				docs = []any{}
			}
			li.ins = append(li.ins, libOutcomes(code, docs, argvalues, &li))
		}
	default:
		for _, d := range docs {
			li.ins = append(li.ins, libOutcomes(code, d, argvalues, &li))
		}
		if bad {
			li.ins = append(li.ins, "inerr")
		}
	}
	return
}

// ---------------------------------------------------------------------------------------------
// running the command

var gojqBin string

func runImpl(mode string, args []string, stdin string) (out, errb []byte, status int, err error) {
	var o, e bytes.Buffer
	if mode == "os" {
		cmd := exec.Command(gojqBin, args...)
		cmd.Stdin = strings.NewReader(stdin)
		cmd.Stdout, cmd.Stderr = &o, &e
		cmd.Env = append(os.Environ(), "NO_COLOR=1")
		rerr := cmd.Run()
		status = 0
		if rerr != nil {
			ee, ok := rerr.(*exec.ExitError)
			if !ok {
				return nil, nil, 0, rerr
			}
			status = ee.ExitCode()
		}
		return o.Bytes(), e.Bytes(), status, nil
	}
	status = cli.VerifRun(args, strings.NewReader(stdin), &o, &e)
	return o.Bytes(), e.Bytes(), status, nil
}

type cmdDesc struct {
	Args  []string `json:"args"`
	Stdin string   `json:"stdin"`
	Mode  string   `json:"mode"`
	Pre   string   `json:"force_pre,omitempty"`
}

func emitCase(c *Ctx, mode string, o optset, args []string, query string, stdin string, forcePre string) {
	li, ndocs, tail := libRun(o, query, stdin, forcePre)
	out, errb, status, err := runImpl(mode, args, stdin)
	if err != nil {
		c.Violation("cannot run the command: %v", err)
		return
	}
	desc, _ := json.Marshal(cmdDesc{Args: args, Stdin: stdin, Mode: mode, Pre: forcePre})
	c.Emit("(case %s %s (st %d %s) (ins%s) (impl %s %s %d %s))", o.sexp(), li.pre, ndocs, bit(tail),
		prefixEach(li.ins), mode, Hexs(out), status, Hexs(errb))
	cmdsLine(desc)
	c.Count("pre:" + li.pre)
	c.Count("mode:" + mode)
	if li.pre == "ready" {
		c.Count(fmt.Sprintf("inputs:%d", len(li.ins)))
		if li.nHalt > 0 {
			c.Count("with-halt")
		}
		if li.nErr > 0 {
			c.Count("with-runtime-error")
		}
		if tail && !o.n {
			c.Count("with-input-error")
		}
		if o.e {
			c.Count(fmt.Sprintf("exit-status-option:status=%d", status))
		}
		if o.r0 && bytes.Contains(out, []byte{0}) {
			c.Count("raw0-output")
		}
	}
	c.Count(fmt.Sprintf("status:%d", status))
	for _, ec := range li.errCodes {
		if ec != 5 {
			c.Violation("runtime error with exit code %d (not 5): %s", ec, desc)
		}
	}
}

// the command of every case goes to <out>.cmds (one JSON per line, same order as the cases)
var cmdsFile *os.File

func cmdsLine(desc []byte) {
	if cmdsFile == nil {
		path := os.DevNull
		for i, a := range os.Args {
			if a == "-out" && i+1 < len(os.Args) {
				path = os.Args[i+1] + ".cmds"
			}
		}
		f, err := os.Create(path)
		if err != nil {
			panic(err)
		}
		cmdsFile = f
	}
	cmdsFile.Write(append(desc, '\n'))
}

func prefixEach(xs []string) string {
	var b strings.Builder
	for _, x := range xs {
		b.WriteByte(' ')
		b.WriteString(x)
	}
	return b.String()
}

// ---------------------------------------------------------------------------------------------
// generators

var valueItems = []string{
	`.`, `.`, `1`, `"a"`, `"a\u0000b"`, `"\u0000"`, `false`, `null`, `true`, `0`,
	`[1,[2,{"a":"x,y:[]{}\"\\"}],[],{}]`, `{"a":[],"b":{"c":null,"d":[false]}}`, `"multi\nline"`, `"é☃𝄞"`,
	`nan`, `1.5`, `(-0)`, `1e1000`, `[]`, `{}`, `empty`, `("/w=="|@base64d)`, `.[]?`, `.a?`, `"q\"uote\\"`,
	`"\u007f\u001f"`, `""`, `[.]`, `{"k":.}`, `(try error("caught") catch .)`, `[nan]`, `100000000000000000000`,
	`"tab\there"`, `[[[[[]]]]]`, `{"":{"":""}}`, `(.,.)`, `not`, `[null,false]`, `"false"`, `"null"`,
}

var errorItems = []string{
	`error("x")`, `error`, `error(null)`, `error({"a":1})`, `(1|keys)`, `({}|.[0])`, `error("multi\nline")`,
	`([]|implode|error)`, `(null|error("\u0000"))`, `("a"|tonumber)`,
}

var haltItems = []string{
	`halt`, `halt_error`, `("bye"|halt_error)`, `("bye\n"|halt_error(1))`, `({"a":1}|halt_error(3))`, `(null|halt_error)`,
	`halt_error(256)`, `halt_error(257)`, `halt_error(-1)`, `("x"|halt_error(0))`, `([1,{"a":[]}]|halt_error(1000))`,
	`(nan|halt_error)`, `("a\u0000b"|halt_error(2))`, `(false|halt_error)`, `(""|halt_error(4))`, `halt_error(255)`,
	`halt_error(1.9)`, `halt_error(-257)`, `(0|halt_error(5))`, `halt_error("notanumber")`,
}

var docPool = []string{
	`0`, `1`, `2`, `false`, `null`, `true`, `"s"`, `"a\u0000b"`, `[1,2]`, `{"a":1}`, `[]`, `1.0`,
	`100000000000000000000`, `{"a":{"b":[null]}}`, `""`, `[false]`,
}

var condPool = []string{
	`. == 0`, `. == 1`, `. == 2`, `. == false`, `. == null`, `. == "s"`, `type == "number"`, `type == "array"`,
	`type == "boolean"`, `type == "string"`, `type == "object"`, `. != 1`, `(type == "number" and . > 0)`, `length == 2`,
}

var badTails = []string{`{`, `tru`, `]`, `[1,`, `"abc`, `nul`, `}`, `{"a"`, `[1 2]`, `,`}

var seps = []string{" ", "\n", "\n\n", "\t", " \n "}

func genItem(r *Rng, depth int) string {
	k := r.Intn(100)
	switch {
	case k < 50:
		return valueItems[r.Intn(len(valueItems))]
	case k < 62:
		return errorItems[r.Intn(len(errorItems))]
	case k < 74:
		return haltItems[r.Intn(len(haltItems))]
	default:
		if depth > 1 {
			return valueItems[r.Intn(len(valueItems))]
		}
		cond := condPool[r.Intn(len(condPool))]
		a := genItem(r, depth+1)
		b := "empty"
		if r.Chance(1, 2) {
			b = genItem(r, depth+1)
		}
		return fmt.Sprintf("(if %s then %s else %s end)", cond, a, b)
	}
}

func genQuery(r *Rng) string {
	n := 1 + r.Intn(4)
	items := make([]string, n)
	for i := range items {
		items[i] = genItem(r, 0)
	}
	q := strings.Join(items, ", ")
	if r.Chance(1, 12) {
		q = " " + q + "\n"
	}
	return q
}

func genStream(r *Rng) string {
	n := r.Intn(6)
	var b strings.Builder
	for i := 0; i < n; i++ {
		if i > 0 {
			b.WriteString(seps[r.Intn(len(seps))])
		}
		b.WriteString(docPool[r.Intn(len(docPool))])
	}
	if r.Chance(1, 4) {
		if n > 0 {
			b.WriteString(seps[r.Intn(len(seps))])
		}
		b.WriteString(badTails[r.Intn(len(badTails))])
	} else if r.Chance(1, 2) {
		b.WriteString("\n")
	}
	return b.String()
}

var indentPool = []int{0, 1, 2, 3, 4, 7, 8, 9}

func optsOf(mask int, indent int) optset {
	return optset{r: mask&1 != 0, r0: mask&2 != 0, j: mask&4 != 0, c: mask&8 != 0, tab: mask&16 != 0,
		e: mask&32 != 0, n: mask&64 != 0, s: mask&128 != 0, indent: indent}
}

// queries / streams that every option combination is run on: the interactions named by the property
var keyQueries = []string{
	`.`,
	`if . == 1 then error("x") else . end`,                       // error on one input, values (false/null) on others
	`., "a\u0000b", 3`,                                             // NUL rejection under --raw-output0
	`1, (if . == 2 then halt else empty end), "after"`,            // halt in the middle of the stream
	`[1,{"a":"s"}], (if . == false then ("bye"|halt_error(257)) else "x" end)`,
	`if . == null then empty else (., error) end`,                 // absent output, error carrying the value
	`"s", false, (if . == 2 then null else empty end)`,            // last output falsy on one input only
	`empty`,
	`{"a":[1,{"b":"c"}],"d":{}} , (if . == 1 then ({"m":1}|halt_error) else empty end)`,
}
var keyStreams = []string{
	"", "1 2 false null", "false 1", "2 1 {", "null", "1 false\n", `"a\u0000b" 2 tru`, "1 2",
}

var parseErrQueries = []string{`.[`, `1 +`, `if`, `}`, `. |`, `"abc`, `1 as`, `{a:}`}
var compileErrQueries = []string{`nosuchfunc`, `$undefined`, `break $x`, `. as [$a] | $b`, `f(1)`, `include "nosuchmodule"; .`}
var badFlagArgs = [][]string{{"--unknown"}, {"-q"}, {"--raw-output=1"}, {"-rq"}, {"--indent", "x"}, {"--exit-status=true"}, {"--tabs"}}

func buildArgs(r *Rng, o optset, query string, extraFront []string) []string {
	a := append([]string{}, extraFront...)
	flags := o.args(r)
	// flags may come before or after the query
	if r.Chance(1, 4) {
		a = append(a, query)
		a = append(a, flags...)
	} else {
		a = append(a, flags...)
		a = append(a, query)
	}
	return a
}

func runC15(c *Ctx) {
	r := c.Rng
	thorough := c.Tier == "thorough"
	if len(c.Args) > 0 {
		gojqBin = c.Args[0]
	}
	// 1. every combination of the 8 flags x key scenarios (indent rotates)
	nks := 3
	if thorough {
		nks = len(keyStreams)
	}
	for mask := 0; mask < 256; mask++ {
		for qi, q := range keyQueries {
			for k := 0; k < nks; k++ {
				si := (mask + qi*3 + k*5) % len(keyStreams)
				if thorough {
					si = k
				}
				indent := noIndent
				if (mask+qi+k)%3 == 0 {
					indent = indentPool[(mask+qi+k)/3%len(indentPool)]
				}
				o := optsOf(mask, indent)
				emitCase(c, "raw", o, buildArgs(r, o, q, nil), q, keyStreams[si], "")
			}
		}
	}
	// 2. random queries x random streams x every combination of the flags
	for i := 0; i < c.N; i++ {
		mask := i % 256
		indent := noIndent
		if r.Chance(1, 3) {
			indent = indentPool[r.Intn(len(indentPool))]
		}
		o := optsOf(mask, indent)
		q := genQuery(r)
		emitCase(c, "raw", o, buildArgs(r, o, q, nil), q, genStream(r), "")
	}
	// 2b. the same without -n / -s (several inputs), every combination of the other six flags
	for i := 0; i < c.N/2; i++ {
		mask := i % 64
		indent := noIndent
		if r.Chance(1, 3) {
			indent = indentPool[r.Intn(len(indentPool))]
		}
		o := optsOf(mask, indent)
		q := genQuery(r)
		emitCase(c, "raw", o, buildArgs(r, o, q, nil), q, genStream(r), "")
	}
	// 3. usage / option / parse / compile errors under every combination of -e -n -s -r
	nerr := 1
	if thorough {
		nerr = 4
	}
	for rep := 0; rep < nerr; rep++ {
		for mask := 0; mask < 256; mask += 1 + r.Intn(6) {
			o := optsOf(mask, noIndent)
			st := genStream(r)
			q := parseErrQueries[r.Intn(len(parseErrQueries))]
			emitCase(c, "raw", o, buildArgs(r, o, q, nil), q, st, "")
			q = compileErrQueries[r.Intn(len(compileErrQueries))]
			emitCase(c, "raw", o, buildArgs(r, o, q, nil), q, st, "")
			bf := badFlagArgs[r.Intn(len(badFlagArgs))]
			q = genQuery(r)
			emitCase(c, "raw", o, buildArgs(r, o, q, bf), q, st, "flagerr")
			oo := o
			oo.indent = []int{10, -1, 11, 100, -5}[r.Intn(5)]
			emitCase(c, "raw", oo, buildArgs(r, oo, q, nil), q, st, "")
			// --indent without its argument (last on the line)
			emitCase(c, "raw", o, append(buildArgs(r, o, q, nil), "--indent"), q, st, "flagerr")
		}
	}
	// 4. the real binary (thorough only): exit status as the parent process sees it
	if gojqBin != "" {
		n := c.N / 20
		for i := 0; i < n; i++ {
			mask := r.Intn(256)
			indent := noIndent
			if r.Chance(1, 3) {
				indent = indentPool[r.Intn(len(indentPool))]
			}
			o := optsOf(mask, indent)
			var q, st string
			if i%3 == 0 {
				q, st = keyQueries[r.Intn(len(keyQueries))], keyStreams[r.Intn(len(keyStreams))]
			} else {
				q, st = genQuery(r), genStream(r)
			}
			if i%5 == 0 {
				q = q + ", " + haltItems[r.Intn(len(haltItems))]
			}
			emitCase(c, "os", o, buildArgs(r, o, q, nil), q, st, "")
		}
		for _, bf := range badFlagArgs {
			o := optsOf(r.Intn(256), noIndent)
			emitCase(c, "os", o, buildArgs(r, o, ".", bf), ".", "1", "flagerr")
		}
		for _, q := range parseErrQueries {
			o := optsOf(r.Intn(256), noIndent)
			emitCase(c, "os", o, buildArgs(r, o, q, nil), q, "1", "")
		}
	}
}

// replay: args = hex(JSON cmdDesc) ...
func runC15Replay(c *Ctx) {
	for _, a := range c.Args {
		raw, err := hex.DecodeString(a)
		if err != nil {
			raw = []byte(a)
		}
		if replayArgv(c, raw) { // a recorded case of the c15argv stream (argv.go)
			continue
		}
		var d cmdDesc
		if err := json.Unmarshal(raw, &d); err != nil {
			c.Violation("bad replay descriptor: %v", err)
			continue
		}
		if strings.HasPrefix(d.Mode, "os:") {
			gojqBin = d.Mode[3:]
			d.Mode = "os"
		}
		o, q, ok := parseArgsBack(d.Args)
		if !ok && d.Pre == "" {
			c.Violation("replay: cannot recover the option set from %q", d.Args)
			continue
		}
		emitCase(c, d.Mode, o, d.Args, q, d.Stdin, d.Pre)
	}
}

// parseArgsBack recovers the option set and the query from an argument vector built by optset.args
func parseArgsBack(args []string) (o optset, query string, ok bool) {
	o.indent = noIndent
	ok = true
	haveQ := false
	for i := 0; i < len(args); i++ {
		a := args[i]
		switch {
		case a == "--raw-output":
			o.r = true
		case a == "--raw-output0":
			o.r0 = true
		case a == "--join-output":
			o.j = true
		case a == "--compact-output":
			o.c = true
		case a == "--tab":
			o.tab = true
		case a == "--exit-status":
			o.e = true
		case a == "--null-input":
			o.n = true
		case a == "--slurp":
			o.s = true
		case a == "--indent":
			if i+1 < len(args) {
				if n, err := strconv.Atoi(args[i+1]); err == nil {
					o.indent = n
					i++
					continue
				}
			}
			ok = false
		case strings.HasPrefix(a, "--indent="):
			n, err := strconv.Atoi(a[len("--indent="):])
			if err != nil {
				ok = false
			}
			o.indent = n
		case strings.HasPrefix(a, "--"):
			ok = false
		case len(a) > 1 && a[0] == '-' && strings.Trim(a[1:], "rjcens") == "":
			for _, ch := range a[1:] {
				switch ch {
				case 'r':
					o.r = true
				case 'j':
					o.j = true
				case 'c':
					o.c = true
				case 'e':
					o.e = true
				case 'n':
					o.n = true
				case 's':
					o.s = true
				}
			}
		default:
			if haveQ {
				ok = false
			}
			query, haveQ = a, true
		}
	}
	if !haveQ {
		query = "."
	}
	return
}
