package main

import (
	"bytes"
	"fmt"
	"strings"

	"github.com/itchyny/gojq"
	"github.com/itchyny/gojq/cli"
)

func main() {
	for _, src := range []string{`1, error("x"), 2, halt, 3, ("bye"|halt_error), 4, ({a:1}|halt_error(300)), error(null), 5, (null|halt_error), 6, (1|keys), 7`,
		`try error("x") catch .`, `label $f | 1, break $f`, `error(null)`, `[.[]|error(null)?]`, `halt_error(-1)`, `halt_error(1.7)`, `halt_error("a")`} {
		q, err := gojq.Parse(src)
		if err != nil {
			fmt.Println("parse", err)
			continue
		}
		c, err := gojq.Compile(q)
		if err != nil {
			fmt.Println("compile", err)
			continue
		}
		it := c.Run(nil)
		for i := 0; i < 30; i++ {
			v, ok := it.Next()
			if !ok {
				break
			}
			if e, ok := v.(error); ok {
				ec, has := e.(interface{ ExitCode() int })
				code := -999
				if has {
					code = ec.ExitCode()
				}
				_, isHalt := e.(*gojq.HaltError)
				fmt.Printf("  err %q has=%v code=%d halt=%v\n", e.Error(), has, code, isHalt)
			} else {
				fmt.Printf("  val %v\n", v)
			}
		}
		fmt.Println("--")
	}
	for _, args := range [][]string{{"-e", `if .==1 then error("x") else false end`}, {"-e", "halt"}, {"--indent", "10", "."}, {"-e", `if .==1 then error("x") else halt end`}, {`., halt_error(257)`},
		{"--raw-output0", `., "a\u0000b", 3`}, {"-e", "--raw-output0", `1, "a\u0000b", 3`}, {"-s", "."}, {"-n", "."}, {"-e", ".["}, {"--foo"}, {"-e", "empty"}, {"error(null)"}, {"-j", `., "x"`}} {
		var o, e bytes.Buffer
		st := cli.VerifRun(args, strings.NewReader("1 2 {"), &o, &e)
		fmt.Printf("%q => %d out=%q err=%q\n", args, st, o.String(), e.String())
	}
}
