// Harness: runs the IMPLEMENTATION (built from the current /repo tree, tag verif) on generated cases
// and writes each case together with what the implementation did, one s-expression per line.
// It never decides a verdict about model agreement; that happens in extracted Gallina (modelrun).
// Property-level oracles evaluated on the implementation alone (e.g. metamorphic laws) are reported
// as lines starting with "VIOL " on the stats stream.
package main

import (
	"bufio"
	"encoding/hex"
	"encoding/json"
	"flag"
	"fmt"
	"math"
	"math/big"
	"os"
	"sort"
	"strings"
)

type stream func(c *ctx)

var streams = map[string]stream{}

func register(name string, s stream) { streams[name] = s }

type ctx struct {
	seed   uint64
	n      int
	tier   string
	out    *bufio.Writer
	stats  map[string]any
	dist   map[string]int
	viol   []string
	rng    *rng
	args   []string
	nlines int
}

func (c *ctx) emit(format string, a ...any) {
	fmt.Fprintf(c.out, format, a...)
	c.out.WriteByte('\n')
	c.nlines++
}
func (c *ctx) count(k string) { c.dist[k]++ }
func (c *ctx) violation(format string, a ...any) {
	c.viol = append(c.viol, fmt.Sprintf(format, a...))
}

// splitmix64
type rng struct{ s uint64 }

func (r *rng) next() uint64 {
	r.s += 0x9e3779b97f4a7c15
	z := r.s
	z = (z ^ (z >> 30)) * 0xbf58476d1ce4e5b9
	z = (z ^ (z >> 27)) * 0x94d049bb133111eb
	return z ^ (z >> 31)
}
func (r *rng) intn(n int) int {
	if n <= 0 {
		return 0
	}
	return int(r.next() % uint64(n))
}
func (r *rng) chance(num, den int) bool { return r.intn(den) < num }
func (r *rng) fork() *rng                { return &rng{r.next()} }

func hexs(b []byte) string {
	if len(b) == 0 {
		return "-"
	}
	return hex.EncodeToString(b)
}

// sexpVal renders a gojq value in the transport format.
func sexpVal(v any) string {
	switch v := v.(type) {
	case nil:
		return "null"
	case bool:
		if v {
			return "true"
		}
		return "false"
	case int:
		return fmt.Sprintf("(i %d)", v)
	case *big.Int:
		return "(b " + v.String() + ")"
	case float64:
		return fmt.Sprintf("(f %d)", math.Float64bits(v))
	case json.Number:
		return "(l " + hexs([]byte(v.String())) + ")"
	case string:
		return "(s " + hexs([]byte(v)) + ")"
	case []any:
		var b strings.Builder
		b.WriteString("(a")
		for _, x := range v {
			b.WriteByte(' ')
			b.WriteString(sexpVal(x))
		}
		b.WriteByte(')')
		return b.String()
	case map[string]any:
		keys := make([]string, 0, len(v))
		for k := range v {
			keys = append(keys, k)
		}
		sort.Strings(keys)
		var b strings.Builder
		b.WriteString("(o")
		for _, k := range keys {
			b.WriteString(" (" + hexs([]byte(k)) + " " + sexpVal(v[k]) + ")")
		}
		b.WriteByte(')')
		return b.String()
	case error:
		return "(err " + hexs([]byte(v.Error())) + ")"
	default:
		return fmt.Sprintf("(unknown %s)", hexs([]byte(fmt.Sprintf("%T", v))))
	}
}

func main() {
	if len(os.Args) < 2 {
		fmt.Fprintln(os.Stderr, "usage: harness <stream> [-seed N] [-n N] [-tier T] [-out FILE] [-stats FILE] [args...]")
		os.Exit(2)
	}
	name := os.Args[1]
	s, ok := streams[name]
	if !ok {
		fmt.Fprintf(os.Stderr, "unknown stream %q\n", name)
		os.Exit(2)
	}
	fs := flag.NewFlagSet(name, flag.ExitOnError)
	seed := fs.Uint64("seed", 1, "PRNG seed")
	n := fs.Int("n", 1000, "number of cases (stream-specific meaning)")
	tier := fs.String("tier", "quick", "quick|thorough")
	outp := fs.String("out", "", "cases output file (default stdout)")
	statsp := fs.String("stats", "", "stats JSON output file")
	fs.Parse(os.Args[2:])
	w := os.Stdout
	if *outp != "" {
		f, err := os.Create(*outp)
		if err != nil {
			fmt.Fprintln(os.Stderr, err)
			os.Exit(2)
		}
		defer f.Close()
		w = f
	}
	c := &ctx{seed: *seed, n: *n, tier: *tier, out: bufio.NewWriterSize(w, 1<<20),
		stats: map[string]any{}, dist: map[string]int{}, rng: &rng{*seed}, args: fs.Args()}
	s(c)
	c.out.Flush()
	c.stats["lines"] = c.nlines
	c.stats["distribution"] = c.dist
	c.stats["impl_violations"] = c.viol
	if *statsp != "" {
		b, _ := json.MarshalIndent(c.stats, "", " ")
		os.WriteFile(*statsp, b, 0o644)
	}
}
