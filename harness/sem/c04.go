// C04 stream: compiler optimisations must be unobservable.  No hook in compiler.go: every program is
// compared with "de-optimised" variants obtained by semantics-preserving SOURCE rewrites that defeat the
// precondition of one optimisation each (the rewrites are proved semantics-preserving in the reference
// semantics: coq/props/C04.v):
//
//	R1 array/object literal folding     [c, d] -> [(c|.), (d|.)]      {a: c} -> {a: (c|.)}
//	R2 constant index / slice            .k -> .[("k"|.)]   .[0] -> .[(0|.)]   .[1:2] -> .[(1|.):(2|.)]
//	R3 argument inlining                 f(a; b) -> f((a|.); (b|.))   a + b -> (a|.) + (b|.)
//	R4 tail-call elimination             def f: body;  ->  def f: (body | .);
//	R5 constant-branch simplification    if c then a else b end -> if (c|.) then (a|.) else (b|.) end
//	R6 signed-number folding             -1 -> -(1|.)
//	R8 expbegin/expend removal in binds   . as P | body -> first(.) as P | body ;  src as P -> (src | .) as P
//	R7 constant-path assignment          .a.b = x -> (.a.b|.) = x      (error CLASS may differ: not compared)
//	R9 marker elision around inlined     .[q] -> .[(q, empty)]   .[a:b] -> .[(a, empty):(b, empty)]   getpath(p) -> getpath((p, empty))
//	   key arguments                     ((q|.) emits the same code as q when q is one call: a fork is needed)
//
// Implementation-only oracle: the observation (first 50 outputs + ending) of every variant equals the
// one of the original.  Every variant is also written as an ordinary case line, so the extracted
// reference semantics judges original and variants alike (agreement with Sem).
package main

import (
	"regexp"
	"strings"
	"time"

	. "verifharness/hlib"

	"github.com/itchyny/gojq"
)

func idQuery() *gojq.Query { return &gojq.Query{Term: &gojq.Term{Type: gojq.TermTypeIdentity}} }

// (q | .) as a query
func pipeId(q *gojq.Query) *gojq.Query {
	return &gojq.Query{Left: q, Op: gojq.OpPipe, Right: idQuery()}
}

// ((q | .)) as a query consisting of one parenthesised term
func parenPipeId(q *gojq.Query) *gojq.Query {
	return &gojq.Query{Term: &gojq.Term{Type: gojq.TermTypeQuery, Query: pipeId(q)}}
}

func termQuery(t *gojq.Term) *gojq.Query { return &gojq.Query{Term: t} }

// ((q, empty)) as a query consisting of one parenthesised term
func parenCommaEmpty(q *gojq.Query) *gojq.Query {
	empty := termQuery(&gojq.Term{Type: gojq.TermTypeFunc, Func: &gojq.Func{Name: "empty"}})
	return &gojq.Query{Term: &gojq.Term{Type: gojq.TermTypeQuery, Query: &gojq.Query{Left: q, Op: gojq.OpComma, Right: empty}}}
}

type rewriter struct {
	rule  int
	count int // number of sites rewritten
}

func (w *rewriter) on(r int) bool { return w.rule == r || w.rule == 0 }

func (w *rewriter) query(q *gojq.Query) *gojq.Query {
	if q == nil {
		return nil
	}
	n := &gojq.Query{Meta: q.Meta, Imports: q.Imports, Op: q.Op, Patterns: q.Patterns}
	for _, fd := range q.FuncDefs {
		body := w.query(fd.Body)
		if w.on(4) {
			body = pipeId(body)
			w.count++
		}
		n.FuncDefs = append(n.FuncDefs, &gojq.FuncDef{Name: fd.Name, Args: fd.Args, Body: body})
	}
	if q.Term != nil {
		n.Term = w.term(q.Term)
		return n
	}
	n.Left, n.Right = w.query(q.Left), w.query(q.Right)
	if q.Op == gojq.OpPipe && len(q.Patterns) > 0 && (w.rule == 8 || w.rule == 0) {
		if q.Left.Term != nil && q.Left.Term.Type == gojq.TermTypeIdentity && len(q.Left.Term.SuffixList) == 0 && len(q.Left.FuncDefs) == 0 {
			// `. as P`: (. | .) emits no code either; first(.) does and is `.`
			n.Left = termQuery(&gojq.Term{Type: gojq.TermTypeFunc, Func: &gojq.Func{Name: "first", Args: []*gojq.Query{idQuery()}}})
		} else {
			n.Left = parenPipeId(n.Left)
		}
		w.count++
	}
	switch q.Op {
	case gojq.OpAdd, gojq.OpSub, gojq.OpMul, gojq.OpDiv, gojq.OpMod, gojq.OpEq, gojq.OpNe, gojq.OpGt, gojq.OpLt, gojq.OpGe, gojq.OpLe:
		if w.on(3) {
			n.Left, n.Right = parenPipeId(n.Left), parenPipeId(n.Right)
			w.count++
		}
	case gojq.OpAssign:
		if w.rule == 7 {
			n.Left = parenPipeId(n.Left)
			w.count++
		}
	}
	return n
}

func (w *rewriter) index(x *gojq.Index) *gojq.Index {
	if x == nil {
		return nil
	}
	n := &gojq.Index{Name: x.Name, Str: w.str(x.Str), Start: w.query(x.Start), End: w.query(x.End), IsSlice: x.IsSlice}
	if w.rule == 9 {
		if n.Start != nil {
			n.Start = parenCommaEmpty(n.Start)
			w.count++
		}
		if n.End != nil {
			n.End = parenCommaEmpty(n.End)
			w.count++
		}
		return n
	}
	if !w.on(2) {
		return n
	}
	switch {
	case x.Name != "":
		n.Name = ""
		n.Start = parenPipeId(termQuery(&gojq.Term{Type: gojq.TermTypeString, Str: &gojq.String{Str: x.Name}}))
		w.count++
	case x.Str != nil && x.Str.Queries == nil:
		n.Str = nil
		n.Start = parenPipeId(termQuery(&gojq.Term{Type: gojq.TermTypeString, Str: &gojq.String{Str: x.Str.Str}}))
		w.count++
	default:
		if n.Start != nil {
			n.Start = parenPipeId(n.Start)
			w.count++
		}
		if n.End != nil {
			n.End = parenPipeId(n.End)
		}
	}
	return n
}

func (w *rewriter) str(s *gojq.String) *gojq.String {
	if s == nil || s.Queries == nil {
		return s
	}
	n := &gojq.String{Str: s.Str}
	for _, q := range s.Queries {
		n.Queries = append(n.Queries, w.query(q))
	}
	return n
}

// commaLeaves wraps every leaf of a comma tree in ((leaf | .))
func (w *rewriter) commaLeaves(q *gojq.Query) *gojq.Query {
	if q.Term == nil && q.Op == gojq.OpComma && len(q.FuncDefs) == 0 {
		return &gojq.Query{Left: w.commaLeaves(q.Left), Op: gojq.OpComma, Right: w.commaLeaves(q.Right)}
	}
	w.count++
	return parenPipeId(q)
}

func (w *rewriter) term(t *gojq.Term) *gojq.Term {
	if t == nil {
		return nil
	}
	n := &gojq.Term{Type: t.Type, Number: t.Number, Format: t.Format, Break: t.Break}
	switch t.Type {
	case gojq.TermTypeIndex:
		n.Index = w.index(t.Index)
	case gojq.TermTypeFunc:
		f := &gojq.Func{Name: t.Func.Name}
		for _, a := range t.Func.Args {
			a = w.query(a)
			if w.on(3) {
				a = parenPipeId(a)
				w.count++
			}
			if w.rule == 9 && t.Func.Name == "getpath" {
				a = parenCommaEmpty(a)
				w.count++
			}
			f.Args = append(f.Args, a)
		}
		n.Func = f
	case gojq.TermTypeObject:
		o := &gojq.Object{}
		for _, kv := range t.Object.KeyVals {
			nkv := &gojq.ObjectKeyVal{Key: kv.Key, KeyString: w.str(kv.KeyString), KeyQuery: w.query(kv.KeyQuery), Val: w.query(kv.Val)}
			if w.on(1) && nkv.Val != nil {
				nkv.Val = parenPipeId(nkv.Val)
				w.count++
			}
			o.KeyVals = append(o.KeyVals, nkv)
		}
		n.Object = o
	case gojq.TermTypeArray:
		a := &gojq.Array{Query: w.query(t.Array.Query)}
		if w.on(1) && a.Query != nil {
			a.Query = w.commaLeaves(a.Query)
		}
		n.Array = a
	case gojq.TermTypeUnary:
		u := &gojq.Unary{Op: t.Unary.Op, Term: w.term(t.Unary.Term)}
		if w.on(6) {
			u.Term = &gojq.Term{Type: gojq.TermTypeQuery, Query: pipeId(termQuery(u.Term))}
			w.count++
		}
		n.Unary = u
	case gojq.TermTypeFormat, gojq.TermTypeString:
		n.Str = w.str(t.Str)
	case gojq.TermTypeIf:
		wrap := func(q *gojq.Query) *gojq.Query {
			q = w.query(q)
			if q != nil && w.on(5) {
				q = parenPipeId(q)
			}
			return q
		}
		i := &gojq.If{Cond: wrap(t.If.Cond), Then: wrap(t.If.Then), Else: wrap(t.If.Else)}
		for _, e := range t.If.Elif {
			i.Elif = append(i.Elif, &gojq.IfElif{Cond: wrap(e.Cond), Then: wrap(e.Then)})
		}
		if w.on(5) && t.If.Else == nil {
			i.Else = idQuery() // the implicit else branch made explicit (C04_if_explicit_else)
		}
		if w.on(5) {
			w.count++
		}
		n.If = i
	case gojq.TermTypeTry:
		n.Try = &gojq.Try{Body: w.query(t.Try.Body), Catch: w.query(t.Try.Catch)}
	case gojq.TermTypeReduce:
		n.Reduce = &gojq.Reduce{Query: w.query(t.Reduce.Query), Pattern: t.Reduce.Pattern, Start: w.query(t.Reduce.Start), Update: w.query(t.Reduce.Update)}
	case gojq.TermTypeForeach:
		n.Foreach = &gojq.Foreach{Query: w.query(t.Foreach.Query), Pattern: t.Foreach.Pattern, Start: w.query(t.Foreach.Start), Update: w.query(t.Foreach.Update), Extract: w.query(t.Foreach.Extract)}
	case gojq.TermTypeLabel:
		n.Label = &gojq.Label{Ident: t.Label.Ident, Body: w.query(t.Label.Body)}
	case gojq.TermTypeQuery:
		n.Query = w.query(t.Query)
	}
	for _, s := range t.SuffixList {
		n.SuffixList = append(n.SuffixList, &gojq.Suffix{Index: w.index(s.Index), Iter: s.Iter, Optional: s.Optional})
	}
	return n
}

// variants returns the rewritten program texts by rule (0 = all of R1..R6 together)
func variants(q *gojq.Query) map[int]string {
	out := map[int]string{}
	for _, r := range []int{1, 2, 3, 4, 5, 6, 7, 8, 9, 0} {
		w := &rewriter{rule: r}
		nq := w.query(q)
		if w.count == 0 {
			continue
		}
		out[r] = nq.String()
	}
	return out
}

// programs biased to the preconditions of the optimisations
func c04Programs(r *Rng, n int) []string {
	lits := []string{"[1,2,3]", "[1,[2],{\"a\":3}]", "{a:1,b:[2]}", "[1,.,3]", "{a:1,b:.}", "[[],{}]", "[-1, 2]", "{\"a b\":null,c:true}", "[1,2|.]", "[(1,2)]", "{a:(1,2)}", "[null,false,\"x\"]", "{a:{b:{c:[1]}}}", "[.[]?]", "{(\"a\"):1}", "{a:1,a:2}"}
	args := []string{"1 + .", ". + 1", ".a + .b", "length + 1", "[.[]?] | map(. + 1)", "first(.[]?)", "limit(2; .[]?)", "select(. != null)", "has(\"a\")?", "getpath([\"a\"])", "setpath([\"a\"]; 1)?", "[range(3)]", "1 as $x | $x + 1", "1 as $x | [$x, .]", "(.a, .b) + 1", "1 + (.[]?)", "tostring", "[.] | add", "ltrimstr(\"a\")", "[limit(3; repeat(1))]", "[.[]? | . * 2] | add", "path(.a)", "[paths]", "1 + (label $l | .)", "1 + (label $l | 1, break $l)", "[.[]?] | sort_by(.)", "[.[]?] | group_by(.)?", "isempty(.[]?)", "any(.[]?; .)", "indices(1)?"}
	recs := []string{
		"def f: if . < 3 then .+1|f else . end; (numbers|f)?",
		"def f: if . < 3 then [.+1|f] else . end; (numbers|f)?",
		"def f: (numbers | select(. < 4) | .+1 | f), .; f",
		"def f: if . < 3 then (.+1|f) // 0 else . end; (numbers|f)?",
		"def f: if . < 3 then .+1|f, 9 else . end; [numbers|f]",
		"def f: . as $x | if $x < 3 then $x+1|f else $x end; (numbers|f)?",
		"def f($a): if $a < 3 then f($a+1) else $a end; f(0)",
		"def f(g): if . < 3 then .+1|f(g) else g end; (numbers|f(.*2))?",
		"def f: def g: if . < 2 then .+1|g else . end; g | if . < 4 then .+1|f else . end; (numbers|f)?",
		"def r: ., (.[]? | r); [r]",
		"def f: if type == \"array\" then map(f) elif type == \"object\" then map_values(f) else . end; f",
		"def w(c; u): def _w: if c then ., (u | _w) else empty end; _w; [w(numbers and . < 4; . + 1)]",
		"[recurse(if type == \"number\" and . < 3 then .+1 else empty end)]",
		"last(range(5))", "[limit(3; recurse(.[]?))]", "until(type != \"number\" or . > 3; . + 1)", "[.[]?] | reduce .[] as $x (0; . + ($x|numbers))",
	}
	paths := []string{".a.b = 1", ".a[0] |= 2", ".[\"a\"].b += 1", ".[0] = 1", ".a = (1,2)", ".a.b |= empty", ".a //= 3", ".[1:] = [9]", ".a.b.c = .a", "(.a,.b) = 1", ".a[1:2] = [7]", ".a |= . + 1", ".. |= .", ".[-1] = 0", ".a.b -= 1", "del(.a.b)", "del(.[0])", "to_entries", "with_entries(.value |= .)", "[paths]", "[leaf_paths]", "pick(.a)", ".[\"a\"] = 1", ".a[\"b\"] = 1",
		// regression corpus of finding F3: the message of the failing constant-path `=` reaches the output / a re-raised error
		"try (.[0] = 1) catch (if error then 1 else 2 end)", "try (.a = 1) catch error", "try (.a.b = 1) catch (length + 1)", "[.[]? | try (.a = 1) catch .]", "(.a = 1)? // \"none\""}
	ifs := []string{"if .a then . end", "[.[]? | if . then . end]", "if . then . elif .a? then . end", "if .a? then .a end", "[.[]? | if . == null then 0 end]", "path(if .a? then .a end)?", "if . then 1 end | if . then . end", "if true then 1 else 2 end", "if . then \"a\" else \"b\" end", "if .a then 1 else 0 end", "if . == null then [] else {} end", "if .[]? then 1 else 2 end", "if . then 1 elif .a? then 2 else 3 end", "if (true,false) then 1 else 2 end", "if . then 1 end", "if empty then 1 else 2 end", "if error then 1 else 2 end", "[.[]? | if . then 1 else 0 end]", "-1", "-(1)", "-.", "-(.a)", "- 1.5", "-(1,2)", "[-1,-2]", "{a:-1}", ".[-1]", ".[-1:]", "-1 + 1", "1 - -1"}
	pools := [][]string{lits, args, recs, paths, ifs}
	var out []string
	for _, p := range pools {
		out = append(out, p...)
	}
	g := func() string {
		p := pools[r.Intn(len(pools))]
		return p[r.Intn(len(p))]
	}
	for len(out) < n {
		a, b := g(), g()
		switch r.Intn(10) {
		case 0:
			out = append(out, "("+a+") | ("+b+")")
		case 1:
			out = append(out, "("+a+"), ("+b+")")
		case 2:
			out = append(out, "["+a+"] + ["+b+"]")
		case 3:
			out = append(out, "{a: ("+a+"), b: ("+b+")}")
		case 4:
			out = append(out, "try ("+a+") catch ("+b+")")
		case 5:
			out = append(out, "("+a+") as $v | ["+b+", $v]")
		case 6:
			out = append(out, "def h(g): [g, ("+a+")]; h("+b+")")
		case 7:
			out = append(out, "if ("+a+") then ("+b+") else . end")
		case 8:
			out = append(out, "[limit(4; "+a+")] | "+b)
		default:
			out = append(out, randomProgram(r.Fork()))
		}
	}
	return out
}

func hasAssign(q *gojq.Query) bool { return strings.Contains(sexpQuery(q), " assign ") }

// f3Family: the two observations differ ONLY in the class/message of an error raised by a constant-path
// `=` whose path navigation fails on the value: same outputs before it, optimised = func2Wrap,
// de-optimised = the bare navigation error; or (program catches it) outputs of the same length
// differing only in strings, the optimised one starting with "setpath(".
func f3Family(p *prog, a, b outcome) bool {
	// a = original, b = its R7 variant ((l | .) = r): the two programs differ ONLY in whether
	// compileQueryUpdate takes the setpath shortcut, so any difference is finding F3; as a sanity
	// bound the number of outputs must agree and the difference must involve an error (an uncaught
	// one, or a catch in the program that can see the message)
	if !hasAssign(p.query) || len(a.outs) != len(b.outs) {
		return false
	}
	return strings.Contains(p.src, "catch") || strings.Contains(p.src, "?") ||
		(strings.HasPrefix(a.ending, "(err") && strings.HasPrefix(b.ending, "(err"))
}

// the canonical F3 case, compared on every run (its text is the key of the known finding)
// known finding F5: the constant-path `=` shortcut bypasses a user-defined _assign/2 (the general form calls it).
// Narrow attribution: the program defines _assign with two parameters and the difference is between the original
// and its R7 variant (which only defeats that shortcut).
var userAssignRe = regexp.MustCompile(`def\s+_assign\s*\(\s*\$?\w+\s*;\s*\$?\w+\s*\)`)

func f5Family(p *prog) bool { return hasAssign(p.query) && userAssignRe.MatchString(p.src) }

// the canonical F5 case, compared on every run so that the KNOWN-FINDING line is printed (and so that a change of
// either observation is reported: the text then no longer matches the recorded finding)
func canonicalF5(c *Ctx) {
	src := `def _assign(p; x): 28; {a: 1} | (.a = 2), (.a.b = 3)?, (.["a"] = 4)`
	p, ok1 := prepare(src)
	if !ok1 {
		return
	}
	vs := variants(p.query)
	v, ok2 := prepare(vs[7])
	if !ok2 {
		return
	}
	a := runProg(p, nil, nil, time.Second)
	b := runProg(v, nil, nil, time.Second)
	if obsString(a, false) != obsString(b, false) {
		c.Violation("(c04-differs R7 (program %s) (variant %s) (input null) (optimised %s) (deoptimised %s))", src, vs[7], obsString(a, false), obsString(b, false))
	}
}

func canonicalF3(c *Ctx) {
	p, ok1 := prepare(".a = 1")
	v, ok2 := prepare("(.a | .) = 1")
	if !ok1 || !ok2 {
		return
	}
	a := runProg(p, false, nil, time.Second)
	b := runProg(v, false, nil, time.Second)
	if obsString(a, false) != obsString(b, false) {
		c.Violation("(c04-F3 (program .a = 1) (variant (.a | .) = 1) (input false) (optimised %s) (deoptimised %s))", a.ending, b.ending)
	}
}

func obsString(oc outcome, noClass bool) string {
	e := oc.ending
	if noClass && strings.HasPrefix(e, "(err ") && !strings.HasPrefix(e, "(err user") {
		e = "(err *)"
	}
	return strings.Join(oc.outs, " ") + " => " + e
}

func streamC04(c *Ctx) {
	r := c.Rng
	ext := append(small12(), extendedInputs()...)
	progs := c04Programs(r.Fork(), c.N)
	// branch-join shapes x consumers (peephole / fusion hazards: data below the stack top)
	jp, ji := joinBlock()
	pbp, pbi := pathBindBlock()
	pbSet := map[string]bool{}
	for i, src := range pbp {
		if c.Tier != "quick" || i%6 == int(c.Seed%6) {
			progs = append(progs, src)
			pbSet[src] = true
		}
	}
	joinSet := map[string]bool{}
	for i, src := range jp {
		if c.Tier != "quick" || i%2 == int(c.Seed%2) {
			progs = append(progs, src)
			joinSet[src] = true
		}
	}
	famIns := map[string][]any{}
	handPicked := map[string]bool{}
	var first []string
	for _, f := range firstBlocks() {
		for i, src := range f.progs {
			if c.Tier != "quick" || f.name == "regress" || f.name == "callee" || i%4 == int(c.Seed%4) {
				first = append(first, src)
				famIns[src] = f.ins
				handPicked[src] = true
			}
		}
	}
	progs = append(first, progs...)
	for _, f := range familyBlocks() {
		if strings.HasPrefix(f.name, "inputs") || f.name == "deep" {
			continue
		}
		for i, src := range f.progs {
			if c.Tier != "quick" || i%5 == int(c.Seed%5) {
				progs = append(progs, src)
				famIns[src] = f.ins
			}
		}
	}
	corpus, _ := loadCorpus(repoDir())
	for _, cc := range corpus {
		progs = append(progs, cc.query)
	}
	nvar, ncmp := 0, 0
	canonicalF3(c)
	canonicalF5(c)
	byRule := map[int]int{}
	for _, src := range progs {
		if !handPicked[src] && dangerous(src) {
			continue
		}
		p, ok := prepare(src)
		if !ok {
			c.Count("noparse")
			continue
		}
		vs := variants(p.query)
		if len(vs) == 0 {
			c.Count("no-site")
			continue
		}
		ins := []any{ext[r.Intn(len(ext))], ext[r.Intn(len(ext))], small12()[r.Intn(12)]}
		if pbSet[src] {
			ins = []any{pbi[r.Intn(len(pbi))], pbi[r.Intn(len(pbi))], pbi[r.Intn(5)]}
		}
		if fi, ok := famIns[src]; ok {
			ins = []any{fi[r.Intn(len(fi))], fi[r.Intn(len(fi))]}
		}
		if joinSet[src] {
			ins = []any{ji[r.Intn(2)], ji[2+r.Intn(len(ji)-2)]} // one boolean, one other
		}
		type pv struct {
			rule int
			p    *prog
		}
		var pvs []pv
		for rule, text := range vs {
			vp, ok := prepare(text)
			if !ok {
				// a rewrite must not turn a compiling program into a non-compiling one
				c.Violation("(c04-variant-does-not-compile R%d %s => %s)", rule, src, text)
				continue
			}
			pvs = append(pvs, pv{rule, vp})
			byRule[rule]++
			nvar++
		}
		for _, in := range ins {
			base := runProg(p, in, nil, 150*time.Millisecond)
			if base.dropped != "" {
				c.Count("dropped-" + strings.SplitN(base.dropped, ":", 2)[0])
				if strings.HasPrefix(base.dropped, "panic") {
					c.Violation("(panic %s) program=%s input=%s", base.dropped, src, canon(in, nil))
				}
				continue
			}
			c.Count("base:" + emitCase(c, p, in, nil))
			// a second run of the SAME compiled Code on the same input: constants folded into the code (and
			// anything else the first run could have written to) must be unchanged
			if again := runProg(p, in, nil, 150*time.Millisecond); again.dropped == "" && obsString(again, false) != obsString(base, false) {
				c.Violation("(c04-second-run-differs (program %s) (input %s) (first %s) (second %s))", Hexs([]byte(src)), canon(in, nil), obsString(base, false), obsString(again, false))
			}
			// run all variants first: R7 rewrites nothing but the constant-path `=`, so base-vs-R7 isolates
			// the setpath shortcut (known finding F3); R2 and R0 defeat the shortcut as well and are
			// therefore compared with R7's observation, everything else with the original's
			ocs := map[int]outcome{}
			for _, v := range pvs {
				oc := runProg(v.p, in, nil, 300*time.Millisecond)
				if oc.dropped != "" {
					if strings.HasPrefix(oc.dropped, "panic") {
						c.Violation("(panic %s) program=%s input=%s", oc.dropped, v.p.src, canon(in, nil))
					}
					c.Count("variant-dropped")
					continue
				}
				ocs[v.rule] = oc
				c.Count("variant:" + emitCase(c, v.p, in, nil))
			}
			ref7, has7 := ocs[7]
			for _, v := range pvs {
				oc, ok := ocs[v.rule]
				if !ok {
					continue
				}
				ncmp++
				ref, refName := base, "optimised"
				if obsString(ref, false) == obsString(oc, false) {
					continue
				}
				// a variant may or may not defeat the setpath shortcut (R2, R6, R0 do when the path
				// holds a rewritten key): both the original and its R7 variant are legitimate references
				if v.rule == 7 {
					if f5Family(p) {
						c.Count("attributed-F5")
						continue
					}
					if f3Family(p, base, oc) {
						c.Count("attributed-F3")
						continue
					}
				} else if has7 && obsString(ref7, false) == obsString(oc, false) {
					c.Count("equals-R7-reference")
					continue
				}
				if strings.Count(sexpQuery(p.query), " assign ") >= 2 && f3Family(p, base, oc) {
					c.Count("attributed-F3-several-assignments")
					continue
				}
				c.Violation("(c04-differs R%d (program %s) (variant %s) (input %s) (%s %s) (deoptimised %s))",
					v.rule, Hexs([]byte(src)), Hexs([]byte(v.p.src)), canon(in, nil), refName, obsString(ref, false), obsString(oc, false))
			}
		}
	}
	c.Stats["variants"] = nvar
	c.Stats["comparisons"] = ncmp
	c.Stats["variants_by_rule"] = byRule
}
