// Systematic program families (third wave): constructs whose interplay the random generator reaches rarely.
// Each family is a list of program texts with its own inputs (and, where it matters, its own `input` stream).
package main

import (
	"fmt"
)

type fam struct {
	name   string
	progs  []string
	ins    []any
	inputs []any
}

func familyBlocks() []fam {
	var fs []fam
	obj := map[string]any{"a": 1, "b": []any{2, 3}, "c": "x<&>'\"y", "d": nil}
	arr := []any{1, "two", []any{3}, map[string]any{"a": 4}, nil, true}

	// 1. string interpolation: several generators (order of enumeration), formats applied to the
	//    interpolated values only, errors and breaks raised inside an interpolation, interpolation in keys
	{
		gens := []string{"1,2", ".[]?", ".a?, .b?", "empty", "error(\"e\")?", "(1,2) as $x | $x, -$x", "first(.[]?)", "limit(2; .[]?)", "\"in\\(1,2)\""}
		fmts := []string{"", "@text ", "@json ", "@base64 ", "@uri ", "@html ", "@sh ", "@csv ", "@tsv ", "@base64d "}
		var ps []string
		for i, g1 := range gens {
			for j, g2 := range gens {
				if (i+j)%3 != 0 && i != j {
					continue
				}
				ps = append(ps, fmt.Sprintf(`["a\(%s)b\(%s)c"]`, g1, g2))
			}
		}
		for _, f := range fmts {
			ps = append(ps,
				f+`"v=\(.)"`, "["+f+`"\(.[]?)|\(1,2)"]`, f+`"<\(.a?)> & \(.c?)"`, "[.[]? | "+f+`"\(.)"]?`, "try ("+f+`"x\(.b?)y") catch "fmt-error"`,
				f+`"lit<&>'\" only"`, f+`"\([.])"`, f+`"\(tojson)"`)
		}
		ps = append(ps,
			`"\(error)"`, `try "\(error("x"))" catch .`, `try "a\(1, error("x"))b" catch .`, `["a\(1, error("x"))b"]?`, `[.[]? | try "\(error)" catch .]`,
			`label $l | "a\(1, break $l, 2)"`, `[label $l | "a\(1,2)\(3, break $l)"]`, `first("a\(1,2)\(error)")?`, `[limit(3; "\(1,2)\(3,4)")]`,
			`{"k\(1,2)": 3}`, `{"a\(.a?)": "b\(.b?)"}`, `{("x\(1,2)"): (3,4)}`, `{"\(1,2)": "\(3,4)"}`, `. as $v | "\($v)\($v|length?)"`,
			`"\("\("\(1,2)")")"`, `"a" + "\(1,2)" + "b"`, `["\(.[]?)" | length]`, `"\(1;2)"?`, `@json "\(1,2)" | @base64`, `@base64 "\(.)" | @base64d`,
			`[.[]? | @text "\(.)" == tostring]`, `@html "\(.c?)" | @uri "\(.)"`, `"\(1 as $x | $x + 1)"`, `"\(reduce .[]? as $x (0; . + 1))"`, `"\([foreach (1,2) as $x (0; . + $x)])"`,
			`def f(s): "f\(s)"; [f(1,2)]`, `def f($s): "f\($s)"; [f(1,2)]`, `"\(.[0]?)\(.[1]?)" as $s | [$s, ($s|length)]`, `"\(input)"?`, `["\(inputs)"]`,
			`"\(null)\(true)\(1.5)\([1,[2]])\({a:1})"`, `@sh "\(1,"a b",[1,"c d"])"`, `try @sh "\({a:1})" catch "sh-error"`, `try @csv "\([[1]])" catch "csv-error"`, `@csv "\([1,"a\"b",null,true])"`, `@tsv "\(["a\tb","c\\d",null])"`,
			`"é\(1)世\("界")"`, `"\u00e9\(.)"`, `"\(.)" | explode | implode`, `"a\(1,2)" | ascii_downcase, ascii_upcase`)
		fs = append(fs, fam{"interp", ps, []any{obj, arr, "s p", 7, nil, []any{"a,b", "c\td", 1.5, nil}}, []any{10, "in"}})
	}

	// 2. limit / first / until / isempty / nth against errors, breaks and empties
	{
		bodies := []string{"1, 2, error(\"late\")", "error(\"early\"), 1", ".[]?", "empty", "1, empty, 2", "(1,2) | (., error(\"x\"))", "label $f | 1, break $f, 2", "repeat(1)", "range(5)", "1, (2 | error), 3", ".[]? | select(. != null)", "try error(\"in\") catch 9", "(.a?, .b?) // 7", "recurse(if type == \"number\" and . < 3 then . + 1 else empty end)"}
		var ps []string
		for _, b := range bodies {
			if b != "repeat(1)" {
				ps = append(ps, fmt.Sprintf("[limit(5; %s)]?", b), fmt.Sprintf("try [(%s)] catch \"E\"", b), fmt.Sprintf("[.[]? | first(%s)]?", b))
			}
			ps = append(ps,
				fmt.Sprintf("[limit(2; %s)]", b), fmt.Sprintf("[limit(1; %s)]", b), fmt.Sprintf("[limit(0; %s)]", b), fmt.Sprintf("[first(%s)]", b),
				fmt.Sprintf("try first(%s) catch \"E\"", b), fmt.Sprintf("isempty(%s)", b), fmt.Sprintf("try nth(1; %s) catch \"E\"", b),
				fmt.Sprintf("[limit(2; limit(3; %s))]", b), fmt.Sprintf("first(limit(2; %s), 8)", b), fmt.Sprintf("[limit(3; (%s), 100)]", b),
				fmt.Sprintf("(limit(2; %s)) as $x | [$x]", b), fmt.Sprintf("[limit(2; %s) | ., 0]", b), fmt.Sprintf("try (limit(2; %s) | error) catch .", b))
		}
		ps = append(ps,
			"[limit(-1; 1, 2)]", "[limit(1, 2; 1, 2, 3)]", "[limit(.; 1, 2, 3)]?", "[limit(1.5; 1, 2, 3)]", "try limit(\"a\"; 1) catch \"E\"", "[limit(error; 1)]?", "[limit(2; 1) , limit(2; 2)]",
			"until(. > 3; . + 1)?", "try until(error(\"c\"); .) catch .", "try until(false; error(\"u\")) catch .", "[until(. >= 2; . + 1, . + 2)]?", "until(true; error)", "[.[]? | numbers | until(. > 2; . * 2 + 1)]",
			"try until(.a; .a = true) catch \"E\"", "[limit(3; until(false; empty))]", "first(until(. > 2; . + 1)?)", "[first(range(10; 0; -3))]", "nth(0; empty)", "try nth(-1; 1) catch .", "[nth(0, 2; 1, 2, 3)]", "nth(5; 1, 2)",
			"[first, last]?", "first(first(first(.[]?)))", "[limit(2; first(.[]?), last(.[]?))]", "last(1, 2, error(\"e\"))?", "try last(1, error(\"e\")) catch .", "[last(empty)]", "isempty(1, error(\"e\"))", "isempty(error(\"e\"), 1)?", "[isempty(empty), isempty(null)]",
			"all(.[]?; . != null)", "any(.[]?; error)?", "any(true, error; .)", "all(false, error; .)", "[any(empty; .), all(empty; .)]", "any(.[]? | numbers; . > 2)",
			"[limit(3; def f: ., (. + 1 | f); 0 | f)]", "[limit(3; repeat(. * 2; . + 1))]?", "first(repeat(error(\"r\")))?", "[limit(4; repeat(1, 2))]", "label $o | limit(3; 1, 2, break $o, 3)", "[label $o | limit(2; 1, break $o), 5]",
			"[limit(2; .[]?) as $x | limit(1; $x, $x)]", "reduce limit(3; repeat(1)) as $x (0; . + $x)", "[foreach limit(3; .[]?) as $x (0; . + 1; [$x, .])]", "[limit(2; path(.[]?))]", "[limit(1; paths)]", "first(.[]? |= 5)?", "limit(1; .a = (1, 2))?")
		fs = append(fs, fam{"limit", ps, []any{[]any{1, nil, 3, "x", 5}, map[string]any{"a": false, "b": 2}, 0, 2, nil, []any{}}, nil})
	}

	// 3. input / inputs: inside try, limit, first, reduce; the end of the stream; errors raised on inputs
	{
		ps := []string{
			"input", "[inputs]", "[., input]", "[input, input]", "try input catch \"none\"", "[inputs | . + 1]?", "try (input, input, input, input, input) catch \"end\"", "[try input catch \"end\", try input catch \"end2\"]",
			"first(inputs)", "[limit(1; inputs)], [inputs]", "[limit(2; inputs)] as $a | [$a, input]?", "first(inputs) as $x | [$x, input]", "[first(inputs), first(inputs)]", "isempty(inputs), [inputs]", "[inputs] | length, (try input catch \"drained\")",
			"reduce inputs as $x (0; . + 1)", "reduce inputs as $x (.; [., $x])", "[foreach inputs as $x (0; . + 1; [., $x])]", "foreach inputs as $x (0; . + 1; select(. == 2)) , input?", "[inputs | select(type == \"number\")]", "[inputs | strings]",
			"[try error(input) catch .]", "try (inputs | error) catch ., input", "[try (inputs | error) catch ., (try input catch \"e\")]", "(input | error)?", "[.[]? | input]?", "[.[]? as $x | try input catch $x]", "input as $x | input as $y | [$x, $y, .]",
			"label $l | inputs | ., break $l", "[label $l | inputs | if . == \"x\" then break $l else . end], [inputs]", "input | input", "[input | inputs]", "def f: input; [f, f]", "def f(g): [g, g]; f(input)", "def f($a): [$a, $a]; f(input)",
			"[inputs] | add?", "[., inputs] | length", "input // \"alt\"", "(input | not) // input", "[(input, input) // 9]", "if input then input else \"no\" end", "[input, input] | sort?", "input + input", "[input] + [inputs]", "{a: input, b: input}", "{(input | tostring): input}",
			"path(input)?", "try path(input) catch \"P\"", ".[input]?", "try .[input] catch \"I\"", ".a = input", "[.[]? |= input]?", "[limit(0; inputs)], input", "[range(2) | input]", "[range(5) | try input catch \"end\"]", "\"\\(input)-\\(input)\"", "input | [., input]",
			"try (input | input | input | input | input) catch .", "[inputs] as $all | [inputs] as $none | [$all, $none]", "first(empty, inputs)", "[first(inputs, 99)]", "input_line_number?",
		}
		fs = append(fs, fam{"inputs", ps, []any{nil, []any{0, 1}, map[string]any{"a": 1}}, []any{1, "x", []any{2}, nil}})
		// the same programs on an empty and on a one-element stream (only in the thorough tier: see streamC01)
		fs = append(fs, fam{"inputs0", ps, []any{nil, []any{0, 1}}, []any{}})
		fs = append(fs, fam{"inputs1", ps, []any{nil, map[string]any{"a": 1}}, []any{false}})
	}

	// 4. getpath / paths(f) / pick / leaf_paths / to_entries families, also under path(..) and updates
	{
		ps := []string{
			"getpath([\"a\",\"b\"])", "getpath([\"a\",0])?", "try getpath([\"a\",\"b\",\"c\"]) catch \"G\"", "getpath([0,1])?", "[getpath([\"a\"], [\"b\"], [\"zz\"])]?", "getpath([])", "getpath([\"a\"]) = 3", "getpath([\"a\",\"b\"]) |= 5?", "try (getpath([\"a\",\"b\"]) |= 5) catch \"G\"",
			"path(getpath([\"a\",\"b\"]))?", "[paths]", "[paths(type == \"number\")]", "[paths(..)]?", "[paths(numbers)]", "[paths(error)]?", "[paths | length]", "[paths(arrays)]", "[leaf_paths]", "[paths] == [path(..)] ", "[path(..)] | length",
			"[getpath(paths)]", "[paths as $p | getpath($p)] == [..] ", "[paths(type == \"array\") | tostring]?", "reduce paths(numbers) as $p (.; setpath($p; getpath($p) + 1))", "[paths] | map(length) | add?",
			"pick(.a)", "pick(.a.b)?", "pick(.[1])?", "pick(.[0], .[2])?", "try pick(.[-1]) catch \"P\"", "pick(.a, .c)?", "pick(first(.a, .b))?", "pick(.a[1])?", "pick(.a.b.c)?", "pick(..)?", "pick(empty)", "pick(.a | select(. != null))?", "pick(.x.y.z)?", "try pick(error) catch \"P\"", "pick(.[2:])?", "pick(.[]?)?",
			"to_entries?", "with_entries(.value |= tostring)?", "with_entries(select(.value != null))?", "from_entries?", "to_entries | from_entries?", "[to_entries[]? | .key]", "with_entries(.key |= ascii_upcase)?", "with_entries(empty)?", "try with_entries(error) catch \"W\"",
			"delpaths([[\"a\"]])?", "delpaths([[\"a\",\"b\"],[\"c\"]])?", "delpaths([paths(numbers)])?", "delpaths([])", "try delpaths([[0]]) catch \"D\"", "delpaths([[]])", "setpath([\"a\",\"b\"]; 1)?", "setpath([]; 1)", "try setpath([\"a\",0]; 1) catch \"S\"", "setpath([0]; 1)?", "setpath([\"a\"]; getpath([\"c\"]))?",
			"del(.a, .c)?", "del(.[0, 2])?", "del(.. | numbers)?", "del(paths)?", "del(getpath([\"a\"]))?", "del(.[] | select(. == null))?", "del(.a[0])?", "del(.[1:])?", "del(.[-1])?", "del(empty)", "del(.a?)", "del(.a.b?)",
			"[paths(..)] | length?", "path(.. | select(type == \"number\"))?", "[path(.a[]?)]", "[path(.a?, .b?)]", "path(.a // .b)?", "[path(.[]? // 0)]?", "path(first(.a, .b))", "[path(limit(1; .[]?))]", "path(if .a then .a else .b end)?", "[path(.[]? | select(. != null))]",
			"[path(getpath([\"a\"]) | .[]?)]", "path(.a | getpath([\"b\"]))?", "[paths] - [leaf_paths]", "[.. | scalars]", "[.. | numbers] | add?", "[..] | length", "tostream?", "[tostream]", "fromstream(tostream)", "[. as $d | paths | . as $p | $d | getpath($p)] | length",
			"any(paths; length > 1)", "[paths(type == \"object\")] | length", "getpath(path(.a)) == .a", "[getpath([\"a\"]?, [\"b\"]?)]?", "try getpath(\"a\") catch \"G\"", "try getpath([{}]) catch \"G\"", "getpath([null])?", "try getpath([[0]]) catch \"G\"", "getpath([{\"start\":1}])?",
		}
		fs = append(fs, fam{"paths", ps, []any{
			map[string]any{"a": map[string]any{"b": 1}, "c": []any{2, nil}}, []any{1, []any{2, 3}, map[string]any{"a": nil}}, map[string]any{"a": []any{1, 2}, "b": "s"},
			[]any{[]any{"a", 1}, []any{"b", 2}}, map[string]any{}, nil, 5, "str", []any{map[string]any{"key": "k", "value": 1}, map[string]any{"name": "n", "value": nil}},
		}, nil})
	}

	// 5. error VALUES of every type through try / catch / ? / // / ?// / label, and re-raising inside handlers
	//    ($__loc__ is not supported by this gojq version: two probes only, they must keep failing to compile)
	{
		vals := []string{"null", "\"m\"", "1", "{a: 1}", "[1, 2]", "true", ".", "(1, 2)", "empty", "error(\"inner\")"}
		var ps []string
		for _, v := range vals {
			ps = append(ps,
				fmt.Sprintf("try error(%s) catch .", v), fmt.Sprintf("[error(%s)?]", v), fmt.Sprintf("error(%s) // \"alt\"", v), fmt.Sprintf("[.[]? | try error(%s) catch [\"c\", .]]", v),
				fmt.Sprintf("try (1, error(%s), 2) catch \"c\"", v), fmt.Sprintf("[(1, error(%s), 2)?]", v), fmt.Sprintf("try (try error(%s) catch error) catch [\"outer\", .]", v),
				fmt.Sprintf("try error(%s) catch (., .)", v), fmt.Sprintf("first(error(%s))?", v), fmt.Sprintf("try (error(%s) | 5) catch type", v), fmt.Sprintf("(%s | error)?", v),
				fmt.Sprintf("label $l | try error(%s) catch (., break $l, 7)", v), fmt.Sprintf("try (. as [$a] ?// $a | error(%s)) catch [\"p\", .]", v), fmt.Sprintf("[limit(2; repeat(try error(%s) catch .))]", v))
		}
		ps = append(ps,
			"$__loc__", "[$__loc__.line]",
			// a break raised INSIDE a try body / under ? / under // is not an error: it passes the handler
			"label $l | try (1, break $l, 2) catch \"caught-break\"", "[label $l | .[]? | try (if . == null then break $l else . end) catch \"cb\"]", "label $l | (try (break $l) catch .), 5", "[label $l | 1, (break $l)?, 2]",
			"label $l | try (try break $l catch 1) catch 2", "label $l | (1, break $l) // 3", "label $a | label $b | try (break $a) catch 1", "[label $a | (label $b | try (1, break $a, 2) catch 8), 9]", "[label $l | try (1, break $l) catch 9 | ., 10]",
			"[.[]? | label $l | try (., break $l, error(\"after\")) catch \"c\"]", "label $l | try error(\"x\") catch break $l", "[label $l | (1, 2) | try (if . == 2 then break $l else error(\"e\") end) catch .]", "first(try (1, error(\"x\")) catch .)", "[limit(1; try (1, 2, error(\"x\")) catch .)]",
			"label $l | (.a? // break $l)", "[label $l | (break $l) as $x | 1]", "[label $l | reduce (1, break $l) as $x (0; . + 1)]", "label $l | [1, break $l]", "label $l | {a: (1, break $l)}", "[label $l | path(.a, break $l, .b)]", "[label $l | (.a, break $l) = 1]?",
			"try error catch .", "error?", "[.[]? | error?]", "try error(null) catch \"n\"", "[try error(null) catch .]", "error(null) // 1", "[error(null)?, 2]", "try (error(null), 2) catch 3", "[(error(null), 2)?]",
			"try error(\"\\(1, 2)\") catch .", "[try error(\"a\", \"b\") catch .]", "try error(error(\"in\")) catch .", "try error catch error?", "[try error(\"x\") catch error(\"y\")]?", "try (try error(\"x\") catch error(\"y\")) catch .",
			"try (try error(\"x\") catch empty) catch \"never\"", "[try error(\"x\") catch empty]", "try error(\"x\") catch (try error(\"y\") catch [., \"z\"])", "(try error(\"x\") catch .) | ascii_upcase", "try (error(\"x\") | error(\"y\")) catch .",
			"try ((1, 2) | if . == 2 then error(\"two\") else . end) catch .", "[.[]? | try (if . == null then error(\"null!\") else . end) catch .]", ".[]? as $x | try error($x) catch .", "[..?]", "[.. | numbers?]", "[.[]? | .a?]", "[.[]? | .[0]?]", "[.[]? | keys?]",
			".a? // \"d\"", "(.a?.b?) // \"d\"", "[.[]? | (.a // \"d\")?]", "try (.a.b.c) catch \"nav\"", "[.[]? | try .a catch \"nav\"]", "try (.[] | .a) catch \"nav\"", "(.a | error)? // \"e\"", "[(.[]? | error)?]", "try error({a: error(\"deep\")}) catch .",
			"try ([error(\"in-array\")]) catch .", "try ({a: error(\"in-object\")}) catch .", "try ({(error(\"in-key\")): 1}) catch .", "try (1 + error(\"in-operand\")) catch .", "try (error(\"l\") + error(\"r\")) catch .", "try (error(\"l\") and error(\"r\")) catch .", "try (false and error(\"r\")) catch .", "try (true or error(\"r\")) catch .",
			"try (if error(\"c\") then 1 else 2 end) catch .", "try (error(\"s\") as $x | 1) catch .", "try (reduce error(\"s\") as $x (0; 1)) catch .", "try ([.[]? | error(\"in-map\")] | length) catch .", "try (\"\\(error(\"in-interp\"))\") catch .", "try path(error(\"in-path\")) catch .", "try (.a = error(\"in-rhs\")) catch .", "try (error(\"in-lhs\") = 1) catch .",
			"try (.[error(\"in-index\")]) catch .", "try (.[error(\"lo\"):error(\"hi\")]) catch .", "try limit(error(\"in-limit-n\"); 1) catch .", "try first(error(\"in-first\")) catch .", "try (label $l | error(\"in-label\")) catch .", "try (def f: error(\"in-def\"); f) catch .", "try (def f(g): g; f(error(\"in-closure\"))) catch .", "try (def f($a): 1; f(error(\"in-valparam\"))) catch .",
			"[.[]? | try (tostring | error) catch .]", "try (tojson | error) catch fromjson?", "try error(\"\\(.)\") catch .", "try (error | error) catch .", "try error(try error(\"a\") catch .) catch .", "(error(\"x\")?) , 1", "[(1, 2) | (error(\"x\")?, .)]", "try ((error(\"x\")?), error(\"y\")) catch .")
		fs = append(fs, fam{"errval", ps, []any{nil, []any{1, nil, "s", []any{2}}, map[string]any{"a": map[string]any{"b": 1}}, "str", 3}, nil})
	}

	// 6. string natives and other value-producing natives inside path expressions and updates
	{
		nat := []string{"ltrimstr(\"a\")", "rtrimstr(\"a\")", "ascii_downcase", "ascii_upcase", "tostring", "tojson", "tonumber", "length", "not", "keys", "sort", "reverse", "add", "explode", "ltrimstr(\"zzz\")", "select(startswith(\"a\"))", "select(test(\"a\"))", "strings", "ascii", "trim", "ltrimstr(1)", "splits(\"a\")", "first", "last", "min", "floor", "abs", "tostring | .", "map(.)", "to_entries", "@text", "@json", "utf8bytelength", "recurse", "env", "input", "empty", "error", "getpath([\"a\"])", "paths", "type", "values", "nulls", "arrays | .[0]", "objects | .a", "if . then . else . end", ". as $x | $x", "[.] | .[0]", "{a: .} | .a", "first(., .)", ". // 1", "(., .)"}
		var ps []string
		for i, n := range nat {
			// bare: the error CLASS is the observable (no handler: the message text is not needed)
			ps = append(ps, fmt.Sprintf("path(%s)", n), fmt.Sprintf("[path(.a | %s)]", n), fmt.Sprintf("(.a | %s) = 1", n))
			switch i % 4 {
			case 0:
				ps = append(ps, fmt.Sprintf("(.[]? | %s) |= 2", n), fmt.Sprintf(".a |= (%s)?", n), fmt.Sprintf("[.[]? | path(%s)?]", n))
			case 1:
				ps = append(ps, fmt.Sprintf("[paths(%s)]", n), fmt.Sprintf("del(.a | %s)", n), fmt.Sprintf("[(.a, .b) | try path(%s) catch \"P\"]", n))
			case 2:
				ps = append(ps, fmt.Sprintf("[path(.. | %s)]", n), fmt.Sprintf(".a |= (%s)", n), fmt.Sprintf("[path(.a | %s)?, path(.b | %s)?]", n, n))
			default:
				ps = append(ps, fmt.Sprintf("path(first(.a, .b) | %s)", n), fmt.Sprintf("to_entries(.a | %s)", n), fmt.Sprintf("[(.a | %s) = 1]?", n))
			}
		}
		fs = append(fs, fam{"natpath", ps, []any{
			map[string]any{"a": "abc", "b": "xa"}, map[string]any{"a": []any{3, 1}, "b": nil}, map[string]any{"a": map[string]any{"a": 1}}, map[string]any{"a": "12"}, []any{"ab", "b"}, "aXa", nil,
		}, []any{"i"}})
	}

	// 7. reduce / foreach: empty, several outputs and errors in init / update / extract position; patterns; nesting
	{
		srcs := []string{".[]?", "(1, 2, 3)", "empty", "(1, error(\"s\"), 2)", "range(4)", ".[]? | select(. != null)", "(.[]?, 10)", "limit(2; .[]?)"}
		inits := []string{"0", "(0, 10)", "empty", ".", "[]", "null", "error(\"i\")"}
		upds := []string{". + $x", "empty", "., 1", "(. , 10) + $x", "if $x == 2 then empty else . + $x end", "if $x == 2 then error(\"u\") else . + $x end", "[., $x]", "$x", ". + $x | ., . * 2", "select($x != 2) + $x", ".[$x]? // .", "first(. + $x, error(\"never\"))", "try error($x) catch . + 1", "label $b | (. + $x, break $b, 99)"}
		var ps []string
		for i, s := range srcs {
			for j, u := range upds {
				if (i*5+j)%3 != 0 {
					continue
				}
				init := inits[(i+j)%len(inits)]
				ps = append(ps,
					fmt.Sprintf("try [reduce (%s) as $x (%s; %s)] catch \"R\"", s, init, u),
					fmt.Sprintf("try [foreach (%s) as $x (%s; %s)] catch \"F\"", s, init, u),
					fmt.Sprintf("try [foreach (%s) as $x (%s; %s; [$x, .])] catch \"F\"", s, init, u))
			}
		}
		ps = append(ps,
			"[foreach .[]? as $x (0; . + 1; ., -.)]", "[foreach .[]? as $x (0; . + 1; empty)]", "[foreach .[]? as $x (0; . + 1; select(. > 1))]", "[foreach .[]? as $x (0; . + 1; error)]?", "try [foreach (1,2) as $x (0; . + 1; if . == 2 then error(\"x\") else . end)] catch .",
			"[limit(3; foreach range(10) as $i (0; . + $i))]", "first(foreach range(10) as $i (0; . + $i; select(. > 5)))", "label $out | foreach .[]? as $x (0; . + 1; if . > 1 then ., break $out else . end)", "[label $out | foreach (1,2,3) as $x (0; . + $x; if . > 2 then break $out else . end)]",
			"reduce .[]? as [$a, $b] (0; . + ($a|numbers) + ($b|numbers))?", "reduce .[]? as {a: $a} (0; . + ($a // 0))?", "[foreach .[]? as [$a] ?// $a (0; . + 1; [$a, .])]?", "reduce .[]? as [$a] ?// $a ([]; . + [$a])?", "[foreach .[]? as {a: $a} ?// [$a] ?// $a (null; $a)]?",
			"reduce .[]? as $x (0; reduce (1, 2) as $y (.; . + $y))", "[foreach (1, 2) as $x (0; reduce (1, 2) as $y (.; . + $x * $y); [$x, .])]", "reduce (reduce .[]? as $x (0; . + 1)) as $n ([]; . + [$n])", "[foreach (foreach (1,2,3) as $x (0; . + $x)) as $y (0; . + $y)]", "reduce .[]? as $x (0; . + 1) as $n | [$n, $n]",
			"reduce .[]? as $x (.; .)", "reduce .[]? as $x (.; del(.[0]))?", "reduce range(3) as $i (.; .[$i]? = $i)?", "reduce .[]? as $x ({}; .[$x|tostring] += 1)", "reduce .[]? as $x (null; [$x, .])", "[reduce (., .) as $x (0; . + 1)]", "[.[]? | reduce (1, 2) as $x (.; [., $x])]",
			"reduce empty as $x (3; . + 1)", "reduce (1, 2) as $x (empty; . + 1)", "[reduce (1, 2) as $x ((1, 2); . + $x)]", "[foreach (1, 2) as $x ((10, 20); . + $x)]", "[foreach (1, 2) as $x ((10, 20); . + $x; [$x, .])]", "reduce (1, 2) as $x (0; empty)", "[foreach (1, 2, 3) as $x (0; empty; .)]", "reduce (1, 2, 3) as $x (0; if $x == 2 then empty else . + $x end)",
			"reduce .[]? as $x (0; . + $x)?", "try reduce .[]? as $x (0; . + $x) catch \"R\"", "[foreach .[]? as $x (\"\"; . + ($x|tostring))]", "reduce (.[]? | numbers) as $x (0; . + $x) as $s | $s / 2", "path(reduce .[]? as $x (.; .))?", "[paths(foreach (1,2) as $x (0; . + 1))]?",
			"def sum(f): reduce f as $x (0; . + $x); sum(.[]? | numbers)", "def scan(f): foreach f as $x (0; . + $x); [scan(1, 2, 3)]", "def r(f): reduce f as $x (0; . + 1); [r(empty), r(1), r(1, 2)]", "[foreach .[]? as $x (0; . + 1; $x) ] == [.[]?]", "[foreach range(3) as $i (null; $i; select(. > 0))]",
			"reduce range(2) as $i (0; . + (reduce range(2) as $j (0; . + $i + $j)))", "[foreach range(3) as $i ([]; . + [$i]; length)]", "reduce .[]? as $x (0; . + 1) | . * 2", "[foreach .[]? as $x (0; . + 1)] | add?", "reduce (.[]? | tostring) as $x (\"\"; . + $x)")
		fs = append(fs, fam{"fold", ps, []any{[]any{1, 2, 3}, []any{[]any{1, 2}, []any{3, nil}}, []any{map[string]any{"a": 1}, []any{2}, 3}, []any{}, nil, []any{nil, 2, "s"}}, nil})
	}

	// 8. recursion depth / long generators near the model's fuel and work bounds (the model must decline, never
	//    answer wrongly; the implementation must not crash)
	{
		var ps []string
		for _, n := range []int{5, 50, 200, 400, 700, 1000, 1300} {
			ps = append(ps,
				fmt.Sprintf("def f: if . >= %d then . else . + 1 | f end; 0 | f", n),
				fmt.Sprintf("def f: if . >= %d then 0 else (. + 1 | f) + 1 end; 0 | f", n),
				fmt.Sprintf("def f(n): if n == 0 then 0 else 1 + f(n - 1) end; f(%d)", n/10),
				fmt.Sprintf("def f($n): if $n == 0 then [] else [f($n - 1)] end; f(%d) | tojson | length", n/2),
				fmt.Sprintf("[range(%d)] | length", n), fmt.Sprintf("reduce range(%d) as $i (0; . + $i)", n), fmt.Sprintf("last(range(%d))", n),
				fmt.Sprintf("[limit(%d; repeat(1))] | length", n), fmt.Sprintf("[recurse(if . < %d then . + 1 else empty end)] | length", n/2),
				fmt.Sprintf("0 | until(. >= %d; . + 1)", n), fmt.Sprintf("[foreach range(%d) as $i (0; . + 1)] | last", n),
				fmt.Sprintf("reduce range(%d) as $i ([]; [.]) | tojson | length", n/4), fmt.Sprintf("first(range(%d) | select(. == %d))", n+1, n),
				fmt.Sprintf("[range(%d)] | map(. * 2) | add", n/2), fmt.Sprintf("[range(%d)] | sort_by(-.) | .[0]", n/2), fmt.Sprintf("label $l | range(%d) | select(. == %d) | ., break $l", 2*n, n/2),
				fmt.Sprintf("def f: def g: if . %% 2 == 0 then . + 1 | f else . + 1 | g end; if . >= %d then . else g end; 0 | f", n/2),
				fmt.Sprintf("try (def f: if . >= %d then error(\"deep\") else . + 1 | f end; 0 | f) catch .", n/2),
				fmt.Sprintf("[range(%d) | tostring] | join(\",\") | length", n/4))
		}
		fs = append(fs, fam{"deep", ps, []any{nil}, nil})
	}
	fs = append(fs, familyBlocks4()...)
	return fs
}

// fourth wave: object construction, slices, recursive descent, serialisation, ordering natives
func familyBlocks4() []fam {
	var fs []fam
	mixed := []any{3, "a", nil, []any{1}, map[string]any{"a": 1}, true, false, 1.5, -1, "B", []any{0}, map[string]any{}, 1, 1.0}
	recs := []any{map[string]any{"a": 2, "b": 1}, map[string]any{"a": 1, "b": 2}, map[string]any{"a": 2, "b": 0}, map[string]any{"a": nil}, map[string]any{}, map[string]any{"a": []any{1}, "b": "x"}}
	nested := map[string]any{"a": []any{1, map[string]any{"b": nil, "c": []any{}}}, "d": "s", "e": map[string]any{"f": 2.5, "g": map[string]any{}}}

	// 9. object construction: generator keys and values (enumeration order), duplicate keys, shorthand forms,
	//    non-string keys, errors and emptiness in key / value position
	{
		ps := []string{
			"{a: 1}", "{a: (1, 2)}", "{a: (1, 2), b: (3, 4)}", "{(\"a\", \"b\"): 1}", "{(\"a\", \"b\"): (1, 2)}", "{a: (1, 2), (\"b\", \"c\"): (3, 4)}", "[{a: (1, 2), b: (3, 4), c: (5, 6)}] | length",
			"{a: 1, a: 2}", "{a: 1, \"a\": 2, (\"a\"): 3}", "{a: (1, 2), a: (3, 4)}", "{(\"a\", \"a\"): (1, 2)}", "{a: 1, b: 2, a: 3} | keys", "{b: 1, a: 2} | keys_unsorted", "{b: 1, a: 2} | tojson", "{b: 1, a: 2} | to_entries",
			"{a: empty}", "{(empty): 1}", "{a: 1, b: empty, c: 3}", "[{a: (1, empty, 2)}]", "{a: error(\"v\")}?", "try {a: error(\"v\")} catch .", "try {(error(\"k\")): 1} catch .", "try {a: (1, error(\"late\"))} catch .", "[{a: (1, error(\"late\"))}?]",
			"try {(1): 2} catch \"K\"", "try {(null): 2} catch \"K\"", "try {([]): 2} catch \"K\"", "try {(.): 2} catch \"K\"", "{(.[]? | strings): 1}", "[{(.[]? | tostring): .}] | length", "try {(.[]?): 1} catch \"K\"", "{(tostring): .}",
			"{a}", "{a, b}", "{a, b: 2}", "{\"a\"}?", "{$x}?", "1 as $x | {$x}", "1 as $x | 2 as $y | {$x, $y, z: ($x + $y)}", "1 as $x | {$x, x: 2}", "1 as $x | {x: 2, $x}", ". as $v | {$v}", "{\"a b\": 1}", "{\"a\\(1 + 1)\": 1}", "{\"\\(1, 2)\": (3, 4)}",
			"{@base64 \"k\": 1}", "{@json \"\\(.)\": 1}?", "{if: 1, then: 2, reduce: 3, and: 4, or: 5, not: 6, def: 7, as: 8}", "{if: 1}.if", "{and: 1} | .and", "{a: 1}.a", "{a: {b: {c: 1}}}.a.b.c", "{a: [1, 2]}.a[1]", "{a: 1} | .b", "{a: (., .)}", "{a: .a?, b: .b?}",
			"{a: 1} + {a: 2}", "{a: 1} + {b: 2} + {a: 3}", "{a: {b: 1}} * {a: {c: 2}}", "{a: {b: 1}} * {a: 2}", "{a: 1} * {a: {b: 2}}", "try ({a: 1} - {a: 1}) catch \"M\"", "{a: 1} == {\"a\": 1}", "{a: 1, b: 2} == {b: 2, a: 1}", "{a: 1} < {a: 2}", "{a: 2} < {b: 1}", "{} < {a: null}", "[{b: 1}, {a: 2}, {a: 1, b: 0}] | sort",
			"{a: 1} | has(\"a\"), has(\"b\")", "{a: 1} | length", "{} | length", "{a: null} | .a // \"d\"", "{a: 1} | to_entries | from_entries", "{a: 1, b: 2} | with_entries(.value += 1)", "{a: 1, b: 2} | map_values(. + 1)", "{a: 1, b: 2} | map_values(empty)", "{a: 1, b: 2} | map(. + 1)", "{a: 1, b: 2} | [.[]]", "{a: 1, b: 2} | add", "{a: 1, b: null} | del(.b)", "{a: 1} | .b = 2 | keys",
			"{a: 1} | .[\"a\"]", "{a: 1} | .[(\"a\", \"b\")]", "try ({a: 1} | .[0]) catch \"I\"", "{a: [1, 2, 3]} | .a[1:]", "{\"a\": 1, \"b\": 2} | [.a, .b]", "[{a: 1}, {a: 2}] | map(.a)", "[{a: 1}, {a: 2}] | .[].a", "[{a: 1}, {b: 2}] | map(has(\"a\"))", "[{a: 1}, {b: 2}] | add", "{} | .a.b.c", "{} | .a[0]?", "null | {a: .}",
			"{(.a?, .b? | strings): 1}", "{a: .} | .a == .", ". as [$a, $b] | {$a, $b}?", ". as {a: $x} | {x: $x}?", "{a: 1} as {a: $x, b: $y} | [$x, $y]", "[{a: 1, b: 2}, {a: 3}] | .[] as {a: $x, b: $y} | {$x, $y}", "{a: (.[]? // 7)}", "{a: first(.[]?)}", "[limit(3; {a: (1, 2), b: (3, 4)})]", "first({a: (1, 2)})", "{a: 1} | path(.a)", "[{a: 1, b: {c: 2}} | paths]", "{a: [{b: 1}]} | [leaf_paths]",
		}
		fs = append(fs, fam{"object", ps, []any{map[string]any{"a": "k", "b": 2}, []any{"x", "y", 3}, "s", nil, []any{1, 2}}, nil})
	}

	// 10. slices and indices: generators and odd values in the bounds, strings (runes), null, negative and huge
	//     bounds, fractional bounds, slices as paths
	{
		bounds := []string{"", "0", "1", "2", "-1", "-2", "10", "-10", "null", "1.5", "2.7", "(0, 1)", "(1, null)", "\"a\"", "[]", "{}", "true", "1e10", "-1e10", "nan", "infinite", "length", "(length - 1)"}
		var ps []string
		for i, lo := range bounds {
			for j, hi := range bounds {
				if lo == "" && hi == "" {
					continue
				}
				if (i*7+j*3)%4 != 0 && !(i < 6 && j < 6) {
					continue
				}
				ps = append(ps, fmt.Sprintf("try .[%s:%s] catch \"S\"", lo, hi))
				if (i+j)%5 == 0 {
					ps = append(ps, fmt.Sprintf("[.[%s:%s]?]", lo, hi), fmt.Sprintf("try path(.[%s:%s]) catch \"S\"", lo, hi), fmt.Sprintf("try (.[%s:%s] | length) catch \"S\"", lo, hi))
				}
			}
		}
		for _, b := range bounds[1:] {
			ps = append(ps, fmt.Sprintf("try .[%s] catch \"I\"", b), fmt.Sprintf("[.[%s]?]", b), fmt.Sprintf("try path(.[%s]) catch \"I\"", b), fmt.Sprintf("try (.[%s] = 9) catch \"I\"", b), fmt.Sprintf("try del(.[%s]) catch \"I\"", b))
		}
		ps = append(ps,
			".[1:][0]?", ".[1:][1:]?", ".[:-1][:-1]?", ".[-1:]?", ".[:1] + .[1:]?", "[.[1:]?, .[:1]?]", ".[1:] | length?", "[.[]?][1:]", "[.[]?] | .[1:3]", ".[2:1]?", ".[0:0]?", ".[:]?", ".[0:length]?", ".[length:]?", ".[(0, 1):(2, 3)]?", "[.[(0, 1):(2, 3)]?] | length",
			".[1:] = [9]?", ".[:1] |= map(. + 1)?", "del(.[1:])?", "del(.[:1], .[2:])?", "path(.[1:2])?", "[paths]?", "getpath([{\"start\": 1, \"end\": 2}])?", "try getpath([{\"start\": 1}]) catch \"G\"", "try setpath([{\"start\": 0, \"end\": 1}]; [7]) catch \"G\"", "to_entries?", ".[1:] as [$a] | $a?",
			"\"abcdef\" | .[1:3]", "\"abcdef\" | .[-2:]", "\"héllo 世界\" | .[1:4]", "\"héllo 世界\" | .[-2:]", "\"héllo 世界\" | [.[:1], .[1:2], .[6:]]", "\"abc\" | .[1:1]", "\"abc\" | .[5:]", "\"abc\" | .[:-5]", "try (\"abc\" | .[0]) catch \"I\"", "\"abc\" | .[1:] | .[1:]", "\"\" | .[0:1]", "\"abc\" | .[null:null]", "\"abc\" | .[1.2:2.8]",
			"null | .[1:2]", "null | .[0]", "null | .[\"a\"]", "try (1 | .[0:1]) catch \"S\"", "try ({} | .[0:1]) catch \"S\"", "try (true | .[0]) catch \"I\"", "[.[]? | try .[0] catch \"I\"]", "[.[]? | try .[0:1] catch \"S\"]", "[.[]? | .[0]?]", ".[0][0]?", ".[0]?[0]?", ".[-1][-1]?", "try .[0][\"a\"] catch \"I\"", ".[\"a\"]?[0]?",
			"first(.[]?), last(.[]?)", "[.[length - 1]?, .[-1]?]", "[limit(2; .[]?)] == .[:2]", "[.[]?] == .", ".[1:] == [.[]?][1:]", "indices(1)?", "index(\"b\")?", "[.[]? | numbers] | .[1:]", "[range(10)] | .[2:8] | .[1:-1]", "[range(10)] | .[-3:] , .[:3], .[3:-3]", "[range(5)] | .[1:] = [\"x\"]", "[range(5)] | .[1:3] |= reverse", "[range(5)] | del(.[1:3])", "[range(5)] | .[2:] |= []", "[range(5)] | [.[1:3], .[3:1]]")
		fs = append(fs, fam{"slice", ps, []any{[]any{1, 2, 3, 4}, "héllo", []any{[]any{1, 2}, []any{3}}, nil, []any{}, map[string]any{"a": []any{5}}}, nil})
	}

	// 11. recursive descent: `..`, recurse/1/2, with updates, limits, paths, errors
	{
		ps := []string{
			"[..]", "[..] | length", "[.. | numbers]", "[.. | scalars]", "[.. | arrays | length]", "[.. | objects | keys]", "[.. | select(type == \"null\")]", "[..?]", "[.. | .a?]", "[.. | .[0]?]", "first(..)", "last(..)", "[limit(3; ..)]", "first(.. | numbers)?", "[.. | strings | length]", "[..] == [recurse]", "[recurse(.[]?)] == [..]",
			"[recurse(.a?)]", "[recurse(.[0]?)]", "[recurse(.[]?; . != null)]", "[recurse(.a?; type == \"object\")]", "[recurse(if type == \"number\" and . < 3 then . + 1 else empty end)]", "[recurse(if type == \"array\" then .[] else empty end)]", "[recurse(empty)]", "[recurse(error)]?", "try [recurse(error(\"r\"))] catch .", "[limit(5; recurse(.))]", "[limit(4; recurse([.]))] | length",
			"[recurse(.[]?) | numbers] | add?", "[recurse | type]", "[path(..)]", "[path(..)] | length", "[paths] == [path(..)][1:]", "[path(.. | numbers)]", "[path(recurse(.a?))]", "[path(recurse(.[]?; . != null))]", "[getpath(path(..))] == [..]", "path(first(.. | numbers))?", "[path(limit(2; ..))]",
			".. |= .", "[.. |= .] | length", "(.. | numbers) |= . + 1", "(.. | strings) |= ascii_upcase", "(.. | nulls) = 0", "[(.. | arrays) |= length]?", "(.. | select(type == \"boolean\")) |= not", "del(.. | nulls)?", "del(.. | numbers)?", "del(.. | select(. == []))?", "[.. | numbers] as $n | $n | add?", "reduce (.. | numbers) as $x (0; . + $x)", "[foreach (.. | scalars) as $x (0; . + 1)] | last?",
			"to_entries? | ..", "[.. | tojson] | length", "[.. | tostring] | length", "any(..; . == null)", "all(..; . != \"zz\")", "[..] | map(type) | unique", "[..] | group_by(type) | map(length)", "[.. | select(type == \"object\") | length]", "[.. | select(type == \"array\" and length > 1)]", "walk(if type == \"number\" then . + 1 else . end)", "walk(if type == \"array\" then reverse else . end)", "walk(if type == \"object\" then del(.a?) else . end)?", "walk(.)", "[walk(numbers)]?", "walk(empty)?", "try walk(error(\"w\")) catch .",
			"[leaf_paths]", "[leaf_paths | length]", "[paths(type == \"number\")]", "tostream | select(length == 2) | .[1]", "[tostream] | length", "fromstream(tostream)", "[. as $d | path(..) as $p | $d | getpath($p)] | length", "label $f | .. | if type == \"number\" then ., break $f else empty end", "[label $f | .. | if . == null then break $f else . end] | length", "env | type", "$ENV | type", "[env, $ENV] | map(type)", "env.__verif_unset__", "$ENV.__verif_unset__",
		}
		fs = append(fs, fam{"descent", ps, []any{nested, []any{1, []any{2, []any{3, nil}}, "s"}, map[string]any{"a": map[string]any{"a": map[string]any{"a": 1}}}, 2, nil, []any{[]any{}, map[string]any{}, []any{[]any{}}}, mixed}, nil})
	}

	// 12. serialisation round trips and string conversions
	{
		ps := []string{
			"tojson", "tostring", "[.[]? | tojson]", "[.[]? | tostring]", "tojson | fromjson", "(tojson | fromjson) == .", "tojson | tojson", "tojson | tojson | fromjson | fromjson", "[.[]? | tojson | fromjson] == .", "tojson | length", "tojson | explode | length", "@json", "@text", "@json == tojson", "@text == tostring",
			"[.[]? | tostring | tonumber?]", "[.[]? | tojson | tonumber?]", "[.[]? | numbers | tostring | tonumber] == [.[]? | numbers]", "[.[]? | strings | tonumber?]", "[.[]? | tonumber?]", "try tonumber catch \"N\"", "[.[]? | try tonumber catch \"N\"]", "[.[]? | toboolean?]?", "[.[]? | ascii?]?",
			"\"1\" | fromjson", "\"[1, 2\" | fromjson?", "try (\"[1, 2\" | fromjson) catch \"J\"", "\"{\\\"a\\\": [1, {\\\"b\\\": null}]}\" | fromjson", "\"nan\" | fromjson?", "\"NaN\" | fromjson?", "\" 1 \" | fromjson?", "\"1 2\" | fromjson?", "\"\" | fromjson?", "\"null\" | fromjson", "\"\\\"s\\\"\" | fromjson", "\"1e2\" | fromjson", "\"100000000000000000000\" | fromjson", "\"-0\" | fromjson", "\"1.0\" | fromjson | tojson", "\"[1.10, 1e1]\" | fromjson | tojson",
			"[1, [2], {\"a\": 3}] | tojson", "{\"a\": []} | tojson", "{\"b\": 1, \"a\": 2} | tojson", "\"\\u0000\\u001f\\\"\\\\/\" | tojson", "\"é世\\ud83d\\ude00\" | tojson", "\"\\t\\n\\r\\b\\f\" | tojson", "\"<&>'\" | tojson", "\"\\u007f\\u0080\" | tojson", "[\"a\\\"b\"] | tojson | fromjson", "1e1000 | tojson", "-1e1000 | tojson", "[nan] | tojson", "nan | tostring", "infinite | tostring", "[1, 1.0, 1.5, 100000000000000000000, 1e17, -0, 0.1] | map(tojson)", "[1, 1.0, 1.5] | tojson",
			"tojson | test(\"^\\\\[\")?", "[.[]? | tojson | length]", "[.[]? | tostring | length]", "[.[]? | strings | tojson | fromjson] == [.[]? | strings]", "[.[]? | strings | explode | implode] == [.[]? | strings]", "[.[]? | strings | @base64 | @base64d]?", "[.[]? | strings | @uri]", "[.[]? | strings | @html]", "[.[]? | strings | @sh]", "[.[]? | strings | ascii_downcase, ascii_upcase]", "[.[]? | strings | ltrimstr(\"a\"), rtrimstr(\"a\")]", "[.[]? | strings | utf8bytelength]", "[.[]? | strings | length]", "[.[]? | strings | split(\"\")]", "[.[]? | strings | split(\",\")]", "[.[]? | strings | split(\"\") | join(\"\")] == [.[]? | strings]",
			"[.[]? | strings | startswith(\"a\"), endswith(\"a\")]", "[.[]? | strings | indices(\"a\")]", "[.[]? | strings | index(\"a\"), rindex(\"a\")]", "[.[]? | strings | ascii_downcase | explode | map(select(. >= 97)) | implode]", "[.[]? | strings | . * 2]", "[.[]? | strings | . * 0]", "[.[]? | strings | . / \",\"]", "[.[]? | strings | trim, ltrim, rtrim]", "[.[]? | strings | tojson | tojson | length]", "join(\",\")?", "try join(\",\") catch \"J\"", "map(tostring) | join(\"-\")?", "[.[]? | arrays | join(\"\")]?", "@csv?", "@tsv?", "try @csv catch \"C\"", "[.[]? | arrays | @csv]?", "[.[]? | arrays | @tsv]?", "[.[]? | arrays | @sh]?", "@html", "@uri", "@base64", "[.[]? | @base64]", "[.[]? | @html]",
			"implode?", "[.[]? | arrays | implode?]", "try ([1114112] | implode) catch \"U\"", "try ([-1] | implode) catch \"U\"", "[55296] | implode | explode", "[65, 128512, 233] | implode", "\"\\ud83d\" | explode?", "ltrimstr(\"\")?", "tostring | ltrimstr(\"[\")", "splits(\", \")?", "ascii(65)?", "\"a,b, c\" | split(\", \")", "\"a,b, c\" | split(\",\"; null)?", "\"abc\" | test(\"B\"; \"i\")?", "\"abc\" | sub(\"b\"; \"X\")?", "\"abc\" | [match(\".\"; \"g\").string]?", "\"a1b22\" | [scan(\"[0-9]+\")]?", "\"abc\" | capture(\"(?<x>b)\")?", "\"abc\" | gsub(\"\"; \"-\")?",
		}
		fs = append(fs, fam{"serial", ps, []any{mixed, []any{"a,b", "", "héllo 世界", "\xff\xfe", " x ", "10", "1e2", "abc", "A"}, "plain", 42, map[string]any{"k": []any{1, "v"}}, nil, []any{[]any{1, "a b", nil, true}, []any{"q\"r", "t\tu"}}}, nil})
	}

	// 13. ordering natives on mixed types: sort / group / unique / min / max (stability, jq's type order,
	//     numbers compared by value across representations), and their _by forms with generators and errors
	{
		ps := []string{
			"sort", "sort | map(type)", "sort == (sort | sort)", "sort | reverse", "reverse | sort", "sort_by(.)", "sort_by(type)", "sort_by(tostring)", "sort_by(tojson)", "sort_by(length?)", "sort_by(.a?)", "sort_by(.a?, .b?)", "sort_by(.b?, .a?)", "sort_by(.a?; .b?)?", "sort_by(-(.a? // 0))?", "sort_by(.[0]?)", "sort_by(null)", "sort_by(empty)", "sort_by(1, 2)",
			"try sort_by(error(\"s\")) catch .", "sort_by(error)?", "try sort catch \"T\"", "[.[]? | try sort catch \"T\"]", "group_by(.)", "group_by(type)", "group_by(.a?)", "group_by(.a?, .b?)", "group_by(. == null)", "group_by(length?)", "group_by(empty)", "group_by(.a?) | map(length)", "group_by(type) | map(.[0] | type)", "try group_by(error(\"g\")) catch .",
			"unique", "unique | length", "unique == (sort | unique)", "unique_by(type)", "unique_by(.a?)", "unique_by(length?)", "unique_by(tostring)", "unique_by(. == null)", "unique_by(empty)", "unique_by(.a?, .b?)", "[.[]? | type] | unique", "map(tojson) | unique | length", "try unique_by(error(\"u\")) catch .",
			"min", "max", "[min, max]", "min_by(.a?)", "max_by(.a?)", "min_by(type)", "max_by(type)", "min_by(length?)", "max_by(length?)", "min_by(.a?, .b?)", "max_by(empty)", "min_by(tostring)", "[] | min, max", "[] | min_by(.a), max_by(.a)", "try min_by(error(\"m\")) catch .", "[min_by(.a?), max_by(.a?)] | map(.b?)", "map(numbers) | min, max", "map(strings) | min, max", "map(arrays) | min, max", "map(objects) | min, max",
			"[.[]? | numbers] | sort", "[.[]? | numbers] | sort | map(tojson)", "[.[]? | numbers] | unique", "[.[]? | numbers] | group_by(.) | map(length)", "[.[]? | strings] | sort", "[.[]? | arrays] | sort", "[.[]? | objects] | sort", "[.[]? | booleans] | sort", "[.[]? | nulls] | sort", "[.[]? | select(type != \"object\")] | sort",
			"[.[] as $x | .[] as $y | select($x < $y)] | length?", "[.[] as $x | .[] as $y | ($x == $y)] | map(select(.)) | length?", "[.[]? | . < 1]", "[.[]? | . <= null]", "[.[]? | . > \"a\"]", "[.[]? | . >= []]", "[.[]? | . == 1]", "[.[]? | . != 1.0]", "[.[]? | [.] < [1]]", "[.[]? | {a: .} < {a: 1}]", "[.[]? | numbers | . == 1, . < 1.5, . > -1]", "sort | [.[0], .[-1]]?", "sort_by(.) == sort", "group_by(.) | map(.[0]) == unique", "[limit(3; sort[])]?", "first(sort[])?", "sort | index(1)?", "sort | indices(1)?", "sort | bsearch(1)?", "sort | bsearch(\"zz\")?", "try bsearch(1) catch \"B\"",
			"to_entries? | sort_by(.value) | map(.key)", "keys?", "keys_unsorted?", "[.[]? | keys?]", "map(keys?)", "transpose?", "flatten?", "flatten(1)?", "flatten(0)?", "try flatten(-1) catch \"F\"", "add?", "add(.[]? | numbers)?", "any", "all", "any(. == null)?", "all(type == \"number\")?", "map(select(. != null)) | sort | unique | length", "[.[]? | arrays | sort]", "[.[]? | arrays | min, max]", "[.[]? | objects | to_entries | sort_by(.key) | from_entries]", "map([., 1]) | sort | map(.[0]) == sort", "map({a: .}) | sort_by(.a) | map(.a) == sort", "map({a: ., b: 1}) | group_by(.b) | length", "map({a: .}) | unique_by(.a) | length == (unique | length)", "map({a: .}) | min_by(.a).a == min", "map({a: .}) | max_by(.a).a == max",
			"contains([1])?", "inside([1, 2, 3])?", "[.[]? | contains(1)?]", "contains([])?", "contains({})?", "contains(\"a\")?", "[.[]? | strings | contains(\"a\")]", "[.[]? | arrays | contains([1])]", "[.[]? | objects | contains({a: 1})]", "index(1)?", "rindex(1)?", "indices(null)?", "indices([1])?", "has(0)?", "has(100)?", "[.[]? | has(\"a\")?]", "[0, 1 | in([5])]", "[\"a\" | in({a: 1})]", "[.[]? | IN(1, \"a\")]", "IN(.[]?; 1, null)", "[.[]? | IN([1], {})]", "any(.[]?; IN(1))", "first(.[]? | select(IN(null)))?", "[splits(\"a\")?]", "ascii?", "@text | length",
		}
		fs = append(fs, fam{"order", ps, []any{mixed, recs, []any{1, 1.0, 2, 1.5, -0.0, 0, 100000000000000000000.0, 3}, []any{[]any{2, 1}, []any{1, 2}, []any{1}, []any{}, []any{1, nil}}, []any{"b", "a", "B", "", "ab", "é"}, []any{}, "str", nil, map[string]any{"b": 2, "a": 1}}, nil})
	}
	return fs
}
