// Program and input generators of the C01 stream.
//
//	(a) bounded-exhaustive small programs over the core grammar x the 12-value input set
//	(b) random programs up to ~60 nodes biased to the hazards named in property C01
//	(c) the queries of /repo/cli/test.yaml with their own inputs
//	(d) token-level mutations of (c) that still parse and compile
//
// Everything is generated as TEXT and goes through gojq.Parse, so what runs is a real program.
package main

import (
	"encoding/json"
	"fmt"
	"math"
	"math/big"
	"os"
	"path/filepath"
	"regexp"
	"strings"
	"time"

	. "verifharness/hlib"

	"github.com/itchyny/go-yaml"
)

// ---------------------------------------------------------------------------------------------
// inputs

func small12() []any {
	return []any{
		nil, true, 0, 1, -2, 1.5, "a", []any{},
		[]any{1, []any{2}},
		map[string]any{"a": 1, "b": 2},
		map[string]any{"a": map[string]any{"b": []any{1, 2}}, "c": "x"},
		[]any{map[string]any{"a": 1}, map[string]any{"a": nil, "b": []any{3}}},
	}
}

func bigOf(s string) *big.Int { x, _ := new(big.Int).SetString(s, 10); return x }

// all Go number representations, odd strings, deeper values
func extendedInputs() []any {
	return []any{
		false, 2, -1, 3, 10, 0.0, math.Copysign(0, -1), 2.5, -3.75, 1e300, 1e17, 9007199254740993, math.MaxInt64, math.MinInt64,
		bigOf("18446744073709551616"), bigOf("-18446744073709551617"), big.NewInt(5),
		json.Number("10"), json.Number("1.0"), json.Number("100000000000000000000"), json.Number("1e2"), json.Number("-0"),
		math.NaN(), math.Inf(1),
		"", "b", "abc", "a,b", "h\u00e9llo \u4e16\u754c", "\xff\xfe", "10", " x ",
		[]any{0}, []any{1, 2, 3}, []any{nil, false}, []any{"a", "b"}, []any{[]any{}, []any{1}}, []any{3, 1, 2, 1},
		[]any{1, 1.0, bigOf("18446744073709551616")},
		map[string]any{}, map[string]any{"a": nil}, map[string]any{"a": []any{1, 2, map[string]any{"b": 3}}},
		map[string]any{"a": false, "b": []any{}, "c": map[string]any{"a": 1}},
		map[string]any{"key": "k", "value": 1}, []any{map[string]any{"key": "a", "value": 1}, map[string]any{"key": "b", "value": nil}},
		[]any{[]any{1, 2}, []any{3, 4}}, []any{map[string]any{"a": 1, "b": 2}, map[string]any{"a": 1, "b": 3}, map[string]any{"a": 0}},
	}
}

func randValue(r *Rng, depth int) any {
	k := r.Intn(12)
	if depth <= 0 && k >= 8 {
		k = r.Intn(8)
	}
	switch k {
	case 0:
		return nil
	case 1:
		return r.Chance(1, 2)
	case 2, 3:
		return r.Intn(7) - 2
	case 4:
		return []float64{0.5, 1.5, -2.25, 1e3, 3.0}[r.Intn(5)]
	case 5, 6:
		return []string{"", "a", "b", "ab", "c d", "\u00e9"}[r.Intn(6)]
	case 7:
		if r.Chance(1, 4) {
			return bigOf("36893488147419103232")
		}
		return r.Intn(3)
	case 8, 9:
		n := r.Intn(4)
		a := make([]any, n)
		for i := range a {
			a[i] = randValue(r, depth-1)
		}
		return a
	default:
		n := r.Intn(4)
		m := map[string]any{}
		for i := 0; i < n; i++ {
			m[[]string{"a", "b", "c", "key", "value"}[r.Intn(5)]] = randValue(r, depth-1)
		}
		return m
	}
}

// ---------------------------------------------------------------------------------------------
// (a) bounded-exhaustive

var exhLeaves = []string{".", ".a", ".[0]", ".[]", "1", `"a"`, "null", "empty", "error", "[]", "{}", ".."}

func exhUnary(x string) []string {
	return []string{
		"[" + x + "]", "{a: " + x + "}", "(" + x + ")?", "try " + x, "-(" + x + ")", "first(" + x + ")", "path(" + x + ")",
		"label $f | " + x, x + " | not", "[" + x + "] | length", "isempty(" + x + ")", `"s\(` + x + `)"`,
		"try (" + x + ") catch .", "limit(1; " + x + ")", "def f: " + x + "; f", "del(" + x + ")", "(" + x + ") as $x | $x",
		".[" + x + "]?", "[.[]?] | map(" + x + ")?",
	}
}

func exhBinary(x, y string) []string {
	return []string{
		x + " | " + y, x + ", " + y, "(" + x + ") + (" + y + ")", "(" + x + ") // (" + y + ")", "(" + x + ") and (" + y + ")",
		"(" + x + ") == (" + y + ")", "(" + x + ") < (" + y + ")", "(" + x + ") - (" + y + ")",
		"if " + x + " then " + y + " else 0 end", "if " + x + " then 0 else " + y + " end", "if " + x + " then " + y + " end",
		"if " + x + " then . elif " + y + " then . end", "[.[]?] | map(if " + x + " then " + y + " end)?", "path(if " + x + " then " + y + " end)",
		"try (" + x + ") catch (" + y + ")", "reduce (" + x + ") as $x (0; " + y + ")", "reduce (" + x + ") as $x (" + y + "; . + 1)",
		"foreach (" + x + ") as $x (0; " + y + ")", "foreach (" + x + ") as $x (0; 1; " + y + ")",
		"(" + x + ") as $x | " + y, "(" + x + ") as $x | [$x, (" + y + ")]", "(" + x + ") as [$a] ?// $a | [$a, (" + y + ")]",
		"label $f | (" + x + "), break $f, (" + y + ")", "label $f | (" + x + ") | ., break $f | " + y,
		"{(" + x + "): " + y + "}", "[" + x + "] | .[" + y + "]?", "def f(g): " + x + " | g; f(" + y + ")",
		"def f($a): [$a, (" + x + ")]; f(" + y + ")", "(" + x + ") = (" + y + ")", "(" + x + ") |= (" + y + ")",
		"(" + x + ") += (" + y + ")", "(" + x + ") //= (" + y + ")", "limit(" + x + "; " + y + ")", "[" + x + " | select(" + y + ")]",
		"[.[]?] | map(" + x + ") | " + y, "first(" + x + ", " + y + ")", "path(" + x + " | " + y + ")", "[paths] | " + x + " | " + y,
		"try error(" + x + ") catch " + y, "(" + x + ")?, " + y, ".a = (" + x + ") | " + y, "setpath([" + x + "]; " + y + ")",
		"getpath([" + x + "]) | " + y, "to_entries? | " + x + ", " + y, "with_entries(" + x + ")? | " + y,
	}
}

// exhaustive returns every program of size <= 3 (leaves, unary(leaf), unary(unary(leaf)) subsampled,
// binary(leaf, leaf))
func exhaustive(r *Rng, tier string) []string {
	var ps []string
	ps = append(ps, exhLeaves...)
	for _, x := range exhLeaves {
		ps = append(ps, exhUnary(x)...)
	}
	for _, x := range exhLeaves {
		for _, y := range exhLeaves {
			ps = append(ps, exhBinary(x, y)...)
		}
	}
	if tier != "quick" {
		for _, x := range exhLeaves {
			for _, u := range exhUnary(x) {
				ps = append(ps, exhUnary(u)...)
				for _, y := range exhLeaves {
					bs := exhBinary(u, y)
					cs := exhBinary(y, u)
					for i := 0; i < 6; i++ {
						ps = append(ps, bs[r.Intn(len(bs))], cs[r.Intn(len(cs))])
					}
				}
			}
		}
	}
	return ps
}

// ---------------------------------------------------------------------------------------------
// (b) random programs

type fnInfo struct {
	name   string
	params []string // "g" filter, "$a" value
}

type gscope struct {
	vars   []string
	labels []string
	funcs  []fnInfo
	clos   []string // filter parameters callable as `g`
}

func (s gscope) withVar(v ...string) gscope {
	s.vars = append(append([]string{}, s.vars...), v...)
	return s
}
func (s gscope) withLabel(l string) gscope {
	s.labels = append(append([]string{}, s.labels...), l)
	return s
}
func (s gscope) withFunc(f fnInfo) gscope {
	s.funcs = append(append([]fnInfo{}, s.funcs...), f)
	return s
}
func (s gscope) withClos(c ...string) gscope {
	s.clos = append(append([]string{}, s.clos...), c...)
	return s
}

type rgen struct {
	r     *Rng
	nodes int
}

func (g *rgen) pick(xs ...string) string { return xs[g.r.Intn(len(xs))] }

func (g *rgen) leaf(sc gscope) string {
	g.nodes++
	k := g.r.Intn(24)
	switch {
	case k < 4:
		return "."
	case k < 7:
		return g.pick(".a", ".b", ".a.b", ".c", `.["a"]`, ".a?")
	case k < 9:
		return g.pick(".[0]", ".[1]", ".[-1]", ".[]", ".[]?", ".[1:]", ".[:1]")
	case k < 13:
		return g.pick("0", "1", "2", "-1", "3", `"a"`, `"b"`, "null", "true", "false", "[]", "{}", "1.5", `"ab"`)
	case k < 16 && len(sc.vars) > 0:
		return sc.vars[g.r.Intn(len(sc.vars))]
	case k == 16:
		return "empty"
	case k == 17:
		return g.pick("error", `error("e")`, "error(null)", "error({a:1})")
	case k == 18 && len(sc.labels) > 0:
		return "break " + sc.labels[g.r.Intn(len(sc.labels))]
	case k == 19 && len(sc.clos) > 0:
		return sc.clos[g.r.Intn(len(sc.clos))]
	case k == 20:
		return g.pick("length", "keys?", "type", "not", "tostring", "tojson", "add?", "reverse?", "sort?", "floor?", "to_entries?", "paths", "..", "first?", "last?", "min?", "unique?", "flatten?", "tonumber?", "ascii_downcase?", "explode?", "range(3)", "range(1;3)", "values", "arrays", "scalars", "isnan?", "abs?", "any?", "all?", "transpose?", "input?")
	default:
		for _, f := range sc.funcs {
			if len(f.params) == 0 && g.r.Chance(1, 2) {
				return f.name
			}
		}
		return "."
	}
}

func (g *rgen) pattern(sc gscope) (string, []string) {
	switch g.r.Intn(8) {
	case 0:
		return "[$a, $b]", []string{"$a", "$b"}
	case 1:
		return "{a: $a}", []string{"$a"}
	case 2:
		return "{$a, b: [$b]}", []string{"$a", "$b"}
	case 3:
		return "[$a, {b: $b}]", []string{"$a", "$b"}
	case 4:
		return `{"a": $a, $b}`, []string{"$a", "$b"}
	case 5:
		return "{(\"a\",\"b\"): $a}", []string{"$a"}
	default:
		v := g.pick("$x", "$y", "$a")
		return v, []string{v}
	}
}

// pathExpr generates (mostly) path-safe expressions
func (g *rgen) pathExpr(budget int, sc gscope) string {
	g.nodes++
	if budget <= 1 {
		return g.pick(".a", ".b", ".[0]", ".[]", ".[]?", ".a.b", ".a[0]", "..", ".", "empty", ".a?", `getpath(["a"])`, `getpath(["a","b"])`, ".[1]", ".[-1]", "first", "1", ".c")
	}
	h := budget / 2
	switch g.r.Intn(16) {
	case 0, 1, 2:
		return g.pathExpr(h, sc) + " | " + g.pathExpr(budget-h, sc)
	case 3, 4:
		return "(" + g.pathExpr(h, sc) + ", " + g.pathExpr(budget-h, sc) + ")"
	case 5:
		return "select(" + g.query(h, sc) + ")"
	case 6:
		if g.r.Chance(1, 3) {
			return "if " + g.query(h, sc) + " then " + g.pick(".", g.pathExpr(h, sc)) + " end"
		}
		return "if " + g.query(h, sc) + " then " + g.pathExpr(h, sc) + " else " + g.pathExpr(h, sc) + " end"
	case 7:
		return "(" + g.pathExpr(h, sc) + " // " + g.pathExpr(h, sc) + ")"
	case 8:
		return "first(" + g.pathExpr(budget-1, sc) + ")"
	case 9:
		return "limit(" + g.pick("1", "2", "0") + "; " + g.pathExpr(budget-1, sc) + ")"
	case 10:
		return "(" + g.pathExpr(budget-1, sc) + ")?"
	case 11:
		return "recurse(" + g.pathExpr(budget-1, sc) + "?)"
	case 12:
		return ". as $p | " + g.pathExpr(budget-1, sc.withVar("$p"))
	case 13:
		return "(" + g.query(h, sc) + " | " + g.pathExpr(h, sc) + ")" // usually an invalid path
	case 14:
		return ".[" + g.query(budget-1, sc) + "]"
	default:
		return g.pathExpr(budget-1, sc) + g.pick(".a", "[0]", "[]", "[]?", ".b?")
	}
}

func (g *rgen) query(budget int, sc gscope) string {
	if budget <= 1 || g.nodes > 70 {
		return g.leaf(sc)
	}
	g.nodes++
	h := budget / 2
	q := func(b int) string { return g.query(b, sc) }
	switch g.r.Intn(64) {
	case 0, 1, 2, 3:
		return "(" + q(h) + " | " + q(budget-h) + ")"
	case 4, 5, 6:
		return "(" + q(h) + ", " + q(budget-h) + ")"
	case 7, 8, 9:
		return "(" + q(h) + " " + g.pick("+", "-", "*", "/", "%", "+", "+") + " " + q(budget-h) + ")"
	case 10, 11:
		return "(" + q(h) + " " + g.pick("==", "!=", "<", "<=", ">", ">=") + " " + q(budget-h) + ")"
	case 12:
		return "(" + q(h) + " " + g.pick("and", "or") + " " + q(budget-h) + ")"
	case 13, 14:
		return "(" + q(h) + " // " + q(budget-h) + ")"
	case 15, 16:
		return "[" + q(budget-1) + "]"
	case 17:
		return "{a: " + q(h) + ", b: " + q(budget-h) + "}"
	case 18:
		return "{(" + q(h) + "): " + q(budget-h) + "}"
	case 19:
		return g.pick("{a}", "{a, b}", `{"a", c: 1}`, `{"x\(.a)": 1}`, "{a: 1, a: 2}")
	case 20, 21:
		t := budget / 3
		s := "if " + q(t) + " then " + q(t)
		if g.r.Chance(1, 3) {
			s += " elif " + q(t) + " then " + q(t)
		}
		if g.r.Chance(3, 4) {
			s += " else " + q(t)
		}
		return s + " end"
	case 22, 23:
		return "(try " + g.term(budget-1, sc) + ")"
	case 24, 25:
		return "(try " + g.term(h, sc) + " catch " + g.term(budget-h, sc) + ")"
	case 26, 27:
		return "(" + q(budget-1) + ")?"
	case 28, 29, 30:
		p, vs := g.pattern(sc)
		t := budget / 3
		return "reduce " + g.term(t, sc) + " as " + p + " (" + q(t) + "; " + g.query(t, sc.withVar(vs...)) + ")"
	case 31, 32, 33:
		p, vs := g.pattern(sc)
		t := budget / 4
		s := "foreach " + g.term(t, sc) + " as " + p + " (" + q(t) + "; " + g.query(t, sc.withVar(vs...))
		if g.r.Chance(1, 2) {
			s += "; " + g.query(t, sc.withVar(vs...))
		}
		return s + ")"
	case 34, 35, 36:
		p, vs := g.pattern(sc)
		return "(" + g.term(h, sc) + " as " + p + " | " + g.query(budget-h, sc.withVar(vs...)) + ")"
	case 37, 38, 39:
		// destructuring alternatives
		p1, v1 := g.pattern(sc)
		p2, v2 := g.pattern(sc)
		vs := append(append([]string{}, v1...), v2...)
		s := "(" + g.term(h, sc) + " as " + p1 + " ?// " + p2
		if g.r.Chance(1, 4) {
			p3, v3 := g.pattern(sc)
			s += " ?// " + p3
			vs = append(vs, v3...)
		}
		return s + " | " + g.query(budget-h, sc.withVar(vs...)) + ")"
	case 40, 41:
		l := g.pick("$f", "$g")
		return "(label " + l + " | " + g.query(budget-1, sc.withLabel(l)) + ")"
	case 42, 43:
		// function with no parameters, possibly recursive on a countdown
		body := g.query(h, sc.withFunc(fnInfo{name: "f"}))
		if g.r.Chance(1, 4) {
			body = "if . < 3 then (. + 1 | f), " + g.query(h/2, sc) + " else " + g.query(h/2, sc) + " end"
		}
		return "(def f: " + body + "; " + g.query(budget-h, sc.withFunc(fnInfo{name: "f"})) + ")"
	case 44, 45, 46:
		// filter parameter: closure captures the caller's variables
		inner := sc.withClos("g")
		if g.r.Chance(1, 2) {
			inner = inner.withVar("$x") // shadowing inside the callee
			return "(def h(g): " + g.pick("1", ".", "[.]", ".a") + " as $x | " + g.query(h, inner) + "; h(" + g.query(budget-h, sc) + "))"
		}
		return "(def h(g): " + g.query(h, inner) + "; h(" + g.query(budget-h, sc) + "))"
	case 47, 48:
		t := budget / 3
		inner := sc.withVar("$a").withClos("a")
		return "(def k($a): " + g.query(t, inner) + "; k(" + g.query(t, sc) + ")" + g.pick("", " | "+g.leaf(sc)) + ")"
	case 49:
		t := budget / 4
		inner := sc.withVar("$a", "$b").withClos("g")
		return "(def m(g; $a; $b): " + g.query(t, inner) + "; m(" + g.query(t, sc) + "; " + g.query(t, sc) + "; " + g.query(t, sc) + "))"
	case 50:
		return fmt.Sprintf(g.pick("first(%s)", "isempty(%s)", "[limit(3; %s)]", "[limit(2; %s)]", "any(%s; .)", "all(%s; .)", "add(%s)", "map(%s)?", "select(%s)", "[limit(4; recurse(%s))]", "last(%s)", "[.[]? | %s]", "[%s] | length", "nth(1; %s)", "[skip(1; %s)]"), q(budget-1))
	case 51:
		return fmt.Sprintf(g.pick("[limit(%s; repeat(%s))]", "[limit(%s; (%s))]", "[limit(%s; range(%s))]", "[limit(%s; recurse(%s))]"), g.pick("0", "1", "2", "3", "-1"), q(budget-1))
	case 52:
		return "[limit(5; recurse(" + g.pathExpr(h, sc) + "?))]"
	case 53, 54:
		return fmt.Sprintf(g.pick("path(%s)", "[paths(%s)]", "del(%s)", "[path(%s)]", "pick(%s)", "[getpath(%s)]?", "[path(%s)] | length", "to_entries? | map(%s)?"), g.pathExpr(budget-1, sc))
	case 55, 56, 57:
		return "(" + g.pathExpr(h, sc) + " " + g.pick("=", "|=", "+=", "-=", "*=", "//=", "|=", "=") + " " + q(budget-h) + ")"
	case 58:
		return `"x\(` + q(h) + `)y\(` + q(budget-h) + `)"`
	case 59:
		return g.pick("@json", "@text", "@html", "@csv", "@tsv", "@sh", "@base64", "@uri") + ` "v\(` + q(budget-1) + `)"`
	case 60:
		return fmt.Sprintf(g.pick("map(%s)?", "map_values(%s)?", "with_entries(%s)?", "sort_by(%s)?", "group_by(%s)?", "min_by(%s)?", "unique_by(%s)?",
			"until(. > 2 or (type != \"number\"); %s)", "[while(type == \"number\" and . < 3; %s)]", "walk(%s)?", "to_entries? | map(%s)?", "[.[]? | select(%s)]"), q(budget-1))
	case 61:
		return "-" + g.term(budget-1, sc)
	case 62:
		return g.term(h, sc) + "[" + q(budget-h) + "]" + g.pick("", "?")
	default:
		return g.pick("tostream", "[tostream]", "fromstream(tostream)", "to_entries", "from_entries?", "[.[]?] | sort", "getpath([\"a\",\"b\"])", "setpath([\"a\"]; 1)?", "delpaths([[\"a\"]])?",
			"has(\"a\")?", "contains(.)?", "inside(.)?", "indices(1)?", "index(\"a\")?", "join(\",\")?", "split(\",\")?", "ltrimstr(\"a\")?", "startswith(\"a\")?", "ascii_upcase?", "implode?",
			"[.[]?] | group_by(.a?)", "[.[]?] | unique", "flatten(1)?", "tojson", "[.[]?|tostring]", "input?", "[inputs]", "$ENV|length", "halt_error?", "@base64", "@json", "combinations?", "[limit(3; combinations?)]",
			"env|length", "first(range(10;0;-3))", "[range(0;10;3)]", "[range(5;0;-2)]", "nth(1; .[]?)", "[.[]?] | IN(1)", "INDEX(.a?)?", "getpath([0,\"a\"])?", "error(null)?", "try error(null) catch .", "[.[]?] | add", "trim?", "abs?", "toboolean?", "ltrimstr(1)", "tojson|fromjson?", "halt", "min_by(.a)?", "bsearch(1)?", "(.. | numbers) |= . + 1", "[.. | scalars]", "any(.[]?; . == 1)", "all(.[]?; . != null)", "[.[]?] | map(select(. != null))", "limit(0; error)", "first(empty)", "[first(range(3;10))]", "isempty(error)?", "[limit(3; repeat(1))]", "[.[]? as [$a] ?// $a | $a]", "getpath([\"a\"]) = 3", "to_entries? | map(.key)", "with_entries(.value |= tostring)?", "[paths(type == \"number\")]", "del(.[0], .a)?", "del(.. | select(. == null))?", "pick(.a)?", "pick(.[0])?", "ascii_downcase?", "@text", "@html", "tojson", "utf8bytelength?", "[match(\"a\")]?", "test(\"a\")?", "ltrimstr(\"x\")", "significand?", "now|type", "infinite", "nan|isnan", "[1,nan]|sort", "[nan,1]|min", "{} | .a.b.c", "[[1,2],[3]] | .[][0]", "\"abc\" | .[1:2]", "[1,2,3] | .[1:] = [9]", ".[2:4]?", "try (1/0) catch .", "1 % 0?", "5 / 2", "7 % 3", "-5 % 3", "[1,2] - [2]", "{a:1} * {a:{b:2}}", "\"ab\" * 2", "\"a,b\" / \",\"", "[] | first", "null | length", "\"\\u00e9\" | length", "[3,1,2] | sort_by(-.)", "{} | keys", "[[2,1],[1,2]] | sort", "[{a:2},{a:1}] | group_by(.a)", "{a:{b:1}} | paths", "[1,[2]] | flatten", "\"x\" | ascii_downcase", "[\"a\",1,null] | join(\"-\")", "\"1\" | tonumber", "1 | tostring", "[1,2] | contains([1])", "{a:1} | has(\"a\")", "[1,2,1] | indices(1)", "\"abcb\" | index(\"b\")", "[1,2,3] | IN(2)", "2 | IN(1,2)")
	}
}

func (g *rgen) term(budget int, sc gscope) string {
	if budget <= 1 || g.r.Chance(1, 3) {
		return g.leaf(sc)
	}
	return "(" + g.query(budget, sc) + ")"
}

func randomProgram(r *Rng) string {
	g := &rgen{r: r}
	budget := 4 + r.Intn(28)
	if r.Chance(1, 6) {
		budget = 30 + r.Intn(30)
	}
	return g.query(budget, gscope{})
}

// ---------------------------------------------------------------------------------------------
// (c) corpus: /repo/cli/test.yaml

type corpusCase struct {
	query  string
	inputs []any // decoded input documents (possibly none)
	nullIn bool
}

var flagOK = map[string]bool{"-n": true, "-c": true, "-r": true, "-j": true, "--null-input": true, "--compact-output": true, "--raw-output": true, "-nr": true, "-nc": true, "-rn": true, "-cn": true, "-cr": true, "-rc": true}

func loadCorpus(repo string) ([]corpusCase, int) {
	f, err := os.Open(filepath.Join(repo, "cli", "test.yaml"))
	if err != nil {
		return nil, 0
	}
	defer f.Close()
	var tcs []struct {
		Name  string
		Args  []string
		Input string
	}
	if err := yaml.NewDecoder(f).Decode(&tcs); err != nil {
		fmt.Fprintln(os.Stderr, "test.yaml:", err)
		return nil, 0
	}
	var out []corpusCase
	skipped := 0
	for _, tc := range tcs {
		var q *string
		ok, nullIn := true, false
		for i := range tc.Args {
			a := tc.Args[i]
			if strings.HasPrefix(a, "-") && len(a) > 1 && q == nil {
				if !flagOK[a] {
					ok = false
				}
				if strings.Contains(a, "n") && !strings.HasPrefix(a, "--") || a == "--null-input" {
					nullIn = true
				}
				continue
			}
			if q == nil {
				q = &tc.Args[i]
			} else {
				ok = false // file arguments etc.
			}
		}
		if !ok || q == nil {
			skipped++
			continue
		}
		cc := corpusCase{query: *q, nullIn: nullIn}
		dec := json.NewDecoder(strings.NewReader(tc.Input))
		dec.UseNumber()
		bad := false
		for {
			var v any
			if err := dec.Decode(&v); err != nil {
				if err.Error() != "EOF" {
					bad = true
				}
				break
			}
			cc.inputs = append(cc.inputs, normNumbers(v))
		}
		if bad {
			skipped++
			continue
		}
		out = append(out, cc)
	}
	return out, skipped
}

// ---------------------------------------------------------------------------------------------
// (d) token-level mutations

var tokRe = regexp.MustCompile(`"(?:\\.|[^"\\])*"|\$?[A-Za-z_][A-Za-z0-9_]*|[0-9]+(?:\.[0-9]+)?|\?//|\|=|//=|//|==|!=|<=|>=|\+=|-=|\*=|/=|%=|\.\.|\.\[|[][(){}|,.:;?+\-*/%<>=@]|\s+`)

var mutPool = []string{"|", ",", "+", "-", "*", "/", "%", "//", "==", "!=", "<", ">=", "and", "or", "=", "|=", "+=", "//=", "?", ".", "..", ".[]", ".[0]", ".a",
	"0", "1", "2", "-1", "null", "true", "false", `"a"`, "[]", "{}", "empty", "error", "not", "length", "first", "last", "add", "keys", "type", "tostring",
	"select", "map", "recurse", "limit", "isempty", "path", "del", "paths", "reverse", "sort", "min", "max", "range", "tojson", "$x", "$__loc__", "input", "try", "?//", "as", "reduce", "foreach"}

func mutate(r *Rng, src string) string {
	toks := tokRe.FindAllString(src, -1)
	if len(toks) == 0 || len(strings.Join(toks, "")) != len(src) {
		return ""
	}
	n := 1 + r.Intn(2)
	for i := 0; i < n; i++ {
		j := r.Intn(len(toks))
		if strings.TrimSpace(toks[j]) == "" {
			continue
		}
		switch r.Intn(6) {
		case 0: // replace
			toks[j] = mutPool[r.Intn(len(mutPool))]
		case 1: // delete
			toks[j] = ""
		case 2: // duplicate with a separator
			toks[j] = toks[j] + " " + []string{",", "|", "+"}[r.Intn(3)] + " " + toks[j]
		case 3: // swap with another token
			k := r.Intn(len(toks))
			toks[j], toks[k] = toks[k], toks[j]
		case 4: // insert ? after
			toks[j] = toks[j] + "?"
		default: // operator flips
			repl := map[string]string{",": "|", "|": ",", "+": "-", "-": "+", "and": "or", "or": "and", "==": "!=", "<": ">", "//": ",", "=": "|=", "|=": "=",
				"first": "last", "last": "first", "limit": "skip", "any": "all", "all": "any", "reduce": "foreach", "min": "max", "map": "map_values", "1": "0", "0": "1", "true": "false", "null": "1"}
			if t, ok := repl[toks[j]]; ok {
				toks[j] = t
			} else {
				toks[j] = mutPool[r.Intn(len(mutPool))]
			}
		}
	}
	return strings.Join(toks, "")
}

var bigMulRe = regexp.MustCompile(`[0-9]{5,}|[0-9][eE][+]?[0-9]`)
var hugeNumRe = regexp.MustCompile(`[0-9]{40,}`)

// dangerous: programs that may allocate gigabytes within the time limit
func dangerous(src string) bool {
	if hugeNumRe.MatchString(src) {
		return true // the extracted model prints decimals in quadratic time
	}
	if bigMulRe.MatchString(src) && (strings.Contains(src, "*") || strings.Contains(src, "range") || strings.Contains(src, "limit") || strings.Contains(src, "implode") || strings.Contains(src, "[")) {
		return true
	}
	return strings.Contains(src, "input_filename") || strings.Contains(src, "$__prog") || strings.Contains(src, "modulemeta") || strings.Contains(src, "import ") || strings.Contains(src, "include ")
}


// ---------------------------------------------------------------------------------------------
// systematic blocks

type patv struct {
	text string
	vars []string
}

// destructuring alternatives: patterns up to depth 2 that BIND some variables before a later component
// fails, x bodies that show every variable / fail under the first alternative only, x inputs matching
// each prefix of the patterns
func altBlock() (progs []string, inputs []any) {
	pats := []patv{
		{"$a", []string{"$a"}}, {"[$a]", []string{"$a"}}, {"[$a, $b]", []string{"$a", "$b"}}, {"[$a, [$b]]", []string{"$a", "$b"}},
		{"[[$a], $b]", []string{"$a", "$b"}}, {"[$a, {b: $b}]", []string{"$a", "$b"}}, {"{a: $a}", []string{"$a"}},
		{"{a: $a, b: [$b]}", []string{"$a", "$b"}}, {"{$a, b: {c: $b}}", []string{"$a", "$b"}}, {"{a: [$a], $b}", []string{"$a", "$b"}},
	}
	union := func(ps ...patv) string {
		seen := map[string]bool{}
		var vs []string
		for _, p := range ps {
			for _, v := range p.vars {
				if !seen[v] {
					seen[v] = true
					vs = append(vs, v)
				}
			}
		}
		return "[" + strings.Join(vs, ", ") + "]"
	}
	third := patv{"$c", []string{"$c"}}
	for _, p1 := range pats {
		for _, p2 := range pats {
			for _, withThird := range []bool{false, true} {
				alts := p1.text + " ?// " + p2.text
				all := union(p1, p2)
				if withThird {
					alts += " ?// " + third.text
					all = union(p1, p2, third)
				}
				for _, src := range []string{".", ".[]?"} {
					progs = append(progs,
						src+" as "+alts+" | "+all,
						// fails whenever the first alternative bound $a: rescued by a later alternative or not
						"["+src+" as "+alts+" | if ($a|type) == \"number\" then error(\"first\") else "+all+" end]",
						"try ("+src+" as "+alts+" | "+all+", error("+all+")) catch [\"caught\", .]")
				}
			}
		}
	}
	inputs = []any{
		[]any{1, 2}, []any{1, []any{2}}, []any{[]any{1}, 2}, []any{1, map[string]any{"b": 2}}, []any{1}, []any{},
		map[string]any{"a": 1}, map[string]any{"a": 1, "b": 2}, map[string]any{"a": 1, "b": []any{2}}, map[string]any{"a": []any{1}, "b": 2},
		map[string]any{"a": 1, "b": map[string]any{"c": 2}}, map[string]any{"a": 1, "b": map[string]any{"c": []any{2}}},
		1, nil, "s",
		[]any{[]any{1, 2}, []any{1, []any{2}}, map[string]any{"a": 1, "b": 2}, 3, map[string]any{"a": []any{1}, "b": []any{2}}},
	}
	return
}

// branch joins: a value produced on two control-flow paths that end in different one-instruction forms
// (load / push / dup), followed by a constant or a variable, consumed with data below the stack top
func joinBlock() (progs []string, inputs []any) {
	joins := []string{
		"if . then 100 else $x end", "if . then $x else 100 end", "if . then $x else $y end", "if . then . else $x end",
		"(100, $x)", "($x, 100)", "(., $x)", "(. // $x)", "($x // 100)", "(.a? // $x)", "(try error catch $x)", "(.[]? , $x)",
		"(1 as $z | $x)", "(label $l | $x, break $l)", "(if . then empty else $x end, $y)",
	}
	tails := []string{"$y", "1", "\"k\"", ".", "null", "$x", "[]", "{}", "-1"}
	consumers := []string{
		"(%s) + 10", "10 + (%s)", "{a: (%s)}", "{a: 1, b: (%s)}", "{((%s) | tostring): 1}", "[%s]", "[%s, 3]", "[3, (%s)]",
		"(%s) as $w | [$w, .]", "if (%s) then 1 else 2 end", "[.[(%s)]?]", "[limit(2; %s)]", "(%s) | [., 1]",
		"reduce (%s) as $i (0; . + ($i | numbers))", "[foreach (%s) as $i (0; . + 1; [$i, .])]", "first(%s)", "[(%s) == 1]", "\"s\\(%s)\"",
		"[(%s), (%s)]", "(%s) // 7", "try (%s) catch 9", "[path(%s)]?", ".a = (%s)", "[(%s) | not]",
	}
	for _, j := range joins {
		for _, t := range tails {
			shape := j + " | " + t
			for _, c := range consumers {
				progs = append(progs, "5 as $x | 2 as $y | "+strings.ReplaceAll(c, "%s", shape))
			}
		}
	}
	inputs = []any{true, false, nil, map[string]any{"a": 1}, []any{1, 2}, 0}
	return
}


// wide frames: k variables in one scope (chained bindings, k computed object values, k-ary destructuring,
// k nested reduce/foreach, function bodies with k locals, recursion depth x width): the VM's variable-slot
// buffer is grown at scope entry
func wideBlock() (progs []string, inputs []any) {
	seqs := func(k int, f func(i int) string, sep string) string {
		var b strings.Builder
		for i := 0; i < k; i++ {
			if i > 0 {
				b.WriteString(sep)
			}
			b.WriteString(f(i))
		}
		return b.String()
	}
	for _, k := range []int{1, 2, 31, 32, 33, 34, 63, 64, 65, 130} {
		binds := seqs(k, func(i int) string { return fmt.Sprintf("(%d + (.|length)) as $v%d", i, i) }, " | ")
		vars := seqs(k, func(i int) string { return fmt.Sprintf("$v%d", i) }, ", ")
		progs = append(progs,
			binds+" | ["+vars+"] | add",
			binds+" | [$v0, $v"+fmt.Sprint(k-1)+"]",
			"{"+seqs(k, func(i int) string { return fmt.Sprintf("a%d: (.a%d? + 1)", i, i) }, ", ")+"} | [length, .a0, .a"+fmt.Sprint(k-1)+"]",
			"{"+seqs(k, func(i int) string { return fmt.Sprintf("(\"k%d\" + \"\"): (%d, empty)", i, i) }, ", ")+"} | length",
			"[range("+fmt.Sprint(k)+")] as ["+vars+"] | [$v0, $v"+fmt.Sprint(k-1)+"]",
			"[range("+fmt.Sprint(k)+")] | . as ["+vars+"] ?// $v0 | $v"+fmt.Sprint(k-1),
			". as {"+seqs(k, func(i int) string { return fmt.Sprintf("a%d: $v%d", i, i) }, ", ")+"} | [$v0, $v"+fmt.Sprint(k-1)+"]",
			seqs(k, func(i int) string { return fmt.Sprintf("reduce 1 as $x%d (0; . + ", i) }, "")+"1"+strings.Repeat(")", k),
			seqs(k, func(i int) string { return fmt.Sprintf("[foreach 1 as $x%d (0; . + ", i) }, "")+"1"+strings.Repeat(")]", k)+" | flatten | add",
			"def f: "+binds+" | $v0 + $v"+fmt.Sprint(k-1)+"; [f, f]",
			"def f($d): "+binds+" | if $d > 0 then f($d - 1) + $v0 else $v"+fmt.Sprint(k-1)+" end; f(4)",
			"def f($d): [.[]?] as $w | "+binds+" | if $d > 0 then [f($d - 1), $v"+fmt.Sprint(k-1)+"] else $v0 end; f(3) | flatten | add",
			"[limit(3; .[]?)] | map("+binds+" | $v"+fmt.Sprint(k/2)+")",
			"[.[]? as $e | "+binds+" | $e, $v0] | length",
		)
	}
	inputs = []any{nil, []any{1, 2, 3}, map[string]any{"a0": 1, "a1": 2}, "ab"}
	return
}

// path expressions and updates whose body BINDS with a pattern and then navigates with the bound
// variables (compileBind's opexpbegin/opexpend bracket)
func pathBindBlock() (progs []string, inputs []any) {
	pats := []patv{
		{"$x", []string{"$x"}}, {"[$a]", []string{"$a"}}, {"[$a, $b]", []string{"$a", "$b"}}, {"{$k}", []string{"$k"}},
		{"{a: $a}", []string{"$a"}}, {"{k: $k, a: $a}", []string{"$k", "$a"}}, {"[[$a]]", []string{"$a"}},
		{"[$a] ?// $a", []string{"$a"}}, {"{$k} ?// [$k]", []string{"$k"}},
	}
	sources := []string{".", "(. | .)", "first(.)", ".[0]?", ".a?", "(., .)"}
	wrappers := []string{"path(%s)", "[paths(%s)]?", "(%s) = 5", "(%s) |= 7", "del(%s)", "(%s) += 1", "[path(%s)] | length", "try ((%s) = 5) catch \"e\"", "[getpath(path(%s))]?", "(%s) //= 3"}
	for _, p := range pats {
		v := p.vars[0]
		bodies := []string{".[" + v + "]", ".[" + v + "]?", v, "getpath([" + v + "])?", ".[" + v + "] | .", "(.[" + v + "], .)"}
		if len(p.vars) > 1 {
			bodies = append(bodies, ".["+p.vars[0]+"][" + p.vars[1] + "]?", ".["+p.vars[1]+"]")
		}
		for _, src := range sources {
			for _, b := range bodies {
				e := src + " as " + p.text + " | " + b
				for _, w := range wrappers {
					progs = append(progs, strings.ReplaceAll(w, "%s", e))
				}
			}
		}
	}
	inputs = []any{
		[]any{1, 2}, []any{0, 1}, []any{"a"}, []any{[]any{0}}, []any{[]any{0}, 5},
		map[string]any{"k": "a", "a": 1}, map[string]any{"a": "k", "k": 2}, map[string]any{"k": "k"}, map[string]any{"a": 0, "k": "a"},
		map[string]any{"a": []any{1}, "k": "a"}, nil, 1,
	}
	return
}

// ---------------------------------------------------------------------------------------------
// the stream

func streamC01(c *Ctx) {
	repo := repoDir()
	// implementation-only check: builtin.go in sync with builtin.jq
	diffs := builtinSync(repo)
	c.Stats["builtin_sync_violations"] = diffs
	for _, d := range diffs {
		c.Violation("(builtin-sync %s)", d)
	}

	u12 := small12()
	ext := append(small12(), extendedInputs()...)
	r := c.Rng
	quick := c.Tier == "quick"
	seen := map[string]bool{}
	nprog := map[string]int{}
	var noparse []string

	handPicked := false
	runOn := func(src, kind string, ins []any, inputs []any) {
		if !handPicked && dangerous(src) {
			c.Count("filtered-dangerous")
			return
		}
		p, ok := prepare(src)
		if !ok {
			if isScopeError(lastStatic.class) && !hugeNumRe.MatchString(src) {
				// the compiler rejected the program for an unbound name: the model judges its scoping
				if !seen["static\x00"+src] {
					seen["static\x00"+src] = true
					c.Emit("(static %s %s)", lastStatic.ast, srcChunks(src))
					c.Count(kind + ":static-" + lastStatic.class)
				}
				return
			}
			c.Count(kind + "-noparse")
			if kind == "rand" && len(noparse) < 40 {
				noparse = append(noparse, src)
			}
			return
		}
		nprog[kind]++
		for _, in := range ins {
			key := src + "\x00" + canon(in, nil)
			if seen[key] {
				continue
			}
			seen[key] = true
			c.Count(kind + ":" + emitCase(c, p, in, inputs))
		}
	}
	pickInputs := func(n int, from []any) []any {
		out := make([]any, 0, n)
		for i := 0; i < n; i++ {
			out = append(out, from[r.Intn(len(from))])
		}
		return out
	}
	someInputs := []any{1, "x", []any{2}}

	// (0) deterministic blocks first (reg.go): regression corpus of fixed findings, scoping, jq-defined callees in
	// path arguments, boundary numbers.  They are hand-picked, so the `dangerous` filter does not apply.
	handPicked = true
	for _, f := range firstBlocks() {
		per := map[string]int{"regress": len(f.ins), "scope": 2, "callee": 3, "boundary": 2, "marker": 2, "opt": 3, "redef": 2, "pattern": 2, "label": 2, "ifelse": 2, "alias": 2, "bigint": 2, "intbound": 3}[f.name]
		for i, src := range f.progs {
			if quick && (f.name == "scope" || f.name == "marker" || f.name == "pattern" || f.name == "ifelse" || f.name == "bigint" || f.name == "intbound") && i%3 != int(c.Seed%3) {
				continue // a third per quick run; everything in the thorough tier
			}
			if quick {
				var ins []any
				for j := 0; j < per; j++ {
					ins = append(ins, f.ins[(i+j*5+int(c.Seed%11))%len(f.ins)])
				}
				runOn(src, f.name, ins, f.inputs)
			} else {
				runOn(src, f.name, f.ins, f.inputs)
			}
		}
	}
	handPicked = false
	// (a)
	exh := exhaustive(r.Fork(), "quick")
	for i, src := range exh {
		if quick {
			// every program on 2 of the 12 inputs (rotating, so all inputs are used evenly)
			runOn(src, "exh", []any{u12[i%12], u12[(i*5+3)%12]}, someInputs)
		} else {
			runOn(src, "exh", u12, someInputs)
		}
	}
	if !quick {
		// size-4 programs (unary of unary, binary with a unary operand), 3 inputs each
		ext4 := exhaustive(r.Fork(), c.Tier)[len(exh):]
		for i, src := range ext4 {
			runOn(src, "exh4", []any{u12[i%12], u12[(i*5+3)%12], u12[(i*7+8)%12]}, someInputs)
		}
	}
	// (a') systematic blocks: destructuring alternatives and branch joins
	ap, ai := altBlock()
	jp, ji := joinBlock()
	for i, src := range ap {
		if quick {
			runOn(src, "alt", []any{ai[i%len(ai)], ai[(i*7+3)%len(ai)]}, someInputs)
		} else {
			runOn(src, "alt", ai, someInputs)
		}
	}
	for i, src := range jp {
		if quick {
			if i%3 == int(c.Seed%3) {
				runOn(src, "join", []any{ji[i%len(ji)]}, someInputs)
			}
		} else {
			runOn(src, "join", ji, someInputs)
		}
	}
	wp, wi := wideBlock()
	for i, src := range wp {
		if quick {
			runOn(src, "wide", []any{wi[i%len(wi)], wi[(i+1)%len(wi)]}, someInputs)
		} else {
			runOn(src, "wide", wi, someInputs)
		}
	}
	pp, pi := pathBindBlock()
	for i, src := range pp {
		if quick {
			if i%4 == int(c.Seed%4) {
				runOn(src, "pathbind", []any{pi[i%len(pi)], pi[(i*5+1)%len(pi)]}, someInputs)
			}
		} else {
			runOn(src, "pathbind", pi, someInputs)
		}
	}
	// (a'') third wave of systematic families (fam.go): interpolation, limit/first/until vs errors, input streams,
	// getpath/paths/pick, $__loc__, natives inside paths, folds with empty / several outputs, depth near the bounds
	for _, f := range familyBlocks() {
		if quick && (f.name == "inputs0" || f.name == "inputs1") {
			continue
		}
		for i, src := range f.progs {
			if quick {
				runOn(src, "fam-"+f.name, []any{f.ins[(i+int(c.Seed%7))%len(f.ins)]}, f.inputs)
			} else {
				runOn(src, "fam-"+f.name, f.ins, f.inputs)
			}
		}
	}
	// (c) + (d)
	corpus, cskipped := loadCorpus(repo)
	c.Stats["corpus_queries"] = len(corpus)
	c.Stats["corpus_skipped_flags_or_input"] = cskipped
	nmut := 1
	if !quick {
		nmut = 8
	}
	for _, cc := range corpus {
		var ins []any
		var inputs []any
		switch {
		case cc.nullIn:
			ins, inputs = []any{nil}, cc.inputs
		case len(cc.inputs) == 0:
			ins = []any{nil}
		default:
			ins, inputs = []any{cc.inputs[0]}, cc.inputs[1:]
			if !strings.Contains(cc.query, "input") {
				ins = cc.inputs
				inputs = nil
			}
		}
		if len(ins) > 4 {
			ins = ins[:4]
		}
		runOn(cc.query, "corpus", ins, inputs)
		if !quick {
			runOn(cc.query, "corpus", pickInputs(3, ext), someInputs)
		}
		for m := 0; m < nmut; m++ {
			ms := mutate(r, cc.query)
			if ms == "" || ms == cc.query {
				continue
			}
			mins := ins
			if len(mins) > 1 {
				mins = mins[:1]
			}
			runOn(ms, "mut", append(append([]any{}, mins...), pickInputs(1, ext)...), inputs)
		}
	}
	// (b) random programs: of 6 candidate inputs keep the 2 on which the program gets furthest (most
	// outputs before an error), plus sometimes a random value, so that runs are not all early type errors
	nrand := c.N
	for i := 0; i < nrand; i++ {
		src := randomProgram(r.Fork())
		if dangerous(src) {
			c.Count("filtered-dangerous")
			continue
		}
		cands := pickInputs(6, ext)
		if p, ok := prepare(src); ok {
			score := func(in any) int {
				oc := runProg(p, in, someInputs, 50*time.Millisecond)
				if oc.dropped != "" {
					return -1
				}
				n := 2 * len(oc.outs)
				if !strings.HasPrefix(oc.ending, "(err") {
					n++
				}
				return n
			}
			best := []int{0, 1}
			sc := make([]int, len(cands))
			for j := range cands {
				sc[j] = score(cands[j])
			}
			for j := range cands {
				if sc[j] > sc[best[0]] {
					best[1], best[0] = best[0], j
				} else if j != best[0] && sc[j] > sc[best[1]] {
					best[1] = j
				}
			}
			cands = []any{cands[best[0]], cands[best[1]]}
		}
		ins := cands[:2]
		if r.Chance(1, 3) {
			ins = append(ins, randValue(r, 3))
		}
		runOn(src, "rand", ins, someInputs)
	}
	c.Stats["programs"] = nprog
	c.Stats["noparse_samples"] = noparse
}
