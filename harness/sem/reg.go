// Deterministic blocks that run FIRST in both streams (C01 and C04):
//
//	regress   one case (plus neighbours) for every `fixed:` entry of KNOWN_FINDINGS.txt that concerns C01/C04,
//	          so that a reverted fix is reported by a named program and not left to the random generators
//	scope     definitions (functions of arity 0/1, `as` variables) placed inside every syntactic position that
//	          opens a scope, followed by a use of the same name OUTSIDE that position, with and without an outer
//	          binding of the name (outer binding visible / compile error "not defined")
//	callee    index / slice / getpath arguments that are calls of jq-DEFINED one-instruction functions, inside
//	          path expressions and updates, with their de-optimised spellings
//	boundary  boundary numbers (+-2^63, +-2^53, 2^31, 2^32, 1e19, nan, +-infinite, -0.0, fractions) in slice / index /
//	          limit / range / repeat-count / nth / flatten / getpath positions, as literals and as input data
package main

import (
	"fmt"
	"strings"
)

func regressBlock() fam {
	ps := []string{
		// 0d5fe66 peephole fused `load $x ; const 2` across a comma join point
		"1 as $x | ((1, $x) | 2) + 10", "1 as $x | {a: ((1, $x) | 2)}", "1 as $x | [((1, $x) | 2)]", "1 as $x | ((., $x) | 2) + 10", "1 as $x | (($x, 1) | 2) + 10", "1 as $x | 2 as $y | ((1, $x) | $y) + 10",
		"1 as $x | (if . then 1 else $x end | 2) + 10", "1 as $x | ((1, $x) | \"k\") as $k | {($k): 1}", "1 as $x | {((1, $x) | \"k\"): 1}", "1 as $x | [limit(3; (1, $x) | 2)]",
		// 2fbb0a9 constant-array folding matched opcodes only
		"[((1, .) | 2)]", "[((1, .) | 2), 3]", "[((1, 2) | 3)]", "[(1, .) | 2]", "[(., 1) | 2, 3]", "[1, ((2, .) | 3)]", "{a: [((1, .) | 2)]}", "[[((1, .) | 2)]]", "[((1, .) | 2)] | length", "[((1, .) | \"s\"), null]", "[((1, 2) | 3), ((4, 5) | 6)]", "[(1 | 2)]", "[(1, 2 | 3)]", "[((1, .) | 2, 3)]",
		// 3cefc79 `?//` left stale values in variables of later non-matching patterns
		"(1, [2]) as [$a] ?// $b | [$a, $b]", "[(1, [2]) as [$a] ?// $b | [$a, $b]]", "([2], 1) as [$a] ?// $b | [$a, $b]", "([[1]], [2], 3) as [[$a]] ?// [$b] ?// $c | [$a, $b, $c]", "(1, [2], {a: 3}) as [$a] ?// {a: $b} ?// $c | [$a, $b, $c]",
		"[.[]? as [$a] ?// $b | [$a, $b]]", "[.[]? as {a: $a} ?// [$a, $b] ?// $b | [$a, $b]]", "reduce (1, [2]) as [$a] ?// $b (0; . + ($a // 10) + ($b // 100))", "[foreach (1, [2], 3) as [$a] ?// $b (0; . + 1; [$a, $b])]",
		// 99a2c99 constant index / number folding ignored the literal's suffix list (incl. unary minus)
		"{\"a\": 1, \"ab\": 2} | .[\"ab\"[0:1]]", "{\"a\": 1, \"ab\": 2} | .[\"ab\"[1:]]", "{\"a\": 1, \"ab\": 2} | .[\"ab\"[0:1]] = 5", "{\"a\": 1, \"ab\": 2} | path(.[\"ab\"[0:1]])", "{\"a\": 1, \"ab\": 2} | [.[\"ab\"[0:1], \"ab\"]]", "{\"a\": 1} | .[\"a\"[5:]]?", "{\"a\": 1} | try .[\"a\"[0]] catch \"c\"",
		"-1[0]", "try -1[0] catch \"caught\"", "[-1[]?]", "try -1[\"a\"] catch \"caught\"", "[.[-1[0]?]]", "[.[-1[0]?]?]", "+1[0]?", "[+1[]?]", "-1?", "[-1.5[0]?]", "[- 1[0]?]", "-(1[0]?)", "[-(1[]?)]", "[.[-1[0:1]?]?]", "[.[-1] , .[-1[0]?]]", "[.[1[0]?]]", "[.[1[]?]]", "try (.[-1[0]?] = 5) catch \"c\"", "[.[]? | -1[0]?]",
		"[-1, -1[0]?]", "-1 | .[0]?", "try (-1 | .[0]) catch \"c\"", "[-0[0]?]", "-1 as $x | $x", "[-1[0]?, -2]", "[-\"a\"[0:1]?]", "try -\"a\"[0:1] catch \"c\"", "[-null[0]?]", "[-[1][0]]", "-[1][0]", "-{a: 1}.a", "[-{a: 1}.b?]", "-1 - -1[0]?", "[1, -1[0]?, 2]", "{a: -1[0]?}", "[{a: -1[0]?}]", ".[-1[0]?:]?", "[.[:-1[0]?]?]",
		// ea6cd2a two labels of the same name shared one variable slot
		"label $f | (1, break $f) | label $f | .", "[label $f | (1, break $f) | label $f | .]", "label $f | label $f | break $f", "[label $f | (label $f | 1, break $f), 2, break $f, 3]", "[label $a | label $b | (1, break $b), (2, break $a), 3]", "[label $f | (1, 2) | label $f | if . == 2 then break $f else . end]",
		"def g: label $f | 1, break $f; [label $f | g, 2, break $f, 3]", "[label $f | (1, 2) | (label $f | ., break $f), 9]", "[label $f | 1, (label $f | 2, break $f), break $f, 3]", "label $f | (label $g | 1, break $f) | label $f | 2", "[.[]? | label $f | (., break $f) | label $f | ., 0]",
		// f75f5e3 inlined one-instruction argument owned a variable of the dropped scope
		"1 + (label $l | .)", "1 + (label $l | 1, break $l)", "[.[]? | 1 + (label $l | .)]", "(label $l | .) + 1", "[limit(1; label $l | .)]", "first(label $l | .)", "{a: (label $l | .)}", "[.[label $l | 0]?]", "(label $l | .) as $x | $x", "(label $a | .) + (label $b | 1)", "1 - (label $l | 2, break $l)", "\"\\(label $l | .)\"", "[label $l | ., break $l] + [label $l | 1]",
		"1 + (1 as $x | .)", "1 + (1 as $x | $x)", "1 + (reduce . as $x (0; .))", "1 + ([foreach . as $x (0; .)] | length)", "1 + (. as [$a] ?// $a | 1)", "[1 + (label $l | .[]?)]", "(label $l | 1) * (label $l | 2)", "[range(label $l | 2)]", "[limit(label $l | 1; 1, 2)]", "[.[(label $l | 0):(label $m | 1)]?]",
	}
	ins := []any{nil, true, []any{1, 2}, []any{[]any{1}, 2, map[string]any{"a": 3}}, map[string]any{"a": 1, "ab": 2}, 0}
	return fam{"regress", ps, ins, nil}
}

func scopeBlock() fam {
	// %s = the scoped piece (a definition followed by a use inside), OUT = a use of the same name outside
	positions := []string{
		"if . then %s else 0 end | OUT", "if . then 0 else %s end | OUT", "if . then 0 elif . == null then %s else 0 end | OUT", "if . then %s elif true then OUT else 0 end", "if . then %s else OUT end", "if . then 0 elif true then %s else OUT end",
		"if (%s) then OUT else OUT end", "if . then %s end | OUT", "[if . then %s else OUT end, OUT]", "[.[]? | if . then %s else OUT end]",
		"try (%s) catch 0 | OUT", "try error(1) catch (%s) | OUT", "try (%s | error) catch OUT", "[(%s)?, OUT]",
		"reduce (1, 2) as $i (%s; .) | OUT", "reduce (1, 2) as $i (0; %s) | OUT", "reduce (%s) as $i (0; . + 1) | OUT", "reduce (1, 2) as $i (%s; OUT)",
		"[foreach (1, 2) as $i (%s; .)] | OUT", "[foreach (1, 2) as $i (0; %s)] | OUT", "[foreach (1, 2) as $i (0; .; %s)] | OUT", "[foreach (1, 2) as $i (0; %s; OUT)]", "[foreach (1, 2) as $i (%s; OUT; .)]",
		"[%s] | OUT", "[%s, OUT]", "[OUT, %s, OUT]", "{a: (%s)} | OUT", "{a: (%s), b: OUT}", "{(%s | tostring): 1} | OUT", "{(%s | tostring): OUT}", "{\"k\\(%s)\": OUT}",
		"def h(a): [a]; h(%s) | OUT", "def h(a; b): [a, b]; h(%s; OUT)", "def h(a; b): [b, a]; h(OUT; %s)", "[limit(2; %s)] | OUT", "[limit(%s; OUT)]", "first(%s), OUT", "[path(%s | .)?] | OUT", "[range(%s)] | OUT",
		"\"\\(%s)\" | OUT", "\"\\(%s)\\(OUT)\"", "\"\\(OUT)\\(%s)\\(OUT)\"", "@json \"\\(%s)\\(OUT)\"",
		"(%s) // OUT", "(empty // (%s)) | OUT", "[(%s), OUT]", "(%s) | OUT", "((%s)) + OUT", "OUT + (%s)", "[(%s) as $q | OUT]", "(%s) as $q | OUT",
		"(label $l | %s) | OUT", "[label $l | (%s), OUT]", "[.[(%s) | 0]?] | OUT", "[.[(%s | 0):OUT]?]", ".a = (%s) | OUT", "(.a |= (%s)) | OUT", "def w: %s; w | OUT", "def w: %s; [w, OUT]", "def w(a): a; w(%s) , OUT",
		"[.[]? | (%s)] | OUT", "-(%s) | OUT", "[(%s) == OUT]", "[(%s) and OUT]", "(%s), (%s) | OUT",
	}
	type dv struct{ in, out, outer string }
	defs := []dv{
		{"def f: 1; f", "f", "def f: 2; "},
		{"def f: 1; f + 1", "f", ""},
		{"def f(g): g + 10; f(1)", "f(2)", "def f(g): [g]; "},
		{"def f(g): g + 10; f(1)", "f(2)", ""},
		{"def f(g): g; f(1)", "f", "def f: 2; "},
		{"def f: 1; f", "f(3)", "def f(g): [g]; "},
		{"1 as $v | $v", "$v", "2 as $v | "},
		{"1 as $v | $v + 1", "$v", ""},
		{"def f: 1; def g: f + 1; g", "g", "def g: 20; "},
		{"def f: def f: 1; f + 1; f", "f", "def f: 2; "},
		{"def f($a): $a + 1; f(1)", "a", "def a: 2; "},
		{"def f($a): $a + 1; f(1)", "$a", "2 as $a | "},
		{"[1] as [$v] | $v", "$v", "2 as $v | "},
		{"reduce 1 as $v (0; $v)", "$v", "2 as $v | "},
		{"label $f | 1, break $f", "f", "def f: 2; "},
	}
	var ps []string
	for i, pos := range positions {
		for j, d := range defs {
			p := strings.ReplaceAll(strings.ReplaceAll(pos, "%s", d.in), "OUT", d.out)
			ps = append(ps, d.outer+p)
			if d.outer != "" && (i+j)%3 == 0 {
				ps = append(ps, p) // the same without the outer binding: must not compile
			}
		}
	}
	return fam{"scope", ps, []any{true, false, nil, []any{1, nil}, map[string]any{"a": 1}}, nil}
}

func calleeBlock() fam {
	defs := "def k: .key; def i: 0; def n: -1; def p: [\"a\"]; def s: \"a\"; def id: .; def kk: k; def l: length; def e: empty; def two: (0, 1); def kx(x): x; "
	uses := []string{
		"path(.[k])", "[path(.[k])]", ".[k]", "[.[k]]", ".[k] = 9", ".[k] |= 7", ".[k] += 1", ".[k] //= 1", "del(.[k])", "[paths(.[k]?)]?", "path(.[k]?)", "try path(.[k]) catch \"P\"", "path(.[kk])", ".[kk] = 9", "path(.[k | .])", "path(.[(k | .)])", "path(.[(k, empty)])", ".[(k, empty)] = 9", "path(.[kx(k)])", ".[kx(.key)] = 9",
		"path(.arr[i])", ".arr[i]", ".arr[i] = 9", ".arr[i] |= 7", "del(.arr[i])", "path(.arr[n])", ".arr[n] = 9", "del(.arr[n])", "path(.arr[(i | .)])", "path(.arr[(i, empty)])", "[path(.arr[two])]", ".arr[two] = 9", "[.arr[two]]", "path(.arr[i:])", "path(.arr[:n])", "path(.arr[i:n])", ".arr[i:] | length", "[.arr[n:]]", "del(.arr[i:n])", "path(.arr[l])?", "[.arr[e]]", "[path(.arr[e])]",
		"path(getpath(p))", "getpath(p)", "getpath(p) |= 5", "getpath(p) = 5", "del(getpath(p))", "[paths] | index([p])?", "path(getpath(p) | .)", "path(getpath((p | .)))", "path(getpath((p, empty)))", "getpath((p | .)) |= 5", "[getpath(p, [\"key\"])]", "path(getpath([s]))", "path(getpath([k]))", "getpath([k]) = 9", "try (getpath([k, i]) = 9) catch \"G\"",
		"path(.[s])", ".[s] = 9", "path(.[id | .key])", ".[id | .key] = 9", "path(id | .[k])", "path(.[k] | id)", "path(id)", "path(id | id)", "[path(.[k], .[s])]", "(.[k], .[s]) = 1", "path(first(.[k], .[s]))", "[path(.. | objects | .[k]?)]", "reduce path(.[k]) as $q (.; setpath($q; 1))", "[path(.[k][i]?)]", "path(.arr[i] | id)",
		"path(.[k]) as $q | getpath($q)", "to_entries | map(.key) | index(k)?", "has(k)?", "[.[k, s]]", "[path(.[k, s])]", ".[k, s] = 9", "path(.[if k == \"a\" then s else k end])", "path(.[k // s])", "path(.[try k catch s])", "[.[]? | path(.[k])?]", "path(.[k | tostring])?", "path(.[k | ascii_downcase])?",
		"def k2: .key; def f: path(.[k2]); f", "def f(x): path(.[x]); f(k)", "def f(x): .[x] = 9; f(k)", "def f($x): path(.[$x]); f(k)", "def f: .[k] |= 7; f", "path(.[k]) == [k]", "[limit(1; path(.[k]))]", "label $o | path(.[k]), break $o",
	}
	var ps []string
	for _, u := range uses {
		ps = append(ps, defs+u)
	}
	ins := []any{
		map[string]any{"key": "a", "a": 1, "arr": []any{1, 2, 3}}, map[string]any{"key": "arr", "arr": []any{5}}, map[string]any{"key": "zz", "a": map[string]any{"key": "a"}, "arr": []any{}},
		map[string]any{"key": "key", "a": nil}, map[string]any{"key": 0, "arr": []any{[]any{1}}}, map[string]any{"a": 1}, nil,
	}
	return fam{"callee", ps, ins, nil}
}

func boundaryBlock() fam {
	lits := []string{
		"9223372036854775808.0", "9.223372036854775808e18", "-9223372036854775808.0", "9223372036854774784.0", "-9223372036854777856.0", "9223372036854775807", "9223372036854775808", "-9223372036854775808", "-9223372036854775809",
		"1e19", "-1e19", "9007199254740992.0", "9007199254740993", "-9007199254740992.0", "4294967296.0", "4294967296", "2147483648.0", "-2147483649", "nan", "infinite", "-infinite", "-0.0", "0.5", "-0.5", "1.5", "2.5", "-1.5", "1e308", "1e-320", "0.9999999999999999", "2.0000000000000004",
	}
	var ps []string
	for i, b := range lits {
		ps = append(ps,
			fmt.Sprintf(".[:%s]", b), fmt.Sprintf(".[%s:]", b), fmt.Sprintf(".[%s]", b), fmt.Sprintf("[limit(%s; 1, 2, 3)]", b), fmt.Sprintf("[limit(3; range(%s))]", b),
			fmt.Sprintf("try (\"abc\" | .[:%s], .[%s:]) catch \"S\"", b, b), fmt.Sprintf("[limit(3; range(0; %s))]", b), fmt.Sprintf("[limit(3; range(0; 10; %s))]", b), fmt.Sprintf("try (\"\" * %s) catch \"R\"", b),
			fmt.Sprintf("nth(%s; 1, 2, 3)", b), fmt.Sprintf("has(%s)", b), fmt.Sprintf("getpath([%s])", b), fmt.Sprintf("del(.[%s])", b), fmt.Sprintf("flatten(%s)", b))
		switch i % 3 {
		case 0:
			ps = append(ps, fmt.Sprintf(".[1:%s]", b), fmt.Sprintf(".[%s:2]", b), fmt.Sprintf(".[-%s:]", b), fmt.Sprintf("[limit(3; range(%s; %s + 3))]", b, b), fmt.Sprintf("path(.[:%s])", b), fmt.Sprintf("(.[%s] = 9)", b))
		case 1:
			ps = append(ps, fmt.Sprintf(".[%s:%s]", b, b), fmt.Sprintf("[.[]?][%s:] | length", b), fmt.Sprintf("first(limit(%s; repeat(1)))", b), fmt.Sprintf("path(.[%s])", b), fmt.Sprintf("(.[:%s] |= .)", b), fmt.Sprintf("try (\"ab\" * (%s | if . > 3 or . < -3 then 0 else . end)) catch \"R\"", b))
		default:
			ps = append(ps, fmt.Sprintf("(%s) as $b | .[:$b]", b), fmt.Sprintf("(%s) as $b | .[$b:]", b), fmt.Sprintf("([range(5)] | .[%s:] , .[:%s])", b, b), fmt.Sprintf("setpath([%s]; 1)", b), fmt.Sprintf("(%s | floor, ceil, round, fabs, sqrt)", b), fmt.Sprintf("%s | tojson, (. == (. | tojson | fromjson))?", b))
		}
	}
	// the same boundaries arriving as DATA: .[1] is the bound
	ps = append(ps,
		".[0][:.[1]]", ".[0][.[1]:]", ".[0][.[1]]", "[limit(.[1]; .[0][]?)]?", "(.[0] | tostring | .[:5])", ".[1] as $b | (.[0] | .[$b:$b])", "(.[0] | del(.[:.[1]]?))", ".[1] | tojson",
		"([.[0][:.[1]], .[0][.[1]:]] | map(length))", ".[1] as $b | [limit(3; range($b))]?", ".[1] as $b | nth($b; .[0][]?)", ".[1] | [floor?, ceil?, (. % 7)?]", ".[1] | [. == 9223372036854775808, . < 9223372036854775808, . > 9223372036854775807]")
	two63 := 9223372036854775808.0
	ins := []any{
		[]any{1, 2, 3}, "abc", []any{[]any{1, 2, 3}, two63}, []any{[]any{1, 2, 3}, -two63}, []any{"héllo", two63}, []any{[]any{1, 2, 3}, 9007199254740992.0}, []any{[]any{1, 2, 3}, bigOf("9223372036854775808")},
		[]any{[]any{1, 2, 3}, 1e19}, []any{[]any{1, 2, 3}, 1.5}, []any{[]any{}, two63}, nil, []any{[]any{1, 2, 3}, int(9223372036854775807)},
	}
	return fam{"boundary", ps, ins, nil}
}

// marker: sub-expressions that NAVIGATE inside every position the compiler brackets with opexpbegin/opexpend
// ($-parameter evaluation, the source of `as`, the condition of if / and / or / select, the right-hand side of `=`,
// key arguments of index / slice / getpath), all inside path expressions, updates and deletions: navigation done
// in such a position must not become part of the path
func markerBlock() fam {
	es := []string{
		// $-parameters
		"def f($a): .[$a]; f(.k)", "def f($a): .b; f(.a.c)", "def f($a): .; f(.a)", "def f($a; $b): .[$a][$b]?; f(.k; .i)", "def f($a): .a | .[$a]?; f(.k)", "def f($a): if $a then .a else .b end; f(.c)", "def f($a): .a, .b; f(.[]?)", "def f(g; $a): g | .[$a]?; f(.a; .k)", "def f($a): $a; f(.a)", "def f($a): .a[$a]?; f(.i, .j)",
		// sources of `as` (one pattern: the marker is a nop; several: expend)
		".a as $x | .b", "(.a | .c) as $x | .b", ".k as $x | .[$x]", ".[]? as $x | .b", ".a as [$x] | .b", ".a as {c: $x} | .b", ".a as [$x] ?// $x | .b", ".k as [$x] ?// $x | .[$x]?", "(.a, .b) as $x | .c", "first(.[]?) as $x | .a", ".a.c as $x | .a | .[$x]?", ". as {k: $x} | .[$x]", ". as {k: $x, i: $y} | .a[$y]?", "(.k | ascii_downcase?) as $x | .[$x]?", ".a as $x | .b as $y | .c",
		// conditions
		"if .a then .b else .c end", "if .a.c then . else .c end", "if (.a | .c) then .b else .c end", "if .[]? then .a else .b end", "if . then .a else .b end", "if empty then .a else .b end", "if .a then .b elif .b then .c else .a end", "if .a then .b end", "select(.a)", "select(.a and .b)", "select(.a or .b.c?)", "if .a and .b then .c else .a end", "if (.a or .c) then .b else .c end", ".a | select(.c)", ".[]? | select(.c?)", "select(.a | not)", "if .a == .b then .a else .b end", "if (.a | length) > 0 then .a else .b end", "select(any(.[]?; . == 1))", "select(has(\"a\")?)", "if (.k as $x | .[$x]) then .a else .b end", "values", "select(.a // .b)", "select(.a | . != null)",
		// key arguments that navigate
		".[.k]", ".a[.i]?", ".a[.i:.j]?", ".a[.i:]?", "getpath(.p)", "getpath([.k])", ".[.k | ascii_downcase?]?", ".a[.a | length - 1]?", ".[.p[0]]?", ".[.k, .p[0]?]?", ".a[(.i, .j)]?", ".[first(.k, .p[]?)]?", ".[.k]?.c?", ".[.k // \"a\"]", ".[if .k then .k else \"a\" end]", ".[.k as $x | $x]", ".a[.i as $x | $x + 0]?", "getpath(.p | .[:1])", "getpath(.p, [.k])", ".[.[\"k\"]]",
		// other constructs inside path expressions
		"first(.a, .b)", "limit(1; .a, .b)", ".a // .b", ".a? // .c", "try .a catch .b", "label $l | .a, break $l", ".a | first(.c, .d)?", "reduce .a as $x (.; .b)", "reduce (.a, .b) as $x (.; .c)?", "foreach (.a, .b) as $x (.; .c; .)?", "reduce .k as $x (.; .[$x])", "[.a, .b] | .[0]", "{x: .a} | .x", ".a | recurse(.c?)", "recurse(.a?; . != null)", "..", ".. | select(type == \"number\")", "getpath([\"a\"]) | .c?", "paths as $q | getpath($q)", "to_entries[]?.value", "(.a, .b) | .c?", ".a | (.c, .d)?", "empty", "error?", ".a | first", "first(.a[]?)", "last(.a[]?)", "nth(1; .a[]?)", "until(.c? == null; .c)", "input?", "$__loc__?", ".a | if . then .c? else . end", ".a.c?, .b", "(.a | .c)?", ".[\"a\"].c?",
	}
	wrappers := []string{"[path(%s)]", "[%s]", "(%s) = 9", "(%s) |= 7", "del(%s)", "[paths(%s)]", "(%s) += 1", "[path(%s)] | length", "path(first(%s))", "[limit(2; path(%s))]"}
	var ps []string
	for i, e := range es {
		for j, w := range wrappers {
			if j > 1 && (i+j)%3 != 0 {
				continue
			}
			ps = append(ps, strings.ReplaceAll(w, "%s", e))
		}
	}
	// right-hand sides of assignments navigate in expression mode
	ps = append(ps,
		".a = .b", ".a = (.b | .c?)", "(.a, .b) = .c", ".a = .a.c?", ".[.k] = .i", ".a.c = .k", ".a = (.b, .c)", ".a |= .c?", ".a += .i", ".a //= .b", ".a = (.k as $x | .[$x])", ".a = (if .b then .c else .k end)", ".a = first(.b, .c)", ".a.c |= (.d? // 0)", ".[.k] |= .c?", ".a[.i]? = .j", "(.a | .c?) = .b",
		"path(.a = .b)?", "[paths] | length", ".a = .b | .a", "[.a = (.b, .c) | .a]", ".a = (.b | .[]?)", "reduce (.a = .b) as $x (0; 1)", ".a = (.b as $x | $x)", "def f($a): .a = $a; f(.b)", "def f(g): .a = g; f(.b)", "def f(g): .a |= g; f(.c?)")
	ins := []any{
		map[string]any{"k": "a", "i": 0, "j": 2, "p": []any{"a", "c"}, "a": map[string]any{"c": 1, "d": nil}, "b": []any{1, 2, 3}, "c": true},
		map[string]any{"k": "b", "i": 1, "j": 1, "p": []any{"b", 0}, "a": []any{5, 6, 7}, "b": map[string]any{"c": "x"}, "c": false},
		map[string]any{"k": "c", "i": -1, "j": nil, "p": []any{}, "a": nil, "b": 2, "c": nil},
		map[string]any{"a": map[string]any{"c": map[string]any{"c": nil}}, "b": nil}, []any{map[string]any{"c": 1}, map[string]any{"c": nil}}, nil,
	}
	return fam{"marker", ps, ins, []any{"in"}}
}

// opt: programs at the preconditions of the remaining compiler optimisations: tail-call elimination (arity 0,
// with / without variables in scope, tail position through if / elif / jumps, non-tail positions), constant results of
// if (opdup -> opnop), constant objects and arrays (folding, sharing of the folded constant between evaluations,
// updates of a folded constant), jump threading through nested conditionals
func optBlock() fam {
	ps := []string{
		// tail calls
		"def f: if . < 3 then . + 1 | f else . end; 0 | f", "def f: . as $x | if $x < 3 then $x + 1 | f else . end; 0 | f", "def f: if . < 3 then . + 1 | f else ., 9 end; [0 | f]", "def f: if . < 3 then (. + 1 | f), 7 else . end; [0 | f]", "def f: if . < 3 then . + 1 | f | . else . end; 0 | f",
		"def f: if . < 3 then [. + 1 | f] else . end; 0 | f", "def f: if . < 3 then (. + 1 | f) as $x | $x else . end; 0 | f", "def f: if . < 3 then try (. + 1 | f) catch 0 else . end; 0 | f", "def f: if . < 3 then (. + 1 | f) // 0 else . end; 0 | f", "def f: if . < 3 then (. + 1 | f)? else . end; 0 | f",
		"def f: if . < 3 then . + 1 | f elif . < 5 then . + 2 | f else . end; 0 | f", "def f: if . >= 3 then . else . + 1 | f end; 0 | f", "def f: if . < 3 then . + 1 | f else error(\"top\") end; try (0 | f) catch .", "def f: if . < 3 then . + 1 | f else empty end; [0 | f]", "def f: label $l | if . < 3 then . + 1 | f else ., break $l end; [0 | f]",
		"def f(g): if . < 3 then . + 1 | f(g) else g end; 0 | f(. * 2)", "def f($n): if $n < 3 then f($n + 1) else $n end; f(0)", "def f: def g: if . < 2 then . + 1 | g else . end; g | if . < 4 then . + 2 | f else . end; 0 | f", "def f: def g: f; if . < 3 then . + 1 | g else . end; 0 | f", "def g: . + 1; def f: if . < 3 then g | f else . end; 0 | f",
		"def f: if . < 3 then . + 1 | f else . end; [0, 1, 5 | f]", "def f: if . < 3 then . + 1 | f else . end; 0 | f | f", "def f: if . < 3 then . + 1 | f else . end; [limit(2; (0, 1) | f)]", "def f: if . < 3 then . + 1 | f else . end; path(0 | f)?", "def f: if .a then .a | f else . end; path(f)", "def f: if .a then .a | f else . end; [paths(f)]?", "def f: if .a then .a | f else . end; f |= 5?",
		"def f: if length < 3 then . + [length] | f else . end; [] | f", "def f: if length < 3 then . + \"x\" | f else . end; \"\" | f", "def f: (select(. < 3) | . + 1 | f), .; [0 | f]", "def f: ., (select(. < 3) | . + 1 | f); [0 | f]", "def f: if . < 200 then . + 1 | f else . end; 0 | f", "def f: . as $x | if $x < 200 then $x + 1 | f else . end; 0 | f", "def f: reduce (1, 2) as $i (.; . + $i) | if . < 10 then f else . end; 0 | f", "def f: [.[]? | . + 1] | if (add // 9) < 9 then f else . end; [1, 2] | f",
		// constant results of if
		"if . then 1 else 2 end", "if . then 1 else 2 end | ., .", "[if . then 1 else 2 end, .]", "if . then 1 else 2 end as $x | [$x, .]", "[if (true, false) then 1 else 2 end]", "[if empty then 1 else 2 end]", "try (if error(\"c\") then 1 else 2 end) catch .", "if . then (if . then 1 else 2 end) else 3 end", "if . then 1 elif . == null then 2 else 3 end", "if . then 1 else . end", "if . then . else 2 end", "if . then \"a\" else null end", "if . then [1] else {} end", "if . then -1 else 1 end", "if . then 1 else -1 end | . + 1",
		"[path(if . then 1 else 2 end)]?", "[1, 2] | .[if . then 0 else 1 end]", "{a: (if . then 1 else 2 end)}", "{(if . then \"a\" else \"b\" end): 1}", "(if . then 1 else 2 end) + 10", "10 + (if . then 1 else 2 end)", "reduce (1, 2) as $i (if . then 1 else 2 end; . + $i)", "[.[]? | if . then 1 else 2 end]", "[limit(1; if . then 1 else 2 end)]", "first(if . then 1 else 2 end)", "if (if . then true else false end) then 1 else 2 end", "if . then 1 else 2 end | if . == 1 then \"one\" else \"two\" end", "[if . then 1 else 2 end, if . then 3 else 4 end]", "if . then 1 end", "if . then 1 else 2 end | not", "(if . then 1 else 2 end) as $a | (if . then 3 else 4 end) as $b | [$a, $b, .]", "if . then 1, 2 else 3 end", "if . then 1 else 2, 3 end", "[if . then (1 | 2) else 3 end]", "if . and . then 1 else 2 end", "if . or false then \"t\" else \"f\" end",
		// constant objects / arrays: folding and the identity of the folded constant
		"{a: 1, b: \"x\"}", "{\"a b\": null, c: true}", "{a: 1, a: 2}", "{a: {b: [1, {c: 2}]}}", "{a: 1, b: .}", "{(\"a\"): 1}", "{\"a\\(1)\": 1}", "{a: -1}", "{a: (1 | 2)}", "{a: 1} | .a = 2", "{a: [1]} | .a[0] = 2", "{a: 1} | .b = 2 | keys", "def f: {a: [1]}; [(f | .a[0] = 2), f]", "def f: {a: 1}; [f, (f | .a = 2), f]", "{a: 1} as $x | [($x | .a = 2), $x]", "[{a: 1}, {a: 1}] | .[0].a = 9", "{a: {b: 1}} | .a.b = 2, .", "[range(2) as $i | {a: [0]} | .a[0] = $i]", "[limit(3; repeat({a: 1} | .a += 1))] | length", "reduce range(3) as $i ({a: []}; .a += [$i])", "{a: 1} | del(.a), .", "{a: 1, b: 2} | to_entries | map(.value) , .", "{a: 1} * {a: {b: 2}}, {a: 1}",
		"[1, 2, 3]", "[1, [2], {\"a\": 3}]", "[1, -2, \"x\", null, true]", "[(1, 2)]", "[1, 2 | 3]", "[1, 2, 3] | .[0] = 9", "[1, 2, 3] | .[1:] = [7]?", "[[1, 2, 3], [1, 2, 3]] | .[0][0] = 9", "def f: [1, 2, 3]; [(f | .[0] = 9), f]", "[1, 2, 3] as $x | [($x | .[0] = 9), $x]", "[range(2) as $i | [1, 2] | .[0] = $i]", "reduce range(2) as $i ([]; . + [[1, 2] | .[0] = $i])", "[limit(3; repeat([1, 2] | .[0] += 1))] | length", "[1, 2, 3] | del(.[0]), .", "[1, 2, 3] | reverse, .", "[3, 1, 2] | sort, .", "[1, 2, 3] | map(. + 1), .", "[[1], [2]] | add | .[0] = 9", "[1, 2, 3] | first, last, .", "[[]] | .[0] += [1], .", "[] | .[1] = 1", "[1, [2, [3]]] | .[1][1][0] = 9, .", "[\"a\", \"b\"] | join(\",\"), .", "[{a: 1}] | .[0].a = 2, .", "[1, 2] + [3] | .[0] = 9", "[1, 2, 3] | to_entries | map(.key)",
		"[.[]? | [1, 2] | .[0] = 9] | length", "[.[]? as $x | {a: [1]} | .a += [$x]]", "def c: [1, {a: 2}]; [c, (c | .[1].a = 3), c]", "def c: [[0]]; reduce range(2) as $i (c; .[0] += [$i]) , c", "[[0]] as $c | [($c | .[0][0] = 1), $c, ($c | .[0] += [2]), $c]", "[{a: [1, 2]} | .a[0], .a[1]] | add", "({a: [1]} | .a) as $x | {a: [1]} | .a += [2] | [., $x]",
		// jump threading through nested conditionals and alternatives
		"if . then (if . then 1 else 2 end) else (if . then 3 else 4 end) end", "if . then (if . == null then 1 else 2 end) elif . == null then (if . then 3 else 4 end) else 5 end", "[if . then (1, 2) else (3, 4) end | if . > 2 then \"hi\" else \"lo\" end]", "if . then (. // 1) else (. // 2) end", "(if . then empty else 1 end) // 2", "[(if . then 1 else empty end), (if . then empty else 2 end)]", "if (. // false) then (. // 1) else (try error catch 2) end", "try (if . then error(\"t\") else error(\"e\") end) catch .", "label $l | if . then (1, break $l) else (2, break $l) end", "[label $l | if . then 1 else break $l end, 3]", "if . then (if . then (if . then 1 else 2 end) else 3 end) else 4 end", "[if . then 1 else 2 end | if . == 1 then (if . then 10 else 20 end) else 30 end]",
	}
	return fam{"opt", ps, []any{true, false, nil, 0, []any{1, nil}, map[string]any{"a": map[string]any{"a": nil}}}, nil}
}

// redef: user definitions that reuse the NAME of a builtin (jq-defined or native) or of a compiler-internal helper:
// the user's definition must win in the user's code and must not leak into the bodies of other builtins
func redefBlock() fam {
	ps := []string{
		"def length: 5; [1, 2, 3] | length, map(length)", "def length: 5; [[1], [2, 3]] | map(length), (.[] | length)", "def map(f): \"mine\"; [1] | map(. + 1), (to_entries | length)", "def map(f): [.[] | f | . * 2]; [1, 2] | map(. + 1), (with_entries(.) | length)?",
		"def empty: 1; [empty]", "def empty: 1; [first(empty)], [limit(1; 2, 3)]", "def error: 2; try error catch 3", "def error(x): 2; try error(\"e\") catch 3", "def not: 7; true | not", "def not: 7; [true, false] | map(not), all, any",
		"def select(f): 8; [1, 2] | select(. > 1), map(select(. > 1))", "def first: 9; [1, 2] | first, first(.[])", "def first(f): 9; [1, 2] | first, first(.[]), limit(1; .[])", "def path(f): 10; {a: 1} | path(.a), [paths]", "def input: 11; input", "def inputs: 11; [inputs]", "def env: 12; env", "def recurse: 13; [1, [2]] | recurse, [..] | length",
		"def recurse(f): 13; [1, [2]] | [recurse] | length", "def range(n): 14; [range(3)], [range(1; 3)]", "def range(a; b): 14; [range(3)], [range(1; 3)], [range(0; 4; 2)]", "def limit(n; f): 15; [limit(2; 1, 2, 3)], first(1, 2), [nth(1; 1, 2, 3)]", "def to_entries: 16; {a: 1} | to_entries, with_entries(.value += 1)", "def from_entries: 16; {a: 1} | with_entries(.), (to_entries | from_entries)",
		"def add: 17; [1, 2] | add, (map(. + 1) | add)", "def add(f): 17; [1, 2] | add, add(.[])", "def join(s): 18; [\"a\", \"b\"] | join(\",\")", "def tostring: 19; 1 | tostring, \"\\(.)\", @text, ([1] | join(\",\"))", "def tojson: 19; [1] | tojson, @json, tostring", "def type: 20; 1 | type, ([1, \"a\"] | map(type)), (numbers // \"no\")",
		"def keys: 21; {a: 1} | keys, to_entries, (paths | tostring)", "def has(k): 22; {a: 1} | has(\"a\"), del(.a), (.a // 0)", "def getpath(p): 23; {a: 1} | getpath([\"a\"]), [paths], (.a |= 2)", "def setpath(p; v): 24; {a: 1} | setpath([\"a\"]; 2), (.a = 3), (.a |= 4)", "def delpaths(ps): 25; {a: 1} | delpaths([[\"a\"]]), del(.a)", "def del(f): 26; {a: 1} | del(.a), delpaths([[\"a\"]])",
		"def _modify(p; f): 27; {a: 1} | (.a |= 2), (.a += 1), (.a //= 5)", "def _assign(p; x): 28; {a: 1} | (.a = 2), (.a.b = 3)?, (.[\"a\"] = 4)", "def _modify(p; f): 27; {a: 1} | map_values(. + 1), with_entries(.value += 1)", "def _index(a; b): 29; {a: 1} | .a, .[\"a\"], (.a as $x | $x)", "def _slice(a; b; c): 30; [1, 2, 3] | .[1:], .[:1]", "def _plus: 31; +1, (1 | +.)", "def _negate: 32; -(1), (1 | -.), -1",
		"def _add(a; b): 33; 1 + 2, (\"a\" + \"b\")", "def _add(a; b): 33; {a: 1} | (.a += 1), (.a + 1)", "def _alternative(a; b): 35; {a: null} | (.a //= 1), (.a // 2)", "def _subtract(a; b): 33; {a: 3} | .a -= 1", "def _assign(p; x): 28; {a: 1} | (.a = 2), ((.a, .b) = 3), (.[\"a\", \"b\"] = 4)", "def f: def _modify(p; f): 27; {a: 1} | .a |= 2; f, ({a: 1} | .a |= 2)", "def _subtract(a; b): 33; 3 - 1", "def _multiply(a; b): 33; 2 * 3", "def _equal(a; b): 34; 1 == 1, 1 != 1", "def _less(a; b): 34; 1 < 2, ([2, 1] | sort)", "def _alternative(a; b): 35; null // 1", "def _last(f): 36; last(1, 2), ([1, 2] | last)", "def _match(a; b; c): 37; \"a\" | test(\"a\")?", "def splits(a): 38; \"a,b\" | [splits(\",\")]?, split(\",\")",
		"def isvalid(f): 39; [1] | .[0]?, (try error catch 1)", "def until(c; u): 40; 0 | until(. > 2; . + 1), [repeat(.; . + 1)?] | length?", "def repeat(f): 41; [limit(2; 0 | repeat(. + 1))]?", "def while(c; u): 42; [0 | while(. < 2; . + 1)]", "def walk(f): 43; [1] | walk(.), map(. + 1)", "def ascii_downcase: 44; \"A\" | ascii_downcase, ascii_upcase, ([\"B\"] | map(ascii_downcase))", "def ltrimstr(x): 45; \"ab\" | ltrimstr(\"a\"), rtrimstr(\"b\")",
		"def f: 1; def f(a): 2; def f(a; b): 3; [f, f(0), f(0; 0)]", "def f(a): 2; def f: 1; [f, f(0)]", "def f: 1; def f: 2; f", "def f: 1; def g: f; def f: 2; [f, g]", "def f: 1; (def f: 2; f), f", "def f(a): a; def g: f(1); def f(a): [a]; [g, f(1)]", "def f: def f: 1; f + 1; f", "def f(f): f; f(5)", "def f(f): f | f; 1 | f(. + 1)", "def f($f): $f + f; f(1)",
		"def f($a; $a): $a; f(1; 2)", "def f(a; a): a; f(1; 2)", "def f($a; a): [$a, a]; f(1; 2)", "def f(a; $a): [$a, a]; f(1; 2)", "1 as $x | def f: $x; 2 as $x | [f, $x]", "1 as $x | def f($x): $x; [f(2), $x]", "def f: $__loc__; f?", "def length: 5; def f: length; [1, 2] | f, length, (. | length)", "def g: length; def length: 5; [1, 2] | g, length",
		". as $dot | def f: $dot; [1] | f", "def f: .; def g(f): f; [g(1), g(f)]", "def f(g): def h: g; h; f(1)", "def f(g): def g: 2; g; f(1)", "def f(g): def h(g): g; h(3), g; [f(1)]", "def f(g): g as $g | def g: 9; [$g, g]; f(1)",
	}
	return fam{"redef", ps, []any{nil, []any{1, 2}}, []any{"i1", "i2"}}
}

// pattern: compilePattern / compileBind — destructuring of every shape against matching, too short, too long and
// wrongly typed data; repeated and shadowed variables; computed keys; patterns in reduce / foreach / function bodies
func patternBlock() fam {
	pats := []string{
		"$a", "[$a]", "[$a, $b]", "[$a, [$b, $c]]", "[[$a]]", "[$a, $a]", "[$a, {b: $b}]", "{a: $a}", "{$a}", "{a: $a, b: $b}", "{a: {b: $b}}", "{a: [$x, $y]}", "{$a, b: [$b]}", "{\"a\": $a}", "{\"a b\": $a}", "{(\"a\"): $a}", "{(\"a\", \"b\"): $a}", "{\"\\(\"a\")\": $a}",
		"{a: $x, b: $x}", "{$a, $b, c: {$d}}", "[{a: $a}, {a: $b}]", "{a: $a, a: $b}", "[$a, $b, $c, $d]", "{$__loc__}", "{a: [[$a]]}", "[{$a}]", "{(.k // \"a\"): $a}", "{$a, ($a | tostring): $b}",
	}
	bodies := []string{"[%v]", "%v0", "[%v] | length", "[%v] | map(type)", "try ([%v] | add) catch \"A\""}
	varsOf := func(p string) []string {
		var vs []string
		seen := map[string]bool{}
		for i := 0; i < len(p); i++ {
			if p[i] == '$' && i+1 < len(p) && p[i+1] != '_' {
				j := i + 1
				for j < len(p) && (p[j] >= 'a' && p[j] <= 'z') {
					j++
				}
				if v := p[i:j]; len(v) > 1 && !seen[v] {
					seen[v] = true
					vs = append(vs, v)
				}
			}
		}
		return vs
	}
	var ps []string
	for i, p := range pats {
		vs := varsOf(p)
		if len(vs) == 0 {
			continue
		}
		all := strings.Join(vs, ", ")
		for j, b := range bodies {
			if j > 0 && (i+j)%3 != 0 {
				continue
			}
			body := strings.ReplaceAll(strings.ReplaceAll(b, "%v0", vs[0]), "%v", all)
			ps = append(ps, ". as "+p+" | "+body, "[.[]? as "+p+" | "+body+"]", "try (. as "+p+" | "+body+") catch \"P\"")
		}
		ps = append(ps,
			"reduce .[]? as "+p+" (0; . + 1)", "[foreach .[]? as "+p+" (0; . + 1; ["+all+"])]?", "def f: . as "+p+" | ["+all+"]; [.[]? | f]?", "[. as "+p+" | "+vs[0]+", (1 as "+vs[0]+" | "+vs[0]+"), "+vs[0]+"]?",
			". as "+p+" ?// $z | ["+all+", $z]", "[.[]? as "+p+" ?// $z | [$z]]", "path(. as "+p+" | .)?", "(. as "+p+" | "+vs[0]+") as $w | [$w]?")
	}
	ps = append(ps,
		". as [$a] | . as [$b, $c] | [$a, $b, $c]", ". as [$a] | [$a] as [$b] | $b", ". as $x | $x as [$a] | $a", "[1, 2] as [$a, $b] | {$a, $b}", "{a: 1} as {a: $a} | [$a] as [$b] | $b", "[[1, 2], [3, 4]] as [[$a, $b], [$c, $d]] | [$a, $b, $c, $d]", "[1] as [$a, $b] | [$a, $b]", "[] as [$a] | $a", "null as [$a] | $a", "null as {a: $a} | $a",
		"try (1 as [$a] | $a) catch \"T\"", "try (\"s\" as {a: $a} | $a) catch \"T\"", "try ({} as [$a] | $a) catch \"T\"", "try ([] as {a: $a} | $a) catch \"T\"", "try ([1] as {a: $a} | $a) catch \"T\"", "[[1], 2, {a: 3}] | [.[] as [$a] ?// {a: $a} ?// $a | $a]", "[.[]? as [$a] | $a]?", "(.[]? // []) as [$a] | [$a]",
		"[1, 2, 3] as [$a] | $a", "[1, 2, 3] as [$a, $b] | $b", "{a: 1, b: 2} as {a: $a} | $a", "{a: 1} as {b: $b} | $b", "{a: {b: 1}} as {a: {b: $b}} | $b", "{a: 1} as {a: {b: $b}} | $b?", "try ({a: 1} as {a: {b: $b}} | $b) catch \"T\"", "{a: [1]} as {a: [$x]} | $x", "[{a: 1}] as [{a: $x}] | $x",
		"{k: \"a\", a: 5} as {k: $k} | . as {($k): $v} | $v?", "{k: \"a\", a: 5} | . as {k: $k, ($k): $v} | [$k, $v]?", "{a: 5} as {(\"a\", \"b\"): $v} | [$v]", "[{(\"a\", \"b\"): 1}] | .[] as {a: $x} | $x", "{a: 5} as {\"\\(\"a\")\": $v} | $v", "{ab: 5} as {\"a\\(\"b\")\": $v} | $v", "{a: 5} as {$a} | {a: 6} as {$a} | $a", "1 as $x | [2 as $x | $x, $x] | [., $x]",
		"def f($a): . as [$a] | $a; [5] | f(1)", "def f(a): . as [$a] | [$a, a]; [5] | f(7)", "[5] as [$a] | def f: $a; [6] as [$a] | [f, $a]", "reduce ([1, 2], [3, 4]) as [$a, $b] ([]; . + [$a * $b])", "[foreach ([1, 2], [3, 4]) as [$a, $b] (0; . + $a; [., $b])]", "reduce ({a: 1}, {a: 2}) as {a: $x} (0; . + $x)", "[limit(2; ([1], [2], [3]) as [$a] | $a)]", "first(([1], [2]) as [$a] | $a)",
		"[[1, 2]] | .[] as [$a, $b] | [$b, $a]", ". as [$a, $b] | {a: $a, b: $b}?", "[.[]? as {a: $a} | $a]?", "to_entries[]? as {key: $k, value: $v} | [$k, $v]", "[paths as [$h] | $h]?", "[.[]? as [$h, $t] | [$t, $h]]?", ". as [$a, $b, {c: $c}] | [$a, $b, $c]?", ". as {a: [$a, {b: $b}]} | [$a, $b]?")
	ins := []any{
		[]any{1, []any{2, 3}}, []any{[]any{1}, map[string]any{"b": 2}}, map[string]any{"a": 1, "b": []any{2}, "c": map[string]any{"d": 3}}, map[string]any{"a": map[string]any{"b": 1}, "k": "a"}, map[string]any{"a": []any{4, 5}, "a b": 6},
		[]any{map[string]any{"a": 1}, map[string]any{"a": 2}}, []any{}, map[string]any{}, nil, 7, "s", []any{1, 2, 3, 4, 5},
	}
	return fam{"pattern", ps, ins, nil}
}

// labels: break across function and closure boundaries, recursion, nested and shadowed labels, labels under every
// construct that catches or resumes (try, ?, //, ?//, first/limit, reduce/foreach, paths)
func labelBlock() fam {
	ps := []string{
		"label $l | def f: break $l; f", "label $l | def f: 1, break $l, 2; [f]", "[label $l | def f: 1, break $l, 2; f, 3]", "def g(x): x; label $l | g(break $l)", "def g(x): 1, x, 2; [label $l | g(break $l)]", "def g(x): [x]; label $l | g(1, break $l)", "def g(x): x | x; [label $l | 1 | g(., break $l)]",
		"def f: label $l | if . < 3 then (. + 1 | f), break $l else . end; [0 | f]", "def f: label $l | if . < 3 then ., (. + 1 | f), break $l, 99 else . end; [0 | f]", "def f(x): label $l | x, break $l; [f(1, 2)]", "def f(x): label $l | (x | ., break $l); [f(1, 2)]", "def f: label $l | ., break $l; [(1, 2) | f]", "def f: label $l | (., break $l), 9; [(1, 2) | f]",
		"[label $a | label $b | 1, break $a, 2]", "[label $a | (label $b | 1, break $b, 2), 3, break $a, 4]", "[label $a | label $a | 1, break $a, 2]", "[label $a | (label $a | 1, break $a, 2), 3]", "[label $a | 1, (label $b | 2, break $a), 3]", "[label $a | def f: break $a; label $a | f, 1]", "[label $a | def f: break $a; (label $a | 1, f), 2]", "label $a | label $b | label $c | break $a",
		"[label $l | try (1, break $l, 2) catch 3]", "[label $l | (1, break $l, 2)?]", "[label $l | (break $l) // 1]", "[label $l | (null, break $l) // 1]", "[label $l | (1, break $l) // 2]", "[label $l | . as [$a] ?// $a | 1, break $l]", "[label $l | first(1, break $l)]", "[label $l | first(break $l, 1)]", "[label $l | limit(2; 1, break $l, 2)]", "[label $l | limit(1; 1, break $l)]", "[first(label $l | 1, break $l, 2)]",
		"[label $l | reduce (1, 2, 3) as $x (0; if $x == 2 then break $l else . + $x end)]", "[label $l | foreach (1, 2, 3) as $x (0; . + $x; if . > 2 then ., break $l else . end)]", "[label $l | foreach (1, 2, 3) as $x (0; if $x == 3 then break $l else . + $x end)]", "reduce (1, 2) as $x (0; label $l | . + $x, break $l)", "[foreach (1, 2) as $x (0; label $l | (. + $x, break $l); [$x, .])]",
		"[label $l | path(.a, break $l, .b)]", "[path(label $l | .a, break $l, .b)]", "[label $l | paths | ., break $l]", "label $l | (.a, break $l) = 1", "[label $l | (.a, .b) |= (., break $l)]?", "[label $l | del(.a, break $l)]?", "[label $l | to_entries[]? | ., break $l]",
		"[label $l | .[]? | if . == null then break $l else . end]", "[.[]? | label $l | if . == null then break $l else ., 0 end]", "[label $l | .[]? | label $m | if . == null then break $l elif . == 2 then break $m else . end]", "[label $l | (.[]?, 9) | select(. != null) | if . == 9 then break $l else . end]", "[label $l | range(10) | if . > 2 then break $l else . end]", "[label $l | repeat(1) | ., break $l]", "[limit(3; label $l | repeat(1))]",
		"[label $l | \"a\\(1, break $l)\"]", "[label $l | {a: (1, break $l)}]", "[label $l | [1, break $l]]", "[label $l | (1, break $l) + 1]", "[label $l | 1 + (2, break $l)]", "[label $l | (1, break $l) as $x | $x]", "[label $l | if (true, break $l) then 1 else 2 end]", "[label $l | if true then (1, break $l) else 2 end]", "[label $l | .[(0, break $l)]?]", "[label $l | -(1, break $l)]",
		"try (break $l) catch .", "try (label $l | error(\"x\")) catch .", "[label $l | try error(\"x\") catch (., break $l)]", "[label $l | (error(\"x\"))?, 1, break $l]", "label $l | try (break $l) catch \"not-an-error\"", "[label $l | 1, (try break $l catch 2), 3]", "[(label $l | 1, break $l), (label $l | 2, break $l)]", "[label $l | 1] + [label $l | 2, break $l]", "def f: label $l | 1; [f, f]", "[range(3) | label $l | ., break $l]",
		"[label $l | input, break $l]", "[label $l | inputs | ., break $l], [inputs]", "[label $l | (1, 2) | (., break $l)]", "[label $l | (1, 2) | (label $l | ., break $l)]", "[label $out | foreach .[]? as $item (0; . + 1; $item, if . >= 2 then break $out else empty end)]", "[label $out | .[]? | ., break $out]", "isempty(label $l | 1, break $l)", "[label $l | isempty(break $l)]",
	}
	return fam{"label", ps, []any{nil, []any{1, nil, 2, 3}, map[string]any{"a": 1, "b": 2}, 0}, []any{"i1", "i2"}}
}

// ifelse: `if` WITHOUT else (and elif chains without a final else) in value and path positions, with then-branches
// that emit no code (`.`), one instruction, or more; the implicit else is the identity
func ifNoElseBlock() fam {
	conds := []string{".a", ". > 1", ".", "true", "false", "null", ".[]?", "(.a, .b)", "empty", "error(\"c\")?", ".a and .b", ".a // false", "type == \"number\"", "length > 1", "not", "$v"}
	thens := []string{".", "1", ".a", "., .", "empty", ". + 1", "[.]", "\"t\"", "error(\"t\")?", ".b?", "$v", "not"}
	var ps []string
	for i, c := range conds {
		for j, t := range thens {
			if j > 1 && (i+j)%3 != 0 {
				continue
			}
			core := "if " + c + " then " + t + " end"
			ps = append(ps, "2 as $v | "+core, "2 as $v | [.[]? | "+core+"]")
			switch (i + j) % 4 {
			case 0:
				ps = append(ps, "2 as $v | ["+core+", .]", "2 as $v | [path("+core+")]?", "2 as $v | ("+core+") as $w | [$w, .]")
			case 1:
				ps = append(ps, "2 as $v | if "+c+" then "+t+" elif "+c+" then . end", "2 as $v | ("+core+") |= 5?", "2 as $v | {a: ("+core+")}")
			case 2:
				ps = append(ps, "2 as $v | if .b? then 0 elif "+c+" then "+t+" end", "2 as $v | [paths("+core+")]?", "2 as $v | ("+core+") + 10?")
			default:
				ps = append(ps, "2 as $v | "+core+" | "+core, "2 as $v | del("+core+")?", "2 as $v | [limit(2; "+core+")]")
			}
		}
	}
	ps = append(ps,
		"if .a then . end", "[.[] | if . > 1 then . end]", "[.[]? | if . then . end]", "if . then . end", "if .a then . elif .b then . end", "if .a then . elif .b then . elif .c then . end", "[.[]? | if . == 1 then \"one\" elif . == 2 then \"two\" end]", "map(if . > 1 then . * 10 end)?", "map_values(if . == null then 0 end)?",
		"if .a then .a end | if . then . end", "[if (true, false) then . end]", "[if .[]? then . end] | length", "if if .a then . end then 1 end", "if .a then (if .b then . end) end", "if .a then . end as $x | $x", "reduce .[]? as $x (0; if $x then . + 1 end)", "[foreach .[]? as $x (0; if $x then . + 1 end)]", "def f: if . > 2 then . else . + 1 | f end; def g: if . < 0 then -. end; [.[]? | numbers | g | f]",
		"path(if .a then .a end)", "[paths(if type == \"number\" then . end)]", "(if .a then .a end) = 9", "(if .a then .b end) |= 7?", "del(if .a then .b end)?", "to_entries? | map(if .value then . end)", "walk(if type == \"number\" then . + 1 end)", "[.. | if type == \"array\" then length end]", "try (if .a then error(\"x\") end) catch \"c\"", "label $l | if .a then ., break $l end", "[limit(1; if .a then . end)]", "first(if .a then . end)", "if .a then . end // \"alt\"", "(if .a then empty end), 1", "[.[]? | select(if . then . end)]", "\"\\(if .a then \"y\" end)\"", "{a: (if .a then 1 end)}", "[if .a then . end, if .b then . end]")
	ins := []any{map[string]any{"a": true, "b": 1}, map[string]any{"a": 5, "b": nil}, map[string]any{"a": nil, "b": false}, []any{1, 2, 3, nil, false}, 3, nil, true, []any{}}
	return fam{"ifelse", ps, ins, nil}
}

// alias: values used SEVERAL times as the left operand of an operation that could be done in place (array / object
// `+`, `*`, add, updates, big-number arithmetic): folded literals, run-time-built arrays, slices of both, input-borne
// arrays and variables; every use must see the original value
func aliasBlock() fam {
	srcs := []string{"[1, 2, 3]", "[1, 2, 3 + 0]", "[1, 2, 3][:2]", "[1, 2, 3 + 0][:2]", ".", ".[:2]?", "[.[]?]", "[range(3)]", "([1, 2] + [3])", "[1, 2, 3][1:]", "(.a? // [7, 8])", "[limit(2; 1, 2, 3)]", "[[1], [2]]", "{a: [1, 2]}.a", "[1, [2, 3]][1]"}
	uses := []string{
		"%s as $x | [$x + [10], $x + [20]]", "%s as $x | [($x + [10]), $x, ($x + [20]), $x]", "%s | (. + [9]), .", "%s | (.[:2] + [9]), .", "%s | [(. + [1]), (. + [2])] | map(length)", "%s as $x | [$x[:1] + [5], $x, $x[:1] + [6]]", "%s as $x | reduce (1, 2) as $i ([]; . + [$x + [$i]])",
		"%s as $x | [foreach (1, 2) as $i ($x; . + [$i]; .)] , $x", "%s as $x | [$x | .[length] = 9] + [$x]", "%s as $x | [($x | . += [9]), $x]", "%s as $x | [($x | .[0] = 9), $x]", "%s as $x | [($x | del(.[0])), $x]", "%s as $x | [[$x, $x] | add, $x]", "%s as $x | [[$x, [4]] | add] + [[$x, [5]] | add]", "%s as $x | [$x + $x, $x]",
		"%s as $x | [($x | map(. ))+[1], $x]?", "%s as $x | [$x | sort, reverse] + [$x]?", "[%s, %s] | (.[0] + [9]), .", "%s as $x | ($x + [10]) as $y | ($x + [20]) as $z | [$y, $z, $x]", "def f: %s; [f + [1], f + [2], f]", "[(%s | . + [1]), (%s | . + [2])]", "%s | [.[:1] + [7], .[:1] + [8], .]", "%s | [. - [1], ., . - [2]]?", "%s as $x | [limit(3; repeat($x + [0]))] | map(length)",
	}
	var ps []string
	for i, sv := range srcs {
		for j, u := range uses {
			if (i+j)%2 != 0 && !(i < 2 && j < 8) {
				continue
			}
			ps = append(ps, strings.ReplaceAll(u, "%s", sv))
		}
	}
	ps = append(ps,
		"{a: 1} as $x | [$x + {b: 2}, $x + {c: 3}, $x]", "{a: 1, b: (1 + 1)} as $x | [$x + {b: 3}, $x * {a: {c: 1}}, $x]", "{a: {b: 1}} as $x | [$x * {a: {c: 2}}, $x * {a: {d: 3}}, $x]", ". as $x | [$x + {z: 1}, $x]?", "{a: [1]} as $x | [($x | .a += [2]), ($x | .a += [3]), $x]", "\"ab\" as $x | [$x + \"c\", $x + \"d\", $x]", "\"ab\" as $x | [$x * 2, $x * 3, $x]",
		"[[1, 2], [3]] | [add, add, .]", "[[1, 2 + 0], [3]] | [add, add, .]", "[.[]? | arrays] | [add, add]?", "[1, 2, 3 + 0] | [.[:2] + [9], .[:2] + [8], .]", "[1, 2, 3 + 0] as $x | [$x[:2] + [9]] + [$x]", "[[1, 2, 3 + 0]] | [.[0] + [4], .[0] + [5], .[0]]", "{a: [1, 2, 3 + 0]} | [.a + [4], .a + [5], .a]", "[1, 2, 3 + 0] | to_entries | map(.value) + [4] | ., length",
		"[range(5)] | [.[1:3] + [9], .]", "[range(5)] | .[1:3] as $s | [$s + [7], $s + [8], .]", "[range(5)] | [.[:2], .[:2] + [9], .[2:]]", "[range(4)] as $x | [$x[:3] + [9], $x[3]]", "[range(4)] as $x | [($x[:2] | . + [8, 9]), $x]", ".[:1]? + [0] , .", "(.[:1]? + [0]) as $y | [$y, .]", "[.[]?] | (. + [0]), (. + [1]) | length")
	ins := []any{[]any{1, 2, 3}, []any{[]any{1}, []any{2, 3}}, map[string]any{"a": []any{4, 5, 6}}, []any{}, nil, []any{"x", "y", "z", "w"}}
	return fam{"alias", ps, ins, nil}
}

// bigint: integers beyond int64 (literals, variables, input data) and int64 boundary values as operands of every
// operator, under generator re-entry (the operand is evaluated / used several times and must keep its value)
func bigintBlock() fam {
	bigs := []string{"10000000000000000000000", "-10000000000000000000000", "9223372036854775808", "-9223372036854775809", "18446744073709551616", "340282366920938463463374607431768211456", "(9223372036854775807 + 1)", "(-9223372036854775807 - 2)", "(4611686018427387904 * 4)", ".", ".big?", "(.[]? | numbers)"}
	ops := []string{"*", "+", "-", "/", "%"}
	smalls := []string{"3", "-1", "2", "0", "1", "10000000000000000000000", "9223372036854775807", "1.5"}
	var ps []string
	for i, b := range bigs {
		for j, op := range ops {
			k := smalls[(i+j)%len(smalls)]
			ps = append(ps,
				fmt.Sprintf("[(1, 2, 3) | try (%s %s %s) catch \"E\"]", b, op, k), fmt.Sprintf("[(1, 2, 3) | try (%s %s %s) catch \"E\"]", k, op, b),
				fmt.Sprintf("try (%s as $x | [($x %s %s), $x, ($x %s %s), $x]) catch \"E\"", b, op, k, op, k), fmt.Sprintf("try (%s as $x | [(%s %s $x), $x]) catch \"E\"", b, k, op))
			if (i+j)%2 == 0 {
				ps = append(ps,
					fmt.Sprintf("try (%s as $x | reduce (1, 2, 3) as $i (0; . + (($x %s %s) | if type == \"number\" then 1 else 0 end)) , $x) catch \"E\"", b, op, k),
					fmt.Sprintf("try [%s as $x | foreach (1, 2) as $i (1; ($x %s $i)), $x] catch \"E\"", b, op),
					fmt.Sprintf("try (%s as $x | [$x %s $x, $x]) catch \"E\"", b, op), fmt.Sprintf("try ([%s] | [(.[0] %s %s), .[0]]) catch \"E\"", b, op, k),
					fmt.Sprintf("try ({a: %s} | [(.a %s %s), .a, (.a %s= %s | .a)]) catch \"E\"", b, op, k, op, k), fmt.Sprintf("def f: %s; try [f %s %s, f, f %s %s] catch \"E\"", b, op, k, op, k))
			}
		}
		ps = append(ps, fmt.Sprintf("try (%s as $x | [-$x, $x, ($x | -.), $x]) catch \"E\"", b), fmt.Sprintf("try (%s as $x | [$x == $x, $x < $x + 1, $x > $x - 1, ([$x, $x + 1, $x - 1] | sort | .[0] == $x - 1)]) catch \"E\"", b),
			fmt.Sprintf("try (%s as $x | [($x | tostring), ($x | tojson), $x]) catch \"E\"", b), fmt.Sprintf("try (%s as $x | [($x | floor), ($x | abs?), $x] | map(type)) catch \"E\"", b))
	}
	ins := []any{nil, bigOf("10000000000000000000000"), bigOf("-18446744073709551617"), map[string]any{"big": bigOf("9223372036854775808")}, []any{bigOf("36893488147419103232"), 2, bigOf("-9223372036854775809")}, int(9223372036854775807), int(-9223372036854775808)}
	return fam{"bigint", ps, ins, nil}
}

// intbound: int64 / int32 / 2^53 boundary integers as operands of + - * / % and unary minus, from input data, as
// literals and as COMPUTED values (a literal -2^63 is a big integer in the AST, the computed one is a Go int)
func intBoundBlock() fam {
	vals := []string{
		"9223372036854775807", "(-9223372036854775807 - 1)", "-9223372036854775807", "(9223372036854775806 + 1)", "(-9223372036854775808 + 0)", "(4611686018427387904 * -2)", "(0 - 9223372036854775807 - 1)", "2147483647", "-2147483648", "2147483648", "4294967296", "-4294967296", "4294967295",
		"9007199254740992", "-9007199254740992", "9007199254740993", "0", "1", "-1", "2", ".", ".[0]?", ".[1]?", "(.[0]? // 0)",
	}
	ops := []string{"+", "-", "*", "/", "%"}
	var ps []string
	for i, a := range vals {
		for j, b := range vals {
			if !(i < 7 || j < 7 || i >= 20 || j >= 20) || (i*5+j*3)%4 != 0 {
				continue
			}
			op := ops[(i+j)%len(ops)]
			ps = append(ps, fmt.Sprintf("try (%s %s %s) catch \"E\"", a, op, b))
			if (i+j)%3 == 0 {
				ps = append(ps, fmt.Sprintf("try [%s as $l | %s as $r | ($l %s $r), ($r %s $l), $l, $r] catch \"E\"", a, b, op, op))
			}
		}
	}
	for _, a := range vals[:7] {
		for _, op := range ops {
			ps = append(ps,
				fmt.Sprintf("try [0 %s %s, 1 %s %s, -1 %s %s] catch \"E\"", op, a, op, a, op, a), fmt.Sprintf("try [%s %s 0, %s %s 1, %s %s -1] catch \"E\"", a, op, a, op, a, op),
				fmt.Sprintf("try [. %s %s, %s %s .] catch \"E\"", op, a, a, op), fmt.Sprintf("try ([.[]?] | map(numbers | . %s %s)) catch \"E\"", op, a), fmt.Sprintf("try (%s as $m | [.[]? | numbers | $m %s .]) catch \"E\"", a, op))
		}
		ps = append(ps, fmt.Sprintf("try [-(%s), (%s | -.), (%s | abs?), (%s | tojson)] catch \"E\"", a, a, a, a), fmt.Sprintf("try (%s | [. - 1, . + 1, . * 1, . / 1, . %% 2] | map(tojson)) catch \"E\"", a),
			fmt.Sprintf("try (reduce (%s, 1, -1) as $v (0; . - $v)) catch \"E\"", a), fmt.Sprintf("try ([%s, %s] | add, (.[0] - .[1]), (.[1] - .[0])) catch \"E\"", a, a))
	}
	ins := []any{
		int(-9223372036854775808), int(9223372036854775807), int(-9223372036854775807), 0, 1, -1, int(2147483648), int(-2147483649), int(9007199254740993),
		[]any{int(-9223372036854775808), int(9223372036854775807)}, []any{int(9223372036854775807), int(-9223372036854775808), 1, -1}, []any{1, int(-9223372036854775808)}, nil,
	}
	return fam{"intbound", ps, ins, nil}
}

// computednav: navigation FROM A COMPUTED VALUE inside path expressions, updates and deletions, with every kind of
// navigation (constant and computed keys, slices, iteration, optional forms) from every type of value: both the order of the
// two checks (type of the value navigated from vs. path integrity) and the error class must be the same whether the index is
// compiled as opindex (constant key) or as a call of _index/_slice (seeded change C04-r6a: pathIntact hoisted in opindex only)
func computedNavBlock() fam {
	srcs := []string{"1", "\"s\"", "null", "true", "[1, 2]", "{\"a\": 1}", "(.a | tostring?)", "[.[]?]", "{x: .}", "(.. | numbers)", "(.a, 1)", "first(.[]?, 1)"}
	navs := []string{".a", ".[0]", ".[1:2]", ".[]", ".a?", ".[0]?", ".[]?", ".[\"a\"]", ".a.b", ".[-1]", ".x", ".[1:]?"}
	wrappers := []string{"[path(%s | %s)]", "path(%s | %s)", "(%s | %s) = 1", "(%s | %s) |= 2", "del(%s | %s)", "[paths(%s | %s)]", "try path(%s | %s) catch \"caught\"", "[(%s | %s)?]"}
	var ps []string
	for i, a := range srcs {
		for j, n := range navs {
			for k, w := range wrappers {
				if k > 1 && (i+j+k)%3 != 0 {
					continue
				}
				ps = append(ps, fmt.Sprintf(w, a, n))
			}
		}
	}
	ins := []any{map[string]any{"a": map[string]any{"b": 1}, "x": []any{1}}, []any{1, []any{2}}, nil, "s", map[string]any{"a": 1}}
	return fam{"computednav", ps, ins, nil}
}

// the deterministic blocks, in the order they run
func firstBlocks() []fam {
	return []fam{regressBlock(), scopeBlock(), calleeBlock(), boundaryBlock(), markerBlock(), optBlock(), redefBlock(), patternBlock(), labelBlock(), ifNoElseBlock(), aliasBlock(), bigintBlock(), intBoundBlock(), computedNavBlock()}
}
