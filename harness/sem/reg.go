// Deterministic blocks that run FIRST in both streams (C01 and C04):
//
//	regress   one case (plus neighbours) for every `fixed:` entry of KNOWN_FINDINGS.txt that concerns C01/C04,
//	          so that a reverted fix is reported by a named program and not left to the random generators
//	scope     definitions (functions of arity 0/1, `as` variables) placed inside every syntactic position that
//	          opens a scope, followed by a use of the same name OUTSIDE that position, with and without an outer
//	          binding of the name (outer binding visible / compile error "not defined")
//	callee    index / slice / getpath arguments that are calls of jq-DEFINED one-instruction functions, inside
//	          path expressions and updates, with their de-optimised spellings
//	boundary  boundary numbers (+-2^63, +-2^53, 2^31, 2^32, 1e19, nan, +-infinite, -0.0, fractions) in slice / index /
//	          limit / range / repeat-count / nth / flatten / getpath positions, as literals and as input data
package main

import (
	"fmt"
	"strings"
)

func regressBlock() fam {
	ps := []string{
		// 0d5fe66 peephole fused `load $x ; const 2` across a comma join point
		"1 as $x | ((1, $x) | 2) + 10", "1 as $x | {a: ((1, $x) | 2)}", "1 as $x | [((1, $x) | 2)]", "1 as $x | ((., $x) | 2) + 10", "1 as $x | (($x, 1) | 2) + 10", "1 as $x | 2 as $y | ((1, $x) | $y) + 10",
		"1 as $x | (if . then 1 else $x end | 2) + 10", "1 as $x | ((1, $x) | \"k\") as $k | {($k): 1}", "1 as $x | {((1, $x) | \"k\"): 1}", "1 as $x | [limit(3; (1, $x) | 2)]",
		// 2fbb0a9 constant-array folding matched opcodes only
		"[((1, .) | 2)]", "[((1, .) | 2), 3]", "[((1, 2) | 3)]", "[(1, .) | 2]", "[(., 1) | 2, 3]", "[1, ((2, .) | 3)]", "{a: [((1, .) | 2)]}", "[[((1, .) | 2)]]", "[((1, .) | 2)] | length", "[((1, .) | \"s\"), null]", "[((1, 2) | 3), ((4, 5) | 6)]", "[(1 | 2)]", "[(1, 2 | 3)]", "[((1, .) | 2, 3)]",
		// 3cefc79 `?//` left stale values in variables of later non-matching patterns
		"(1, [2]) as [$a] ?// $b | [$a, $b]", "[(1, [2]) as [$a] ?// $b | [$a, $b]]", "([2], 1) as [$a] ?// $b | [$a, $b]", "([[1]], [2], 3) as [[$a]] ?// [$b] ?// $c | [$a, $b, $c]", "(1, [2], {a: 3}) as [$a] ?// {a: $b} ?// $c | [$a, $b, $c]",
		"[.[]? as [$a] ?// $b | [$a, $b]]", "[.[]? as {a: $a} ?// [$a, $b] ?// $b | [$a, $b]]", "reduce (1, [2]) as [$a] ?// $b (0; . + ($a // 10) + ($b // 100))", "[foreach (1, [2], 3) as [$a] ?// $b (0; . + 1; [$a, $b])]",
		// 99a2c99 constant index / number folding ignored the literal's suffix list (incl. unary minus)
		"{\"a\": 1, \"ab\": 2} | .[\"ab\"[0:1]]", "{\"a\": 1, \"ab\": 2} | .[\"ab\"[1:]]", "{\"a\": 1, \"ab\": 2} | .[\"ab\"[0:1]] = 5", "{\"a\": 1, \"ab\": 2} | path(.[\"ab\"[0:1]])", "{\"a\": 1, \"ab\": 2} | [.[\"ab\"[0:1], \"ab\"]]", "{\"a\": 1} | .[\"a\"[5:]]?", "{\"a\": 1} | try .[\"a\"[0]] catch \"c\"",
		"-1[0]", "try -1[0] catch \"caught\"", "[-1[]?]", "try -1[\"a\"] catch \"caught\"", "[.[-1[0]?]]", "[.[-1[0]?]?]", "+1[0]?", "[+1[]?]", "-1?", "[-1.5[0]?]", "[- 1[0]?]", "-(1[0]?)", "[-(1[]?)]", "[.[-1[0:1]?]?]", "[.[-1] , .[-1[0]?]]", "[.[1[0]?]]", "[.[1[]?]]", "try (.[-1[0]?] = 5) catch \"c\"", "[.[]? | -1[0]?]",
		"[-1, -1[0]?]", "-1 | .[0]?", "try (-1 | .[0]) catch \"c\"", "[-0[0]?]", "-1 as $x | $x", "[-1[0]?, -2]", "[-\"a\"[0:1]?]", "try -\"a\"[0:1] catch \"c\"", "[-null[0]?]", "[-[1][0]]", "-[1][0]", "-{a: 1}.a", "[-{a: 1}.b?]", "-1 - -1[0]?", "[1, -1[0]?, 2]", "{a: -1[0]?}", "[{a: -1[0]?}]", ".[-1[0]?:]?", "[.[:-1[0]?]?]",
		// ea6cd2a two labels of the same name shared one variable slot
		"label $f | (1, break $f) | label $f | .", "[label $f | (1, break $f) | label $f | .]", "label $f | label $f | break $f", "[label $f | (label $f | 1, break $f), 2, break $f, 3]", "[label $a | label $b | (1, break $b), (2, break $a), 3]", "[label $f | (1, 2) | label $f | if . == 2 then break $f else . end]",
		"def g: label $f | 1, break $f; [label $f | g, 2, break $f, 3]", "[label $f | (1, 2) | (label $f | ., break $f), 9]", "[label $f | 1, (label $f | 2, break $f), break $f, 3]", "label $f | (label $g | 1, break $f) | label $f | 2", "[.[]? | label $f | (., break $f) | label $f | ., 0]",
		// f75f5e3 inlined one-instruction argument owned a variable of the dropped scope
		"1 + (label $l | .)", "1 + (label $l | 1, break $l)", "[.[]? | 1 + (label $l | .)]", "(label $l | .) + 1", "[limit(1; label $l | .)]", "first(label $l | .)", "{a: (label $l | .)}", "[.[label $l | 0]?]", "(label $l | .) as $x | $x", "(label $a | .) + (label $b | 1)", "1 - (label $l | 2, break $l)", "\"\\(label $l | .)\"", "[label $l | ., break $l] + [label $l | 1]",
		"1 + (1 as $x | .)", "1 + (1 as $x | $x)", "1 + (reduce . as $x (0; .))", "1 + ([foreach . as $x (0; .)] | length)", "1 + (. as [$a] ?// $a | 1)", "[1 + (label $l | .[]?)]", "(label $l | 1) * (label $l | 2)", "[range(label $l | 2)]", "[limit(label $l | 1; 1, 2)]", "[.[(label $l | 0):(label $m | 1)]?]",
	}
	ins := []any{nil, true, []any{1, 2}, []any{[]any{1}, 2, map[string]any{"a": 3}}, map[string]any{"a": 1, "ab": 2}, 0}
	return fam{"regress", ps, ins, nil}
}

func scopeBlock() fam {
	// %s = the scoped piece (a definition followed by a use inside), OUT = a use of the same name outside
	positions := []string{
		"if . then %s else 0 end | OUT", "if . then 0 else %s end | OUT", "if . then 0 elif . == null then %s else 0 end | OUT", "if . then %s elif true then OUT else 0 end", "if . then %s else OUT end", "if . then 0 elif true then %s else OUT end",
		"if (%s) then OUT else OUT end", "if . then %s end | OUT", "[if . then %s else OUT end, OUT]", "[.[]? | if . then %s else OUT end]",
		"try (%s) catch 0 | OUT", "try error(1) catch (%s) | OUT", "try (%s | error) catch OUT", "[(%s)?, OUT]",
		"reduce (1, 2) as $i (%s; .) | OUT", "reduce (1, 2) as $i (0; %s) | OUT", "reduce (%s) as $i (0; . + 1) | OUT", "reduce (1, 2) as $i (%s; OUT)",
		"[foreach (1, 2) as $i (%s; .)] | OUT", "[foreach (1, 2) as $i (0; %s)] | OUT", "[foreach (1, 2) as $i (0; .; %s)] | OUT", "[foreach (1, 2) as $i (0; %s; OUT)]", "[foreach (1, 2) as $i (%s; OUT; .)]",
		"[%s] | OUT", "[%s, OUT]", "[OUT, %s, OUT]", "{a: (%s)} | OUT", "{a: (%s), b: OUT}", "{(%s | tostring): 1} | OUT", "{(%s | tostring): OUT}", "{\"k\\(%s)\": OUT}",
		"def h(a): [a]; h(%s) | OUT", "def h(a; b): [a, b]; h(%s; OUT)", "def h(a; b): [b, a]; h(OUT; %s)", "[limit(2; %s)] | OUT", "[limit(%s; OUT)]", "first(%s), OUT", "[path(%s | .)?] | OUT", "[range(%s)] | OUT",
		"\"\\(%s)\" | OUT", "\"\\(%s)\\(OUT)\"", "\"\\(OUT)\\(%s)\\(OUT)\"", "@json \"\\(%s)\\(OUT)\"",
		"(%s) // OUT", "(empty // (%s)) | OUT", "[(%s), OUT]", "(%s) | OUT", "((%s)) + OUT", "OUT + (%s)", "[(%s) as $q | OUT]", "(%s) as $q | OUT",
		"(label $l | %s) | OUT", "[label $l | (%s), OUT]", "[.[(%s) | 0]?] | OUT", "[.[(%s | 0):OUT]?]", ".a = (%s) | OUT", "(.a |= (%s)) | OUT", "def w: %s; w | OUT", "def w: %s; [w, OUT]", "def w(a): a; w(%s) , OUT",
		"[.[]? | (%s)] | OUT", "-(%s) | OUT", "[(%s) == OUT]", "[(%s) and OUT]", "(%s), (%s) | OUT",
	}
	type dv struct{ in, out, outer string }
	defs := []dv{
		{"def f: 1; f", "f", "def f: 2; "},
		{"def f: 1; f + 1", "f", ""},
		{"def f(g): g + 10; f(1)", "f(2)", "def f(g): [g]; "},
		{"def f(g): g + 10; f(1)", "f(2)", ""},
		{"def f(g): g; f(1)", "f", "def f: 2; "},
		{"def f: 1; f", "f(3)", "def f(g): [g]; "},
		{"1 as $v | $v", "$v", "2 as $v | "},
		{"1 as $v | $v + 1", "$v", ""},
		{"def f: 1; def g: f + 1; g", "g", "def g: 20; "},
		{"def f: def f: 1; f + 1; f", "f", "def f: 2; "},
		{"def f($a): $a + 1; f(1)", "a", "def a: 2; "},
		{"def f($a): $a + 1; f(1)", "$a", "2 as $a | "},
		{"[1] as [$v] | $v", "$v", "2 as $v | "},
		{"reduce 1 as $v (0; $v)", "$v", "2 as $v | "},
		{"label $f | 1, break $f", "f", "def f: 2; "},
	}
	var ps []string
	for i, pos := range positions {
		for j, d := range defs {
			p := strings.ReplaceAll(strings.ReplaceAll(pos, "%s", d.in), "OUT", d.out)
			ps = append(ps, d.outer+p)
			if d.outer != "" && (i+j)%3 == 0 {
				ps = append(ps, p) // the same without the outer binding: must not compile
			}
		}
	}
	return fam{"scope", ps, []any{true, false, nil, []any{1, nil}, map[string]any{"a": 1}}, nil}
}

func calleeBlock() fam {
	defs := "def k: .key; def i: 0; def n: -1; def p: [\"a\"]; def s: \"a\"; def id: .; def kk: k; def l: length; def e: empty; def two: (0, 1); def kx(x): x; "
	uses := []string{
		"path(.[k])", "[path(.[k])]", ".[k]", "[.[k]]", ".[k] = 9", ".[k] |= 7", ".[k] += 1", ".[k] //= 1", "del(.[k])", "[paths(.[k]?)]?", "path(.[k]?)", "try path(.[k]) catch \"P\"", "path(.[kk])", ".[kk] = 9", "path(.[k | .])", "path(.[(k | .)])", "path(.[(k, empty)])", ".[(k, empty)] = 9", "path(.[kx(k)])", ".[kx(.key)] = 9",
		"path(.arr[i])", ".arr[i]", ".arr[i] = 9", ".arr[i] |= 7", "del(.arr[i])", "path(.arr[n])", ".arr[n] = 9", "del(.arr[n])", "path(.arr[(i | .)])", "path(.arr[(i, empty)])", "[path(.arr[two])]", ".arr[two] = 9", "[.arr[two]]", "path(.arr[i:])", "path(.arr[:n])", "path(.arr[i:n])", ".arr[i:] | length", "[.arr[n:]]", "del(.arr[i:n])", "path(.arr[l])?", "[.arr[e]]", "[path(.arr[e])]",
		"path(getpath(p))", "getpath(p)", "getpath(p) |= 5", "getpath(p) = 5", "del(getpath(p))", "[paths] | index([p])?", "path(getpath(p) | .)", "path(getpath((p | .)))", "path(getpath((p, empty)))", "getpath((p | .)) |= 5", "[getpath(p, [\"key\"])]", "path(getpath([s]))", "path(getpath([k]))", "getpath([k]) = 9", "try (getpath([k, i]) = 9) catch \"G\"",
		"path(.[s])", ".[s] = 9", "path(.[id | .key])", ".[id | .key] = 9", "path(id | .[k])", "path(.[k] | id)", "path(id)", "path(id | id)", "[path(.[k], .[s])]", "(.[k], .[s]) = 1", "path(first(.[k], .[s]))", "[path(.. | objects | .[k]?)]", "reduce path(.[k]) as $q (.; setpath($q; 1))", "[path(.[k][i]?)]", "path(.arr[i] | id)",
		"path(.[k]) as $q | getpath($q)", "to_entries | map(.key) | index(k)?", "has(k)?", "[.[k, s]]", "[path(.[k, s])]", ".[k, s] = 9", "path(.[if k == \"a\" then s else k end])", "path(.[k // s])", "path(.[try k catch s])", "[.[]? | path(.[k])?]", "path(.[k | tostring])?", "path(.[k | ascii_downcase])?",
		"def k2: .key; def f: path(.[k2]); f", "def f(x): path(.[x]); f(k)", "def f(x): .[x] = 9; f(k)", "def f($x): path(.[$x]); f(k)", "def f: .[k] |= 7; f", "path(.[k]) == [k]", "[limit(1; path(.[k]))]", "label $o | path(.[k]), break $o",
	}
	var ps []string
	for _, u := range uses {
		ps = append(ps, defs+u)
	}
	ins := []any{
		map[string]any{"key": "a", "a": 1, "arr": []any{1, 2, 3}}, map[string]any{"key": "arr", "arr": []any{5}}, map[string]any{"key": "zz", "a": map[string]any{"key": "a"}, "arr": []any{}},
		map[string]any{"key": "key", "a": nil}, map[string]any{"key": 0, "arr": []any{[]any{1}}}, map[string]any{"a": 1}, nil,
	}
	return fam{"callee", ps, ins, nil}
}

func boundaryBlock() fam {
	lits := []string{
		"9223372036854775808.0", "9.223372036854775808e18", "-9223372036854775808.0", "9223372036854774784.0", "-9223372036854777856.0", "9223372036854775807", "9223372036854775808", "-9223372036854775808", "-9223372036854775809",
		"1e19", "-1e19", "9007199254740992.0", "9007199254740993", "-9007199254740992.0", "4294967296.0", "4294967296", "2147483648.0", "-2147483649", "nan", "infinite", "-infinite", "-0.0", "0.5", "-0.5", "1.5", "2.5", "-1.5", "1e308", "1e-320", "0.9999999999999999", "2.0000000000000004",
	}
	var ps []string
	for i, b := range lits {
		ps = append(ps,
			fmt.Sprintf(".[:%s]", b), fmt.Sprintf(".[%s:]", b), fmt.Sprintf(".[%s]", b), fmt.Sprintf("[limit(%s; 1, 2, 3)]", b), fmt.Sprintf("[limit(3; range(%s))]", b),
			fmt.Sprintf("try (\"abc\" | .[:%s], .[%s:]) catch \"S\"", b, b), fmt.Sprintf("[limit(3; range(0; %s))]", b), fmt.Sprintf("[limit(3; range(0; 10; %s))]", b), fmt.Sprintf("try (\"\" * %s) catch \"R\"", b),
			fmt.Sprintf("nth(%s; 1, 2, 3)", b), fmt.Sprintf("has(%s)", b), fmt.Sprintf("getpath([%s])", b), fmt.Sprintf("del(.[%s])", b), fmt.Sprintf("flatten(%s)", b))
		switch i % 3 {
		case 0:
			ps = append(ps, fmt.Sprintf(".[1:%s]", b), fmt.Sprintf(".[%s:2]", b), fmt.Sprintf(".[-%s:]", b), fmt.Sprintf("[limit(3; range(%s; %s + 3))]", b, b), fmt.Sprintf("path(.[:%s])", b), fmt.Sprintf("(.[%s] = 9)", b))
		case 1:
			ps = append(ps, fmt.Sprintf(".[%s:%s]", b, b), fmt.Sprintf("[.[]?][%s:] | length", b), fmt.Sprintf("first(limit(%s; repeat(1)))", b), fmt.Sprintf("path(.[%s])", b), fmt.Sprintf("(.[:%s] |= .)", b), fmt.Sprintf("try (\"ab\" * (%s | if . > 3 or . < -3 then 0 else . end)) catch \"R\"", b))
		default:
			ps = append(ps, fmt.Sprintf("(%s) as $b | .[:$b]", b), fmt.Sprintf("(%s) as $b | .[$b:]", b), fmt.Sprintf("([range(5)] | .[%s:] , .[:%s])", b, b), fmt.Sprintf("setpath([%s]; 1)", b), fmt.Sprintf("(%s | floor, ceil, round, fabs, sqrt)", b), fmt.Sprintf("%s | tojson, (. == (. | tojson | fromjson))?", b))
		}
	}
	// the same boundaries arriving as DATA: .[1] is the bound
	ps = append(ps,
		".[0][:.[1]]", ".[0][.[1]:]", ".[0][.[1]]", "[limit(.[1]; .[0][]?)]?", "(.[0] | tostring | .[:5])", ".[1] as $b | (.[0] | .[$b:$b])", "(.[0] | del(.[:.[1]]?))", ".[1] | tojson",
		"([.[0][:.[1]], .[0][.[1]:]] | map(length))", ".[1] as $b | [limit(3; range($b))]?", ".[1] as $b | nth($b; .[0][]?)", ".[1] | [floor?, ceil?, (. % 7)?]", ".[1] | [. == 9223372036854775808, . < 9223372036854775808, . > 9223372036854775807]")
	two63 := 9223372036854775808.0
	ins := []any{
		[]any{1, 2, 3}, "abc", []any{[]any{1, 2, 3}, two63}, []any{[]any{1, 2, 3}, -two63}, []any{"héllo", two63}, []any{[]any{1, 2, 3}, 9007199254740992.0}, []any{[]any{1, 2, 3}, bigOf("9223372036854775808")},
		[]any{[]any{1, 2, 3}, 1e19}, []any{[]any{1, 2, 3}, 1.5}, []any{[]any{}, two63}, nil, []any{[]any{1, 2, 3}, int(9223372036854775807)},
	}
	return fam{"boundary", ps, ins, nil}
}

// marker: sub-expressions that NAVIGATE inside every position the compiler brackets with opexpbegin/opexpend
// ($-parameter evaluation, the source of `as`, the condition of if / and / or / select, the right-hand side of `=`,
// key arguments of index / slice / getpath), all inside path expressions, updates and deletions: navigation done
// in such a position must not become part of the path
func markerBlock() fam {
	es := []string{
		// $-parameters
		"def f($a): .[$a]; f(.k)", "def f($a): .b; f(.a.c)", "def f($a): .; f(.a)", "def f($a; $b): .[$a][$b]?; f(.k; .i)", "def f($a): .a | .[$a]?; f(.k)", "def f($a): if $a then .a else .b end; f(.c)", "def f($a): .a, .b; f(.[]?)", "def f(g; $a): g | .[$a]?; f(.a; .k)", "def f($a): $a; f(.a)", "def f($a): .a[$a]?; f(.i, .j)",
		// sources of `as` (one pattern: the marker is a nop; several: expend)
		".a as $x | .b", "(.a | .c) as $x | .b", ".k as $x | .[$x]", ".[]? as $x | .b", ".a as [$x] | .b", ".a as {c: $x} | .b", ".a as [$x] ?// $x | .b", ".k as [$x] ?// $x | .[$x]?", "(.a, .b) as $x | .c", "first(.[]?) as $x | .a", ".a.c as $x | .a | .[$x]?", ". as {k: $x} | .[$x]", ". as {k: $x, i: $y} | .a[$y]?", "(.k | ascii_downcase?) as $x | .[$x]?", ".a as $x | .b as $y | .c",
		// conditions
		"if .a then .b else .c end", "if .a.c then . else .c end", "if (.a | .c) then .b else .c end", "if .[]? then .a else .b end", "if . then .a else .b end", "if empty then .a else .b end", "if .a then .b elif .b then .c else .a end", "if .a then .b end", "select(.a)", "select(.a and .b)", "select(.a or .b.c?)", "if .a and .b then .c else .a end", "if (.a or .c) then .b else .c end", ".a | select(.c)", ".[]? | select(.c?)", "select(.a | not)", "if .a == .b then .a else .b end", "if (.a | length) > 0 then .a else .b end", "select(any(.[]?; . == 1))", "select(has(\"a\")?)", "if (.k as $x | .[$x]) then .a else .b end", "values", "select(.a // .b)", "select(.a | . != null)",
		// key arguments that navigate
		".[.k]", ".a[.i]?", ".a[.i:.j]?", ".a[.i:]?", "getpath(.p)", "getpath([.k])", ".[.k | ascii_downcase?]?", ".a[.a | length - 1]?", ".[.p[0]]?", ".[.k, .p[0]?]?", ".a[(.i, .j)]?", ".[first(.k, .p[]?)]?", ".[.k]?.c?", ".[.k // \"a\"]", ".[if .k then .k else \"a\" end]", ".[.k as $x | $x]", ".a[.i as $x | $x + 0]?", "getpath(.p | .[:1])", "getpath(.p, [.k])", ".[.[\"k\"]]",
		// other constructs inside path expressions
		"first(.a, .b)", "limit(1; .a, .b)", ".a // .b", ".a? // .c", "try .a catch .b", "label $l | .a, break $l", ".a | first(.c, .d)?", "reduce .a as $x (.; .b)", "reduce (.a, .b) as $x (.; .c)?", "foreach (.a, .b) as $x (.; .c; .)?", "reduce .k as $x (.; .[$x])", "[.a, .b] | .[0]", "{x: .a} | .x", ".a | recurse(.c?)", "recurse(.a?; . != null)", "..", ".. | select(type == \"number\")", "getpath([\"a\"]) | .c?", "paths as $q | getpath($q)", "to_entries[]?.value", "(.a, .b) | .c?", ".a | (.c, .d)?", "empty", "error?", ".a | first", "first(.a[]?)", "last(.a[]?)", "nth(1; .a[]?)", "until(.c? == null; .c)", "input?", "$__loc__?", ".a | if . then .c? else . end", ".a.c?, .b", "(.a | .c)?", ".[\"a\"].c?",
	}
	wrappers := []string{"[path(%s)]", "[%s]", "(%s) = 9", "(%s) |= 7", "del(%s)", "[paths(%s)]", "(%s) += 1", "[path(%s)] | length", "path(first(%s))", "[limit(2; path(%s))]"}
	var ps []string
	for i, e := range es {
		for j, w := range wrappers {
			if j > 1 && (i+j)%3 != 0 {
				continue
			}
			ps = append(ps, strings.ReplaceAll(w, "%s", e))
		}
	}
	// right-hand sides of assignments navigate in expression mode
	ps = append(ps,
		".a = .b", ".a = (.b | .c?)", "(.a, .b) = .c", ".a = .a.c?", ".[.k] = .i", ".a.c = .k", ".a = (.b, .c)", ".a |= .c?", ".a += .i", ".a //= .b", ".a = (.k as $x | .[$x])", ".a = (if .b then .c else .k end)", ".a = first(.b, .c)", ".a.c |= (.d? // 0)", ".[.k] |= .c?", ".a[.i]? = .j", "(.a | .c?) = .b",
		"path(.a = .b)?", "[paths] | length", ".a = .b | .a", "[.a = (.b, .c) | .a]", ".a = (.b | .[]?)", "reduce (.a = .b) as $x (0; 1)", ".a = (.b as $x | $x)", "def f($a): .a = $a; f(.b)", "def f(g): .a = g; f(.b)", "def f(g): .a |= g; f(.c?)")
	ins := []any{
		map[string]any{"k": "a", "i": 0, "j": 2, "p": []any{"a", "c"}, "a": map[string]any{"c": 1, "d": nil}, "b": []any{1, 2, 3}, "c": true},
		map[string]any{"k": "b", "i": 1, "j": 1, "p": []any{"b", 0}, "a": []any{5, 6, 7}, "b": map[string]any{"c": "x"}, "c": false},
		map[string]any{"k": "c", "i": -1, "j": nil, "p": []any{}, "a": nil, "b": 2, "c": nil},
		map[string]any{"a": map[string]any{"c": map[string]any{"c": nil}}, "b": nil}, []any{map[string]any{"c": 1}, map[string]any{"c": nil}}, nil,
	}
	return fam{"marker", ps, ins, []any{"in"}}
}

// the deterministic blocks, in the order they run
func firstBlocks() []fam {
	return []fam{regressBlock(), scopeBlock(), calleeBlock(), boundaryBlock(), markerBlock()}
}
