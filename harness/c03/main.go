package main

// C03 harness: runs every native of internalFuncs (direct call through the hook AND the compiled
// path `$in | f($a;$b)` through the public API) on tuples over a JSON universe, one line per call
// with what the IMPLEMENTATION did.  Implementation-only oracles (reported as violations):
//   - no panic for any tuple; natives do not modify their inputs
//   - the compiled path and the direct call agree
//   - representation independence: the same call with every Go representation of the same numbers
//     gives the same denoted result / the same error class
//   - builtin.go in sync with builtin.jq (stream "sync")

import (
	"context"
	"encoding/base64"
	"encoding/json"
	"fmt"
	"math"
	"math/big"
	"net/url"
	"os"
	"os/exec"
	"reflect"
	"sort"
	"strings"
	"time"
	. "verifharness/hlib"

	"github.com/itchyny/gojq"
)

func main() {
	Register("c03", runC03)
	Register("sync", runSync)
	Register("replay", runReplay)
	Register("hist", runHist)
	Register("jqdef", runJqdef)
	Main()
}

// ---------------------------------------------------------------------------------------------
// universe

func bigs(s string) *big.Int   { x, _ := new(big.Int).SetString(s, 10); return x }
func lit(s string) json.Number { return json.Number(s) }
func arr(xs ...any) []any {
	if xs == nil {
		return []any{}
	}
	return xs
}
func obj(kv ...any) map[string]any {
	m := map[string]any{}
	for i := 0; i+1 < len(kv); i += 2 {
		m[kv[i].(string)] = kv[i+1]
	}
	return m
}

type uval struct {
	v    any
	core bool // member of the ~60-value core used for squares
}

func universe() []uval {
	var u []uval
	add := func(core bool, vs ...any) {
		for _, v := range vs {
			u = append(u, uval{v, core})
		}
	}
	add(true, nil, true, false)
	// ints
	add(true, 0, 1, -1, 2, 3, 65, math.MaxInt64, math.MinInt64)
	add(false, 10, -2, 1114112, 55296, 0x20000000, 2147483647, 2147483648, 9007199254740993)
	// *big.Int
	add(true, bigs("9223372036854775808"), bigs("-9223372036854775809"), big.NewInt(1))
	add(false, bigs("1000000000000000000000000000000"), big.NewInt(0), big.NewInt(-3), bigs("1"+strings.Repeat("0", 400)))
	// float64
	add(true, 0.5, 1.5, -1.5, 2.0, math.NaN(), math.Inf(1), math.Inf(-1), math.Copysign(0, -1), 1e300)
	add(false, 0.0, 2.5, -0.5, 3.0, 1e-7, 1e21, 9007199254740992.0, 9223372036854775808.0, -1e300, 1e-320, 0.1, 4294967296.5, 2147483647.5, 65.9)
	// json.Number
	add(true, lit("0"), lit("1"), lit("-1"), lit("1.5"), lit("1e1000"), lit("100000000000000000000"), lit("1.0"))
	add(false, lit("-0"), lit("1e2"), lit("-1e1000"), lit("9223372036854775807"), lit("9223372036854775808"), lit("1e-400"),
		lit("0.1"), lit("-1.5"), lit("2"), lit("1E2"), lit("2.5"), lit("-0.0"), lit("0.5"), lit("3"), lit("65"))
	// strings
	add(true, "", "a", "abc", "a,b", " a\t", "1", "\xff", "日本", "'\"<>&", "[1,2]")
	add(false, "ABC", "true", "nan", "é", "a\xffb", "\x00", "YWJj", "YWJ=", "%41+b%zz", "1 2", "abcabc", "b", ",", "bc", "1.5", "-1e3", "+5", ".5", "5.", "0x10",
		" x ", "\xe2\x80", "{\"a\":1}", "null", "text", "csv", "base64", "\xf0\x9f\x98\x80", "\xed\xa0\x80", "A\tB\nC\\", "a b", "Y Q==", "YQ\n==", "1e1000", "%", "%4")
	// arrays
	add(true, arr(), arr(1), arr(1, 2, 3), arr(arr(1), arr(2, arr(3))), arr("a", "b"), arr(nil), arr(1, "a", nil), arr(0, 1), arr("a"),
		arr(3, 1, 2, 1), arr(65, 66), arr(arr("a")), arr(arr(0)))
	add(false, arr(arr(1, 2), arr(3)), arr(obj("start", 0, "end", 1)), arr(1, 1.0, lit("1")), arr(math.NaN(), 1, math.NaN()), arr("a", 1), arr(arr("a", "b")),
		arr(arr(0), arr(1)), arr(arr("a"), arr("b")), arr(1.5, lit("1.5"), bigs("9223372036854775808")), arr(-1), arr(arr(-1)), arr(arr(5)), arr(5),
		arr("a", "b", "a"), arr(true, false, nil), arr(arr(), arr(1)), arr(obj("a", 1), obj("a", 2)), arr(1114112, -1, 55296, 0x1F600), arr(1.9, lit("66"), big.NewInt(67)),
		arr("b", 0), arr(arr("a", 0), arr("a")), arr(2, 1), arr(arr(obj("start", 1, "end", nil))), arr(arr("a", "b"), arr("a")), arr(arr("b", 0, "c")),
		arr(obj("key", "k", "value", 1)), arr(0, 0), arr(arr(1, 2, 3), arr(4), "x"), arr(arr(1, 2, 3), arr(4)), arr(lit("1.0"), 1), arr(nil, "a", "b"), arr("x", nil, 1, true),
		arr(arr(1, nil), "a"), arr(arr(0, 0)), arr(arr(2), arr(0)), arr(0x20000000), arr(arr(0x20000000)), arr(arr(math.MaxInt64)), arr(math.NaN()))
	// objects
	add(true, obj(), obj("a", 1), obj("a", 1, "b", 2), obj("a", obj("b", 1)), obj("a", obj("c", 2)), obj("start", 1, "end", 2), obj("a", nil))
	add(false, obj("b", arr(1)), obj("a", arr(1, 2)), obj("start", nil, "end", 1.5), obj("start", 1), obj("start", "x", "end", 1), obj("a", obj("b", obj("c", 1))),
		obj("a", "x", "b", nil), obj("b", arr(0, obj("c", 1))), obj("a", lit("1.0")), obj("é", 1, "a", 2), obj("start", -1, "end", nil), obj("start", 0, "end", lit("1.5")),
		obj("a", obj("b", 1), "c", 3), obj("start", 1, "end", 1), obj("a", arr("a")),
		obj("a", obj("b", obj("x", 1, "y", 2), "c", 2), "z", 0))
	add(true, obj("a", obj("b", 1, "c", 2)), obj("a", obj("c", 3, "d", obj("e", 1)), "b", nil))
	return u
}

// random larger values: nested containers over a small key alphabet (so that merges, contains, paths and
// differences overlap), numbers in every representation, strings with multi-byte and invalid bytes
func randVal(r *Rng, depth int) any {
	k := r.Intn(12)
	if depth <= 0 && k >= 8 {
		k = r.Intn(8)
	}
	switch k {
	case 0:
		return nil
	case 1:
		return r.Intn(2) == 0
	case 2:
		return []any{0, 1, -1, 2, 3, 7, 100, -5, math.MaxInt64, math.MinInt64}[r.Intn(10)]
	case 3:
		return []any{0.5, -1.5, 2.0, 1e17, 3.25, -0.0, 1e-9, 123456.789}[r.Intn(8)]
	case 4:
		return []any{lit("1"), lit("2.5"), lit("1e3"), lit("-7"), lit("12345678901234567890"), lit("0.25"), lit("3.0")}[r.Intn(7)]
	case 5:
		return []any{big.NewInt(2), bigs("18446744073709551616"), bigs("-9223372036854775809"), big.NewInt(-1)}[r.Intn(4)]
	case 6, 7:
		return []string{"", "a", "b", "ab", "abc", "ba", "a,b", "é", "x\xffy", " a ", "A", "c"}[r.Intn(12)]
	case 8, 9:
		n := r.Intn(4)
		xs := make([]any, n)
		for i := range xs {
			xs[i] = randVal(r, depth-1)
		}
		return xs
	default:
		n := r.Intn(4)
		m := map[string]any{}
		for i := 0; i < n; i++ {
			m[[]string{"a", "b", "c", "d"}[r.Intn(4)]] = randVal(r, depth-1)
		}
		return m
	}
}

// mutate returns a value of the same shape as v with some leaves / entries changed
func mutate(r *Rng, v any) any {
	switch x := v.(type) {
	case []any:
		w := make([]any, 0, len(x)+1)
		for _, e := range x {
			switch r.Intn(4) {
			case 0:
				w = append(w, mutate(r, e))
			case 1:
			default:
				w = append(w, deepCopy(e))
			}
		}
		if r.Intn(3) == 0 {
			w = append(w, randVal(r, 1))
		}
		return w
	case map[string]any:
		w := map[string]any{}
		for k, e := range x {
			switch r.Intn(4) {
			case 0, 1:
				w[k] = mutate(r, e)
			case 2:
			default:
				w[k] = deepCopy(e)
			}
		}
		if r.Intn(2) == 0 {
			w[[]string{"a", "b", "c", "d"}[r.Intn(4)]] = randVal(r, 2)
		}
		return w
	}
	if r.Intn(2) == 0 {
		return randVal(r, 1)
	}
	return v
}

// parseTexts: inputs for the PARSING builtins (fromjson, tonumber, toboolean, @base64d, @urid): valid texts,
// every valid text followed by each trailer, prefixes of valid texts, leading garbage, duplicate keys,
// numbers of odd shapes, invalid UTF-8 and control characters inside strings, deep nesting.
func parseTexts() []any {
	valid := []string{"1", "-0", "1.5e3", "12345678901234567890", "null", "true", "false", `""`, `"a"`, `"\u00e9\ud83d\ude00\n"`,
		"[]", "[1]", "[1,2]", "[[],{}]", "{}", `{"a":1}`, `{"a":{"b":[1,null]},"c":"d"}`, " [ 1 , 2 ] ", "\t{\n\"a\" : 1\r}\n"}
	trailers := []string{"]", "}", "]]", ",", ":", " 2", "x", `"`, "\x00", " ", "\n\t ", " ]", " }", "[", "{", "null", " null", "/", "\xff", "1", ".", "e1", "-"}
	var out []any
	seen := map[string]bool{}
	add := func(xs ...string) {
		for _, x := range xs {
			if !seen[x] {
				seen[x] = true
				out = append(out, x)
			}
		}
	}
	for _, v := range valid {
		add(v)
		for _, t := range trailers {
			add(v + t)
		}
		for i := 0; i < len(v); i++ { // prefixes
			add(v[:i])
		}
		for _, g := range []string{"x", "]", ",", "\xef\xbb\xbf", "\x00", "'", "+"} { // leading garbage
			add(g + v)
		}
	}
	// duplicate keys, odd numbers, strings with invalid UTF-8 / control characters / odd escapes
	add(`{"a":1,"a":2}`, `{"a":1,"b":2,"a":{"a":3}}`, `{"a":1,}`, `[1,]`, `[,1]`, `{,}`, `{"a"}`, `{"a":}`, `{a:1}`, `{'a':1}`, `{"a":1 "b":2}`, `[1 2]`, `{1:2}`,
		"01", "1.", ".5", "+1", "1e", "1e+", "-", "--1", "-01", "0.0", "1E5", "1e-0", "0e0", "1.0e", "0x10", "1_0", "Infinity", "NaN", "nan", "-Infinity", "1e1000", "-1e-1000", "00", "-.5", "1.e5", "١",
		"\"\xff\"", "\"a\xffb\xc3\"", "\"\xe2\x82\"", "\"\x01\"", "\"\t\"", "\"\n\"", "\"\x7f\"", "\"\x00\"", `"\x"`, `"\u12"`, `"\u12G4"`, `"\ud800"`, `"\ud800\u0041"`, `"\udc00"`, `"\ud800\udc00"`, `"\/"`, `"\'"`, `"\`,
		`"\"`, `"a`, `'a'`, "tru", "True", "TRUE", "nul", "nullx", "truefalse", "[null,true,false]", "[\"a\",\"b\"]]", "{\"\xff\":1,\"\xfe\":2}", "{\"\":1}", "\xef\xbb\xbf1", "\u00a01", "1\u00a0", "\v1", "1\f",
		"[1][2]", "{}{}", "[]]", "{}}", "null]]]]", "1]", "1}", "\"a\"]", "true]", "[1]}", "{\"a\":1}]", "[[1]", "[1]]]", "[1] ]", "{} }", "//", "/**/1", "1 // x", "1,2")
	// nesting: 100, exactly at the decoder's limit and beyond it
	for _, n := range []int{100, 10000, 10001} {
		add(strings.Repeat("[", n)+strings.Repeat("]", n), strings.Repeat("[", n)+strings.Repeat("]", n)+"]", strings.Repeat("[", n)+strings.Repeat("]", n-1),
			strings.Repeat(`{"a":`, n)+"1"+strings.Repeat("}", n))
	}
	// tonumber / toboolean / base64 / url texts
	add(" 1", "1 ", " ", "", "1e", "1e400", "1e-400", "9223372036854775808", "-9223372036854775809", "0001", "-0", "+0", "+.5e+3", "5.e3", "e5", ".e5", "1..2", "1e5e5", "1-", "1+1", "١٢", "1\x00", "\x001",
		"true ", " true", "True", "false\n", "t", "YWJj", "YW Jj", "YWJj=", "=YWJj", "YQ", "Y", "YWJ", "YW\nJj", "YW\r\nJj", "YW-_", "YWJjZA", "YQ=a", "!!!!", "YQ==", "YQ=", "YWI=", "Y===", "====", "YWJjZGVm", "YWJjZGV=", "\xff\xff", "YW\x00Jj", "YWJj\n",
		"%41", "%4", "%", "%zz", "%%", "a%20b+c", "%C3%A9", "%ff", "%00", "+", "%2B", "%2", "a%")
	return out
}

// ---------------------------------------------------------------------------------------------
// outcomes

const seqCap = 40

func errSexp(err error) string {
	cls := gojq.VerifErrClass(err)
	if v, code, ok := gojq.VerifErrPayload(err); ok {
		if cls == "HaltError" {
			return fmt.Sprintf("(HaltError %s %d)", SexpVal(v), code)
		}
		return fmt.Sprintf("(%s %s)", cls, SexpVal(v))
	}
	// funcNWrapError(inner) -> (funcNWrapError inner)
	return classSexp(cls)
}

func classSexp(cls string) string {
	if i := strings.IndexByte(cls, '('); i >= 0 && strings.HasSuffix(cls, ")") {
		return "(" + cls[:i] + " " + classSexp(cls[i+1:len(cls)-1]) + ")"
	}
	return cls
}

// outcome of a native result value (direct call)
func outcome(res any, panicked any) string {
	if panicked != nil {
		return "(panic " + Hexs([]byte(fmt.Sprint(panicked))) + ")"
	}
	switch r := res.(type) {
	case error:
		return "(err " + errSexp(r) + ")"
	case gojq.Iter:
		var sb strings.Builder
		sb.WriteString("(seq (")
		end := "cut"
		for i := 0; i < seqCap; i++ {
			v, ok := r.Next()
			if !ok {
				end = "done"
				break
			}
			if e, ok := v.(error); ok {
				end = "(err " + errSexp(e) + ")"
				break
			}
			if i > 0 {
				sb.WriteByte(' ')
			}
			sb.WriteString(SexpVal(v))
		}
		if end == "cut" {
			// the model says cut only if a further element exists
			if _, ok := r.Next(); !ok {
				end = "done"
			}
		}
		sb.WriteString(") " + end + ")")
		return sb.String()
	default:
		return "(ok " + SexpVal(res) + ")"
	}
}

// outcome of the compiled path, rendered like a direct outcome (iter = result is a stream)
func outcomeCompiled(code *gojq.Code, iter bool, in any, args []any) (out string) {
	defer func() {
		if r := recover(); r != nil {
			out = "(panic " + Hexs([]byte(fmt.Sprint(r))) + ")"
		}
	}()
	it := code.Run(in, args...)
	if !iter {
		v, ok := it.Next()
		if !ok {
			return "(none)"
		}
		if e, ok := v.(error); ok {
			return "(err " + errSexp(e) + ")"
		}
		return "(ok " + SexpVal(v) + ")"
	}
	var sb strings.Builder
	sb.WriteString("(seq (")
	end := "cut"
	for i := 0; i < seqCap; i++ {
		v, ok := it.Next()
		if !ok {
			end = "done"
			break
		}
		if e, ok := v.(error); ok {
			end = "(err " + errSexp(e) + ")"
			break
		}
		if i > 0 {
			sb.WriteByte(' ')
		}
		sb.WriteString(SexpVal(v))
	}
	if end == "cut" {
		if _, ok := it.Next(); !ok {
			end = "done"
		}
	}
	sb.WriteString(") " + end + ")")
	return sb.String()
}

// ---------------------------------------------------------------------------------------------
// representation variants and canonical (denoted) form

func floatLit(f float64, integralToo bool) (json.Number, bool) {
	if math.IsNaN(f) {
		return "", false
	}
	if math.IsInf(f, 1) {
		return "1e1000", true
	}
	if math.IsInf(f, -1) {
		return "-1e1000", true
	}
	b, _ := gojq.Marshal(f)
	s := string(b)
	if strings.ContainsAny(s, ".e") {
		return json.Number(s), true
	}
	if integralToo {
		return json.Number(s + ".0"), true
	}
	return "", false
}

// mode: 1 int->big; 2 int,big->literal; 3 fractional float->literal; 4 every float->literal (integral
// ones as d.0, infinities as +-1e1000); 5 = 2+4
func variant(v any, mode int) any {
	switch x := v.(type) {
	case int:
		switch mode {
		case 1:
			return big.NewInt(int64(x))
		case 2, 5:
			return json.Number(fmt.Sprint(x))
		}
	case *big.Int:
		if mode == 2 || mode == 5 {
			return json.Number(x.String())
		}
	case float64:
		switch mode {
		case 3:
			if math.IsInf(x, 0) {
				return x
			}
			if l, ok := floatLit(x, false); ok {
				return l
			}
		case 4, 5:
			if l, ok := floatLit(x, true); ok {
				return l
			}
		}
	case []any:
		w := make([]any, len(x))
		for i, e := range x {
			w[i] = variant(e, mode)
		}
		return w
	case map[string]any:
		w := make(map[string]any, len(x))
		for k, e := range x {
			w[k] = variant(e, mode)
		}
		return w
	}
	return v
}

func canonNum(sb *strings.Builder, v any) {
	if n, ok := v.(json.Number); ok {
		v = gojq.VerifParseNumber(n)
	}
	switch x := v.(type) {
	case int:
		fmt.Fprintf(sb, "I%d", x)
	case *big.Int:
		sb.WriteString("I" + x.String())
	case float64:
		if math.IsNaN(x) {
			sb.WriteString("Fnan")
		} else {
			fmt.Fprintf(sb, "F%x", math.Float64bits(x))
		}
	}
}

func canon(sb *strings.Builder, v any) {
	switch x := v.(type) {
	case nil:
		sb.WriteString("null")
	case bool:
		fmt.Fprint(sb, x)
	case int, *big.Int, float64, json.Number:
		canonNum(sb, x)
	case string:
		sb.WriteString("S" + Hexs([]byte(x)))
	case []any:
		sb.WriteByte('[')
		for _, e := range x {
			canon(sb, e)
			sb.WriteByte(',')
		}
		sb.WriteByte(']')
	case map[string]any:
		ks := make([]string, 0, len(x))
		for k := range x {
			ks = append(ks, k)
		}
		sort.Strings(ks)
		sb.WriteByte('{')
		for _, k := range ks {
			sb.WriteString(Hexs([]byte(k)) + ":")
			canon(sb, x[k])
			sb.WriteByte(',')
		}
		sb.WriteByte('}')
	default:
		fmt.Fprintf(sb, "?%T", v)
	}
}

func canonOutcome(res any, panicked any) string {
	var sb strings.Builder
	if panicked != nil {
		return "panic"
	}
	switch r := res.(type) {
	case error:
		sb.WriteString("E:" + gojq.VerifErrClass(r))
		if v, code, ok := gojq.VerifErrPayload(r); ok {
			fmt.Fprintf(&sb, ":%d:", code)
			canon(&sb, v)
		}
	case gojq.Iter:
		for i := 0; i < seqCap; i++ {
			v, ok := r.Next()
			if !ok {
				sb.WriteString("done")
				break
			}
			if e, ok := v.(error); ok {
				sb.WriteString("E:" + gojq.VerifErrClass(e))
				break
			}
			canon(&sb, v)
			sb.WriteByte(';')
		}
	default:
		canon(&sb, res)
	}
	return sb.String()
}

// canonJSON: the canonical form of what a value is after one trip through JSON text (NaN becomes null,
// infinities the largest finite doubles, invalid UTF-8 bytes U+FFFD)
func canonJSON(v any) string {
	b, err := gojq.Marshal(v)
	if err != nil {
		return "?marshal"
	}
	var w any
	d := json.NewDecoder(strings.NewReader(string(b)))
	d.UseNumber()
	if err := d.Decode(&w); err != nil {
		return "?decode:" + err.Error()
	}
	var sb strings.Builder
	canon(&sb, w)
	return sb.String()
}

func hasNumber(v any) bool {
	switch x := v.(type) {
	case int, *big.Int, float64:
		return true
	case []any:
		for _, e := range x {
			if hasNumber(e) {
				return true
			}
		}
	case map[string]any:
		for _, e := range x {
			if hasNumber(e) {
				return true
			}
		}
	}
	return false
}

func deepCopy(v any) any {
	switch x := v.(type) {
	case []any:
		w := make([]any, len(x))
		for i, e := range x {
			w[i] = deepCopy(e)
		}
		return w
	case map[string]any:
		w := make(map[string]any, len(x))
		for k, e := range x {
			w[k] = deepCopy(e)
		}
		return w
	case *big.Int:
		return new(big.Int).Set(x)
	}
	return v
}

// natives whose result is a text rendering of numbers: a literal prints its own digits (C10), so
// only literals in canonical text are interchangeable with int/float there
var textNatives = map[string]bool{"tojson": true, "tostring": true, "format": true, "join": true,
	"_tohtml": true, "_touri": true, "_tourid": true, "_tocsv": true, "_totsv": true, "_tosh": true,
	"_tobase64": true, "_tobase64d": true, "ltrimstr": false}

// natives that are not functions of their arguments (clock, zone) or need I/O
var impure = map[string]bool{"now": true, "localtime": true, "strflocaltime": true, "mktime": false}

// ---------------------------------------------------------------------------------------------

type native struct {
	name  string
	arity int
	iter  bool
	code  *gojq.Code // compiled `f($a;$b;$c)` (nil if not compilable through the public API)
}

func querySrc(name string, arity int) string {
	switch name {
	case "_add":
		return "$a + $b"
	case "_subtract":
		return "$a - $b"
	case "_multiply":
		return "$a * $b"
	case "_divide":
		return "$a / $b"
	case "_modulo":
		return "$a % $b"
	case "_equal":
		return "$a == $b"
	case "_notequal":
		return "$a != $b"
	case "_less":
		return "$a < $b"
	case "_greater":
		return "$a > $b"
	case "_lesseq":
		return "$a <= $b"
	case "_greatereq":
		return "$a >= $b"
	case "_alternative":
		return "" // `//` is control flow, not a call of _alternative
	case "_negate":
		return "-."
	}
	switch arity {
	case 0:
		return name
	case 1:
		return name + "($a)"
	case 2:
		return name + "($a;$b)"
	default:
		return name + "($a;$b;$c)"
	}
}

func compileFor(name string, arity int) *gojq.Code {
	src := querySrc(name, arity)
	if src == "" {
		return nil
	}
	q, err := gojq.Parse(src)
	if err != nil {
		return nil
	}
	vars := []string{"$a", "$b", "$c"}[:arity]
	c, err := gojq.Compile(q, gojq.WithVariables(vars))
	if err != nil {
		return nil
	}
	return c
}

type runner struct {
	c       *Ctx
	panics  int
	repDiff int
	pathDif int
	mutated int
	calls   int
	quiet   bool // run the oracles but do not emit the line
	refDiff int
	repRuns int
}

// math.Jn / math.Yn iterate |n| times: jn(9223372036854775807; 1) does not come back.  Such calls are
// left out (reported in docs/C03.md as an observation; not a panic, not a wrong value).
func hugeOrder(v any) bool {
	if n, ok := v.(json.Number); ok {
		v = gojq.VerifParseNumber(n)
	}
	switch x := v.(type) {
	case int:
		return x > 1000000 || x < -1000000
	case *big.Int:
		return true
	case float64:
		return math.Abs(x) > 1e6
	}
	return false
}

// "abc" * 1114112 succeeds with megabytes (up to 2 GiB) of output: left out (the size limit itself is
// covered by the cases just above it, which are errors)
func hugeRepeat(sv, nv any) bool {
	s, ok := sv.(string)
	if !ok || len(s) == 0 {
		return false
	}
	if n, ok := nv.(json.Number); ok {
		nv = gojq.VerifParseNumber(n)
	}
	var f float64
	switch x := nv.(type) {
	case int:
		f = float64(x)
	case float64:
		f = x
	case *big.Int:
		f, _ = new(big.Float).SetInt(x).Float64()
	default:
		return false
	}
	return f > 2000 && f*float64(len(s)) < math.MaxInt32
}

// setpath([1114112]; v) succeeds with an array of a million nulls (up to 2^29 elements): left out; the limit
// itself (index >= 2^29 is an error) stays in
func hugeIndexPath(p any) bool {
	xs, ok := p.([]any)
	if !ok {
		return false
	}
	for _, x := range xs {
		if n, ok := x.(json.Number); ok {
			x = gojq.VerifParseNumber(n)
		}
		switch i := x.(type) {
		case int:
			if i > 2000 && i < 0x20000000 {
				return true
			}
		case float64:
			if i > 2000 && i < 0x20000000 {
				return true
			}
		}
	}
	return false
}

func (r *runner) call(n *native, in any, args []any) {
	c := r.c
	if (n.name == "jn" || n.name == "yn") && len(args) > 0 && hugeOrder(args[0]) {
		return
	}
	if n.name == "_multiply" && (hugeRepeat(args[0], args[1]) || hugeRepeat(args[1], args[0])) {
		return
	}
	if n.name == "setpath" && hugeIndexPath(args[0]) {
		return
	}
	inS := SexpVal(in)
	argS := make([]string, len(args))
	for i, a := range args {
		argS[i] = SexpVal(a)
	}
	res, p := gojq.VerifCallNative(n.name, in, args)
	out := outcome(res, p)
	r.calls++
	caseText := fmt.Sprintf("(call %s %s (%s)", n.name, inS, strings.Join(argS, " "))
	if !r.quiet {
		c.Emit("%s %s)", caseText, out)
	}
	c.Count(fmt.Sprintf("%s/%d", n.name, n.arity))
	if p != nil {
		r.panics++
		if r.panics <= 10 {
			c.Violation("panic: %s) :: %s", caseText, out)
		}
		return
	}
	// inputs unchanged
	if SexpVal(in) != inS {
		r.mutated++
		if r.mutated <= 10 {
			c.Violation("input-modified: %s) :: result %s, input is now %s", caseText, out, SexpVal(in))
		}
	}
	for i, a := range args {
		if SexpVal(a) != argS[i] {
			r.mutated++
			if r.mutated <= 10 {
				c.Violation("argument-modified: %s) :: result %s, argument %d is now %s", caseText, out, i, SexpVal(a))
			}
		}
	}
	if impure[n.name] {
		return
	}
	// fromjson(s) is a value iff encoding/json accepts s as exactly one JSON text, and then it is that value
	if n.name == "fromjson" {
		if str, ok := in.(string); ok {
			valid := json.Valid([]byte(str))
			_, isErr := res.(error)
			if valid == isErr {
				r.refDiff++
				if r.refDiff <= 10 {
					c.Violation("fromjson-differs-from-encoding/json: %s) :: json.Valid=%v but fromjson gives %s", caseText, valid, out)
				}
			} else if valid {
				var w any
				d := json.NewDecoder(strings.NewReader(str))
				d.UseNumber()
				if err := d.Decode(&w); err != nil || canonOutcome(w, nil) != canonOutcome(res, nil) {
					r.refDiff++
					if r.refDiff <= 10 {
						c.Violation("fromjson-differs-from-encoding/json: %s) :: Unmarshal gives %s but fromjson gives %s", caseText, SexpVal(w), out)
					}
				}
			} else if _, halt := res.(*gojq.HaltError); halt {
				c.Violation("fromjson-differs-from-encoding/json: %s) :: uncatchable error %s", caseText, out)
			}
		}
	}
	// tojson | fromjson is the identity on what the value denotes
	if n.name == "tojson" {
		if str, ok := res.(string); ok {
			back, p2 := gojq.VerifCallNative("fromjson", str, nil)
			if p2 != nil || canonJSON(back) != canonJSON(in) {
				r.refDiff++
				if r.refDiff <= 10 {
					c.Violation("tojson-fromjson-roundtrip: %s) :: tojson gives %s, fromjson of it gives %s", caseText, out, outcome(back, p2))
				}
			}
		}
	}
	// compiled path
	if n.code != nil {
		var o2 string
		if n.name == "_negate" {
			o2 = outcomeCompiled(n.code, false, in, nil)
		} else {
			o2 = outcomeCompiled(n.code, n.iter, in, args)
		}
		if n.iter && strings.HasPrefix(out, "(err ") {
			out2 := "(seq () " + out + ")"
			if o2 == out2 {
				o2 = out
			}
		}
		if o2 != out && !(strings.Contains(out, "(f ") && canonEqualText(o2, out)) {
			r.pathDif++
			if r.pathDif <= 10 {
				c.Violation("compiled-path-differs: %s) :: direct call %s but `%s` gives %s", caseText, out, querySrc(n.name, n.arity), o2)
			}
		}
	}
	// representation independence
	anyNum := hasNumber(in)
	for _, a := range args {
		anyNum = anyNum || hasNumber(a)
	}
	if !anyNum {
		return
	}
	res0, p0 := gojq.VerifCallNative(n.name, in, args)
	base := canonOutcome(res0, p0)
	modes := []int{1, 2, 3, 4, 5}
	if textNatives[n.name] {
		modes = []int{1, 2, 3}
	}
	for _, m := range modes {
		in2 := variant(in, m)
		args2 := make([]any, len(args))
		for i, a := range args {
			args2[i] = variant(a, m)
		}
		if reflect.DeepEqual(in2, in) && reflect.DeepEqual(args2, args) {
			continue
		}
		r.repRuns++
		res2, p2 := gojq.VerifCallNative(n.name, in2, args2)
		got := canonOutcome(res2, p2)
		if got != base {
			r.repDiff++
			if r.repDiff <= 10 {
				a2 := make([]string, len(args2))
				for i, a := range args2 {
					a2[i] = SexpVal(a)
				}
				c.Violation("representation-dependent: %s) :: gives %s but (call %s %s (%s)) gives %s", caseText, out,
					n.name, SexpVal(in2), strings.Join(a2, " "), outcome(gojq.VerifCallNative(n.name, in2, args2)))
			}
		}
	}
}

// NaN payload bits may differ between two evaluations; compare texts with every (f bits) of a NaN
// collapsed
func canonEqualText(a, b string) bool { return collapseNaN(a) == collapseNaN(b) }
func collapseNaN(s string) string {
	var sb strings.Builder
	for {
		i := strings.Index(s, "(f ")
		if i < 0 {
			sb.WriteString(s)
			return sb.String()
		}
		j := strings.IndexByte(s[i:], ')')
		var bits uint64
		fmt.Sscanf(s[i+3:i+j], "%d", &bits)
		sb.WriteString(s[:i])
		if math.IsNaN(math.Float64frombits(bits)) {
			sb.WriteString("(f nan)")
		} else {
			sb.WriteString(s[i : i+j+1])
		}
		s = s[i+j+1:]
	}
}

var math2 = map[string]bool{"atan2": true, "copysign": true, "drem": true, "fdim": true, "fmax": true, "fmin": true, "fmod": true,
	"hypot": true, "jn": true, "nextafter": true, "nexttoward": true, "remainder": true, "ldexp": true, "scalb": true, "scalbln": true,
	"yn": true, "pow": true}

func gojqMathKind(name string) string {
	if math2[name] {
		return "math2"
	}
	return ""
}

func runC03(c *Ctx) {
	u := universe()
	var all, core []any
	for _, x := range u {
		all = append(all, x.v)
		if x.core {
			core = append(core, x.v)
		}
	}
	c.Stats["universe"] = len(all)
	c.Stats["core"] = len(core)
	thorough := c.Tier != "quick"
	tab := gojq.VerifNatives()
	var names []string
	// compiled specially; their table entry wraps a nil function that is never called
	special := map[string]bool{"empty": true, "path": true, "env": true, "builtins": true, "input": true,
		"modulemeta": true, "debug": true, "_match": true}
	for name, fn := range tab {
		if fn.HasImpl && !special[name] {
			names = append(names, name)
		}
	}
	sort.Strings(names)
	only := map[string]bool{}
	for _, a := range c.Args {
		only[a] = true
	}
	r := &runner{c: c}
	rng := c.Rng
	pick := func(xs []any) any { return xs[rng.Intn(len(xs))] }
	var nums, paths, small []any
	for _, v := range all {
		switch x := v.(type) {
		case int, *big.Int, float64, json.Number:
			nums = append(nums, v)
		case []any:
			paths = append(paths, v)
			_ = x
		}
	}
	ptexts := parseTexts()
	parsing := map[string]bool{"fromjson": true, "tonumber": true, "toboolean": true, "_tobase64d": true, "_tourid": true}
	c.Stats["parse_texts"] = len(ptexts)
	small = append(small, nil, 0, 1, -1, 2, 1.5, lit("1.5"), lit("1"), "a", arr(1), obj("a", 1), math.NaN(), bigs("9223372036854775808"), -1.5, 3, math.Inf(1), true)
	for _, name := range names {
		if len(only) > 0 && !only[name] {
			continue
		}
		fn := tab[name]
		for arity := 0; arity <= 3; arity++ {
			if fn.Argcount&(1<<arity) == 0 {
				continue
			}
			n := &native{name: name, arity: arity, iter: fn.Iter, code: compileFor(name, arity)}
			if name != "_range" && name != "_slice" { // random larger values (seeded)
				nr := 150
				if arity == 2 {
					nr = 400
				}
				if thorough {
					nr = 3000
				}
				for i := 0; i < nr; i++ {
					args := make([]any, arity)
					for j := range args {
						args[j] = randVal(rng, 3)
					}
					var in any
					if arity < 2 || name == "setpath" {
						in = randVal(rng, 3)
					}
					if i%3 == 0 && arity >= 1 { // related operands: same shape drawn twice, or the same value
						if a, ok := in.(map[string]any); ok && arity == 1 {
							args[0] = randVal(rng, 3)
							_ = a
						} else if arity == 2 && i%2 == 0 {
							args[1] = deepCopy(args[0])
						} else if arity == 2 {
							args[1] = mutate(rng, args[0])
						}
					}
					r.call(n, in, args)
				}
			}
			isOp := strings.HasPrefix(name, "_") && arity == 2 && name != "_group_by"
			switch arity {
			case 0:
				for _, in := range all {
					r.call(n, in, nil)
				}
				if parsing[name] {
					for _, in := range ptexts {
						// 20 kB texts (nesting at the decoder's limit): only fromjson needs them, and the transport
						// reader of the model is quadratic in the length of an atom, so the model sees them in the
						// thorough tier only; the encoding/json reference oracle sees them always
						if str, ok := in.(string); ok && len(str) > 4000 {
							if name != "fromjson" {
								continue
							}
							r.quiet = !thorough
						}
						r.call(n, in, nil)
						r.quiet = false
					}
				}
			case 1:
				ins, as := core, core
				if thorough {
					ins, as = all, all
				}
				for _, in := range ins {
					for _, a := range as {
						r.call(n, in, []any{a})
					}
				}
				if !thorough { // sampled pairs from the full universe
					for i := 0; i < 400; i++ {
						r.call(n, pick(all), []any{pick(all)})
					}
				}
			case 2:
				as := core
				if thorough {
					as = all
				}
				if name == "setpath" {
					for _, in := range core {
						for _, p := range paths {
							for _, v := range []any{nil, 7, arr(9), "s"} {
								r.call(n, deepCopy(in), []any{p, v})
							}
						}
					}
					for i := 0; i < 600; i++ {
						r.call(n, deepCopy(pick(all)), []any{pick(all), pick(small)})
					}
					continue
				}
				_ = isOp
				if !thorough && strings.HasPrefix(gojqMathKind(name), "math") { // libm dispatch: numbers of the core + one of each other type
					as = nil
					for _, v := range core {
						switch v.(type) {
						case int, *big.Int, float64, json.Number:
							as = append(as, v)
						}
					}
					as = append(as, nil, true, "a", arr(), obj())
				}
				for _, a := range as {
					for _, b := range as {
						r.call(n, nil, []any{a, b})
					}
				}
				if !thorough {
					for i := 0; i < 600; i++ {
						r.call(n, pick(small), []any{pick(all), pick(all)})
					}
				}
			case 3:
				switch name {
				case "_slice":
					bounds := []any{nil, 0, 1, -1, 2, 5, -5, 1.5, lit("1.5"), -0.5, math.NaN(), math.MaxInt64, math.MinInt64, bigs("9223372036854775808"), "a", arr(), true, math.Inf(1), lit("1e1000"), 2.5}
					for _, v := range []any{nil, arr(), arr(1, 2, 3), arr(1), "", "abc", "日本語x", "a\xffb", 1, obj(), true, arr(arr(1), 2, "x", nil)} {
						for _, e := range bounds {
							for _, s := range bounds {
								r.call(n, nil, []any{v, e, s})
							}
						}
					}
				case "_range":
					rs := []any{0, 1, -1, 3, 5, 0.5, -0.5, 2.5, lit("2"), lit("0.5"), bigs("9223372036854775808"), math.MaxInt64, math.NaN(), math.Inf(1), math.Inf(-1), 1e300, lit("1e1000"), "a", nil, arr()}
					for _, a := range rs {
						for _, b := range rs {
							for _, s := range rs {
								r.call(n, nil, []any{a, b, s})
							}
						}
					}
				default:
					xs := []any{0, 1, -1.5, 2.5, math.NaN(), math.Inf(1), lit("1.5"), bigs("9223372036854775808"), "a", nil, 1e300, math.Copysign(0, -1)}
					for _, a := range xs {
						for _, b := range xs {
							for _, s := range xs {
								r.call(n, nil, []any{a, b, s})
							}
						}
					}
				}
			}
		}
	}
	// sort family with ties: arrays of 13, 20, 64 and 300 elements with many Compare-equal but distinguishable
	// keys (1, 1.0, the literal 1; equal objects in different number representations): stability matters from
	// 13 elements on (Go's unstable sort is an insertion sort below that)
	if len(only) == 0 || only["_sort_by"] {
		sizes := []int{13, 20, 64, 300}
		ones := []any{1, 1.0, lit("1"), big.NewInt(1), lit("1.0")}
		for _, n := range sizes {
			for pat := 0; pat < 3; pat++ {
				vs := make([]any, n)
				ks := make([]any, n)
				eqs := make([]any, n)
				for i := 0; i < n; i++ {
					vs[i] = arr("v", i)
					var k any
					switch pat {
					case 0: // three key classes, each in several representations
						k = []any{ones[rng.Intn(len(ones))], 2, "a"}[rng.Intn(3)]
					case 1: // all keys equal
						k = ones[i%len(ones)]
					default: // descending classes with ties, objects as keys
						k = obj("k", []any{ones[rng.Intn(len(ones))], 0, -1}[(n-i)*3/(n+1)])
					}
					ks[i] = arr(k)
					eqs[i] = []any{k, obj("a", k)}[rng.Intn(2)]
				}
				for _, nm := range []string{"_sort_by", "_group_by", "_unique_by", "_min_by", "_max_by"} {
					fn := tab[nm]
					r.call(&native{name: nm, arity: 1, iter: fn.Iter, code: compileFor(nm, 1)}, vs, []any{ks})
				}
				for _, nm := range []string{"sort", "unique", "min", "max"} {
					fn := tab[nm]
					r.call(&native{name: nm, arity: 0, iter: fn.Iter, code: compileFor(nm, 0)}, eqs, nil)
				}
			}
		}
	}
	// bsearch on sorted arrays (found / insertion point; duplicates in several number representations; long arrays),
	// and the decoders on the encodings of every string of the universe (decode after encode)
	if len(only) == 0 || only["bsearch"] {
		fn := tab["bsearch"]
		nb := &native{name: "bsearch", arity: 1, iter: fn.Iter, code: compileFor("bsearch", 1)}
		long := make([]any, 0, 100)
		for i := 0; i < 100; i++ {
			long = append(long, i/3*2)
		}
		sorted := []any{arr(), arr(1), arr(1, 2, 3), arr(1, 1.0, lit("1"), 2, 2, 5), arr(0, lit("1"), big.NewInt(1), 1.5, lit("2.5"), 3, bigs("9223372036854775808")),
			arr(nil, false, true, -1, 0.5, 1, "a", "b", arr(), arr(1), obj(), obj("a", 1)), arr("a", "ab", "b"), long,
			arr(3, 2, 1), arr(1, 3, 2, 3, 1)}
		targets := []any{nil, false, true, -2, -1, 0, 1, 1.0, lit("1"), lit("1.0"), big.NewInt(1), 1.5, 2, 2.5, 3, 4, 5, 6, 64, 65, 66, 1000, bigs("9223372036854775808"),
			bigs("9223372036854775809"), "", "a", "aa", "ab", "b", "c", arr(), arr(0), arr(1), arr(2), obj(), obj("a", 1), obj("b", 0), math.NaN(), math.Inf(1)}
		for _, vs := range sorted {
			for _, t := range targets {
				r.call(nb, vs, []any{t})
			}
		}
	}
	if len(only) == 0 || only["_tobase64d"] || only["_tourid"] {
		fd, fu := tab["_tobase64d"], tab["_tourid"]
		nd := &native{name: "_tobase64d", arity: 0, iter: fd.Iter, code: compileFor("_tobase64d", 0)}
		nu := &native{name: "_tourid", arity: 0, iter: fu.Iter, code: compileFor("_tourid", 0)}
		for _, v := range all {
			if str, ok := v.(string); ok && len(str) < 4000 {
				r.call(nd, base64.StdEncoding.EncodeToString([]byte(str)), nil)
				r.call(nu, strings.ReplaceAll(url.QueryEscape(str), "+", "%20"), nil)
			}
		}
		for _, str := range []string{"f", "fo", "foo", "foob", "fooba", "foobar", "\x00", "\xff\xfe\xfd", "\xfb\xff\xbf", "a b+c%/?#[]@!$&'()*,;=:~_-."} {
			r.call(nd, base64.StdEncoding.EncodeToString([]byte(str)), nil)
			r.call(nu, strings.ReplaceAll(url.QueryEscape(str), "+", "%20"), nil)
		}
	}
	// the domain parts added to Spec.v: implode on non-code-points, ascii_*case on invalid UTF-8, length / abs /
	// unary minus on negative, fractional, huge and zero json.Number literals
	if len(only) == 0 || only["implode"] {
		mk := func(nm string) *native {
			fn := tab[nm]
			return &native{name: nm, arity: 0, iter: fn.Iter, code: compileFor(nm, 0)}
		}
		ni := mk("implode")
		for _, in := range []any{arr(65, 1114111, 1114112), arr(-1), arr(55295, 55296, 57343, 57344), arr(65.9, -0.5, 1.5, lit("66.5"), lit("1e1000")),
			arr(math.NaN()), arr(math.Inf(1), math.Inf(-1)), arr(bigs("9223372036854775808"), 97), arr(lit("97"), lit("55296"), lit("-1")),
			arr(65, "a"), arr(65, nil), arr(arr(65)), arr(65533), arr(0), arr(127, 128, 2047, 2048, 65535, 65536), arr(math.MaxInt64, math.MinInt64)} {
			r.call(ni, in, nil)
		}
		for _, nm := range []string{"ascii_downcase", "ascii_upcase", "ltrim", "rtrim", "trim", "explode", "length", "utf8bytelength"} {
			n := mk(nm)
			for _, in := range []any{"A\xffZ", "\xc3", "a\xc3\x28z", "\xe2\x82", "\xed\xa0\x80Q", "\xf4\x90\x80\x80b", "\xc0\x80A", "Aé\xffÉz\xfe", "\xef\xbf\xbdA", " \xff a ", "\x80"} {
				r.call(n, in, nil)
			}
		}
		for _, nm := range []string{"length", "abs", "_negate"} {
			n := mk(nm)
			for _, t := range []string{"-1.50", "-0", "-0.0", "0", "-1e1000", "1e1000", "-1e-400", "-12345678901234567890", "12345678901234567890", "-9223372036854775808",
				"9223372036854775808", "-1E2", "-0.1e1", "100", "-100", "-1.7976931348623159e308", "-4.9e-324", "-2e-324"} {
				r.call(n, lit(t), nil)
			}
		}
	}
	// .[k] / getpath with every key type: fractional, negative fractional, NaN / infinite and huge indices, null and
	// boolean keys, array keys (sub-array search), slice objects with fractional / missing / ill-typed bounds, on
	// arrays, strings (valid and invalid UTF-8), null, objects and scalars
	if len(only) == 0 || only["_index"] || only["getpath"] {
		fi, fg := tab["_index"], tab["getpath"]
		nidx := &native{name: "_index", arity: 2, iter: fi.Iter, code: compileFor("_index", 2)}
		ngp := &native{name: "getpath", arity: 1, iter: fg.Iter, code: compileFor("getpath", 1)}
		vals := []any{nil, arr(), arr(1, 2, 3), arr(1, 2, 1, 2, 3), "", "abc", "日本語x", "a\xffb\xc3", obj(), obj("a", arr(1, 2, 3), "b", "xyz"), 1, true,
			arr(arr(1, 2), obj("a", 1), "str", nil)}
		keys := []any{0, 1, 2, 3, -1, -3, -4, 1.5, -1.5, -0.5, 0.5, 2.9, math.NaN(), math.Inf(1), math.Inf(-1), lit("1.5"), lit("-1.5"), lit("1e1000"), 1e300,
			bigs("9223372036854775808"), bigs("-9223372036854775809"), math.MaxInt64, math.MinInt64, nil, true, false, "a", "b", "",
			arr(), arr(2), arr(1, 2), arr(arr(1, 2)), obj(), obj("start", 1), obj("end", 1), obj("start", 1, "end", nil), obj("start", nil, "end", 2),
			obj("start", 0.5, "end", 2.5), obj("start", -1.5, "end", nil), obj("start", "a", "end", 1), obj("start", 1, "end", "a"),
			obj("start", lit("0.5"), "end", lit("1.5")), obj("start", -2, "end", -1), obj("start", 2, "end", 1), obj("start", math.NaN(), "end", math.Inf(1))}
		for _, v := range vals {
			for _, k := range keys {
				r.call(nidx, nil, []any{v, k})
				r.call(ngp, v, []any{arr(k)})
				r.call(ngp, v, []any{arr(k, 0)})
				r.call(ngp, v, []any{arr("a", k)})
				r.call(ngp, v, []any{arr(3, k)})
			}
		}
	}
	c.Stats["calls"] = r.calls
	c.Stats["rep_variant_calls"] = r.repRuns
	c.Stats["panics"] = r.panics
	c.Stats["rep_dependent"] = r.repDiff
	c.Stats["compiled_path_differs"] = r.pathDif
	c.Stats["inputs_modified"] = r.mutated
	c.Stats["natives"] = len(names)
	c.Stats["fromjson_reference_differs"] = r.refDiff
}

// builtin.go in sync with builtin.jq: parse the published source with the public parser and compare
// every definition with the precompiled one (exact reflect.DeepEqual of the ASTs).
func runSync(c *Ctx) {
	repo := os.Getenv("VERIF_REPO")
	if repo == "" {
		repo = "/repo"
	}
	src, err := os.ReadFile(repo + "/builtin.jq")
	if err != nil {
		c.Violation("cannot read builtin.jq: %v", err)
		return
	}
	q, err := gojq.Parse(string(src))
	if err != nil {
		c.Violation("builtin.jq does not parse: %v", err)
		return
	}
	defs := gojq.VerifBuiltinDefs()
	bySrc := map[string][]*gojq.FuncDef{}
	for _, fd := range q.FuncDefs {
		bySrc[fd.Name] = append(bySrc[fd.Name], fd)
	}
	n := 0
	for name, fds := range bySrc {
		pre, ok := defs[name]
		if !ok {
			c.Violation("builtin.jq defines %s but builtin.go has no entry", name)
			continue
		}
		if len(pre) != len(fds) {
			c.Violation("builtin %s: %d definitions in builtin.jq, %d in builtin.go", name, len(fds), len(pre))
			continue
		}
		for i := range fds {
			n++
			a, b := fds[i], pre[i]
			if !reflect.DeepEqual(a, b) {
				// the generator may minify; compare the printed forms too for the report
				c.Violation("builtin %s/%d out of sync: builtin.jq `%s` vs builtin.go `%s`", name, len(a.Args), a.String(), b.String())
			}
			c.Emit("(sync %s %d)", name, len(a.Args))
		}
	}
	// _tools/gen_builtin.go adds three empty entries for the names compiled specially
	placeholder := map[string]bool{"_assign": true, "_modify": true, "_last": true}
	for name, fds := range defs {
		if _, ok := bySrc[name]; !ok && !(placeholder[name] && len(fds) == 0) {
			c.Violation("builtin.go has %s which builtin.jq does not define", name)
		}
	}
	c.Stats["definitions"] = n
}

// ---------------------------------------------------------------------------------------------
// replay: run the cases given as arguments, each "(call NAME IN (ARG...))" (an outcome, if present,
// is ignored), with every implementation-only oracle, and emit the lines for the model.

type sx struct {
	atom string
	list []*sx
	isL  bool
}

func parseSx(s string) (*sx, error) {
	var stack [][]*sx
	cur := []*sx{}
	i := 0
	for i < len(s) {
		ch := s[i]
		switch {
		case ch == ' ' || ch == '\t' || ch == '\n':
			i++
		case ch == '(':
			stack = append(stack, cur)
			cur = []*sx{}
			i++
		case ch == ')':
			if len(stack) == 0 {
				return nil, fmt.Errorf("unbalanced )")
			}
			l := &sx{list: cur, isL: true}
			cur = append(stack[len(stack)-1], l)
			stack = stack[:len(stack)-1]
			i++
		default:
			j := i
			for j < len(s) && !strings.ContainsRune(" \t\n()", rune(s[j])) {
				j++
			}
			cur = append(cur, &sx{atom: s[i:j]})
			i = j
		}
	}
	if len(stack) != 0 || len(cur) != 1 {
		return nil, fmt.Errorf("malformed s-expression")
	}
	return cur[0], nil
}

func unhex(s string) ([]byte, error) {
	if s == "-" {
		return nil, nil
	}
	b := make([]byte, len(s)/2)
	_, err := fmt.Sscanf(s, "%x", &b)
	return b, err
}

func valOfSx(e *sx) (any, error) {
	if !e.isL {
		switch e.atom {
		case "null":
			return nil, nil
		case "true":
			return true, nil
		case "false":
			return false, nil
		}
		return nil, fmt.Errorf("bad atom %q", e.atom)
	}
	if len(e.list) == 0 || e.list[0].isL {
		return nil, fmt.Errorf("bad value")
	}
	tag, rest := e.list[0].atom, e.list[1:]
	switch tag {
	case "a":
		xs := make([]any, len(rest))
		for i, r := range rest {
			v, err := valOfSx(r)
			if err != nil {
				return nil, err
			}
			xs[i] = v
		}
		return xs, nil
	case "o":
		m := map[string]any{}
		for _, r := range rest {
			if !r.isL || len(r.list) != 2 || r.list[0].isL {
				return nil, fmt.Errorf("bad object entry")
			}
			k, err := unhex(r.list[0].atom)
			if err != nil {
				return nil, err
			}
			v, err := valOfSx(r.list[1])
			if err != nil {
				return nil, err
			}
			m[string(k)] = v
		}
		return m, nil
	}
	if len(rest) != 1 || rest[0].isL {
		return nil, fmt.Errorf("bad scalar")
	}
	a := rest[0].atom
	switch tag {
	case "i":
		var x int
		_, err := fmt.Sscanf(a, "%d", &x)
		return x, err
	case "b":
		x, ok := new(big.Int).SetString(a, 10)
		if !ok {
			return nil, fmt.Errorf("bad big")
		}
		return x, nil
	case "f":
		var x uint64
		_, err := fmt.Sscanf(a, "%d", &x)
		return math.Float64frombits(x), err
	case "l":
		b, err := unhex(a)
		return json.Number(string(b)), err
	case "s":
		b, err := unhex(a)
		return string(b), err
	}
	return nil, fmt.Errorf("bad tag %q", tag)
}

func runReplay(c *Ctx) {
	tab := gojq.VerifNatives()
	r := &runner{c: c}
	for _, text := range c.Args {
		// "kind: (call ...)" -> "(call ...)"
		if i := strings.Index(text, "(hist "); i >= 0 {
			replayHist(c, text[i:])
			continue
		}
		if i := strings.Index(text, "(call "); i > 0 {
			text = text[i:]
		}
		e, err := parseSx(text)
		if err != nil || !e.isL || len(e.list) < 4 || e.list[0].atom != "call" || !e.list[3].isL {
			c.Violation("replay: cannot parse case %q: %v", text, err)
			continue
		}
		name := e.list[1].atom
		fn, ok := tab[name]
		if !ok {
			c.Violation("replay: no native %q", name)
			continue
		}
		in, err := valOfSx(e.list[2])
		if err != nil {
			c.Violation("replay: %v", err)
			continue
		}
		args := make([]any, len(e.list[3].list))
		bad := false
		for i, a := range e.list[3].list {
			if args[i], err = valOfSx(a); err != nil {
				bad = true
			}
		}
		if bad || fn.Argcount&(1<<len(args)) == 0 {
			c.Violation("replay: bad arguments for %s", name)
			continue
		}
		n := &native{name: name, arity: len(args), iter: fn.Iter, code: compileFor(name, len(args))}
		r.call(n, in, args)
	}
	c.Stats["calls"] = r.calls
}

// ---------------------------------------------------------------------------------------------
// history independence: natives that carry state beyond one call.  The only such state in func.go /
// compiler.go is the per-Code regexp cache (compiler.regexpCache, reached by _match through the closure
// c.funcMatch); inputIter is stateful by design and the allocator lives for one instruction.
// Oracle: call k of a sequence on ONE Code gives what the same call gives on a freshly compiled Code
// (in particular: an unsupported flag or an invalid expression is an error whatever was compiled before).

var histQueries = []struct{ name, src string }{
	{"test", `test($re; $fl)`},
	{"match", `[match($re; $fl)]`},
	{"capture", `[capture($re; $fl)]`},
	{"scan", `[scan($re; $fl)]`},
	{"splits", `[splits($re; $fl)]`},
	{"split", `split($re; $fl)`},
	{"sub", `sub($re; "X"; $fl)`},
	{"gsub", `gsub($re; "X"; $fl)`},
	{"_match", `_match($re; $fl; false)`},
	{"test1", `test($re)`},
	{"pair", `[(try test($re; $fl) catch "E"), (try test($re; $fl2) catch "E"), (try test($re; $fl) catch "E")]`},
}

type histCall struct{ re, fl, fl2 any }

func histCompile(src string) *gojq.Code {
	q, err := gojq.Parse(src)
	if err != nil {
		panic(err)
	}
	c, err := gojq.Compile(q, gojq.WithVariables([]string{"$re", "$fl", "$fl2"}))
	if err != nil {
		panic(err)
	}
	return c
}

func histRun(code *gojq.Code, in any, h histCall) (out string) {
	defer func() {
		if r := recover(); r != nil {
			out = "(panic " + Hexs([]byte(fmt.Sprint(r))) + ")"
		}
	}()
	it := code.Run(in, h.re, h.fl, h.fl2)
	v, ok := it.Next()
	if !ok {
		return "(none)"
	}
	if e, ok := v.(error); ok {
		return "(err " + errSexp(e) + ")"
	}
	return "(ok " + SexpVal(v) + ")"
}

func histText(q int, in any, calls []histCall) string {
	var sb strings.Builder
	fmt.Fprintf(&sb, "(hist %s %s (", histQueries[q].name, SexpVal(in))
	for i, h := range calls {
		if i > 0 {
			sb.WriteByte(' ')
		}
		fmt.Fprintf(&sb, "(%s %s %s)", SexpVal(h.re), SexpVal(h.fl), SexpVal(h.fl2))
	}
	sb.WriteString("))")
	return sb.String()
}

// histCase runs one sequence; returns the number of calls made
func histCase(c *Ctx, q int, in any, calls []histCall, bad *int) int {
	used := histCompile(histQueries[q].src)
	for k, h := range calls {
		got := histRun(used, in, h)
		want := histRun(histCompile(histQueries[q].src), in, h)
		if got != want || strings.HasPrefix(got, "(panic") {
			*bad++
			if *bad <= 10 {
				c.Violation("history-dependent: %s :: call %d gives %s on the Code used for the earlier calls but %s on a fresh Code",
					histText(q, in, calls), k+1, got, want)
			}
			break
		}
	}
	return 2 * len(calls)
}

func runHist(c *Ctx) {
	pats := []any{"b", "B", "a+", "(", "[", "", "b|c"}
	flags := []any{nil, "g", "i", "x", "gx", "ig", "s", "", "xi", 5}
	var calls []histCall
	for _, p := range pats {
		for _, f := range flags {
			calls = append(calls, histCall{p, f, flags[(len(calls)*7+3)%len(flags)]})
		}
	}
	if c.Tier == "quick" {
		calls = nil
		for i, p := range []any{"b", "B", "a+", "("} {
			for j, f := range []any{nil, "g", "i", "x", "gx", 5} {
				calls = append(calls, histCall{p, f, []any{"x", "g", nil, "i"}[(i+j)%4]})
			}
		}
	}
	bad, n, seqs := 0, 0, 0
	in := "abc Bb"
	for q := range histQueries {
		for _, h1 := range calls {
			for _, h2 := range calls {
				// valid-then-invalid and invalid-then-valid arise from the full square; the third call repeats the first
				n += histCase(c, q, in, []histCall{h1, h2, h1}, &bad)
				seqs++
			}
		}
	}
	c.Stats["sequences"] = seqs
	c.Stats["calls"] = n
	c.Stats["history_dependent"] = bad
}

func replayHist(c *Ctx, text string) {
	e, err := parseSx(text)
	if err != nil || !e.isL || len(e.list) != 4 || !e.list[3].isL {
		c.Violation("replay: cannot parse case %q: %v", text, err)
		return
	}
	q := -1
	for i, hq := range histQueries {
		if hq.name == e.list[1].atom {
			q = i
		}
	}
	in, err1 := valOfSx(e.list[2])
	if q < 0 || err1 != nil {
		c.Violation("replay: bad hist case %q", text)
		return
	}
	var calls []histCall
	for _, t := range e.list[3].list {
		if !t.isL || len(t.list) != 3 {
			c.Violation("replay: bad hist call in %q", text)
			return
		}
		re, _ := valOfSx(t.list[0])
		fl, _ := valOfSx(t.list[1])
		fl2, _ := valOfSx(t.list[2])
		calls = append(calls, histCall{re, fl, fl2})
	}
	bad := 0
	histCase(c, q, in, calls, &bad)
	c.Stats["history_dependent"] = bad
}

// ---------------------------------------------------------------------------------------------
// jqdef: jq-defined builtins with numeric parameters at fractional, negative, zero, huge and NaN counts,
// against their documented behaviour written here independently of builtin.jq, each under a deadline and an
// output cap (non-termination = failing input); plus a cross-check of jq-defined builtins against jq 1.6
// where the two agree by documentation.

type jqOut struct {
	vals    []any
	err     bool
	timeout bool
}

func jqRun(src string, in any, vars []string, vals []any) jqOut {
	q, err := gojq.Parse(src)
	if err != nil {
		return jqOut{err: true}
	}
	code, err := gojq.Compile(q, gojq.WithVariables(vars))
	if err != nil {
		return jqOut{err: true}
	}
	ctx, cancel := context.WithTimeout(context.Background(), 300*time.Millisecond)
	defer cancel()
	it := code.RunWithContext(ctx, in, vals...)
	var o jqOut
	for i := 0; i < 2000; i++ {
		v, ok := it.Next()
		if !ok {
			return o
		}
		if e, ok := v.(error); ok {
			if ctx.Err() != nil || e == context.DeadlineExceeded {
				o.timeout = true
			} else {
				o.err = true
			}
			return o
		}
		o.vals = append(o.vals, v)
	}
	o.timeout = true
	return o
}

func jqShow(o jqOut) string {
	var sb strings.Builder
	sb.WriteString("[")
	for i, v := range o.vals {
		if i > 0 {
			sb.WriteString(",")
		}
		if i >= 12 {
			sb.WriteString("...")
			break
		}
		b, _ := gojq.Marshal(v)
		sb.Write(b)
	}
	sb.WriteString("]")
	if o.err {
		sb.WriteString(" then error")
	}
	if o.timeout {
		sb.WriteString(" then NOT TERMINATED (deadline / 2000 outputs)")
	}
	return sb.String()
}

func ints(lo, hi int) []any {
	var xs []any
	for i := lo; i < hi; i++ {
		xs = append(xs, i)
	}
	return xs
}

func numF(v any) (float64, bool) {
	if n, ok := v.(json.Number); ok {
		v = gojq.VerifParseNumber(n)
	}
	switch x := v.(type) {
	case int:
		return float64(x), true
	case float64:
		return x, true
	case *big.Int:
		f, _ := new(big.Float).SetInt(x).Float64()
		return f, true
	}
	return 0, false
}

func sameVals(a, b []any) bool {
	if len(a) != len(b) {
		return false
	}
	for i := range a {
		var x, y strings.Builder
		canon(&x, a[i])
		canon(&y, b[i])
		if x.String() != y.String() {
			return false
		}
	}
	return true
}

// numbers compared by numeric value (jq 1.6 has doubles only)
func looseCanon(sb *strings.Builder, v any) {
	switch x := v.(type) {
	case int, float64, *big.Int, json.Number:
		f, _ := numF(x)
		fmt.Fprintf(sb, "N%v", f)
	case []any:
		sb.WriteByte('[')
		for _, e := range x {
			looseCanon(sb, e)
			sb.WriteByte(',')
		}
		sb.WriteByte(']')
	case map[string]any:
		ks := make([]string, 0, len(x))
		for k := range x {
			ks = append(ks, k)
		}
		sort.Strings(ks)
		sb.WriteByte('{')
		for _, k := range ks {
			sb.WriteString(k + ":")
			looseCanon(sb, x[k])
			sb.WriteByte(',')
		}
		sb.WriteByte('}')
	default:
		canon(sb, v)
	}
}

func sameValsLoose(a, b []any) bool {
	if len(a) != len(b) {
		return false
	}
	for i := range a {
		var x, y strings.Builder
		looseCanon(&x, a[i])
		looseCanon(&y, b[i])
		if x.String() != y.String() {
			return false
		}
	}
	return true
}

func runJqdef(c *Ctx) {
	counts := []any{-1, -0.5, 0, 0.5, 1, 2, 2.5, lit("2.5"), 9.5, 10, 11, 1e300, math.Inf(1), math.NaN(), bigs("9223372036854775808"), math.Copysign(0, -1), lit("3"), 3.0000001}
	n, bad := 0, 0
	fail := func(q string, par any, got jqOut, want string) {
		bad++
		if bad <= 12 {
			c.Violation("jqdef: (jq %s) with $n = %s :: gives %s, documented: %s", q, SexpVal(par), jqShow(got), want)
		}
	}
	ceilCount := func(f float64, avail int) int { // how many outputs "up to n" means
		if f >= float64(avail) {
			return avail
		}
		return int(math.Ceil(f))
	}
	for _, par := range counts {
		f, _ := numF(par)
		neg := f < 0 || math.IsNaN(f)
		// limit(n; g): n < 0 (or NaN, which sorts below every number) an error, otherwise the first ceil(n) outputs
		for _, g := range []struct {
			src   string
			avail int
			all   []any
		}{{"range(10)", 10, ints(0, 10)}, {"repeat(7)", 1 << 30, nil}, {"empty", 0, nil}, {"(1,2,error)", 2, []any{1, 2}}} {
			q := "[limit($n; " + g.src + ")] | length as $l | if $l > 50 then \"many\" else . end"
			got := jqRun("limit($n; "+g.src+")", nil, []string{"$n"}, []any{par})
			n++
			_ = q
			switch {
			case neg:
				if !got.err || got.timeout || len(got.vals) != 0 {
					fail("limit($n; "+g.src+")", par, got, "an error (negative count)")
				}
			case f == 0:
				if got.err || got.timeout || len(got.vals) != 0 {
					fail("limit($n; "+g.src+")", par, got, "no output")
				}
			case g.all != nil || g.avail == 0:
				k := ceilCount(f, g.avail)
				wantErr := g.src == "(1,2,error)" && f > 2
				if got.timeout || len(got.vals) != k || got.err != wantErr || (g.all != nil && !sameVals(got.vals, g.all[:k])) {
					fail("limit($n; "+g.src+")", par, got, fmt.Sprintf("the first %d outputs", k))
				}
			default: // infinite generator: only a finite count can be checked
				if f <= 1000 {
					k := int(math.Ceil(f))
					if got.timeout || got.err || len(got.vals) != k {
						fail("limit($n; "+g.src+")", par, got, fmt.Sprintf("%d outputs", k))
					}
				}
			}
		}
		// first(limit), nth, skip on range(10): integers exactly; fractional: a value between the two neighbours
		for _, q := range []string{"nth($n; range(10))", "[skip($n; range(10))]", "[range($n)]", "[range(1; $n)]", "[range(0; 3; $n)]", "[range(3; 0; $n)]",
			"[0,1] | [combinations($n)] | length", "[limit($n; 1, 2, 3)] | length", "[.[] | first(limit($n; repeat(.)))]"} {
			in := any(arr(5, 6))
			got := jqRun(q, in, []string{"$n"}, []any{par})
			n++
			if got.timeout {
				if (strings.HasPrefix(q, "[range(") && (math.IsInf(f, 1) || f > 1e6)) || (strings.Contains(q, "combinations") && f > 12) {
					continue // a documented huge enumeration
				}
				fail(q, par, got, "termination")
				continue
			}
			isInt := f == math.Trunc(f) && !math.IsInf(f, 0)
			switch q {
			case "nth($n; range(10))":
				switch {
				case neg:
					if !got.err {
						fail(q, par, got, "an error (negative index)")
					}
				case isInt && f < 10:
					if got.err || len(got.vals) != 1 || !sameVals(got.vals, []any{int(f)}) {
						fail(q, par, got, fmt.Sprintf("%d", int(f)))
					}
				case f >= 10:
					if got.err || len(got.vals) != 0 {
						fail(q, par, got, "no output")
					}
				default:
					if got.err || len(got.vals) != 1 {
						fail(q, par, got, "one of the two neighbouring outputs")
					} else if g, ok := numF(got.vals[0]); !ok || g < math.Floor(f) || g > math.Ceil(f) {
						fail(q, par, got, "one of the two neighbouring outputs")
					}
				}
			case "[skip($n; range(10))]":
				switch {
				case neg:
					if !got.err {
						fail(q, par, got, "an error (negative count)")
					}
				case isInt:
					k := int(math.Min(f, 10))
					if got.err || len(got.vals) != 1 || !sameVals(got.vals, []any{arr(ints(k, 10)...)}) {
						fail(q, par, got, fmt.Sprintf("range(%d;10)", k))
					}
				}
			case "[range($n)]", "[range(1; $n)]":
				lo := 0
				if q == "[range(1; $n)]" {
					lo = 1
				}
				if math.IsNaN(f) || f > 1e6 {
					continue
				}
				hi := int(math.Ceil(f))
				if hi < lo {
					hi = lo
				}
				if got.err || len(got.vals) != 1 || !sameVals(got.vals, []any{arr(ints(lo, hi)...)}) {
					fail(q, par, got, fmt.Sprintf("the integers %d .. below $n", lo))
				}
			case "[range(0; 3; $n)]", "[range(3; 0; $n)]":
				// from, from+by, ...: below upto for by > 0, above for by < 0, nothing for by = 0 or NaN
				from, upto := 0.0, 3.0
				if q == "[range(3; 0; $n)]" {
					from, upto = 3.0, 0.0
				}
				if math.IsNaN(f) {
					continue // a NaN step is not documented (gojq: range(3;0;nan) emits 3: NaN sorts below 0)
				}
				var want []any
				if f != 0 {
					for x, i := from, 0; (f > 0 && x < upto || f < 0 && x > upto) && i < 100; x, i = x+f, i+1 {
						want = append(want, x)
					}
				}
				if got.err || len(got.vals) != 1 {
					fail(q, par, got, "one array")
					continue
				}
				gl, _ := got.vals[0].([]any)
				ok := len(gl) == len(want)
				for i := 0; ok && i < len(want); i++ {
					g, isn := numF(gl[i])
					ok = isn && g == want[i].(float64)
				}
				if !ok {
					fail(q, par, got, fmt.Sprintf("%d values from %v by $n", len(want), from))
				}
			case "[0,1] | [combinations($n)] | length":
				switch {
				case neg:
					if !got.err {
						fail(q, par, got, "an error (negative count)")
					}
				case f <= 12:
					k := 1 << int(math.Ceil(f))
					if got.err || len(got.vals) != 1 || !sameVals(got.vals, []any{k}) {
						fail(q, par, got, fmt.Sprintf("%d", k))
					}
				}
			case "[limit($n; 1, 2, 3)] | length":
				if neg {
					if !got.err {
						fail(q, par, got, "an error")
					}
				} else if k := ceilCount(f, 3); got.err || !sameVals(got.vals, []any{k}) {
					fail(q, par, got, fmt.Sprintf("%d", k))
				}
			case "[.[] | first(limit($n; repeat(.)))]":
				if neg {
					if !got.err {
						fail(q, par, got, "an error")
					}
				} else if f == 0 {
					if got.err || !sameVals(got.vals, []any{arr()}) {
						fail(q, par, got, "[]")
					}
				} else if got.err || !sameVals(got.vals, []any{arr(5, 6)}) {
					fail(q, par, got, "[5,6]")
				}
			}
		}
	}
	// cross-check with jq 1.6 on definitions both document alike
	cross := []struct{ q, in string }{
		{`[limit(3; range(10))]`, `null`}, {`[limit(1; 1, 2)]`, `null`}, {`[first(range(5; 10))]`, `null`}, {`[nth(3; range(10))]`, `null`},
		{`[range(5)]`, `null`}, {`[range(2; 5)]`, `null`}, {`[range(0; 10; 3)]`, `null`}, {`[range(5; 0; -2)]`, `null`}, {`[range(0; 1; 0.25)]`, `null`},
		{`[.[] | until(. >= 100; . * 2)]`, `[1, 3]`}, {`[1 | while(. < 40; . * 3)]`, `null`}, {`[limit(4; 1 | repeat(. * 2))]`, `null`},
		{`[combinations]`, `[[1,2],[3,4]]`}, {`[combinations(2)]`, `[0,1]`}, {`to_entries`, `{"a":1,"b":[2]}`}, {`from_entries`, `[{"key":"a","value":1},{"name":"b","Value":2},{"k":1}]`},
		{`with_entries(.value |= tostring)`, `{"a":1,"b":null}`}, {`walk(if type == "number" then . + 1 else . end)`, `[1,{"a":[2,"x"]},null]`},
		{`[paths]`, `{"a":[1,{"b":2}]}`}, {`[paths(type == "number")]`, `{"a":[1,{"b":2}]}`}, {`del(.a, .b[0])`, `{"a":1,"b":[1,2],"c":3}`},
		{`map(. * 2)`, `[1,2.5]`}, {`map_values(. + 1)`, `{"a":1,"b":2}`}, {`[.[] | select(. > 1)]`, `[0,1,2,3]`}, {`[recurse]`, `[1,[2]]`},
		{`[recurse(.[]?; type == "array")]`, `[1,[2]]`}, {`any, all`, `[true,false]`}, {`[any(.[]; . > 2), all(.[]; . > 0)]`, `[1,2,3]`}, {`flatten(1)`, `[1,[2,[3]]]`},
		{`[first, last, nth(1)]`, `[5,6,7]`}, {`[isempty(empty), isempty(1, error)]`, `null`}, {`[.[] | in({"a":1})]`, `["a","b"]`}, {`inside([1,2,3])`, `[1,2]`},
		{`[tostream]`, `{"a":[1,2]}`}, {`fromstream(tostream)`, `{"a":[1,{"b":2}]}`}, {`[truncate_stream(1; tostream)]`, `{"a":[1,2]}`},
		{`[splits(", *")]`, `"a, b,c"`}, {`sub("(?<x>b)"; "[\(.x)]")`, `"abc"`}, {`[scan("[a-c]")]`, `"abcd"`}, {`ascii_downcase, ascii_upcase`, `"aBc"`},
		{`min_by(.a), max_by(.a)`, `[{"a":2},{"a":1},{"a":2,"b":0}]`}, {`group_by(.a)`, `[{"a":2},{"a":1},{"a":2,"b":0}]`}, {`unique_by(.a)`, `[{"a":2},{"a":1},{"a":2,"b":0}]`},
		{`sort_by(.a)`, `[{"a":2},{"a":1},{"a":2,"b":0}]`}, {`add`, `[[1],[2]]`}, {`[.[] | tojson | fromjson]`, `[1,"a",[null]]`}, {`todate`, `1425599621`}, {`fromdate`, `"2015-03-05T23:53:41Z"`},
		{`INDEX(.id)`, `[{"id":1},{"id":2}]`}, {`[IN(.[]; 2, 3)]`, `[1,2]`},
	}
	crossed, crossBad := 0, 0
	if _, err := os.Stat("/usr/bin/jq"); err == nil {
		for _, t := range cross {
			var in any
			d := json.NewDecoder(strings.NewReader(t.in))
			d.UseNumber()
			if err := d.Decode(&in); err != nil {
				continue
			}
			got := jqRun(t.q, in, nil, nil)
			n++
			cmd := exec.Command("/usr/bin/jq", "-c", t.q)
			cmd.Stdin = strings.NewReader(t.in)
			out, err := cmd.Output()
			var want []any
			wd := json.NewDecoder(strings.NewReader(string(out)))
			wd.UseNumber()
			for {
				var w any
				if wd.Decode(&w) != nil {
					break
				}
				want = append(want, w)
			}
			crossed++
			if got.timeout || got.err != (err != nil) || !sameValsLoose(got.vals, want) {
				crossBad++
				if crossBad <= 8 {
					c.Violation("jqdef: (jq %s) on %s :: gives %s, jq 1.6 gives %s", t.q, t.in, jqShow(got), strings.TrimSpace(string(out)))
				}
			}
		}
	}
	c.Stats["calls"] = n
	c.Stats["documented_mismatches"] = bad
	c.Stats["jq16_crosschecked"] = crossed
	c.Stats["jq16_mismatches"] = crossBad
}
