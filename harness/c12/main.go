// C12 harness: runs the IMPLEMENTATION's encoders on generated values and records the bytes they wrote.
// Streams: strings, floats, containers, run (whole command), yaml (implementation-only oracle).
// Line forms are documented in coq/c12/Run.v.  Implementation-only oracles (encoding/json reads every
// output back to an equal value, tojson|fromjson identity, printed floats parse back to the same bits,
// --yaml-output/--yaml-input round trip) are reported as impl_violations.
package main

import (
	"bytes"
	"encoding/hex"
	"encoding/json"
	"fmt"
	"math"
	"math/big"
	"os"
	"regexp"
	"sort"
	"strconv"
	"strings"
	"sync"
	. "verifharness/hlib"

	"github.com/itchyny/gojq"
	"github.com/itchyny/gojq/cli"
)

func main() {
	Register("strings", runStrings)
	Register("floats", runFloats)
	Register("containers", runContainers)
	Register("run", runRun)
	Register("yaml", runYAML)
	Register("yamlcase", runYAMLCase)
	Register("retain", runRetain)
	Register("longstrings", runLongStrings)
	Register("concurrent", runConcurrent)
	Main()
}

// ---------- transport ----------

// sexp renders a value; object members are written in a shuffled order (a Go map has none), so the
// model has to do the sorting itself.
func sexp(v any, r *Rng) string {
	switch v := v.(type) {
	case []any:
		var b strings.Builder
		b.WriteString("(a")
		for _, x := range v {
			b.WriteByte(' ')
			b.WriteString(sexp(x, r))
		}
		b.WriteByte(')')
		return b.String()
	case map[string]any:
		keys := make([]string, 0, len(v))
		for k := range v {
			keys = append(keys, k)
		}
		sort.Strings(keys)
		for i := len(keys) - 1; i > 0; i-- {
			j := r.Intn(i + 1)
			keys[i], keys[j] = keys[j], keys[i]
		}
		var b strings.Builder
		b.WriteString("(o")
		for _, k := range keys {
			b.WriteString(" (" + Hexs([]byte(k)) + " " + sexp(v[k], r) + ")")
		}
		b.WriteByte(')')
		return b.String()
	default:
		return SexpVal(v)
	}
}

func clampF(f float64) float64 { return min(max(f, -math.MaxFloat64), math.MaxFloat64) }

func collectFloats(v any, m map[uint64]bool) {
	switch v := v.(type) {
	case float64:
		if !math.IsNaN(v) {
			m[math.Float64bits(clampF(v))] = true
		}
	case []any:
		for _, x := range v {
			collectFloats(x, m)
		}
	case map[string]any:
		for _, x := range v {
			collectFloats(x, m)
		}
	}
}

// oracle: the digit strings strconv prints for the (clamped) floats of v, in both formats.
func oracle(v any) string {
	m := map[uint64]bool{}
	collectFloats(v, m)
	if len(m) == 0 {
		return "()"
	}
	keys := make([]uint64, 0, len(m))
	for k := range m {
		keys = append(keys, k)
	}
	sort.Slice(keys, func(i, j int) bool { return keys[i] < keys[j] })
	var b strings.Builder
	b.WriteByte('(')
	for i, k := range keys {
		if i > 0 {
			b.WriteByte(' ')
		}
		f := math.Float64frombits(k)
		fmt.Fprintf(&b, "(%d %s %s)", k, Hexs(strconv.AppendFloat(nil, f, 'e', -1, 64)), Hexs(strconv.AppendFloat(nil, f, 'f', -1, 64)))
	}
	b.WriteByte(')')
	return b.String()
}

// ---------- implementation-only oracles ----------

func sanitizeGo(s string) string { return string([]rune(s)) } // every invalid byte -> U+FFFD

// equalRead: does x (read back by encoding/json with UseNumber, or by fromjson) equal v up to the
// documented normalisations?
func equalRead(x, v any) bool {
	switch v := v.(type) {
	case nil:
		return x == nil
	case bool:
		b, ok := x.(bool)
		return ok && b == v
	case int:
		n, ok := x.(json.Number)
		return ok && n.String() == strconv.Itoa(v)
	case *big.Int:
		n, ok := x.(json.Number)
		return ok && n.String() == v.String()
	case json.Number:
		n, ok := x.(json.Number)
		return ok && n.String() == v.String()
	case float64:
		if math.IsNaN(v) {
			return x == nil
		}
		n, ok := x.(json.Number)
		if !ok {
			return false
		}
		f, err := strconv.ParseFloat(n.String(), 64)
		return err == nil && math.Float64bits(f) == math.Float64bits(clampF(v))
	case string:
		s, ok := x.(string)
		return ok && s == sanitizeGo(v)
	case []any:
		a, ok := x.([]any)
		if !ok || len(a) != len(v) {
			return false
		}
		for i := range v {
			if !equalRead(a[i], v[i]) {
				return false
			}
		}
		return true
	case map[string]any:
		o, ok := x.(map[string]any)
		if !ok {
			return false
		}
		// keys that become equal after U+FFFD replacement: the last one in byte order wins on reading
		keys := make([]string, 0, len(v))
		for k := range v {
			keys = append(keys, k)
		}
		sort.Strings(keys)
		w := map[string]any{}
		for _, k := range keys {
			w[sanitizeGo(k)] = v[k]
		}
		if len(w) != len(o) {
			return false
		}
		for k, y := range w {
			z, ok := o[k]
			if !ok || !equalRead(z, y) {
				return false
			}
		}
		return true
	}
	return false
}

var sgr = regexp.MustCompile("\x1b\\[[0-9;]*m")

func readsBack(c *Ctx, what string, v any, out []byte, rng *Rng) {
	plain := sgr.ReplaceAll(out, nil)
	dec := json.NewDecoder(bytes.NewReader(plain))
	dec.UseNumber()
	var x any
	if err := dec.Decode(&x); err != nil {
		c.Violation("%s %s :: output %s is not JSON: %v", what, SexpVal(v), Hexs(out), err)
		return
	}
	if dec.More() {
		c.Violation("%s %s :: output %s has trailing data", what, SexpVal(v), Hexs(out))
		return
	}
	if !equalRead(x, v) {
		c.Violation("%s %s :: output %s reads back as a different value", what, SexpVal(v), Hexs(out))
	}
}

// ---------- retained results ----------
// The property is about the bytes a caller holds, for as long as it holds them: the slices returned by
// gojq.Marshal (the slices themselves, NOT copies) and the strings returned by tojson/@json/tostring are kept
// for a window of the last 64 calls together with a copy taken at return time, and after every further call
// every kept result must still equal its copy.
type keptResult struct {
	what  string // canonical description of the call that produced it
	live  []byte // the slice as returned (aliases whatever the implementation returned)
	lives string // or the string as returned
	isStr bool
	copy  []byte
}

var (
	retained     []keptResult
	retainedBad  int
	retainChecks int
)

const retainWindow = 64

func checkRetained(c *Ctx, after string) {
	for i := 0; i < len(retained); i++ {
		k := retained[i]
		var now []byte
		if k.isStr {
			now = []byte(k.lives)
		} else {
			now = k.live
		}
		retainChecks++
		if !bytes.Equal(now, k.copy) {
			if retainedBad < 3 {
				c.Violation("retained result of %s :: returned %s, but after the later call %s the kept result reads %s", k.what, Hexs(k.copy), after, Hexs(now))
			}
			retainedBad++
			retained = append(retained[:i], retained[i+1:]...)
			i--
		}
	}
}

func retain(k keptResult) {
	if len(retained) >= retainWindow {
		retained = retained[1:]
	}
	retained = append(retained, k)
}

// marshal is gojq.Marshal with the retained-result oracle around it
func marshal(c *Ctx, v any) ([]byte, error) {
	bs, err := gojq.Marshal(v)
	what := "Marshal " + shortSexp(v)
	checkRetained(c, what)
	retain(keptResult{what: what, live: bs, copy: bytes.Clone(bs)})
	return bs, err
}

func retainString(c *Ctx, mode string, v any, s string) {
	what := mode + " " + shortSexp(v)
	checkRetained(c, what)
	retain(keptResult{what: what, lives: s, isStr: true, copy: []byte(strings.Clone(s))})
}

func retainStats(c *Ctx) {
	c.Stats["retain_checks"] = retainChecks
	c.Stats["retain_bad"] = retainedBad
}

func shortSexp(v any) string {
	s := SexpVal(v)
	if len(s) > 300 {
		return fmt.Sprintf("%s...[%d chars]", s[:300], len(s))
	}
	return s
}

// ---------- the implementation's entry points ----------

func compile(src string) *gojq.Code {
	q, err := gojq.Parse(src)
	if err != nil {
		panic(err)
	}
	code, err := gojq.Compile(q)
	if err != nil {
		panic(err)
	}
	return code
}

var (
	cToJSON   = compile("tojson")
	cAtJSON   = compile("@json")
	cAtText   = compile("@text")
	cToString = compile("tostring")
	cRound    = compile("tojson|fromjson")
)

func run1(code *gojq.Code, in any) any {
	it := code.Run(in)
	v, ok := it.Next()
	if !ok {
		return fmt.Errorf("no output")
	}
	return v
}

// marshalOnly: emitLib records gojq.Marshal only (very long values in the quick tier)
var marshalOnly bool

func emitLib(c *Ctx, v any, rng *Rng, all bool) {
	orc := oracle(v)
	sv := sexp(v, rng)
	bs, err := marshal(c, v)
	if err != nil {
		c.Violation("Marshal %s :: error %v", SexpVal(v), err)
	}
	c.Emit("(lib marshal %s %s %s)", sv, Hexs(bs), orc)
	readsBack(c, "Marshal", v, bs, rng)
	modes := []struct {
		name string
		code *gojq.Code
	}{{"tojson", cToJSON}, {"atjson", cAtJSON}, {"attext", cAtText}, {"tostring", cToString}}
	if !all {
		modes = modes[:1]
	}
	if marshalOnly {
		modes = nil
	}
	for _, m := range modes {
		res := run1(m.code, v)
		s, ok := res.(string)
		if !ok {
			c.Violation("%s %s :: result %s is not a string", m.name, SexpVal(v), SexpVal(res))
			continue
		}
		c.Emit("(lib %s %s %s %s)", m.name, sv, Hexs([]byte(s)), orc)
		c.Count("lib:" + m.name)
		retainString(c, m.name, v, s)
		if _, isStr := v.(string); !isStr || m.name == "tojson" || m.name == "atjson" {
			readsBack(c, m.name, v, []byte(s), rng)
		}
	}
	// tojson|fromjson is the identity up to NaN->null, infinity saturation, U+FFFD replacement
	if res := run1(cRound, v); !equalRead(res, v) {
		c.Violation("tojson|fromjson %s :: got %s", SexpVal(v), SexpVal(res))
	} else if all {
		// the text and what fromjson read from it: the reference reader of the model is compared with it
		s, _ := run1(cToJSON, v).(string)
		if !hasCollidingKeys(v) {
			c.Emit("(dec %s %s)", Hexs([]byte(s)), SexpVal(res))
			c.Count("dec")
		}
	}
}

func hasCollidingKeys(v any) bool {
	switch v := v.(type) {
	case []any:
		for _, x := range v {
			if hasCollidingKeys(x) {
				return true
			}
		}
	case map[string]any:
		seen := map[string]bool{}
		for k, x := range v {
			s := sanitizeGo(k)
			if seen[s] || hasCollidingKeys(x) {
				return true
			}
			seen[s] = true
		}
	}
	return false
}

type cliOpt struct {
	tab     bool
	indent  int
	nocolor bool
	colors  string
}

// encodeNoPanic: a panic inside the command's encoder is a violation reported with its case, not a dead harness
func encodeNoPanic(v any, o cliOpt, buf *bytes.Buffer) (err error, panicked any) {
	defer func() { panicked = recover() }()
	err = cli.VerifC12Encode(v, o.tab, o.indent, o.nocolor, o.colors, buf)
	return
}

func emitCli(c *Ctx, v any, o cliOpt, rng *Rng) {
	var buf bytes.Buffer
	err, pan := encodeNoPanic(v, o, &buf)
	if pan != nil {
		c.Violation("cli encoder %+v %s :: the encoder panicked: %v", o, SexpVal(v), pan)
		return
	}
	if err != nil {
		c.Violation("cli encoder %+v %s :: error %v", o, SexpVal(v), err)
		return
	}
	cols := "default"
	if o.colors != "default" {
		cols = Hexs([]byte(o.colors))
	}
	b2i := func(b bool) int {
		if b {
			return 1
		}
		return 0
	}
	c.Emit("(cli %d %d %d %s %s %s %s)", b2i(o.tab), o.indent, b2i(o.nocolor), cols, sexp(v, rng), Hexs(buf.Bytes()), oracle(v))
	c.Count("cli")
	readsBack(c, fmt.Sprintf("cli encoder %+v", o), v, buf.Bytes(), rng)
	// all modes agree: without colour and insignificant whitespace the bytes are Marshal's
	lib, _ := marshal(c, v)
	if got := stripWS(sgr.ReplaceAll(buf.Bytes(), nil)); !bytes.Equal(got, lib) {
		c.Violation("cli encoder %+v %s :: stripped output %s differs from Marshal %s", o, SexpVal(v), Hexs(got), Hexs(lib))
	}
}

// stripWS removes JSON whitespace outside strings.
func stripWS(b []byte) []byte {
	var out []byte
	in, esc := false, false
	for _, c := range b {
		switch {
		case esc:
			esc = false
		case in && c == '\\':
			esc = true
		case c == '"':
			in = !in
		case !in && (c == ' ' || c == '\n' || c == '\t' || c == '\r'):
			continue
		}
		out = append(out, c)
	}
	return out
}

// ---------- generators ----------

// the byte alphabet of the property (single bytes) and some multi-byte letters
func alphabet() []string {
	var a []string
	for b := 0; b < 0x20; b++ {
		a = append(a, string([]byte{byte(b)}))
	}
	for _, b := range []byte{'"', '\\', 0x7f, '/', 'a', ' ', '~', '<', '&', 0x80, 0x8f, 0x90, 0x9f, 0xa0, 0xbf,
		0xc0, 0xc1, 0xc2, 0xdf, 0xe0, 0xe1, 0xec, 0xed, 0xee, 0xef, 0xf0, 0xf1, 0xf3, 0xf4, 0xf5, 0xff} {
		a = append(a, string([]byte{b}))
	}
	a = append(a, "\u00e9", "\u20ac", "\U0001F600", "\u2028", "\u2029", "\ufffd", "\ud7ff", "\ue000", "\U0010ffff",
		"\u0080", "\u07ff", "\u0800", "\uffff", "\U00010000",
		"\xed\xa0\x80", "\xc0\x80", "\xe0\x80\x80", "\xf0\x80\x80\x80", "\xf4\x90\x80\x80", "\xe2\x82", "\xf0\x9f\x98")
	return a
}

var interestingBytes = []byte{0, 1, 8, 9, 10, 12, 13, 0x1f, 0x20, '"', '\\', '/', 'a', 0x7e, 0x7f, 0x80, 0x8f, 0x90, 0x9f, 0xa0, 0xbf,
	0xc0, 0xc1, 0xc2, 0xdf, 0xe0, 0xe1, 0xec, 0xed, 0xee, 0xef, 0xf0, 0xf1, 0xf3, 0xf4, 0xf5, 0xff}

func randString(r *Rng, maxLen int) string {
	n := r.Intn(maxLen + 1)
	var b []byte
	alpha := alphabet()
	for len(b) < n {
		switch r.Intn(6) {
		case 0:
			b = append(b, byte(r.Intn(256)))
		case 1:
			b = append(b, interestingBytes[r.Intn(len(interestingBytes))])
		case 2:
			b = append(b, alpha[r.Intn(len(alpha))]...)
		case 3:
			b = append(b, string(rune(r.Intn(0x110000)))...) // surrogates become U+FFFD
		default:
			b = append(b, byte(0x20+r.Intn(0x5f)))
		}
	}
	return string(b)
}

func validString(r *Rng, maxLen int) string {
	n := r.Intn(maxLen + 1)
	var b []rune
	for len(b) < n {
		switch r.Intn(5) {
		case 0:
			b = append(b, rune(r.Intn(0x80)))
		case 1:
			b = append(b, []rune{'"', '\\', '\n', '\t', 0x7f, 0x2028, 0x2029, 0xfffd, 0x10ffff, 0xe9, 0x20ac, 0x1f600, 0x85, 0xa0, 0xfeff}[r.Intn(15)])
		case 2:
			x := rune(r.Intn(0x110000))
			if x >= 0xd800 && x < 0xe000 {
				x = 0xfffd
			}
			b = append(b, x)
		default:
			b = append(b, rune(0x20+r.Intn(0x5f)))
		}
	}
	return string(b)
}

// float64 bit-pattern classes
func floatClasses(r *Rng, nrand int) []float64 {
	fs := []float64{0, math.Copysign(0, -1), 1, -1, 0.1, 0.5, 1.5, 100, 1e6, 123456789, 1e15, 1e16, 1e17,
		math.NaN(), math.Float64frombits(0x7ff8000000000001), math.Float64frombits(0xfff0000000000001), math.Float64frombits(0x7ff0000000000001),
		math.Inf(1), math.Inf(-1), math.MaxFloat64, -math.MaxFloat64, math.SmallestNonzeroFloat64, -math.SmallestNonzeroFloat64,
		math.Float64frombits(0x000fffffffffffff), math.Float64frombits(0x0010000000000000), math.Float64frombits(0x0010000000000001), // subnormal/normal border
		1e-5, 1e-6, 1e-7, 9.999999e-7, 1.000001e-6, 1e-8, 1e-9, 1.5e-9, 1e-10, 1.25e-10, 9e-10, 1e-99, 1e-100, 1e-300, 5e-324,
		1e20, 1e21, 1e22, 9.99999999999e20, 1.00000000001e21, 1e99, 1e100, 1e300, 123456789012345678901234567890,
		-1e-7, -1e-9, -1e21, -1e-6, -9.5e-9, 4.9e-9, 3e-9, 1e+09, 2.5e-09,
		float64(1 << 53), float64(1<<53 + 2), 1 / 3.0, 2 / 3.0, math.Pi, math.E, 1e-6 - 1e-22, 1e21 - 65536, 1e21 - 131072}
	for _, base := range []float64{1e-6, 1e-7, 1e21, 1e-9, 1e-10, 1e-5, 1e20, 1e-99, 1e-100} {
		b := math.Float64bits(base)
		for d := -3; d <= 3; d++ {
			fs = append(fs, math.Float64frombits(uint64(int64(b)+int64(d))), -math.Float64frombits(uint64(int64(b)+int64(d))))
		}
	}
	for i := 0; i < nrand; i++ {
		var f float64
		switch r.Intn(8) {
		case 0: // any bit pattern
			f = math.Float64frombits(r.Next())
		case 1: // subnormal
			f = math.Float64frombits(r.Next() & 0x800fffffffffffff)
		case 2: // around 1e-6 / 1e-7 (exponent bits of 1e-6 +- 5)
			f = math.Float64frombits((r.Next() & 0x800fffffffffffff) | uint64(0x3eb-5+r.Intn(10))<<52)
		case 3: // around 1e21
			f = math.Float64frombits((r.Next() & 0x800fffffffffffff) | uint64(0x444-3+r.Intn(6))<<52)
		case 4: // e-09 / e-10 region
			f = (1 + float64(r.Intn(9000))/1000) * []float64{1e-9, 1e-10, 1e-8, 1e-11}[r.Intn(4)]
		case 5: // short decimals
			f = float64(r.Intn(2000000)-1000000) / []float64{1, 10, 100, 1000, 1e6, 1e9, 1e12}[r.Intn(7)]
		case 6: // powers of ten
			f = math.Pow(10, float64(r.Intn(640)-320))
		default: // NaN / Inf payloads
			f = math.Float64frombits(0x7ff0000000000000 | r.Next()&0x800fffffffffffff)
		}
		fs = append(fs, f)
	}
	return fs
}

var numberLiterals = []string{"0", "-0", "1.0", "1.50", "1e1000", "-1e-1000", "1E+2", "1e-09", "0.000001", "100000000000000000000000",
	"3.141592653589793238462643383279", "0e0", "-0.0", "12345678901234567890", "1e5", "0.1e-6", "9007199254740993"}

type genOpts struct {
	jsonable bool // only values that JSON text can carry (valid UTF-8, numbers as literals)
	maxDepth int
	maxWidth int
	strLen   int
}

func genScalar(r *Rng, g genOpts) any {
	for {
		switch r.Intn(10) {
		case 0:
			return nil
		case 1:
			return r.Chance(1, 2)
		case 2:
			if g.jsonable {
				return json.Number(strconv.Itoa(r.Intn(2000) - 1000))
			}
			return []int{0, 1, -1, 42, math.MaxInt64, math.MinInt64, 1 << 53, -12345}[r.Intn(8)]
		case 3:
			if g.jsonable {
				continue
			}
			x := new(big.Int).Lsh(big.NewInt(int64(1+r.Intn(1000))), uint(64+r.Intn(100)))
			if r.Chance(1, 2) {
				x.Neg(x)
			}
			return x
		case 4:
			if g.jsonable {
				continue
			}
			fs := floatClasses(r, 1)
			return fs[len(fs)-1-r.Intn(len(fs))%len(fs)]
		case 5:
			return json.Number(numberLiterals[r.Intn(len(numberLiterals))])
		default:
			if g.jsonable {
				return validString(r, g.strLen)
			}
			return randString(r, g.strLen)
		}
	}
}

func genValue(r *Rng, g genOpts, depth int) any {
	if depth >= g.maxDepth || r.Chance(2, 5) {
		return genScalar(r, g)
	}
	n := r.Intn(g.maxWidth + 1)
	if r.Chance(1, 2) {
		a := make([]any, n)
		for i := range a {
			a[i] = genValue(r, g, depth+1)
		}
		return a
	}
	o := map[string]any{}
	for i := 0; i < n; i++ {
		var k string
		if g.jsonable {
			k = validString(r, 6)
		} else {
			k = randString(r, 6)
		}
		o[k] = genValue(r, g, depth+1)
	}
	return o
}

// nested builds [[[...v...]]] or {"k":{"k":...}} of the given depth
func nested(depth int, obj bool, leaf any) any {
	v := leaf
	for i := 0; i < depth; i++ {
		if obj {
			v = map[string]any{"k": v, "a": i}
		} else {
			v = []any{i, v}
		}
	}
	return v
}

// ---------- streams ----------

func runStrings(c *Ctx) {
	defer retainStats(c)
	rng := c.Rng
	alpha := alphabet()
	var strs []string
	strs = append(strs, "")
	for _, a := range alpha {
		strs = append(strs, a)
	}
	for _, a := range alpha {
		for _, b := range alpha {
			strs = append(strs, a+b)
		}
	}
	c.Stats["alphabet"] = len(alpha)
	c.Stats["exhaustive_len_le_2"] = len(strs)
	// length 3 and 4 over the lead/continuation bytes: exhaustive in the thorough tier, sampled in quick
	seqBytes := []byte{'a', 0x7f, 0x80, 0x8f, 0x90, 0x9f, 0xa0, 0xbf, 0xc2, 0xdf, 0xe0, 0xe1, 0xed, 0xef, 0xf0, 0xf1, 0xf4, 0xf5}
	if c.Tier == "thorough" {
		for _, a := range seqBytes {
			for _, b := range seqBytes {
				for _, d := range seqBytes {
					strs = append(strs, string([]byte{a, b, d}))
					for _, e := range seqBytes {
						strs = append(strs, string([]byte{a, b, d, e}))
					}
				}
			}
		}
	} else {
		for i := 0; i < 600; i++ {
			n := 3 + rng.Intn(2)
			b := make([]byte, n)
			for j := range b {
				b[j] = seqBytes[rng.Intn(len(seqBytes))]
			}
			strs = append(strs, string(b))
		}
	}
	nExh := len(strs)
	for i := 0; i < c.N; i++ {
		strs = append(strs, randString(rng, 40))
	}
	// every byte value once, and all 2-byte strings lead x continuation in the thorough tier
	for b := 0; b < 256; b++ {
		strs = append(strs, string([]byte{'x', byte(b), 'y'}))
	}
	if c.Tier == "thorough" {
		for a := 0x80; a < 256; a++ {
			for b := 0; b < 256; b++ {
				strs = append(strs, string([]byte{byte(a), byte(b)}), string([]byte{byte(a), byte(b), 0x80}))
			}
		}
	}
	for i, s := range strs {
		emitLib(c, s, rng, i < nExh || i%4 == 0)
		emitCli(c, s, cliOpt{false, -1, true, "default"}, rng)
		if i < nExh || i%4 == 0 {
			emitCli(c, s, cliOpt{false, 2, false, "default"}, rng)
			// as an object key and inside an array
			emitLib(c, map[string]any{s: s}, rng, false)
			emitCli(c, map[string]any{s: []any{s}}, cliOpt{false, 2, false, "default"}, rng)
		}
	}
	c.Stats["strings"] = len(strs)
}

func runFloats(c *Ctx) {
	defer retainStats(c)
	rng := c.Rng
	c.Emit("(consts %d %d %d)", math.Float64bits(1e-6), math.Float64bits(1e21), math.Float64bits(math.MaxFloat64))
	fs := floatClasses(rng, c.N)
	for i, f := range fs {
		emitLib(c, f, rng, i%8 == 0)
		emitCli(c, f, cliOpt{false, -1, true, "default"}, rng)
		if i%8 == 0 {
			emitCli(c, []any{f, map[string]any{"x": f}}, cliOpt{false, 2, false, "default"}, rng)
		}
		// property oracle on the implementation: the printed float parses back to the same bits
		bs, _ := marshal(c, f)
		cls := "finite"
		switch {
		case math.IsNaN(f):
			cls = "nan"
			if string(bs) != "null" {
				c.Violation("Marshal (f %d) :: NaN printed as %s, want null", math.Float64bits(f), Hexs(bs))
			}
		default:
			if math.IsInf(f, 0) {
				cls = "inf"
			} else if f != 0 && math.Abs(f) < 2.2250738585072014e-308 {
				cls = "subnormal"
			} else if strings.ContainsAny(string(bs), "e") {
				cls = "exp"
			}
			g, err := strconv.ParseFloat(string(bs), 64)
			if err != nil || math.Float64bits(g) != math.Float64bits(clampF(f)) {
				c.Violation("Marshal (f %d) :: printed %s parses back as bits %d (%v)", math.Float64bits(f), Hexs(bs), math.Float64bits(g), err)
			}
		}
		c.Count("float:" + cls)
	}
	c.Stats["floats"] = len(fs)
}

var colourTables = []string{"default", "1;31:0;32:0;33:0;34:0;35:0;36:1;37:4", ":::::::", "7:::::1;2;3::5", "0:1:2:3:4:5:6:7", "31", "1;30:::::34;1:35:36"}

func optionCombos(r *Rng, all bool) []cliOpt {
	var os []cliOpt
	add := func(tab bool, ind int) {
		for _, nc := range []bool{true, false} {
			if nc {
				os = append(os, cliOpt{tab, ind, true, "default"})
			} else if all {
				for _, ct := range colourTables {
					os = append(os, cliOpt{tab, ind, false, ct})
				}
			} else {
				os = append(os, cliOpt{tab, ind, false, colourTables[r.Intn(len(colourTables))]})
			}
		}
	}
	add(false, -1)
	for i := 0; i <= 9; i++ {
		add(false, i)
	}
	add(true, 1)
	return os
}

func runContainers(c *Ctx) {
	defer retainStats(c)
	rng := c.Rng
	var vals []any
	// fixed shapes
	vals = append(vals, []any{}, map[string]any{}, []any{[]any{}}, map[string]any{"": map[string]any{}}, []any{[]any{}, map[string]any{}, []any{map[string]any{"a": []any{}}}},
		[]any{nil, true, false, 0, 1.5, "s", json.Number("1.0"), big.NewInt(7)},
		map[string]any{"b": 1, "a": 2, "ab": 3, "B": 4, "": 5, "a\x00": 6, "\xff": 7, "\u00e9": 8, "a b": 9, "\"": 10},
		nested(5, false, "x"), nested(5, true, nil), nested(40, false, []any{}), nested(40, true, map[string]any{}))
	g := genOpts{maxDepth: 5, maxWidth: 5, strLen: 12}
	for i := 0; i < c.N; i++ {
		vals = append(vals, genValue(rng, g, 0))
	}
	for i, v := range vals {
		emitLib(c, v, rng, true)
		for _, o := range optionCombos(rng, i < 4 || (c.Tier == "thorough" && i < 20)) {
			emitCli(c, v, o, rng)
		}
	}
	for _, v := range []any{nested(70, false, 1.5), nested(130, true, "deep")} {
		emitLib(c, v, rng, true)
		for _, o := range []cliOpt{{false, -1, true, "default"}, {false, -1, false, "default"}, {true, 1, false, "default"}, {false, 1, true, "default"}, {false, 2, false, colourTables[1]}, {false, 3, true, "default"}} {
			emitCli(c, v, o, rng)
		}
	}
	// the indent writer: every depth count n around the block sizes and the doubling steps, spaces and tabs
	one := []any{[]any{1}, map[string]any{"k": []any{}}}
	ns := []int{0, 1, 2, 9, 10, 15, 16, 17, 31, 32, 33, 34, 47, 48, 49, 63, 64, 65, 66, 95, 96, 97, 100, 127, 128, 129, 130, 191, 192, 193, 255, 256, 257, 300, 511, 512, 513, 1000, 1023, 1024, 1025}
	if c.Tier == "thorough" {
		ns = nil
		for n := 0; n <= 1100; n++ {
			ns = append(ns, n)
		}
		ns = append(ns, 2047, 2048, 2049, 4095, 4096, 4097, 5000)
	} else {
		for i := 0; i < 12; i++ {
			ns = append(ns, rng.Intn(1200))
		}
	}
	for _, n := range ns {
		for _, tab := range []bool{false, true} {
			emitCli(c, one, cliOpt{tab, n, true, "default"}, rng)
			c.Count("indent-n")
		}
	}
	// deep nesting with small units (depth * indent crosses the block size several times)
	for _, d := range []int{17, 33, 65, 129, 200} {
		for _, obj := range []bool{false, true} {
			v := nested(d, obj, "x")
			emitCli(c, v, cliOpt{true, 1, true, "default"}, rng)
			emitCli(c, v, cliOpt{false, 1, true, "default"}, rng)
			if d <= 65 || c.Tier == "thorough" {
				emitCli(c, v, cliOpt{false, 7, false, "default"}, rng)
			}
		}
	}
	// wide and large values: the 8 KiB flush threshold
	nbig := 3
	if c.Tier == "thorough" {
		nbig = 40
	}
	for i := 0; i < nbig; i++ {
		w := 200 + rng.Intn(400)
		a := make([]any, w)
		for j := range a {
			a[j] = genValue(rng, genOpts{maxDepth: 2, maxWidth: 4, strLen: 30}, 0)
		}
		var v any = a
		if i%2 == 1 {
			o := map[string]any{}
			for j, x := range a {
				o[fmt.Sprintf("%s%d", randString(rng, 5), j)] = x
			}
			v = o
		}
		emitLib(c, v, rng, false)
		for _, o := range []cliOpt{{false, -1, true, "default"}, {false, 2, false, "default"}, {true, 1, true, "default"}, {false, 9, false, colourTables[1]}} {
			emitCli(c, v, o, rng)
			c.Count("big")
		}
	}
	c.Stats["values"] = len(vals)
}

// whole command: flags -> createMarshaler -> printValues
func runRun(c *Ctx) {
	defer retainStats(c)
	rng := c.Rng
	type fl struct {
		args  []string
		sx    string
		color string // GOJQ_COLORS ("" = unset)
	}
	var combos []fl
	layouts := []fl{{nil, "", ""}, {[]string{"-c"}, "c", ""}, {[]string{"--tab"}, "tab", ""}, {[]string{"--tab", "-c"}, "tab c", ""}, {[]string{"--tab", "--indent", "3"}, "tab (indent 3)", ""}, {[]string{"-c", "--indent", "4"}, "c (indent 4)", ""}}
	for i := 0; i <= 9; i++ {
		layouts = append(layouts, fl{[]string{"--indent", strconv.Itoa(i)}, fmt.Sprintf("(indent %d)", i), ""})
	}
	raws := []fl{{nil, "", ""}, {[]string{"-r"}, "r", ""}, {[]string{"-j"}, "j", ""}, {[]string{"--raw-output0"}, "raw0", ""}}
	colors := []fl{{[]string{"-M"}, "M", ""}, {[]string{"-C"}, "C", ""}, {[]string{"-C"}, "C", "1;31:0;32:0;33:0;34:0;35:0;36:1;37:4"}, {[]string{"-C"}, "C", "::::::"}, {[]string{"-C"}, "C", "4:5:x"}, {[]string{"-M"}, "M", "4:5:x"}}
	for _, l := range layouts {
		for _, rw := range raws {
			for _, co := range colors {
				args := append(append(append([]string{}, l.args...), rw.args...), co.args...)
				sx := strings.TrimSpace(l.sx + " " + rw.sx + " " + co.sx)
				if co.color != "" {
					sx += " (colors " + Hexs([]byte(co.color)) + ")"
				}
				combos = append(combos, fl{args, sx, co.color})
			}
		}
	}
	g := genOpts{jsonable: true, maxDepth: 4, maxWidth: 4, strLen: 10}
	vals := []any{"plain", "nul\x00inside", "", json.Number("1.0"), nil, []any{}, map[string]any{"a": []any{json.Number("1"), "x", map[string]any{}}}, "line\nbreak \u2028 \"q\""}
	for i := 0; i < c.N; i++ {
		vals = append(vals, genValue(rng, g, 0))
	}
	old, had := os.LookupEnv("GOJQ_COLORS")
	defer func() {
		if had {
			os.Setenv("GOJQ_COLORS", old)
		} else {
			os.Unsetenv("GOJQ_COLORS")
		}
	}()
	for i, v := range vals {
		in, _ := marshal(c, v)
		// what the command's input decoder makes of the text
		dec := json.NewDecoder(bytes.NewReader(in))
		dec.UseNumber()
		var seen any
		if err := dec.Decode(&seen); err != nil {
			panic(err)
		}
		for j, f := range combos {
			if i >= 8 && (i+j)%7 != 0 {
				continue
			}
			if f.color != "" {
				os.Setenv("GOJQ_COLORS", f.color)
			} else {
				os.Unsetenv("GOJQ_COLORS")
			}
			var out, errb bytes.Buffer
			rc := cli.VerifC12Run(append(append([]string{}, f.args...), "."), bytes.NewReader(in), &out, &errb)
			outcome := "(out " + Hexs(out.Bytes()) + ")"
			if rc != 0 {
				outcome = "err"
				if out.Len() != 0 {
					outcome = "(errout " + Hexs(out.Bytes()) + ")"
				}
			}
			c.Emit("(run (%s) %s %s %s)", f.sx, sexp(seen, rng), outcome, oracle(seen))
			c.Count("run")
		}
	}
}

// --yaml-output then --yaml-input: go-yaml's encoder and decoder are outside /repo and not modelled; this
// is an implementation-level round trip only.  A failing value is shrunk to a minimal one so that the
// reported case is canonical: "yaml indent=<default|n> value=<compact JSON>".
func yamlRoundTrip(v any, ind []string) (ok bool, why string) {
	in, _ := gojq.Marshal(v)
	var want, y, back, errb bytes.Buffer
	if rc := cli.VerifC12Run([]string{"-c", "-M", "."}, bytes.NewReader(in), &want, &errb); rc != 0 {
		return false, "compact output failed: " + errb.String()
	}
	if rc := cli.VerifC12Run(append([]string{"--yaml-output"}, append(append([]string{}, ind...), ".")...), bytes.NewReader(in), &y, &errb); rc != 0 {
		return false, "--yaml-output failed: " + errb.String()
	}
	if rc := cli.VerifC12Run([]string{"--yaml-input", "-c", "-M", "."}, bytes.NewReader(y.Bytes()), &back, &errb); rc != 0 {
		return false, "--yaml-input of " + Hexs(y.Bytes()) + " failed: " + errb.String()
	}
	if !sameJSON(want.Bytes(), back.Bytes()) {
		return false, "written as " + Hexs(y.Bytes()) + " reads back as " + Hexs(back.Bytes())
	}
	return true, ""
}

// smaller variants of a value, most aggressive first
func shrinkCandidates(v any) []any {
	var out []any
	switch v := v.(type) {
	case []any:
		for _, x := range v {
			out = append(out, x)
		}
		for i := range v {
			w := append(append([]any{}, v[:i]...), v[i+1:]...)
			out = append(out, w)
		}
		for i, x := range v {
			for _, c := range shrinkCandidates(x) {
				w := append([]any{}, v...)
				w[i] = c
				out = append(out, w)
			}
		}
	case map[string]any:
		keys := make([]string, 0, len(v))
		for k := range v {
			keys = append(keys, k)
		}
		sort.Strings(keys)
		for _, k := range keys {
			out = append(out, v[k])
		}
		for _, k := range keys {
			w := map[string]any{}
			for k2, x := range v {
				if k2 != k {
					w[k2] = x
				}
			}
			out = append(out, w)
		}
		for _, k := range keys {
			for _, c := range shrinkCandidates(v[k]) {
				w := map[string]any{}
				for k2, x := range v {
					w[k2] = x
				}
				w[k] = c
				out = append(out, w)
			}
			for _, c := range shrinkCandidates(k) {
				k2, isStr := c.(string)
				if !isStr {
					continue
				}
				if _, dup := v[k2]; dup {
					continue
				}
				w := map[string]any{}
				for k3, x := range v {
					if k3 != k {
						w[k3] = x
					}
				}
				w[k2] = v[k]
				out = append(out, w)
			}
		}
	case string:
		rs := []rune(v)
		out = append(out, nil)
		for i := range rs {
			out = append(out, string(append(append([]rune{}, rs[:i]...), rs[i+1:]...)))
		}
		for i, r := range rs {
			if r != 'a' && r != '\n' && r != ' ' {
				w := append([]rune{}, rs...)
				w[i] = 'a'
				out = append(out, string(w))
			}
		}
	case nil:
	default:
		out = append(out, nil)
	}
	return out
}

var yamlIndents = [][]string{nil, {"--indent", "0"}, {"--indent", "1"}, {"--indent", "2"}, {"--indent", "3"}, {"--indent", "4"},
	{"--indent", "5"}, {"--indent", "6"}, {"--indent", "7"}, {"--indent", "8"}, {"--indent", "9"}}

func shrinkYAML(v any, ind []string) (any, []string) {
	for round := 0; round < 3; round++ {
		for steps := 0; steps < 2000; steps++ {
			progressed := false
			for _, c := range shrinkCandidates(v) {
				if ok, _ := yamlRoundTrip(c, ind); !ok {
					v, progressed = c, true
					break
				}
			}
			if !progressed {
				break
			}
		}
		for _, i := range yamlIndents {
			if ok, _ := yamlRoundTrip(v, i); !ok {
				ind = i
				break
			}
		}
	}
	return v, ind
}

func yamlKey(v any, ind []string) string {
	is := "default"
	if ind != nil {
		is = ind[1]
	}
	js, _ := gojq.Marshal(v)
	return fmt.Sprintf("yaml indent=%s value=%s", is, js)
}

var (
	reIndicator = regexp.MustCompile(`(?m)[|>][1-9][+-]?$`)
	reTabLine   = regexp.MustCompile(`[|>][+-]?\n *\t`)
)

// yamlWitness maps a minimal failing value to the fixed witness of its family, judged by the YAML text the
// implementation wrote for it: a block scalar with an explicit indentation indicator, or a block scalar whose
// first line starts with a tab.
func yamlWitness(v any, ind []string) (any, []string, bool) {
	in, _ := gojq.Marshal(v)
	var y, errb bytes.Buffer
	if rc := cli.VerifC12Run(append([]string{"--yaml-output"}, append(append([]string{}, ind...), ".")...), bytes.NewReader(in), &y, &errb); rc != 0 {
		return nil, nil, false
	}
	switch {
	case reIndicator.Match(y.Bytes()):
		return []any{"\na"}, []string{"--indent", "3"}, true
	case reTabLine.Match(y.Bytes()):
		return "\ta\n", nil, true
	}
	return nil, nil, false
}

// yamlcase <indent|default> <json>: replays one canonical YAML case on the implementation
// ---------- long strings ----------
// Strings longer than the encoders' internal sizes (the 4096-byte granularity of a chunked writer, the 8 KiB flush
// threshold, 64 KiB), of lengths around every power of two from 2^9 to 2^17, made of ASCII filler with a special
// token placed so that it straddles / touches every offset 4096*k (8192 and 65536 are among them), the start and
// the end of the string.  A newline every ~200 bytes keeps the model's pending segment short (the model appends to
// it byte by byte); the run of plain bytes across each boundary is still there.
type tokenKind struct {
	name  string
	tok   string
	backs []int // the token starts at boundary - back
}

var tokenKinds = []tokenKind{
	{"utf8-2", "\u00e9", []int{1}},
	{"utf8-3", "\u20ac", []int{1, 2}},
	{"utf8-4", "\U0001F600", []int{1, 2, 3}},
	{"u2028", "\u2028", []int{1, 2}},
	{"esc-nl", "\n", []int{0, 1}},
	{"esc-quote", "\"", []int{0, 1}},
	{"esc-1f", "\x1f", []int{0, 1}},
	{"bad-ff", "\xff", []int{0, 1}},
	{"bad-trunc3", "\xe2\x82", []int{1, 2}}, // a truncated 3-byte sequence followed by filler
	{"bad-surrogate", "\xed\xa0\x80", []int{1, 2}},
}

// longString builds a string of exactly n bytes; pick chooses (kind, back) for boundary number i
func longString(n int, pick func(i int) (tokenKind, int)) string {
	b := make([]byte, n)
	for i := range b {
		b[i] = byte('a' + i%26)
		if i%211 == 100 {
			b[i] = '\n'
		}
	}
	put := func(at int, tok string) {
		if at < 0 || at+len(tok) > n {
			return
		}
		copy(b[at:], tok)
	}
	i := 0
	k0, b0 := pick(i)
	put(0, k0.tok) // at the start
	_ = b0
	for off := 4096; off < n+4; off += 4096 {
		i++
		k, back := pick(i)
		put(off-back, k.tok)
	}
	i++
	k, _ := pick(i)
	put(n-len(k.tok), k.tok) // ends exactly at the end
	return string(b)
}

func runLongStrings(c *Ctx) {
	defer retainStats(c)
	rng := c.Rng
	type ls struct {
		s     string
		modes int // 0: Marshal + CLI compact; 1: + tojson, CLI coloured indent, as key
	}
	var strs []ls
	rot := func(shift int) func(int) (tokenKind, int) {
		return func(i int) (tokenKind, int) {
			k := tokenKinds[(i+shift)%len(tokenKinds)]
			return k, k.backs[(i/len(tokenKinds)+shift)%len(k.backs)]
		}
	}
	for p := 9; p <= 17; p++ {
		for d := -4; d <= 4; d++ {
			if c.Tier != "thorough" && p >= 15 && (d < -1 || d > 1) {
				continue
			}
			m := 1
			if p >= 15 {
				m = 0
			}
			strs = append(strs, ls{longString(1<<p+d, rot(p*9+d+4)), m})
		}
	}
	// every kind and every position separately around the first three boundaries (and all sizes in the thorough tier)
	sizes := []int{4099, 8195, 12291}
	if c.Tier == "thorough" {
		sizes = append(sizes, 16387, 32771, 65539, 131075)
	}
	for _, n := range sizes {
		for _, k := range tokenKinds {
			for _, back := range k.backs {
				k, back := k, back
				strs = append(strs, ls{longString(n, func(int) (tokenKind, int) { return k, back }), 1})
			}
		}
	}
	for i := 0; i < c.N; i++ {
		n := 3000 + rng.Intn(14000)
		sh := rng.Intn(1000)
		strs = append(strs, ls{longString(n, rot(sh)), 1})
	}
	for _, x := range strs {
		s := x.s
		marshalOnly = x.modes == 0 && c.Tier != "thorough"
		emitLib(c, s, rng, false)
		marshalOnly = false
		emitCli(c, s, cliOpt{false, -1, true, "default"}, rng)
		c.Count("long")
		if x.modes == 1 {
			emitCli(c, []any{s}, cliOpt{false, 2, false, "default"}, rng)
			if len(s) <= 20000 {
				emitCli(c, map[string]any{s: []any{s, 1}}, cliOpt{true, 1, true, "default"}, rng)
				emitLib(c, map[string]any{s: 1}, rng, false)
			}
		}
	}
	c.Stats["long_strings"] = len(strs)
}

// retain: calls of very different result sizes (shorter, longer, much longer than the previous ones) through
// Marshal, tojson, @json, tostring; every kept result is verified after every call
func runRetain(c *Ctx) {
	rng := c.Rng
	sized := func(n int) any {
		a := make([]any, n)
		for i := range a {
			a[i] = "element " + strconv.Itoa(i)
		}
		return a
	}
	vals := []any{[]any{"a longer array", 1, 2, 3}, "x", nil, []any{"second"}, sized(3), "a", sized(40), 1, sized(2), sized(700), "tiny", sized(5),
		map[string]any{"k": sized(20)}, 0.5, sized(5000), "after the big one", sized(1), map[string]any{"a": "b"}}
	for i := 0; i < c.N; i++ {
		switch rng.Intn(4) {
		case 0:
			vals = append(vals, sized(rng.Intn(8)))
		case 1:
			vals = append(vals, sized(50+rng.Intn(2000)))
		case 2:
			vals = append(vals, randString(rng, 1+rng.Intn(300)))
		default:
			vals = append(vals, genValue(rng, genOpts{maxDepth: 3, maxWidth: 4, strLen: 20}, 0))
		}
	}
	for i, v := range vals {
		if _, err := marshal(c, v); err != nil {
			c.Violation("Marshal %s :: error %v", shortSexp(v), err)
		}
		c.Nlines++
		if i%2 == 0 {
			for _, m := range []struct {
				name string
				code *gojq.Code
			}{{"tojson", cToJSON}, {"atjson", cAtJSON}, {"tostring", cToString}} {
				if s, ok := run1(m.code, v).(string); ok {
					retainString(c, m.name, v, s)
					c.Nlines++
				}
			}
		}
	}
	c.Stats["retain_checks"] = retainChecks
	c.Stats["retain_bad"] = retainedBad
}

// concurrent: 8 goroutines marshal distinct values and verify their own results, immediately and after
// further calls (built with -race in the thorough tier)
func runConcurrent(c *Ctx) {
	const workers = 8
	rounds := 200 + c.N
	type res struct{ msgs []string }
	out := make([]res, workers)
	var wg sync.WaitGroup
	for w := 0; w < workers; w++ {
		wg.Add(1)
		go func(w int) {
			defer wg.Done()
			var vals []any
			var want [][]byte
			for k := 0; k < 6; k++ {
				a := make([]any, 1+k*k*7)
				for i := range a {
					a[i] = fmt.Sprintf("worker %d item %d of size class %d", w, i, k)
				}
				var v any = a
				if k%2 == 1 {
					v = map[string]any{fmt.Sprintf("w%d", w): a}
				}
				vals = append(vals, v)
				// expected text through the string builder path (tojson), computed by this goroutine
				s, _ := run1(compile("tojson"), v).(string)
				want = append(want, []byte(s))
			}
			var kept [][]byte
			var keptWant [][]byte
			for r := 0; r < rounds; r++ {
				i := (r*7 + w) % len(vals)
				bs, _ := gojq.Marshal(vals[i])
				if !bytes.Equal(bs, want[i]) && len(out[w].msgs) < 2 {
					out[w].msgs = append(out[w].msgs, fmt.Sprintf("concurrent Marshal worker=%d value-class=%d :: result read right after the call is %s..., want %s...", w, i, clip(bs), clip(want[i])))
				}
				kept = append(kept, bs)
				keptWant = append(keptWant, want[i])
				if len(kept) > 16 {
					kept, keptWant = kept[1:], keptWant[1:]
				}
				for j := range kept {
					if !bytes.Equal(kept[j], keptWant[j]) && len(out[w].msgs) < 2 {
						out[w].msgs = append(out[w].msgs, fmt.Sprintf("concurrent Marshal worker=%d :: a kept result changed to %s..., want %s...", w, clip(kept[j]), clip(keptWant[j])))
					}
				}
			}
		}(w)
	}
	wg.Wait()
	n := 0
	for _, r := range out {
		for _, m := range r.msgs {
			if n < 3 {
				c.Violation("%s", m)
			}
			n++
		}
	}
	c.Nlines += workers * rounds
	c.Stats["concurrent_bad"] = n
}

func clip(b []byte) string {
	if len(b) > 40 {
		b = b[:40]
	}
	return Hexs(b)
}

func runYAMLCase(c *Ctx) {
	if len(c.Args) != 2 {
		c.Violation("yamlcase :: usage: yamlcase <indent|default> <json>")
		return
	}
	var ind []string
	if c.Args[0] != "default" {
		ind = []string{"--indent", c.Args[0]}
	}
	dec := json.NewDecoder(strings.NewReader(c.Args[1]))
	dec.UseNumber()
	var v any
	if err := dec.Decode(&v); err != nil {
		c.Violation("yamlcase :: value is not JSON: %v", err)
		return
	}
	c.Nlines++
	if ok, why := yamlRoundTrip(v, ind); !ok {
		c.Violation("%s :: --yaml-output then --yaml-input does not give the value back: %s", yamlKey(v, ind), why)
	}
}

func runYAML(c *Ctx) {
	rng := c.Rng
	g := genOpts{jsonable: true, maxDepth: 4, maxWidth: 4, strLen: 10}
	vals := []any{nil, true, "", "a", "null", "~", "true", "1", "1.5", "1e3", "0x10", "yes", "- a", "a: b", "#c", " lead", "trail ", "multi\nline", "tab\there",
		"\u00e9\u20ac\U0001F600", "\u2028", "\u0085", "\u00a0", "\ufeff", "'", "\"", "[1]", "{}", "---", "...", "|", ">", "!tag", "&a", "*a", "%d", "@x", "`x", "2001-01-01", "0o7", "1_000", ".inf", ".nan", "~x", "? a",
		"\na", " a\nb", "a\n", "\n", "a\n\nb", "a \nb", "\ta\nb", "\ta\n", "\t\na",
		[]any{}, map[string]any{}, []any{[]any{}, map[string]any{}}, map[string]any{"a": []any{json.Number("1"), json.Number("2.5"), nil, "x"}, "b": map[string]any{"": ""}},
		json.Number("0"), json.Number("-1"), json.Number("123456789012"), json.Number("1.5"), json.Number("-0.25"), json.Number("1e100")}
	// every sample string also as array element, member value and key, alone and inside an array
	n0 := len(vals)
	for _, v := range vals[:n0] {
		if s, ok := v.(string); ok {
			vals = append(vals, []any{s}, map[string]any{"k": s}, map[string]any{s: nil}, []any{map[string]any{"k": s}}, []any{map[string]any{s: nil}}, []any{[]any{s}})
		}
	}
	for i := 0; i < c.N; i++ {
		vals = append(vals, genValue(rng, g, 0))
	}
	yamlInputNumbers(c)
	seen := map[string]bool{}
	for _, v := range vals {
		for _, ind := range [][]string{nil, {"--indent", "3"}, {"--indent", "1"}, {"--indent", "8"}} {
			c.Count("yaml")
			c.Nlines++
			if ok, _ := yamlRoundTrip(v, ind); ok {
				continue
			}
			mv, mind := shrinkYAML(v, ind)
			_, why := yamlRoundTrip(mv, mind)
			key := yamlKey(mv, mind)
			local := ""
			// a local minimum of a family with a fixed witness is reported through the witness, if that fails too
			if w, wind, ok := yamlWitness(mv, mind); ok {
				if wok, wwhy := yamlRoundTrip(w, wind); !wok {
					local = " (local minimum: " + key + ")"
					key, why = yamlKey(w, wind), wwhy
				}
			}
			if !seen[key] {
				seen[key] = true
				c.Violation("%s :: --yaml-output then --yaml-input does not give the value back%s: %s", key, local, why)
			}
		}
	}
}

// yamlInputNumbers: every YAML spelling of a number (core schema: signs, leading/trailing dots, exponents without digits
// after the dot, hex/octal, underscores?, infinities) read with --yaml-input must be WRITTEN as valid JSON in every output mode
// (a number that reaches the output is a json.Number printed verbatim: a YAML-only spelling would come out as invalid JSON),
// and must denote the number the spelling denotes.  Implementation-only oracle; case key "yamlnum <text>".
func yamlInputNumbers(c *Ctx) {
	spellings := []string{"0", "1", "-1", "+1", "+0", "-0", "1.", "-1.", "+1.", ".5", "-.5", "+.5", "1.e2", "1.E2", "+1.e+2", "1e3", "1E3", "+1e3", "1.5e-3",
		"0x10", "0o7", "00", "007", "1_000", "12345678901234567890123", "+12345678901234567890123", "-12345678901234567890123", "1.0000000000000000001",
		"+1.0000000000000000001", ".1e1", "1.e0", "0.", "+.0", "-.0e0", "1e+400", "+1e+400", "-1e-400", ".inf", "-.inf", "+.inf", ".nan"}
	wrap := []string{"%s", "[%s]", "{\"a\": %s}", "[%s, %s]", "- %s\n- x"}
	modes := [][]string{{"-c"}, {}, {"--tab"}, {"--indent", "1"}, {"-c", "-C"}, {"-r"}, {"-j"}}
	for _, sp := range spellings {
		for wi, w := range wrap {
			text := strings.ReplaceAll(w, "%s", sp) + "\n"
			for mi, m := range modes {
				if (wi+mi)%2 == 1 && wi > 0 {
					continue
				}
				var out, errb bytes.Buffer
				rc := cli.VerifC12Run(append(append([]string{"--yaml-input"}, m...), "."), strings.NewReader(text), &out, &errb)
				c.Count("yamlnum")
				c.Nlines++
				if rc != 0 {
					continue // a text the YAML reader rejects (or a string, for spellings YAML does not read as numbers) is not this oracle's business
				}
				plain := stripSGR(out.Bytes())
				if !json.Valid(bytes.TrimSpace(plain)) {
					c.Violation("yamlnum %s :: gojq --yaml-input %s . <<< %q writes %q, which is not valid JSON", sp, strings.Join(m, " "), text, out.String())
					break
				}
			}
		}
	}
}

func stripSGR(b []byte) []byte {
	var o []byte
	for i := 0; i < len(b); i++ {
		if b[i] == 0x1b && i+1 < len(b) && b[i+1] == '[' {
			j := i + 2
			for j < len(b) && b[j] != 'm' {
				j++
			}
			i = j
			continue
		}
		o = append(o, b[i])
	}
	return o
}

// sameJSON: equal values (numbers compared as float64 and, when integral, as text)
func sameJSON(a, b []byte) bool {
	var x, y any
	da := json.NewDecoder(bytes.NewReader(a))
	db := json.NewDecoder(bytes.NewReader(b))
	da.UseNumber()
	db.UseNumber()
	if da.Decode(&x) != nil || db.Decode(&y) != nil {
		return false
	}
	return sameVal(x, y)
}

func sameVal(x, y any) bool {
	switch x := x.(type) {
	case json.Number:
		n, ok := y.(json.Number)
		if !ok {
			return false
		}
		if x.String() == n.String() {
			return true
		}
		f, e1 := x.Float64()
		g, e2 := n.Float64()
		return e1 == nil && e2 == nil && f == g
	case []any:
		a, ok := y.([]any)
		if !ok || len(a) != len(x) {
			return false
		}
		for i := range x {
			if !sameVal(x[i], a[i]) {
				return false
			}
		}
		return true
	case map[string]any:
		o, ok := y.(map[string]any)
		if !ok || len(o) != len(x) {
			return false
		}
		for k, v := range x {
			w, ok := o[k]
			if !ok || !sameVal(v, w) {
				return false
			}
		}
		return true
	default:
		return x == y
	}
}

var _ = hex.EncodeToString
