package main

// C18 harness.  Stream c18: lines judged by the extracted model (see coq/c18/Run.v for the line forms)
//   paths    Go's path/filepath (Clean, Join, Base, Dir) on random path strings
//   lookup   random layouts of candidate files under random search-path configurations, in a temp dir
//            outside /repo and /verif (removed after each batch); every candidate file carries a marker with
//            its own path; the implementation's choice is observed through gojq.NewModuleLoader + Compile
//   init     LoadInitModules
//   vis      random module trees (depth <= 3, diamonds, clashes, same name at several arities, data modules,
//            ~/.jq), main query = one probe call, observed through marker outputs
//   meta     modulemeta defs
// and implementation-only oracles (reported as violations): includes textually expanded give the same
// outputs; modulemeta deps as declared.
import (
	"encoding/json"
	"fmt"
	"os"
	"os/exec"
	"path/filepath"
	"sort"
	"strconv"
	"strings"
	. "verifharness/hlib"

	"github.com/itchyny/gojq"
)

func main() { Register("c18", runC18); Main() }

type env struct {
	root string // real temp root
}

// canon replaces the real temp root by /R so that case lines do not depend on the temp dir name
func (e *env) canon(s string) string { return strings.ReplaceAll(s, e.root, "/R") }
func (e *env) real(s string) string {
	if strings.HasPrefix(s, "/R") {
		return e.root + s[2:]
	}
	return s
}
func hx(s string) string { return Hexs([]byte(s)) }
func hxs(tag string, ss []string) string {
	var b strings.Builder
	b.WriteString("(" + tag)
	for _, s := range ss {
		b.WriteString(" " + hx(s))
	}
	b.WriteString(")")
	return b.String()
}
func optHex(tag string, s *string) string {
	if s == nil {
		return "(" + tag + " none)"
	}
	return "(" + tag + " " + hx(*s) + ")"
}

func mustWrite(path, content string) bool {
	if err := os.MkdirAll(filepath.Dir(path), 0o755); err != nil {
		return false
	}
	return os.WriteFile(path, []byte(content), 0o644) == nil
}

func newEnv() *env {
	root, err := os.MkdirTemp("", "c18-")
	if err != nil {
		panic(err)
	}
	root, _ = filepath.EvalSymlinks(root)
	for _, bad := range []string{"/repo", "/verif"} {
		if strings.HasPrefix(root, bad) {
			panic("temp dir inside " + bad)
		}
	}
	return &env{root: root}
}
func (e *env) close() { os.RemoveAll(e.root) }

// ------------------------------------------------------------------------------------------------ paths

func randPath(r *Rng) string {
	parts := []string{"a", "b", "..", ".", "", "m.jq", "x", ".jq", "~", "a.b", "...", "c/d"}
	n := r.Intn(6)
	var s string
	if r.Chance(1, 3) {
		s = "/"
	}
	for i := 0; i < n; i++ {
		s += parts[r.Intn(len(parts))]
		if i < n-1 || r.Chance(1, 4) {
			s += "/"
			if r.Chance(1, 6) {
				s += "/"
			}
		}
	}
	return s
}

func pathLines(c *Ctx, n int) {
	fixed := []string{"", "/", "//", ".", "..", "../..", "/..", "/../a", "a/..", "a/../..", "a/./b/../../c", "a//b", "a/", "a/b/", "/a/b/..",
		"./a", ".jq", "~/.jq", "a/.jq", "x/m", "../m", "/a/../../b", "a/b/../../../c/.."}
	for i := 0; i < n+len(fixed); i++ {
		var p string
		if i < len(fixed) {
			p = fixed[i]
		} else {
			p = randPath(c.Rng)
		}
		c.Emit("(clean %s %s)", hx(p), hx(filepath.Clean(p)))
		c.Emit("(base %s %s)", hx(p), hx(filepath.Base(p)))
		c.Emit("(dir %s %s)", hx(p), hx(filepath.Dir(p)))
		k := 1 + c.Rng.Intn(3)
		es := make([]string, k)
		for j := range es {
			es[j] = randPath(c.Rng)
			if c.Rng.Chance(1, 5) {
				es[j] = ""
			}
		}
		if i < len(fixed) {
			es[0] = p
		}
		c.Emit("(join %s %s)", hxs("", es), hx(filepath.Join(es...)))
		c.Count("paths")
	}
}

// ------------------------------------------------------------------------------------------------ lookup

func runOne(src string, loader gojq.ModuleLoader) (any, error) {
	q, err := gojq.Parse(src)
	if err != nil {
		return nil, fmt.Errorf("parse: %v", err)
	}
	code, err := gojq.Compile(q, gojq.WithModuleLoader(loader))
	if err != nil {
		return nil, err
	}
	it := code.Run(nil)
	v, ok := it.Next()
	if !ok {
		return nil, fmt.Errorf("no output")
	}
	if e, isErr := v.(error); isErr {
		return nil, e
	}
	return v, nil
}

func lookupBatch(c *Ctx, ncases int) {
	e := newEnv()
	defer e.close()
	r := c.Rng
	cwd := filepath.Join(e.root, "w", "cwd")
	home := filepath.Join(e.root, "w", "home")
	os.MkdirAll(cwd, 0o755)
	os.MkdirAll(home, 0o755)
	oldwd, _ := os.Getwd()
	os.Chdir(cwd)
	defer os.Chdir(oldwd)
	oldhome, hadhome := os.LookupEnv("HOME")
	os.Setenv("HOME", home)
	defer func() {
		if hadhome {
			os.Setenv("HOME", oldhome)
		} else {
			os.Unsetenv("HOME")
		}
	}()
	pathPool := []string{"lib1", "./lib2", e.root + "/w/lib3", "~/hl", ".", "", "../lib4", "~/.jq", "lib1/../lib2", "sub/dir", e.root + "/w/cwd/lib1/"}
	namePool := []string{"m", "x/m", "m/m", "../m", "n", "x/../m", "./m"}
	searchPool := []string{"s1", "./s1", "../s2", e.root + "/w/abs", "~/hs", "", ".", "lib1", "..", "s1/"}
	tops := filepath.Join(e.root, "w", "tops")
	for i := 0; i < ncases; i++ {
		// fresh layout
		os.RemoveAll(filepath.Join(e.root, "w"))
		os.MkdirAll(cwd, 0o755)
		os.MkdirAll(home, 0o755)
		os.Chdir(cwd) // the old working directory was just removed
		np := r.Intn(4)
		var paths []string
		for j := 0; j < np; j++ {
			paths = append(paths, pathPool[r.Intn(len(pathPool))])
		}
		name := namePool[r.Intn(len(namePool))]
		data := r.Chance(1, 4)
		ext := ".jq"
		if data {
			ext = ".json"
		}
		var search *string
		if r.Chance(1, 2) {
			s := searchPool[r.Intn(len(searchPool))]
			search = &s
		}
		var importer *string
		if search != nil && r.Chance(1, 2) {
			// the import is written inside a module file; top.jq lives in one of a few directories
			d := []string{tops, filepath.Join(cwd, "lib1"), filepath.Join(home, "deep", "er")}[r.Intn(3)]
			p := filepath.Join(d, "top.jq")
			importer = &p
		}
		loaderPaths := append([]string{}, paths...)
		if importer != nil {
			loaderPaths = append(loaderPaths, filepath.Dir(*importer))
		}
		// candidate locations: every base the lookup could try, plus decoys
		bases := []string{}
		for _, p := range loaderPaths {
			switch {
			case p == "":
			case filepath.IsAbs(p):
				bases = append(bases, p)
			case strings.HasPrefix(p, "~/"):
				bases = append(bases, filepath.Join(home, p[2:]))
			default:
				bases = append(bases, filepath.Join(cwd, p))
			}
		}
		if search != nil {
			s := *search
			switch {
			case filepath.IsAbs(s):
				bases = append(bases, s)
			case strings.HasPrefix(s, "~/"):
				bases = append(bases, filepath.Join(home, s[2:]))
			default:
				bases = append(bases, filepath.Join(cwd, s))
				if importer != nil {
					bases = append(bases, filepath.Join(filepath.Dir(*importer), s))
				}
			}
		}
		exists := map[string]bool{}
		dirs := map[string]bool{}
		for _, b := range bases {
			for _, cand := range []string{filepath.Join(b, name+ext), filepath.Join(b, name, filepath.Base(name)+ext)} {
				if !strings.HasPrefix(cand, e.root+"/w/") {
					continue
				}
				if exists[cand] || dirs[cand] {
					continue
				}
				switch k := r.Intn(10); {
				case k < 4:
					marker := e.canon(cand)
					if data {
						mustWrite(cand, strconv.Quote(marker)+"\n")
					} else {
						mustWrite(cand, "def marker: "+strconv.Quote(marker)+";\n")
					}
					exists[cand] = true
				case k == 4: // a directory with the candidate's name "exists" too
					os.MkdirAll(cand, 0o755)
				}
			}
		}
		if importer != nil {
			alias := "s"
			body := "def sub: s::marker;"
			if data {
				alias = "$s"
				body = "def sub: $s[0];"
			}
			mustWrite(*importer, fmt.Sprintf("import %q as %s {search: %q};\n%s\n", name, alias, *search, body))
			exists[*importer] = true
		}
		// everything that exists (files and directories) under the root
		var exList, dirList []string
		filepath.Walk(e.root, func(p string, info os.FileInfo, err error) error {
			if err != nil {
				return nil
			}
			if info.IsDir() {
				dirList = append(dirList, e.canon(p))
			} else {
				exList = append(exList, e.canon(p))
			}
			return nil
		})
		dirList = append(dirList, "/")
		sort.Strings(exList)
		sort.Strings(dirList)
		loader := gojq.NewModuleLoader(loaderPaths)
		var src string
		switch {
		case importer != nil:
			src = `import "top" as t; t::sub`
		case data && search != nil:
			src = fmt.Sprintf(`import %q as $d {search: %q}; $d[0]`, name, *search)
		case data:
			src = fmt.Sprintf(`import %q as $d; $d[0]`, name)
		case search != nil:
			src = fmt.Sprintf(`import %q as m {search: %q}; m::marker`, name, *search)
		default:
			src = fmt.Sprintf(`import %q as m; m::marker`, name)
		}
		v, err := runOne(src, loader)
		res := ""
		switch {
		case err == nil:
			s, ok := v.(string)
			if !ok {
				c.Violation("lookup: %s returned %v", src, v)
				continue
			}
			res = hx(s)
		case strings.HasPrefix(err.Error(), "module not found"):
			res = "none"
		case strings.HasSuffix(err.Error(), ": is a directory"):
			// the chosen candidate is a directory: "read <path>: is a directory"
			p := strings.TrimSuffix(strings.TrimPrefix(err.Error(), "read "), ": is a directory")
			if !filepath.IsAbs(p) {
				p = filepath.Join(cwd, p)
			}
			res = hx(e.canon(p))
		default:
			res = "(err " + hx(e.canon(err.Error())) + ")"
		}
		canonPaths := make([]string, len(loaderPaths))
		for j, p := range loaderPaths {
			canonPaths[j] = e.canon(p)
		}
		var cs, ci *string
		if search != nil {
			s := e.canon(*search)
			cs = &s
		}
		if importer != nil {
			s := e.canon(*importer)
			ci = &s
		}
		hm := e.canon(home)
		c.Emit("(lookup %s %s %s %s %s %s %s %s %s %s)", hxs("paths", canonPaths), optHex("search", cs), optHex("importer", ci),
			hx(name), hx(ext), optHex("home", &hm), hxs("cwd", []string{e.canon(cwd)}), hxs("exists", exList), hxs("dirs", dirList), res)
		if res == "none" {
			c.Count("lookup:none")
		} else {
			c.Count("lookup:found")
		}
	}
	// LoadInitModules
	for i := 0; i < ncases/4+1; i++ {
		os.RemoveAll(filepath.Join(e.root, "w"))
		os.MkdirAll(cwd, 0o755)
		os.MkdirAll(home, 0o755)
		os.Chdir(cwd)
		pool := []string{"~/.jq", "lib1/.jq", "lib1", e.root + "/w/abs/.jq", ".jq", "~/x/.jq", ""}
		np := 1 + r.Intn(4)
		var paths []string
		for j := 0; j < np; j++ {
			paths = append(paths, pool[r.Intn(len(pool))])
		}
		for _, p := range []string{filepath.Join(home, ".jq"), filepath.Join(cwd, "lib1", ".jq"), filepath.Join(e.root, "w", "abs", ".jq"), filepath.Join(cwd, ".jq"), filepath.Join(home, "x", ".jq")} {
			switch r.Intn(3) {
			case 0:
				mustWrite(p, "def marker: "+strconv.Quote(e.canon(p))+";\n")
			case 1:
				os.MkdirAll(p, 0o755)
			}
		}
		var exList, dirList []string
		filepath.Walk(e.root, func(p string, info os.FileInfo, err error) error {
			if err != nil {
				return nil
			}
			if info.IsDir() {
				dirList = append(dirList, e.canon(p))
			} else {
				exList = append(exList, e.canon(p))
			}
			return nil
		})
		loader := gojq.NewModuleLoader(paths)
		qs, err := loader.(interface {
			LoadInitModules() ([]*gojq.Query, error)
		}).LoadInitModules()
		if err != nil {
			c.Violation("LoadInitModules(%q): %v", paths, err)
			continue
		}
		var impl []string
		for _, q := range qs {
			if len(q.FuncDefs) == 1 && q.FuncDefs[0].Body != nil && q.FuncDefs[0].Body.Term != nil && q.FuncDefs[0].Body.Term.Str != nil {
				impl = append(impl, q.FuncDefs[0].Body.Term.Str.Str)
			} else {
				impl = append(impl, "?")
			}
		}
		canonPaths := make([]string, len(paths))
		for j, p := range paths {
			canonPaths[j] = e.canon(p)
		}
		hm := e.canon(home)
		c.Emit("(init %s %s %s %s %s %s)", hxs("paths", canonPaths), optHex("home", &hm), hxs("cwd", []string{e.canon(cwd)}),
			hxs("exists", exList), hxs("dirs", dirList), hxs("impl", impl))
		c.Count("init")
	}
}

// ------------------------------------------------------------------------------------------------ module trees

type call struct {
	isVar bool
	q     int // -1 = none
	name  int
	ar    int
	alias int
	qual  bool
}
type def struct {
	name, ar, id int
	calls        []call
}
type imp struct {
	kind  int // 0 include, 1 import as, 2 data
	alias int
	file  int // module file index or data file index
}
type mfile struct {
	imps []imp
	defs []def
}

func (cl call) sexp() string {
	if cl.isVar {
		q := 0
		if cl.qual {
			q = 1
		}
		return fmt.Sprintf("(v %d %d)", cl.alias, q)
	}
	if cl.q < 0 {
		return fmt.Sprintf("(f - %d %d)", cl.name, cl.ar)
	}
	return fmt.Sprintf("(f %d %d %d)", cl.q, cl.name, cl.ar)
}
func (cl call) jq() string {
	if cl.isVar {
		if cl.qual {
			return fmt.Sprintf("$d%d::d%d", cl.alias, cl.alias)
		}
		return fmt.Sprintf("$d%d", cl.alias)
	}
	s := fmt.Sprintf("f%d", cl.name)
	if cl.q >= 0 {
		s = fmt.Sprintf("m%d::%s", cl.q, s)
	}
	if cl.ar > 0 {
		s += "(" + strings.TrimSuffix(strings.Repeat("0;", cl.ar), ";") + ")"
	}
	return s
}

// site expression: what a call site contributes to its definition's second output
func siteExpr(cl call, self bool) string {
	switch {
	case cl.isVar:
		return "{v: " + cl.jq() + "[0]}"
	case self:
		return "[first(" + cl.jq() + ")]"
	default:
		return "[limit(2; " + cl.jq() + ")]"
	}
}

func (d def) jq() string {
	s := fmt.Sprintf("def f%d", d.name)
	if d.ar > 0 {
		ps := make([]string, d.ar)
		for i := range ps {
			ps[i] = "p" + strconv.Itoa(i)
		}
		s += "(" + strings.Join(ps, "; ") + ")"
	}
	sites := make([]string, len(d.calls))
	for i, cl := range d.calls {
		self := !cl.isVar && cl.q < 0 && cl.name == d.name && cl.ar == d.ar
		sites[i] = siteExpr(cl, self)
	}
	return s + fmt.Sprintf(": %d, [%s];", d.id, strings.Join(sites, ", "))
}

type forest struct {
	files []mfile // index 0 = main program
	init  *mfile  // ~/.jq
}

func (f *forest) fileText(m *mfile, importsOnly bool) string {
	var b strings.Builder
	for _, im := range m.imps {
		switch im.kind {
		case 0:
			fmt.Fprintf(&b, "include \"f%d\";\n", im.file)
		case 1:
			fmt.Fprintf(&b, "import \"f%d\" as m%d;\n", im.file, im.alias)
		case 2:
			fmt.Fprintf(&b, "import \"d%d\" as $d%d;\n", im.file, im.alias)
		}
	}
	if !importsOnly {
		for _, d := range m.defs {
			b.WriteString(d.jq() + "\n")
		}
	}
	return b.String()
}

func (f *forest) sexp(m *mfile) string {
	var b strings.Builder
	b.WriteString("(m (imps")
	if m == &f.files[0] && f.init != nil {
		b.WriteString(" (inc " + f.sexp(f.init) + ")")
	}
	for _, im := range m.imps {
		switch im.kind {
		case 0:
			b.WriteString(" (inc " + f.sexp(&f.files[im.file]) + ")")
		case 1:
			fmt.Fprintf(&b, " (imp %d %s)", im.alias, f.sexp(&f.files[im.file]))
		case 2:
			fmt.Fprintf(&b, " (data %d %d)", im.alias, 9000+im.file)
		}
	}
	b.WriteString(") (defs")
	for _, d := range m.defs {
		fmt.Fprintf(&b, " (d %d %d %d", d.name, d.ar, d.id)
		for _, cl := range d.calls {
			b.WriteString(" " + cl.sexp())
		}
		b.WriteString(")")
	}
	b.WriteString("))")
	return b.String()
}

type nm struct{ q, name, ar int }

// what a file's text brings (harness-side approximation used only to AIM calls at visible names)
func (f *forest) topDefs(i int, m *mfile) []nm {
	var out []nm
	for _, im := range m.imps {
		if im.kind == 0 {
			out = append(out, f.topDefs(im.file, &f.files[im.file])...)
		}
	}
	for _, d := range m.defs {
		out = append(out, nm{-1, d.name, d.ar})
	}
	return out
}
func (f *forest) qualified(m *mfile) []nm {
	var out []nm
	for _, im := range m.imps {
		switch im.kind {
		case 0:
			out = append(out, f.qualified(&f.files[im.file])...)
		case 1:
			for _, t := range f.topDefs(im.file, &f.files[im.file]) {
				out = append(out, nm{im.alias, t.name, t.ar})
			}
		}
	}
	return out
}
func (f *forest) dataAliases(m *mfile, own bool) []int {
	var out []int
	for _, im := range m.imps {
		switch im.kind {
		case 2:
			out = append(out, im.alias)
		case 0:
			if !own {
				out = append(out, f.dataAliases(&f.files[im.file], false)...)
			}
		}
	}
	return out
}

func randomCall(r *Rng) call {
	if r.Chance(1, 5) {
		return call{isVar: true, alias: r.Intn(2), qual: r.Chance(1, 3)}
	}
	return call{q: r.Intn(4) - 1, name: r.Intn(3), ar: r.Intn(3)}
}

// genForest: files 1..k, imports only to higher indices, depth <= 3 below main
func genForest(r *Rng, allowRandomInner bool) (*forest, bool, bool) {
	k := 2 + r.Intn(5)
	f := &forest{files: make([]mfile, k+1)}
	depth := make([]int, k+1)
	hasRandom, incData := false, false
	randomInnerAt := -1
	if allowRandomInner && r.Chance(3, 10) {
		randomInnerAt = 1 + r.Intn(k)
	}
	for i := k; i >= 0; i-- {
		m := &f.files[i]
		ni := r.Intn(4)
		if i == 0 {
			ni = 1 + r.Intn(3)
		}
		usedData := map[int]bool{}
		for j := 0; j < ni && i < k; j++ {
			kind := []int{0, 0, 0, 1, 1, 1, 1, 1, 2, 2}[r.Intn(10)]
			if kind == 2 {
				a := r.Intn(2)
				if usedData[a] {
					continue // two data imports under one alias in one file: outside the modelled domain
				}
				usedData[a] = true
				m.imps = append(m.imps, imp{kind: 2, alias: a, file: r.Intn(3)})
				continue
			}
			t := i + 1 + r.Intn(k-i)
			if i != 0 && depth[t] >= 2 { // module files at depth <= 3 below the main program
				continue
			}
			m.imps = append(m.imps, imp{kind: kind, alias: r.Intn(3), file: t})
			if 1+depth[t] > depth[i] {
				depth[i] = 1 + depth[t]
			}
		}
		nd := 1 + r.Intn(3)
		if i == 0 {
			nd = r.Intn(3)
		}
		for j := 0; j < nd; j++ {
			d := def{name: r.Intn(3), ar: r.Intn(3), id: i*100 + j + 1}
			m.defs = append(m.defs, d)
		}
		// calls aimed at names visible by the lexical reading
		quals := f.qualified(m)
		incl := []nm{}
		for _, im := range m.imps {
			if im.kind == 0 {
				incl = append(incl, f.topDefs(im.file, &f.files[im.file])...)
				if len(f.dataAliases(&f.files[im.file], false)) > 0 {
					incData = true
				}
			}
		}
		ownData := f.dataAliases(m, true)
		for j := range m.defs {
			nc := r.Intn(3)
			for c := 0; c < nc; c++ {
				cands := append([]nm{}, quals...)
				cands = append(cands, incl...)
				for jj := 0; jj <= j; jj++ {
					cands = append(cands, nm{-1, m.defs[jj].name, m.defs[jj].ar})
				}
				switch {
				case i == randomInnerAt && !hasRandom && r.Chance(1, 2):
					m.defs[j].calls = append(m.defs[j].calls, randomCall(r))
					hasRandom = true
				case len(ownData) > 0 && r.Chance(1, 5):
					m.defs[j].calls = append(m.defs[j].calls, call{isVar: true, alias: ownData[r.Intn(len(ownData))], qual: r.Chance(1, 3)})
				default:
					t := cands[r.Intn(len(cands))]
					m.defs[j].calls = append(m.defs[j].calls, call{q: t.q, name: t.name, ar: t.ar})
				}
			}
		}
	}
	if r.Chance(1, 4) {
		f.init = &mfile{defs: []def{{name: r.Intn(3), ar: r.Intn(2), id: 8001}, {name: 2, ar: 0, id: 8002}}}
	}
	return f, hasRandom, incData
}

// expandIncludes: the file with every include replaced by the included file's imports (in place) and
// definitions (before the file's own definitions), recursively
func (f *forest) expanded(m *mfile) mfile {
	var out mfile
	for _, im := range m.imps {
		if im.kind == 0 {
			x := f.expanded(&f.files[im.file])
			out.imps = append(out.imps, x.imps...)
			out.defs = append(out.defs, x.defs...)
		} else {
			out.imps = append(out.imps, im)
		}
	}
	out.defs = append(out.defs, m.defs...)
	return out
}

// hoistSafe: replacing includes by the included text moves the included definitions behind the file's later
// imports (imports must precede definitions); that is only the same program when no alias occurs twice
func hoistSafe(m mfile) bool {
	seen := map[[2]int]bool{}
	for _, im := range m.imps {
		k := [2]int{im.kind, im.alias}
		if seen[k] {
			return false
		}
		seen[k] = true
	}
	return true
}

func descOf(v any, self bool) string {
	switch x := v.(type) {
	case map[string]any:
		switch id := x["v"].(type) {
		case int:
			return fmt.Sprintf("(var %d)", id)
		case json.Number:
			return "(var " + id.String() + ")"
		}
	case []any:
		if len(x) == 1 {
			if id, ok := x[0].(int); ok {
				return fmt.Sprintf("(self %d)", id)
			}
		}
		if len(x) == 2 {
			id, ok1 := x[0].(int)
			sites, ok2 := x[1].([]any)
			if ok1 && ok2 {
				var b strings.Builder
				fmt.Fprintf(&b, "(fun %d", id)
				for _, s := range sites {
					b.WriteString(" " + descOf(s, false))
				}
				b.WriteString(")")
				return b.String()
			}
		}
	}
	return "(odd " + hx(fmt.Sprint(v)) + ")"
}

func render(v any, err error) string {
	if err != nil {
		return "E:" + err.Error()
	}
	b, _ := gojq.Marshal(v)
	return string(b)
}

func visBatch(c *Ctx, ntrees int) {
	e := newEnv()
	defer e.close()
	r := c.Rng
	home := filepath.Join(e.root, "home")
	oldhome, hadhome := os.LookupEnv("HOME")
	os.Setenv("HOME", home)
	defer func() {
		if hadhome {
			os.Setenv("HOME", oldhome)
		} else {
			os.Unsetenv("HOME")
		}
	}()
	for t := 0; t < ntrees; t++ {
		var f *forest
		hasRandom, incData := false, false
		fixed := fixedForests()
		if t < len(fixed) {
			f = fixed[t]
			hasRandom, incData = true, true
		} else {
			f, hasRandom, incData = genForest(r, true)
		}
		lib := filepath.Join(e.root, fmt.Sprintf("t%d", t), "lib")
		xlib := filepath.Join(e.root, fmt.Sprintf("t%d", t), "xlib")
		os.RemoveAll(home)
		for i := 1; i < len(f.files); i++ {
			text := f.fileText(&f.files[i], false)
			p := filepath.Join(lib, fmt.Sprintf("f%d.jq", i))
			if r.Chance(1, 3) {
				p = filepath.Join(lib, fmt.Sprintf("f%d", i), fmt.Sprintf("f%d.jq", i))
			}
			mustWrite(p, text)
			x := f.expanded(&f.files[i])
			mustWrite(filepath.Join(xlib, fmt.Sprintf("f%d.jq", i)), f.fileText(&x, false))
		}
		for d := 0; d < 3; d++ {
			mustWrite(filepath.Join(lib, fmt.Sprintf("d%d.json", d)), fmt.Sprintf("%d\n", 9000+d))
			mustWrite(filepath.Join(xlib, fmt.Sprintf("d%d.json", d)), fmt.Sprintf("%d\n", 9000+d))
		}
		paths := []string{lib}
		xpaths := []string{xlib}
		if f.init != nil {
			mustWrite(filepath.Join(home, ".jq"), f.fileText(f.init, false))
			paths = []string{"~/.jq", lib}
			xpaths = []string{"~/.jq", xlib}
		}
		loader := gojq.NewModuleLoader(paths)
		xloader := gojq.NewModuleLoader(xpaths)
		tree := f.sexp(&f.files[0])
		mainText := f.fileText(&f.files[0], false)
		xm := f.expanded(&f.files[0])
		xmainText := f.fileText(&xm, false)
		safe := hoistSafe(xm)
		for i := 1; i < len(f.files); i++ {
			safe = safe && hoistSafe(f.expanded(&f.files[i]))
		}
		// probes: every name visible at the main level, plus random ones
		var probes []call
		for _, n := range f.qualified(&f.files[0]) {
			probes = append(probes, call{q: n.q, name: n.name, ar: n.ar})
		}
		for _, n := range f.topDefs(0, &f.files[0]) {
			probes = append(probes, call{q: -1, name: n.name, ar: n.ar})
		}
		if f.init != nil {
			for _, d := range f.init.defs {
				probes = append(probes, call{q: -1, name: d.name, ar: d.ar})
			}
		}
		for _, a := range f.dataAliases(&f.files[0], false) {
			probes = append(probes, call{isVar: true, alias: a}, call{isVar: true, alias: a, qual: true})
		}
		for i := 0; i < 6; i++ {
			probes = append(probes, randomCall(r))
		}
		seen := map[string]bool{}
		for _, p := range probes {
			if seen[p.sexp()] {
				continue
			}
			seen[p.sexp()] = true
			src := mainText + siteExpr(p, false)
			v, err := runOne(src, loader)
			impl := ""
			switch {
			case err == nil:
				impl = descOf(v, false)
			case strings.HasPrefix(err.Error(), "function not defined: ") || strings.HasPrefix(err.Error(), "variable not defined: "):
				impl = "cerr"
			default:
				impl = "(err " + hx(e.canon(err.Error())) + ")"
			}
			c.Emit("(vis %s %s %s)", tree, p.sexp(), impl)
			c.Count("vis:" + strings.SplitN(strings.Trim(impl, "()"), " ", 2)[0])
			// implementation-only: includes textually expanded give the same result (only on trees where no
			// call is aimed at a possibly invisible name and no included file has data imports)
			if safe && !hasRandom && !incData && impl != "cerr" {
				xv, xerr := runOne(xmainText+siteExpr(p, false), xloader)
				if a, b := render(v, err), render(xv, xerr); a != b {
					c.Violation("include-expansion: main program %q with probe %s gives %s, but %s when every include is replaced by the included text [tree %s]",
						mainText, p.jq(), a, b, tree)
				}
				c.Count("include-expansion")
			}
		}
		os.RemoveAll(filepath.Join(e.root, fmt.Sprintf("t%d", t)))
	}
}

// canonical reproducers of the families found on the unchanged tree (always first, fixed text)
func fixedForests() []*forest {
	// 1. importer's earlier import visible inside a later imported module
	f1 := &forest{files: []mfile{
		{imps: []imp{{1, 0, 1}, {1, 1, 2}}},
		{defs: []def{{name: 0, ar: 0, id: 101}}},
		{defs: []def{{name: 1, ar: 0, id: 201, calls: []call{{q: 0, name: 0, ar: 0}}}}},
	}}
	// 2. importer's data variable visible inside an imported module
	f2 := &forest{files: []mfile{
		{imps: []imp{{2, 0, 0}, {1, 1, 1}}},
		{defs: []def{{name: 1, ar: 0, id: 101, calls: []call{{isVar: true, alias: 0}}}}},
	}}
	// 3. data import of an included module is not visible after the include
	f3 := &forest{files: []mfile{
		{imps: []imp{{0, 0, 1}}},
		{imps: []imp{{2, 0, 0}}, defs: []def{{name: 0, ar: 0, id: 101}}},
	}}
	return []*forest{f1, f2, f3}
}

// ------------------------------------------------------------------------------------------------ modulemeta

func metaBatch(c *Ctx, n int) {
	e := newEnv()
	defer e.close()
	r := c.Rng
	lib := filepath.Join(e.root, "lib")
	names := []string{"f", "g", "_h", "a", "ab", "a_", "B", "z9", "_", "f2", "aa", "f1", "f_", "f10"}
	arities := []int{0, 1, 2, 9, 10, 11, 30}
	for i := 0; i < n+3; i++ {
		nd := r.Intn(7)
		// fixed shapes first: one name at arities with different digit counts, names that are prefixes of each other
		var fixedDefs [][2]any
		switch i {
		case 0:
			fixedDefs = [][2]any{{"f", 10}, {"f", 2}, {"f", 30}, {"f", 9}, {"f", 0}, {"f", 11}, {"f", 1}}
		case 1:
			fixedDefs = [][2]any{{"f_", 0}, {"f1", 10}, {"f", 11}, {"f1", 2}, {"f", 2}, {"f10", 1}, {"f_", 10}, {"_f", 1}}
		case 2:
			fixedDefs = [][2]any{{"f", 30}, {"f", 3}, {"f2", 0}, {"f", 29}, {"f", 2}, {"f", 20}, {"f", 19}, {"f", 1}, {"f", 10}}
		}
		if fixedDefs != nil {
			nd = len(fixedDefs)
		}
		var text, defs strings.Builder
		ni := r.Intn(4)
		type dep struct {
			relpath, as string
			data    bool
			hasAs   bool
		}
		var deps []dep
		for j := 0; j < ni; j++ {
			switch r.Intn(3) {
			case 0:
				fmt.Fprintf(&text, "include \"x%d\";\n", j)
				deps = append(deps, dep{relpath: fmt.Sprintf("x%d", j)})
			case 1:
				fmt.Fprintf(&text, "import \"x%d\" as y%d;\n", j, j)
				deps = append(deps, dep{relpath: fmt.Sprintf("x%d", j), as: fmt.Sprintf("y%d", j), hasAs: true})
			default:
				fmt.Fprintf(&text, "import \"x%d\" as $y%d;\n", j, j)
				deps = append(deps, dep{relpath: fmt.Sprintf("x%d", j), as: fmt.Sprintf("y%d", j), hasAs: true, data: true})
			}
		}
		defs.WriteString("(defs")
		for j := 0; j < nd; j++ {
			nmm := names[r.Intn(len(names))]
			ar := r.Intn(3)
			if r.Chance(1, 2) {
				ar = arities[r.Intn(len(arities))]
			}
			if fixedDefs != nil {
				nmm, ar = fixedDefs[j][0].(string), fixedDefs[j][1].(int)
			}
			ps := make([]string, ar)
			for k := range ps {
				ps[k] = "p" + strconv.Itoa(k)
			}
			if ar > 0 {
				fmt.Fprintf(&text, "def %s(%s): .;\n", nmm, strings.Join(ps, "; "))
			} else {
				fmt.Fprintf(&text, "def %s: .;\n", nmm)
			}
			fmt.Fprintf(&defs, " (%s %d)", hx(nmm), ar)
		}
		defs.WriteString(")")
		mustWrite(filepath.Join(lib, "mm.jq"), text.String())
		v, err := runOne(`"mm" | modulemeta`, gojq.NewModuleLoader([]string{lib}))
		if err != nil {
			c.Violation("modulemeta of %q: %v", text.String(), err)
			continue
		}
		m, _ := v.(map[string]any)
		var impl strings.Builder
		impl.WriteString("(impl")
		if ds, ok := m["defs"].([]any); ok {
			for _, d := range ds {
				s, _ := d.(string)
				k := strings.LastIndex(s, "/")
				if k < 0 {
					impl.WriteString(" (odd 0)")
					continue
				}
				fmt.Fprintf(&impl, " (%s %s)", hx(s[:k]), s[k+1:])
			}
		}
		impl.WriteString(")")
		c.Emit("(meta %s %s)", defs.String(), impl.String())
		c.Count("meta")
		// deps as declared, in order (implementation-only)
		ds, _ := m["deps"].([]any)
		ok := len(ds) == len(deps)
		for j := 0; ok && j < len(deps); j++ {
			d, _ := ds[j].(map[string]any)
			as, hasAs := d["as"].(string)
			ok = d["relpath"] == deps[j].relpath && d["is_data"] == deps[j].data && hasAs == deps[j].hasAs && as == deps[j].as
		}
		if !ok {
			c.Violation("modulemeta deps of %q: %v", text.String(), m["deps"])
		}
	}
}

// ------------------------------------------------------------------------------------------------ cli defaults

// cliChecks runs the command built from cmd/gojq (cli/cli.go: default module paths "~/.jq",
// "$ORIGIN/../lib/gojq", "$ORIGIN/../lib" when no -L is given) in a temp layout; implementation-only.
func cliChecks(c *Ctx, bin string) {
	e := newEnv()
	defer e.close()
	home := filepath.Join(e.root, "home")
	exe := filepath.Join(e.root, "prefix", "bin", "gojq")
	data, err := os.ReadFile(bin)
	if err != nil {
		c.Violation("harness: cannot read %s: %v", bin, err)
		return
	}
	os.MkdirAll(filepath.Dir(exe), 0o755)
	if err := os.WriteFile(exe, data, 0o755); err != nil {
		c.Violation("harness: cannot install the gojq binary: %v", err)
		return
	}
	marker := func(p string) { mustWrite(p, "def marker: "+strconv.Quote(e.canon(p))+";\n") }
	run := func(args ...string) string {
		cmd := exec.Command(exe, args...)
		cmd.Env = []string{"HOME=" + home, "PATH=/usr/bin:/bin"}
		cmd.Dir = e.root
		out, _ := cmd.CombinedOutput()
		return strings.TrimSpace(e.canon(string(out)))
	}
	expect := func(what, got, want string) {
		c.Nlines++
		c.Count("cli")
		if got != want {
			c.Violation("cli: %s: got %q, expected %q", what, got, want)
		}
	}
	// 1. ~/.jq is a FILE: auto-included
	mustWrite(filepath.Join(home, ".jq"), "def cf: \"init\";\n")
	marker(filepath.Join(e.root, "prefix", "lib", "gojq", "o.jq"))
	marker(filepath.Join(e.root, "prefix", "lib", "o.jq"))
	marker(filepath.Join(e.root, "prefix", "lib", "o2.jq"))
	marker(filepath.Join(e.root, "other", "o.jq"))
	expect("~/.jq file is auto-included", run("-n", "cf"), `"init"`)
	expect("$ORIGIN/../lib/gojq is searched before $ORIGIN/../lib", run("-n", `import "o" as o; o::marker`), `"/R/prefix/lib/gojq/o.jq"`)
	expect("$ORIGIN/../lib is searched", run("-n", `import "o2" as o; o::marker`), `"/R/prefix/lib/o2.jq"`)
	expect("with -L the default paths are not used (no ~/.jq include)", run("-L", filepath.Join(e.root, "other"), "-n", `import "o" as o; o::marker`), `"/R/other/o.jq"`)
	if got := run("-L", filepath.Join(e.root, "other"), "-n", "cf"); !strings.Contains(got, "function not defined: cf/0") {
		c.Violation("cli: with -L the ~/.jq file must not be included: got %q", got)
	}
	// 2. ~/.jq is a DIRECTORY: a search path, tried before the $ORIGIN paths
	os.Remove(filepath.Join(home, ".jq"))
	marker(filepath.Join(home, ".jq", "o.jq"))
	marker(filepath.Join(home, ".jq", "p", "p.jq"))
	expect("~/.jq directory is the first search path", run("-n", `import "o" as o; o::marker`), `"/R/home/.jq/o.jq"`)
	expect("name/name.jq inside ~/.jq", run("-n", `import "p" as p; p::marker`), `"/R/home/.jq/p/p.jq"`)
	if got := run("-n", "cf"); !strings.Contains(got, "function not defined: cf/0") {
		c.Violation("cli: a ~/.jq directory must not be included as a file: got %q", got)
	}
	// 3. a relative search in the main program is relative to the working directory
	marker(filepath.Join(e.root, "rel", "q.jq"))
	expect("search in the main program", run("-n", `import "q" as q {search: "./rel"}; q::marker`), `"/R/rel/q.jq"`)
}

// loaderHistory: ONE loader resolves SEVERAL imports, one after the other, some with `search` metadata: a resolution must
// not depend on what the loader resolved before (the loader's own path list is read-only state).  The path list given to
// NewModuleLoader contains ignored entries (empty strings) at every position, so that the filtered list has spare capacity
// (seeded change C18-r8a prepended the search directory IN PLACE).  Expectations are known by construction (every file's
// marker names its own directory); implementation-only oracle, canonical case text "loader-history <paths> <program>".
func loaderHistory(c *Ctx) {
	e := newEnv()
	defer e.close()
	A, B, S := filepath.Join(e.root, "A"), filepath.Join(e.root, "B"), filepath.Join(e.root, "S")
	for _, d := range []string{A, B, S} {
		os.MkdirAll(d, 0o755)
	}
	mustWrite(filepath.Join(S, "s.jq"), `def marker: "S/s";`)
	mustWrite(filepath.Join(S, "b.jq"), `def marker: "S/b";`)
	mustWrite(filepath.Join(S, "d.json"), `"S/d"`)
	mustWrite(filepath.Join(B, "b.jq"), `def marker: "B/b";`)
	mustWrite(filepath.Join(B, "d.json"), `"B/d"`)
	mustWrite(filepath.Join(B, "t.jq"), fmt.Sprintf("import \"s\" as s {search: %q};\nimport \"b\" as b;\ndef marker: [s::marker, b::marker];", S))
	mustWrite(filepath.Join(A, "a.jq"), `def marker: "A/a";`)
	pathLists := [][]string{{"", A, B}, {A, "", B}, {A, B, ""}, {"", "", A, B}, {A, B}, {"", B}, {B, "", ""}}
	type prog struct{ src, want string }
	progs := []prog{
		{fmt.Sprintf(`import "s" as s {search: %q}; import "b" as b; [s::marker, b::marker]`, S), `["S/s","B/b"]`},
		{fmt.Sprintf(`import "b" as b; import "s" as s {search: %q}; [s::marker, b::marker]`, S), `["S/s","B/b"]`},
		{fmt.Sprintf(`import "s" as s {search: %q}; import "d" as $d; [s::marker, $d[0]]`, S), `["S/s","B/d"]`},
		{fmt.Sprintf(`import "d" as $d {search: %q}; import "b" as b; [$d[0], b::marker]`, S), `["S/d","B/b"]`},
		{fmt.Sprintf(`include "s" {search: %q}; import "b" as b; [marker, b::marker]`, S), `["S/s","B/b"]`},
		{`import "t" as t; import "b" as b; [t::marker, b::marker]`, `[["S/s","B/b"],"B/b"]`},
		{`import "b" as b; b::marker`, `"B/b"`},
	}
	for _, pl := range pathLists {
		loader := gojq.NewModuleLoader(pl)
		// the same loader for the whole sequence, and each program twice
		for round := 0; round < 2; round++ {
			for _, p := range progs {
				v, err := runOne(p.src, loader)
				got := render(v, err)
				c.Count("loader-history")
				if got != p.want {
					c.Violation("loader-history paths=%q program=%s :: got %s, expected %s (one loader resolving several imports; round %d)", canonList(e, pl), strings.ReplaceAll(p.src, e.root, "/R"), got, p.want, round)
				}
			}
		}
	}
}

func canonList(e *env, ps []string) []string {
	out := make([]string, len(ps))
	for i, p := range ps {
		out[i] = e.canon(p)
	}
	return out
}

func runC18(c *Ctx) {
	for _, a := range c.Args {
		if strings.HasPrefix(a, "gojq=") {
			cliChecks(c, strings.TrimPrefix(a, "gojq="))
		}
	}
	pathLines(c, 5*c.N)
	loaderHistory(c)
	lookupBatch(c, 3*c.N)
	visBatch(c, c.N)
	metaBatch(c, c.N)
}
