package main

import (
	"fmt"

	"github.com/itchyny/gojq"
)

func main() {
	for _, src := range []string{"1\x00+++", ".a\x00]]]", "\x00", "1 \x00", "\"a\x00b\"", "1 # c \x00 \n + 2"} {
		q, err := gojq.Parse(src)
		fmt.Printf("%q => %v %v\n", src, q, err)
	}
}
