package main

import (
	"fmt"
	"os"

	"github.com/itchyny/gojq"
)

func main() {
	for _, src := range os.Args[1:] {
		q, err := gojq.Parse(src)
		if err != nil {
			fmt.Println("parse", err)
			continue
		}
		c, err := gojq.Compile(q)
		if err != nil {
			fmt.Println("compile", err)
			continue
		}
		func() {
			defer func() {
				if r := recover(); r != nil {
					fmt.Println("  PANIC", r)
				}
			}()
			it := c.Run(nil)
			for i := 0; i < 6; i++ {
				v, ok := it.Next()
				fmt.Printf("  %q next %d: %v %v\n", src, i, v, ok)
			}
		}()
	}
}
