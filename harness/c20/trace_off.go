//go:build !gojq_debug

package main

const traceEnabled = false

func traceLast() (pc int, bt bool) { return -1, false }
