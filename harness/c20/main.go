// C20 harness.
//
// Stream "fp": for every iteration form (program template with the loop count $n) the PEAK VM
// footprint over every instruction of a run that consumes n outputs / performs n loop turns, and the
// same for 8n.  The probe is a context.Context that is never cancelled: its Done() is polled once per
// VM instruction and samples gojq.VerifFootprint of the live iterator.  One line per (program, n):
//
//	(fp <prog-hex> <n> <mode> (a <forks> <stack> <scopes> <paths> <values> <sdepth> <cdepth> <pdepth> <offset>) (b ...) (end ...))
//
// a = peaks at n, b = peaks at 8n; the verdict (b <= a + slack per component) is computed by the
// extracted Gallina (coq/c20/Run.v), not here.
//
// Stream "stk": random LIFO-disciplined operation sequences on the real stack / scopeStack (through the
// verif hook) with the state observed after every operation; compared with vm/Stack.v by the model.
//
//	(stk <v|s> (ops (p <n>) o s r t e ...) (obs (<index> <limit> <len data> <ret> (view...)) ... [panic]))
package main

import (
	"context"
	"fmt"
	"strings"
	"time"
	. "verifharness/hlib"

	"github.com/itchyny/gojq"
)

func main() {
	Register("fp", runFp)
	Register("stk", runStk)
	Register("vmf", runVmf)
	Register("evmgen", runEvmGen)
	Register("evmtrace", runEvmTrace)
	Main()
}

// ---- probing context --------------------------------------------------------------------------

type peak struct {
	forks, stack, scopes, paths, values, sdepth, cdepth, pdepth, offset int
	sum int // peak over instants of forks + stack.data + scopes.data + values (the footprint coq/c20/EVM.v bounds)
}

func (p *peak) add(f gojq.VerifFoot) {
	p.forks = max(p.forks, f.Forks)
	p.stack = max(p.stack, f.StackData)
	p.scopes = max(p.scopes, f.ScopeData)
	p.paths = max(p.paths, f.PathData)
	p.values = max(p.values, f.Values)
	p.sdepth = max(p.sdepth, f.StackDepth)
	p.cdepth = max(p.cdepth, f.ScopeDepth)
	p.pdepth = max(p.pdepth, f.PathDepth)
	p.offset = max(p.offset, f.Offset)
	p.sum = max(p.sum, f.Forks+f.StackData+f.ScopeData+f.Values)
}

func (p peak) String() string {
	return fmt.Sprintf("%d %d %d %d %d %d %d %d %d", p.forks, p.stack, p.scopes, p.paths, p.values, p.sdepth, p.cdepth, p.pdepth, p.offset)
}

type probeCtx struct {
	it    gojq.Iter
	pk    peak
	polls int
	open  chan struct{}
	every int
}

func (c *probeCtx) Done() <-chan struct{} {
	c.polls++
	if c.it != nil && (c.every <= 1 || c.polls%c.every == 0) {
		c.pk.add(gojq.VerifFootprint(c.it))
	}
	return c.open
}
func (c *probeCtx) Err() error                  { return nil }
func (c *probeCtx) Deadline() (time.Time, bool) { return time.Time{}, false }
func (c *probeCtx) Value(any) any               { return nil }

var _ context.Context = (*probeCtx)(nil)

// ---- forms ------------------------------------------------------------------------------------

// mode "all": consume every output (the program is finite in $n); "take": consume exactly $n outputs
// of an unbounded generator.
type form struct{ name, src, mode string }

func forms() []form {
	return []form{
		{"range", "range($n)", "all"},
		{"range/2", "range(0;$n)", "all"},
		{"range/3", "range(0;$n*2;2)", "all"},
		{"range-infinite", "range(infinite)", "take"},
		{"range-nested", "range($n) as $i | range(2) | . + $i", "all"},
		{"while", "0 | while(. < $n; .+1)", "all"},
		{"while-take", "0 | while(true; .+1)", "take"},
		{"until", "0 | until(. >= $n; .+1)", "all"},
		{"repeat", "0 | repeat(.+1)", "take"},
		{"repeat-const", "repeat(1)", "take"},
		{"repeat-collect", "[limit($n; repeat(1))] | length", "all"},
		{"repeat-jq", "def rep(f): def r: ., (f | r); r; first(0 | rep(.+1) | select(. >= $n))", "all"},
		{"recurse-chain", "0 | recurse(if . < $n then .+1 else empty end)", "all"},
		{"recurse-infinite", "0 | recurse(.+1)", "take"},
		{"recurse-cond", "0 | recurse(.+1; . < $n)", "all"},
		{"recurse-last", "last(0 | recurse(if . < $n then .+1 else empty end))", "all"},
		{"limit", "limit($n; repeat(1))", "all"},
		{"limit-range", "limit($n; range(infinite))", "all"},
		{"first", "first(range($n; infinite))", "all"},
		{"first-turns", "first(range(infinite) | select(. >= $n))", "all"},
		{"last", "last(range($n))", "all"},
		{"last-limit", "last(limit($n; repeat(1)))", "all"},
		{"nth", "nth($n; range(infinite))", "all"},
		{"skip", "first(skip($n; range(infinite)))", "all"},
		{"isempty-turns", "isempty(range($n) | select(. < 0))", "all"},
		{"any-turns", "any(range(infinite); . >= $n)", "all"},
		{"all-turns", "all(range($n); . >= 0)", "all"},
		{"reduce", "reduce range($n) as $x (0; . + $x)", "all"},
		{"reduce-last", "reduce range($n) as $x (null; $x)", "all"},
		{"reduce-repeat", "reduce limit($n; repeat(1)) as $x (0; . + $x)", "all"},
		{"foreach", "foreach range($n) as $x (0; . + $x)", "all"},
		{"foreach/3", "foreach range($n) as $x (0; . + $x; [$x, .])", "all"},
		{"foreach-infinite", "foreach range(infinite) as $x (0; . + $x)", "take"},
		{"foreach-empty", "last(foreach range($n) as $x (0; . + 1; select(. == $n)))", "all"},
		{"inputs", "inputs", "all"},
		{"inputs-reduce", "reduce inputs as $x (0; . + $x)", "all"},
		{"inputs-last", "last(inputs)", "all"},
		{"inputs-foreach", "foreach inputs as $x (0; . + $x)", "all"},
		{"inputs-first", "first(inputs | select(. >= $n - 1))", "all"},
		{"input-repeat", "limit($n; repeat(input))", "all"},
		{"label-break", "label $out | foreach range(infinite) as $x (0; . + 1; if . > $n then break $out else . end)", "all"},
		{"nat-iter", "nat", "take"},
		{"nat-iter-select", "first(nat | select(. >= $n))", "all"},
		// tail-recursive parameterless definitions
		{"tail-if", "def f: if . < $n then .+1 | f else . end; 0 | f", "all"},
		{"tail-jump", "def f: f; f", "polls"},
		{"tail-elif", "def f: if . < 0 then . elif . < $n then .+1 | f else . end; 0 | f", "all"},
		{"tail-elif2", "def f: if . >= $n then . elif . % 2 == 0 then .+1 | f elif . % 3 == 0 then .+1 | f else .+1 | f end; 0 | f", "all"},
		{"tail-alt", "def f: if . >= $n then . else (null // (.+1 | f)) end; 0 | f", "all"},
		{"tail-alt2", "def f: if . >= $n then . else ((empty, false) // (.+1 | f)) end; 0 | f", "all"},
		{"tail-comma", "def f: if . < $n then ., (.+1 | f) else empty end; 0 | f", "all"},
		{"tail-comma-inf", "def f: ., (.+1 | f); 0 | f", "take"},
		{"tail-bind", "def f: . as $x | if $x < $n then $x+1 | f else . end; 0 | f", "all"},
		{"tail-bind2", "def f: (.+1) as $y | . as [$a] ?// $a | if $y <= $n then $y | f else . end; 0 | f", "all"},
		{"tail-destructure", "def f: . as [$a, $b] | if $a < $n then [$a+1, $b] | f else $a end; [0, 1] | f", "all"},
		{"tail-reduce-body", "def f: if . < $n then (reduce (1,2) as $q (.; . + 0)) + 1 | f else . end; 0 | f", "all"},
		{"tail-nested", "def f: def g: if . < $n then .+1 | g else . end; g; 0 | f", "all"},
		{"tail-nested2", "def f: def g: def h: if . < $n then .+1 | h else . end; h; g; 0 | f", "all"},
		{"tail-local-helper", "def f: def inc: .+1; if . < $n then inc | f else . end; 0 | f", "all"},
		{"tail-seq", "def f: if . < $n then .+1 | f else . end; def g: if . < $n then .+1 | g else . end; (0 | f), (0 | g) | . * 0 | g", "all"},
		{"tail-in-generator", "range(3) as $k | def f: if . < $n then .+1 | f else . end; 0 | f", "all"},
		{"tail-gen-emit", "def f: if . < $n then (if . % 5 == 0 then . else empty end), (.+1 | f) else empty end; 0 | f", "all"},
		{"tail-try-body", "def f: if . < $n then (try (.+1) catch 0) | f else . end; 0 | f", "pend"},
		{"tail-optional", "def f: if . < $n then (.+1)? | f else . end; 0 | f", "pend"},
		{"tail-label", "def f: if . < $n then (label $l | .+1, break $l) | f else . end; 0 | f", "pend"},
		{"tail-first", "def f: if . < $n then (first(., .+5) + 1) | f else . end; 0 | f", "pend"},
		{"tail-alt-pending", "def f: if . < $n then ((.+1) // 0) | f else . end; 0 | f", "pend"},
		{"tail-comma-left", "def f: if . < $n then (.+1 | f), empty else . end; 0 | f", "pend"},
		// mutual recursion through a nested definition (every call in tail position, no choice point pending)
		{"tail-mutual", "def f: def g: if . < $n then .+1 | f else . end; g; 0 | f", "all"},
		{"tail-mutual2", "def f: if . < $n then .+1 | (def g: f; g) else . end; 0 | f", "all"},
		{"tail-object", "def f: if .i < $n then {i: (.i+1), s: (.s+.i)} | f else .s end; {i:0,s:0} | f", "all"},
		{"tail-path", "def f: if .[0] < $n then (.[0] |= .+1) | f else .[0] end; [0] | f", "all"},
		{"until-nested", "0 | until(. >= $n; . as $k | 0 | until(. >= 3; .+1) | $k + 1)", "all"},
		{"while-reduce", "reduce (0 | while(. < $n; .+1)) as $x (0; . + $x)", "all"},
		{"limit-while-recurse", "last(limit($n; 0 | recurse(.+1)))", "all"},
	}
}

type natIter struct{ i int }

func (it *natIter) Next() (any, bool) { v := it.i; it.i++; return v, true }

func compile(src string, ninputs int) (*gojq.Code, error) {
	q, err := gojq.Parse(src)
	if err != nil {
		return nil, err
	}
	ins := make([]any, ninputs)
	for i := range ins {
		ins[i] = i
	}
	return gojq.Compile(q, gojq.WithVariables([]string{"$n"}), gojq.WithInputIter(gojq.NewIter(ins...)),
		gojq.WithIterFunction("nat", 0, 0, func(any, []any) gojq.Iter { return &natIter{} }))
}

type measure struct {
	pk      peak
	end     peak // footprint after the last consumed output
	outputs int
	polls   int
	err     string
}

// run src with $n = n; consume per mode; returns the peak footprint over every instruction
func measureRun(f form, n int) (m measure) {
	code, err := compile(f.src, n)
	if err != nil {
		m.err = "compile: " + err.Error()
		return
	}
	pc := &probeCtx{open: make(chan struct{}), every: 1}
	// every run has an instruction budget; mode "polls" (a loop that never returns) is cut at 20n instructions
	budget := 3000*n + 200000
	if f.mode == "polls" {
		budget = 20 * n
	}
	var ctx context.Context = &limitCtx{probeCtx: pc, limit: budget}
	it := code.RunWithContext(ctx, nil, n)
	pc.it = it
	defer func() {
		if p := recover(); p != nil {
			m.err = fmt.Sprint("panic: ", p)
		}
	}()
	for {
		if f.mode == "take" && m.outputs >= n { // mode "pend" consumes everything, like "all"
			break
		}
		v, ok := it.Next()
		if !ok {
			break
		}
		if e, isErr := v.(error); isErr {
			if e == context.Canceled {
				if f.mode != "polls" {
					m.err = fmt.Sprintf("instruction budget %d exceeded", budget)
				}
				break
			}
			m.err = "error: " + e.Error()
			break
		}
		m.outputs++
	}
	m.pk, m.polls = pc.pk, pc.polls
	m.end.add(gojq.VerifFootprint(it))
	return
}

type limitCtx struct {
	*probeCtx
	limit  int
	closed chan struct{}
}

func (c *limitCtx) Done() <-chan struct{} {
	c.probeCtx.Done()
	if c.polls >= c.limit {
		if c.closed == nil {
			c.closed = make(chan struct{})
			close(c.closed)
		}
		return c.closed
	}
	return c.open
}
func (c *limitCtx) Err() error { return context.Canceled }

func runFp(c *Ctx) {
	n := 40
	fs := forms()
	if len(c.Args) > 0 { // replay: "n\tmode\tsrc"
		fs = nil
		for _, a := range c.Args {
			p := strings.SplitN(a, "\t", 3)
			if len(p) == 3 {
				fmt.Sscan(p[0], &n)
				fs = append(fs, form{"replay", p[2], p[1]})
			}
		}
	} else {
		fs = append(fs, deepTailForms(c.Rng.Fork(), c.N)...)
		fs = append(fs, genTailRec(c.Rng, c.N)...)
	}
	// the canonical case (replay text, key of KNOWN_FINDINGS) names the smallest loop count at which a
	// form is measured: every tier measures n = 40 (or the replayed n); the thorough tier adds n = 400
	// for the forms that do not already grow at 40
	ns := []int{n}
	if c.Tier != "quick" && len(c.Args) == 0 {
		ns = []int{40, 400}
	}
	for _, f := range fs {
		for _, n := range ns {
			a := measureRun(f, n)
			b := measureRun(f, 8*n)
			if a.err != "" || b.err != "" {
				c.Violation("error\t%s\t%d\t%s\tthe form does not run: %s %s", f.src, n, f.mode, a.err, b.err)
				break
			}
			// the run must really iterate: the work (polls) grows with n, otherwise the case says nothing
			if b.polls < 4*a.polls {
				c.Count("not-iterating:" + f.name)
				c.Stats["not-iterating:"+f.src] = fmt.Sprint(a.polls, " ", b.polls)
			}
			c.Count("form")
			c.Emit("(fp %s %d %s (a %s) (b %s) (end %s %s) (polls %d %d) (outputs %d %d))", Hexs([]byte(f.src)), n, f.mode,
				a.pk, b.pk, a.end, b.end, a.polls, b.polls, a.outputs, b.outputs)
			if n == ns[0] {
				emitEvmCert(c, f, a.pk.sum, b.pk.sum)
			}
			if b.pk.forks > a.pk.forks+8 || b.pk.stack > a.pk.stack+8 || b.pk.scopes > a.pk.scopes+8 || b.pk.paths > a.pk.paths+8 || b.pk.values > a.pk.values+16 {
				break // already growing at this n (judged by the model); a larger n adds nothing
			}
		}
	}
}

// emitEvmCert: the erased compiled code of the measured program for the verified certifier (coq/c20/Run.v judge_evmcert):
// a certificate proves the footprint bounded for every loop count; the measured peaks must lie within it.
func emitEvmCert(c *Ctx, f form, sumA, sumB int) {
	ninputs := 0
	code, err := compile(f.src, ninputs)
	if err != nil {
		return
	}
	var sb strings.Builder
	for _, in := range gojq.VerifDumpCode(code) {
		sb.WriteString(" ")
		sb.WriteString(einstrSexp(in))
	}
	c.Emit("(evmcert %s 1 %d %d (code%s))", Hexs([]byte(f.src)), sumA, sumB, sb.String())
}

// nestTail wraps the tail expression e in one more construct that keeps it in tail position
// (no choice point pending when e runs): k = 0 then-branch, 1 else-branch, 2 elif branch, 3 right side
// of `//`, 4 right branch of a comma, 5 body of a binding.  v makes the bound variable names distinct.
func nestTail(k, v int, e string) string {
	switch k {
	case 0:
		return "if . >= 0 then " + e + " else . end"
	case 1:
		return "if . < 0 then . else " + e + " end"
	case 2:
		return "if . < 0 then . elif . >= 0 then " + e + " else . end"
	case 3:
		return "(null // (" + e + "))"
	case 4:
		return "(empty, (" + e + "))"
	default:
		return fmt.Sprintf(". as $v%d | %s", v, e)
	}
}

var nestNames = []string{"then", "else", "elif", "alt", "comma", "bind"}

// deepTailForms: the tail call under 1..8 nested then-branches, else-branches, elif chains, `//` right
// sides, comma right branches, bindings (each uniform nesting), and seeded mixed nestings
func deepTailForms(r *Rng, nmixed int) []form {
	var fs []form
	mk := func(kinds []int) string {
		e := ".+1 | f"
		for i := len(kinds) - 1; i >= 0; i-- {
			e = nestTail(kinds[i], i, e)
		}
		return "def f: if . < $n then " + e + " else . end; 0 | f"
	}
	for k := 0; k < 6; k++ {
		for d := 1; d <= 8; d++ {
			kinds := make([]int, d)
			for i := range kinds {
				kinds[i] = k
			}
			fs = append(fs, form{fmt.Sprintf("deep-%s-%d", nestNames[k], d), mk(kinds), "all"})
		}
	}
	for i := 0; i < nmixed; i++ {
		d := 2 + r.Intn(7)
		kinds := make([]int, d)
		for j := range kinds {
			kinds[j] = r.Intn(6)
		}
		src := mk(kinds)
		if r.Chance(1, 3) { // inside another definition
			src = strings.Replace(src, "def f:", "def g: def f:", 1)
			src = strings.Replace(src, "; 0 | f", "; f; 0 | g", 1)
		}
		fs = append(fs, form{"deep-mixed", src, "all"})
	}
	return fs
}

// generated tail-recursive parameterless definitions: a guard, some pre-work, the self call in tail
// position under if/elif/else, `//` right side, comma right branch, after bindings, nested definitions
func genTailRec(r *Rng, count int) []form {
	var fs []form
	steps := []string{".+1", ". as $p | $p + 1", "[., 1] | add", "(.+1) as $q | $q", "if . % 2 == 0 then .+1 else .+1 end", "{a: .} | .a + 1",
		"(null // .) + 1", "[range(3)] | length - 2 + $t", "reduce (1) as $o (.; . + $o)", "[.] | .[0] + 1", "if . < 0 then empty else .+1 end", "(.+1 | tostring | tonumber)"}
	for i := 0; i < count; i++ {
		step := steps[r.Intn(len(steps))]
		step = strings.ReplaceAll(step, "$t", ".")
		if strings.Contains(step, "length - 2 + .") {
			step = ". as $t | [range(3)] | length - 2 + $t"
		}
		call := "(" + step + ") | f"
		var body string
		switch r.Intn(7) {
		case 0:
			body = "if . < $n then " + call + " else . end"
		case 1:
			body = "if . < 0 then . elif . < $n then " + call + " else . end"
		case 2:
			body = "if . >= $n then . else (null // (" + call + ")) end"
		case 3:
			body = "if . < $n then (if . % 7 == 0 then . else empty end), (" + call + ") else . end"
		case 4:
			body = ". as $x | if $x < $n then $x | " + call + " else $x end"
		case 5:
			body = "if . >= $n then . elif . % 2 == 0 then " + call + " else (false // (" + call + ")) end"
		case 6:
			body = ". as $x | (.+1) as $y | if . < $n then (empty // (" + call + ")) else [$x,$y] end"
		}
		src := "def f: " + body + "; 0 | f"
		switch r.Intn(4) {
		case 0: // nested inside another definition
			src = "def g: def f: " + body + "; f; 0 | g"
		case 1: // nested helper before the body
			src = "def f: def h: .; " + strings.Replace(body, call, "h | "+call, 1) + "; 0 | f"
		}
		fs = append(fs, form{"gen", src, "all"})
	}
	return fs
}

// ---- stack correspondence ---------------------------------------------------------------------

type stk interface {
	Push(int)
	Pop() int
	Empty() bool
	Save() (int, int)
	Restore(int, int)
	State() (int, int, int)
	Blocks() ([]int, []int)
}

func viewOf(s stk) string {
	idx, _, n := s.State()
	vals, nexts := s.Blocks()
	var sb strings.Builder
	sb.WriteString("(")
	for i, k := idx, 0; i >= 0 && i < n && k <= n; i, k = nexts[i], k+1 {
		if k > 0 {
			sb.WriteByte(' ')
		}
		fmt.Fprintf(&sb, "%d", vals[i])
	}
	sb.WriteString(")")
	return sb.String()
}

func runStk(c *Ctx) {
	for i := 0; i < c.N; i++ {
		r := c.Rng.Fork()
		kind := "v"
		var s stk
		var top func() int
		if i%2 == 0 {
			vs := gojq.VerifNewStack()
			s, top = vs, vs.Top
		} else {
			kind = "s"
			s = gojq.VerifNewScopeStack()
		}
		n := 3 + r.Intn(70)
		pushBias := 2 + r.Intn(5)
		allowEmptyPop := r.Chance(1, 5)
		var pend [][2]int
		var ops, obs strings.Builder
		depthKnown := 0 // not authoritative; only used to bias away from popping an empty stack
		for j := 0; j < n; j++ {
			var op string
			switch x := r.Intn(10); {
			case x < pushBias:
				op = "p"
			case x < 6:
				op = "o"
			case x == 6:
				op = "s"
			case x == 7:
				op = "r"
			case x == 8:
				op = "t"
			default:
				op = "e"
			}
			if op == "r" && len(pend) == 0 {
				op = "s"
			}
			if (op == "o" || op == "t") && s.Empty() && !allowEmptyPop {
				op = "p"
			}
			if op == "t" && top == nil {
				op = "e"
			}
			ret := "-"
			panicked := false
			func() {
				defer func() {
					if p := recover(); p != nil {
						panicked = true
					}
				}()
				switch op {
				case "p":
					v := r.Intn(1000)
					fmt.Fprintf(&ops, " (p %d)", v)
					s.Push(v)
					depthKnown++
				case "o":
					ops.WriteString(" o")
					ret = fmt.Sprint(s.Pop())
				case "t":
					ops.WriteString(" t")
					ret = fmt.Sprint(top())
				case "e":
					ops.WriteString(" e")
					if s.Empty() {
						ret = "1"
					} else {
						ret = "0"
					}
				case "s":
					ops.WriteString(" s")
					a, b := s.Save()
					pend = append(pend, [2]int{a, b})
				case "r":
					ops.WriteString(" r")
					p := pend[len(pend)-1]
					pend = pend[:len(pend)-1]
					s.Restore(p[0], p[1])
				}
			}()
			if panicked {
				obs.WriteString(" panic")
				c.Count("ends-in-panic")
				break
			}
			idx, lim, nd := s.State()
			fmt.Fprintf(&obs, " (%d %d %d %s %s)", idx, lim, nd, ret, viewOf(s))
		}
		c.Count("kind-" + kind)
		c.Emit("(stk %s (ops%s) (obs%s))", kind, ops.String(), obs.String())
	}
}
