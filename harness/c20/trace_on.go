//go:build gojq_debug

package main

import (
	"bytes"
	"strconv"

	"github.com/itchyny/gojq"
)

// With the build tags "verif gojq_debug" the interpreter's own per-instruction trace (debug.go:
// env.debugState, first statement of the loop body: "\t<pc>\t<op>[ <backtrack>]<operand>\t|...") is
// parsed for the pc and the backtrack flag of the instruction being fetched.
const traceEnabled = true

type traceWriter struct {
	pc int
	bt bool
}

func (w *traceWriter) Write(b []byte) (int, error) {
	if len(b) > 1 && b[0] == '\t' && b[1] >= '0' && b[1] <= '9' {
		f := bytes.SplitN(b[1:], []byte{'\t'}, 3)
		if len(f) >= 2 {
			w.pc, _ = strconv.Atoi(string(f[0]))
			w.bt = bytes.Contains(f[1], []byte(" <backtrack>"))
		}
	}
	return len(b), nil
}

var tw = &traceWriter{pc: -1}

func init() { gojq.VerifCountInstructions(tw) }

func traceLast() (int, bool) { return tw.pc, tw.bt }
