package main

import (
	"encoding/json"
	"fmt"
	"strings"
	. "verifharness/hlib"

	"github.com/itchyny/gojq"
)

// Stream "vmf": the loop forms of coq/c20/VMForms.v (fragment F of the concrete VM model coq/c01vm).
// For each form: its instruction list (VerifDumpCode) in the format of harness/c01vm, and for a set of
// inputs the per-instruction footprint (len forks, stack depth, scope depth, len values) sampled by
// the probing context, with the emitted values at their places.
type vmform struct{ name, jq, ast string }

func vmforms() []vmform {
	inc := "(binop add id (c (i 1)))"
	gt3 := "(binop gt id (c (i 3)))"
	a := "(s 61)"
	return []vmform{
		{"reduce", "reduce .[] as $x (0; . + 1)", "(reduce (iter id) 0 (c (i 0)) " + inc + ")"},
		{"reduce_last", "reduce .[] as $x (null; $x)", "(reduce (iter id) 0 (c null) (var 0))"},
		{"foreach", "foreach .[] as $x (0; . + 1)", "(foreach (iter id) 0 (c (i 0)) " + inc + ")"},
		{"foreach3", "foreach .[] as $x (0; . + 1; [$x, .])", "(foreach (iter id) 0 (c (i 0)) " + inc + " (arr (comma (var 0) id)))"},
		{"map", "[.[] | . + 1]", "(arr (pipe (iter id) " + inc + "))"},
		{"iter_comma", ".[] | (., 1)", "(pipe (iter id) (comma id (c (i 1))))"},
		{"iter_if", ".[] | if . then 1 else . end", "(pipe (iter id) (if id (c (i 1)) id))"},
		{"iter_elif", ".[] | if . > 3 then empty elif . then (., 1) else 2 end",
			"(pipe (iter id) (if " + gt3 + " empty (if id (comma id (c (i 1))) (c (i 2)))))"},
		{"label_break", "label $out | .[] | if . > 3 then break $out else . end",
			"(label 0 (pipe (iter id) (if " + gt3 + " (break 0) id)))"},
		{"limit_shape", "label $out | foreach .[] as $x (0; . + 1; if . > 3 then (., break $out) else . end)",
			"(label 0 (foreach (iter id) 0 (c (i 0)) " + inc + " (if " + gt3 + " (comma id (break 0)) id)))"},
		{"first_shape", "label $out | .[] | (., break $out)", "(label 0 (pipe (iter id) (comma id (break 0))))"},
		{"isempty_shape", "label $out | ((.[] | (false, break $out)), true)",
			"(label 0 (comma (pipe (iter id) (comma (c false) (break 0))) (c true)))"},
		{"nested", "[.[] | .[]]", "(arr (pipe (iter id) (iter id)))"},
		{"reduce_nested", "reduce .[] as $x (0; reduce $x[] as $y (.; . + 1))",
			"(reduce (iter id) 0 (c (i 0)) (reduce (iter (var 0)) 1 id " + inc + "))"},
		{"bind", ".[] as $x | $x", "(bind (iter id) 0 (var 0))"},
		{"try", "[.[] | try error catch .]", "(arr (pipe (iter id) (try (call0 error) id)))"},
		{"alt", "[.[] | .a // 0]", "(arr (pipe (iter id) (alt (index id " + a + ") (c (i 0)))))"},
		{"opt", "[.[] | (.a)?]", "(arr (pipe (iter id) (try (index id " + a + "))))"},
		{"reduce_if", "reduce .[] as $x (0; if $x then . + 1 else . end)",
			"(reduce (iter id) 0 (c (i 0)) (if (var 0) " + inc + " id))"},
		{"foreach_select", "foreach .[] as $x (0; . + 1; if . > 3 then . else empty end)",
			"(foreach (iter id) 0 (c (i 0)) " + inc + " (if " + gt3 + " id empty))"},
	}
}

func instrSexp(in gojq.VerifInstr) string {
	switch in.Kind {
	case "none":
		return in.Op
	case "int":
		return fmt.Sprintf("(%s %d)", in.Op, in.N)
	case "var":
		return fmt.Sprintf("(%s %d %d)", in.Op, in.Var[0], in.Var[1])
	case "scope":
		return fmt.Sprintf("(%s %d %d %d)", in.Op, in.Scope[0], in.Scope[1], in.Scope[2])
	case "native":
		return fmt.Sprintf("(%s %s %d)", in.Op, in.Name, in.Argc)
	case "value":
		return fmt.Sprintf("(%s %s)", in.Op, SexpVal(in.V))
	}
	return "(unknown)"
}

type seqCtx struct {
	probeCtx
	seq []string
}

func (c *seqCtx) Done() <-chan struct{} {
	if c.it != nil {
		f := gojq.VerifFootprint(c.it)
		c.seq = append(c.seq, fmt.Sprintf("(%d %d %d %d)", f.Forks, f.StackDepth, f.ScopeDepth, f.Values))
	}
	return c.open
}

func vmInputs(r *Rng, n int) []any {
	ins := []any{
		[]any{}, []any{1}, []any{1, 2}, []any{5, nil, 2, false, 7}, nil, 3, "s", map[string]any{"a": 1, "b": nil},
		[]any{[]any{1, 2}, []any{}, []any{3}}, []any{map[string]any{"a": 2}, map[string]any{"a": nil}, map[string]any{}},
		[]any{1, "x", 2}, []any{nil, nil}, []any{4, 5, 6}, []any{[]any{4, []any{}}, 9},
	}
	long := make([]any, 40)
	for i := range long {
		long[i] = i % 7
	}
	ins = append(ins, long)
	for i := 0; i < n; i++ { // random arrays of small values
		k := r.Intn(12)
		xs := make([]any, k)
		for j := range xs {
			switch r.Intn(7) {
			case 0:
				xs[j] = nil
			case 1:
				xs[j] = r.Chance(1, 2)
			case 2:
				xs[j] = []any{r.Intn(9), r.Intn(3)}
			case 3:
				xs[j] = map[string]any{"a": r.Intn(5)}
			case 4:
				xs[j] = "t"
			default:
				xs[j] = r.Intn(9)
			}
		}
		ins = append(ins, xs)
	}
	return ins
}

func runVmf(c *Ctx) {
	for _, f := range vmforms() {
		q, err := gojq.Parse(f.jq)
		if err != nil {
			panic(err)
		}
		code, err := gojq.Compile(q)
		if err != nil {
			panic(err)
		}
		var is []string
		for _, in := range gojq.VerifDumpCode(code) {
			is = append(is, instrSexp(in))
		}
		c.Emit("(vmform %s %s (%s))", f.name, f.ast, strings.Join(is, " "))
		c.Count("vmform")
		for _, in := range vmInputs(c.Rng.Fork(), c.N) {
			b, _ := json.Marshal(in)
			var v any
			json.Unmarshal(b, &v)
			v = normalizeJSON(v)
			sc := &seqCtx{probeCtx: probeCtx{open: make(chan struct{})}}
			it := code.RunWithContext(sc, v)
			sc.it = it
			end := "end"
			for n := 0; n < 100000; n++ {
				x, ok := it.Next()
				if !ok {
					break
				}
				if _, isErr := x.(error); isErr {
					end = "err"
					break
				}
				sc.seq = append(sc.seq, "(out "+SexpVal(x)+")")
			}
			c.Count("vmfoot-" + end)
			c.Emit("(vmfoot %s %s %s (seq %s) %s)", f.name, f.ast, SexpVal(v), strings.Join(sc.seq, " "), end)
		}
	}
}

func normalizeJSON(v any) any {
	switch v := v.(type) {
	case float64:
		if v == float64(int(v)) {
			return int(v)
		}
		return v
	case []any:
		for i := range v {
			v[i] = normalizeJSON(v[i])
		}
		return v
	case map[string]any:
		for k := range v {
			v[k] = normalizeJSON(v[k])
		}
		return v
	}
	return v
}
