// Harness: runs the IMPLEMENTATION (built from the current /repo tree, tag verif) on generated cases
// and writes each case together with what the implementation did, one s-expression per line.
// It never decides a verdict about model agreement; that happens in extracted Gallina (modelrun).
// Property-level oracles evaluated on the implementation alone (e.g. metamorphic laws) are reported
// as lines starting with "VIOL " on the stats stream.
package hlib

import (
	"bufio"
	"encoding/hex"
	"encoding/json"
	"flag"
	"fmt"
	"math"
	"math/big"
	"os"
	"sort"
	"strings"
)

type Stream func(c *Ctx)

var streams = map[string]Stream{}

func Register(name string, s Stream) { streams[name] = s }

type Ctx struct {
	Seed   uint64
	N      int
	Tier   string
	Out    *bufio.Writer
	Stats  map[string]any
	Dist   map[string]int
	Viol   []string
	Rng    *Rng
	Args   []string
	Nlines int
}

func (c *Ctx) Emit(format string, a ...any) {
	fmt.Fprintf(c.Out, format, a...)
	c.Out.WriteByte('\n')
	c.Nlines++
}
func (c *Ctx) Count(k string) { c.Dist[k]++ }
func (c *Ctx) Violation(format string, a ...any) {
	c.Viol = append(c.Viol, fmt.Sprintf(format, a...))
}

// splitmix64
type Rng struct{ s uint64 }

func (r *Rng) Next() uint64 {
	r.s += 0x9e3779b97f4a7c15
	z := r.s
	z = (z ^ (z >> 30)) * 0xbf58476d1ce4e5b9
	z = (z ^ (z >> 27)) * 0x94d049bb133111eb
	return z ^ (z >> 31)
}
func (r *Rng) Intn(n int) int {
	if n <= 0 {
		return 0
	}
	return int(r.Next() % uint64(n))
}
func (r *Rng) Chance(num, den int) bool { return r.Intn(den) < num }
func (r *Rng) Fork() *Rng               { return &Rng{r.Next()} }
func NewRng(seed uint64) *Rng           { return &Rng{seed} }

func Hexs(b []byte) string {
	if len(b) == 0 {
		return "-"
	}
	return hex.EncodeToString(b)
}

// sexpVal renders a gojq value in the transport format.
func SexpVal(v any) string {
	switch v := v.(type) {
	case nil:
		return "null"
	case bool:
		if v {
			return "true"
		}
		return "false"
	case int:
		return fmt.Sprintf("(i %d)", v)
	case *big.Int:
		return "(b " + v.String() + ")"
	case float64:
		return fmt.Sprintf("(f %d)", math.Float64bits(v))
	case json.Number:
		return "(l " + Hexs([]byte(v.String())) + ")"
	case string:
		return "(s " + Hexs([]byte(v)) + ")"
	case []any:
		var b strings.Builder
		b.WriteString("(a")
		for _, x := range v {
			b.WriteByte(' ')
			b.WriteString(SexpVal(x))
		}
		b.WriteByte(')')
		return b.String()
	case map[string]any:
		keys := make([]string, 0, len(v))
		for k := range v {
			keys = append(keys, k)
		}
		sort.Strings(keys)
		var b strings.Builder
		b.WriteString("(o")
		for _, k := range keys {
			b.WriteString(" (" + Hexs([]byte(k)) + " " + SexpVal(v[k]) + ")")
		}
		b.WriteByte(')')
		return b.String()
	case error:
		return "(err " + Hexs([]byte(v.Error())) + ")"
	default:
		return fmt.Sprintf("(unknown %s)", Hexs([]byte(fmt.Sprintf("%T", v))))
	}
}

// Main dispatches os.Args[1] to a registered stream.
func Main() {
	if len(os.Args) < 2 {
		fmt.Fprintln(os.Stderr, "usage: harness <stream> [-seed N] [-n N] [-tier T] [-out FILE] [-stats FILE] [args...]")
		os.Exit(2)
	}
	name := os.Args[1]
	s, ok := streams[name]
	if !ok {
		fmt.Fprintf(os.Stderr, "unknown stream %q\n", name)
		os.Exit(2)
	}
	fs := flag.NewFlagSet(name, flag.ExitOnError)
	seed := fs.Uint64("seed", 1, "PRNG seed")
	n := fs.Int("n", 1000, "number of cases (stream-specific meaning)")
	tier := fs.String("tier", "quick", "quick|thorough")
	outp := fs.String("out", "", "cases output file (default stdout)")
	statsp := fs.String("stats", "", "stats JSON output file")
	fs.Parse(os.Args[2:])
	w := os.Stdout
	if *outp != "" {
		f, err := os.Create(*outp)
		if err != nil {
			fmt.Fprintln(os.Stderr, err)
			os.Exit(2)
		}
		defer f.Close()
		w = f
	}
	c := &Ctx{Seed: *seed, N: *n, Tier: *tier, Out: bufio.NewWriterSize(w, 1<<20),
		Stats: map[string]any{}, Dist: map[string]int{}, Rng: &Rng{*seed}, Args: fs.Args()}
	s(c)
	c.Out.Flush()
	c.Stats["lines"] = c.Nlines
	c.Stats["distribution"] = c.Dist
	c.Stats["impl_violations"] = c.Viol
	if *statsp != "" {
		b, _ := json.MarshalIndent(c.Stats, "", " ")
		os.WriteFile(*statsp, b, 0o644)
	}
}
