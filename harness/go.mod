module verifharness

go 1.24.0

require github.com/itchyny/gojq v0.0.0

require github.com/itchyny/timefmt-go v0.1.8 // indirect

replace github.com/itchyny/gojq => /repo
