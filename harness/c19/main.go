package main

// C19 harness.  Streams:
//   c19        lines judged by the extracted model (arity / builtins / vars / env / input)
//   c19impl    implementation-only oracles: (a) every builtin run in child processes under differing
//              process environments, cwd, HOME, TZ, stdin must print identical results (names of the
//              regenerated time-dependent list excluded); (b) Go functions registered with WithFunction /
//              WithIterFunction versus equivalent jq defs across calling contexts
//   c19child   (internal) the child process of (a)
import (
	"context"
	"encoding/hex"
	"encoding/json"
	"errors"
	"fmt"
	"os"
	"os/exec"
	"path/filepath"
	"sort"
	"strconv"
	"strings"
	"time"
	. "verifharness/hlib"

	"github.com/itchyny/gojq"
)

func main() {
	Register("c19", runModelLines)
	Register("c19impl", runImpl)
	Register("c19child", runChild)
	Main()
}

// ------------------------------------------------------------------------------------------------
// arity / builtins

type reg struct {
	name, min, max int
	iter         bool
	cb           int
}

func regsSexp(rs []reg) string {
	var b strings.Builder
	b.WriteString("(regs")
	for _, r := range rs {
		it := 0
		if r.iter {
			it = 1
		}
		fmt.Fprintf(&b, " (%d %d %d %d %d)", r.name, r.min, r.max, it, r.cb)
	}
	b.WriteString(")")
	return b.String()
}

// buildOpts creates the options; ok=false when option creation panicked
func buildOpts(rs []reg) (opts []gojq.CompilerOption, ok bool) {
	defer func() {
		if recover() != nil {
			opts, ok = nil, false
		}
	}()
	for _, r := range rs {
		r := r
		name := "cf" + strconv.Itoa(r.name)
		if r.iter {
			opts = append(opts, gojq.WithIterFunction(name, r.min, r.max, func(_ any, xs []any) gojq.Iter {
				return gojq.NewIter[any]([]any{r.cb, len(xs)}, []any{r.cb, len(xs)})
			}))
		} else {
			opts = append(opts, gojq.WithFunction(name, r.min, r.max, func(_ any, xs []any) any {
				return []any{r.cb, len(xs)}
			}))
		}
	}
	return opts, true
}

type compiled struct {
	code     *gojq.Code
	err      error
	panicked bool
}

func compileWith(src string, opts []gojq.CompilerOption) (res compiled) {
	defer func() {
		if r := recover(); r != nil {
			res = compiled{panicked: true}
		}
	}()
	q, err := gojq.Parse(src)
	if err != nil {
		return compiled{err: err}
	}
	c, err := gojq.Compile(q, opts...)
	return compiled{code: c, err: err}
}

func collect(it gojq.Iter, max int) []any {
	var out []any
	for len(out) < max {
		v, ok := it.Next()
		if !ok {
			break
		}
		out = append(out, v)
		if _, isErr := v.(error); isErr {
			break
		}
	}
	return out
}

func pickArity(r *Rng) int {
	switch r.Intn(6) {
	case 0:
		return []int{0, 1, 29, 30}[r.Intn(4)]
	case 1:
		return r.Intn(31)
	default:
		return r.Intn(6)
	}
}

func arityCase(c *Ctx, r *Rng) {
	n := 1 + r.Intn(4)
	var rs []reg
	iterOf := map[int]bool{}
	for i := 0; i < n; i++ {
		name := r.Intn(3)
		a, b := pickArity(r), pickArity(r)
		if a > b && !r.Chance(1, 12) { // mostly valid ranges
			a, b = b, a
		}
		if r.Chance(1, 25) {
			b = 31
		}
		it, seen := iterOf[name]
		if !seen {
			it = r.Chance(1, 3)
			iterOf[name] = it
		} else if r.Chance(1, 12) {
			it = !it
		}
		rs = append(rs, reg{name, a, b, it, 10 + i})
	}
	rsx := regsSexp(rs)
	opts, ok := buildOpts(rs)
	cnts := []int{}
	for i := 0; i <= 33; i++ {
		cnts = append(cnts, i)
	}
	cnts = append(cnts, 62, 63, 64, 65)
	panicked := !ok
	if ok {
		if compileWith(".", opts).panicked {
			panicked = true
		}
	}
	for name := 0; name < 3; name++ {
		for _, cnt := range cnts {
			if panicked {
				c.Emit("(arity %s %d %d panic)", rsx, name, cnt)
				c.Count("arity:panic")
				continue
			}
			src := "cf" + strconv.Itoa(name)
			if cnt > 0 {
				src += "(" + strings.TrimSuffix(strings.Repeat("0;", cnt), ";") + ")"
			}
			res := compileWith(src, opts)
			switch {
			case res.panicked:
				c.Emit("(arity %s %d %d panic)", rsx, name, cnt)
			case res.err != nil:
				if strings.HasPrefix(res.err.Error(), "function not defined: cf") {
					c.Emit("(arity %s %d %d rejected)", rsx, name, cnt)
					c.Count("arity:rejected")
				} else {
					c.Emit("(arity %s %d %d (err %s))", rsx, name, cnt, Hexs([]byte(res.err.Error())))
				}
			default:
				out := collect(res.code.Run(nil), 5)
				good := len(out) == 1 || len(out) == 2
				cb := -1
				for _, o := range out {
					a, isArr := o.([]any)
					if !isArr || len(a) != 2 || a[1] != cnt {
						good = false
						break
					}
					if id, isInt := a[0].(int); isInt && (cb == -1 || cb == id) {
						cb = id
					} else {
						good = false
					}
				}
				if !good {
					c.Emit("(arity %s %d %d (odd %s))", rsx, name, cnt, Hexs([]byte(fmt.Sprint(out))))
					c.Violation("custom function %s with %d arguments: callback did not receive %d arguments / odd outputs %v [%s]", src, cnt, cnt, out, rsx)
				} else {
					it := 0
					if len(out) == 2 {
						it = 1
					}
					c.Emit("(arity %s %d %d (called %d %d))", rsx, name, cnt, cb, it)
					c.Count("arity:called")
				}
			}
		}
	}
	if !panicked {
		res := compileWith("builtins", opts)
		if res.err != nil || res.code == nil {
			c.Violation("builtins does not compile with custom functions %s: %v", rsx, res.err)
			return
		}
		out := collect(res.code.Run(nil), 2)
		var b strings.Builder
		if len(out) == 1 {
			if xs, ok := out[0].([]any); ok {
				// keep the implementation's order
				for _, x := range xs {
					s, _ := x.(string)
					if strings.HasPrefix(s, "cf") {
						nm, ar, _ := strings.Cut(s[2:], "/")
						fmt.Fprintf(&b, " (%s %s)", nm, ar)
					}
				}
			}
		}
		c.Emit("(builtins %s (names 0 1 2) (impl%s))", rsx, b.String())
		c.Count("builtins")
		// OPTION VALUES ARE REUSABLE: a CompilerOption that took part in a Compile together with others grants, when it is
		// used again alone (or in another combination), exactly what a fresh option with the same registration grants — a
		// Compile must not write into the options it was given (seeded change C19-r8a: the merge of same-name registrations
		// assigned to the captured callback and arity mask)
		if len(rs) >= 2 {
			for _, idx := range [][]int{{len(rs) - 1}, {0}, {len(rs) - 1, 0}} {
				var sub []reg
				var reused []gojq.CompilerOption
				for _, i := range idx {
					sub = append(sub, rs[i])
					reused = append(reused, opts[i])
				}
				fresh, okf := buildOpts(sub)
				if !okf {
					continue
				}
				for name := 0; name < 3; name++ {
					a, b := optBehaviour(reused, name), optBehaviour(fresh, name)
					c.Count("arity:reuse")
					if a != b {
						c.Violation("option reuse: after a Compile with %s the options %v used again alone behave differently from fresh options with the same registrations for cf%d: reused %s fresh %s", rsx, idx, name, a, b)
					}
				}
			}
		}
	}
}

// optBehaviour: for every argument count 0..33 what a call of cf<name> does under these options (rejected / which callback / error)
func optBehaviour(opts []gojq.CompilerOption, name int) string {
	var b strings.Builder
	for cnt := 0; cnt <= 33; cnt++ {
		src := "cf" + strconv.Itoa(name)
		if cnt > 0 {
			src += "(" + strings.TrimSuffix(strings.Repeat("0;", cnt), ";") + ")"
		}
		res := compileWith(src, opts)
		switch {
		case res.panicked:
			b.WriteString("P")
		case res.err != nil:
			b.WriteString("r")
		default:
			fmt.Fprintf(&b, "%v", collect(res.code.Run(nil), 3))
		}
		b.WriteString(";")
	}
	res := compileWith("[builtins[] | select(startswith(\"cf\"))]", opts)
	if res.err == nil && !res.panicked && res.code != nil {
		fmt.Fprintf(&b, "|%v", collect(res.code.Run(nil), 2))
	}
	return b.String()
}

// ------------------------------------------------------------------------------------------------
// vars

func varsCase(c *Ctx, r *Rng) {
	k := r.Intn(6)
	names := make([]int, k)
	for i := range names {
		names[i] = r.Intn(4)
		if r.Chance(2, 3) {
			names[i] = i // mostly distinct
		}
	}
	nv := k + r.Intn(5) - 2
	if r.Chance(1, 2) {
		nv = k
	}
	if nv < 0 {
		nv = 0
	}
	vnames := make([]string, k)
	var nb, vb strings.Builder
	for i, n := range names {
		vnames[i] = "$v" + strconv.Itoa(n)
		fmt.Fprintf(&nb, " %d", n)
	}
	values := make([]any, nv)
	for i := range values {
		values[i] = 100 + i
		fmt.Fprintf(&vb, " %d", 100+i)
	}
	distinct := []int{}
	seen := map[int]bool{}
	for _, n := range names {
		if !seen[n] {
			seen[n] = true
			distinct = append(distinct, n)
		}
	}
	src := "[."
	for _, n := range distinct {
		src += ", $v" + strconv.Itoa(n)
	}
	src += "]"
	res := compileWith(src, []gojq.CompilerOption{gojq.WithVariables(vnames)})
	head := fmt.Sprintf("(vars (names%s) (values%s) 7", nb.String(), vb.String())
	if res.err != nil || res.code == nil {
		c.Emit("%s (err %s))", head, Hexs([]byte(fmt.Sprint(res.err))))
		return
	}
	out := collect(res.code.Run(7, values...), 3)
	if len(out) != 1 {
		c.Emit("%s (odd %d))", head, len(out))
		return
	}
	switch v := out[0].(type) {
	case error:
		msg := v.Error()
		switch {
		case msg == "too many variable values provided":
			c.Emit("%s toomany)", head)
			c.Count("vars:toomany")
		case strings.HasPrefix(msg, "variable defined but not bound: $v"):
			c.Emit("%s (expected %s))", head, strings.TrimPrefix(msg, "variable defined but not bound: $v"))
			c.Count("vars:expected")
		default:
			c.Emit("%s (err %s))", head, Hexs([]byte(msg)))
		}
	case []any:
		var b strings.Builder
		ok := len(v) == 1+len(distinct)
		if ok {
			fmt.Fprintf(&b, "%v", v[0])
			for i, n := range distinct {
				fmt.Fprintf(&b, " (%d %v)", n, v[i+1])
			}
		}
		if !ok {
			c.Emit("%s (odd -1))", head)
		} else {
			c.Emit("%s (bound %s))", head, b.String())
			c.Count("vars:bound")
		}
	default:
		c.Emit("%s (odd -2))", head)
	}
}

// ------------------------------------------------------------------------------------------------
// env

func envCase(c *Ctx, r *Rng) {
	os.Setenv("C19_AMBIENT_PROBE", fmt.Sprint(r.Intn(1000)))
	useLoader := !r.Chance(1, 4)
	var kvs []string
	if useLoader {
		n := r.Intn(7)
		alpha := []string{"a", "b", "A", "=", "=", "x", " ", "é", "PATH"}
		for i := 0; i < n; i++ {
			var s string
			for j, l := 0, r.Intn(5); j < l; j++ {
				s += alpha[r.Intn(len(alpha))]
			}
			kvs = append(kvs, s)
		}
	}
	var opts []gojq.CompilerOption
	if useLoader {
		opts = append(opts, gojq.WithEnvironLoader(func() []string { return kvs }))
	}
	res := compileWith("[env, $ENV]", opts)
	if res.err != nil || res.code == nil {
		c.Violation("[env, $ENV] does not compile: %v", res.err)
		return
	}
	out := collect(res.code.Run(nil), 2)
	ok := false
	var impl strings.Builder
	if len(out) == 1 {
		if a, isArr := out[0].([]any); isArr && len(a) == 2 {
			e1, ok1 := a[0].(map[string]any)
			e2, ok2 := a[1].(map[string]any)
			if ok1 && ok2 && gojq.Compare(e1, e2) == 0 {
				ok = true
				keys := make([]string, 0, len(e1))
				for k := range e1 {
					keys = append(keys, k)
				}
				sort.Strings(keys)
				for _, k := range keys {
					s, isStr := e1[k].(string)
					if !isStr {
						ok = false
					}
					fmt.Fprintf(&impl, " (%s %s)", Hexs([]byte(k)), Hexs([]byte(s)))
				}
			}
		}
	}
	if !ok {
		c.Violation("env and $ENV are not the same object of strings: %v (loader %q)", out, kvs)
		return
	}
	if useLoader {
		var b strings.Builder
		for _, kv := range kvs {
			b.WriteString(" " + Hexs([]byte(kv)))
		}
		c.Emit("(env (loader%s) (impl%s))", b.String(), impl.String())
		c.Count("env:loader")
	} else {
		c.Emit("(env none (impl%s))", impl.String())
		c.Count("env:none")
	}
}

// ------------------------------------------------------------------------------------------------
// input

// itemIter: an input iterator whose Next yields values and error values at chosen positions
type inItem struct {
	err bool
	n   int
}
type itemIter struct {
	items []inItem
	pos   int
	calls int
}
type itemErr struct{ n int }

func (e *itemErr) Error() string { return "ie:" + strconv.Itoa(e.n) }
func (it *itemIter) Next() (any, bool) {
	it.calls++
	if it.pos >= len(it.items) {
		return nil, false
	}
	x := it.items[it.pos]
	it.pos++
	if x.err {
		return &itemErr{x.n}, true
	}
	return x.n, true
}

func genItems(r *Rng) []inItem {
	n := r.Intn(7)
	items := make([]inItem, n)
	mode := r.Intn(6) // 0 none, 1 first, 2 middle, 3 consecutive, 4 last, 5 random
	for i := range items {
		items[i] = inItem{n: 50 + r.Intn(10)}
		switch mode {
		case 1:
			items[i].err = i == 0
		case 2:
			items[i].err = i == n/2
		case 3:
			items[i].err = i == n/2 || i == n/2+1
		case 4:
			items[i].err = i == n-1
		case 5:
			items[i].err = r.Chance(1, 3)
		}
	}
	return items
}

// inputSim: the reading "one item per call, in order"
type inputSim struct {
	items []inItem
	pos   int
}

// call returns ("v", n) | ("e", n) | ("b", 0)
func (s *inputSim) call() (string, int) {
	if s.pos >= len(s.items) {
		return "b", 0
	}
	x := s.items[s.pos]
	s.pos++
	if x.err {
		return "e", x.n
	}
	return "v", x.n
}

func inputCase(c *Ctx, r *Rng) {
	items := genItems(r)
	var vb strings.Builder
	for _, x := range items {
		if x.err {
			fmt.Fprintf(&vb, " (e %d)", x.n)
		} else {
			fmt.Fprintf(&vb, " %d", x.n)
		}
	}
	// model line: one Code, several Runs, every call under try; the calls of all runs concatenated
	k, runs := r.Intn(5), 1+r.Intn(3)
	res := compileWith(fmt.Sprintf(`[range(%d) | try input catch .]`, k), []gojq.CompilerOption{gojq.WithInputIter(&itemIter{items: items})})
	if res.err != nil || res.code == nil {
		c.Violation("input with WithInputIter does not compile: %v", res.err)
		return
	}
	var b strings.Builder
	for run := 0; run < runs; run++ {
		out := collect(res.code.Run(nil), 2)
		if len(out) != 1 {
			b.WriteString(" (odd -)")
			continue
		}
		a, _ := out[0].([]any)
		if len(a) != k {
			b.WriteString(" (odd -)")
		}
		for _, x := range a {
			switch x := x.(type) {
			case int:
				fmt.Fprintf(&b, " %d", x)
			case string:
				switch {
				case x == "break":
					b.WriteString(" break")
				case strings.HasPrefix(x, "ie:"):
					b.WriteString(" (e " + x[3:] + ")")
				default:
					b.WriteString(" (odd " + Hexs([]byte(x)) + ")")
				}
			default:
				b.WriteString(" (odd -)")
			}
		}
	}
	c.Emit("(input (vals%s) %d (impl%s))", vb.String(), k*runs, b.String())
	c.Count("input")

	// implementation-only: the same reading through other consumers; expected values from inputSim
	str := func(kind string, n int) any {
		if kind == "v" {
			return n
		}
		return "E"
	}
	type tcase struct {
		src    string
		expect func(s *inputSim) any
	}
	kk := 1 + r.Intn(4)
	each := func(f func(kind string, n int) []any) func(s *inputSim) any {
		return func(s *inputSim) any {
			out := []any{}
			for i := 0; i < kk; i++ {
				out = append(out, f(s.call())...)
			}
			return out
		}
	}
	cases := []tcase{
		{fmt.Sprintf(`[range(%d) | input?]`, kk), each(func(kind string, n int) []any {
			if kind == "v" {
				return []any{n}
			}
			return nil
		})},
		{fmt.Sprintf(`[range(%d) | ((try input catch null) // "A")]`, kk), each(func(kind string, n int) []any {
			if kind == "v" {
				return []any{n}
			}
			return []any{"A"}
		})},
		{fmt.Sprintf(`[limit(%d; repeat(try input catch "E"))]`, kk), each(func(kind string, n int) []any { return []any{str(kind, n)} })},
		{fmt.Sprintf(`reduce range(%d) as $i ([]; . + [try input catch "E"])`, kk), each(func(kind string, n int) []any { return []any{str(kind, n)} })},
		{fmt.Sprintf(`[foreach range(%d) as $i (0; . + 1; try input catch "E")]`, kk), each(func(kind string, n int) []any { return []any{str(kind, n)} })},
		{fmt.Sprintf(`[range(%d) | first(try input catch "E")]`, kk), each(func(kind string, n int) []any { return []any{str(kind, n)} })},
		{`def f: try input catch "E"; def g: [f, f]; [g, g]`, func(s *inputSim) any {
			g := func() any {
				a1, a2 := s.call()
				b1, b2 := s.call()
				return []any{str(a1, a2), str(b1, b2)}
			}
			x := g()
			return []any{x, g()}
		}},
		{`[first(inputs)?]`, func(s *inputSim) any {
			if kind, n := s.call(); kind == "v" {
				return []any{n}
			}
			return []any{}
		}},
		{`try [inputs] catch "E"`, func(s *inputSim) any {
			out := []any{}
			for {
				kind, n := s.call()
				switch kind {
				case "v":
					out = append(out, n)
				case "e":
					return "E"
				default:
					return out
				}
			}
		}},
		{`[.[] | try input catch "E"]`, func(s *inputSim) any {
			out := []any{}
			for i := 0; i < 2; i++ {
				kind, n := s.call()
				out = append(out, str(kind, n))
			}
			return out
		}},
	}
	tc := cases[r.Intn(len(cases))]
	it := &itemIter{items: items}
	res = compileWith(tc.src, []gojq.CompilerOption{gojq.WithInputIter(it)})
	if res.err != nil || res.code == nil {
		c.Violation("input: %s does not compile with WithInputIter: %v", tc.src, res.err)
		return
	}
	sim := &inputSim{items: items}
	for run := 0; run < 3; run++ { // several Runs of one Code continue the iterator
		want := tc.expect(sim)
		out := collect(res.code.Run([]any{0, 0}), 3)
		c.Nlines++
		c.Count("input:consumers")
		if len(out) != 1 || render(out[0]) != render(want) {
			got := make([]string, len(out))
			for i, o := range out {
				got[i] = render(o)
			}
			c.Violation("input: `%s` run #%d on one Code over the iterator [%s] (e = error value) gives %s, expected %s (one item per call, in order)",
				tc.src, run+1, strings.TrimSpace(vb.String()), strings.Join(got, " ; "), render(want))
			break
		}
		if it.pos != sim.pos && !(sim.pos >= len(items) && it.pos >= len(items)) {
			c.Violation("input: `%s` run #%d over the iterator [%s] consumed %d items, expected %d", tc.src, run+1, strings.TrimSpace(vb.String()), it.pos, sim.pos)
			break
		}
	}
}

func runModelLines(c *Ctx) {
	for i := 0; i < c.N; i++ {
		arityCase(c, c.Rng)
	}
	// fixed boundary registrations
	for i := 0; i < 8*c.N; i++ {
		varsCase(c, c.Rng)
		envCase(c, c.Rng)
		inputCase(c, c.Rng)
	}
	// without WithInputIter: input / inputs are compile errors; without loader: import, modulemeta
	for _, src := range []string{"input", "inputs", "[., input]", "first(inputs)"} {
		res := compileWith(src, nil)
		if res.err == nil || res.err.Error() != "input(s)/0 is not allowed" {
			c.Violation("%s compiles without WithInputIter (err=%v)", src, res.err)
		}
	}
	for _, src := range []string{`import "a" as a; .`, `include "a"; .`, `import "a" as $a; .`} {
		res := compileWith(src, nil)
		if res.err == nil || !strings.HasPrefix(res.err.Error(), "cannot load module") {
			c.Violation("%s compiles without WithModuleLoader (err=%v)", src, res.err)
		}
	}
	res := compileWith(`"a" | modulemeta`, nil)
	if res.code == nil {
		c.Violation("modulemeta does not compile: %v", res.err)
	} else if out := collect(res.code.Run(nil), 2); len(out) != 1 || fmt.Sprint(out[0]) != `cannot load module: "a"` {
		c.Violation("modulemeta without WithModuleLoader: %v", out)
	}
	for _, n := range []string{"v", "$", "$1", "$a b", "", "$a::b"} {
		if res := compileWith(".", []gojq.CompilerOption{gojq.WithVariables([]string{n})}); res.err == nil {
			c.Violation("WithVariables accepts the invalid name %q", n)
		}
	}
}

// ------------------------------------------------------------------------------------------------
// ambient: child processes

// stepCtx cancels after a fixed number of Done() polls (one per VM instruction): a deterministic budget
type stepCtx struct {
	context.Context
	left int
	ch   chan struct{}
	done bool
}

func newStepCtx(n int) *stepCtx {
	return &stepCtx{Context: context.Background(), left: n, ch: make(chan struct{})}
}
func (s *stepCtx) Done() <-chan struct{} {
	if !s.done {
		s.left--
		if s.left <= 0 {
			s.done = true
			close(s.ch)
		}
	}
	return s.ch
}
func (s *stepCtx) Err() error {
	if s.done {
		return errors.New("step budget exhausted")
	}
	return nil
}

var ambientInputs = []string{`null`, `0`, `1.5`, `"abc"`, `[1,[2],"x"]`, `{"a":1,"b":[2]}`, `"2015-03-05T23:51:47Z"`,
	`1425599507`, `[2015,2,5,23,51,47,4,63]`, `"a,b c"`}
var ambientArgs = []string{".", "0", "1", `"a"`, ".[0]?", "[.]", "(1,2)", "null", `"%Y-%m-%dT%H:%M:%SZ %Z"`, ".a?", "empty", "{}", `"b"`, "2", "true", `[1,2]`, `"g"`}

func render(v any) string {
	if e, ok := v.(error); ok {
		if ve, ok := e.(gojq.ValueError); ok { // error(v): the value is the observable, not the wording
			return "EV:" + render(ve.Value())
		}
		return "E:" + e.Error()
	}
	if tooDeep(v, 300) { // a cyclic value (e.g. an argument buffer that ended up inside itself) would overflow the stack in Marshal
		return "CYCLIC-OR-TOO-DEEP"
	}
	b, err := gojq.Marshal(v)
	if err != nil {
		return "M:" + err.Error()
	}
	return string(b)
}

func tooDeep(v any, d int) bool {
	if d < 0 {
		return true
	}
	switch v := v.(type) {
	case []any:
		for _, x := range v {
			if tooDeep(x, d-1) {
				return true
			}
		}
	case map[string]any:
		for _, x := range v {
			if tooDeep(x, d-1) {
				return true
			}
		}
	}
	return false
}

func runProgram(src string, input any) string {
	res := compileWith(src, nil)
	if res.panicked {
		return "PANIC(compile)"
	}
	if res.err != nil {
		return "C:" + res.err.Error()
	}
	var parts []string
	func() {
		defer func() {
			if r := recover(); r != nil {
				parts = append(parts, fmt.Sprintf("PANIC(%v)", r))
			}
		}()
		it := res.code.RunWithContext(newStepCtx(60000), input)
		for i := 0; i < 12; i++ {
			v, ok := it.Next()
			if !ok {
				break
			}
			parts = append(parts, render(v))
			if _, isErr := v.(error); isErr {
				break
			}
		}
	}()
	return strings.Join(parts, " ; ")
}

func ambientPrograms(seed uint64, n int, exclude map[string]bool) []string {
	res := compileWith("builtins", nil)
	out := collect(res.code.Run(nil), 1)
	var names []string
	for _, x := range out[0].([]any) {
		names = append(names, x.(string))
	}
	sort.Strings(names)
	r := NewRng(seed)
	call := func(nameArity string) (string, bool) {
		name, ar, _ := strings.Cut(nameArity, "/")
		if exclude[name] {
			return "", false
		}
		k, _ := strconv.Atoi(ar)
		if k == 0 {
			return name, true
		}
		args := make([]string, k)
		for i := range args {
			args[i] = ambientArgs[r.Intn(len(ambientArgs))]
		}
		return name + "(" + strings.Join(args, "; ") + ")", true
	}
	progs := []string{"env", "$ENV", "env.HOME", "$ENV.PATH", "env | length", "input", "[inputs]", `"m" | modulemeta`,
		`import "m" as m; m::f`, `include "m"; f`, `import "d" as $d; $d`, "$__loc__", "input_filename", "get_search_list",
		"input_line_number", "$__prog_args", "halt", `"x" | halt_error`, "debug", "stderr", `debug("m")`, "now | type",
		"ltrimstr(env|tostring)", "[limit(3; repeat(env))]", "getpath([\"HOME\"])", "splits(\"a\")", "@sh", "@base64d", "f", "m::f"}
	for _, na := range names {
		for j := 0; j < 3; j++ {
			if p, ok := call(na); ok {
				progs = append(progs, p)
			}
			if strings.HasSuffix(na, "/0") {
				break
			}
		}
	}
	for i := 0; i < n; i++ {
		a, ok1 := call(names[r.Intn(len(names))])
		b, ok2 := call(names[r.Intn(len(names))])
		if ok1 && ok2 {
			switch r.Intn(3) {
			case 0:
				progs = append(progs, a+" | "+b)
			case 1:
				progs = append(progs, "["+a+"] | "+b)
			default:
				progs = append(progs, "try ("+a+") catch ("+b+")")
			}
		}
	}
	return progs
}

func parseExclude(args []string) map[string]bool {
	ex := map[string]bool{}
	for _, a := range args {
		if strings.HasPrefix(a, "exclude=") {
			for _, n := range strings.Split(strings.TrimPrefix(a, "exclude="), ",") {
				if n != "" {
					ex[n] = true
				}
			}
		}
	}
	return ex
}

func runChild(c *Ctx) {
	go func() { // watchdog against a native loop that the step budget cannot interrupt
		time.Sleep(1200 * time.Second)
		fmt.Fprintln(os.Stderr, "c19child: watchdog timeout")
		os.Exit(3)
	}()
	ex := parseExclude(c.Args)
	progs := ambientPrograms(c.Seed, c.N, ex)
	var inputs []any
	for _, s := range ambientInputs {
		var v any
		dec := json.NewDecoder(strings.NewReader(s))
		dec.UseNumber()
		dec.Decode(&v)
		inputs = append(inputs, v)
	}
	for _, p := range progs {
		for i := range inputs {
			// a fresh copy of the input per run (programs must not be able to communicate through it)
			var v any
			dec := json.NewDecoder(strings.NewReader(ambientInputs[i]))
			dec.UseNumber()
			dec.Decode(&v)
			c.Emit("%s %d %s", hex.EncodeToString([]byte(p)), i, hex.EncodeToString([]byte(runProgram(p, v))))
		}
	}
}

type childCfg struct {
	env   []string
	dir   string
	stdin string
}

func runAmbient(c *Ctx, exclude string) {
	self, err := os.Executable()
	if err != nil {
		c.Violation("harness: os.Executable: %v", err)
		return
	}
	tmp, err := os.MkdirTemp("", "c19-")
	if err != nil {
		c.Violation("harness: MkdirTemp: %v", err)
		return
	}
	defer os.RemoveAll(tmp)
	var cfgs []childCfg
	for i, tz := range []string{"UTC", "Asia/Tokyo"} {
		home := filepath.Join(tmp, fmt.Sprintf("home%d", i))
		os.MkdirAll(filepath.Join(home, "lib"), 0o755)
		tag := fmt.Sprintf("%q", "cfg"+strconv.Itoa(i))
		os.WriteFile(filepath.Join(home, ".jq"), []byte("def f: "+tag+"; def map(g): "+tag+";\n"), 0o644)
		os.WriteFile(filepath.Join(home, "m.jq"), []byte("def f: "+tag+";\n"), 0o644)
		os.WriteFile(filepath.Join(home, "d.json"), []byte(tag+"\n"), 0o644)
		env := []string{"PATH=" + os.Getenv("PATH"), "HOME=" + home, "TZ=" + tz, "C19_VAR=" + tag, "JQ_LIBRARY_PATH=" + home,
			"GOJQ_COLORS=1;31", "LANG=C", "PAGER=x" + tag}
		if i == 1 {
			env = append(env, "EXTRA=1", "NO_COLOR=1", "LC_ALL=ja_JP.UTF-8")
		}
		cfgs = append(cfgs, childCfg{env, home, fmt.Sprintf("%d %s [%d]\n", i, tag, i)})
	}
	var outs [][]string
	for i, cfg := range cfgs {
		outp := filepath.Join(tmp, fmt.Sprintf("out%d", i))
		cmd := exec.Command(self, "c19child", "-seed", fmt.Sprint(c.Seed), "-n", fmt.Sprint(c.N), "-out", outp, "exclude="+exclude)
		cmd.Env = cfg.env
		cmd.Dir = cfg.dir
		cmd.Stdin = strings.NewReader(cfg.stdin)
		if b, err := cmd.CombinedOutput(); err != nil {
			c.Violation("harness: ambient child %d failed: %v %s", i, err, string(b))
			return
		}
		b, _ := os.ReadFile(outp)
		outs = append(outs, strings.Split(strings.TrimSuffix(string(b), "\n"), "\n"))
	}
	if len(outs[0]) != len(outs[1]) {
		c.Violation("ambient: the two environments produced %d and %d result lines", len(outs[0]), len(outs[1]))
		return
	}
	nd := 0
	for i := range outs[0] {
		c.Nlines++
		if outs[0][i] != outs[1][i] {
			fa, fb := strings.Fields(outs[0][i]), strings.Fields(outs[1][i])
			if len(fa) == 3 && len(fb) == 3 {
				p, _ := hex.DecodeString(fa[0])
				ra, _ := hex.DecodeString(fa[2])
				rb, _ := hex.DecodeString(fb[2])
				idx, _ := strconv.Atoi(fa[1])
				if nd < 5 {
					c.Violation("ambient: query %s on input %s gives %q under one process environment and %q under another (no options given)",
						string(p), ambientInputs[idx%len(ambientInputs)], string(ra), string(rb))
				}
				nd++
			}
		}
		// no option: env is empty, input/modules unreachable, whatever the environment
	}
	c.Stats["ambient_runs_per_env"] = len(outs[0])
	c.Stats["ambient_differences"] = nd
	// spot checks of the expected values (same in both children)
	want := map[string]string{"env": "{}", "$ENV": "{}", "env.HOME": "null", "input": "C:input(s)/0 is not allowed",
		`"m" | modulemeta`: `E:cannot load module: "m"`, `import "m" as m; m::f`: `C:cannot load module: "m"`,
		`include "m"; f`: `C:cannot load module: "m"`, `import "d" as $d; $d`: `C:cannot load module: "d"`,
		"f": "C:function not defined: f/0"}
	seen := 0
	for _, l := range outs[0] {
		f := strings.Fields(l)
		if len(f) != 3 {
			continue
		}
		p, _ := hex.DecodeString(f[0])
		if w, ok := want[string(p)]; ok {
			seen++
			got, _ := hex.DecodeString(f[2])
			if string(got) != w {
				c.Violation("ambient: query %s without options gives %q, expected %q", string(p), string(got), w)
			}
		}
	}
	if seen < len(want) {
		c.Violation("harness: ambient spot checks saw %d result lines, expected at least %d", seen, len(want))
	}
}

// ------------------------------------------------------------------------------------------------
// custom functions versus jq definitions

type valueErr struct{ v any }

func (e *valueErr) Error() string { return "custom error: " + render(e.v) }
func (e *valueErr) Value() any     { return e.v }

func tagged(tag string, x any, xs []any) []any {
	out := []any{tag, x}
	return append(out, xs...)
}

func customOptions() []gojq.CompilerOption {
	arr := func(tag string) func(any, []any) any {
		return func(x any, xs []any) any { return tagged(tag, x, xs) }
	}
	return []gojq.CompilerOption{
		gojq.WithFunction("n0", 0, 0, arr("n0")),
		gojq.WithFunction("nid", 0, 0, func(x any, _ []any) any { return x }),
		gojq.WithFunction("n1", 1, 1, arr("n1")),
		gojq.WithFunction("n2", 2, 2, arr("n2")),
		gojq.WithFunction("n3", 3, 3, arr("n3")),
		gojq.WithFunction("nsnd", 2, 2, func(_ any, xs []any) any { return xs[1] }),
		gojq.WithFunction("nerr", 1, 1, func(_ any, xs []any) any { return &valueErr{xs[0]} }),
		// returns the argument slice ITSELF (a function that keeps or returns what it was given must not see later arguments)
		gojq.WithFunction("nvec", 1, 3, func(_ any, xs []any) any { return xs }),
		// the same through the MERGE of two registrations of one name (arity 1, then 2..3): every registration must get its own copy
		gojq.WithFunction("nvm", 1, 1, func(_ any, xs []any) any { return xs }),
		gojq.WithFunction("nvm", 2, 3, func(_ any, xs []any) any { return xs }),
		// overlapping registrations of one name: 0..2 then 1..3, the same relation (which one runs on 1..2 is the arity stream's business)
		gojq.WithFunction("ov", 0, 2, arr("ov")),
		gojq.WithFunction("ov", 1, 3, arr("ov")),
		gojq.WithFunction("big", 28, 30, arr("big")),
		gojq.WithIterFunction("igen", 1, 1, func(x any, xs []any) gojq.Iter {
			return gojq.NewIter[any](x, xs[0], []any{xs[0]})
		}),
		gojq.WithIterFunction("iempty", 0, 1, func(any, []any) gojq.Iter { return gojq.NewIter[any]() }),
		gojq.WithIterFunction("ione", 0, 0, func(x any, _ []any) gojq.Iter { return gojq.NewIter[any](x) }),
		gojq.WithIterFunction("ierr", 1, 1, func(_ any, xs []any) gojq.Iter {
			return gojq.NewIter[any](xs[0], &valueErr{xs[0]}, "unreachable")
		}),
		gojq.WithIterFunction("i2", 2, 2, func(x any, xs []any) gojq.Iter {
			return gojq.NewIter[any](tagged("i2", x, xs), xs[0])
		}),
	}
}

// the same input/output relations as jq definitions, with the built-in argument order: arguments are
// evaluated as values, the LAST one in the outermost loop
func customDefs() string {
	var b strings.Builder
	b.WriteString(`def d_n0: ["n0", .];
def d_nid: .;
def d_n1(a): a as $a | ["n1", ., $a];
def d_n2(a; b): b as $b | a as $a | ["n2", ., $a, $b];
def d_n3(a; b; c): c as $c | b as $b | a as $a | ["n3", ., $a, $b, $c];
def d_nsnd(a; b): b as $b | a as $a | $b;
def d_nerr(a): a as $a | error($a);
def d_nvec(a): a as $a | [$a];
def d_nvec(a; b): b as $b | a as $a | [$a, $b];
def d_nvec(a; b; c): c as $c | b as $b | a as $a | [$a, $b, $c];
def d_nvm(a): a as $a | [$a];
def d_nvm(a; b): b as $b | a as $a | [$a, $b];
def d_nvm(a; b; c): c as $c | b as $b | a as $a | [$a, $b, $c];
def d_ov: ["ov", .];
def d_ov(a): a as $a | ["ov", ., $a];
def d_ov(a; b): b as $b | a as $a | ["ov", ., $a, $b];
def d_ov(a; b; c): c as $c | b as $b | a as $a | ["ov", ., $a, $b, $c];
def d_igen(a): a as $a | (., $a, [$a]);
def d_iempty: empty;
def d_iempty(a): a as $a | empty;
def d_ione: .;
def d_ierr(a): a as $a | ($a, error($a), "unreachable");
def d_i2(a; b): b as $b | a as $a | (["i2", ., $a, $b], $a);
`)
	for k := 28; k <= 30; k++ {
		ps := make([]string, k)
		for i := range ps {
			ps[i] = "p" + strconv.Itoa(i)
		}
		b.WriteString("def d_big(" + strings.Join(ps, "; ") + "): ")
		for i := k - 1; i >= 0; i-- {
			fmt.Fprintf(&b, "p%d as $p%d | ", i, i)
		}
		b.WriteString(`["big", .`)
		for i := 0; i < k; i++ {
			fmt.Fprintf(&b, ", $p%d", i)
		}
		b.WriteString("];\n")
	}
	return b.String()
}

var customArity = map[string][]int{"n0": {0}, "nid": {0}, "n1": {1}, "n2": {2}, "n3": {3}, "nsnd": {2}, "nerr": {1}, "nvec": {1, 2, 3}, "nvm": {1, 2, 3},
	"ov": {0, 1, 2, 3}, "igen": {1}, "iempty": {0, 1}, "ione": {0}, "ierr": {1}, "i2": {2}}
var customNames = []string{"n0", "nid", "n1", "n2", "n3", "nsnd", "nerr", "nvec", "nvm", "ov", "igen", "iempty", "ione", "ierr", "i2"}

var customArgs = []string{"1", ".", "(1,2)", "(.[]?)", "empty", `error("e")`, `"s"`, "(3,4,5)", ".a?", "first(range(3))",
	"(label $o | 1, break $o, 2)", ".[0]?", "[.]", "(10,20)", "null", "(.a?, .b?)", "try error(1) catch 2", "$v"}

var customContexts = []string{
	"F", "[F]", "try F catch [\"caught\", .]", "[F] | length", "path(F)", "try path(F) catch \"perr\"", "[paths(F)]",
	"first(F)", "[limit(2; F)]", "F as $x | [$x]", "[.[]? | F]", "F | tojson", "reduce F as $x (0; . + 1)",
	"[foreach F as $x (0; . + 1; [$x, .])]", "label $out | F | ., break $out", "[F, F]", "F // \"alt\"", "[F?]",
	". as $d | F", "map_values(F)?", "(.a?) |= F", ". = F", "if F then 1 else 2 end", "[F | select(. != null)]", "F | F",
	"[range(2) as $i | F]", "del(F)?", "try error(F) catch .", "[F] | map(type)", "limit(1; F, F)", "isvalid(F)",
	"first(F, error(\"x\"))", "any(F; true)", "[recurse(F; false)]", "until(true; F)", "[F] | add", "F | getpath([1])?",
	"[path(.. | F)]", "to_entries? | F", "[F | path(.)]", "path(F | .[1]?)", "try (F | error) catch .", "[.. | F]",
	"[F] == [G]", "F, G", "[limit(3; repeat(F))]", "def h: F; [h, h]", "def h(f): f | F; h(.)", "F as [$p, $q] | [$q, $p]",
	"{a: F}", "{(F | tostring): 1}", "[F][0]", "F | .[0]?", "path(first(F))", "[getpath(path(F))]?", "input_filename? // F",
	"(F | type) as $t | $t", "@json \"x\\(F)\"", "[F | tostring] | join(\",\")", "with_entries(.value |= F)?",
	"[splits(\"a\")?] | F", "walk(F)?", "[F | numbers, strings]", "$v | F", "[$v, F]",
}

var customInputs = []string{`null`, `1`, `"s"`, `[1,[2]]`, `{"a":1,"b":[3]}`, `[[0,1],2]`}

var zcount int

// genCall returns the same call three ways: with the Go function (native), with the Go function but every
// argument bound to a variable first (`aK as $zK | … | a1 as $z1 | f($z1; …; $zK)`: the arguments are
// evaluated as values, the last in the outermost loop, outside path tracking), and with the jq definition.
func genCall(r *Rng, depth int) (native, prebound, def string) {
	name := customNames[r.Intn(len(customNames))]
	if r.Chance(1, 25) {
		name = "big"
	}
	var k int
	if name == "big" {
		k = 28 + r.Intn(3)
	} else {
		ar := customArity[name]
		k = ar[r.Intn(len(ar))]
	}
	if k == 0 {
		return name, name, "d_" + name
	}
	na, pa, da := make([]string, k), make([]string, k), make([]string, k)
	for i := 0; i < k; i++ {
		if depth > 0 && r.Chance(1, 6) {
			na[i], pa[i], da[i] = genCall(r, depth-1)
		} else {
			a := customArgs[r.Intn(len(customArgs))]
			if name == "big" && r.Chance(3, 4) {
				a = strconv.Itoa(i)
			}
			na[i], pa[i], da[i] = a, a, a
		}
	}
	zs := make([]string, k)
	pre := ""
	for i := 0; i < k; i++ {
		zcount++
		zs[i] = "$z" + strconv.Itoa(zcount)
	}
	for i := k - 1; i >= 0; i-- {
		pre += pa[i] + " as " + zs[i] + " | "
	}
	return name + "(" + strings.Join(na, "; ") + ")", "(" + pre + name + "(" + strings.Join(zs, "; ") + "))",
		"d_" + name + "(" + strings.Join(da, "; ") + ")"
}

func budgetHit(s string) bool { return strings.Contains(s, "step budget exhausted") }

func runCustomProgram(src string, opts []gojq.CompilerOption, input string) string {
	var v any
	dec := json.NewDecoder(strings.NewReader(input))
	dec.UseNumber()
	dec.Decode(&v)
	res := compileWith(src, opts)
	if res.panicked {
		return "PANIC(compile)"
	}
	if res.err != nil {
		return "C:" + res.err.Error()
	}
	var parts []string
	func() {
		defer func() {
			if r := recover(); r != nil {
				parts = append(parts, fmt.Sprintf("PANIC(%v)", r))
			}
		}()
		it := res.code.RunWithContext(newStepCtx(40000), v, "V")
		for i := 0; i < 40; i++ {
			x, ok := it.Next()
			if !ok {
				break
			}
			parts = append(parts, render(x))
			if _, isErr := x.(error); isErr {
				break
			}
		}
	}()
	return strings.Join(parts, " ; ")
}

// The canonical reproducer of the family "arguments of a native are evaluated in path-tracking mode":
const pathArgCase = "custom: `path(nsnd(null; .[1]))` on input [1,[2]] gives %q with Go functions (WithFunction) but %q with the equivalent jq definition `def d_nsnd(a; b): b as $b | a as $a | $b; path(d_nsnd(null; .[1]))`"

func runCustom(c *Ctx, n int) {
	opts := append(customOptions(), gojq.WithVariables([]string{"$v"}))
	dopts := []gojq.CompilerOption{gojq.WithVariables([]string{"$v"})}
	defs := customDefs()
	r := c.Rng
	diffs, family := 0, 0
	skipped, skippedOneSided := 0, 0
	subst := func(ctxt, f, g string) string {
		return strings.ReplaceAll(strings.ReplaceAll(ctxt, "F", f), "G", g)
	}
	// fixed reproducer first: one canonical case for the whole family
	{
		a := runCustomProgram("path(nsnd(null; .[1]))", opts, "[1,[2]]")
		b := runCustomProgram(defs+"path(d_nsnd(null; .[1]))", dopts, "[1,[2]]")
		if a != b {
			c.Violation(pathArgCase, a, b)
		}
	}
	try := func(ctxt string, f, g [3]string) {
		np := subst(ctxt, f[0], g[0])
		pp := subst(ctxt, f[1], g[1])
		dp := defs + subst(ctxt, f[2], g[2])
		for _, in := range customInputs {
			a := runCustomProgram(np, opts, in)
			b := runCustomProgram(dp, dopts, in)
			// function-not-defined messages name the function: project the d_ prefix away
			b = strings.ReplaceAll(b, "d_", "")
			c.Nlines++
			c.Count("custom")
			// the harness's own step budget ran out on either side: inconclusive, never a failing input
			if budgetHit(a) || budgetHit(b) {
				skipped++
				if budgetHit(a) != budgetHit(b) {
					skippedOneSided++
				}
				c.Count("custom:skipped-budget")
				continue
			}
			if a == b {
				continue
			}
			// Is the difference explained by the arguments having been evaluated in path-tracking mode?
			// (then binding them to variables first makes the Go function agree with the definition)
			p := runCustomProgram(pp, opts, in)
			if budgetHit(p) {
				skipped++
				c.Count("custom:skipped-budget")
				continue
			}
			if p == b {
				family++
				continue
			}
			diffs++
			if diffs <= 5 {
				c.Violation("custom: `%s` on input %s gives %q with Go functions (WithFunction/WithIterFunction) but %q with the equivalent jq definitions `%s`",
					np, in, a, b, subst(ctxt, f[2], g[2]))
			}
		}
	}
	gen := func(d int) [3]string {
		a, b, cc := genCall(r, d)
		return [3]string{a, b, cc}
	}
	// every context at least twice
	for _, ctxt := range customContexts {
		if !strings.Contains(ctxt, "F") {
			continue
		}
		for i := 0; i < 2; i++ {
			try(ctxt, gen(1), gen(0))
		}
	}
	for i := 0; i < n; i++ {
		ctxt := customContexts[r.Intn(len(customContexts))]
		if r.Chance(1, 4) { // nest two contexts
			ctxt = strings.ReplaceAll(customContexts[r.Intn(len(customContexts))], "F", "("+ctxt+")")
		}
		try(ctxt, gen(2), gen(1))
	}
	c.Stats["custom_differences"] = diffs
	c.Stats["custom_differences_explained_by_path_tracked_arguments"] = family
	c.Stats["custom_skipped_budget"] = skipped
	c.Stats["custom_skipped_budget_one_sided"] = skippedOneSided
	// cap on the skip rate, so that a real hang of one side still shows: more than 2% (and more than 20) of the
	// comparisons inconclusive because exactly ONE side exhausted the budget -> broken correspondence
	if total := c.Dist["custom"]; skippedOneSided > 20 && skippedOneSided*50 > total {
		c.Violation("harness: %d of %d native-vs-def comparisons were inconclusive because exactly one side exhausted the step budget (cap: 2%%)",
			skippedOneSided, total)
	}
	// unregistered arities are "function not defined", exactly like a missing def
	for name, ar := range customArity {
		has := map[int]bool{}
		for _, k := range ar {
			has[k] = true
		}
		for k := 0; k <= 4; k++ {
			if has[k] {
				continue
			}
			src := name
			if k > 0 {
				src += "(" + strings.TrimSuffix(strings.Repeat("1;", k), ";") + ")"
			}
			if res := compileWith(src, opts); res.err == nil || res.err.Error() != fmt.Sprintf("function not defined: %s/%d", name, k) {
				c.Violation("custom: %s compiles although arity %d was not registered (err=%v)", src, k, res.err)
			}
		}
	}
}

// ------------------------------------------------------------------------------------------------
// history: the output of Code.Run(v) is a function of the query and v alone — not of what the same Code
// (or another Code compiled from the same parsed Query) was run on before

var historyInputs = []string{
	`{"s":"aXbxa","re":"x","flags":null}`, `{"s":"aXbxa","re":"x","flags":""}`, `{"s":"aXbxa","re":"x","flags":"g"}`,
	`{"s":"aXbxa","re":"x","flags":"gi"}`, `{"s":"aXbxa","re":"x","flags":"ig"}`, `{"s":"aXbxa","re":"x","flags":"i"}`,
	`{"s":"aXbxa","re":"x","flags":"z"}`, `{"s":"aXbxa","re":"x","flags":"gz"}`, `{"s":"aXbxa","re":"x","flags":"x"}`,
	`{"s":"aXbxa","re":"x","flags":"n"}`, `{"s":"aXbxa","re":"x","flags":"is"}`, `{"s":"aXbxa","re":"x","flags":" "}`,
	`{"s":"a\nb","re":"a.b","flags":"m"}`, `{"s":"a\nb","re":"a.b","flags":"s"}`, `{"s":"a\nb","re":"a.b","flags":"ms"}`,
	`{"s":"aXbxa","re":"(","flags":""}`, `{"s":"aXbxa","re":"(","flags":"g"}`, `{"s":"aXbxa","re":"(","flags":"q"}`,
	`{"s":"aXbxa","re":"X","flags":"l"}`, `{"s":"aXbxa","re":"X","flags":""}`, `{"s":"aXbxa","re":"(?i)x","flags":"p"}`,
	`{"s":1425599507,"re":"%Y-%m-%dT%H:%M:%SZ","flags":"%j"}`, `{"s":"2015-03-05T23:51:47Z","re":"%Y-%m-%dT%H:%M:%SZ","flags":"%Q"}`,
	`{"s":[1,2],"re":"a","flags":"g"}`, `{"s":"abc","re":1,"flags":2}`, `"aXbxa"`, `null`, `[1,[2],"x"]`, `{"a":1,"b":[2]}`,
}

var historyPrograms = []string{
	`. as $o | .s | test($o.re; $o.flags)`, `. as $o | .s | [match($o.re; $o.flags)] | length`,
	`. as $o | .s | sub($o.re; "-"; $o.flags)`, `. as $o | .s | gsub($o.re; "-"; $o.flags)`,
	`. as $o | .s | [scan($o.re; $o.flags)]`, `. as $o | .s | [splits($o.re; $o.flags)]`, `. as $o | .s | split($o.re; $o.flags)`,
	`. as $o | .s | capture($o.re; $o.flags)`, `. as $o | .s | [match([$o.re, $o.flags])]`, `. as $o | .s | test($o.re)`,
	`. as $o | .s | ascii_downcase? | test($o.re; $o.flags)`, `. as $o | .s | (test($o.re; "g"), test($o.re; $o.flags))`,
	`. as $o | .s | try test($o.re; $o.flags) catch "caught"`, `. as $o | .s | strftime($o.re)`, `. as $o | .s | strptime($o.re)`,
	`. as $o | .s | strftime($o.flags)`, `. as $o | .s | ltrimstr($o.re)`, `. as $o | .s | split($o.re)`, `. as $o | .s | index($o.re)`,
	`. as $o | .s | @base64`, `. as $o | .s | tojson`, `. as $o | .s | ascii`, `. as $o | .s | [limit(3; repeat($o.re))]`,
	`.s |= 1`, `del(.re)`, `to_entries`, `[paths]`, `.flags // "none"`, `[.[]?] | sort`, `{a: .s} | .a`, `. as [$x] | $x`, `tostring`,
}

func decodeJSON(s string) any {
	var v any
	dec := json.NewDecoder(strings.NewReader(s))
	dec.UseNumber()
	dec.Decode(&v)
	return v
}

func runCode(code *gojq.Code, input string) string {
	var parts []string
	func() {
		defer func() {
			if r := recover(); r != nil {
				parts = append(parts, fmt.Sprintf("PANIC(%v)", r))
			}
		}()
		it := code.RunWithContext(newStepCtx(60000), decodeJSON(input))
		for i := 0; i < 12; i++ {
			v, ok := it.Next()
			if !ok {
				break
			}
			parts = append(parts, render(v))
			if _, isErr := v.(error); isErr {
				break
			}
		}
	}()
	return strings.Join(parts, " ; ")
}

func runHistory(c *Ctx, n int, exclude map[string]bool) {
	r := c.Rng
	progs := append([]string{}, historyPrograms...)
	for _, p := range ambientPrograms(c.Seed, n, exclude) {
		if r.Chance(1, 6) {
			progs = append(progs, p)
		}
	}
	inputs := append([]string{}, historyInputs...)
	inputs = append(inputs, ambientInputs...)
	diffs := 0
	hskipped := 0
	defer func() { c.Stats["history_skipped_budget"] = hskipped }()
	report := func(p, in, how, fresh, warm string) {
		if budgetHit(fresh) || budgetHit(warm) { // inconclusive
			hskipped++
			return
		}
		diffs++
		if diffs <= 5 {
			c.Violation("history: query `%s` on input %s gives %q on a fresh Code but %q %s (no options given)", p, in, fresh, warm, how)
		}
	}
	for _, p := range progs {
		q, err := gojq.Parse(p)
		if err != nil {
			continue
		}
		warm, err := gojq.Compile(q)
		if err != nil {
			continue
		}
		// fresh results: a new Code (from a newly parsed Query) per input
		fresh := make([]string, len(inputs))
		for i, in := range inputs {
			q1, _ := gojq.Parse(p)
			c1, err := gojq.Compile(q1)
			if err != nil {
				fresh[i] = "C:" + err.Error()
				continue
			}
			fresh[i] = runCode(c1, in)
		}
		// the same Code over all inputs in order, then in a random order (valid flags before and after invalid ones)
		for i, in := range inputs {
			if got := runCode(warm, in); got != fresh[i] {
				report(p, in, fmt.Sprintf("on a Code that was run on inputs %s before", strings.Join(inputs[:i], " ")), fresh[i], got)
			}
			c.Nlines++
		}
		prev := "all inputs in order"
		for k := 0; k < len(inputs); k++ {
			i := r.Intn(len(inputs))
			if got := runCode(warm, inputs[i]); got != fresh[i] {
				report(p, inputs[i], "on a Code that was run on "+prev+" before", fresh[i], got)
			}
			prev = "all inputs in order, …, " + inputs[i]
			c.Nlines++
		}
		// a second Code compiled from the SAME parsed Query after the first one has run
		second, err := gojq.Compile(q)
		if err != nil {
			c.Violation("history: query `%s` compiles once but not a second time from the same parsed Query: %v", p, err)
			continue
		}
		for k := len(inputs) - 1; k >= 0; k -= 1 + r.Intn(3) {
			if got := runCode(second, inputs[k]); got != fresh[k] {
				report(p, inputs[k], "on a second Code compiled from the same parsed Query", fresh[k], got)
			}
			c.Nlines++
		}
		c.Count("history")
	}
	c.Stats["history_programs"] = len(progs)
	c.Stats["history_differences"] = diffs
}

// argument order at every arity 0..30: `vec` returns its argument vector, `pkK` returns xs[K]; the equivalent
// definitions bind the arguments as values, the LAST one in the outermost loop
func runArgOrder(c *Ctx) {
	r := c.Rng
	opts := []gojq.CompilerOption{
		gojq.WithFunction("vec", 0, 30, func(_ any, xs []any) any { return append([]any{}, xs...) }), // xs is a shared buffer
		gojq.WithIterFunction("ivec", 0, 30, func(x any, xs []any) gojq.Iter {
			return gojq.NewIter[any](append([]any{}, xs...), len(xs))
		}),
		gojq.WithVariables([]string{"$v"}),
	}
	dopts := []gojq.CompilerOption{gojq.WithVariables([]string{"$v"})}
	for k := 0; k < 30; k++ {
		k := k
		opts = append(opts, gojq.WithFunction("pk"+strconv.Itoa(k), k+1, 30, func(_ any, xs []any) any { return xs[k] }))
	}
	defVec := func(n int) string {
		if n == 0 {
			return "def d_vec: [];\n"
		}
		ps := make([]string, n)
		for i := range ps {
			ps[i] = "a" + strconv.Itoa(i)
		}
		var b strings.Builder
		b.WriteString("def d_vec(" + strings.Join(ps, "; ") + "): ")
		for i := n - 1; i >= 0; i-- {
			fmt.Fprintf(&b, "a%d as $a%d | ", i, i)
		}
		b.WriteString("[")
		for i := 0; i < n; i++ {
			if i > 0 {
				b.WriteString(", ")
			}
			fmt.Fprintf(&b, "$a%d", i)
		}
		b.WriteString("];\n")
		return b.String()
	}
	diffs, argSkipped := 0, 0
	cmp := func(native, def string) {
		a := runCustomProgram(native, opts, "null")
		b := runCustomProgram(def, dopts, "null")
		c.Nlines++
		c.Count("argorder")
		if budgetHit(a) || budgetHit(b) {
			c.Count("argorder:skipped-budget")
			argSkipped++
			return
		}
		if a != b {
			diffs++
			if diffs <= 5 {
				c.Violation("custom: `%s` gives %q with Go functions (WithFunction 0..30 returning their argument vector / xs[k]) but %q with the equivalent jq definition `%s`",
					native, a, b, def)
			}
		}
	}
	for n := 0; n <= 30; n++ {
		for rep := 0; rep < 2; rep++ {
			args := make([]string, n)
			for i := range args {
				args[i] = strconv.Itoa(100 + i)
			}
			// two generator arguments make the enumeration order visible
			if n > 0 && rep == 1 {
				i, j := r.Intn(n), r.Intn(n)
				args[i] = fmt.Sprintf("(%d, %d)", 1000+i, 2000+i)
				args[j] = fmt.Sprintf("(%d, %d)", 1000+j, 2000+j)
			}
			call := ""
			if n > 0 {
				call = "(" + strings.Join(args, "; ") + ")"
			}
			cmp("[vec"+call+"]", defVec(n)+"[d_vec"+call+"]")
			cmp("[ivec"+call+"]", defVec(n)+"[d_vec"+call+" | (., length)]")
			cmp("[path(vec"+call+")?]", defVec(n)+"[path(d_vec"+call+")?]")
			ks := []int{0, n - 1, n / 2}
			if n > 0 {
				ks = append(ks, r.Intn(n))
			}
			for _, k := range ks {
				if k >= 0 && k < n {
					cmp(fmt.Sprintf("[pk%d%s]", k, call), defVec(n)+fmt.Sprintf("[d_vec%s | .[%d]]", call, k))
				}
			}
		}
	}
	c.Stats["argorder_differences"] = diffs
	c.Stats["argorder_skipped_budget"] = argSkipped
	if argSkipped > 0 { // these programs are tiny: any budget exhaustion here is a hang
		c.Violation("harness: %d argument-order comparisons exhausted the step budget", argSkipped)
	}
}

func runImpl(c *Ctx) {
	exclude := ""
	for _, a := range c.Args {
		if strings.HasPrefix(a, "exclude=") {
			exclude = strings.TrimPrefix(a, "exclude=")
		}
	}
	runAmbient(c, exclude)
	runHistory(c, c.N, parseExclude(c.Args))
	runCustom(c, c.N)
	runArgOrder(c)
}
