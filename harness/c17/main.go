// C17 harness: runs the IMPLEMENTATION (getLineByOffset through the hook, the command in-process
// through cli.VerifRunC17 with seekable / non-seekable readers, gojq.Parse, and in the thorough tier
// the built binary with real files and pipes) on inputs with one injected fault and writes one
// s-expression per case (format: coq/c17/Run.v).  Verdicts are decided by the extracted Gallina.
package main

import (
	"bytes"
	"encoding/json"
	"errors"
	"fmt"
	"io"
	"os"
	"os/exec"
	"path/filepath"
	"sort"
	"strconv"
	"strings"
	"unicode/utf8"
	. "verifharness/hlib"

	yaml "github.com/itchyny/go-yaml"
	"github.com/itchyny/gojq"
	"github.com/itchyny/gojq/cli"
	runewidth "github.com/mattn/go-runewidth"
)

func main() {
	Register("lbo", runLbo)
	Register("json", runJSON)
	Register("canon", runCanon)
	Register("crwin", runCRWindow)
	Register("query", runQuery)
	Register("yaml", runYAML)
	Register("tokens", runTokens)
	Register("modules", runModules)
	Register("bin", runBin)
	Register("replay", runReplay)
	Main()
}

// ---------------------------------------------------------------------------------------------
// width table and additivity

// swtab renders (sw w0 ... wn), wi = runewidth.StringWidth(x[:i]) for every byte index i of the excerpt
// x the implementation printed: the model and the oracle need the display width of excerpt prefixes
// only, and StringWidth (grapheme clusters, invalid bytes) is go-runewidth's business.
func swtab(x string) string {
	var b strings.Builder
	b.WriteString("(sw")
	for i := 0; i <= len(x); i++ {
		fmt.Fprintf(&b, " %d", runewidth.StringWidth(x[:i]))
	}
	b.WriteString(")")
	return b.String()
}

// excerptOf extracts the hex excerpt of a (rep ...) rendering
func excerptOf(rep string) string {
	f := strings.Fields(strings.Trim(rep, "()"))
	if len(f) < 4 || f[2] == "-" {
		return ""
	}
	var out []byte
	fmt.Sscanf(f[2], "%x", &out)
	return string(out)
}

// ---------------------------------------------------------------------------------------------
// text generators

const asciiAlpha = "abcdefghijklmnopqrstuvwxyz0123456789 {}[]:,._-"

var multiUnits = []string{"\u00e9", "\u4e16", "\u754c", "\U0001F600", "e\u0301", "\ufffd", "\t", "\u3042", "\u00df"}
var invalidUnits = []string{"\x80", "\xff", "\xe3", "\xe3\x81", "\xf0\x9f", "\xc0\xaf", "\xed\xa0\x80"}

func genText(r *Rng, n int, class int) string {
	var b strings.Builder
	for b.Len() < n {
		switch {
		case class == 0 || r.Chance(1, 2):
			b.WriteByte(asciiAlpha[r.Intn(len(asciiAlpha))])
		case class == 2 && r.Chance(1, 3):
			b.WriteString(invalidUnits[r.Intn(len(invalidUnits))])
		default:
			b.WriteString(multiUnits[r.Intn(len(multiUnits))])
		}
	}
	return b.String()
}

var terms = []string{"\n", "\r\n", "\r"}

func lineLen(r *Rng) int {
	switch r.Intn(8) {
	case 0:
		return r.Intn(4)
	case 1, 2:
		return 44 + r.Intn(14)
	case 3:
		return 60 + r.Intn(12)
	case 4:
		return 100 + r.Intn(40)
	case 5:
		return 4 + r.Intn(30)
	case 6:
		return 180 + r.Intn(60)
	default:
		return r.Intn(80)
	}
}

// ---------------------------------------------------------------------------------------------
// stream lbo: getLineByOffset directly

func runLbo(c *Ctx) {
	emit := func(s string, off int) {
		ls, line, col := cli.VerifGetLineByOffset(s, off)
		c.Emit("(lbo %s %d %s %d %d %s)", Hexs([]byte(s)), off, Hexs([]byte(ls)), line, col, swtab(ls))
		c.Count("lbo")
	}
	// the repository's own table-test strings first
	for _, s := range []string{"", "abc", "abc\ndef\nghi", "abc\rdef\rghi", "abc\r\ndef\r\nghi", "\n", "\r\n", "\r", "\n\n", "\r\r\n\n", "a\r\n"} {
		for off := -2; off <= len(s)+3; off++ {
			emit(s, off)
		}
	}
	for i := 0; i < c.N; i++ {
		r := c.Rng.Fork()
		class := i % 3
		nl := 1 + r.Intn(5)
		tmode := r.Intn(4)
		var b strings.Builder
		for j := 0; j < nl; j++ {
			b.WriteString(genText(r, lineLen(r), class))
			t := terms[r.Intn(3)]
			if tmode < 3 {
				t = terms[tmode]
			}
			if j < nl-1 || r.Chance(1, 2) {
				b.WriteString(t)
			}
		}
		s := b.String()
		offs := map[int]bool{}
		if len(s) <= 160 || c.Tier == "thorough" {
			for off := -1; off <= len(s)+2; off++ {
				offs[off] = true
			}
		} else {
			pos := 0
			for _, ln := range strings.SplitAfter(s, "\n") {
				for _, d := range []int{-2, -1, 0, 1, 2, 3, 45, 47, 48, 49, 50, 51, 52, 53, 60, 63, 64, 65, 66, 67} {
					offs[pos+d] = true
				}
				pos += len(ln)
				for d := -3; d <= 1; d++ {
					offs[pos+d] = true
				}
			}
			for k := 0; k < 30; k++ {
				offs[r.Intn(len(s)+2)] = true
			}
		}
		keys := make([]int, 0, len(offs))
		for k := range offs {
			keys = append(keys, k)
		}
		sort.Ints(keys)
		for _, off := range keys {
			emit(s, off)
		}
	}
}

// ---------------------------------------------------------------------------------------------
// readers / writers for in-process runs

// pipeReader is NOT an io.Seeker: newInputReader takes the TeeReader path, as for a pipe on stdin.
// It hands out at most the next size of its policy per Read and never splits a UTF-8 sequence of
// valid input.
type pipeReader struct {
	data   []byte
	pos    int
	policy []int // cycle of chunk sizes; 0 = as much as asked
	k      int
}

func (p *pipeReader) Read(b []byte) (int, error) {
	if p.pos >= len(p.data) {
		return 0, io.EOF
	}
	n := len(b)
	if sz := p.policy[p.k%len(p.policy)]; sz > 0 && sz < n {
		n = sz
	}
	p.k++
	if n > len(p.data)-p.pos {
		n = len(p.data) - p.pos
	}
	// do not split a multi-byte character if there is room
	for n < len(p.data)-p.pos && n < len(b) && !utf8.RuneStart(p.data[p.pos+n]) {
		n++
	}
	copy(b, p.data[p.pos:p.pos+n])
	p.pos += n
	return n, nil
}

var policies = map[string][]int{
	"full": {0}, "1": {1}, "7": {7}, "512": {512}, "4096": {4096}, "100": {100},
	"cyc": {1, 3, 700, 64, 5000, 2, 16384, 333},
}
var policyNames = []string{"full", "1", "7", "512", "4096", "100", "cyc"}

// outRecorder samples the number of bytes read so far at every "\n" written to stdout (the command
// writes the value and then "\n" after each delivered input value).
type outRecorder struct {
	pr    *pipeReader
	marks []int
}

func (o *outRecorder) Write(b []byte) (int, error) {
	if len(b) == 1 && b[0] == '\n' && o.pr != nil {
		o.marks = append(o.marks, o.pr.pos)
	}
	return len(b), nil
}

type errRecorder struct {
	pr    *pipeReader
	buf   bytes.Buffer
	first int
}

func (e *errRecorder) Write(b []byte) (int, error) {
	if e.buf.Len() == 0 && e.pr != nil {
		e.first = e.pr.pos
	}
	return e.buf.Write(b)
}

// ---------------------------------------------------------------------------------------------
// stderr parsing: "gojq: <kind><fname>:<line>\n    <line> | <excerpt>\n<pad>^  msg" or
//                 "gojq: <kind><shown>\n    <excerpt>\n    <pad>^  msg"

func parseReport(stderr string, kind, fname, shown string) string {
	fail := "(rep - - 0)"
	pre := "gojq: " + kind
	if !strings.HasPrefix(stderr, pre) {
		return fail
	}
	rest := stderr[len(pre):]
	if strings.HasPrefix(rest, fname+":") {
		r2 := rest[len(fname)+1:]
		nl := strings.IndexByte(r2, '\n')
		if nl > 0 {
			if line, err := strconv.Atoi(r2[:nl]); err == nil {
				body := r2[nl+1:]
				p := "    " + r2[:nl] + " | "
				if strings.HasPrefix(body, p) {
					body = body[len(p):]
					if e := strings.IndexByte(body, '\n'); e >= 0 {
						excerpt, caret := body[:e], body[e+1:]
						sp := 0
						for sp < len(caret) && caret[sp] == ' ' {
							sp++
						}
						if sp < len(caret) && caret[sp] == '^' && sp >= len(p) {
							return fmt.Sprintf("(rep %d %s %d)", line, Hexs([]byte(excerpt)), sp-len(p))
						}
					}
				}
			}
		}
	}
	if strings.HasPrefix(rest, shown+"\n    ") {
		body := rest[len(shown)+5:]
		if e := strings.IndexByte(body, '\n'); e >= 0 {
			excerpt, caret := body[:e], body[e+1:]
			sp := 0
			for sp < len(caret) && caret[sp] == ' ' {
				sp++
			}
			if sp < len(caret) && caret[sp] == '^' && sp >= 4 {
				return fmt.Sprintf("(rep - %s %d)", Hexs([]byte(excerpt)), sp-4)
			}
		}
	}
	return fail
}

// ---------------------------------------------------------------------------------------------
// JSON inputs

// rle encodes data as (in (r n hex)...) grouping consecutive identical lines.
func rle(data []byte) string {
	var b strings.Builder
	b.WriteString("(in")
	var lines [][]byte
	for st, i := 0, 0; i < len(data); i++ {
		if data[i] == '\n' || data[i] == '\r' && (i+1 == len(data) || data[i+1] != '\n') || i+1 == len(data) {
			lines = append(lines, data[st:i+1])
			st = i + 1
		}
	}
	for i := 0; i < len(lines); {
		if len(lines[i]) == 0 {
			i++
			continue
		}
		j := i
		for j < len(lines) && bytes.Equal(lines[j], lines[i]) {
			j++
		}
		fmt.Fprintf(&b, " (r %d %s)", j-i, Hexs(lines[i]))
		i = j
	}
	b.WriteString(")")
	return b.String()
}

// independent run of encoding/json over the whole input: the offset of the first offending byte
func refJSONError(data []byte) (kind string, ok bool) {
	dec := json.NewDecoder(bytes.NewReader(data))
	dec.UseNumber()
	for {
		var v any
		err := dec.Decode(&v)
		if err == nil {
			continue
		}
		if err == io.EOF {
			return "", false
		}
		var se *json.SyntaxError
		if errors.As(err, &se) {
			return fmt.Sprintf("(syn %d)", se.Offset), true
		}
		if err == io.ErrUnexpectedEOF {
			return "eof", true
		}
		return "", false
	}
}

type jsonCase struct {
	data      []byte
	transport string // seek | pipe | file
	policy    string
	stream    bool // --stream
}

// trace runs the command's input iterator over a non-seekable reader with the given read policy and
// returns the (bytes read, bytes consumed) pairs of the delivered values, the bytes read at the error,
// the iterator's offset/line at the error and the raw offset encoding/json reported.
func trace(data []byte, policy string, stream bool) (steps string, off int64, line int, raw int64) {
	pr := &pipeReader{data: data, policy: policies[policy]}
	var cb strings.Builder
	cb.WriteString("(c")
	raw = -1
	cli.VerifC17Trace(pr, stream, func(done bool, pos, offset int64, ln int, rawErr int64) {
		if done {
			cb.WriteString(" " + strconv.Itoa(pr.pos))
			off, line, raw = offset, ln, rawErr
			return
		}
		cb.WriteString(" (" + strconv.Itoa(pr.pos) + " " + strconv.FormatInt(pos, 10) + ")")
	})
	cb.WriteString(")")
	return cb.String(), off, line, raw
}

// probeCounting observes which counting of the bytes dropped before the window the implementation under test
// uses, separately for the two sites of cli/inputs.go (getContents for seekable input, jsonInputIter.Next for
// non-seekable input), on 200 x 100-byte documents terminated by a lone CR followed by a faulty document:
// the code before the repair of finding cr-window (bytes.Count(dropped, "\n")) leaves i.line at 0 on the pipe
// path and reports a line below 201 on the seekable path.  The result only selects which instance of the Coq
// model (Window.v, flag crfix) the MODEL verdict is computed with (atom lfcount in the transport list = old
// counting); the SPEC verdict does not depend on it.  An implementation that counts in a third way disagrees
// with both instances and shows up as a model mismatch.
var countingProbe struct {
	done      bool
	seek, pip string
}

func countingAtom(transport string) string {
	p := &countingProbe
	if !p.done {
		p.done = true
		docCR := []byte(`{"a":"` + strings.Repeat("x", 91) + `"}` + "\r")
		cr := append(bytes.Repeat(docCR, 200), []byte(`{"b": tru }`+"\r")...)
		if _, _, ln, _ := trace(cr, "full", false); ln == 0 {
			p.pip = " lfcount"
		}
		var out, er bytes.Buffer
		cli.VerifRunC17([]string{"-c", "0"}, bytes.NewReader(cr), &out, &er)
		if !strings.HasPrefix(er.String(), "gojq: invalid json: <stdin>:201\n") {
			p.seek = " lfcount"
		}
	}
	if transport == "pipe" {
		return p.pip
	}
	return p.seek
}

func runJSONCase(c *Ctx, jc jsonCase, tmpdir string) (line string, ok bool) {
	errk, has := refJSONError(jc.data)
	if !has {
		c.Count("json:no-error-skipped")
		return "", false
	}
	var stdin io.Reader
	args := []string{"-c", "0"}
	sfx := ""
	if jc.stream {
		args = []string{"--stream", "-c", "0"}
		sfx = " stream"
	}
	fname := "<stdin>"
	sfx += countingAtom(jc.transport)
	tr := "(" + jc.transport + sfx + ")"
	chunks, state := "(c)", "(st)"
	switch jc.transport {
	case "seek":
		stdin = bytes.NewReader(jc.data)
	case "pipe":
		stdin = &pipeReader{data: jc.data, policy: policies[jc.policy]}
		tr = "(pipe " + jc.policy + sfx + ")"
		st, off, ln, _ := trace(jc.data, jc.policy, jc.stream)
		chunks, state = st, fmt.Sprintf("(st %d %d)", off, ln)
	case "file":
		fname = filepath.Join(tmpdir, "in.json")
		if err := os.WriteFile(fname, jc.data, 0o644); err != nil {
			panic(err)
		}
		args = append(args, fname)
		stdin = strings.NewReader("")
	}
	if strings.HasPrefix(errk, "(syn ") {
		// the offset encoding/json gives the command: the same as the plain decoder's, except under --stream
		raw := strings.TrimSuffix(strings.TrimPrefix(errk, "(syn "), ")")
		if jc.stream {
			_, _, _, r := trace(jc.data, "full", true)
			raw = strconv.FormatInt(r, 10)
			if r < 0 {
				c.Count("json:stream-other-error-skipped")
				return "", false
			}
		}
		errk = strings.TrimSuffix(errk, ")") + " " + raw + ")"
	}
	var out bytes.Buffer
	var er bytes.Buffer
	cli.VerifRunC17(args, stdin, &out, &er)
	stderr := er.String()
	rep := parseReport(stderr, "invalid json: ", fname, fname)
	c.Count("json:" + jc.transport + strings.TrimSuffix(sfx, " lfcount"))
	return fmt.Sprintf("(json %s %s %s %s %s %s %s %s %s)", tr, Hexs([]byte(fname)), rle(jc.data), errk, chunks, state,
		Hexs([]byte(stderr)), rep, swtab(excerptOf(rep))), true
}

// a well-formed multi-line document of roughly the given size; term = line terminator
func genDoc(r *Rng, size int, term string, class int) []byte {
	var b bytes.Buffer
	b.WriteString("{" + term)
	b.WriteString(`  "name": "` + jsonText(r, 3+r.Intn(20), class) + `",` + term)
	b.WriteString(`  "list": [1, 2.5, -3e2, true, false, null],` + term)
	b.WriteString(`  "items": [` + term)
	el := `    "` + jsonText(r, 20+r.Intn(70), class) + `"`
	first := true
	for b.Len()+len(el)+40 < size {
		if !first {
			b.WriteString("," + term)
		}
		first = false
		b.WriteString(el)
	}
	b.WriteString(term + "  ]," + term)
	b.WriteString(`  "nested": {"k": {"deep": [{"x": "` + jsonText(r, 5, class) + `"}]}}` + term)
	b.WriteString("}" + term)
	return b.Bytes()
}

// one long line (exercises the 48/64 excerpt window inside real documents)
func genLongLineDoc(r *Rng, size int, term string, class int) []byte {
	var b bytes.Buffer
	b.WriteString("[" + term + "  [")
	first := true
	for b.Len()+30 < size {
		if !first {
			b.WriteString(", ")
		}
		first = false
		b.WriteString(`"` + jsonText(r, 1+r.Intn(12), class) + `"`)
	}
	b.WriteString("]" + term + "]" + term)
	return b.Bytes()
}

func jsonText(r *Rng, n int, class int) string {
	const al = "abcdefghijklmnopqrstuvwxyz0123456789 _-."
	units := []string{"\u00e9", "\u4e16", "\U0001F600", "e\u0301", "\u3042"}
	var b strings.Builder
	for b.Len() < n {
		if class == 0 || r.Chance(2, 3) {
			b.WriteByte(al[r.Intn(len(al))])
		} else {
			b.WriteString(units[r.Intn(len(units))])
		}
	}
	return b.String()
}

// preceding valid documents of the given total size (within one document size)
func genPreceding(r *Rng, total int, docsize int, term string) []byte {
	if total <= 0 {
		return nil
	}
	var doc []byte
	switch {
	case docsize <= 12:
		doc = []byte("12345" + term)
	default:
		doc = []byte(`{"a":"` + strings.Repeat("x", docsize-9-len(term)+1) + `"}` + term)
	}
	var b bytes.Buffer
	for b.Len()+len(doc) <= total {
		b.Write(doc)
	}
	return b.Bytes()
}

func corrupt(doc []byte, x int, kind int) []byte {
	out := append([]byte(nil), doc...)
	switch kind {
	case 0:
		out[x] = 0x01
	case 1:
		out[x] = '?'
	case 2:
		out[x] = '}'
	default: // truncate: unexpected EOF
		out = out[:x]
	}
	return out
}

func positions(r *Rng, doc []byte, all bool, extra int) []int {
	if all {
		xs := make([]int, len(doc))
		for i := range xs {
			xs[i] = i
		}
		return xs
	}
	set := map[int]bool{0: true, 1: true, len(doc) - 1: true, len(doc) - 2: true, len(doc) / 2: true}
	// boundaries of lines
	for i, b := range doc {
		if (b == '\n' || b == '\r') && r.Chance(1, 1+len(doc)/400) {
			for d := -2; d <= 2; d++ {
				if i+d >= 0 && i+d < len(doc) {
					set[i+d] = true
				}
			}
		}
	}
	for k := 0; k < extra; k++ {
		set[r.Intn(len(doc))] = true
	}
	xs := make([]int, 0, len(set))
	for k := range set {
		if k >= 0 && k < len(doc) {
			xs = append(xs, k)
		}
	}
	sort.Ints(xs)
	return xs
}

func runJSON(c *Ctx) {
	tmp, _ := os.MkdirTemp("", "c17h")
	defer os.RemoveAll(tmp)
	quick := c.Tier != "thorough"
	docSizes := []int{40, 300, 3000, 17000, 40000, 66000}
	precTotals := []int{0, 250, 8000, 16100, 16384, 16500, 20000, 33000, 49200, 66000}
	precDocs := []int{10, 100, 1000, 5000}
	budget := c.N
	emitCase := func(jc jsonCase) {
		if budget <= 0 {
			return
		}
		if l, ok := runJSONCase(c, jc, tmp); ok {
			c.Emit("%s", l)
			budget--
		}
	}
	round := 0
	for budget > 0 && round < 1000 {
		round++
		r := c.Rng.Fork()
		for di, ds := range docSizes {
			for ti, term := range terms {
				class := (round + di + ti) % 2
				var doc []byte
				if (round+di)%4 == 3 && (ds <= 17000 || !quick && round%4 == 0) {
					doc = genLongLineDoc(r, ds, term, class)
				} else {
					doc = genDoc(r, ds, term, class)
				}
				all := len(doc) < 120 && round == 1
				nx := 3
				if !quick {
					nx = 12
				}
				for _, x := range positions(r, doc, all, nx) {
					kind := r.Intn(4)
					pt := precTotals[r.Intn(len(precTotals))]
					pd := precDocs[r.Intn(len(precDocs))]
					if all {
						pt = 0
					}
					if pd == 10 && pt > 20000 {
						pd = 100 // thousands of tiny documents cost the implementation a new env each
					}
					prec := genPreceding(r, pt, pd, term)
					bad := corrupt(doc, x, kind)
					data := append(append([]byte(nil), prec...), bad...)
					if kind < 3 && r.Chance(1, 3) {
						data = append(data, []byte("1"+term+"[2]"+term)...)
					}
					trs := []jsonCase{{data, "seek", "", false}, {data, "pipe", policyNames[r.Intn(len(policyNames))], false}}
					if r.Chance(1, 6) {
						trs = append(trs, jsonCase{data, "file", "", false})
					}
					if r.Chance(1, 2) {
						trs = append(trs, jsonCase{data, "pipe", "full", false})
					}
					if r.Chance(1, 5) {
						trs = append(trs, jsonCase{data, "pipe", policyNames[r.Intn(len(policyNames))], true})
					}
					if r.Chance(1, 8) {
						trs = append(trs, jsonCase{data, "seek", "", true})
					}
					for _, jc := range trs {
						emitCase(jc)
					}
				}
			}
		}
	}
}

// ---------------------------------------------------------------------------------------------
// canonical cases of the findings (fixed inputs, fixed order; names in stats["canon_names"])

func runCanon(c *Ctx) {
	tmp, _ := os.MkdirTemp("", "c17h")
	defer os.RemoveAll(tmp)
	doc100 := []byte(`{"a":"` + strings.Repeat("x", 91) + `"}` + "\n")
	d7 := append(bytes.Repeat(doc100, 164), []byte(`{"b": tru }`+"\n")...)
	d7b := append(append([]byte(nil), d7...), []byte("1\n2\n3\n")...)
	docCR := []byte(`{"a":"` + strings.Repeat("x", 91) + `"}` + "\r")
	cr := append(bytes.Repeat(docCR, 200), []byte(`{"b": tru }`+"\r")...)
	var names []string
	add := func(name string, jc jsonCase) {
		l, ok := runJSONCase(c, jc, tmp)
		if !ok {
			l = "(missing)"
		}
		c.Emit("%s", l)
		names = append(names, name)
	}
	// known finding: lone-CR terminators before the window are not counted
	add(`cr-window seek docsize=100 ndocs=200 term=CR err={"b": tru }`, jsonCase{cr, "seek", "", false})
	add(`cr-window pipe docsize=100 ndocs=200 term=CR err={"b": tru } reads=full`, jsonCase{cr, "pipe", "full", false})
	// known finding: --stream positions use offsets of dec.Token(), which are not absolute
	add(`stream-offset seek input={"b": tru }`, jsonCase{[]byte(`{"b": tru }` + "\n"), "seek", "", true})
	// regression (repaired by 652e0ad): go-yaml's Index counts characters
	{
		data := []byte("\u4e16\u754c: 1\n  x: 2\n")
		idx, _ := refYAMLIndex(data)
		var out, er bytes.Buffer
		cli.VerifRunC17([]string{"--yaml-input", "-c", "0"}, bytes.NewReader(data), &out, &er)
		rep := parseReport(er.String(), "invalid yaml: ", "<stdin>", "<stdin>")
		c.Emit("(yaml (seek) %s %s %d %s %s %s)", Hexs([]byte("<stdin>")), Hexs(data), idx, Hexs(er.Bytes()), rep, swtab(excerptOf(rep)))
		names = append(names, `regression yaml-char-index seek input="\u4e16\u754c: 1\n  x: 2\n"`)
	}
	// regression (D7, repaired by e216f69): read-ahead containing the offending byte must be kept
	add(`regression pipe-reset docsize=100 ndocs=164 err={"b": tru } reads=full`, jsonCase{d7, "pipe", "full", false})
	add(`regression pipe-reset docsize=100 ndocs=164 err={"b": tru } trailing=1,2,3 reads=full`, jsonCase{d7b, "pipe", "full", false})
	// controls
	add(`control seek d7`, jsonCase{d7, "seek", "", false})
	add(`control file d7`, jsonCase{d7, "file", "", false})
	c.Stats["canon_names"] = names
}


// ---------------------------------------------------------------------------------------------
// crwin: the neighbourhood of finding cr-window (fixed inputs, independent of the seed): documents of 12 / 100 /
// 1000 / 5000 bytes terminated by CR, CR LF, LF or a mix (incl. CR CR LF and LF CR), the faulty document starting at
// offsets around the thresholds of getContents (12288 = 3/4 window, 16384, 20480 = window + 1/4, 32768, ...), a
// terminator placed exactly at the end of getContents' first / second chunk (CR LF split there: CR = last byte of
// the chunk), seekable reader, file argument and non-seekable readers with full and short reads.

var crwinTerms = map[string][]string{
	"CR": {"\r"}, "CRLF": {"\r\n"}, "LF": {"\n"}, "mixed": {"\r", "\r\n", "\n", "\r\r\n", "\n\r", "\r"},
}

// a document `{"a":"xx..x"}`+term of exactly size bytes (size >= 8+len(term))
func sizedDoc(size int, term string) []byte {
	return []byte(`{"a":"` + strings.Repeat("x", size-8-len(term)) + `"}` + term)
}

// documents of about docsize bytes filling exactly total bytes; the last document ends with lastTerm
func precExact(total, docsize int, ts []string, lastTerm string) []byte {
	var b bytes.Buffer
	for k := 0; ; k++ {
		t := ts[k%len(ts)]
		rem := total - b.Len()
		if rem < 8+len(lastTerm) {
			break
		}
		if rem < docsize+8+len(lastTerm)+4 || docsize < 8+len(t) {
			b.Write(sizedDoc(rem, lastTerm))
			break
		}
		b.Write(sizedDoc(docsize, t))
	}
	return b.Bytes()
}

// the ends of the chunks getContents drops for error offset E (code after the repair: a trailing CR is given back)
func chunkEnds(data []byte, E int) (ends []int) {
	pos, off := 0, E
	for off > 12288 {
		n := min(16384, off-4096)
		if n > len(data)-pos {
			n = len(data) - pos
		}
		if n > 0 && data[pos+n-1] == '\r' {
			n--
		}
		if n == 0 {
			break
		}
		pos, off = pos+n, off-n
		ends = append(ends, pos)
	}
	return
}

func runCRWindow(c *Ctx) {
	tmp, _ := os.MkdirTemp("", "c17h")
	defer os.RemoveAll(tmp)
	bads := [][2]string{{`{"b": tru }`, ""}, {`{"k":[1,`, `2,,3]}`}} // error on the first / on the second line of the document
	short := []string{"512", "cyc", "7", "100", "4096"}
	k := 0
	emit := func(data []byte, what string) {
		errk, has := refJSONError(data)
		if !has || !strings.HasPrefix(errk, "(syn ") {
			c.Count("crwin:no-error-skipped")
			return
		}
		E, _ := strconv.Atoi(strings.TrimSuffix(strings.TrimPrefix(errk, "(syn "), ")"))
		for _, e := range chunkEnds(data, E) {
			if data[e] == '\r' && e+1 < len(data) && data[e+1] == '\n' {
				c.Count("crwin:crlf-split-avoided-at-chunk-end")
			} else if data[e] == '\r' {
				c.Count("crwin:cr-given-back-at-chunk-end")
			}
		}
		k++
		trs := []jsonCase{{data, "seek", "", false}, {data, "pipe", "full", false}, {data, "pipe", short[k%len(short)], false}}
		if k%7 == 0 {
			trs = append(trs, jsonCase{data, "file", "", false})
		}
		for _, jc := range trs {
			if l, ok := runJSONCase(c, jc, tmp); ok {
				c.Emit("%s", l)
				c.Count("crwin:" + what)
			}
		}
	}
	build := func(prec []byte, bad [2]string, ts []string) []byte {
		t := ts[len(prec)%len(ts)]
		data := append(append([]byte(nil), prec...), []byte(bad[0]+t+bad[1]+t)...)
		if len(prec)%3 == 0 {
			data = append(data, []byte("1"+t+"[2]"+t)...)
		}
		return data
	}
	targets := []int{0, 4000, 12277, 12278, 12279, 16373, 16374, 16375, 16383, 16384, 16385, 20469, 20470, 20471,
		24576, 28671, 28672, 32767, 32768, 32769, 33000, 49152, 66000}
	if c.Tier != "thorough" {
		targets = []int{0, 12278, 12279, 16374, 16384, 16385, 20470, 20471, 28672, 32768, 32769, 49153}
	}
	for _, tn := range []string{"CR", "CRLF", "LF", "mixed"} {
		ts := crwinTerms[tn]
		for _, ds := range []int{12, 100, 1000, 5000} {
			for ti, T := range targets {
				if ds == 12 && T > 33000 {
					continue
				}
				prec := precExact(T, ds, ts, ts[T%len(ts)])
				emit(build(prec, bads[(ti+ds)%2], ts), "size-sweep:"+tn)
			}
		}
		// a terminator exactly at the end of the first chunk (bytes [0, lim), lim = min(16384, E-4096)):
		// E >= 20480: the first segment is 16384 bytes + the second byte of the terminator if it has two
		for _, last := range []string{"\r\n", "\r", "\r\r\n"} {
			if tn == "LF" {
				continue
			}
			S := 16384 + len(last) - 1
			for _, X := range []int{4200, 12000, 16384 + 4200, 16385 + 12288, 40000} {
				// after the first segment, a second one that ends with the same terminator at the end of the second chunk
				seg1 := precExact(S, 100, ts, last)
				seg2 := precExact(X, 1000, ts, last)
				emit(build(append(seg1, seg2...), bads[X%2], ts), "chunk-end:"+tn)
			}
			// 12288 < E < 20480: the first chunk ends 4096 bytes before the offending byte
			for _, S0 := range []int{8300, 12000, 16000} {
				for d := 4084; d <= 4088; d++ {
					if c.Tier != "thorough" && d != 4085 && d != 4086 {
						continue
					}
					seg1 := precExact(S0, 100, ts, last)
					seg2 := precExact(d, 1000, []string{"\n"}, "\n")
					emit(build(append(seg1, seg2...), bads[0], []string{"\n"}), "chunk-end:"+tn)
				}
			}
		}
	}
}

// ---------------------------------------------------------------------------------------------
// query parse errors

type badTok struct {
	kind  string
	text  string
	exact bool // the error must be reported at this very token
	rel   int  // expected 0-based start of the reported token relative to the injection point
	tlen  int  // expected len(Token); -1 = do not check
}

var badToks = []badTok{
	{"invalid-char", "^", true, 0, 1},
	{"invalid-char-multibyte", "\u00e9", true, 0, 2},
	{"invalid-char-wide", "\u4e16", true, 0, 3},
	{"invalid-number", "12abc", true, 0, 3},
	{"invalid-number-dot", ".1e", true, 0, 3},
	{"invalid-number-exp", "1e+", true, 0, 3},
	{"invalid-escape", `"ab\x"`, true, 3, 2},
	{"invalid-unicode-escape", `"\u12"`, true, 1, 4},
	{"keyword", "then", false, 0, -1},
	{"operator", "|=", false, 0, -1},
	{"comma", ",,", false, 0, -1},
	{"closer", ")", false, 0, -1},
	{"format", "@", false, 0, -1},
	{"variable", "$", false, 0, -1},
	{"string", `"s"`, false, 0, -1},
	{"interp-open", `"a\(2)"`, false, 0, -1},
	{"interp-open-long", `"abc\(1)def\(2)"`, false, 0, -1},
}

var baseQueries = []string{
	".foo | .bar",
	"def f(x): x * 2;\nf(.a) + 1,\n  (.b // \"none\")",
	"reduce .[] as $x (0;\n  . + $x) |\n  if . > 10 then \"big \\(.)\" else \"small\" end",
	"[.[] | select(.name == \"\u4e16\u754c\") | {name, \"k\u00e9y\": .v}]",
	".a as [$x, {b: $y}] ?// $z |\r\n try error(\"x\") catch .,\r\n  @base64 \"v=\\(.v)\"",
	"label $out | foreach .[] as $i (0; .+$i;\r if . > 3 then ., break $out else empty end)",
	strings.Repeat("(.a + 1) | ", 8) + "\"" + strings.Repeat("y", 70) + "\" | length",
}

// token boundaries where an extra token can be injected: positions following a space outside strings
func injectionPoints(q string) []int {
	var ps []int
	inStr := false
	for i := 0; i < len(q); i++ {
		switch {
		case q[i] == '"' && (i == 0 || q[i-1] != '\\'):
			inStr = !inStr
		case !inStr && (q[i] == ' ' || q[i] == '\n' || q[i] == '\r'):
			ps = append(ps, i+1)
		}
	}
	ps = append(ps, 0, len(q))
	sort.Ints(ps)
	return ps
}

func queryCase(c *Ctx, tmp string, src string, viaFile bool, bt *badTok, inj int) {
	_, err := gojq.Parse(src)
	if err == nil {
		c.Count("query:parsed-skipped")
		return
	}
	perr := "none"
	var pe *gojq.ParseError
	if errors.As(err, &pe) {
		perr = fmt.Sprintf("(pe %d %d)", pe.Offset, len(pe.Token))
		// implementation-only oracle (lexer_offset_token): Offset/Token identify bytes of the source
		start := pe.Offset - len(pe.Token)
		desc := fmt.Sprintf("q=%s", strconv.Quote(src))
		if start < 0 || pe.Offset > len(src) || src[start:pe.Offset] != pe.Token {
			fam := "other"
			if pe.Offset >= 1 && pe.Offset <= len(src) && src[pe.Offset-1] == '"' && strings.Contains(src[pe.Offset:], `\(`) {
				fam = "interp-open"
			}
			c.Violation("lexer-offset-token %s :: Offset=%d Token=%q are not the bytes src[Offset-len(Token):Offset] %s",
				fam, pe.Offset, pe.Token, desc)
		} else if bt != nil && bt.exact && (start != inj+bt.rel || bt.tlen >= 0 && len(pe.Token) != bt.tlen) {
			c.Violation("lexer-offset-token other :: injected %s at %d, reported token %q starts at %d %s",
				bt.kind, inj+bt.rel, pe.Token, start, desc)
		}
	}
	var args []string
	fname, contents := "<arg>", strings.TrimSpace(src)
	if viaFile {
		fname = filepath.Join(tmp, "q.jq")
		os.WriteFile(fname, []byte(src), 0o644)
		args = []string{"-n", "-f", fname}
		contents = src
	} else {
		if contents != src {
			// the command trims the argument before parsing: offsets are those of the trimmed text
			if _, err2 := gojq.Parse(contents); err2 != nil && errors.As(err2, &pe) {
				perr = fmt.Sprintf("(pe %d %d)", pe.Offset, len(pe.Token))
			}
		}
		args = []string{"-n", src}
	}
	var out, er bytes.Buffer
	cli.VerifRunC17(args, strings.NewReader(""), &out, &er)
	stderr := er.String()
	rep := parseReport(stderr, "invalid query: ", fname, contents)
	c.Emit("(query %s %s %s %s %s %s)", Hexs([]byte(fname)), Hexs([]byte(contents)), perr, Hexs([]byte(stderr)), rep, swtab(excerptOf(rep)))
	if bt != nil {
		c.Count("query:" + bt.kind)
	} else {
		c.Count("query:truncated")
	}
}

func runQuery(c *Ctx) {
	tmp, _ := os.MkdirTemp("", "c17h")
	defer os.RemoveAll(tmp)
	n := 0
	for qi, q := range baseQueries {
		if _, err := gojq.Parse(q); err != nil {
			panic(fmt.Sprintf("base query %d does not parse: %v", qi, err))
		}
		pts := injectionPoints(q)
		for pi, p := range pts {
			for bi := range badToks {
				bt := &badToks[bi]
				if c.Tier != "thorough" && (pi+bi+qi)%3 != int(c.Seed%3) && !strings.HasPrefix(bt.kind, "interp") {
					continue
				}
				src := q[:p] + " " + bt.text + " " + q[p:]
				queryCase(c, tmp, src, (pi+bi)%2 == 0, bt, p+1)
				n++
			}
		}
		// truncation at every byte (unexpected EOF / unterminated string / interpolation)
		for x := 1; x < len(q); x++ {
			if c.Tier != "thorough" && x%2 != int(c.Seed%2) {
				continue
			}
			queryCase(c, tmp, q[:x], x%2 == 0, nil, 0)
			n++
		}
	}
	for _, q := range []string{`foo "a\(2)"`, `1 "a\(2)"`, `"a\(2)" "b\(1)"`, `"abc`, `"a\(1`, `"a\(1)`, `.[1 2]`, ` . | ^ `, "\n\n.a |\n ^"} {
		queryCase(c, tmp, q, false, nil, 0)
		queryCase(c, tmp, q, true, nil, 0)
	}
	c.Stats["queries"] = n
}

// ---------------------------------------------------------------------------------------------
// stream tokens: every token kind of the lexer in rejected positions.
// The table is written from the language definition, independently of lexer.go: inject = text put
// into the query, tok = the bytes ParseError.Token must carry (the opening quote for an interpolated
// string), termStart = may begin a term (accepted after a binary operator), afterTerm = may follow a
// complete term (binary operators, postfix forms); "?" in a flag = not used in that position.

type lexTok struct {
	inject, tok          string
	termStart, afterTerm string // "y", "n", "?"
}

func lexTokens() []lexTok {
	var ts []lexTok
	add := func(ts0, at string, xs ...string) {
		for _, x := range xs {
			ts = append(ts, lexTok{x, x, ts0, at})
		}
	}
	// operators: never start a term, all may follow one
	add("n", "y", "|", ",", "//", "//=", "|=", "=", "+=", "-=", "*=", "/=", "%=", "==", "!=", "<", "<=", ">", ">=",
		"*", "/", "%", "and", "or")
	add("y", "y", "-", "+")                                                // unary minus / plus
	add("n", "n", "?//", ":", ";", ")", "]", "}")                          // only inside patterns / brackets
	add("n", "y", "?", "as")                                               // postfix / binding
	add("y", "n", "..", "(", "{")                                          // terms; not a suffix
	add("y", "y", "[")                                                     // array or index suffix
	add("y", "?", ".")                                                     // identity; ". " after a term: suffix start
	add("y", "y", ".foo", ".foo_1", ".a")                                  // tokIndex: term or suffix
	add("y", "n", "foo", "f_1", "m::f", "mod::name_2")                     // tokIdent, tokModuleIdent
	add("y", "n", "$x", "$__loc__", "$name_1", "$m::v", "$mod::var")       // tokVariable, tokModuleVariable
	add("y", "n", "@base64", "@x", "@json")                                // tokFormat
	add("y", "n", "0", "12", "1.5", ".5", "1e3", "1.5e-3", "2E+10", "0.0") // tokNumber shapes
	add("y", "n", `"s"`, `""`, `"a\tb"`, `"\u00e9"`, "\"\u4e16\u754c\"")   // tokString
	add("y", "n", "null", "true", "false", "if", "try", "reduce", "foreach", "label", "break")
	add("n", "n", "then", "elif", "else", "end", "catch")
	add("?", "n", "def", "module", "import", "include") // declarations: position-dependent
	// interpolated strings: the rejected token is the opening quote
	ts = append(ts, lexTok{`"a\(1)b"`, `"`, "y", "n"}, lexTok{`"\(.x)"`, `"`, "y", "n"})
	return ts
}

type tokCtx struct {
	name, prefix string
	guaranteed   func(t lexTok) bool // the grammar admits exactly one token here
	positional   string              // "termStart" | "afterTerm" | ""
}

func runTokens(c *Ctx) {
	tmp, _ := os.MkdirTemp("", "c17h")
	defer os.RemoveAll(tmp)
	isVar := func(t lexTok) bool { return strings.HasPrefix(t.inject, "$") && !strings.Contains(t.inject, "::") }
	ctxs := []tokCtx{
		{"after-reduce-pattern", "reduce . as $v ", func(t lexTok) bool { return t.inject != "(" }, ""},
		{"after-label", "label ", func(t lexTok) bool { return !isVar(t) }, ""},
		{"after-label-var", ".a |\nlabel $out ", func(t lexTok) bool { return t.inject != "|" }, ""},
		{"after-operator", "1 + ", nil, "termStart"},
		{"after-operator-2", ".a\n | .b //= ", nil, "termStart"},
		{"after-term", "1 ", nil, "afterTerm"},
		{"after-term-2", "\u4e16 = 1 |\r\n.x[0] ", nil, "afterTerm"},
	}
	// the second after-term context must itself be a viable prefix: use a valid one
	ctxs[6].prefix = ".a as $w |\r\n\"\u4e16\" | .x[0] "
	n := 0
	for _, t := range lexTokens() {
		for _, cx := range ctxs {
			rejected := false
			switch {
			case cx.guaranteed != nil:
				rejected = cx.guaranteed(t)
			case cx.positional == "termStart":
				rejected = t.termStart == "n"
			case cx.positional == "afterTerm":
				rejected = t.afterTerm == "n"
			}
			if !rejected {
				continue
			}
			for _, suffix := range []string{"", " 2", "\n| .z"} { // at the end of the query / followed by more
				src := cx.prefix + t.inject + suffix
				inj := len(cx.prefix)
				desc := fmt.Sprintf("ctx=%s tok=%s q=%s", cx.name, strconv.Quote(t.inject), strconv.Quote(src))
				_, err := gojq.Parse(src)
				var pe *gojq.ParseError
				if err == nil || !errors.As(err, &pe) {
					c.Violation("token-position other :: a query with %s in a rejected position was accepted or failed without ParseError (%v) %s", strconv.Quote(t.inject), err, desc)
					continue
				}
				n++
				c.Count("tokens:" + cx.name)
				wantOff := inj + len(t.tok)
				if pe.Offset != wantOff || pe.Token != t.tok {
					c.Violation("token-position other :: ParseError{Offset:%d Token:%q}, expected Offset %d Token %q (the rejected token) %s",
						pe.Offset, pe.Token, wantOff, t.tok, desc)
				}
				// the command: caret = display width of the line before the first byte of the token
				for _, viaFile := range []bool{false, true} {
					var args []string
					fname, contents := "<arg>", src
					if viaFile {
						fname = filepath.Join(tmp, "t.jq")
						os.WriteFile(fname, []byte(src), 0o644)
						args = []string{"-n", "-f", fname}
					} else {
						contents = strings.TrimSpace(src)
						args = []string{"-n", src}
					}
					var out, er bytes.Buffer
					cli.VerifRunC17(args, strings.NewReader(""), &out, &er)
					stderr := er.String()
					rep := parseReport(stderr, "invalid query: ", fname, contents)
					ls := inj // start of the line containing the token
					for ls > 0 && contents[ls-1] != '\n' && contents[ls-1] != '\r' {
						ls--
					}
					wantLine := 1
					for i := 0; i < inj; i++ {
						if contents[i] == '\n' || contents[i] == '\r' && (i+1 >= len(contents) || contents[i+1] != '\n') {
							wantLine++
						}
					}
					wantCol := runewidth.StringWidth(contents[ls:inj])
					f := strings.Fields(strings.Trim(rep, "()"))
					gotLine, gotCol := 1, -1
					if len(f) == 4 {
						if f[1] != "-" {
							gotLine, _ = strconv.Atoi(f[1])
						}
						gotCol, _ = strconv.Atoi(f[3])
					}
					lineEnd := inj
					for lineEnd < len(contents) && contents[lineEnd] != '\n' && contents[lineEnd] != '\r' {
						lineEnd++
					}
					if inj-ls <= 48 && (gotLine != wantLine || gotCol != wantCol || !strings.HasPrefix(contents[ls:lineEnd], excerptOf(rep)) && excerptOf(rep) != contents[ls:lineEnd]) {
						c.Violation("token-position other :: the command points at line %d column %d, the rejected token %s starts at line %d column %d (file=%v) %s",
							gotLine, gotCol, strconv.Quote(t.inject), wantLine, wantCol, viaFile, desc)
					}
					perr := fmt.Sprintf("(pe %d %d)", pe.Offset, len(pe.Token))
					c.Emit("(query %s %s %s %s %s %s)", Hexs([]byte(fname)), Hexs([]byte(contents)), perr, Hexs([]byte(stderr)), rep, swtab(excerptOf(rep)))
				}
			}
		}
	}
	c.Stats["token_cases"] = n
	c.Stats["token_kinds"] = len(lexTokens())
}

// ---------------------------------------------------------------------------------------------
// stream modules: syntax errors in files other than the main query: modules (import / include through -L,
// ~/.jq auto-include), data modules (.json), and -f files, with prefixes that make byte offsets, characters
// and display columns differ (UTF-8 BOM, CR LF / CR lines, multi-byte and wide text).  The reported file
// name, line, excerpt and caret are checked against the first byte of the rejected token IN THE FILE'S BYTES.

// positionOf: 1-based line (LF, CR LF, lone CR) and the start of the line of byte inj
func positionOf(contents string, inj int) (line, lineStart, lineEnd int) {
	line = 1
	for i := 0; i < inj; i++ {
		if contents[i] == '\n' || contents[i] == '\r' && (i+1 >= len(contents) || contents[i+1] != '\n') {
			line++
			lineStart = i + 1
		}
	}
	lineEnd = inj
	for lineEnd < len(contents) && contents[lineEnd] != '\n' && contents[lineEnd] != '\r' {
		lineEnd++
	}
	return
}

// pointsAt: does the report (rep) name line/column/excerpt of byte inj of contents?
func pointsAt(rep, contents string, inj int) (bool, string) {
	line, ls, le := positionOf(contents, inj)
	if inj-ls > 48 {
		return true, "" // excerpt window: judged by the model/spec lines
	}
	wantCol := runewidth.StringWidth(contents[ls:inj])
	f := strings.Fields(strings.Trim(rep, "()"))
	gotLine, gotCol := 1, -1
	if len(f) == 4 {
		if f[1] != "-" {
			gotLine, _ = strconv.Atoi(f[1])
		}
		gotCol, _ = strconv.Atoi(f[3])
	}
	ex := excerptOf(rep)
	if gotLine == line && gotCol == wantCol && strings.HasPrefix(contents[ls:le], ex) && (len(ex) >= 61 || ex == contents[ls:le] || len(contents[ls:le])-len(ex) <= 3) {
		return true, ""
	}
	return false, fmt.Sprintf("reported line %d column %d excerpt %q; byte %d is at line %d column %d of %q", gotLine, gotCol, ex, inj, line, wantCol, contents[ls:le])
}

func runModules(c *Ctx) {
	tmp, _ := os.MkdirTemp("", "c17m")
	defer os.RemoveAll(tmp)
	oldHome := os.Getenv("HOME")
	defer os.Setenv("HOME", oldHome)
	const bom = "\ufeff"
	prefixes := []string{
		"", bom, bom + "# c\n", "# \u4e16\u754c\r\n", "def g: \"\u4e16\u754c \u00e9\";\r", "\n\n",
		"def g: \"\U0001F600\u3042\"; ", bom + "def h: 1;\r\ndef g: \"\u4e16\"; ",
	}
	ctxs := []struct{ name, prefix, admit string }{
		{"after-reduce-pattern", "def f: reduce . as $v ", "("},
		{"after-label", "def f: label ", "$"},
		{"after-label-var", "def f: label $out ", "|"},
	}
	toks := lexTokens()
	n := 0
	run := func(args []string) (string, string) {
		var out, er bytes.Buffer
		cli.VerifRunC17(args, strings.NewReader(""), &out, &er)
		return out.String(), er.String()
	}
	for ti, t := range toks {
		for ci, cx := range ctxs {
			if cx.admit == t.inject || cx.admit == "$" && strings.HasPrefix(t.inject, "$") && !strings.Contains(t.inject, "::") {
				continue
			}
			for pi, pre := range prefixes {
				src := pre + cx.prefix + t.inject + " 1;\n"
				inj := len(pre) + len(cx.prefix)
				// kinds of file: module through import, through include, ~/.jq, -f
				kind := []string{"import", "include", "home", "file"}[(ti+ci+pi)%4]
				dir := filepath.Join(tmp, fmt.Sprintf("d%d", n))
				os.MkdirAll(dir, 0o755)
				var fname string
				var args []string
				os.Setenv("HOME", dir)
				switch kind {
				case "import":
					fname = filepath.Join(dir, "m.jq")
					args = []string{"-n", "-L", dir, `import "m" as m; 1`}
				case "include":
					fname = filepath.Join(dir, "m.jq")
					args = []string{"-n", "-L", dir, `include "m"; 1`}
				case "home":
					fname = filepath.Join(dir, ".jq")
					args = []string{"-n", "1"}
				case "file":
					fname = filepath.Join(dir, "q.jq")
					src = pre + strings.TrimPrefix(cx.prefix, "def f: ") + t.inject + " 1\n"
					inj = len(pre) + len(strings.TrimPrefix(cx.prefix, "def f: "))
					args = []string{"-n", "-f", fname}
				}
				os.WriteFile(fname, []byte(src), 0o644)
				_, stderr := run(args)
				os.RemoveAll(dir)
				n++
				c.Count("modules:" + kind)
				desc := fmt.Sprintf("kind=%s ctx=%s tok=%s file=%s", kind, cx.name, strconv.Quote(t.inject), strconv.Quote(src))
				shown := strings.Replace(stderr, fname, "<FILE>", -1)
				rep := parseReport(shown, "invalid query: ", "<FILE>", src)
				if rep == "(rep - - 0)" {
					c.Violation("module-position other :: a syntax error in the file was not reported as `invalid query: <file>:<line>` with an excerpt (stderr %s) %s", strconv.Quote(shown), desc)
					continue
				}
				ok, why := pointsAt(rep, src, inj)
				if !ok && strings.HasPrefix(pre, bom) {
					// a byte order mark is itself rejected by the lexer: then the report must point at it
					ok, _ = pointsAt(rep, src, 0)
				}
				if !ok {
					c.Violation("module-position other :: %s %s", why, desc)
				}
			}
		}
	}
	// data modules: jsonParseError through the compile error path, whole file as contents
	r := c.Rng.Fork()
	for i := 0; i < 60; i++ {
		term := terms[i%3]
		doc := genDoc(r, []int{40, 300, 3000, 20000}[i%4], term, i%2)
		if i%5 == 4 {
			doc = append([]byte(bom), doc...)
		}
		x := r.Intn(len(doc))
		data := corrupt(doc, x, r.Intn(4))
		errk, has := refJSONError(data)
		if !has {
			continue
		}
		dir := filepath.Join(tmp, fmt.Sprintf("j%d", i))
		os.MkdirAll(dir, 0o755)
		fname := filepath.Join(dir, "d.json")
		os.WriteFile(fname, data, 0o644)
		_, stderr := run([]string{"-n", "-L", dir, `import "d" as $d; 1`})
		os.RemoveAll(dir)
		if !strings.HasPrefix(stderr, "gojq: compile error: invalid json: ") {
			c.Violation("module-position other :: a syntax error in a data module was not reported as invalid json (stderr %s) file=%s", strconv.Quote(stderr), strconv.Quote(string(data)))
			continue
		}
		// the model line: the command's text without the "compile error: " wrapper
		stderr = "gojq: " + strings.TrimPrefix(stderr, "gojq: compile error: ")
		rep := parseReport(stderr, "invalid json: ", fname, fname)
		if strings.HasPrefix(errk, "(syn ") {
			raw := strings.TrimSuffix(strings.TrimPrefix(errk, "(syn "), ")")
			errk = strings.TrimSuffix(errk, ")") + " " + raw + ")"
		}
		c.Emit("(json (whole) %s %s %s (c) (st) %s %s %s)", Hexs([]byte(fname)), rle(data), errk, Hexs([]byte(stderr)), rep, swtab(excerptOf(rep)))
		c.Count("modules:json")
	}
	c.Stats["module_cases"] = n
}

// ---------------------------------------------------------------------------------------------
// YAML: only the rendering of go-yaml's index is gojq's

func refYAMLIndex(data []byte) (int, bool) { return refYAMLIndexFrom(bytes.NewReader(data)) }

// go-yaml's mark can depend on how the input arrives (e.g. a BOM in the middle of a stream read byte by
// byte): the index is taken from an independent decode over the same kind of reader
func refYAMLIndexFrom(r io.Reader) (int, bool) {
	dec := yaml.NewDecoder(r)
	for {
		var v any
		err := dec.Decode(&v)
		if err == nil {
			continue
		}
		if err == io.EOF {
			return 0, false
		}
		var pe *yaml.ParserError
		var te *yaml.TypeError
		if errors.As(err, &pe) {
			return pe.Index, true
		} else if errors.As(err, &te) {
			var ue *yaml.UnmarshalError
			for _, e := range te.Errors {
				if errors.As(e, &ue) {
					return ue.Index, true
				}
			}
		}
		return 0, true
	}
}

func runYAML(c *Ctx) {
	base := []string{
		"name: \u4e16\u754c\nlist:\n  - 1\n  - two\n  - {a: b}\nnested:\n  k: v\n  deep:\n    - x: 1\n",
		"- a\n- b: c\n  d: [1, 2, 3]\n- \"quoted \u00e9\"\n",
		"k1: v1\nk2: |\n  block text\n  more\nk3: end\n",
		"\u4e16\u754c: 1\nk\u00e9y: [1, 2]\n\U0001F600: {a: \u3042}\n",
		// characters the YAML parser itself counts as line breaks (NEL, LS, PS) in quoted scalars, plain scalars
		// and comments; tabs; wide text: the printed line number is getLineByOffset's (LF, CR LF, CR)
		"q: \"a\u0085b\u2028c\u2029d\"\nplain: x\u2028y \u0085z\n# note \u2029 more\u0085\nk:\t[1,\t2]\nlast: \u4e16\n",
		"- 'one\u2028two'\n- \"\u0085\"\n- k: v # c\u2029c\n- \u3042: [a, b]\n",
		"\ufeffbom: 1\nw\u4e16: {a: 1}\nz: 2\n",
	}
	faults := []string{"\t", "[", "{", "\"", ": :", "@", "- - :", "]", "&", "*x"}
	for bi, b := range base {
		for ti, term := range terms {
			if ti == 2 && bi%2 == 0 {
				continue // lone CR for every other document
			}
			doc := strings.ReplaceAll(b, "\n", term)
			for x := 0; x <= len(doc); x++ {
				if !utf8.RuneStart(append([]byte(doc), 'a')[x]) {
					continue
				}
				if c.Tier != "thorough" && (x+bi+ti)%2 != int(c.Seed%2) {
					continue
				}
				f := faults[(x+bi)%len(faults)]
				data := []byte(doc[:x] + f + doc[x:])
				if (x+ti)%3 == 0 {
					data = append([]byte("ok: 1"+term+"---"+term), data...)
				}
				idx, has := refYAMLIndex(data)
				if !has {
					c.Count("yaml:no-error-skipped")
					continue
				}
				for _, tr := range []string{"seek", "pipe"} {
					var stdin io.Reader
					var pr *pipeReader
					trs := "(seek)"
					if tr == "seek" {
						stdin = bytes.NewReader(data)
					} else {
						pol := policyNames[(x+bi)%len(policyNames)]
						pr = &pipeReader{data: data, policy: policies[pol]}
						stdin = pr
						trs = "(pipe " + pol + ")"
						if i2, ok := refYAMLIndexFrom(&pipeReader{data: data, policy: policies[pol]}); ok {
							idx = i2
						}
					}
					out := &outRecorder{pr: pr}
					er := &errRecorder{pr: pr}
					cli.VerifRunC17([]string{"--yaml-input", "-c", "0"}, stdin, out, er)
					stderr := er.buf.String()
					contents := data
					if pr != nil {
						contents = data[:er.first]
					}
					rep := parseReport(stderr, "invalid yaml: ", "<stdin>", "<stdin>")
					c.Emit("(yaml %s %s %s %d %s %s %s)", trs, Hexs([]byte("<stdin>")), Hexs(contents), idx,
						Hexs([]byte(stderr)), rep, swtab(excerptOf(rep)))
					c.Count("yaml:" + tr)
				}
			}
		}
	}
}

// ---------------------------------------------------------------------------------------------
// thorough tier: the built binary with real files and real pipes.  Args: path of the binary.
// On a real pipe the read-ahead is not observable, so only inputs without a possible window reset
// (preceding documents < 16 KiB - 1 KiB, or a single document) are piped; files of any size.

func runBin(c *Ctx) {
	if len(c.Args) < 1 {
		panic("bin: need the path of the gojq binary")
	}
	bin := c.Args[0]
	tmp, _ := os.MkdirTemp("", "c17h")
	defer os.RemoveAll(tmp)
	run := func(data []byte, transport string) {
		errk, has := refJSONError(data)
		if !has {
			return
		}
		fname := "<stdin>"
		cmd := exec.Command(bin, "-c", "0")
		cmd.Env = append(os.Environ(), "RUNEWIDTH_EASTASIAN=0")
		tr := "(" + transport + countingAtom(transport) + ")"
		path := filepath.Join(tmp, "in.json")
		switch transport {
		case "file":
			os.WriteFile(path, data, 0o644)
			cmd = exec.Command(bin, "-c", "0", path)
			cmd.Env = append(os.Environ(), "RUNEWIDTH_EASTASIAN=0")
			fname = path
		case "seek": // stdin redirected from a regular file
			os.WriteFile(path, data, 0o644)
			f, _ := os.Open(path)
			defer f.Close()
			cmd.Stdin = f
		case "pipe":
			cmd.Stdin = &pipeReader{data: data, policy: policies["full"]} // os/exec copies it into a real pipe
		}
		var er bytes.Buffer
		cmd.Stdout = io.Discard
		cmd.Stderr = &er
		cmd.Run()
		stderr := er.String()
		rep := parseReport(stderr, "invalid json: ", fname, fname)
		chunks := "(c)"
		if transport == "pipe" {
			// no reset can have happened: the whole input up to the error was in the buffer; the model
			// is given "everything read" (any read-ahead gives the same report)
			chunks = fmt.Sprintf("(c %d)", len(data))
			tr = "(pipe real)"
		}
		if strings.HasPrefix(errk, "(syn ") {
			raw := strings.TrimSuffix(strings.TrimPrefix(errk, "(syn "), ")")
			errk = strings.TrimSuffix(errk, ")") + " " + raw + ")"
		}
		c.Emit("(json %s %s %s %s %s (st) %s %s %s)", tr, Hexs([]byte(fname)), rle(data), errk, chunks,
			Hexs([]byte(stderr)), rep, swtab(excerptOf(rep)))
		c.Count("bin:" + transport)
	}
	for i := 0; i < c.N; i++ {
		r := c.Rng.Fork()
		term := terms[i%3]
		ds := []int{40, 300, 3000, 17000, 40000, 66000}[r.Intn(6)]
		var doc []byte
		if i%4 == 3 {
			doc = genLongLineDoc(r, ds, term, i%2)
		} else {
			doc = genDoc(r, ds, term, i%2)
		}
		x := r.Intn(len(doc))
		bad := corrupt(doc, x, r.Intn(4))
		ptAll := []int{0, 250, 8000, 16100, 16500, 33000, 66000}
		pt := ptAll[r.Intn(len(ptAll))]
		prec := genPreceding(r, pt, []int{10, 100, 1000}[r.Intn(3)], term)
		data := append(append([]byte(nil), prec...), bad...)
		run(data, "file")
		run(data, "seek")
		if len(prec) < 15000 {
			// the first value is delivered only after >= len(first doc) bytes: no reset before the error
			// unless a delivered value leaves >= 16 KiB buffered, i.e. only if prec+readahead >= 16 KiB
			if len(prec) == 0 || len(data) < 16384 {
				run(data, "pipe")
			}
		}
	}
}

// ---------------------------------------------------------------------------------------------
// replay: re-run the implementation on the input of a recorded (json ...) case line (file in Args[0])

func runReplay(c *Ctx) {
	if len(c.Args) < 1 {
		panic("replay: need a file with the case line")
	}
	raw, err := os.ReadFile(c.Args[0])
	if err != nil {
		panic(err)
	}
	line := strings.TrimSpace(string(raw))
	tmp, _ := os.MkdirTemp("", "c17h")
	defer os.RemoveAll(tmp)
	toks := strings.Fields(strings.NewReplacer("(", " ( ", ")", " ) ").Replace(line))
	if len(toks) < 4 || toks[1] != "json" {
		fmt.Fprintln(os.Stderr, "replay supports (json ...) lines; others are replayed by re-running their stream")
		return
	}
	// transport
	jc := jsonCase{}
	i := 2 // "(" transport ...
	jc.transport = toks[i+1]
	if jc.transport == "pipe" {
		jc.policy = toks[i+2]
		if _, ok := policies[jc.policy]; !ok {
			jc.policy = "full"
		}
	}
	for toks[i] != ")" {
		if toks[i] == "stream" {
			jc.stream = true
		}
		i++
	}
	i += 2 // skip ")" and fname
	// ( in ( r n hex ) ... )
	var data []byte
	if toks[i] == "(" && toks[i+1] == "in" {
		i += 2
		for toks[i] == "(" {
			n, _ := strconv.Atoi(toks[i+2])
			var blk []byte
			if toks[i+3] != "-" {
				fmt.Sscanf(toks[i+3], "%x", &blk)
			}
			data = append(data, bytes.Repeat(blk, n)...)
			i += 5
		}
	}
	jc.data = data
	if l, ok := runJSONCase(c, jc, tmp); ok {
		c.Emit("%s", l)
	}
}
