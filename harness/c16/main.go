// C16 harness: input modes and argument flags of the gojq command, run in-process through the hook
// cli.VerifRunC16 (cli/verif_c16.go, tag verif).
//
// Line kinds written for the extracted model (coq/c16/Run.v):
//
//	(stream <end> <k> (<tok>…) <implfin> (<event>…))
//	(inputs <mode> (<file>…) (<out>…) <code>)
//	(raw <mode> (<hex text>…) (<out>…))
//	(args (<hex arg>…) (<dict>…) <impl $ARGS> )
//
// Implementation-only oracles (the property's "equals the in-language equivalent") are evaluated here
// and reported as impl_violations with a canonical replayable case text.
package main

import (
	"encoding/json"
	"fmt"
	"io"
	"os"
	"path/filepath"
	"reflect"
	"sort"
	"strconv"
	"strings"
	"unicode/utf8"
	. "verifharness/hlib"

	"github.com/itchyny/gojq/cli"
)

func main() { Register("c16", runC16); Main() }

// ---------------------------------------------------------------------------------------------
// running the command

type chunk struct {
	errStream bool
	data      []byte
}
type recorder struct{ chunks []chunk }
type recWriter struct {
	r   *recorder
	err bool
}

func (w recWriter) Write(p []byte) (int, error) {
	cs := w.r.chunks
	if n := len(cs); n > 0 && cs[n-1].errStream == w.err {
		cs[n-1].data = append(cs[n-1].data, p...)
	} else {
		w.r.chunks = append(cs, chunk{w.err, append([]byte(nil), p...)})
	}
	return len(p), nil
}

type pipeReader struct{ io.Reader } // hides Seek: behaves like a pipe

type result struct {
	stdout, stderr string
	code           int
	chunks         []chunk
}

var seekableStdin bool
var curCtx *Ctx
var curDir string
var curFiles map[string]string

func runCLI(args []string, stdin string) (res result) {
	rec := &recorder{}
	defer func() {
		if p := recover(); p != nil {
			// a panic of the command is a failing input by itself
			if curCtx != nil {
				curCtx.Violation("%s :: panic: %v", caseText(shortArgs(args, curDir), stdin, curFiles), p)
			}
			res = result{code: 99, stderr: fmt.Sprintf("gojq: panic: %v\n", p)}
		}
	}()
	var in io.Reader = strings.NewReader(stdin)
	if !seekableStdin {
		in = pipeReader{in}
	}
	code := cli.VerifRunC16(args, in, recWriter{rec, false}, recWriter{rec, true})
	var so, se strings.Builder
	for _, c := range rec.chunks {
		if c.errStream {
			se.Write(c.data)
		} else {
			so.Write(c.data)
		}
	}
	return result{so.String(), se.String(), code, rec.chunks}
}

func caseText(args []string, stdin string, files map[string]string) string {
	var b strings.Builder
	b.WriteString("gojq")
	for _, a := range args {
		b.WriteString(" " + strconv.Quote(a))
	}
	b.WriteString(" <<< " + strconv.Quote(stdin))
	names := make([]string, 0, len(files))
	for n := range files {
		names = append(names, n)
	}
	sort.Strings(names)
	for _, n := range names {
		b.WriteString(" ; " + n + "=" + strconv.Quote(files[n]))
	}
	return b.String()
}

// decode all JSON values of s (UseNumber); ok=false when s is not a sequence of JSON values
func decodeAll(s string) (vals []any, ok bool) {
	dec := json.NewDecoder(strings.NewReader(s))
	dec.UseNumber()
	for {
		var v any
		err := dec.Decode(&v)
		if err == io.EOF {
			return vals, true
		}
		if err != nil {
			return vals, false
		}
		vals = append(vals, v)
	}
}

func sexpList(vs []any) string {
	var b strings.Builder
	b.WriteByte('(')
	for i, v := range vs {
		if i > 0 {
			b.WriteByte(' ')
		}
		b.WriteString(SexpVal(v))
	}
	b.WriteByte(')')
	return b.String()
}

// ---------------------------------------------------------------------------------------------
// random documents

type span struct{ a, b int } // number token [a,b)

type gen struct {
	r     *Rng
	b     strings.Builder
	nums  []span
	depth int
}

var wsChars = []string{" ", "\n", "\t", "\r"}

func (g *gen) ws() {
	switch g.r.Intn(6) {
	case 0, 1, 2:
	case 3:
		g.b.WriteString(" ")
	default:
		for n := 1 + g.r.Intn(3); n > 0; n-- {
			g.b.WriteString(wsChars[g.r.Intn(len(wsChars))])
		}
	}
}

var strPool = []string{"", "a", "b", "c", "ab", "key", "x y", "é", "日本", "q\"q", "b\\s", "n\nl", "t\tb", "0", "null", "\u0001", "😀", "/", "a.b", "[0]"}

func (g *gen) str(s string) {
	// random mix of raw and escaped forms
	g.b.WriteByte('"')
	for _, c := range s {
		switch {
		case c == '"':
			g.b.WriteString(`\"`)
		case c == '\\':
			g.b.WriteString(`\\`)
		case c == '\n':
			g.b.WriteString(`\n`)
		case c == '\t':
			g.b.WriteString(`\t`)
		case c < 0x20:
			fmt.Fprintf(&g.b, `\u%04x`, c)
		case c == '/' && g.r.Chance(1, 2):
			g.b.WriteString(`\/`)
		case c < 0x10000 && g.r.Chance(1, 4):
			fmt.Fprintf(&g.b, `\u%04x`, c)
		default:
			g.b.WriteRune(c)
		}
	}
	g.b.WriteByte('"')
}

var numPool = []string{"0", "1", "2", "-1", "10", "42", "123", "-7", "1.5", "-0.25", "100", "9007199254740993", "12345678901234567890", "3.25", "1000000"}

func (g *gen) scalar() {
	switch g.r.Intn(8) {
	case 0:
		g.b.WriteString("null")
	case 1:
		g.b.WriteString("true")
	case 2:
		g.b.WriteString("false")
	case 3, 4, 5:
		a := g.b.Len()
		g.b.WriteString(numPool[g.r.Intn(len(numPool))])
		g.nums = append(g.nums, span{a, g.b.Len()})
	default:
		g.str(strPool[g.r.Intn(len(strPool))])
	}
}

func (g *gen) value(depth int) {
	k := g.r.Intn(10)
	if depth <= 0 && k >= 5 {
		k = g.r.Intn(5)
	}
	switch {
	case k < 5:
		g.scalar()
	case k < 8:
		g.b.WriteByte('[')
		g.ws()
		n := g.r.Intn(4)
		if g.r.Chance(1, 4) {
			n = 0
		}
		for i := 0; i < n; i++ {
			if i > 0 {
				g.b.WriteByte(',')
				g.ws()
			}
			g.value(depth - 1)
			g.ws()
		}
		g.b.WriteByte(']')
	default:
		g.b.WriteByte('{')
		g.ws()
		n := g.r.Intn(4)
		if g.r.Chance(1, 4) {
			n = 0
		}
		used := map[string]bool{}
		first := true
		for i := 0; i < n; i++ {
			key := strPool[g.r.Intn(len(strPool))]
			if used[key] {
				continue
			}
			used[key] = true
			if !first {
				g.b.WriteByte(',')
				g.ws()
			}
			first = false
			g.str(key)
			g.ws()
			g.b.WriteByte(':')
			g.ws()
			g.value(depth - 1)
			g.ws()
		}
		g.b.WriteByte('}')
	}
}

// a stream of ndocs documents separated by whitespace; returns text, number spans, doc end offsets
func genStream(r *Rng, ndocs, depth int) (string, []span) {
	g := &gen{r: r}
	if r.Chance(1, 3) {
		g.b.WriteString(wsChars[r.Intn(4)])
	}
	for i := 0; i < ndocs; i++ {
		if i > 0 {
			g.b.WriteString(wsChars[r.Intn(4)])
			g.ws()
		}
		g.value(depth)
	}
	if r.Chance(1, 2) {
		g.b.WriteString("\n")
	}
	return g.b.String(), g.nums
}

// ---------------------------------------------------------------------------------------------
// tokens (encoding/json Decoder.Token with UseNumber, exactly what cli/stream.go consumes)

func tokenize(s string) (toks []string, end string, depth int) {
	dec := json.NewDecoder(strings.NewReader(s))
	dec.UseNumber()
	for {
		t, err := dec.Token()
		if err == io.EOF {
			return toks, "eof", depth
		}
		if err != nil {
			return toks, "err", depth
		}
		switch t := t.(type) {
		case json.Delim:
			switch t {
			case '[':
				toks = append(toks, "ab")
				depth++
			case ']':
				toks = append(toks, "ae")
				depth--
			case '{':
				toks = append(toks, "ob")
				depth++
			case '}':
				toks = append(toks, "oe")
				depth--
			}
		default:
			toks = append(toks, SexpVal(t))
		}
	}
}

func isPrefix(a, b []string) bool {
	if len(a) > len(b) {
		return false
	}
	for i := range a {
		if a[i] != b[i] {
			return false
		}
	}
	return true
}

// events printed by --stream -c: one JSON value per line
func parseEvents(stdout string) ([]any, bool) { return decodeAll(stdout) }

// the harness's own fromstream (for the "rebuilds the document" oracle on the implementation's events)
func rebuild(events []any) (docs []any, ok bool) {
	var cur any
	started := false
	for _, e := range events {
		ev, isArr := e.([]any)
		if !isArr || len(ev) < 1 || len(ev) > 2 {
			return nil, false
		}
		p, isP := ev[0].([]any)
		if !isP {
			return nil, false
		}
		if len(ev) == 2 {
			v, okk := setPath(cur, started, p, ev[1])
			if !okk {
				return nil, false
			}
			cur, started = v, true
			if len(p) == 0 {
				docs = append(docs, cur)
				cur, started = nil, false
			}
		} else {
			if len(p) == 1 {
				if !started {
					return nil, false
				}
				docs = append(docs, cur)
				cur, started = nil, false
			}
		}
	}
	if started {
		return nil, false
	}
	return docs, true
}

func setPath(cur any, exists bool, p []any, v any) (any, bool) {
	if len(p) == 0 {
		if exists {
			return nil, false
		}
		return v, true
	}
	switch k := p[0].(type) {
	case string:
		m, _ := cur.(map[string]any)
		if cur != nil && m == nil {
			return nil, false
		}
		if m == nil {
			m = map[string]any{}
		}
		child, has := m[k]
		nv, ok := setPath(child, has, p[1:], v)
		if !ok {
			return nil, false
		}
		m[k] = nv
		return m, true
	case json.Number:
		i, err := strconv.Atoi(k.String())
		if err != nil {
			return nil, false
		}
		a, isA := cur.([]any)
		if cur != nil && !isA {
			return nil, false
		}
		if i > len(a) {
			return nil, false
		}
		if i == len(a) {
			nv, ok := setPath(nil, false, p[1:], v)
			if !ok {
				return nil, false
			}
			return append(a, nv), true
		}
		nv, ok := setPath(a[i], true, p[1:], v)
		if !ok {
			return nil, false
		}
		a[i] = nv
		return a, true
	}
	return nil, false
}

func implFin(res result) string {
	if res.code == 0 && res.stderr == "" {
		return "end"
	}
	if res.code == 5 && strings.Count(res.stderr, "gojq: ") == 1 {
		return "err"
	}
	return fmt.Sprintf("(other %d %s)", res.code, Hexs([]byte(res.stderr)))
}

func streamChecks(c *Ctx, text string, nums []span, cuts []int) {
	fullToks, fullEnd, _ := tokenize(text)
	docs, okDocs := decodeAll(text)
	if fullEnd != "eof" || !okDocs {
		panic("generator produced an invalid stream: " + text)
	}
	res := runCLI([]string{"--stream", "-c", "."}, text)
	evs, ok := parseEvents(res.stdout)
	if !ok {
		c.Violation("%s :: --stream output is not JSON", caseText([]string{"--stream", "-c", "."}, text, nil))
		return
	}
	c.Emit("(stream eof %d (%s) %s %s)", len(fullToks), strings.Join(fullToks, " "), implFin(res), sexpList(evs))
	c.Count("stream:full")
	// (i) fromstream rebuilds every document: harness's own fromstream on the implementation's events …
	if rb, ok := rebuild(evs); !ok || !reflect.DeepEqual(rb, docs) {
		c.Violation("%s :: the events do not rebuild the documents", caseText([]string{"--stream", "-c", "."}, text, nil))
	}
	// … and the in-language one
	plain := runCLI([]string{"-c", "."}, text)
	fs := runCLI([]string{"--stream", "-n", "-c", "fromstream(inputs)"}, text)
	if fs.stdout != plain.stdout || fs.code != 0 || plain.code != 0 {
		c.Violation("%s :: differs from `-c .`", caseText([]string{"--stream", "-n", "-c", "fromstream(inputs)"}, text, nil))
	}
	// --stream equals tostream up to object key order: exact equality on the key-sorted rendering
	ts := runCLI([]string{"-c", "tostream"}, text)
	sorted := runCLI([]string{"--stream", "-c", "."}, plain.stdout)
	if ts.stdout != sorted.stdout || ts.code != 0 || sorted.code != 0 {
		c.Violation("%s :: --stream on the key-sorted text differs from tostream", caseText([]string{"-c", "tostream"}, text, nil))
	}
	// and per document as multisets of leaf events on the original text
	if !sameLeafSets(evs, ts.stdout) {
		c.Violation("%s :: leaf events differ from tostream's", caseText([]string{"--stream", "-c", "."}, text, nil))
	}
	// --stream -s = [events]
	sl := runCLI([]string{"--stream", "-s", "-c", "."}, text)
	ni := runCLI([]string{"--stream", "-n", "-c", "[inputs]"}, text)
	if sl.stdout != ni.stdout || sl.code != ni.code {
		c.Violation("%s :: --stream -s differs from --stream -n [inputs]", caseText([]string{"--stream", "-s", "-c", "."}, text, nil))
	}
	c.Count("stream:oracles")
	// truncated at the given bytes (every byte for ordinary texts)
	for _, k := range cuts {
		if k < 0 || k >= len(text) {
			continue
		}
		t := text[:k]
		tres := runCLI([]string{"--stream", "-c", "."}, t)
		tevs, ok := parseEvents(tres.stdout)
		if !ok {
			c.Violation("%s :: --stream output is not JSON", caseText([]string{"--stream", "-c", "."}, t, nil))
			continue
		}
		ttoks, tend, tdepth := tokenize(t)
		var dtoks []string
		kind := "cut"
		switch {
		case tend == "eof" && tdepth == 0:
			dtoks = ttoks // a complete (shorter) stream
			kind = "complete"
		case isPrefix(ttoks, fullToks):
			dtoks = fullToks
		default:
			// the cut is inside a number literal whose prefix is itself a number: the input is equally a
			// truncation of the stream in which that literal ends at the cut
			for _, sp := range nums {
				if sp.a < k && k < sp.b {
					vt, vend, vdepth := tokenize(text[:k] + text[sp.b:])
					if vend == "eof" && vdepth == 0 && isPrefix(ttoks, vt) {
						dtoks = vt
						kind = "numcut"
					}
				}
			}
			if dtoks == nil {
				c.Violation("%s :: tokens of the truncated input are not a prefix of the tokens of the input", caseText([]string{"--stream", "-c", "."}, t, nil))
				continue
			}
		}
		c.Emit("(stream %s %d (%s) %s %s)", tend, len(ttoks), strings.Join(dtoks, " "), implFin(tres), sexpList(tevs))
		c.Count("stream:" + kind)
		// implementation-only: events before the cut are a prefix of the full run's events, then one error
		if kind == "cut" {
			pre := len(tevs) <= len(evs) && reflect.DeepEqual(append([]any{}, tevs...), append([]any{}, evs[:len(tevs)]...))
			if !pre || implFin(tres) != "err" {
				c.Violation("%s :: truncated input: events are not a prefix of the full events followed by one error", caseText([]string{"--stream", "-c", "."}, t, nil))
			}
		}
	}
}

func sameLeafSets(evs []any, tostreamOut string) bool {
	tevs, ok := decodeAll(tostreamOut)
	if !ok || len(tevs) != len(evs) {
		return false
	}
	enc := func(xs []any) []string {
		var out []string
		doc := 0
		for _, e := range xs {
			ev := e.([]any)
			p, _ := ev[0].([]any)
			if len(ev) == 2 {
				b, _ := json.Marshal(ev)
				out = append(out, fmt.Sprintf("%d:%s", doc, b))
				if len(p) == 0 {
					doc++
				}
			} else {
				out = append(out, fmt.Sprintf("%d:close%d", doc, len(p)))
				if len(p) == 1 {
					doc++
				}
			}
		}
		sort.Strings(out)
		return out
	}
	return reflect.DeepEqual(enc(evs), enc(tevs))
}

// ---------------------------------------------------------------------------------------------
// inputs: files, stdin, modes

type source struct {
	arg     string // command-line operand ("" for stdin without operand)
	text    string
	missing bool
}

func dataSexp(text string, raw bool) string {
	if raw {
		return fmt.Sprintf("(d %s ok () eof ())", Hexs([]byte(text)))
	}
	vals, ok := decodeAll(text)
	toks, end, _ := tokenize(text)
	b := "ok"
	if !ok {
		b = "bad"
	}
	return fmt.Sprintf("(d - %s %s %s (%s))", b, sexpList(vals), end, strings.Join(toks, " "))
}

// the printed sequence: stdout values and stderr error lines in the order they were written
func printedSeq(res result) (string, int, bool) {
	var items []string
	nerr := 0
	for _, c := range res.chunks {
		if c.errStream {
			for _, l := range strings.SplitAfter(string(c.data), "\n") {
				if strings.HasPrefix(l, "gojq: ") {
					items = append(items, "e")
					nerr++
				}
			}
		} else {
			vals, ok := decodeAll(string(c.data))
			if !ok {
				return "", 0, false
			}
			for _, v := range vals {
				items = append(items, "(v "+SexpVal(v)+")")
			}
		}
	}
	return "(" + strings.Join(items, " ") + ")", nerr, true
}

var garbage = []string{`{"a":`, `]`, `tru`, `[1,`, `{"a" 1}`, `"abc`, `[1 2]`, `}`, `nul`, `[,]`}
var rawPool = []string{"", "a", "b c", "\n", "\r", "\r\n", "x\ty", "é", "\"q\"", "\\", "\n\n", "line", " ", "日本"}

func genRaw(r *Rng) string {
	var b strings.Builder
	for n := r.Intn(8); n > 0; n-- {
		b.WriteString(rawPool[r.Intn(len(rawPool))])
		if r.Chance(1, 2) {
			b.WriteString("\n")
		}
	}
	return b.String()
}

// sizes around bufio's default buffer (4096), jsonInputIter's 16 KiB window and 64 KiB
var quickBig = []int{4096, 4095, 4097, 10000, 16384}
var thoroughBig = []int{4095, 4096, 4097, 8192, 10000, 16383, 16384, 16385, 65536, 70000}

func allCuts(n int) []int {
	cs := make([]int, n)
	for i := range cs {
		cs[i] = i
	}
	return cs
}

func longLine(r *Rng, n int) string {
	var b strings.Builder
	if n >= 2 && r.Chance(1, 3) {
		b.WriteString("é")
	}
	for b.Len() < n {
		b.WriteByte(byte('a' + r.Intn(26)))
	}
	return b.String()
}

// raw text with at least one line of exactly `size` bytes (excluding the terminator); terminators \n,
// \r\n or none at the end of the text
func genRawBig(r *Rng, size int) string {
	var b strings.Builder
	nl := 1 + r.Intn(3)
	at := r.Intn(nl)
	for i := 0; i < nl; i++ {
		if i == at {
			b.WriteString(longLine(r, size))
		} else if size < 32768 && r.Chance(1, 3) {
			b.WriteString(longLine(r, size+r.Intn(3)-1))
		} else {
			b.WriteString(rawPool[r.Intn(len(rawPool))])
		}
		switch {
		case i == nl-1 && r.Chance(1, 2):
		case r.Chance(1, 3):
			b.WriteString("\r\n")
		default:
			b.WriteString("\n")
		}
	}
	return b.String()
}

// JSON text of about `size` bytes: a long string, a long array, a long key or a long run of whitespace,
// among small documents
func genJSONBig(r *Rng, size int, allowBad bool) string {
	var b strings.Builder
	if r.Chance(1, 2) {
		t, _ := genStream(r, 1, 1)
		b.WriteString(t + "\n")
	}
	switch r.Intn(4) {
	case 0:
		b.WriteString(`"` + longLine(r, size) + `"`)
	case 1:
		// many elements (bounded: the model's stack is the OCaml stack), the rest of the size as one string
		b.WriteString("[")
		start := b.Len()
		for i := 0; b.Len()-start < size && i < 3000; i++ {
			if i > 0 {
				b.WriteString(",")
			}
			b.WriteString(numPool[r.Intn(len(numPool))])
		}
		if rest := size - (b.Len() - start); rest > 0 {
			b.WriteString(`,"` + longLine(r, rest) + `"`)
		}
		b.WriteString("]")
	case 2:
		b.WriteString(`{"` + longLine(r, size) + `":[{"k":"` + longLine(r, 10) + `"}],"z":null}`)
	default:
		b.WriteString("[1," + strings.Repeat(" ", size) + `"x"]` + strings.Repeat("\n", 3))
	}
	b.WriteString("\n")
	if r.Chance(1, 2) {
		t, _ := genStream(r, 1+r.Intn(2), 1)
		b.WriteString(t)
	}
	if allowBad && r.Chance(1, 4) {
		b.WriteString(" " + garbage[r.Intn(len(garbage))])
	}
	return b.String()
}

// --stream over a large text: whole, and truncated around the buffer boundaries and at random bytes
func bigStreamChecks(c *Ctx, size int) {
	text := genJSONBig(c.Rng, size, false)
	cuts := []int{0, 1, len(text) - 1, len(text) - 2}
	for _, b := range []int{512, 4096, 8192, 16384, 32768, 65536} {
		for d := -1; d <= 1; d++ {
			cuts = append(cuts, b+d)
		}
	}
	for i := 0; i < 12; i++ {
		cuts = append(cuts, c.Rng.Intn(len(text)))
	}
	for _, sk := range []bool{false, true} {
		seekableStdin = sk
		streamChecks(c, text, findNums(text), cuts)
	}
	c.Count("stream:big")
}

func genJSONText(r *Rng, allowBad bool) string {
	nd := r.Intn(4)
	text := ""
	if nd > 0 {
		text, _ = genStream(r, nd, 1+r.Intn(2))
	} else if r.Chance(1, 2) {
		text = " \n"
	}
	if allowBad && r.Chance(1, 6) {
		text += " " + garbage[r.Intn(len(garbage))]
		if r.Chance(1, 2) {
			t2, _ := genStream(r, 1, 1)
			text += " " + t2
		}
	}
	return text
}

type modeSpec struct {
	flags      []string
	r, t, s, n int
	query      string // transport name
	jq         string
}

func inputsChecks(c *Ctx, dir string, round int, big int) {
	r := c.Rng
	// the largest sizes: one big source per run (-Rs concatenates the texts; the model's stack is the OCaml stack)
	nbig := 0
	useBig := func() bool {
		if big > 0 && (big < 32768 || nbig == 0) && r.Chance(2, 3) {
			nbig++
			return true
		}
		return false
	}
	mkRaw := func() string {
		if useBig() {
			return genRawBig(r, big)
		}
		return genRaw(r)
	}
	mkJSON := func() string {
		if useBig() {
			return genJSONBig(r, big, true)
		}
		return genJSONText(r, true)
	}
	modes := []modeSpec{
		{nil, 0, 0, 0, 0, "id", "."},
		{[]string{"-n"}, 0, 0, 0, 1, "inputs", "[inputs]"},
		{[]string{"-n"}, 0, 0, 0, 1, "id", "."},
		{[]string{"-s"}, 0, 0, 1, 0, "id", "."},
		{[]string{"-s", "-n"}, 0, 0, 1, 1, "inputs", "[inputs]"},
		{nil, 0, 0, 0, 0, "pair", "[., input]"},
		{nil, 0, 0, 0, 0, "inputs", "[inputs]"},
		{[]string{"-n"}, 0, 0, 0, 1, "inputk", ""},
		{[]string{"-R"}, 1, 0, 0, 0, "id", "."},
		{[]string{"-R", "-s"}, 1, 0, 1, 0, "id", "."},
		{[]string{"-Rs"}, 1, 0, 1, 0, "id", "."},
		{[]string{"-R", "-n"}, 1, 0, 0, 1, "inputs", "[inputs]"},
		{[]string{"-nR"}, 1, 0, 0, 1, "inputk", ""},
		{[]string{"--stream"}, 0, 1, 0, 0, "id", "."},
		{[]string{"--stream", "-n"}, 0, 1, 0, 1, "inputs", "[inputs]"},
		{[]string{"--stream", "-s"}, 0, 1, 1, 0, "id", "."},
		{[]string{"--stream"}, 0, 1, 0, 0, "pair", "[., input]"},
		// partial consumption through a laziness construct, then further consumption
		{[]string{"-n"}, 0, 0, 0, 1, "prog", ""},
		{[]string{"-n"}, 0, 0, 0, 1, "prog", ""},
		{[]string{"-n"}, 0, 0, 0, 1, "prog", ""},
		{[]string{"-n"}, 0, 0, 0, 1, "prog", ""},
		{[]string{"--stream", "-n"}, 0, 1, 0, 1, "prog", ""},
		{[]string{"-R", "-n"}, 1, 0, 0, 1, "prog", ""},
		{[]string{"-R", "-n"}, 1, 0, 0, 1, "prog", ""},
		{nil, 0, 0, 0, 0, "iter", "[.[]?, input]"},
		{[]string{"--stream"}, 0, 1, 0, 0, "iter", "[.[]?, input]"},
	}
	// sources
	nfiles := r.Intn(4)
	useStdinOperand := nfiles > 0 && r.Chance(1, 3)
	var srcs []source
	files := map[string]string{}
	curFiles = files
	defer func() { curFiles = nil }()
	for _, raw := range []bool{false, true} {
		srcs = srcs[:0]
		nbig = 0
		for k := range files {
			delete(files, k)
		}
		stdinText := ""
		if raw {
			stdinText = mkRaw()
		} else {
			stdinText = mkJSON()
		}
		for i := 0; i < nfiles; i++ {
			name := filepath.Join(dir, fmt.Sprintf("r%d_%v_f%d.json", round, raw, i))
			if r.Chance(1, 10) {
				srcs = append(srcs, source{arg: name + ".missing", missing: true})
				continue
			}
			var text string
			if raw {
				text = mkRaw()
			} else {
				text = mkJSON()
			}
			if err := os.WriteFile(name, []byte(text), 0o644); err != nil {
				panic(err)
			}
			files[filepath.Base(name)] = text
			srcs = append(srcs, source{arg: name, text: text})
		}
		if useStdinOperand {
			k := r.Intn(len(srcs) + 1)
			srcs = append(srcs[:k], append([]source{{arg: "-", text: stdinText}}, srcs[k:]...)...)
		}
		var operands []string
		var srcSexps []string
		for _, sc := range srcs {
			operands = append(operands, sc.arg)
			if sc.missing {
				srcSexps = append(srcSexps, "missing")
			} else {
				srcSexps = append(srcSexps, dataSexp(sc.text, raw))
			}
		}
		total := 0
		count := func(text string) int {
			if raw {
				return strings.Count(text, "\n") + 1
			}
			vs, _ := decodeAll(text)
			return len(vs) + 1
		}
		for _, sc := range srcs {
			if !sc.missing {
				total += count(sc.text)
			}
		}
		if len(srcs) == 0 {
			total = count(stdinText)
		}
		for _, m := range modes {
			if (m.r == 1) != raw {
				continue
			}
			q, jq := m.query, m.jq
			if q == "prog" {
				q, jq = genProg(r, total)
			}
			if q == "inputk" {
				k := r.Intn(total + 3)
				q = fmt.Sprintf("(inputk %d)", k)
				parts := make([]string, k)
				for i := range parts {
					parts[i] = "input"
				}
				jq = strings.Join(parts, ", ")
				if k == 0 {
					jq = "empty"
				}
			}
			args := append(append([]string{}, m.flags...), "-c", jq)
			args = append(args, operands...)
			res := runCLI(args, stdinText)
			seq, nerr, ok := printedSeq(res)
			ct := caseText(shortArgs(args, dir), stdinText, files)
			if !ok {
				c.Violation("%s :: stdout is not a sequence of JSON values", ct)
				continue
			}
			if (nerr > 0) != (res.code == 5) || (nerr == 0) != (res.code == 0) {
				c.Violation("%s :: exit status %d with %d error lines", ct, res.code, nerr)
			}
			c.Emit("(inputs (mode %d %d %d %d) %s %s (%s) %s)", m.r, m.t, m.s, m.n, q, dataSexp(stdinText, raw), strings.Join(srcSexps, " "), seq)
			c.Count("inputs:" + strings.Join(m.flags, "") + ":" + m.query)
		}
		// in-language equivalences on the same implementation
		eq := func(a, b []string, what string) {
			ra := runCLI(append(append([]string{}, a...), operands...), stdinText)
			rb := runCLI(append(append([]string{}, b...), operands...), stdinText)
			if ra.stdout != rb.stdout || ra.code != rb.code {
				c.Violation("%s :: %s: differs from %s", caseText(shortArgs(append(append([]string{}, a...), operands...), dir), stdinText, files), what, strings.Join(b, " "))
			}
			c.Count("equiv:" + what)
		}
		if !raw {
			partialConsumption(c, dir, operands, stdinText, files)
			eq([]string{"-s", "-c", "."}, []string{"-n", "-c", "[inputs]"}, "-s .")
			if plain := runCLI(append([]string{"-c", "."}, operands...), stdinText); plain.code == 0 {
				// without an error value in the stream (an error ends `inputs`, the main loop goes on)
				eq([]string{"-c", "."}, []string{"-n", "-c", "inputs"}, "-n inputs")
			}
			eq([]string{"--stream", "-s", "-c", "."}, []string{"--stream", "-n", "-c", "[inputs]"}, "--stream -s")
			// -f file equals passing the file's text
			queries := []string{".", "[., input]", "# comment\n.\n", "  [inputs]  ", "def f: .;\nf | f", ". as $x | $x", "input"}
			qt := queries[r.Intn(len(queries))]
			qf := filepath.Join(dir, fmt.Sprintf("q%d.jq", round))
			os.WriteFile(qf, []byte(qt), 0o644)
			pos := r.Intn(2)
			var fa []string
			if pos == 0 {
				fa = []string{"-c", "-f", qf}
			} else {
				fa = []string{"-f", "-c", qf}
			}
			eq(fa, []string{"-c", qt}, "-f file")
			if len(operands) > 0 {
				// -f may also follow the query file: gojq -c FILE -f OPERANDS…
				ra := runCLI(append([]string{"-c", qf, "--from-file"}, operands...), stdinText)
				rb := runCLI(append([]string{"-c", qt}, operands...), stdinText)
				if ra.stdout != rb.stdout || ra.code != rb.code {
					c.Violation("%s :: --from-file after the file name differs from the text", caseText(shortArgs(append([]string{"-c", qf, "--from-file"}, operands...), dir), stdinText, files))
				}
			}
		} else {
			// -R yields the lines, -Rs the whole text (Go-side reading of the same bytes)
			var texts []string
			anyMissing := false
			for _, sc := range srcs {
				if sc.missing {
					anyMissing = true
				}
				texts = append(texts, sc.text)
			}
			if len(srcs) == 0 {
				texts = []string{stdinText}
			}
			if !anyMissing {
				var lines []any
				for _, t := range texts {
					ls := strings.Split(t, "\n")
					if ls[len(ls)-1] == "" {
						ls = ls[:len(ls)-1]
					}
					for _, l := range ls {
						lines = append(lines, l)
					}
				}
				rr := runCLI(append([]string{"-R", "-c", "."}, operands...), stdinText)
				got, ok := decodeAll(rr.stdout)
				if !ok || rr.code != 0 || !reflect.DeepEqual(got, lines) && !(len(got) == 0 && len(lines) == 0) {
					c.Violation("%s :: -R does not yield the lines", caseText(shortArgs(append([]string{"-R", "-c", "."}, operands...), dir), stdinText, files))
				}
				rs := runCLI(append([]string{"-Rs", "-c", "."}, operands...), stdinText)
				got, ok = decodeAll(rs.stdout)
				if !ok || rs.code != 0 || len(got) != 1 || got[0] != strings.Join(texts, "") {
					c.Violation("%s :: -Rs does not yield the whole text", caseText(shortArgs(append([]string{"-Rs", "-c", "."}, operands...), dir), stdinText, files))
				}
				// -n -R [inputs|length]: the number of code points of every line
				var lens []any
				for _, l := range lines {
					lens = append(lens, json.Number(strconv.Itoa(utf8.RuneCountInString(l.(string)))))
				}
				rl := runCLI(append([]string{"-n", "-R", "-c", "[inputs|length]"}, operands...), stdinText)
				got, ok = decodeAll(rl.stdout)
				gl, _ := func() ([]any, bool) {
					if len(got) == 1 {
						a, ok := got[0].([]any)
						return a, ok
					}
					return nil, false
				}()
				if !ok || rl.code != 0 || len(got) != 1 || !(reflect.DeepEqual(gl, lens) || len(gl) == 0 && len(lens) == 0) {
					c.Violation("%s :: -n -R [inputs|length] does not give the line lengths", caseText(shortArgs(append([]string{"-n", "-R", "-c", "[inputs|length]"}, operands...), dir), stdinText, files))
				}
				if len(texts) == 1 {
					eq([]string{"-R", "-n", "-c", "[inputs]"}, []string{"-Rs", "-c", `split("\n") | if .[-1] == "" then .[:-1] else . end`}, "-R lines")
				}
				c.Count("equiv:raw")
			}
		}
	}
}

// Go-side: on an error-free stream, taking k values through a laziness construct and then the rest gives
// back the whole stream, each value exactly once, in order, for every k
func partialConsumption(c *Ctx, dir string, operands []string, stdinText string, files map[string]string) {
	all := runCLI(append([]string{"-c", "."}, operands...), stdinText)
	vals, ok := decodeAll(all.stdout)
	if all.code != 0 || !ok || len(vals) > 40 {
		return
	}
	n := len(vals)
	check := func(jq string, want []any, wantErr bool) {
		args := append([]string{"-n", "-c", jq}, operands...)
		res := runCLI(args, stdinText)
		got, ok := decodeAll(res.stdout)
		if !ok || (res.code != 0) != wantErr || !(reflect.DeepEqual(got, want) || len(got) == 0 && len(want) == 0) {
			c.Violation("%s :: partial consumption then the rest does not give back the stream exactly once in order", caseText(shortArgs(args, dir), stdinText, files))
		}
		c.Count("equiv:partial")
	}
	arr := func(xs []any) any {
		if xs == nil {
			return []any{}
		}
		return append([]any{}, xs...)
	}
	for k := 0; k <= n+1; k++ {
		m := min(k, n)
		check(fmt.Sprintf("[limit(%d; inputs)], [inputs]", k), []any{arr(vals[:m]), arr(vals[m:])}, false)
		check(fmt.Sprintf("reduce limit(%d; inputs) as $x (0; . + 1), [inputs]", k), []any{json.Number(strconv.Itoa(m)), arr(vals[m:])}, false)
		if k <= n {
			check(fmt.Sprintf("[limit(%d; repeat(input))], [inputs]", k), []any{arr(vals[:k]), arr(vals[k:])}, false)
		} else {
			check(fmt.Sprintf("[limit(%d; repeat(input))], [inputs]", k), nil, true)
		}
	}
	if n > 0 {
		check("first(inputs), [inputs]", []any{vals[0], arr(vals[1:])}, false)
		check("(label $o | inputs | ., break $o), [inputs]", []any{vals[0], arr(vals[1:])}, false)
		check("isempty(inputs), [inputs]", []any{false, arr(vals[1:])}, false)
		check("input, [inputs]", []any{vals[0], arr(vals[1:])}, false)
	} else {
		check("first(inputs), [inputs]", []any{[]any{}}, false)
		check("isempty(inputs), [inputs]", []any{true, []any{}}, false)
	}
}

// a program st1, st2, …: each stage pulls a known number of values from the shared iterator
func genProg(r *Rng, total int) (string, string) {
	var qs, js []string
	k := func() int { return r.Intn(total + 3) }
	n := 1 + r.Intn(3)
	for i := 0; i < n; i++ {
		last := i == n-1
		c := r.Intn(12)
		if last && r.Chance(2, 3) {
			c = 10 + r.Intn(2) // finish with the rest
		}
		switch c {
		case 0, 1:
			x := k()
			qs, js = append(qs, fmt.Sprintf("(take %d)", x)), append(js, fmt.Sprintf("[limit(%d; inputs)]", x))
		case 2:
			if r.Chance(1, 2) {
				qs, js = append(qs, "first"), append(js, "first(inputs)")
			} else {
				qs, js = append(qs, "first"), append(js, "(label $o | inputs | ., break $o)")
			}
		case 3:
			x := k()
			qs, js = append(qs, fmt.Sprintf("(takerep %d)", x)), append(js, fmt.Sprintf("[limit(%d; repeat(input))]", x))
		case 4:
			qs, js = append(qs, "input"), append(js, "input")
		case 5:
			qs, js = append(qs, "isempty"), append(js, "isempty(inputs)")
		case 6:
			x := k()
			qs, js = append(qs, fmt.Sprintf("(redcount %d)", x)), append(js, fmt.Sprintf("reduce limit(%d; inputs) as $x (0; . + 1)", x))
		case 7:
			x := k()
			qs, js = append(qs, fmt.Sprintf("(foreach %d)", x)), append(js, fmt.Sprintf("[foreach limit(%d; inputs) as $x (0; . + 1; [., $x])]", x))
		case 8:
			qs, js = append(qs, "until"), append(js, "(null | until(. != null; input))")
		case 9:
			qs, js = append(qs, "inputfilter"), append(js, "(input as $a | [inputs | select(type == ($a | type))])")
		default:
			qs, js = append(qs, "rest"), append(js, "[inputs]")
		}
	}
	return "(prog " + strings.Join(qs, " ") + ")", strings.Join(js, ", ")
}

func shortArgs(args []string, dir string) []string {
	out := make([]string, len(args))
	for i, a := range args {
		out[i] = strings.ReplaceAll(a, dir+string(os.PathSeparator), "")
	}
	return out
}

// ---------------------------------------------------------------------------------------------
// --arg family, --args / --jsonargs

var jsonTexts = []string{"1", "null", `"s"`, `[1,{"a":2}]`, ` {"k":[]} `, "true", "1 2", "", "{", `"x" y`, "-0.5", "[]", `{"b":1,"a":2}`}
var argNames = []string{"a", "b", "c", "a", "b", "x1", "named", "foo_bar"}
var plainWords = []string{"w", "1", "x y", "", "null", `"q"`, "[1]", "-", "-1", "{", "é", "--", "--arg", "-n", "--args", "{\"a\":1}", "1 2"}

func argsChecks(c *Ctx, dir string, round int) {
	r := c.Rng
	files := map[string]string{}
	short := map[string]string{}
	curFiles = short
	defer func() { curFiles = nil }()
	mkfile := func(kind string) string {
		name := filepath.Join(dir, fmt.Sprintf("a%d_%s%d", round, kind, r.Intn(1000)))
		if r.Chance(1, 8) {
			return name + ".missing"
		}
		var text string
		if kind == "raw" {
			text = genRaw(r)
		} else {
			text = genJSONText(r, r.Chance(1, 4))
		}
		os.WriteFile(name, []byte(text), 0o644)
		files[name] = text
		short[filepath.Base(name)] = text
		return name
	}
	var words []string
	queryPlaced, posActive, dashdash := false, false, false
	emitNamed := func() {
		name := argNames[r.Intn(len(argNames))]
		switch r.Intn(4) {
		case 0:
			words = append(words, "--arg", name, plainWords[r.Intn(len(plainWords))])
		case 1:
			words = append(words, "--argjson", name, jsonTexts[r.Intn(len(jsonTexts)-3+r.Intn(4))])
		case 2:
			words = append(words, "--slurpfile", name, mkfile("slurp"))
		default:
			words = append(words, "--rawfile", name, mkfile("raw"))
		}
	}
	jsonMode := false
	n := 2 + r.Intn(9)
	placeAt := r.Intn(n)
	for i := 0; i < n; i++ {
		if i == placeAt {
			words = append(words, "$ARGS")
			queryPlaced = true
			continue
		}
		switch k := r.Intn(10); {
		case dashdash && queryPlaced && posActive:
			w := plainWords[r.Intn(len(plainWords))]
			if jsonMode {
				w = jsonTexts[r.Intn(len(jsonTexts)-2)]
			}
			words = append(words, w)
		case k < 3 && !dashdash:
			emitNamed()
		case k < 5 && !dashdash:
			if r.Chance(1, 2) {
				words = append(words, "--args")
				jsonMode = false
			} else {
				words = append(words, "--jsonargs")
				jsonMode = true
			}
			posActive = true
		case k < 6 && !dashdash:
			// output flags and INPUT-MODE flags: none of them may change what the argument flags bind
			bf := []string{"-n", "-c", "-nc", "--compact-output", "-r", "-R", "-s", "-Rs", "-sR", "--stream", "--raw-input",
				"--slurp", "--yaml-input", "-Rn", "--null-input"}
			words = append(words, bf[r.Intn(len(bf))])
		case k == 6 && queryPlaced && posActive && !dashdash:
			words = append(words, "--")
			dashdash = true
		case queryPlaced && posActive:
			var w string
			if jsonMode {
				w = jsonTexts[r.Intn(len(jsonTexts)-1)]
			} else {
				w = plainWords[r.Intn(len(plainWords)-6)]
			}
			words = append(words, w)
		default:
			if !dashdash {
				emitNamed()
			}
		}
	}
	words = append([]string{"-n", "-c"}, words...)
	res := runCLI(words, "")
	// dictionary of everything the flags may refer to
	var dict []string
	seen := map[string]bool{}
	addJSON := func(t string) {
		if seen["j"+t] {
			return
		}
		seen["j"+t] = true
		dec := json.NewDecoder(strings.NewReader(t))
		dec.UseNumber()
		var v any
		err := dec.Decode(&v)
		switch {
		case err == io.EOF:
			dict = append(dict, fmt.Sprintf("(json %s null)", Hexs([]byte(t))))
		case err != nil:
			dict = append(dict, fmt.Sprintf("(json %s err)", Hexs([]byte(t))))
		default:
			dict = append(dict, fmt.Sprintf("(json %s %s)", Hexs([]byte(t)), SexpVal(v)))
		}
	}
	// file names travel without the (random) temp dir prefix
	swords := shortArgs(words, dir)
	for wi, w := range words {
		addJSON(swords[wi])
		if strings.HasPrefix(w, dir) && !seen["f"+w] {
			seen["f"+w] = true
			sw := swords[wi]
			text, ok := files[w]
			if !ok {
				dict = append(dict, fmt.Sprintf("(slurp %s err)", Hexs([]byte(sw))), fmt.Sprintf("(raw %s err)", Hexs([]byte(sw))))
				continue
			}
			dict = append(dict, fmt.Sprintf("(raw %s %s)", Hexs([]byte(sw)), SexpVal(text)))
			if vals, ok := decodeAll(text); ok {
				if vals == nil {
					vals = []any{}
				}
				dict = append(dict, fmt.Sprintf("(slurp %s %s)", Hexs([]byte(sw)), SexpVal(vals)))
			} else {
				dict = append(dict, fmt.Sprintf("(slurp %s err)", Hexs([]byte(sw))))
			}
		}
	}
	impl := "err"
	vals, ok := decodeAll(res.stdout)
	if res.code == 0 && ok && len(vals) == 1 {
		impl = "(out " + SexpVal(vals[0]) + ")"
	} else if res.code == 0 {
		impl = "(weird " + Hexs([]byte(res.stdout)) + ")"
	}
	hw := make([]string, len(words))
	for i, w := range swords {
		hw[i] = Hexs([]byte(w))
	}
	c.Emit("(args (%s) (%s) %s)", strings.Join(hw, " "), strings.Join(dict, " "), impl)
	c.Count("args")
	// in-language: $name is $ARGS.named.name, and $ARGS is stable under -f
	if res.code == 0 && ok && len(vals) == 1 {
		if m, _ := vals[0].(map[string]any); m != nil {
			named, _ := m["named"].(map[string]any)
			var vs, ns []string
			for k := range named {
				vs = append(vs, "$"+k)
				ns = append(ns, "$ARGS.named."+k)
			}
			sort.Strings(vs)
			sort.Strings(ns)
			q := "[" + strings.Join(vs, ",") + "] == [" + strings.Join(ns, ",") + "]"
			w2 := make([]string, len(words))
			copy(w2, words)
			for i, w := range w2 {
				if w == "$ARGS" {
					w2[i] = q
					break
				}
			}
			r2 := runCLI(w2, "")
			if strings.TrimSpace(r2.stdout) != "true" {
				c.Violation("%s :: $name differs from $ARGS.named.name", caseText(shortArgs(w2, dir), "", short))
			}
			// literal: the same object written in the query language
			lit, _ := json.Marshal(vals[0])
			r3 := runCLI([]string{"-n", "-c", string(lit)}, "")
			if r3.stdout != res.stdout {
				c.Violation("%s :: $ARGS differs from its own literal", caseText(shortArgs(words, dir), "", short))
			}
			c.Count("equiv:args")
		}
	}
}

// --slurpfile / --rawfile / --argjson under EVERY input mode: the file named by --slurpfile is always
// read as JSON (`--slurpfile x f` = `--argjson x "$(gojq -s -c . f)"`), --rawfile binds the exact text
func fileFlagModes(c *Ctx, dir string, round int) {
	r := c.Rng
	jf := filepath.Join(dir, fmt.Sprintf("m%d_j.json", round))
	rf := filepath.Join(dir, fmt.Sprintf("m%d_r.txt", round))
	jtext := genJSONText(r, r.Chance(1, 6))
	if r.Chance(1, 3) { // lines that would parse differently as raw text
		jtext = "1\n[2,\n3]\n\"four\"\n" + jtext
	}
	rtext := genRaw(r)
	os.WriteFile(jf, []byte(jtext), 0o644)
	os.WriteFile(rf, []byte(rtext), 0o644)
	files := map[string]string{filepath.Base(jf): jtext, filepath.Base(rf): rtext}
	curFiles = files
	defer func() { curFiles = nil }()
	slurped := runCLI([]string{"-s", "-c", ".", jf}, "")
	modes := [][]string{nil, {"-R"}, {"-R", "-s"}, {"-Rs"}, {"--stream"}, {"-s"}, {"--stream", "-s"}, {"--yaml-input"}, {"--raw-input", "--slurp"}}
	stdins := map[string]string{"": "", "R": "l1\nl2\n", "j": "1 [2] {\"a\":3}"}
	for _, m := range modes {
		for _, null := range []bool{true, false} {
			pre := append([]string{"-c"}, m...)
			stdin := ""
			q := "$x"
			if null {
				pre = append(pre, "-n")
			} else {
				q = "[., $x]"
				switch {
				case len(m) > 0 && (strings.Contains(m[0], "R") || strings.Contains(m[0], "raw")):
					stdin = stdins["R"]
				default:
					stdin = stdins["j"]
				}
			}
			a := append(append([]string{}, pre...), "--slurpfile", "x", jf, q)
			ra := runCLI(a, stdin)
			ct := caseText(shortArgs(a, dir), stdin, files)
			if slurped.code == 0 {
				b := append(append([]string{}, pre...), "--argjson", "x", strings.TrimSpace(slurped.stdout), q)
				rb := runCLI(b, stdin)
				if ra.stdout != rb.stdout || ra.code != rb.code {
					c.Violation("%s :: --slurpfile differs from --argjson with the slurped values of the file", ct)
				}
			} else if ra.code == 0 {
				c.Violation("%s :: --slurpfile of a malformed file succeeds", ct)
			}
			// --rawfile: the exact text, compared with --arg of the same text
			a2 := append(append([]string{}, pre...), "--rawfile", "x", rf, q)
			b2 := append(append([]string{}, pre...), "--arg", "x", rtext, q)
			ra2, rb2 := runCLI(a2, stdin), runCLI(b2, stdin)
			if ra2.stdout != rb2.stdout || ra2.code != rb2.code {
				c.Violation("%s :: --rawfile differs from --arg with the text of the file", caseText(shortArgs(a2, dir), stdin, files))
			}
			if null {
				vals, ok := decodeAll(ra2.stdout)
				if !ok || len(vals) != 1 || vals[0] != rtext {
					c.Violation("%s :: --rawfile does not bind the exact text", caseText(shortArgs(a2, dir), stdin, files))
				}
			}
			c.Count("equiv:fileflags")
		}
	}
}

// ---------------------------------------------------------------------------------------------

func runC16(c *Ctx) {
	dir, err := os.MkdirTemp("", "verif-c16-")
	if err != nil {
		panic(err)
	}
	defer os.RemoveAll(dir)
	curCtx, curDir = c, dir
	n := c.N
	for i := 0; i < n; i++ {
		seekableStdin = c.Rng.Chance(1, 4)
		ndocs := 1 + c.Rng.Intn(3)
		text, nums := genStream(c.Rng, ndocs, 1+c.Rng.Intn(3))
		if len(text) <= 160 || c.Tier != "quick" {
			streamChecks(c, text, nums, allCuts(len(text)))
		} else {
			streamChecks(c, text, nums, nil)
		}
		big := 0
		if c.Tier == "quick" {
			if i%24 == 0 && i/24 < len(quickBig) { // spread over the run (the model is run in contiguous shards)
				big = quickBig[i/24]
			}
		} else if i%600 == 0 || (i < 240 && i%24 == 0) { // every size once, the quick sizes twice (bounded case volume)
			big = thoroughBig[(i/24+i/600)%len(thoroughBig)]
		}
		inputsChecks(c, dir, i, big)
		if big > 0 {
			bigStreamChecks(c, big)
		}
		argsChecks(c, dir, i)
		argsChecks(c, dir, i)
		fileFlagModes(c, dir, i)
		if i%50 == 49 { // keep the temp dir small
			es, _ := os.ReadDir(dir)
			for _, e := range es {
				os.Remove(filepath.Join(dir, e.Name()))
			}
		}
	}
	longRawLines(c)
	// fixed shapes named in the property text
	for _, text := range []string{"1", "null", `"a"`, "[]", "{}", "[[]]", "[{}]", `{"a":[]}`, `{"a":{}}`, "[[],[]]", "[[[]]]",
		"[1,[2,[3]],4]", `{"b":1,"a":{"d":[],"c":2},"e":[{"f":null}]}`, "[[1],2]", `[{"a":1},{"b":2}]`, "1 2 3", "[] {} 0",
		`{"a":[1,{"b":2}],"c":3} [4]`, " \n[ 1 , 2 ]\n\n{ \"k\" : [ ] }\n", "[1,[]]", "[[],1]", `{"a":{},"b":1}`, `[{"a":[{"b":[]}]},7]`} {
		seekableStdin = false
		streamChecks(c, text, findNums(text), allCuts(len(text)))
	}
}

// longRawLines: -R / -Rs / -nR with lines around every buffer size a line reader could have (bufio.Reader 4096,
// the 16 KiB input window, bufio.Scanner's 64 KiB token limit, 1 MiB), each followed by further lines: every line must come
// out, whole, and -Rs must equal the text.  Implementation-only oracle (the lines never reach the extracted model), every tier.
func longRawLines(c *Ctx) {
	sizes := []int{4095, 4096, 4097, 8191, 8192, 16383, 16384, 16385, 32768, 65535, 65536, 65537, 70000, 131072, 1 << 20}
	for i, n := range sizes {
		terms := []string{"\n", "\r\n", ""}
		term := terms[i%3]
		text := "first\n" + longLine(c.Rng, n) + "\n" + "after\n" + longLine(c.Rng, n+1) + "\nlast" + term
		var want []any
		ls := strings.Split(text, "\n")
		if ls[len(ls)-1] == "" {
			ls = ls[:len(ls)-1]
		}
		for _, l := range ls {
			want = append(want, l)
		}
		for _, sk := range []bool{false, true} {
			seekableStdin = sk
			rr := runCLI([]string{"-R", "-c", "."}, text)
			got, ok := decodeAll(rr.stdout)
			if !ok || rr.code != 0 || !reflect.DeepEqual(got, want) {
				c.Violation("gojq -R -c . <<< first\\n + %d-byte line + after\\n + %d-byte line + last (seekable stdin %v) :: -R does not yield the lines (status %d, %d of %d lines)", n, n+1, sk, rr.code, len(got), len(want))
			}
			rs := runCLI([]string{"-Rs", "-c", "."}, text)
			got, ok = decodeAll(rs.stdout)
			if !ok || rs.code != 0 || len(got) != 1 || got[0] != text {
				c.Violation("gojq -Rs -c . <<< text with %d-byte lines (seekable stdin %v) :: -Rs does not yield the whole text", n, sk)
			}
			rn := runCLI([]string{"-nR", "-c", "[inputs | length]"}, text)
			got, ok = decodeAll(rn.stdout)
			if !ok || rn.code != 0 || len(got) != 1 {
				c.Violation("gojq -nR -c '[inputs | length]' <<< text with %d-byte lines (seekable stdin %v) :: inputs does not deliver every line", n, sk)
			} else if a, _ := got[0].([]any); len(a) != len(want) {
				c.Violation("gojq -nR -c '[inputs | length]' <<< text with %d-byte lines (seekable stdin %v) :: %d of %d lines", n, sk, len(a), len(want))
			}
		}
		c.Count("raw:longline")
	}
	seekableStdin = false
}

// number spans of a hand-written text without numbers inside strings
func findNums(s string) []span {
	var out []span
	isn := func(b byte) bool {
		return b == '-' || b == '.' || b == '+' || b == 'e' || b == 'E' || (b >= '0' && b <= '9')
	}
	inStr := false
	for i := 0; i < len(s); i++ {
		if inStr {
			if s[i] == '\\' {
				i++
			} else if s[i] == '"' {
				inStr = false
			}
			continue
		}
		if s[i] == '"' {
			inStr = true
			continue
		}
		if (s[i] >= '0' && s[i] <= '9') || s[i] == '-' {
			j := i
			for j < len(s) && isn(s[j]) {
				j++
			}
			out = append(out, span{i, j})
			i = j - 1
		}
	}
	return out
}
