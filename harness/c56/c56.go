// Package c56 is shared by the C05 (isolation) and C06 (concurrency) observers: program corpus,
// program generator, inputs with aliased substructure, snapshots and a run helper.
// It only uses the public API of gojq plus the verif hook VerifCodeConstants.
package c56

import (
	"encoding/json"
	"fmt"
	"math/big"
	"os"
	"sort"
	"strings"

	"github.com/itchyny/gojq"

	. "verifharness/hlib"
)

// Job is one program with one input (JSON text) and optional variable values (JSON texts).
type Job struct {
	Program string   `json:"program"`
	Input   string   `json:"input"`
	Origin  string   `json:"origin"`
	Vars    []string `json:"vars,omitempty"` // value of $v (JSON text), built like inputs
	Mode    string   `json:"mode,omitempty"` // C06: restrict to one mode
	Other   string   `json:"other,omitempty"` // C05: the input of the runs in between (steers per-Code state)
	Ref     string   `json:"ref,omitempty"`   // C05: a reference program that must yield the same outputs
}

// LoadJobs reads a JSON array of jobs written by the check (corpus extracted from cli/test.yaml).
func LoadJobs(path string) ([]Job, error) {
	b, err := os.ReadFile(path)
	if err != nil {
		return nil, err
	}
	var js []Job
	if err := json.Unmarshal(b, &js); err != nil {
		return nil, err
	}
	return js, nil
}

// ---------------------------------------------------------------------------------------------
// values

// Decode parses JSON text into gojq values (int / float64 / *big.Int via json.Number normalisation).
func Decode(text string) (any, error) {
	dec := json.NewDecoder(strings.NewReader(text))
	dec.UseNumber()
	var v any
	if err := dec.Decode(&v); err != nil {
		return nil, err
	}
	return norm(v), nil
}

func norm(v any) any {
	switch v := v.(type) {
	case json.Number:
		if i, err := v.Int64(); err == nil {
			return int(i)
		}
		if strings.IndexAny(v.String(), ".eE") < 0 {
			if b, ok := new(big.Int).SetString(v.String(), 10); ok {
				return b
			}
		}
		f, _ := v.Float64()
		return f
	case []any:
		for i := range v {
			v[i] = norm(v[i])
		}
		return v
	case map[string]any:
		for k := range v {
			v[k] = norm(v[k])
		}
		return v
	}
	return v
}

// Aliased holds an input whose containers share structure, together with the caller-side memory
// that is not part of the value but shares backing arrays with it (hidden capacity).
type Aliased struct {
	Value any
	Roots []any // everything the caller can see: Value plus backing arrays it was cut from
}

// Alias rebuilds v so that equal sub-containers become the SAME Go object and arrays become slices
// of larger backing arrays with spare capacity (len < cap), some of them overlapping.
// mode 0: plain (as decoded); mode 1: spare capacity on every array; mode 2: spare capacity, shared
// equal sub-containers and overlapping slices of one backing array.
func Alias(v any, mode int) Aliased {
	if mode == 0 {
		return Aliased{Value: v, Roots: []any{v}}
	}
	a := &aliaser{mode: mode, seen: map[string]any{}}
	w := a.build(v)
	return Aliased{Value: w, Roots: append([]any{w}, a.roots...)}
}

type aliaser struct {
	mode  int
	seen  map[string]any
	roots []any
}

func (a *aliaser) build(v any) any {
	switch v := v.(type) {
	case []any:
		key := ""
		if a.mode == 2 {
			key = "a" + SexpVal(v)
			if w, ok := a.seen[key]; ok {
				return w
			}
		}
		// backing array: [pad, elements..., spare, spare]; the value is the middle slice
		back := make([]any, len(v)+3)
		back[0] = "pad"
		for i, x := range v {
			back[1+i] = a.build(x)
		}
		back[len(v)+1] = "spare1"
		back[len(v)+2] = "spare2"
		a.roots = append(a.roots, back)
		w := back[1 : 1+len(v)] // cap = len+2
		if a.mode == 2 {
			a.seen[key] = w
			if len(v) >= 2 {
				// an overlapping sibling view the caller also holds
				a.roots = append(a.roots, back[2:len(v)+2])
			}
		}
		return w
	case *big.Int:
		if a.mode == 2 { // equal big integers become ONE object: an in-place update of one shows in the others
			key := "b" + v.String()
			if w, ok := a.seen[key]; ok {
				return w
			}
			a.seen[key] = v
		}
		return v
	case map[string]any:
		key := ""
		if a.mode == 2 {
			key = "o" + SexpVal(v)
			if w, ok := a.seen[key]; ok {
				return w
			}
		}
		m := make(map[string]any, len(v))
		ks := make([]string, 0, len(v))
		for k := range v {
			ks = append(ks, k)
		}
		sort.Strings(ks)
		for _, k := range ks {
			m[k] = a.build(v[k])
		}
		if a.mode == 2 {
			a.seen[key] = m
		}
		return m
	}
	return v
}

// Depth returns the nesting depth of v, giving up at limit (cyclic values, D5 of DESIGN.md).
func Depth(v any, limit int) int {
	if limit <= 0 {
		return 1 << 20
	}
	d := 0
	switch v := v.(type) {
	case []any:
		for _, x := range v {
			if e := Depth(x, limit-1); e > d {
				d = e
			}
		}
		return d + 1
	case map[string]any:
		for _, x := range v {
			if e := Depth(x, limit-1); e > d {
				d = e
			}
		}
		return d + 1
	}
	return 0
}

// Snap is a canonical by-value rendering (keys sorted, Go number representation included).
// Error outputs render as (err <hex message>) followed by the rendering of their value, if any.
func Snap(v any) string {
	if Depth(v, 300) > 300 {
		return "(toodeep)"
	}
	if e, ok := v.(error); ok {
		s := SexpVal(v)
		if ve, ok := e.(gojq.ValueError); ok {
			if Depth(ve.Value(), 300) > 300 {
				return s + "(toodeep)"
			}
			s += SexpVal(ve.Value())
		}
		return s
	}
	return SexpVal(v)
}

// SnapCap is Snap for memory the run must not write at all: arrays are rendered over their whole
// capacity (v[:cap(v)]), so a write into the hidden capacity of a code constant or of caller memory shows.
func SnapCap(v any) string {
	if Depth(v, 300) > 300 {
		return "(toodeep)"
	}
	var b strings.Builder
	snapCap(&b, v)
	return b.String()
}

func snapCap(b *strings.Builder, v any) {
	switch v := v.(type) {
	case []any:
		fmt.Fprintf(b, "(a%d/%d", len(v), cap(v))
		for _, x := range v[:cap(v)] {
			b.WriteByte(' ')
			snapCap(b, x)
		}
		b.WriteByte(')')
	case map[string]any:
		ks := make([]string, 0, len(v))
		for k := range v {
			ks = append(ks, k)
		}
		sort.Strings(ks)
		b.WriteString("(o")
		for _, k := range ks {
			b.WriteString(" (" + Hexs([]byte(k)) + " ")
			snapCap(b, v[k])
			b.WriteByte(')')
		}
		b.WriteByte(')')
	default:
		b.WriteString(SexpVal(v))
	}
}

// Bytes is the serialisation the library offers (gojq.Marshal), or the error text.
func Bytes(v any) string {
	if e, ok := v.(error); ok {
		return "error: " + e.Error()
	}
	if Depth(v, 300) > 300 {
		return "(toodeep)"
	}
	b, err := gojq.Marshal(v)
	if err != nil {
		return "marshal error: " + err.Error()
	}
	return string(b)
}

// DeepRead touches every word reachable from v (used by reader goroutines under the race detector).
func DeepRead(v any, limit int) int {
	if limit <= 0 {
		return 0
	}
	n := 1
	switch v := v.(type) {
	case []any:
		for _, x := range v[:cap(v)] { // hidden capacity too: a write there is a write into caller memory
			n += DeepRead(x, limit-1)
		}
	case map[string]any:
		for k, x := range v {
			n += len(k) + DeepRead(x, limit-1)
		}
	case string:
		n += len(v)
	case *big.Int:
		n += v.BitLen()
	}
	return n
}

// ---------------------------------------------------------------------------------------------
// running

type Compiled struct {
	Code  *gojq.Code
	Names []string
}

func Compile(program string, names []string) (*Compiled, error) {
	q, err := gojq.Parse(program)
	if err != nil {
		return nil, err
	}
	c, err := gojq.Compile(q, gojq.WithVariables(names))
	if err != nil {
		return nil, err
	}
	return &Compiled{Code: c, Names: names}, nil
}

// Collect runs to completion (at most max outputs; stops after the first error like the command).
// onEmit, if not nil, is called after every emission with the values emitted so far.
func Collect(c *Compiled, in any, vars []any, max int, onEmit func(vals []any)) (vals []any, truncated bool) {
	it := c.Code.Run(in, vars...)
	for {
		v, ok := it.Next()
		if !ok {
			return vals, false
		}
		vals = append(vals, v)
		if onEmit != nil {
			onEmit(vals)
		}
		if _, isErr := v.(error); isErr {
			return vals, false
		}
		if len(vals) >= max {
			return vals, true
		}
	}
}

func Snaps(vals []any) []string {
	out := make([]string, len(vals))
	for i, v := range vals {
		out[i] = Snap(v)
	}
	return out
}

func BytesAll(vals []any) []string {
	out := make([]string, len(vals))
	for i, v := range vals {
		out[i] = Bytes(v)
	}
	return out
}

func FirstDiff(a, b []string) int {
	for i := 0; i < len(a) && i < len(b); i++ {
		if a[i] != b[i] {
			return i
		}
	}
	if len(a) != len(b) {
		if len(a) < len(b) {
			return len(a)
		}
		return len(b)
	}
	return -1
}

// CaseText is the canonical replayable text of a history/concurrency case.
func CaseText(kind string, j Job, extra string) string {
	esc := strings.NewReplacer("\\", "\\\\", "\n", "\\n", "\r", "\\r", "\t", "\\t")
	s := kind
	if extra != "" {
		s += " " + extra
	}
	if len(j.Vars) > 0 {
		s += " vars=" + esc.Replace(strings.Join(j.Vars, ";"))
	}
	if j.Other != "" {
		s += " other=" + esc.Replace(compact(j.Other))
	}
	if j.Ref != "" {
		s += " ref=" + esc.Replace(j.Ref)
	}
	return fmt.Sprintf("%s input=%s program=%s", s, esc.Replace(compact(j.Input)), esc.Replace(j.Program))
}

func compact(s string) string {
	v, err := Decode(s)
	if err != nil {
		return s
	}
	b, err := gojq.Marshal(v)
	if err != nil {
		return s
	}
	return string(b)
}

// ParseCase inverts CaseText (for --replay).
func ParseCase(text string) (kind, extra string, j Job, ok bool) {
	unesc := func(s string) string {
		var b strings.Builder
		for i := 0; i < len(s); i++ {
			if s[i] == '\\' && i+1 < len(s) {
				i++
				switch s[i] {
				case 'n':
					b.WriteByte('\n')
				case 'r':
					b.WriteByte('\r')
				case 't':
					b.WriteByte('\t')
				default:
					b.WriteByte(s[i])
				}
			} else {
				b.WriteByte(s[i])
			}
		}
		return b.String()
	}
	pi := strings.Index(text, " program=")
	ii := strings.Index(text, " input=")
	if pi < 0 || ii < 0 || ii > pi {
		return "", "", j, false
	}
	j.Program = unesc(text[pi+len(" program="):])
	j.Input = unesc(text[ii+len(" input="):pi])
	head := text[:ii]
	if ri := strings.Index(head, " ref="); ri >= 0 {
		j.Ref = unesc(head[ri+len(" ref="):])
		head = head[:ri]
	}
	if oi := strings.Index(head, " other="); oi >= 0 {
		j.Other = unesc(head[oi+len(" other="):])
		head = head[:oi]
	}
	if vi := strings.Index(head, " vars="); vi >= 0 {
		j.Vars = strings.Split(unesc(head[vi+len(" vars="):]), ";")
		head = head[:vi]
	}
	kind, extra, _ = strings.Cut(head, " ")
	return kind, extra, j, true
}
