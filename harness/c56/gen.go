package c56

import (
	"fmt"
	"strings"

	. "verifharness/hlib"
)

// Inputs with containers at several depths; the aliasing modes of Alias make equal sub-containers
// the same object and give arrays hidden capacity.
var Inputs = []string{
	`[[1,2,3],[1,2,3],{"a":[1,2,3],"b":{"c":[1,2,3]}},{"a":[1,2,3],"b":{"c":[1,2,3]}},[3,1,2],[]]`,
	`{"a":{"q":1},"b":{"c":[1],"d":{"e":2}},"c":[{"a":2,"b":[1]},{"a":1,"b":[1]},{"a":2,"b":[2]}]}`,
	`[{"a":2,"b":[3,1]},{"a":1,"b":[3,1]},{"a":2,"b":[0]},{"a":null,"b":[]},{"a":1,"b":[3,1]}]`,
	`[[3,[4,[5]]],[3,[4,[5]]],[1,2],[],[[[]]],"x",null,1.5,{"a":[1,[2]]}]`,
	`{"k9":1,"k8":[1,2],"k7":{"z":1,"y":2,"x":3},"k6":"s","k5":null,"k4":[{"b":1,"a":2}],"k3":3,"k2":2,"k1":1,"k0":0,"ka":"a","kb":"b"}`,
	`[1,2,3,4,5,6,7,8]`,
	`["abc","aXbxc","","foo bar","xyz"]`,
	`null`,
	`{"a":[{"b":[1,2]},{"b":[1,2]}],"b":[{"b":[1,2]},{"b":[1,2]}]}`,
	// integers beyond int64 are *big.Int: the only mutable number representation
	`[-4722366482869645213696,4722366482869645213696,-9223372036854775809,9223372036854775808,-1,0,3,18446744073709551616,-18446744073709551616,-4722366482869645213696]`,
	`{"n":-4722366482869645213696,"p":4722366482869645213696,"a":[-4722366482869645213696,{"b":-36893488147419103232}],"s":-5,"t":7,"c":[1,-36893488147419103232]}`,
	`-4722366482869645213696`,
}

// BigVars: variable values holding big integers.
var BigVars = []string{`-4722366482869645213696`, `[-4722366482869645213696,5,{"a":-36893488147419103232},36893488147419103232]`}

// NumberProbes apply every number native / operator to big integers coming from the input, a variable or a
// literal of the program, and emit the operand again AFTERWARDS.
var NumberProbes = []string{
	`., abs?, .`, `., length?, .`, `., (-(.))?, .`, `[., abs?, .]`, `[.[]? | numbers | abs], .`, `[.[]? | numbers | length], .`,
	`(map(abs))?, .`, `(map(length))?, .`, `(map(-(.)))?, .`, `(.[0]? | abs?), .[0]?, .`, `.n? as $x | ($x | abs?), $x, .`,
	`[.. | numbers | abs, length, -(.), . + 0, . - 0, . * 1, . * -1, . / 1, (. % 7), floor, sqrt, fabs, round, ceil, tostring, tojson, @text, @json], .`,
	`[.. | numbers] | min, max, sort, unique, (add?), (map(-(.)) | sort), (map(abs) | unique), (sort_by(abs)), (group_by(. > 0)), (min_by(abs)), (max_by(length)), .`,
	`[.. | numbers | . + 1, . - 1, . * 2, . / 2, . % 3, pow(.; 1)?, log2?, significand?, logb?, trunc, infinite, (. == abs), (. < 0)], .`,
	`[.. | numbers] | (implode?), (map(tostring) | join(",")), (map(tojson)), ([.[] | [.] | @csv]), (map(. as $n | [$n, $n] | add)), .`,
	`$v, ([$v | .. | numbers | abs]), $v, ([$v | .. | numbers | length]), $v, ([$v | .. | numbers | -(.)]), $v`,
	`$v as $w | [$w | .. | numbers | abs, length], $w, ($w | (.. | numbers) |= abs)?, $w`,
	`(.. | numbers) |= abs, .`, `(.. | numbers) |= length, .`, `(.. | numbers) |= -(.), .`, `walk(if type == "number" then abs else . end), .`,
	`-4722366482869645213696 | ., abs`, `-4722366482869645213696 | ., length, .`, `-4722366482869645213696 | ., -(.), .`,
	`[-4722366482869645213696, 36893488147419103232] | ., map(abs), map(length), map(-(.)), sort, unique, min, max, add, .`,
	`{a: -4722366482869645213696} | ., (.a | abs), (.a |= abs), (.a | length), .`,
	`-4722366482869645213696 as $x | ($x | abs), $x, ($x | length), $x, -$x, $x, ($x + 1), $x, ($x * -1), $x`,
	`[limit(3; repeat(-4722366482869645213696 | abs, length))]`, `4722366482869645213696 | ., -(.), abs, length, .`,
	`[-4722366482869645213696] | (implode?), .`, `-4722366482869645213696 | tostring, tojson, ([.] | @csv), (. % 1000), (. / 2), floor, sqrt, .`,
	`[-4722366482869645213696, -4722366482869645213696] | unique, (.[0] == .[1]), (.[0] | abs), ., (map(length) | add), .`,
	`[., -36893488147419103232] | (.[1] | abs), ., (map(numbers | abs)), .`, `{n: -36893488147419103232, v: .} | (.n | length), .n, (.. | numbers | abs), .n`,
	`reduce (-36893488147419103232, 1, -2) as $i (0; . + ($i | abs)), (-36893488147419103232 | abs)`,
	`foreach (-36893488147419103232, -36893488147419103232) as $i (0; $i | abs; ., $i)`,
	`def f: -36893488147419103232; f, (f | abs), f, (f | length), f`,
}

// Steered are (program, input A, input B): the INPUT supplies regex text / flags / format strings, so that the
// run on B in between moves per-Code state (the regexp cache) before A is run again.
var Steered = [][3]string{
	{`test("b"; .)`, `"x"`, `"g"`}, {`test("b"; .)`, `"g"`, `"x"`}, {`try test("b"; .) catch "E"`, `"x"`, `"gi"`},
	{`"abc" as $s | . as $f | $s | [match("b"; $f)]`, `"x"`, `"g"`}, {`. as $f | "aBc" | test("b"; $f)`, `"q"`, `"i"`},
	{`. as $f | "aBc" | test("b"; $f)`, `"ig"`, `"gi"`}, {`. as $f | "aBc" | [test("b"; $f), test("b"; "i" + $f), test("b"; $f + "x")?]`, `"g"`, `""`},
	{`. as $re | "abc" | test($re; "g")`, `"("`, `"a"`}, {`. as $re | "abc" | test($re)`, `"a("`, `"a"`}, {`. as $re | "a.c" | [test($re), test($re; "x")?]`, `"."`, `"\."`},
	{`. as {re: $r, to: $t, flags: $f} | "aXbxc" | sub($r; $t; $f)`, `{"re":"x","to":"-","flags":"z"}`, `{"re":"x","to":"-","flags":"gi"}`},
	{`. as {re: $r, to: $t, flags: $f} | "aXbxc" | gsub($r; $t; $f)`, `{"re":"x","to":"-","flags":"i"}`, `{"re":"x","to":"-","flags":"xi"}`},
	{`[.[] as $f | try ("abc" | test("b"; $f)) catch "E"]`, `["x","g","x"]`, `["g","x"]`}, {`[.[] as $f | try ("abc" | test("b"; $f)) catch "E"]`, `["g","x","gx","xg"]`, `["x"]`},
	{`. as $p | "aXbxc" | [scan($p; "g")], [scan($p; "x")]?`, `"x"`, `"X"`}, {`. as $p | "a, b" | [splits($p)]`, `", *"`, `"("`}, {`. as $p | "a, b" | split($p; "x")`, `","`, `","`},
	{`. as $p | "xy" | capture($p)`, `"(?<a>x)"`, `"(?<a>"`}, {`. as $p | "abc" | ltrimstr($p), rtrimstr($p), startswith($p)?`, `"a"`, `1`},
	{`. as $f | [1, "a"] | format($f)`, `"csv"`, `"nope"`}, {`. as $f | [1, "a"] | format($f)`, `"nope"`, `"json"`}, {`. as $f | 1425599621 | strftime($f)`, `"%Y-%m-%dT%H:%M:%SZ"`, `"%A %q"`},
	{`. as $f | "2015-03-05T23:51:47Z" | strptime($f) | mktime`, `"%Y-%m-%dT%H:%M:%SZ"`, `"%Y"`}, {`. as $k | {a: 1, b: [2]} | has($k), getpath([$k])`, `"a"`, `0`},
	{`. as $f | ["aB", "ab"] | map(test("B"; $f))`, `"x"`, `null`}, {`. as $f | ["aB", "ab"] | map(test("B"; $f))`, `null`, `"x"`}, {`. as $f | "aB" | test("b"; $f), test("B"; $f)`, `"xi"`, `"i"`},
	{`ascii_downcase | test("A"; "i"), test("a"; "x")?`, `"A"`, `"b"`}, {`tojson | test("1"; "g"), test("1"; "n")?`, `[1]`, `[2]`},
}

// Probes are hand-written programs aimed at sharing hazards: capacity aliasing of constructed arrays,
// emitted values that later alternatives update, natives that sort/append/merge, deletion.
var Probes = []string{
	// emitted slices of constructed arrays followed by further appends
	`[.[]] | (.[:2], (. + [9]), .[:2])`,
	`[.[]] as $a | $a[:2], [$a[], 1], $a, ($a[:2] + ["x"]), $a`,
	`[range(5)] | .[:2] as $s | ($s + [9]), ., $s, [$s[], 7, 8], ., $s`,
	`[range(5)] | .[2:4] as $s | (.[3] = 9), ., $s`,
	`[range(5)] | (.[2:4] | .[0] = 7), .`,
	`[range(10)] | (.[:3], .[3:6]) as $s | [$s[], 0], $s`,
	`[range(4)] as $a | [$a[], 9][:2], $a, ([$a[], 8] | .[4] = 1), $a`,
	`[range(3)] | . as $a | (.[3] = 3), $a, (.[:2] | .[2] = "x"), $a`,
	`[range(3)] | . as $a | (.[:2] | (.[2] = "x", .[2] = "y")), $a`,
	`[range(3)] | .[:1] as $s | ($s | (.[1] = "p"), (.[1] = "q")), ., $s`,
	`[.[]|.] | (.[:1] |= . + ["n"]), .`,
	`[range(6)] | (.[1:3] |= [.[] , 9]), .`,
	`[range(6)] | (.[:2] = ["a","b","c"]), ., (.[4:] = []), .`,
	// [.[]] emitted then mutated by later alternatives
	`[.[]] | (., (.[0] = 9), ., (.[0] |= 8), ., del(.[0]), .)`,
	`[.[]] | (., (.[1:] = ["z"]), ., (.[length] = 1), .)`,
	`[.[] | [.]] | (., (.[0][0] = 9), ., (.[0] += [1]), .)`,
	`[.[] | (1,2)]`, `[.[] | [., .]]`, `[limit(3; .[])]`, `[first(.[])]`, `[.[]?] | [.[]?]`,
	`def f: [.[]?]; f, f, (f | .[0] = 1), f`,
	`(1,2) as $i | [.[]?, $i]`,
	`[.[]?] as $a | [.[]?] as $b | ($a | .[0] = "a"), $b, $a`,
	// sort-family on a bound value
	`. as $x | ($x|sort), $x`,
	`. as $x | ($x | sort_by(.a)), $x, ($x|group_by(.a)), $x, ($x|unique_by(.a)), $x`,
	`. as $x | ($x | min_by(.a)), ($x|max_by(.a)), $x`,
	`. as $x | ($x | sort | .[0] = "first"), $x, ($x|reverse|.[0] = "r"), $x`,
	`sort, ., (sort|reverse), ., unique, .`,
	`group_by(.a) | ., (.[0] += [1]), ., map(add), .`,
	`group_by(.a)[0] as $g | ($g + [0]), $g, ([$g[], 1]), $g`,
	`[.[] | arrays] | sort, ., (sort_by(length) | .[0] += ["x"]), .`,
	`to_entries | sort_by(.value|tostring), .`,
	// add on arrays/objects sharing operands
	`[., .] | add`, `. as $x | [$x, $x, $x] | add, $x`, `[.[0], .[0]] | add, .`,
	`[.[] | arrays] | add as $s | ($s + [4]), $s, [$s[], 5], $s, ($s | .[length] = 6), $s`,
	`[.[] | arrays] | (add | .[0] = "w"), ., add`,
	`[.[] | objects] | add as $o | ($o | .zz = 1), $o, ($o + {yy: 2}), $o`,
	`[.[] | objects] | (add | .a = "changed"), ., add`,
	`add(.[] | arrays), .`, `add(.[]? | objects), .`,
	`. as $x | [[], $x] | add | (.[0] = "m"), $x`,
	`. as $x | ([] + $x | .[0] = "m"), $x, ($x + [] | .[1] = "n"), $x`,
	`. as $x | ({} + $x | .a = "m"), $x, ($x + {} | .b = "n"), $x, (null + $x), ($x + null)`,
	`. as $x | ($x * {a: {zz: 1}}), $x, ({a: $x} * {a: {a: 1}}), $x`,
	`. as $x | ($x - [1]), $x`,
	`reduce .[]? as $e ([]; . + [$e]) | ., (.[0] = 1), .`,
	`foreach .[]? as $e ([]; . + [$e]; .)`,
	`foreach .[]? as $e ([]; [.[], $e]; ., .[:1])`,
	`foreach range(5) as $i ([]; . + [$i]; .[1:])`,
	`foreach range(5) as $i ([]; .[$i] = $i; .)`,
	`foreach range(4) as $i ({}; .["k\($i)"] = $i; .)`,
	`foreach range(4) as $i ({a:[]}; .a += [$i]; ., .a)`,
	`foreach (1,2,3) as $x (.; .[0]? |= $x; .)`,
	`limit(3; foreach range(9) as $i ([]; [.[], $i]; .))`,
	`label $out | foreach .[]? as $item ([]; . + [$item]; if length > 1 then ., break $out else . end)`,
	`[foreach range(5) as $i ([]; [.[], $i]; .)] | ., .[2], (.[2] | .[0] = "x"), .`,
	// flatten / transpose / entries / paths
	`flatten, ., flatten(1), ., (flatten | .[0] = 1), .`,
	`. as $x | ($x | flatten(0) | .[0] = "f"), $x`,
	`[.[] | arrays] | transpose, ., (transpose | .[0][0] = "t"), .`,
	`to_entries, ., (to_entries | .[0].value = 1), ., with_entries(.), .`,
	`to_entries | (map(.value) | .[0] = "e"), .`,
	`to_entries | from_entries`, `with_entries(.value |= [.])`, `[paths], [paths(scalars)], .`,
	`[tostream] | ., fromstream(.[])`, `fromstream(tostream), .`,
	`[..], ., [.. | scalars]`, `getpath(["a","b"]) as $y | $y, (.a.b = 5), $y, .`,
	`keys, ., (keys | .[0] = 1), [.[]?]`, `[splits("a")]?, .`,
	// updates and deletions next to untouched siblings
	`(.a, .b) = (1, 2)`, `.a = (.b, .c)`, `.[]? += (1, 2)`, `limit(2; .a = (1, 2, 3))`,
	`.. |= .`, `walk(.)`, `map_values(.)`, `map_values(empty)`, `.[]? |= empty`,
	`(.a.q, .b.c[0]) |= 5, .`, `.b.c += [2], .`, `.b.d.e |= . + 1, .`,
	`del(.a.q), .`, `del(.zzz), .`, `del(.b.c[0]), .`, `del(.[0]), .`, `del(.[0, 2]), .`, `del(.[1:]), .`,
	`del(.[]?), .`, `del(..), .`, `del(.a, .b), .`, `delpaths([["a"], ["b", "c"]]), .`, `delpaths([]), .`,
	`del(.. | select(. == null)), .`, `del(.[]? | select(type == "array")), .`, `to_entries | del(.[0]), .`,
	`delpaths([paths]), .`, `delpaths([paths(scalars)]), .`, `[paths] as $p | delpaths($p[:2]), .`,
	`. as $x | del(.a) | ., $x`, `. as $x | (.b.c |= empty), $x`, `. as $x | [$x, $x] | del(.[0].a), $x`,
	`{a: ., b: .} | del(.a[0]?), .`, `{a: ., b: .} | (.a[0]? |= 9), .`, `[., .] | (.[0] |= (.[0]? = "u")), .`,
	`. as $x | {a: $x} | (.a.a = 1), $x`, `. as $x | [$x] | (.[0][0]? = 1), $x`,
	`setpath(["a"]; .), .`, `setpath([0]; .), .`, `pick(.a), .`, `pick(.[0]), .`,
	`to_entries | map(select(.key != "a")) | from_entries, .`,
	`reduce range(5) as $i (.; .[0]? += $i)`, `reduce .[]? as [$k, $v] ({}; .[$k|tostring] = $v)`,
	`first(.[]? | select(type == "array")) |= . + [1]`, `first(.[]?) = 1, .`, `last(.[]?) |= [.], .`,
	`[.[]? | tojson] | map(fromjson)`, `tojson | fromjson`, `try error catch ., .`, `try error({a: .}) catch (.a |= .), .`,
	`. as [$h, $t] | $h, $t, .`, `. as {a: $x, b: [$y]} | $x, $y`, `.[]? as [$a] ?// $a | [$a]`,
	`[.[]? | .. ] | unique`, `[.[]?|type] | group_by(.) | map(length)`, `[.[]? | strings | test("a"; "i")]`,
	`[.[]? | strings | [match("(a)(x)?"; "g")] ]`, `[.[]? | strings | sub("a"; "b"), gsub("(?<x>[ab])"; "\(.x)\(.x)")]`,
	`[.[]? | strings | capture("(?<first>.)(?<rest>.*)")]`, `[.[]? | strings | [scan(".")] ]`, `[.[]? | strings | ascii_downcase, explode, @base64, @json]`,
	`{a: 1, b: [1, {c: 2}], c: {d: [3]}} | ., del(.a), (.b[1].c = 9), (.c.d += [4]), .`,
	`{a: {q: 1}, b: {c: [1], d: {e: 2}}} | del(.a.q)`,
	`[[1, 2], [3, 4]] | ., (.[0] += [9]), add, (add | .[0] = 0), .`,
	`[{a: [3, 1, 2]}] | .[0].a |= sort, .`, `{a: [1, 2, 3]} | .a[1:] = ["x"], .`,
	`[1, [2, [3]]] | flatten, getpath([1, 1]), (getpath([1, 1]) |= . + [4]), .`,
	`{} | .a.b.c = 1, .a += {d: 2}, .["x"] = [], .`, `[] | .[2] = 1, .[0] = 0, .`,
	`{"a":1,"b":2,"c":3,"d":4,"e":5,"f":6,"g":7,"h":8,"i":9,"j":10} | keys, to_entries[0], tojson, tostring, @text, @json, ([.[]] | add), (. * {k: 1}), (. + {a: 0}), with_entries(.value += 1), [paths], map_values(. + 1), del(.a), tostream`,
	`{"a":1,"b":2,"c":3,"d":4,"e":5,"f":6,"g":7,"h":8,"i":9,"j":10} | error`, `{"j":1,"i":2,"h":3,"g":4,"f":5,"e":6,"d":7,"c":8,"b":9,"a":10} | .[] as $x | $x`,
	`[{"j":1,"i":2,"h":3,"g":4,"f":5,"e":6,"d":7,"c":8,"b":9,"a":10}, {"a":10,"b":9,"c":8,"d":7,"e":6,"f":5,"g":4,"h":3,"i":2,"j":0}] | sort, min, max, (.[0] == .[1]), (.[0] < .[1]), unique, group_by(.), (.[0] | contains(.)), (.[0] | inside(.)), ([.[] | to_entries] | add | length)`,
	`builtins | length`, `[builtins | sort == (builtins | sort)]`, `[limit(3; repeat(.))] | length`,
	`@csv "\([1, "a"])", @sh "\("x y")", @html "\("<&>")", @uri "\("a b")", @base32 "\("x")", @base32d "\("PA======")"`,
	`0 | todate, ("2015-03-05T23:51:47Z" | fromdate), (1425599507 | gmtime | mktime)`,
	`[combinations]?`, `[.[]? | arrays] | [combinations]`, `[range(3)] | combinations(2)`,
	`until(length > 3; . + [1])?`, `[while(length < 3; . + [0])]?`, `[recurse(if length < 3 then . + [0] else empty end)]?`,
	`getpath(["a", "b", "c"]), paths(type == "number"), ([paths] | length), any, all, ([.[]?] | length)`,
	`indices(1), index("a")?, (tostring | ascii_downcase), (tojson | length), ltrimstr("a"), ([.[]?] | join(",")?)`,
	`INDEX(.[]?; type), [JOIN({}; .[]?; tostring)]?, IN(.[]?), [.[]? | IN(1, 2)]`,
	`splits("x")?, implode?, (try tonumber catch "nan"), ([.[]? | numbers] | add / (length + 1)), (.. | numbers | floor | sqrt)`,
	`walk(if type == "object" then del(.a) else . end), .`, `walk(if type == "array" then sort else . end), .`,
	`[.[]? | objects | to_entries[]] | group_by(.key) | map({key: .[0].key, value: map(.value)}) | from_entries`,
	`. as $d | reduce paths as $p (null; setpath($p; $d | getpath($p))), $d`,
	`tostream | select(length == 2) | .[0] |= map(tostring) | .[1] as $v | .[0] | join(".")`,
	`env | type`, `$ENV | type`,
	`.[]? | if (numbers | . % 2 == 0) then error else . end`, `.[]? | try error catch error`, `(1, error, 2)`, `(1, error("x"), 2, error("y"), 3)`, `.[]? | error`,
	`.[]? | (., error, .)`, `(error("x"), 1)`, `1, error({a: [1]}), 2`, `path(.[]? | error)`, `.[]? as $x | ($x | error), $x`, `foreach (1, error("e"), 2) as $x (0; . + 1), "after"`,
	`reduce (.[]? | if . == 2 then error else . end) as $x (0; . + 1), "after"`, `.[]? | (label $f | (error, break $f)), .`, `(.[]? | tonumber?), (.[]? | tonumber)`,
	`try (1, error("x"), 2) catch ., (3, error("y"), 4)`, `def f: ., (if . < 3 then . + 1 | f else error("deep") end); 0 | f, f`, `.[]? | getpath(["a", "b"])?, getpath(["a", 0]), error(null), 1`,
	`[.[]? | error]?, (.[]? |= error)?, (.[]? |= (., error)), (.[]? | [., error]?), .`,
	`$v, ($v | .[0]? = "V"), $v, ([$v, .] | add?), $v, ($v | sort?), $v, del($v | .a?), (. + $v)?, $v`,
	`($v | del(.[0]?, .a?)), $v, ($v | to_entries?), ($v | .. |= .), $v, [$v | .[]?] , ($v | [.[]?] | .[:1] + ["c"]), $v`,
}

// RefModify is `|=` written as its defining reduction in jq (first output of f, or delete the path when f is
// empty; paths taken from the original value, deletions applied at the end) WITHOUT using `|=` itself.
const RefModify = `def rm(ps; f): reduce path(ps) as $p ({v: ., d: []}; . as $s | [$s.v | getpath($p) | first(f)] as $r | ` +
	`if ($r | length) > 0 then {v: ($s.v | setpath($p; $r[0])), d: $s.d} else {v: $s.v, d: ($s.d + [$p])} end) ` +
	`| .v as $v | .d as $d | $v | delpaths($d); `

// NestedDeletes are (program, reference): a deleting update INSIDE the body of another deleting update (depth 2
// and 3), deleting updates repeated by reduce/foreach, map_values / del / delpaths / walk forms.  Every
// activation of `|=` keeps its own list of paths to delete; if activations shared storage (a code constant with
// spare capacity appended to in place) the inner one would clobber the outer one's list.
var NestedDeletes = [][2]string{
	{`.[] |= ((.[] |= select(. < 3)) | select(length > 0))`, `rm(.[]; rm(.[]; select(. < 3)) | select(length > 0))`},
	{`.[] |= ((.[]? |= select(. < 3)) | select(length > 0))`, `rm(.[]; rm(.[]?; select(. < 3)) | select(length > 0))`},
	{`map_values(map_values(select(. < 3)) | select(length > 0))`, `rm(.[]; rm(.[]; select(. < 3)) | select(length > 0))`},
	{`map_values(map_values(empty))`, `rm(.[]; rm(.[]; empty))`},
	{`map_values(map_values(empty) | select(length > 0))`, `rm(.[]; rm(.[]; empty) | select(length > 0))`},
	{`.[] |= (del(.[]? | select(. >= 3)) | select(length > 0))`, `rm(.[]; rm(.[]?; select(. < 3)) | select(length > 0))`},
	{`.[] |= (delpaths([paths(numbers | . >= 3)]) | select(length > 0))`, `rm(.[]; delpaths([paths(numbers | . >= 3)]) | select(length > 0))`},
	{`.[] |= ((.[] |= ((.[]? |= select(. < 3)) | select(length > 0))) | select(length > 0))`,
		`rm(.[]; rm(.[]; rm(.[]?; select(. < 3)) | select(length > 0)) | select(length > 0))`},
	{`.[] |= ((.[] |= select(. < 3)) | (.[] |= select(. > 0)) | select(length > 0))`,
		`rm(.[]; rm(.[]; select(. < 3)) | rm(.[]; select(. > 0)) | select(length > 0))`},
	{`(.[] | select(length > 1)) |= ((.[] |= select(. != 7)) | select(length > 1))`,
		`rm(.[] | select(length > 1); rm(.[]; select(. != 7)) | select(length > 1))`},
	{`reduce range(3) as $i (.; .[] |= ((.[] |= select(. != $i)) | select(length > 0)))`,
		`reduce range(3) as $i (.; rm(.[]; rm(.[]; select(. != $i)) | select(length > 0)))`},
	{`[foreach range(4) as $i (.; map_values(map_values(select(. != $i + 4)) | select(length > 0)); .)]`,
		`[foreach range(4) as $i (.; rm(.[]; rm(.[]; select(. != $i + 4)) | select(length > 0)); .)]`},
	{`walk(if type == "number" and . >= 3 then empty else . end)`, `def w: if type == "object" then rm(.[]; w) elif type == "array" then map(w) else . end | if type == "number" and . >= 3 then empty else . end; w`},
	{`walk(if type == "object" then map_values(select(. != 5)) | select(length > 0) else . end)`,
		`def w: if type == "object" then rm(.[]; w) elif type == "array" then map(w) else . end | if type == "object" then rm(.[]; select(. != 5)) | select(length > 0) else . end; w`},
	{`.[] |= ((.[] |= select(. < 3)) | select(length > 0)), (.[] |= ((.[] |= select(. < 3)) | select(length > 0)))`,
		`rm(.[]; rm(.[]; select(. < 3)) | select(length > 0)), rm(.[]; rm(.[]; select(. < 3)) | select(length > 0))`},
}

// NestedInputs: 1..10 and more than 8 deleted paths at the outer / inner / third level, arrays and objects.
var NestedInputs = []string{
	`[[5],[1,7,2]]`,
	`[[5],[1,7,2],[9,8],[0,1,2],[3,4,5,6],[7]]`,
	`[[5],[6],[7],[8],[9],[3],[4],[5],[6],[7],[8],[1,9]]`,
	`[[1,5,6,7,8,9,3,4,5,6,7,2],[5],[0,9]]`,
	`[[[5],[1,7,2]],[[9]],[[0,5],[6],[2,8,1]]]`,
	`[[[5],[6],[7],[8],[9],[3],[4],[5],[6],[1]],[[9,8,7,6,5,4,3,3,3,2]],[[4]]]`,
	`{"a":{"x":5},"b":{"x":1,"y":7,"z":2},"c":{"p":9,"q":8},"d":{"k":0}}`,
	`{"a":{"x":{"u":5}},"b":{"x":{"u":1,"v":7},"y":{"u":9}},"c":{"p":{"u":2,"v":1,"w":5}}}`,
	`[{"a":5,"b":1},[1,7,2],{"c":9},[5,5]]`,
}

// ErrTextCanon: .c is recorded for deletion, .a becomes 1, getpath(["a","b"]) then fails on the accumulator
// {"a":1,"c":0}; advancing the iterator after that error applies the deletion in place and the message now
// previews {"a":1}.
var ErrTextCanon = [2]string{`(.c, .a, .a.b) |= (if type == "number" then empty else 1 end)`, `{"a":{"b":0},"c":0}`}

var genPaths = []string{
	`.a`, `.b`, `.c`, `.[0]`, `.[1]`, `.[-1]`, `.[]`, `.[]?`, `.[1:]`, `.[:2]`, `.[1:3]`, `.a.b`, `.a[0]`, `.b.c`, `.b.c[0]`, `.c[0].b`,
	`..`, `.a?`, `(.a, .b)`, `(.[0], .[1])`, `.a[]?`, `.[0][]?`, `getpath(["a", "b"])`, `first(.[]?)`, `.[]?.a?`, `.k7.x`, `.k8[0]`, `.k4[0].a`,
	`.[2].a`, `.[2].b.c`, `.[3][1]`, `(.. | select(type == "array"))`, `(.[]? | select(type == "object"))`, `.["a"]`, `.[0:1][0]`,
}
var genLeaves = []string{
	`.`, `1`, `"s"`, `null`, `[]`, `{}`, `[1, 2]`, `{a: 1}`, `[.]`, `{a: .}`, `[1, [2]]`, `{a: {b: [1]}}`, `$x`, `$v`, `[.[]?]`, `{a: [1, {b: 2}], c: {d: 3}}`,
	`[[1], [2, 3]]`, `keys?`, `length`, `type`, `true`, `empty`, `-4722366482869645213696`, `[-36893488147419103232, 3]`, `{n: -4722366482869645213696}`,
}
var genUnary = []string{
	`add?`, `sort?`, `sort_by(.a?)?`, `group_by(.a?)?`, `unique?`, `unique_by(.a?)?`, `reverse?`, `flatten?`, `flatten(1)?`, `to_entries?`, `from_entries?`,
	`keys?`, `[.[]?]`, `map(.)?`, `map_values(.)?`, `[paths]`, `transpose?`, `tojson`, `(tojson | fromjson)`, `[..]`, `min_by(.a?)?`, `max_by(.a?)?`,
	`with_entries(.)?`, `[tostream]`, `first(.[]?)`, `[limit(2; .[]?)]`, `.[:1]?`, `.[1:]?`, `[.[]? | arrays | .[:1]]`, `(.[]? |= .)`, `walk(.)`, `del(.[0]?)`,
	`del(.a?)`, `delpaths([[0]])?`, `delpaths([["a"]])?`, `(.[0]? |= .)`, `(.a? |= .)`, `[.[]? | objects] `, `[.[]? | arrays]`, `tostring`, `length?`, `not`,
	`abs?`, `(-(.))?`, `[.. | numbers | abs]`, `[.. | numbers | length, -(.)]`, `(map(abs))?`, `floor?`, `tostring`, `min?`, `max?`, `((.. | numbers) |= abs)`,
	`[splits("a")?]`, `[match("a"; "g")?]`, `ascii_downcase?`, `explode?`, `[.[]? | strings | test("b")]`, `combinations?`, `[recurse(.[]?; type != "number")]`,
}
var genBin = []string{`+`, `*`, `-`, `//`, `,`, `|`, `==`, `<`, `and`}

// GenProgram builds a random program from the update-/delete-/add-/sort-/slice-heavy grammar.
func GenProgram(r *Rng, depth int) string {
	pick := func(xs []string) string { return xs[r.Intn(len(xs))] }
	if depth <= 0 {
		if r.Chance(1, 3) {
			return pick(genPaths)
		}
		return pick(genLeaves)
	}
	sub := func() string { return GenProgram(r, depth-1) }
	switch r.Intn(21) {
	case 0, 1:
		return fmt.Sprintf("(%s %s %s)", pick(genPaths), pick([]string{"|=", "=", "+=", "|=", "//=", "*="}), sub())
	case 2:
		return fmt.Sprintf("del(%s)", pick(genPaths))
	case 3:
		return fmt.Sprintf("(%s | %s)", sub(), pick(genUnary))
	case 4:
		return fmt.Sprintf("(%s | %s | %s)", sub(), pick(genUnary), pick(genUnary))
	case 5:
		return fmt.Sprintf("(%s %s %s)?", sub(), pick(genBin), sub())
	case 6:
		return fmt.Sprintf("[%s]", sub())
	case 7:
		return fmt.Sprintf("{a: %s, b: %s}", sub(), sub())
	case 8:
		return fmt.Sprintf("(. as $x | %s)", sub())
	case 9:
		return fmt.Sprintf("(%s as $x | %s, $x)", sub(), sub())
	case 10:
		return fmt.Sprintf("(%s, ., %s)", sub(), sub())
	case 11:
		return fmt.Sprintf("reduce (%s) as $x (%s; (. + [$x])? // .)", sub(), pick([]string{"[]", ".", "null", "{}"}))
	case 12:
		return fmt.Sprintf("foreach (%s) as $x (%s; (%s)? // .; ., $x)", sub(), pick([]string{"[]", ".", "{}"}), pick([]string{". + [$x]", "[.[]?, $x]", ".[0] = $x", ".a += [$x]", ". + {b: $x}", ".[length] = $x"}))
	case 13:
		return fmt.Sprintf("first(%s)", sub())
	case 14:
		return fmt.Sprintf("limit(2; %s)", sub())
	case 15:
		return fmt.Sprintf("(try (%s) catch .)", sub())
	case 16:
		return fmt.Sprintf("(if %s then %s else %s end)", sub(), sub(), sub())
	case 17:
		return fmt.Sprintf("(%s | %s %s %s)", sub(), pick(genPaths), pick([]string{"|=", "=", "+="}), sub())
	case 19:
		return fmt.Sprintf("(%s |= ((%s |= %s)? | %s))", pick([]string{".[]?", ".a?", "(.[]? | arrays)", ".b?"}), pick([]string{".[]?", ".[0]?", ".c?"}),
			pick([]string{"empty", "select(. != 1)", "(numbers | select(. < 3))", sub()}), pick([]string{"select(length > 0)", ".", "empty", "select(. != [])"}))
	case 18:
		return fmt.Sprintf("(%s | .[%s:%s]?)", sub(), pick([]string{"", "0", "1", "-1"}), pick([]string{"", "1", "2", "-1"}))
	default:
		return fmt.Sprintf("(%s | %s)", pick(genPaths), pick(genUnary))
	}
}

// GenJobs: the probes on every input, then n random programs.
func GenJobs(r *Rng, n int, probeInputs int) []Job {
	var js []Job
	vars := []string{`[3,1,2]`, `{"a":[1,{"b":2}],"c":{"d":[3]}}`, `[[2,1],[0],{"a":1}]`}
	for pi, p := range Probes {
		for k := 0; k < probeInputs; k++ {
			in := Inputs[(pi+k*4)%len(Inputs)]
			js = append(js, Job{Program: withX(p), Input: in, Origin: "probe", Vars: []string{vars[(pi+k)%len(vars)]}})
		}
	}
	for pi, p := range NumberProbes {
		for k := 0; k < 3; k++ {
			js = append(js, Job{Program: withX(p), Input: Inputs[len(Inputs)-3+k], Origin: "probe", Vars: []string{BigVars[(pi+k)%len(BigVars)]}})
		}
	}
	for _, nd := range NestedDeletes {
		for _, in := range NestedInputs {
			js = append(js, Job{Program: nd[0], Ref: RefModify + nd[1], Input: in, Origin: "probe", Vars: []string{vars[0]}})
		}
	}
	for _, st := range Steered {
		js = append(js, Job{Program: st[0], Input: st[1], Other: st[2], Origin: "probe", Vars: []string{vars[0]}})
	}
	// canonical case of the known family "error text of getpath/setpath/delpaths drifts" (docs/C05.md, F2)
	js = append(js, Job{Program: ErrTextCanon[0], Input: ErrTextCanon[1], Origin: "probe", Vars: []string{vars[0]}})
	for i := 0; i < n; i++ {
		p := GenProgram(r, 1+r.Intn(3))
		js = append(js, Job{Program: withX(p), Input: Inputs[r.Intn(len(Inputs))], Origin: "gen", Vars: []string{vars[r.Intn(len(vars))]}})
	}
	return js
}

// withX makes $x defined at top level for generated fragments that mention it.
func withX(p string) string {
	if strings.Contains(p, "$x") {
		return ". as $x | " + p
	}
	return p
}
