// C06 observer: one compiled *Code (and one parsed *Query) run from G goroutines x R repetitions, on
// distinct inputs and on ONE shared read-only input, while a reader goroutine keeps deep-reading the
// shared input, the variable value and the constants embedded in the code.  The binary is built with
// -race by checks/c06.py: the race detector acts as a write detector for shared memory.  Race reports
// and Go runtime fatal errors go to stderr between '##BEGIN <k>' markers; results go to stdout.
package main

import (
	"context"
	"fmt"
	"os"
	"strconv"
	"strings"
	"sync"
	"sync/atomic"
	"time"

	"github.com/itchyny/gojq"

	"verifharness/c56"
	. "verifharness/hlib"
)

func main() {
	Register("race", runRace)
	Main()
}

func say(format string, a ...any) { os.Stdout.WriteString(fmt.Sprintf(format, a...) + "\n") }

const maxOut = 60

// outputs consumes an iterator to exhaustion INCLUDING after errors (a gojq iterator may be advanced after an
// error: `.[] | error` on [0,1] yields two errors); bounded by maxOut outputs and maxErr errors.
func outputs(it gojq.Iter) (snaps []string, timedOut bool) {
	nerr := 0
	for {
		v, ok := it.Next()
		if !ok {
			return snaps, false
		}
		if err, isErr := v.(error); isErr && (err == context.DeadlineExceeded || err == context.Canceled) {
			return snaps, true
		}
		snaps = append(snaps, c56.Snap(v))
		if _, isErr := v.(error); isErr {
			nerr++
			if nerr >= maxErr {
				return snaps, false
			}
		}
		if len(snaps) >= maxOut {
			return snaps, false
		}
	}
}

const maxErr = 12

// errorPrograms emit several errors interleaved with values; they are consumed past the errors
var errorPrograms = []string{
	`.[]? | if (numbers | . % 2 == 0) then error else . end`, `.[]? | try error catch error`, `(1, error, 2)`, `(1, error("x"), 2, error("y"), 3)`,
	`.[]? | error`, `.[]? | (., error, .)`, `[.[]? | try error catch .], (.[]? | error)`, `(error("x"), 1)`, `1, error({a: [1]}), 2`,
	`.[]? | path(.a[0].b?), path(.. | error)?, (.a.b.c?), error`, `path(.[]? | error)`, `.[]? as $x | ($x | error), $x`,
	`reduce (.[]? | if . == 2 then error else . end) as $x (0; . + 1), "after"`, `foreach (1, error("e"), 2) as $x (0; . + 1), "after"`,
	`[limit(3; .[]? | error)], (.[]? | tostring | error)`, `.[]? | (label $f | (error, break $f)), .`, `first(.[]? | error), 1`, `(.[]? | tonumber?), (.[]? | tonumber)`,
	`.[]? | (1 / (numbers | . - 1))?, (1 / .)?, error`, `(.a, .b, .c)? , (.[]? | .a), (.[]? | implode)`, `try (1, error("x"), 2) catch ., (3, error("y"), 4)`,
	`.[]? | if type == "array" then .[] | error else error(type) end`, `def f: ., (if . < 3 then . + 1 | f else error("deep") end); 0 | f, f`,
	`(.[]? | ltrimstr(1) | error)?, (.[]? | test("("))`, `.[]? | getpath(["a", "b"])?, getpath(["a", 0]), error(null), 1`,
}
var regexPrograms = []string{
	`[.[]? | strings | test("a"), test("A"; "i"), test("b|c"), test("^x"; "g")]`,
	`[.[]? | strings | [match("(a)(x)?"; "g")], [match("[abc]+")], [match(""; "g")] | length]`,
	`[.[]? | strings | sub("a"; "b"), gsub("(?<x>[ab])"; "\(.x)\(.x)"), gsub("\\s"; "_"), sub("(?<l>.)$"; "<\(.l)>")]`,
	`[.[]? | strings | capture("(?<first>.)(?<rest>.*)"), [scan(".")], [scan("[a-c]"; "i")], [splits("a|b")]]`,
	`[.[]? | strings | split("a"; null), split(", *"; "g"), ascii_downcase, (test("F"; "ig"))]`,
	`[range(20) | tostring | test("1"), sub("(?<d>\\d)"; "<\(.d)>"), [match("\\d"; "g").offset]]`,
	`[("a1b2", "xyz") | gsub("[0-9]"; "#"), gsub("(?<c>[a-z])"; .c + .c; "g"), test("[[:alpha:]]+")]`,
	`["foo bar", "baz"] | map(splits(" +") ), map(test("^ba")), map(capture("(?<a>o+)")?)`,
	`[.[]? | strings | test("("; "x")?, test("a"; "q")?, (try test("(") catch "bad")]`,
}

var literalPrograms = []string{
	`{a: {q: 1}, b: {c: [1], d: {e: 2}}} | del(.a.q)`,
	`{a: {q: 1}, b: {c: [1], d: {e: 2}}} | ., (.b.c += [2]), (.b.d.e |= 3), (.a = .b), to_entries, keys, [paths], tojson`,
	`[[1, 2], [3, [4, {a: 5}]]] | ., flatten, add, (.[0] += [9]), (.[1][1][1].a |= 6), transpose?, sort, reverse, [..]`,
	`[{a: 2, b: [1]}, {a: 1, b: [2]}] | sort_by(.a), group_by(.a), unique_by(.b), min_by(.a), (map(.b) | add), (.[0].b[0] = 9), del(.[0].b), .`,
	`{a: [1, 2, {b: null}], c: "x"} | walk(.), (.. |= .), map_values(.), with_entries(.), tostream, (to_entries | from_entries), delpaths([["a", 0]]), del(.a[2].b), .`,
	`[1, [2, 3], {a: [4]}] as $lit | $lit, ($lit | .[1] += [0]), ($lit | del(.[2].a)), ([$lit, $lit] | add), $lit`,
	`{"k": [{"x": 1}, {"x": 2}]} | .k[] |= (.y = .x), .k |= map(del(.x)), (.k | first), .`,
	`[[], {}, [[]], {a: {}}] | ., del(.[0]), del(.[3].a), (.[1].z = 1), (.[2][0] += [1]), add?, .`,
	`{a: {q: 1}, b: {c: [1], d: {e: 2}}} | .a.q |= empty`,
	`[{a: 1}, {b: 2}] | map_values(empty), (.[] |= empty), del(.[0]), del(.[].a), .`,
	`{a: [1, 2, 3]} | del(.a[0, 1]), del(.zzz), delpaths([["a", 5]]), (.a |= map(select(. > 1))), .`,
}

type result struct {
	status string // ok | diff | timeout | skip
	detail string
}

// runJob runs one program in one mode from g goroutines x r repetitions.
func runJob(j c56.Job, mode string, g, r int) result {
	dec := func(text string) any {
		v, err := c56.Decode(text)
		if err != nil {
			return nil
		}
		return v
	}
	varText := "null"
	if len(j.Vars) > 0 {
		varText = j.Vars[0]
	}
	// two independent compilations: [run] is shared by the goroutines, [alone] gives the sequential baseline.
	// The goroutines therefore meet a COLD Code (lazily filled per-Code state such as the regexp cache is
	// first touched concurrently); for the literal/regex/canonical programs the concurrent phase even runs
	// before the baseline, so that package-level lazily initialised state is first touched concurrently too.
	var run, alone func(in any, vars []any, ctx context.Context) gojq.Iter
	var consts []any
	if mode == "query" {
		if strings.Contains(j.Program, "$v") {
			return result{"skip", "parse"}
		}
		q, err := gojq.Parse(j.Program)
		q2, err2 := gojq.Parse(j.Program)
		if err != nil || err2 != nil {
			return result{"skip", "parse"}
		}
		run = func(in any, vars []any, ctx context.Context) gojq.Iter { return q.RunWithContext(ctx, in) }
		alone = func(in any, vars []any, ctx context.Context) gojq.Iter { return q2.RunWithContext(ctx, in) }
	} else {
		cc, err := c56.Compile(j.Program, []string{"$v"})
		cc2, err2 := c56.Compile(j.Program, []string{"$v"})
		if err != nil || err2 != nil {
			return result{"skip", "compile"}
		}
		consts = gojq.VerifCodeConstants(cc.Code)
		run = func(in any, vars []any, ctx context.Context) gojq.Iter { return cc.Code.RunWithContext(ctx, in, vars...) }
		alone = func(in any, vars []any, ctx context.Context) gojq.Iter { return cc2.Code.RunWithContext(ctx, in, vars...) }
	}
	cold := j.Origin == "canon" || j.Origin == "literal" || j.Origin == "regex"
	var base []string
	baseline := func() (skip bool) {
		limit := 400 * time.Millisecond
		if cold {
			limit = 20 * time.Second // never judge against a truncated baseline on a loaded machine
		}
		ctx0, cancel0 := context.WithTimeout(context.Background(), limit)
		defer cancel0()
		t0 := time.Now()
		b, to := outputs(alone(dec(j.Input), []any{dec(varText)}, ctx0))
		base = b
		return to || (!cold && time.Since(t0) > 60*time.Millisecond)
	}
	if !cold {
		if baseline() {
			return result{"skip", "slow"}
		}
	}
	shared := c56.Alias(dec(j.Input), 1)
	sharedVar := c56.Alias(dec(varText), 1)
	var stop atomic.Bool
	var rd sync.WaitGroup
	rd.Add(1)
	go func() { // reader: any write by a run into shared memory races with these reads
		defer rd.Done()
		for !stop.Load() {
			n := 0
			for _, x := range shared.Roots {
				n += c56.DeepRead(x, 64)
			}
			for _, x := range sharedVar.Roots {
				n += c56.DeepRead(x, 64)
			}
			for _, x := range consts {
				n += c56.DeepRead(x, 64)
			}
			if n < 0 {
				return
			}
			time.Sleep(20 * time.Microsecond)
		}
	}()
	var mu sync.Mutex
	var firstDiff string
	type obs struct {
		w, k int
		got  []string
	}
	var all []obs
	var wg sync.WaitGroup
	// cancellation is only a brake for slow programs on a loaded machine; "deadlock" is judged by PROGRESS:
	// no run of any goroutine completing for 30 s
	ctx, cancel := context.WithCancel(context.Background())
	defer cancel()
	var progress atomic.Int64
	start := make(chan struct{})
	for w := 0; w < g; w++ {
		wg.Add(1)
		go func(w int) {
			defer wg.Done()
			<-start
			for k := 0; k < r; k++ {
				var in any
				vars := []any{sharedVar.Value}
				if mode == "distinct" {
					in = dec(j.Input)
				} else {
					in = shared.Value
				}
				got, to := outputs(run(in, vars, ctx))
				if to {
					return
				}
				progress.Add(1)
				mu.Lock()
				if len(all) < 4096 {
					all = append(all, obs{w, k, got})
				}
				mu.Unlock()
			}
		}(w)
	}
	close(start)
	done := make(chan struct{})
	go func() { wg.Wait(); close(done) }()
	res := result{"ok", ""}
	t0w, last, lastAt := time.Now(), int64(-1), time.Now()
wait:
	for {
		select {
		case <-done:
			break wait
		case <-time.After(500 * time.Millisecond):
		}
		if p := progress.Load(); p != last {
			last, lastAt = p, time.Now()
		}
		if time.Since(lastAt) > 30*time.Second {
			res = result{"timeout", "no run completed for 30 s (deadlock or livelock)"}
			break wait
		}
		if time.Since(t0w) > 90*time.Second { // progressing but slow (loaded machine): give up without a verdict
			cancel()
			select {
			case <-done:
			case <-time.After(30 * time.Second):
				res = result{"timeout", "workers did not stop within 30 s after cancellation"}
			}
			if res.status == "ok" {
				res = result{"skip", "slow"}
			}
			break wait
		}
	}
	stop.Store(true)
	rd.Wait()
	if cold {
		if baseline() && res.status == "ok" {
			return result{"skip", "slow-baseline"}
		}
	}
	for _, o := range all {
		if i := c56.FirstDiff(base, o.got); i >= 0 {
			x, y := "<end>", "<end>"
			if i < len(base) {
				x = base[i]
			}
			if i < len(o.got) {
				y = o.got[i]
			}
			firstDiff = fmt.Sprintf("goroutine %d repetition %d output #%d: alone %s, concurrently %s", o.w, o.k, i, clip(x), clip(y))
			break
		}
	}
	if res.status == "ok" && firstDiff != "" {
		res = result{"diff", firstDiff}
	}
	return res
}

func clip(s string) string {
	if len(s) > 240 {
		return s[:240] + "..."
	}
	return s
}

// args: jobs=<file> start=<k> shard=<i>/<n> G=<g> R=<r> replay=<case text>
func runRace(c *Ctx) {
	var jobs []c56.Job
	start, shard, nshard, g, r := 0, 0, 1, 8, 12
	modes := []string{"distinct", "shared", "query"}
	for _, a := range c.Args {
		if p, ok := strings.CutPrefix(a, "jobs="); ok {
			js, err := c56.LoadJobs(p)
			if err != nil {
				fmt.Fprintln(os.Stderr, "cannot load jobs:", err)
				os.Exit(2)
			}
			jobs = append(jobs, js...)
		} else if s, ok := strings.CutPrefix(a, "start="); ok {
			start, _ = strconv.Atoi(s)
		} else if s, ok := strings.CutPrefix(a, "shard="); ok {
			fmt.Sscanf(s, "%d/%d", &shard, &nshard)
		} else if s, ok := strings.CutPrefix(a, "G="); ok {
			g, _ = strconv.Atoi(s)
		} else if s, ok := strings.CutPrefix(a, "R="); ok {
			r, _ = strconv.Atoi(s)
		} else if s, ok := strings.CutPrefix(a, "replay="); ok {
			_, extra, j, ok := c56.ParseCase(s)
			if !ok {
				fmt.Fprintln(os.Stderr, "cannot parse case")
				os.Exit(2)
			}
			for _, f := range strings.Fields(extra) {
				if m, ok := strings.CutPrefix(f, "mode="); ok {
					modes = []string{m}
				} else if m, ok := strings.CutPrefix(f, "G="); ok {
					g, _ = strconv.Atoi(m)
				}
			}
			jobs = []c56.Job{j}
			c.N = -1
			r *= 8
		}
	}
	if c.N >= 0 {
		var gen []c56.Job
		vars := `{"a":[1,{"b":2}],"c":{"d":[3]}}`
		for i, p := range literalPrograms {
			gen = append(gen, c56.Job{Program: p, Input: c56.Inputs[i%len(c56.Inputs)], Origin: "literal", Vars: []string{vars}})
		}
		for i, p := range regexPrograms {
			gen = append(gen, c56.Job{Program: p, Input: c56.Inputs[6], Origin: "regex", Vars: []string{vars}},
				c56.Job{Program: p, Input: c56.Inputs[(i+4)%len(c56.Inputs)], Origin: "regex", Vars: []string{vars}})
		}
		for i, p := range errorPrograms {
			gen = append(gen, c56.Job{Program: p, Input: c56.Inputs[5], Origin: "errors", Vars: []string{vars}},
				c56.Job{Program: p, Input: c56.Inputs[(i+3)%len(c56.Inputs)], Origin: "errors", Vars: []string{vars}})
		}
		probeInputs := 1
		if c.Tier == "thorough" {
			probeInputs = 4
		}
		gen = append(gen, c56.GenJobs(c.Rng, c.N, probeInputs)...)
		jobs = append(gen, jobs...)
	}
	for i := start; i < len(jobs); i++ {
		if i%nshard != shard {
			continue
		}
		j := jobs[i]
		say("B %d", i)
		for _, mode := range modes {
			if mode == "query" && j.Origin != "literal" && j.Origin != "regex" && i%5 != 0 {
				continue // compiling per run is slow; sample
			}
			if j.Mode != "" && j.Mode != mode {
				continue
			}
			say("C %d %s %s\t%s", i, mode, j.Origin, c56.CaseText("c06", j, "mode="+mode+" G="+strconv.Itoa(g)))
			os.Stderr.WriteString("##BEGIN " + strconv.Itoa(i) + "." + mode + "\n")
			res := runJob(j, mode, g, r)
			os.Stderr.WriteString("##END\n")
			say("R %d %s %s\t%s", i, mode, res.status, strings.ReplaceAll(res.detail, "\n", " "))
			if res.status == "skip" {
				break
			}
		}
	}
	say("E")
}
