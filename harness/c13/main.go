// C13 harness: documented inverse pairs.
//
// Stream "c13":  model-vs-implementation lines for each native codec / path primitive / jq-defined
// converter separately (judged by the extracted Gallina model, coq/c13/Run.v).
// Stream "laws": every law of the property evaluated on the implementation alone through the public
// API (gojq.Parse / Compile / Run); a law that fails is recorded as an implementation violation whose
// text is the canonical, replayable case  "law=<name> input=<transport value> [arg=<...>]".
// With explicit arguments ("law=... input=...") the laws stream replays exactly those cases.
package main

import (
	"encoding/hex"
	"encoding/json"
	"fmt"
	"math"
	"math/big"
	"os"
	"sort"
	"strconv"
	"strings"
	"unicode/utf8"
	. "verifharness/hlib"

	"github.com/itchyny/gojq"
)

func main() { Register("c13", runModel); Register("laws", runLaws); Main() }

// ---------------------------------------------------------------------------------------------
// running queries

var codeCache = map[string]*gojq.Code{}

func compile(src string, vars ...string) *gojq.Code {
	key := src + "\x00" + strings.Join(vars, ",")
	if c, ok := codeCache[key]; ok {
		return c
	}
	q, err := gojq.Parse(src)
	if err != nil {
		panic(fmt.Sprintf("parse %q: %v", src, err))
	}
	c, err := gojq.Compile(q, gojq.WithVariables(vars))
	if err != nil {
		panic(fmt.Sprintf("compile %q: %v", src, err))
	}
	codeCache[key] = c
	return c
}

// run1 returns the single output of the query (an error value when it fails or yields != 1 outputs)
func run1(c *gojq.Code, in any, vals ...any) (res any) {
	defer func() {
		if r := recover(); r != nil {
			res = fmt.Errorf("panic: %v", r)
		}
	}()
	it := c.Run(clone(in), vals...)
	v, ok := it.Next()
	if !ok {
		return fmt.Errorf("no output")
	}
	if _, isErr := v.(error); isErr {
		return v
	}
	if w, ok := it.Next(); ok {
		if _, isErr := w.(error); isErr {
			return w
		}
		return fmt.Errorf("more than one output")
	}
	return v
}

// rs renders an implementation result for the model stream; the wording of error messages is not
// constrained by the property (and long atoms are slow to tokenize in the extracted model)
func rs(v any) string {
	if _, ok := v.(error); ok {
		return "(err -)"
	}
	return SexpVal(v)
}

func clone(v any) any {
	switch v := v.(type) {
	case []any:
		w := make([]any, len(v))
		for i, x := range v {
			w[i] = clone(x)
		}
		return w
	case map[string]any:
		w := make(map[string]any, len(v))
		for k, x := range v {
			w[k] = clone(x)
		}
		return w
	case *big.Int:
		return new(big.Int).Set(v)
	default:
		return v
	}
}

// ---------------------------------------------------------------------------------------------
// equality of results

// numClass: exact integer (int, *big.Int, integer literal) or double (float64, other literals)
func numVal(v any) (i *big.Int, f float64, isNum bool) {
	switch v := v.(type) {
	case int:
		return big.NewInt(int64(v)), 0, true
	case float64:
		return nil, v, true
	case *big.Int:
		return v, 0, true
	case json.Number:
		// a number literal kept as text (fromjson): integer literals are exact, others are the nearest double
		t := v.String()
		if !strings.ContainsAny(t, ".eE") {
			if b, ok := new(big.Int).SetString(t, 10); ok {
				return b, 0, true
			}
		}
		x, _ := strconv.ParseFloat(t, 64)
		return nil, x, true
	}
	return nil, 0, false
}

func bigToF(b *big.Int) float64 {
	f, _ := new(big.Float).SetInt(b).Float64() // nearest double, ties to even
	return f
}

// floatExactInt returns the exact integer value of an integral finite double
func floatExactInt(f float64) (*big.Int, bool) {
	if math.IsNaN(f) || math.IsInf(f, 0) || f != math.Trunc(f) {
		return nil, false
	}
	b, _ := new(big.Float).SetFloat64(f).Int(nil)
	return b, true
}

// deepEq(out, in): does the result [out] return the input [in] EXACTLY?  Written on the Go side, never
// through gojq's Compare / ==.  Numbers: when the input is an exact integer (int, *big.Int, integer
// literal) the result must denote exactly that integer (a double is accepted only if its exact value is
// that integer); when the input is a double the result must denote that same double (an exact integer
// result is accepted only if its nearest double is the input: tostring prints the shortest digits that
// round-trip, which need not be the double's exact decimal expansion).
func deepEq(a, b any) bool {
	if bi, bf, ok := numVal(b); ok {
		ai, af, ok := numVal(a)
		if !ok {
			return false
		}
		if bi != nil { // integer input: exact
			if ai != nil {
				return ai.Cmp(bi) == 0
			}
			x, ok := floatExactInt(af)
			return ok && x.Cmp(bi) == 0
		}
		if ai != nil {
			af = bigToF(ai)
		}
		return af == bf
	}
	switch a := a.(type) {
	case nil:
		return b == nil
	case bool:
		y, ok := b.(bool)
		return ok && a == y
	case string:
		y, ok := b.(string)
		return ok && a == y
	case []any:
		y, ok := b.([]any)
		if !ok || len(a) != len(y) {
			return false
		}
		for i := range a {
			if !deepEq(a[i], y[i]) {
				return false
			}
		}
		return true
	case map[string]any:
		y, ok := b.(map[string]any)
		if !ok || len(a) != len(y) {
			return false
		}
		for k, x := range a {
			z, ok := y[k]
			if !ok || !deepEq(x, z) {
				return false
			}
		}
		return true
	}
	return false
}

// ---------------------------------------------------------------------------------------------
// generators

// byte classes of UTF-8 decoding (lead / continuation boundaries, accept-range boundaries) and of the
// codecs (alphabet edges, '+', '%', '=', space, CR, LF, NUL, DEL)
var classBytes = []byte{0x00, 0x0a, 0x0d, 0x20, 0x25, 0x2b, 0x2d, 0x2f, 0x30, 0x3d, 0x41, 0x5a, 0x61, 0x7a, 0x7e, 0x7f,
	0x80, 0x8f, 0x90, 0x9f, 0xa0, 0xbf, 0xc0, 0xc1, 0xc2, 0xdf, 0xe0, 0xe1, 0xec, 0xed, 0xee, 0xef,
	0xf0, 0xf1, 0xf3, 0xf4, 0xf5, 0xff}

var sampleRunes = []rune{0, 'a', 'Z', ' ', '+', '%', '=', '"', '\\', '\n', 0x7f, 0x80, 0xe9, 0x7ff, 0x800, 0x20ac, 0x301,
	0xd7ff, 0xe000, 0xfffd, 0xffff, 0x10000, 0x1f600, 0x10ffff}

func randBytes(r *Rng, maxLen int) string {
	n := r.Intn(maxLen + 1)
	b := make([]byte, n)
	for i := range b {
		switch r.Intn(4) {
		case 0:
			b[i] = byte(r.Intn(256))
		default:
			b[i] = classBytes[r.Intn(len(classBytes))]
		}
	}
	return string(b)
}

func randValidString(r *Rng, maxLen int) string {
	n := r.Intn(maxLen + 1)
	var sb strings.Builder
	for i := 0; i < n; i++ {
		if r.Chance(1, 4) {
			c := rune(r.Intn(0x110000))
			if c >= 0xd800 && c <= 0xdfff {
				c = 0xfffd
			}
			sb.WriteRune(c)
		} else {
			sb.WriteRune(sampleRunes[r.Intn(len(sampleRunes))])
		}
	}
	return sb.String()
}

var trickyKeys = []string{"", "a", "b", "key", "value", "Key", "Value", "name", "Name", "k", "v", "e", "é", "€", "\U0001f600",
	"a\"b", "a\\b", "\n", "\t", "\x00", " ", "a b", "A", "aa", "ab", "start", "end", "0", "-1", "é"}

func randScalar(r *Rng) any {
	switch r.Intn(12) {
	case 0:
		return nil
	case 1:
		return true
	case 2:
		return false
	case 3:
		return r.Intn(7) - 3
	case 4:
		return []int{math.MaxInt64, math.MinInt64, 1 << 53, -(1 << 53), 1<<53 + 1, 1 << 31, 1000000}[r.Intn(7)]
	case 5:
		return []float64{0.5, -0.5, 1e17, 1.5e300, 5e-324, -1e-7, 3.141592653589793, 1e19, -2.5}[r.Intn(9)]
	case 6:
		x := new(big.Int).Lsh(big.NewInt(1), uint(64+r.Intn(70)))
		x.Add(x, big.NewInt(int64(r.Intn(5)-2)))
		if r.Chance(1, 2) {
			x.Neg(x)
		}
		return x
	case 7, 8:
		return randValidString(r, 6)
	case 9:
		return trickyKeys[r.Intn(len(trickyKeys))]
	default:
		return r.Intn(100)
	}
}

func randValue(r *Rng, depth int) any {
	if depth <= 0 || r.Chance(2, 5) {
		return randScalar(r)
	}
	if r.Chance(1, 2) {
		n := r.Intn(4)
		a := make([]any, n)
		for i := range a {
			a[i] = randValue(r, depth-1)
		}
		return a
	}
	n := r.Intn(4)
	m := make(map[string]any, n)
	for i := 0; i < n; i++ {
		var k string
		if r.Chance(2, 3) {
			k = trickyKeys[r.Intn(len(trickyKeys))]
		} else {
			k = randValidString(r, 4)
		}
		m[k] = randValue(r, depth-1)
	}
	return m
}

// the fixed JSON value universe: every type, empty / singleton / nested containers at the root and
// nested, keys that are empty, multi-byte or need escapes, boundary numbers
func universe() []any {
	big70, _ := new(big.Int).SetString("1180591620717411303425", 10)
	bigneg, _ := new(big.Int).SetString("-340282366920938463463374607431768211457", 10)
	scal := []any{nil, true, false, 0, 1, -1, 42, math.MaxInt64, math.MinInt64, 1 << 53, 1<<53 + 1,
		0.5, -0.5, 1e17, 1e19, 1.7976931348623157e308, 5e-324, 3.141592653589793, -1e-7, big70, bigneg,
		"", "a", "abc", "é", "€", "\U0001f600", "é", "a\"b\\c", "\n\t\r", "\x00", "  ", "a+b c%~=/?&",
		"�", "\U0010ffff", "퟿", "<>&'\"", "1", "null", "[]"}
	vs := append([]any{}, scal...)
	vs = append(vs,
		[]any{}, map[string]any{},
		[]any{nil}, []any{[]any{}}, []any{map[string]any{}}, []any{[]any{[]any{}}},
		map[string]any{"": nil}, map[string]any{"": map[string]any{}}, map[string]any{"a": []any{}},
		map[string]any{"": map[string]any{"": map[string]any{"": 1}}},
		[]any{1, 2, 3}, []any{1, []any{2, []any{3, []any{4}}}},
		[]any{[]any{}, []any{}, map[string]any{}, nil, false},
		map[string]any{"a": 1, "b": 2, "c": 3},
		map[string]any{"key": 1, "value": 2, "Key": 3, "Value": 4, "name": 5, "Name": 6},
		map[string]any{"a\"b": 1, "a\\b": 2, "\n": 3, "\x00": 4, "é": 5, "€": 6, "\U0001f600": 7, "": 8},
		map[string]any{"v": 1, "e": true}, map[string]any{"e": false, "v": []any{}},
		map[string]any{"a": map[string]any{"b": map[string]any{"c": []any{1, map[string]any{"d": nil}}}}},
		[]any{map[string]any{"a": []any{}}, map[string]any{"a": map[string]any{}}, map[string]any{"b": []any{[]any{}}}},
		[]any{nil, nil, nil}, []any{false, nil, []any{nil}},
		map[string]any{"a": nil, "b": false, "c": []any{}, "d": map[string]any{}},
		[]any{"a", "é", 1.5, big70, map[string]any{"k": "v"}},
		[]any{[]any{1, 2}, []any{3, 4}, []any{}}, []any{[]any{[]any{1}}, 2},
		map[string]any{"a": []any{map[string]any{"b": []any{map[string]any{"c": 1}}}}},
	)
	return vs
}

func isObject(v any) bool { _, ok := v.(map[string]any); return ok }

// paths of v (pre-order, root excluded), computed here rather than by the implementation
func pathsOf(v any) [][]any {
	var out [][]any
	var walk func(v any, pre []any)
	walk = func(v any, pre []any) {
		switch v := v.(type) {
		case []any:
			for i, x := range v {
				p := append(append([]any{}, pre...), i)
				out = append(out, p)
				walk(x, p)
			}
		case map[string]any:
			ks := make([]string, 0, len(v))
			for k := range v {
				ks = append(ks, k)
			}
			sort.Strings(ks)
			for _, k := range ks {
				p := append(append([]any{}, pre...), k)
				out = append(out, p)
				walk(v[k], p)
			}
		}
	}
	walk(v, nil)
	return out
}

func pathAny(p []any) []any { return append([]any{}, p...) }

// ---------------------------------------------------------------------------------------------
// stream c13: model vs implementation

func runModel(c *Ctx) {
	r := c.Rng
	qExplode, qImplode := compile("explode"), compile("implode")
	qB64, qB64d, qURI, qURId := compile("@base64"), compile("@base64d"), compile("@uri"), compile("@urid")
	qSplit, qJoin := compile("split($s)", "$s"), compile("join($s)", "$s")
	qLtrim, qRtrim := compile("ltrimstr($s)", "$s"), compile("rtrimstr($s)", "$s")
	qGet, qSet := compile("getpath($p)", "$p"), compile("setpath($p; $x)", "$p", "$x")
	qPaths, qToE, qFromE, qWithE := compile("[paths]"), compile("to_entries"), compile("from_entries"), compile("with_entries(.)")
	qToS, qFromS := compile("[tostream]"), compile("[fromstream(.[])]")
	qGm, qMk := compile("gmtime"), compile("mktime")

	str1 := func(tag string, q *gojq.Code, s string) {
		c.Emit("(%s %s %s)", tag, SexpVal(s), rs(run1(q, s)))
		c.Count(tag)
	}
	// --- byte strings: exhaustive over the byte classes up to length 2 (3 in thorough), random longer
	var strs []string
	strs = append(strs, "")
	maxExh := 2
	if c.Tier == "thorough" {
		maxExh = 3
	}
	var gen func(prefix []byte, n int)
	gen = func(prefix []byte, n int) {
		if n == 0 {
			strs = append(strs, string(prefix))
			return
		}
		for _, b := range classBytes {
			gen(append(append([]byte{}, prefix...), b), n-1)
		}
	}
	for n := 1; n <= maxExh; n++ {
		gen(nil, n)
	}
	// all 3- and 4-byte windows that straddle accept-range boundaries
	for _, b0 := range []byte{0xe0, 0xed, 0xee, 0xf0, 0xf4} {
		for _, b1 := range []byte{0x7f, 0x80, 0x8f, 0x90, 0x9f, 0xa0, 0xbf, 0xc0} {
			for _, b2 := range []byte{0x7f, 0x80, 0xbf, 0xc0} {
				strs = append(strs, string([]byte{b0, b1, b2}), string([]byte{b0, b1, b2, 0x80}), string([]byte{b0, b1, b2, 0x41}))
			}
		}
	}
	nrand := c.N
	for i := 0; i < nrand; i++ {
		if i%2 == 0 {
			strs = append(strs, randBytes(r, 14))
		} else {
			strs = append(strs, randValidString(r, 8))
		}
	}
	for _, s := range strs {
		str1("explode", qExplode, s)
		str1("b64", qB64, s)
		str1("uri", qURI, s)
	}
	// --- decoders on arbitrary input: alphabet, padding, CR/LF, '+', '%', stray bytes
	decAlpha := []byte("AZaz09+/=-_ \r\n%Q!\x00\xff")
	uriAlpha := []byte("%+ aZ09fFgG-_.~2B\x00\xe9\xc3")
	var decs []string
	var gen2 func(al []byte, prefix []byte, n int, out *[]string)
	gen2 = func(al []byte, prefix []byte, n int, out *[]string) {
		if n == 0 {
			*out = append(*out, string(prefix))
			return
		}
		for _, b := range al {
			gen2(al, append(append([]byte{}, prefix...), b), n-1, out)
		}
	}
	for n := 0; n <= 3; n++ {
		gen2(decAlpha, nil, n, &decs)
	}
	for i := 0; i < nrand; i++ {
		n := r.Intn(13)
		b := make([]byte, n)
		for j := range b {
			b[j] = decAlpha[r.Intn(len(decAlpha))]
			if r.Chance(2, 3) {
				b[j] = "ABCDEFGHIJKLMNOPQRSTUVWXYZabcdefghijklmnopqrstuvwxyz0123456789+/"[r.Intn(64)]
			}
		}
		decs = append(decs, string(b))
	}
	for _, s := range decs {
		str1("b64d", qB64d, s)
	}
	var uris []string
	for n := 0; n <= 3; n++ {
		gen2(uriAlpha, nil, n, &uris)
	}
	for i := 0; i < nrand; i++ {
		n := r.Intn(10)
		b := make([]byte, n)
		for j := range b {
			b[j] = uriAlpha[r.Intn(len(uriAlpha))]
		}
		uris = append(uris, string(b))
	}
	for _, s := range uris {
		str1("urid", qURId, s)
	}
	// --- implode: scalar values, surrogates, out-of-range, negative, huge
	cps := []any{0, 65, 127, 128, 2047, 2048, 0xd7ff, 0xd800, 0xdfff, 0xe000, 0xfffd, 0xffff, 0x10000, 0x10ffff, 0x110000,
		-1, math.MaxInt64, math.MinInt64, new(big.Int).Lsh(big.NewInt(1), 70), new(big.Int).Neg(new(big.Int).Lsh(big.NewInt(1), 70))}
	for _, a := range cps {
		for _, b := range cps {
			in := []any{a, b}
			c.Emit("(implode %s %s)", SexpVal(in), rs(run1(qImplode, in)))
		}
	}
	for i := 0; i < nrand; i++ {
		n := r.Intn(8)
		in := make([]any, n)
		for j := range in {
			if r.Chance(1, 5) {
				in[j] = cps[r.Intn(len(cps))]
			} else {
				in[j] = r.Intn(0x110000 + 10)
			}
		}
		c.Emit("(implode %s %s)", SexpVal(in), rs(run1(qImplode, in)))
		c.Count("implode")
	}
	// --- split / join / trimstr
	seps := []string{"", "a", "ab", "aa", "aba", ",", "é", "\xa9", "\xff", "€", "\n"}
	for i := 0; i < nrand+200; i++ {
		sep := seps[r.Intn(len(seps))]
		// subject built from few letters so that separators occur, overlap and abut
		n := r.Intn(10)
		var sb strings.Builder
		for j := 0; j < n; j++ {
			sb.WriteString([]string{"a", "b", ",", "é", "\xc3", "\xa9", "\xff", "€", "ab", "\n"}[r.Intn(10)])
		}
		s := sb.String()
		res := run1(qSplit, s, sep)
		c.Emit("(split %s %s %s)", SexpVal(sep), SexpVal(s), rs(res))
		if parts, ok := res.([]any); ok {
			c.Emit("(join %s %s %s)", SexpVal(sep), SexpVal(parts), rs(run1(qJoin, parts, sep)))
		}
		c.Emit("(ltrimstr %s %s %s)", SexpVal(sep), SexpVal(s), rs(run1(qLtrim, s, sep)))
		c.Emit("(rtrimstr %s %s %s)", SexpVal(sep), SexpVal(s), rs(run1(qRtrim, s, sep)))
		c.Count("split/join/trim")
	}
	// --- values: paths, entries, streams, getpath / setpath
	vals := universe()
	for i := 0; i < nrand/4+50; i++ {
		vals = append(vals, randValue(r.Fork(), 4))
	}
	replacements := []any{nil, 7, "x", []any{}, map[string]any{"z": []any{1}}}
	for _, v := range vals {
		sv := SexpVal(v)
		c.Emit("(paths %s %s)", sv, rs(run1(qPaths, v)))
		c.Emit("(pathdd %s %s)", sv, rs(run1(compile("[path(..)]"), v)))
		evs := run1(qToS, v)
		c.Emit("(tostream %s %s)", sv, rs(evs))
		if _, ok := evs.([]any); ok {
			c.Emit("(fromstream %s %s)", SexpVal(evs), rs(run1(qFromS, evs)))
		}
		if isObject(v) {
			ents := run1(qToE, v)
			c.Emit("(to_entries %s %s)", sv, rs(ents))
			c.Emit("(with_entries %s %s)", sv, rs(run1(qWithE, v)))
			if _, ok := ents.([]any); ok {
				c.Emit("(from_entries %s %s)", SexpVal(ents), rs(run1(qFromE, ents)))
			}
		}
		ps := pathsOf(v)
		// every path of v, plus paths leaving v: fresh keys, indices past the end, negative indices,
		// descending through scalars (errors)
		cand := [][]any{{}}
		for _, p := range ps {
			cand = append(cand, p)
		}
		for _, p := range append([][]any{{}}, ps...) {
			for _, e := range []any{"zz", "", 0, 1, -1, -2, 5} {
				cand = append(cand, append(pathAny(p), e))
			}
			if len(cand) > 160 {
				break
			}
		}
		for _, p := range cand {
			c.Emit("(getpath %s %s %s)", sv, SexpVal(pathAny(p)), rs(run1(qGet, v, pathAny(p))))
			x := replacements[r.Intn(len(replacements))]
			c.Emit("(setpath %s %s %s %s)", sv, SexpVal(pathAny(p)), SexpVal(x), rs(run1(qSet, v, pathAny(p), x)))
			c.Count("getpath/setpath")
		}
		c.Count("value")
	}
	// from_entries on the alternative spellings and on malformed entries
	entryKeys := []string{"key", "Key", "name", "Name", "k"}
	valueKeys := []string{"value", "Value", "v"}
	keyVals := []any{"a", "", "é", nil, false, 1, "b"}
	for i := 0; i < 300; i++ {
		n := r.Intn(4)
		es := make([]any, n)
		for j := range es {
			e := map[string]any{}
			for t := 0; t < 1+r.Intn(2); t++ {
				e[entryKeys[r.Intn(len(entryKeys))]] = keyVals[r.Intn(len(keyVals))]
			}
			if r.Chance(4, 5) {
				e[valueKeys[r.Intn(len(valueKeys))]] = randScalar(r)
			}
			es[j] = e
			if r.Chance(1, 30) {
				es[j] = randScalar(r)
			}
		}
		c.Emit("(from_entries %s %s)", SexpVal(es), rs(run1(qFromE, es)))
		c.Count("from_entries-malformed")
	}
	// --- gmtime / mktime on whole seconds
	for _, t := range secondsCases(r, nrand+300) {
		g := run1(qGm, t)
		c.Emit("(gmtime %s %s)", SexpVal(t), rs(g))
		if a, ok := g.([]any); ok {
			c.Emit("(mktime %s %s)", SexpVal(a), rs(run1(qMk, a)))
		}
		c.Count("gmtime/mktime")
	}
	// todate text vs the fixed-width model; fromdate / strptime on those texts and on lenient / malformed ones
	qToDate, qFromDate, qStrp := compile("todate"), compile("fromdate"), compile(`strptime("%Y-%m-%dT%H:%M:%S%z")`)
	var texts []string
	for _, t := range secondsCases(r, nrand/2+100) {
		d := run1(qToDate, t)
		c.Emit("(todate %s %s)", SexpVal(t), rs(d))
		if s, ok := d.(string); ok {
			texts = append(texts, s)
		}
		c.Count("todate")
	}
	for i, s := range texts {
		variants := []string{s}
		if i%4 == 0 {
			b := []byte(s)
			variants = append(variants,
				strings.Replace(s, "-0", "-", 1), strings.Replace(s, "T0", "T", 1), strings.Replace(s, ":0", ":", 2),
				strings.TrimLeft(s, "0"), s+"Z", strings.TrimSuffix(s, "Z"), strings.Replace(s, "T", " ", 1),
				strings.Replace(s, "-", "/", 1), "-"+s, s[:len(s)-3]+"60Z", s[:5]+"13"+s[7:], s[:8]+"00"+s[10:], s[:11]+"24"+s[13:],
				strings.ToLower(s), string(b[:len(b)-1])+"z", "")
		}
		for _, v := range variants {
			c.Emit("(fromdate %s %s)", SexpVal(v), rs(run1(qFromDate, v)))
			c.Emit("(strptime %s %s)", SexpVal(v), rs(run1(qStrp, v)))
			c.Count("fromdate")
		}
	}
	// mktime on unnormalised broken-down times (time.Date normalises)
	for i := 0; i < 300; i++ {
		a := []any{1 + r.Intn(9999), r.Intn(40) - 14, r.Intn(80) - 20, r.Intn(100) - 30, r.Intn(200) - 70, r.Intn(200) - 70, 0, 0}
		c.Emit("(mktime %s %s)", SexpVal(a), rs(run1(qMk, a)))
		c.Count("mktime-unnormalised")
	}
}

const year1 = -62135596800
const year9999end = 253402300799

func secondsCases(r *Rng, n int) []int {
	ts := []int{0, 1, -1, 59, 60, 86399, 86400, -86400, -86401, year1, year1 + 1, year9999end, year9999end - 1,
		951782400, 951868799, 951868800, 4107542400, 4107456000, -2203891200, -2208988800, 1709164800, 1709251199, 1709251200,
		68169600, 94694400, 1e11, -62135596800 + 86400*365, 253402300799 - 86400*366}
	for y := 0; y < 40; y++ {
		// around the turn of (pseudo-random) years, centuries included
		base := year1 + (r.Intn(9998)*31556952)/1
		ts = append(ts, base, base+86399, base+86400)
	}
	for i := 0; i < n; i++ {
		ts = append(ts, year1+r.Intn(year9999end-year1+1))
	}
	var out []int
	for _, t := range ts {
		if t >= year1 && t <= year9999end {
			out = append(out, t)
		}
	}
	return out
}

// ---------------------------------------------------------------------------------------------
// stream laws: the property's laws on the implementation alone

func lawCase(name string, v any, arg any) string {
	if arg == nil {
		return fmt.Sprintf("law=%s input=%s", name, SexpVal(v))
	}
	return fmt.Sprintf("law=%s input=%s arg=%s", name, SexpVal(v), SexpVal(arg))
}

// parseSexpVal reads one value in the transport encoding (the inverse of hlib.SexpVal)
func parseSexpVal(s string) (any, error) {
	toks := strings.Fields(strings.NewReplacer("(", " ( ", ")", " ) ").Replace(s))
	pos := 0
	var parse func() (any, error)
	unhex := func(t string) (string, error) {
		if t == "-" {
			return "", nil
		}
		b, err := hex.DecodeString(t)
		return string(b), err
	}
	parse = func() (any, error) {
		if pos >= len(toks) {
			return nil, fmt.Errorf("unexpected end")
		}
		t := toks[pos]
		pos++
		switch t {
		case "null":
			return nil, nil
		case "true":
			return true, nil
		case "false":
			return false, nil
		case "(":
		default:
			return nil, fmt.Errorf("unexpected token %q", t)
		}
		if pos >= len(toks) {
			return nil, fmt.Errorf("unexpected end")
		}
		tag := toks[pos]
		pos++
		var out any
		switch tag {
		case "i", "b", "f", "l", "s":
			if pos >= len(toks) {
				return nil, fmt.Errorf("unexpected end")
			}
			a := toks[pos]
			pos++
			switch tag {
			case "i", "b":
				x, ok := new(big.Int).SetString(a, 10)
				if !ok {
					return nil, fmt.Errorf("bad integer %q", a)
				}
				if tag == "i" && x.IsInt64() {
					out = int(x.Int64())
				} else {
					out = x
				}
			case "f":
				u, err := strconv.ParseUint(a, 10, 64)
				if err != nil {
					return nil, err
				}
				out = math.Float64frombits(u)
			case "l":
				t, err := unhex(a)
				if err != nil {
					return nil, err
				}
				out = json.Number(t)
			case "s":
				t, err := unhex(a)
				if err != nil {
					return nil, err
				}
				out = t
			}
		case "a":
			arr := []any{}
			for pos < len(toks) && toks[pos] != ")" {
				x, err := parse()
				if err != nil {
					return nil, err
				}
				arr = append(arr, x)
			}
			out = arr
		case "o":
			m := map[string]any{}
			for pos < len(toks) && toks[pos] != ")" {
				if toks[pos] != "(" || pos+1 >= len(toks) {
					return nil, fmt.Errorf("bad object entry")
				}
				k, err := unhex(toks[pos+1])
				if err != nil {
					return nil, err
				}
				pos += 2
				x, err := parse()
				if err != nil {
					return nil, err
				}
				if pos >= len(toks) || toks[pos] != ")" {
					return nil, fmt.Errorf("bad object entry")
				}
				pos++
				m[k] = x
			}
			out = m
		default:
			return nil, fmt.Errorf("unknown tag %q", tag)
		}
		if pos >= len(toks) || toks[pos] != ")" {
			return nil, fmt.Errorf("missing )")
		}
		pos++
		return out, nil
	}
	v, err := parse()
	if err == nil && pos != len(toks) {
		err = fmt.Errorf("trailing tokens")
	}
	return v, err
}

type lawRunner struct {
	c      *Ctx
	r      *Rng
	nfail  int
	evals  int
	perLaw map[string]int
}

// at most 6 failing inputs are recorded per law, so that one broken law does not hide another
func (l *lawRunner) report(name string, v any, arg any, detail string) {
	l.nfail++
	if l.perLaw == nil {
		l.perLaw = map[string]int{}
	}
	if l.perLaw[name]++; l.perLaw[name] <= 6 {
		l.c.Violation("%s :: %s", lawCase(name, v, arg), detail)
	}
}

// ident: the query must return exactly its input
func (l *lawRunner) ident(name, src string, v any) {
	l.evals++
	l.c.Count(name)
	out := run1(compile(src), v)
	if !deepEq(out, v) {
		l.report(name, v, nil, "got "+rs(out))
	}
	l.c.Emit("(law %s %s)", strings.ReplaceAll(name, " ", "_"), SexpVal(v))
}

var lawReplacements = []any{nil, 7, "x", []any{}, map[string]any{"z": []any{1}}, false}

func (l *lawRunner) value(v any) {
	c, r := l.c, l.r
	qGet, qSet := compile("getpath($p)", "$p"), compile("setpath($p; $x)", "$p", "$x")
	qSetGet := compile("setpath($p; $x) | getpath($p)", "$p", "$x")
	qSetId := compile("setpath($p; getpath($p))", "$p")
	qPaths, qPathDD := compile("[paths]"), compile("[path(..)]")
	qToS := compile("[tostream]")
	qReplay := compile("reduce (tostream | select(length == 2)) as [$p, $x] (null; setpath($p; $x))")
	l.ident("fromstream(tostream)", "fromstream(tostream)", v)
	l.ident("tojson|fromjson", "tojson|fromjson", v)
	if isObject(v) {
		l.ident("to_entries|from_entries", "to_entries|from_entries", v)
		l.ident("with_entries(.)", "with_entries(.)", v)
	}
	// [paths] == [path(..)] without the root; and both equal the paths computed here
	l.evals++
	c.Count("paths")
	ps := run1(qPaths, v)
	pdd := run1(qPathDD, v)
	mine := pathsOf(v)
	mineAny := make([]any, len(mine))
	for i, p := range mine {
		mineAny[i] = pathAny(p)
	}
	if a, ok := pdd.([]any); !ok || len(a) == 0 || !deepEq(a[0], []any{}) || !deepEq(ps, a[1:]) {
		l.report("[paths]==[path(..)][1:]", v, nil, "paths="+rs(ps)+" path(..)="+rs(pdd))
	} else if !deepEq(ps, mineAny) {
		l.report("[paths]==structural paths", v, nil, "paths="+rs(ps))
	}
	// tostream events [p, leaf] satisfy getpath(p) == leaf
	evs, _ := run1(qToS, v).([]any)
	for _, e := range evs {
		ev, ok := e.([]any)
		if !ok || len(ev) == 0 || len(ev) > 2 {
			l.report("tostream event shape", v, nil, rs(e))
			continue
		}
		if len(ev) == 2 {
			l.evals++
			c.Count("tostream-leaf")
			got := run1(qGet, v, ev[0])
			if !deepEq(got, ev[1]) {
				l.report("tostream leaf getpath", v, ev[0], "event leaf "+rs(ev[1])+" getpath "+rs(got))
			}
		}
	}
	// replaying the two-element events with setpath on null rebuilds the value
	l.evals++
	c.Count("replay")
	if out := run1(qReplay, v); !deepEq(out, v) {
		l.report("replay tostream leaves with setpath on null", v, nil, "got "+rs(out))
	}
	// setpath(p; getpath(p)) is the identity for every p in paths; setpath(p; x) | getpath(p) is x
	cand := append([][]any{{}}, mine...)
	nIn := len(cand)
	for _, p := range append([][]any{{}}, mine...) {
		if len(cand) > 120 {
			break
		}
		for _, e := range []any{"zz", "", 0, 3, -1} {
			cand = append(cand, append(pathAny(p), e))
		}
	}
	for i, p := range cand {
		pa := pathAny(p)
		if i < nIn {
			l.evals++
			c.Count("setpath(p;getpath(p))")
			if out := run1(qSetId, v, pa); !deepEq(out, v) {
				l.report("setpath(p;getpath(p))", v, pa, "got "+rs(out))
			}
		}
		x := lawReplacements[r.Intn(len(lawReplacements))]
		set := run1(qSet, v, pa, x)
		if _, isErr := set.(error); isErr {
			continue // setpath undefined here (type error, negative index out of range): law not applicable
		}
		l.evals++
		c.Count("setpath(p;x)|getpath(p)")
		if out := run1(qSetGet, v, pa, x); !deepEq(out, x) {
			l.report("setpath(p;x)|getpath(p)", v, []any{pa, x}, "got "+rs(out))
		}
	}
}

func (l *lawRunner) str(s string, extraSeps []string) {
	c, r := l.c, l.r
	l.ident("@base64|@base64d", "@base64|@base64d", s)
	l.ident("@uri|@urid", "@uri|@urid", s)
	if utf8.ValidString(s) {
		l.ident("explode|implode", "explode|implode", s)
		l.ident("tojson|fromjson", "tojson|fromjson", s)
	}
	// split(s)|join(s) for non-empty separators: substrings of the subject and fixed ones
	seps := append([]string{"a", ",", "é", "ab", "\n", "%", "="}, extraSeps...)
	if len(s) > 0 {
		i := r.Intn(len(s))
		j := i + 1 + r.Intn(len(s)-i)
		seps = append(seps, s[i:j], s[:1], s[len(s)-1:])
	}
	for _, sep := range seps {
		if sep == "" {
			continue
		}
		l.evals++
		c.Count("split(s)|join(s)")
		out := run1(compile("split($s)|join($s)", "$s"), s, sep)
		if !deepEq(out, s) {
			l.report("split(s)|join(s)", s, sep, "got "+rs(out))
		}
	}
}

func (l *lawRunner) num(n any) {
	if f, ok := n.(float64); ok && (math.IsNaN(f) || math.IsInf(f, 0)) {
		return
	}
	if b, ok := n.(*big.Int); ok && b.IsInt64() {
		n = int(b.Int64())
	}
	l.ident("tostring|tonumber", "tostring|tonumber", n)
	l.ident("tojson|fromjson", "tojson|fromjson", n)
}

var notNumbers = []string{"nan", "NaN", "0x10", "1_0", " 1", "1 ", "inf", "Infinity", "-Infinity", "0x1p-2", "1e", "1e+", "--1", "-", "",
	"0b1", "1,5", "١", "1.2.3", "1e5e5", "true", "null", "0x", "1__0", "\t1", "1\n"}

// tonumber on a text that is not a number literal is an error (never a number)
func (l *lawRunner) notNumber(t string) {
	l.evals++
	l.c.Count("tonumber-rejects")
	out := run1(compile("tonumber"), t)
	if _, isErr := out.(error); !isErr {
		l.report("tonumber rejects non-number text", t, nil, "got "+rs(out))
	}
}

func (l *lawRunner) seconds(t int) {
	if t < year1 || t > year9999end {
		return
	}
	l.ident("gmtime|mktime", "gmtime|mktime", t)
	l.ident("todate|fromdate", "todate|fromdate", t)
	if t != year1 { // the float spelling of the first second of year 1 would only repeat the int case
		l.ident("gmtime|mktime", "gmtime|mktime", float64(t))
		l.ident("todate|fromdate", "todate|fromdate", float64(t))
	}
}

func runLaws(c *Ctx) {
	l := &lawRunner{c: c, r: c.Rng}
	r := c.Rng
	defer func() {
		c.Stats["law_evaluations"] = l.evals
		c.Stats["law_failures"] = l.nfail
	}()
	// candidate mode: evaluate every applicable law on the values listed in a file (one per line)
	for _, a := range c.Args {
		if path, ok := strings.CutPrefix(a, "cands="); ok {
			data, err := os.ReadFile(path)
			if err != nil {
				panic(err)
			}
			var vals []any
			var strs []string
			for _, line := range strings.Split(string(data), "\n") {
				if strings.TrimSpace(line) == "" {
					continue
				}
				v, err := parseSexpVal(line)
				if err != nil {
					continue
				}
				vals = append(vals, v)
				if s, ok := v.(string); ok {
					strs = append(strs, s)
				}
				// strings and numbers nested one level down (implode / join / mktime arguments)
				if arr, ok := v.([]any); ok {
					for _, x := range arr {
						if s, ok := x.(string); ok {
							strs = append(strs, s)
						}
					}
				}
			}
			if len(strs) > 60 {
				strs = strs[:60]
			}
			for _, v := range vals {
				l.value(v)
				switch x := v.(type) {
				case string:
					l.str(x, strs)
				case int:
					l.num(x)
					l.seconds(x)
				case float64:
					l.num(x)
					if x == math.Trunc(x) && math.Abs(x) < 1e15 {
						l.seconds(int(x))
					}
				case *big.Int, json.Number:
					l.num(x)
				case []any:
					// an exploded string / a broken-down time
					if s, ok := run1(compile("implode"), x).(string); ok {
						l.str(s, nil)
					}
					if t, ok := run1(compile("mktime"), x).(float64); ok && t == math.Trunc(t) && math.Abs(t) < 1e15 {
						l.seconds(int(t))
					}
				}
			}
			return
		}
	}
	vals := universe()
	nrand := c.N
	for i := 0; i < nrand; i++ {
		vals = append(vals, randValue(r.Fork(), 5))
	}
	for _, v := range vals {
		l.value(v)
	}
	// strings
	var strs []string
	for _, v := range universe() {
		if s, ok := v.(string); ok {
			strs = append(strs, s)
		}
	}
	for _, b0 := range classBytes {
		strs = append(strs, string([]byte{b0}))
		for _, b1 := range classBytes {
			strs = append(strs, string([]byte{b0, b1}))
		}
	}
	for _, a := range sampleRunes {
		for _, b := range sampleRunes {
			strs = append(strs, string([]rune{a, b}), string([]rune{a, b, a}))
		}
	}
	for i := 0; i < 2*nrand; i++ {
		if i%2 == 0 {
			strs = append(strs, randBytes(r, 16))
		} else {
			strs = append(strs, randValidString(r, 10))
		}
	}
	for _, s := range strs {
		l.str(s, nil)
	}
	// finite numbers
	nums := []any{0, 1, -1, 42, math.MaxInt64, math.MinInt64, 1 << 53, 1<<53 + 1, -(1<<53 + 1), 0.5, -0.5, 1e17, 1e19, -1e19, 1e21, 1e22, 1e23,
		1.7976931348623157e308, -1.7976931348623157e308, 5e-324, 2.2250738585072014e-308, 3.141592653589793, -1e-7, 0.1, 0.3, 1e-5, 123456789.125,
		math.Copysign(0, -1), 4.35, 0.000001, 1e6, 1e-6, 9007199254740993.0, 1 / 3.0}
	for k := 0; k <= 130; k += 7 {
		p := new(big.Int).Lsh(big.NewInt(1), uint(k))
		nums = append(nums, new(big.Int).Add(p, big.NewInt(1)), new(big.Int).Neg(p), new(big.Int).Sub(p, big.NewInt(1)))
	}
	// integers around the representation boundaries ±2^53, ±2^63, ±2^64 and the powers of ten 10^19..10^40,
	// in every Go representation an integer can arrive in (int, *big.Int, integral float64)
	for _, k := range []uint{53, 62, 63, 64, 65, 100} {
		p := new(big.Int).Lsh(big.NewInt(1), k)
		for d := int64(-2); d <= 2; d++ {
			x := new(big.Int).Add(p, big.NewInt(d))
			nums = append(nums, x, new(big.Int).Neg(x))
		}
		f, _ := new(big.Float).SetInt(p).Float64()
		nums = append(nums, f, -f, math.Nextafter(f, math.Inf(1)), math.Nextafter(f, 0))
	}
	for e := 15; e <= 40; e++ {
		p := new(big.Int).Exp(big.NewInt(10), big.NewInt(int64(e)), nil)
		for d := int64(-1); d <= 1; d++ {
			x := new(big.Int).Add(p, big.NewInt(d))
			nums = append(nums, x, new(big.Int).Neg(x))
		}
		f, _ := new(big.Float).SetInt(p).Float64()
		nums = append(nums, f, -f)
	}
	// doubles that print in exponent form or with many digits
	nums = append(nums, 1e21, 1.5e21, 1e100, -1e100, 1.5e300, 1.2345678901234567e25, 1e-7, 1.5e-10, 2.5e-300, 4.9406564584124654e-324,
		123456789012345680000.0, 0.000001234, 1e-5, 9.999999999999999e22, 1e23, 8.98846567431158e307)
	for i := 0; i < nrand; i++ {
		nums = append(nums, math.Float64frombits(r.Next()), int(int64(r.Next())), float64(int64(r.Next()))/1024)
		// random 17..45-digit integers
		nd := 17 + r.Intn(29)
		var sb strings.Builder
		sb.WriteByte(byte('1' + r.Intn(9)))
		for j := 1; j < nd; j++ {
			sb.WriteByte(byte('0' + r.Intn(10)))
		}
		x, _ := new(big.Int).SetString(sb.String(), 10)
		if r.Chance(1, 2) {
			x.Neg(x)
		}
		nums = append(nums, x)
	}
	for _, n := range nums {
		l.num(n)
	}
	// tonumber accepts number texts only: these are not JSON / jq number literals
	for _, t := range notNumbers {
		l.notNumber(t)
	}
	// whole seconds within years 1..9999
	for _, t := range secondsCases(r, nrand) {
		l.seconds(t)
	}
}
