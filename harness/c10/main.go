package main

import (
	"encoding/json"
	"fmt"
	"math"
	"math/big"
	"regexp"
	"strconv"
	"strings"
	. "verifharness/hlib"

	"github.com/itchyny/gojq"
	"github.com/itchyny/gojq/cli"
)

func main() { Register("c10", runC10); Main() }

// boundary integers: 0, ±1, ±2^k, ±2^k±1 (k<=130), MinInt64/MaxInt64 neighbours, sqrt(2^63) neighbours,
// random 1..40-digit integers
func c10Ints(r *Rng, nrand int) []*big.Int {
	var xs []*big.Int
	add := func(x *big.Int) { xs = append(xs, new(big.Int).Set(x), new(big.Int).Neg(x)) }
	add(big.NewInt(0))
	for k := 0; k <= 130; k++ {
		p := new(big.Int).Lsh(big.NewInt(1), uint(k))
		add(p)
		add(new(big.Int).Add(p, big.NewInt(1)))
		add(new(big.Int).Sub(p, big.NewInt(1)))
	}
	for d := int64(-3); d <= 3; d++ {
		add(new(big.Int).Add(big.NewInt(math.MaxInt64), big.NewInt(d)))
		add(new(big.Int).Add(big.NewInt(3037000499), big.NewInt(d)))
		add(new(big.Int).Add(big.NewInt(2147483648), big.NewInt(d)))
		add(new(big.Int).Add(big.NewInt(4294967296), big.NewInt(d)))
	}
	for i := 0; i < nrand; i++ {
		nd := 1 + r.Intn(40)
		var sb strings.Builder
		sb.WriteByte(byte('1' + r.Intn(9)))
		for j := 1; j < nd; j++ {
			sb.WriteByte(byte('0' + r.Intn(10)))
		}
		x, _ := new(big.Int).SetString(sb.String(), 10)
		add(x)
	}
	// dedupe
	seen := map[string]bool{}
	var out []*big.Int
	for _, x := range xs {
		if !seen[x.String()] {
			seen[x.String()] = true
			out = append(out, x)
		}
	}
	return out
}

// reps returns the Go representations available for integer x: int (if fits), *big.Int, json.Number
func c10Reps(x *big.Int) []any {
	var rs []any
	if x.IsInt64() {
		rs = append(rs, int(x.Int64()))
	}
	rs = append(rs, new(big.Int).Set(x), json.Number(x.String()))
	return rs
}

func c10Result(v any) string {
	switch e := v.(type) {
	case error:
		msg := e.Error()
		switch {
		case strings.HasPrefix(msg, "cannot modulo ") && strings.Contains(msg, " by: "):
			return "zeromod"
		case strings.HasPrefix(msg, "cannot divide ") && strings.Contains(msg, " by: "):
			return "zerodiv"
		}
		return SexpVal(v)
	}
	return SexpVal(v)
}

func c10Compile(src string, vars ...string) *gojq.Code {
	q, err := gojq.Parse(src)
	if err != nil {
		panic(err)
	}
	c, err := gojq.Compile(q, gojq.WithVariables(vars))
	if err != nil {
		panic(err)
	}
	return c
}

// c10Snapshot / c10Unchanged: operands must not be modified by evaluating an operator on them
func c10Snapshot(vs ...any) []string {
	out := make([]string, len(vs))
	for i, v := range vs {
		out[i] = SexpVal(v)
	}
	return out
}

func c10Run1(c *gojq.Code, in any, vals ...any) any {
	it := c.Run(in, vals...)
	v, ok := it.Next()
	if !ok {
		return fmt.Errorf("no output")
	}
	return v
}

// c10Core: int64 boundary values for which ALL ordered pairs are run in every tier
func c10Core() []*big.Int {
	var xs []*big.Int
	for _, v := range []int64{0, 1, -1, 2, -2, 3, -3, 10, math.MaxInt64, math.MaxInt64 - 1, math.MinInt64, math.MinInt64 + 1,
		1 << 31, -(1 << 31), 1 << 32, -(1 << 32), 1 << 62, -(1 << 62), 3037000499, 3037000500, -3037000500, 4611686018427387905} {
		xs = append(xs, big.NewInt(v))
	}
	xs = append(xs, new(big.Int).Lsh(big.NewInt(1), 63), new(big.Int).Lsh(big.NewInt(1), 64),
		new(big.Int).Neg(new(big.Int).Add(new(big.Int).Lsh(big.NewInt(1), 63), big.NewInt(1))))
	return xs
}

func runC10(c *Ctx) {
	ints := c10Ints(c.Rng, 40)
	ops := []struct{ name, src string }{{"add", "$a + $b"}, {"sub", "$a - $b"}, {"mul", "$a * $b"}, {"div", "$a / $b"}, {"mod", "$a % $b"}}
	codes := map[string]*gojq.Code{}
	for _, o := range ops {
		codes[o.name] = c10Compile(o.src, "$a", "$b")
	}
	type site struct {
		name, op, src string
		code          *gojq.Code
	}
	var sites []site
	for _, st := range []struct{ name, op, src string }{
		{"add-builtin", "add", "[$a,$b]|add"}, {"add-builtin-obj", "add", "{x:$a,y:$b}|add"}, {"add1", "add", "add($a,$b)"},
		{"reduce-add", "add", "reduce ($a,$b) as $x (0; .+$x)"}, {"update-add", "add", "[$a]|.[0]+=$b|.[0]"},
		{"update-sub", "sub", "[$a]|.[0]-=$b|.[0]"}, {"update-mul", "mul", "[$a]|.[0]*=$b|.[0]"},
		{"update-div", "div", "[$a]|.[0]/=$b|.[0]"}, {"update-mod", "mod", "[$a]|.[0]%=$b|.[0]"},
		{"pipe-mul", "mul", "[$a,$b]|.[0]*.[1]"}, {"abs-reuse-add", "add", "$a+($b|abs)-($b|abs)+$b"},
		{"neg-neg-sub", "sub", "$a-(-(-$b))"}, {"foreach-mul", "mul", "last(foreach ($a,$b) as $x (1; .*$x))"},
		{"tojson-roundtrip-add", "add", "($a|tojson|fromjson)+$b"}, {"tostring-tonumber-mul", "mul", "($a|tostring|tonumber)*$b"},
	} {
		if q, err := gojq.Parse(st.src); err == nil {
			if code, err := gojq.Compile(q, gojq.WithVariables([]string{"$a", "$b"})); err == nil {
				sites = append(sites, site{st.name, st.op, st.src, code})
			}
		}
	}
	c.Stats["sites"] = len(sites)
	neg := c10Compile("-$a", "$a")
	abs := c10Compile("$a|abs", "$a")
	length := c10Compile("$a|length", "$a")
	// pairs: quick = sampled pairs; thorough = all pairs
	npairs := c.N
	total := len(ints) * len(ints)
	pick := func(i int) (int, int) {
		if npairs >= total {
			return i / len(ints), i % len(ints)
		}
		return c.Rng.Intn(len(ints)), c.Rng.Intn(len(ints))
	}
	if npairs > total {
		npairs = total
	}
	evals := 0
	// explicit pairs (search candidates "l:r") and the all-pairs core of int64 boundary values come first
	type pr struct{ a, b *big.Int }
	var pairs []pr
	for _, s := range c.Args {
		if l, r, ok := strings.Cut(s, ":"); ok {
			x, ok1 := new(big.Int).SetString(l, 10)
			y, ok2 := new(big.Int).SetString(r, 10)
			if ok1 && ok2 {
				pairs = append(pairs, pr{x, y})
			}
		}
	}
	ncore := 0
	if len(c.Args) == 0 {
		core := c10Core()
		ncore = len(core) * len(core)
		for _, a := range core {
			for _, b := range core {
				pairs = append(pairs, pr{a, b})
			}
		}
		c.Stats["core_values"] = len(core)
		for i := 0; i < npairs; i++ {
			ai, bi := pick(i)
			pairs = append(pairs, pr{ints[ai], ints[bi]})
		}
	} else {
		ints = nil
	}
	for i, p := range pairs {
		a, b := p.a, p.b
		_ = i
		for _, ra := range c10Reps(a) {
			for _, rb := range c10Reps(b) {
				for _, o := range ops {
					before := c10Snapshot(ra, rb)
					res := c10Run1(codes[o.name], nil, ra, rb)
					c.Emit("(binop %s %s %s %s)", o.name, before[0], before[1], c10Result(res))
					c.Count("binop:" + o.name)
					evals++
					if after := c10Snapshot(ra, rb); after[0] != before[0] || after[1] != before[1] {
						c.Violation("operands modified by `%s`: before %v after %v", o.src, before, after)
					}
				}
				// the same arithmetic at other code sites (every 7th pair, and all core pairs)
				if i < ncore || i%7 == 0 {
					for _, st := range sites {
						before := c10Snapshot(ra, rb)
						res := c10Run1(st.code, nil, ra, rb)
						c.Emit("(site %s %s %s %s %s)", st.name, st.op, before[0], before[1], c10Result(res))
						c.Count("site:" + st.name)
						evals++
						if after := c10Snapshot(ra, rb); after[0] != before[0] || after[1] != before[1] {
							c.Violation("operands modified by `%s`: before %v after %v", st.src, before, after)
						}
					}
				}
				c.Emit("(cmp %s %s %d)", SexpVal(ra), SexpVal(rb), gojq.Compare(ra, rb))
				c.Count("cmp")
				evals++
			}
		}
	}
	for _, a := range ints {
		for _, ra := range c10Reps(a) {
			before := c10Snapshot(ra)
			defer func() {}()
			c.Emit("(neg %s %s)", SexpVal(ra), c10Result(c10Run1(neg, nil, ra)))
			c.Emit("(abs %s %s)", SexpVal(ra), c10Result(c10Run1(abs, nil, ra)))
			c.Emit("(abs %s %s)", SexpVal(ra), c10Result(c10Run1(length, nil, ra)))
			bs, err := gojq.Marshal(ra)
			if err != nil {
				c.Violation("Marshal(%v) error %v", ra, err)
			}
			c.Emit("(enc %s %s)", SexpVal(ra), Hexs(bs))
			if after := c10Snapshot(ra); after[0] != before[0] {
				c.Violation("operand modified by neg/abs/length/Marshal: before %v after %v", before, after)
			}
			c.Count("unary")
			evals += 4
		}
	}
	c10Literals(c)
	c10LiteralsCLI(c)
	c10Floats(c)
	c.Stats["operands"] = len(ints)
	c.Stats["evaluations"] = evals
	c.Stats["pairs"] = npairs
}

var jsonNumRe = regexp.MustCompile(`^-?(0|[1-9][0-9]*)(\.[0-9]+)?([eE][+-]?[0-9]+)?$`)

// c10Literals: a number that reaches the output untouched is printed with the digits it had in the
// input (implementation-only oracle; the input is decoded as the command does: UseNumber).
func c10Literals(c *Ctx) {
	r := c.Rng
	digits := func(n int, first bool) string {
		var sb strings.Builder
		for i := 0; i < n; i++ {
			d := r.Intn(10)
			if i == 0 && first && n > 1 && d == 0 {
				d = 1 + r.Intn(9)
			}
			sb.WriteByte(byte('0' + d))
		}
		return sb.String()
	}
	progs := []struct{ src, wrapL, wrapR string }{
		{".", "", ""}, {".[0]", "[", "]"}, {".a", `{"a":`, "}"}, {"[.[]]|.[0]", "[", "]"}, {". as $x|$x", "", ""},
		{"if true then . else 0 end", "", ""}, {"[.]|first", "", ""}, {"{a:.}|.a", "", ""}, {"(., \"x\")|select(. != \"x\")", "", ""}}
	codes := make([]*gojq.Code, len(progs))
	for i, p := range progs {
		codes[i] = c10Compile(p.src)
	}
	nlit := 400
	if c.Tier == "thorough" {
		nlit = 20000
	}
	for i := 0; i < nlit; i++ {
		lit := ""
		if r.Chance(1, 2) {
			lit = "-"
		}
		lit += digits(1+r.Intn([]int{3, 18, 20, 45, 70}[r.Intn(5)]), true)
		shape := r.Intn(4)
		if shape == 1 || shape == 3 {
			lit += "." + digits(1+r.Intn(30), false)
		}
		if shape >= 2 {
			lit += []string{"e", "E"}[r.Intn(2)] + []string{"", "+", "-"}[r.Intn(3)] + digits(1+r.Intn(3), false)
		}
		if !jsonNumRe.MatchString(lit) {
			continue
		}
		for pi, p := range progs {
			dec := json.NewDecoder(strings.NewReader(p.wrapL + lit + p.wrapR))
			dec.UseNumber()
			var in any
			if err := dec.Decode(&in); err != nil {
				continue
			}
			out := c10Run1(codes[pi], in)
			if e, ok := out.(error); ok {
				c.Violation("literal %s through `%s` gave error %v", lit, p.src, e)
				continue
			}
			bs, err := gojq.Marshal(out)
			c.Count("literal")
			c.Stats["literal_evals"] = i*len(progs) + pi + 1
			if err != nil || string(bs) != lit {
				c.Violation("literal %s through `%s` printed as %s (err %v)", lit, p.src, string(bs), err)
			}
		}
	}
}

// c10Floats: computed floats print in shortest round-trip form and every emitted number is valid JSON
// (NaN as null, infinities saturated) — implementation-only oracle against strconv.
func c10Floats(c *Ctx) {
	r := c.Rng
	id := c10Compile(". + 0")
	n := 3000
	if c.Tier == "thorough" {
		n = 200000
	}
	special := []float64{0, math.Copysign(0, -1), math.NaN(), math.Inf(1), math.Inf(-1), math.MaxFloat64, -math.MaxFloat64,
		math.SmallestNonzeroFloat64, 1e-7, 1e-6, 9.999999e-7, 1e21, 9.99999999999e20, 1e-9, 1.5e-9, 1e-10, 1e22, 123456789012345680000, 0.1, 1.0 / 3}
	for i := 0; i < n; i++ {
		var f float64
		if i < len(special) {
			f = special[i]
		} else if r.Chance(1, 3) {
			f = math.Float64frombits(r.Next())
		} else {
			f = (float64(r.Intn(2000000)) - 1000000) * math.Pow(10, float64(r.Intn(60)-30))
		}
		out := c10Run1(id, f)
		if e, ok := out.(error); ok {
			c.Violation("float bits %d + 0 gave error %v", math.Float64bits(f), e)
			continue
		}
		bs, err := gojq.Marshal(out)
		c.Count("float")
		if err != nil {
			c.Violation("Marshal(%v + 0) error %v", f, err)
			continue
		}
		s := string(bs)
		switch {
		case math.IsNaN(f):
			if s != "null" {
				c.Violation("NaN printed as %s", s)
			}
			continue
		case math.IsInf(f, 1):
			f = math.MaxFloat64
		case math.IsInf(f, -1):
			f = -math.MaxFloat64
		}
		if !jsonNumRe.MatchString(s) {
			c.Violation("float bits %d printed as invalid JSON number %s", math.Float64bits(f), s)
			continue
		}
		g, err := strconv.ParseFloat(s, 64)
		if err != nil || g != f {
			c.Violation("float bits %d printed as %s which reads back as %v", math.Float64bits(f), s, g)
			continue
		}
		// shortest: same number of significant digits as strconv's shortest representation
		sig := func(t string) int {
			t = strings.TrimLeft(t, "-")
			if k := strings.IndexAny(t, "eE"); k >= 0 {
				t = t[:k]
			}
			t = strings.Replace(t, ".", "", 1)
			t = strings.Trim(t, "0")
			return len(t)
		}
		if want := sig(strconv.FormatFloat(f, 'e', -1, 64)); sig(s) != want {
			c.Violation("float bits %d printed as %s: %d significant digits, shortest round-trip form has %d", math.Float64bits(f), s, sig(s), want)
		}
	}
}

// c10LiteralsCLI: the COMMAND (its own encoder, cli/encoder.go) prints a number that reaches the output untouched
// with the digits it had in the input, whatever its length (implementation-only oracle; in-process through the
// verif hook cli.VerifRun).
func c10LiteralsCLI(c *Ctx) {
	r := c.Rng
	digits := func(n int, nonzeroFirst bool) string {
		var sb strings.Builder
		for i := 0; i < n; i++ {
			d := r.Intn(10)
			if i == 0 && nonzeroFirst && d == 0 {
				d = 1 + r.Intn(9)
			}
			sb.WriteByte(byte('0' + d))
		}
		return sb.String()
	}
	lens := []int{1, 18, 19, 20, 40, 62, 63, 64, 65, 66, 100, 127, 128, 129, 300, 1000}
	var lits []string
	for _, n := range lens {
		lits = append(lits, digits(n, true), "-"+digits(n, true))
		if n > 3 {
			k := 1 + r.Intn(n-2)
			lits = append(lits, digits(k, true)+"."+digits(n-k-1, false))
			lits = append(lits, digits(1, true)+"."+digits(n-1, false)+"e-"+digits(2, true), digits(n, true)+"E+"+digits(3, true))
		}
	}
	modes := []struct {
		args   []string
		wrapL  string
		wrapR  string
		expect func(lit string) string
	}{
		{[]string{"-c", "."}, "", "", func(l string) string { return l }},
		{[]string{"."}, "", "", func(l string) string { return l }},
		{[]string{"-c", "."}, "[", "]", func(l string) string { return "[" + l + "]" }},
		{[]string{"-c", ".[0]"}, "[", ",1]", func(l string) string { return l }},
		{[]string{"-c", "."}, `{"a":`, "}", func(l string) string { return `{"a":` + l + "}" }},
		{[]string{"--tab", "."}, "[", "]", func(l string) string { return "[\n\t" + l + "\n]" }},
		{[]string{"-r", ".a"}, `{"a":`, "}", func(l string) string { return l }},
		{[]string{"-c", "[., .]"}, "", "", func(l string) string { return "[" + l + "," + l + "]" }},
	}
	n := 0
	for _, lit := range lits {
		if !jsonNumRe.MatchString(lit) {
			continue
		}
		for _, m := range modes {
			var out, errb strings.Builder
			st := cli.VerifRun(m.args, strings.NewReader(m.wrapL+lit+m.wrapR+"\n"), &out, &errb)
			n++
			c.Count("literal-cli")
			got := strings.TrimSuffix(out.String(), "\n")
			if st != 0 || got != m.expect(lit) {
				c.Violation("command %v on input %s%s%s printed %q (status %d, stderr %q): the %d-character literal is not printed with its digits",
					m.args, m.wrapL, lit, m.wrapR, got, st, errb.String(), len(lit))
			}
		}
	}
	c.Stats["literal_cli_evals"] = n
}
