package main

import (
	"encoding/json"
	"fmt"
	"math"
	"math/big"
	"strings"
	. "verifharness/hlib"

	"github.com/itchyny/gojq"
)

func main() { Register("c10", runC10); Main() }

// boundary integers: 0, ±1, ±2^k, ±2^k±1 (k<=130), MinInt64/MaxInt64 neighbours, sqrt(2^63) neighbours,
// random 1..40-digit integers
func c10Ints(r *Rng, nrand int) []*big.Int {
	var xs []*big.Int
	add := func(x *big.Int) { xs = append(xs, new(big.Int).Set(x), new(big.Int).Neg(x)) }
	add(big.NewInt(0))
	for k := 0; k <= 130; k++ {
		p := new(big.Int).Lsh(big.NewInt(1), uint(k))
		add(p)
		add(new(big.Int).Add(p, big.NewInt(1)))
		add(new(big.Int).Sub(p, big.NewInt(1)))
	}
	for d := int64(-3); d <= 3; d++ {
		add(new(big.Int).Add(big.NewInt(math.MaxInt64), big.NewInt(d)))
		add(new(big.Int).Add(big.NewInt(3037000499), big.NewInt(d)))
		add(new(big.Int).Add(big.NewInt(2147483648), big.NewInt(d)))
		add(new(big.Int).Add(big.NewInt(4294967296), big.NewInt(d)))
	}
	for i := 0; i < nrand; i++ {
		nd := 1 + r.Intn(40)
		var sb strings.Builder
		sb.WriteByte(byte('1' + r.Intn(9)))
		for j := 1; j < nd; j++ {
			sb.WriteByte(byte('0' + r.Intn(10)))
		}
		x, _ := new(big.Int).SetString(sb.String(), 10)
		add(x)
	}
	// dedupe
	seen := map[string]bool{}
	var out []*big.Int
	for _, x := range xs {
		if !seen[x.String()] {
			seen[x.String()] = true
			out = append(out, x)
		}
	}
	return out
}

// reps returns the Go representations available for integer x: int (if fits), *big.Int, json.Number
func c10Reps(x *big.Int) []any {
	var rs []any
	if x.IsInt64() {
		rs = append(rs, int(x.Int64()))
	}
	rs = append(rs, new(big.Int).Set(x), json.Number(x.String()))
	return rs
}

func c10Result(v any) string {
	switch e := v.(type) {
	case error:
		msg := e.Error()
		switch {
		case strings.HasPrefix(msg, "cannot modulo ") && strings.Contains(msg, " by: "):
			return "zeromod"
		case strings.HasPrefix(msg, "cannot divide ") && strings.Contains(msg, " by: "):
			return "zerodiv"
		}
		return SexpVal(v)
	}
	return SexpVal(v)
}

func c10Compile(src string, vars ...string) *gojq.Code {
	q, err := gojq.Parse(src)
	if err != nil {
		panic(err)
	}
	c, err := gojq.Compile(q, gojq.WithVariables(vars))
	if err != nil {
		panic(err)
	}
	return c
}

func c10Run1(c *gojq.Code, in any, vals ...any) any {
	it := c.Run(in, vals...)
	v, ok := it.Next()
	if !ok {
		return fmt.Errorf("no output")
	}
	return v
}

// c10Core: int64 boundary values for which ALL ordered pairs are run in every tier
func c10Core() []*big.Int {
	var xs []*big.Int
	for _, v := range []int64{0, 1, -1, 2, -2, 3, -3, 10, math.MaxInt64, math.MaxInt64 - 1, math.MinInt64, math.MinInt64 + 1,
		1 << 31, -(1 << 31), 1 << 32, -(1 << 32), 1 << 62, -(1 << 62), 3037000499, 3037000500, -3037000500, 4611686018427387905} {
		xs = append(xs, big.NewInt(v))
	}
	xs = append(xs, new(big.Int).Lsh(big.NewInt(1), 63), new(big.Int).Lsh(big.NewInt(1), 64),
		new(big.Int).Neg(new(big.Int).Add(new(big.Int).Lsh(big.NewInt(1), 63), big.NewInt(1))))
	return xs
}

func runC10(c *Ctx) {
	ints := c10Ints(c.Rng, 40)
	ops := []struct{ name, src string }{{"add", "$a + $b"}, {"sub", "$a - $b"}, {"mul", "$a * $b"}, {"div", "$a / $b"}, {"mod", "$a % $b"}}
	codes := map[string]*gojq.Code{}
	for _, o := range ops {
		codes[o.name] = c10Compile(o.src, "$a", "$b")
	}
	neg := c10Compile("-$a", "$a")
	abs := c10Compile("$a|abs", "$a")
	length := c10Compile("$a|length", "$a")
	// pairs: quick = sampled pairs; thorough = all pairs
	npairs := c.N
	total := len(ints) * len(ints)
	pick := func(i int) (int, int) {
		if npairs >= total {
			return i / len(ints), i % len(ints)
		}
		return c.Rng.Intn(len(ints)), c.Rng.Intn(len(ints))
	}
	if npairs > total {
		npairs = total
	}
	evals := 0
	// explicit pairs (search candidates "l:r") and the all-pairs core of int64 boundary values come first
	type pr struct{ a, b *big.Int }
	var pairs []pr
	for _, s := range c.Args {
		if l, r, ok := strings.Cut(s, ":"); ok {
			x, ok1 := new(big.Int).SetString(l, 10)
			y, ok2 := new(big.Int).SetString(r, 10)
			if ok1 && ok2 {
				pairs = append(pairs, pr{x, y})
			}
		}
	}
	if len(c.Args) == 0 {
		core := c10Core()
		for _, a := range core {
			for _, b := range core {
				pairs = append(pairs, pr{a, b})
			}
		}
		c.Stats["core_values"] = len(core)
		for i := 0; i < npairs; i++ {
			ai, bi := pick(i)
			pairs = append(pairs, pr{ints[ai], ints[bi]})
		}
	} else {
		ints = nil
	}
	for i, p := range pairs {
		a, b := p.a, p.b
		_ = i
		for _, ra := range c10Reps(a) {
			for _, rb := range c10Reps(b) {
				for _, o := range ops {
					res := c10Run1(codes[o.name], nil, ra, rb)
					c.Emit("(binop %s %s %s %s)", o.name, SexpVal(ra), SexpVal(rb), c10Result(res))
					c.Count("binop:" + o.name)
					evals++
				}
				c.Emit("(cmp %s %s %d)", SexpVal(ra), SexpVal(rb), gojq.Compare(ra, rb))
				c.Count("cmp")
				evals++
			}
		}
	}
	for _, a := range ints {
		for _, ra := range c10Reps(a) {
			c.Emit("(neg %s %s)", SexpVal(ra), c10Result(c10Run1(neg, nil, ra)))
			c.Emit("(abs %s %s)", SexpVal(ra), c10Result(c10Run1(abs, nil, ra)))
			c.Emit("(abs %s %s)", SexpVal(ra), c10Result(c10Run1(length, nil, ra)))
			bs, err := gojq.Marshal(ra)
			if err != nil {
				c.Violation("Marshal(%v) error %v", ra, err)
			}
			c.Emit("(enc %s %s)", SexpVal(ra), Hexs(bs))
			c.Count("unary")
			evals += 4
		}
	}
	c.Stats["operands"] = len(ints)
	c.Stats["evaluations"] = evals
	c.Stats["pairs"] = npairs
}
