package main

import . "verifharness/hlib"

func runNat(c *Ctx) {}
