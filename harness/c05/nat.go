package main

// Stream "nat": container-building natives called through the public API on arguments made of known
// backing arrays and maps (with sharing between arguments, hidden capacity and overlapping slices).
// For every call the line records the argument heap, the result with its SHARING SIGNATURE (which
// result container is (part of) which argument container, found by pointer) and the argument heap
// after the call.  The extracted heap model (coq/c05/Run.v) judges each line.

import (
	"fmt"
	"reflect"
	"sort"
	"strings"
	"unsafe"

	"verifharness/c56"
	. "verifharness/hlib"
)

type natHeap struct {
	cells []any // []any (len == cap == size) or map[string]any
	desc  []string
}

const wordsPerAny = unsafe.Sizeof(any(nil))

// ref of a Go container relative to the heap: "(r k off len)" / "(m k)" or "" when fresh
func (h *natHeap) ref(v any) string {
	switch v := v.(type) {
	case []any:
		if len(v) == 0 {
			return "(na)"
		}
		p := reflect.ValueOf(v).Pointer()
		for k, c := range h.cells {
			if b, ok := c.([]any); ok && len(b) > 0 {
				base := reflect.ValueOf(b).Pointer()
				if p >= base && p < base+uintptr(len(b))*wordsPerAny {
					return fmt.Sprintf("(r %d %d %d)", k, (p-base)/wordsPerAny, len(v))
				}
			}
		}
	case map[string]any:
		p := reflect.ValueOf(v).Pointer()
		for k, c := range h.cells {
			if m, ok := c.(map[string]any); ok && reflect.ValueOf(m).Pointer() == p {
				return fmt.Sprintf("(m %d)", k)
			}
		}
	}
	return ""
}

func (h *natHeap) val(v any, depth int) string {
	if depth > 40 {
		return "toodeep"
	}
	switch v := v.(type) {
	case nil:
		return "null"
	case bool:
		if v {
			return "true"
		}
		return "false"
	case int:
		return fmt.Sprintf("(i %d)", v)
	case string:
		return "(s " + Hexs([]byte(v)) + ")"
	case []any:
		if r := h.ref(v); r != "" {
			return r
		}
		var b strings.Builder
		b.WriteString("(na")
		for _, x := range v {
			b.WriteByte(' ')
			b.WriteString(h.val(x, depth+1))
		}
		b.WriteByte(')')
		return b.String()
	case map[string]any:
		if r := h.ref(v); r != "" {
			return r
		}
		ks := make([]string, 0, len(v))
		for k := range v {
			ks = append(ks, k)
		}
		sort.Strings(ks)
		var b strings.Builder
		b.WriteString("(no")
		for _, k := range ks {
			b.WriteString(" (" + Hexs([]byte(k)) + " " + h.val(v[k], depth+1) + ")")
		}
		b.WriteByte(')')
		return b.String()
	case error:
		return "err"
	}
	return fmt.Sprintf("(unknown %T)", v)
}

func (h *natHeap) cellsText() string {
	var b strings.Builder
	for k, c := range h.cells {
		if k > 0 {
			b.WriteByte(' ')
		}
		switch c := c.(type) {
		case []any:
			b.WriteString("(arr")
			for _, x := range c {
				b.WriteByte(' ')
				b.WriteString(h.val(x, 0))
			}
			b.WriteByte(')')
		case map[string]any:
			ks := make([]string, 0, len(c))
			for k := range c {
				ks = append(ks, k)
			}
			sort.Strings(ks)
			b.WriteString("(map")
			for _, k := range ks {
				b.WriteString(" (" + Hexs([]byte(k)) + " " + h.val(c[k], 0) + ")")
			}
			b.WriteByte(')')
		}
	}
	return b.String()
}

var natKeys = []string{"a", "b", "c", "ab", ""}

// genHeap builds ncell cells; a value placed in cell k only refers to cells < k.
func genHeap(r *Rng, ncell int, kind string) *natHeap {
	h := &natHeap{}
	for k := 0; k < ncell; k++ {
		wantArr := r.Chance(3, 5)
		if kind == "objects" {
			wantArr = r.Chance(1, 5)
		} else if kind == "arrays" {
			wantArr = r.Chance(9, 10)
		}
		if wantArr {
			n := r.Intn(6)
			b := make([]any, n)
			for i := range b {
				b[i] = h.genVal(r, k, kind)
			}
			h.cells = append(h.cells, b)
		} else {
			n := r.Intn(4)
			m := make(map[string]any, n)
			for i := 0; i < n; i++ {
				m[natKeys[r.Intn(len(natKeys))]] = h.genVal(r, k, kind)
			}
			h.cells = append(h.cells, m)
		}
	}
	return h
}

func (h *natHeap) genScalar(r *Rng) any {
	switch r.Intn(7) {
	case 0:
		return nil
	case 1:
		return r.Chance(1, 2)
	case 2, 3:
		return r.Intn(7) - 2
	default:
		return []string{"a", "b", "ab", "", "ba"}[r.Intn(5)]
	}
}

// genRef: a reference to one of the cells below k: a slice window of a backing array, or a map
func (h *natHeap) genRef(r *Rng, k int, wantArr, wantObj bool) (any, bool) {
	if k == 0 {
		return nil, false
	}
	for try := 0; try < 6; try++ {
		j := r.Intn(k)
		switch c := h.cells[j].(type) {
		case []any:
			if !wantArr {
				continue
			}
			if len(c) == 0 {
				return c[0:0], true
			}
			off := r.Intn(len(c) + 1)
			if r.Chance(1, 2) {
				off = 0
			}
			l := r.Intn(len(c) - off + 1)
			if r.Chance(1, 3) {
				l = len(c) - off
			}
			return c[off : off+l], true
		case map[string]any:
			if !wantObj {
				continue
			}
			return c, true
		}
	}
	return nil, false
}

func (h *natHeap) genVal(r *Rng, k int, kind string) any {
	if r.Chance(1, 2) {
		if v, ok := h.genRef(r, k, true, true); ok {
			return v
		}
	}
	if kind == "numbers" {
		return r.Intn(7) - 2
	}
	if kind == "strings" {
		return []string{"a", "b", "ab", "", "ba"}[r.Intn(5)]
	}
	return h.genScalar(r)
}

func (h *natHeap) genArg(r *Rng, arr, obj, scalarChance int) any {
	k := len(h.cells)
	if !r.Chance(scalarChance, 100) {
		if v, ok := h.genRef(r, k, arr > 0, obj > 0); ok {
			return v
		}
	}
	return h.genScalar(r)
}

type natCase struct {
	name    string
	program string
	nargs   int
}

var natCases = []natCase{
	{"add", `$a | add`, 1}, {"sort", `$a | sort`, 1}, {"unique", `$a | unique`, 1}, {"reverse", `$a | reverse`, 1},
	{"flatten", `$a | flatten`, 1}, {"transpose", `$a | transpose`, 1}, {"construct", `[$a[]]`, 1},
	{"min", `$a | min`, 1}, {"max", `$a | max`, 1},
	{"opadd", `$a + $b`, 2}, {"opmul", `$a * $b`, 2}, {"sort_by", `$a | _sort_by($b)`, 2}, {"group_by", `$a | _group_by($b)`, 2},
	{"unique_by", `$a | _unique_by($b)`, 2}, {"min_by", `$a | _min_by($b)`, 2}, {"max_by", `$a | _max_by($b)`, 2},
	{"flatten", `$a | flatten($b)`, 2}, {"object", `{a: $a, b: $b}`, 2}, {"object_dup", `{a: $a, a: $b}`, 2},
	{"slice", `$a | .[$c:$b]`, 3}, // args (a, e, s)
	{"delpaths", `$a | delpaths($b)`, -1},
}

func runNat(c *Ctx) {
	codes := map[string]*c56.Compiled{}
	for _, nc := range natCases {
		cc, err := c56.Compile(nc.program, []string{"$a", "$b", "$c"})
		if err != nil {
			panic(nc.program + ": " + err.Error())
		}
		codes[nc.program] = cc
	}
	for i := 0; i < c.N; i++ {
		nc := natCases[c.Rng.Intn(len(natCases))]
		r := c.Rng
		kind := []string{"mixed", "mixed", "arrays", "objects", "numbers", "strings"}[r.Intn(6)]
		if nc.name == "opmul" {
			kind = "objects"
		}
		h := genHeap(r, 1+r.Intn(6), kind)
		var args []any    // Go values passed as $a $b $c
		var argTexts []string
		push := func(v any) {
			args = append(args, v)
			argTexts = append(argTexts, h.val(v, 0))
		}
		switch nc.name {
		case "slice":
			a := h.genArg(r, 1, 1, 10)
			if _, isStr := a.(string); isStr {
				a = 7 // string slicing is not a container matter (C14)
			}
			push(a)
			bound := func() any {
				switch r.Intn(6) {
				case 0:
					return nil
				case 1:
					return "x"
				default:
					return r.Intn(9) - 3
				}
			}
			push(bound()) // e
			push(bound()) // s
		case "flatten":
			push(h.genArg(r, 1, 1, 10))
			if nc.nargs == 2 {
				push(r.Intn(4) - 1)
			}
		case "delpaths":
			push(h.genArg(r, 1, 1, 5))
			np := r.Intn(4)
			paths := make([]any, np)
			for k := range paths {
				var step any
				switch r.Intn(8) {
				case 0:
					step = nil
				case 1, 2, 3:
					step = r.Intn(8) - 3
				default:
					step = natKeys[r.Intn(len(natKeys))]
				}
				paths[k] = []any{step}
				argTexts = append(argTexts, "(p "+h.val(step, 0)+")")
			}
			args = append(args, paths)
		case "opmul":
			push(h.genArg(r, 1, 1, 0))
			push(h.genArg(r, 1, 1, 0))
		case "sort_by", "group_by", "unique_by", "min_by", "max_by":
			a := h.genArg(r, 1, 0, 5)
			push(a)
			// a key array of the same length most of the time
			if av, ok := a.([]any); ok && r.Chance(4, 5) {
				var found any
				for _, cell := range h.cells {
					if b, ok := cell.([]any); ok && len(b) >= len(av) && r.Chance(2, 3) {
						off := r.Intn(len(b) - len(av) + 1)
						found = b[off : off+len(av)]
						break
					}
				}
				if found == nil {
					found = av
				}
				push(found)
			} else {
				push(h.genArg(r, 1, 1, 10))
			}
		default:
			for k := 0; k < nc.nargs; k++ {
				push(h.genArg(r, 1, 1, 8))
			}
		}
		for len(args) < 3 {
			args = append(args, nil)
		}
		// slice: the program reads $c as start and $b as end, so the arguments are (a, e, s) as in funcSlice
		pre := h.cellsText()
		cc := codes[nc.program]
		it := cc.Code.Run(nil, args...)
		v, ok := it.Next()
		res := "err"
		if ok {
			res = h.val(v, 0)
		} else {
			res = "(noresult)"
		}
		post := h.cellsText()
		c.Count("native:" + nc.name)
		if res == "err" {
			c.Count("result:err")
		} else {
			c.Count("result:value")
		}
		c.Emit("(nat %s (heap %s) (args %s) %s (post %s))", nc.name, pre, strings.Join(argTexts, " "), res, post)
	}
}
