// C05 observer: histories of runs of one *Code (implementation-only oracle) and the sharing
// signatures of container-building natives (judged by the extracted heap model, stream "nat").
package main

import (
	"context"
	"crypto/sha1"
	"encoding/hex"
	"fmt"
	"os"
	"regexp"
	"strconv"
	"strings"
	"time"

	"github.com/itchyny/gojq"

	"verifharness/c56"
	. "verifharness/hlib"
)

func main() {
	Register("hist", runHist)
	Register("nat", runNat)
	Main()
}

const maxOut = 200
const maxErr = 12

var slowLimit = 150 * time.Millisecond

type emitted struct {
	val  any
	snap string
}

// collect runs c on in with a deadline; returns emitted values, whether it timed out / was truncated.
func collect(cc *c56.Compiled, in any, vars []any, check func(sofar []emitted) string) (vals []emitted, status string, viol string) {
	ctx, cancel := context.WithTimeout(context.Background(), 3*time.Second)
	defer cancel()
	it := cc.Code.RunWithContext(ctx, in, vars...)
	nerr := 0
	for {
		v, ok := it.Next()
		if !ok {
			return vals, "done", viol
		}
		if err, isErr := v.(error); isErr && (err == context.DeadlineExceeded || err == context.Canceled) {
			return vals, "timeout", viol
		}
		vals = append(vals, emitted{v, c56.Snap(v)})
		if check != nil && viol == "" && len(vals) <= 24 {
			viol = check(vals[:len(vals)-1])
		}
		if _, isErr := v.(error); isErr {
			nerr++
			if nerr >= maxErr { // an iterator may be advanced after an error; bounded
				return vals, "truncated", viol
			}
		}
		if len(vals) >= maxOut {
			return vals, "truncated", viol
		}
	}
}

// step advances one iterator once; it reports done, and a timeout separately
func step(it gojq.Iter, acc *[]emitted, nerr *int) (done, timeout bool) {
	w, ok := it.Next()
	if !ok {
		return true, false
	}
	if err, isErr := w.(error); isErr && (err == context.DeadlineExceeded || err == context.Canceled) {
		return true, true
	}
	*acc = append(*acc, emitted{w, c56.Snap(w)})
	if _, isErr := w.(error); isErr {
		*nerr++
		if *nerr >= maxErr {
			return true, false
		}
	}
	return len(*acc) >= maxOut, false
}

// interleave advances two iterators of ONE Code alternately on this goroutine, following [pattern]
// cyclically: 'A' / 'B' one step, 'a' / 'b' to exhaustion, '!' A until its first error (or 3 steps).
// Each must yield exactly what it yields alone (consumed the same way, errors included).
func interleave(cc *c56.Compiled, inA, inB any, vars []any, pattern string) (ra, rb []emitted, status string, panicked string) {
	defer func() {
		if r := recover(); r != nil {
			panicked = fmt.Sprint(r)
		}
	}()
	ctx, cancel := context.WithTimeout(context.Background(), 3*time.Second)
	defer cancel()
	// B is STARTED at its first step (not up front): a run that starts after A yielded an error must not be
	// handed anything A still uses
	itA := cc.Code.RunWithContext(ctx, inA, vars...)
	var itB gojq.Iter
	doneA, doneB, ea, eb := false, false, 0, 0
	stepA := func() bool {
		if doneA {
			return false
		}
		d, to := step(itA, &ra, &ea)
		doneA = d
		return to
	}
	stepB := func() bool {
		if doneB {
			return false
		}
		if itB == nil {
			itB = cc.Code.RunWithContext(ctx, inB, vars...)
		}
		d, to := step(itB, &rb, &eb)
		doneB = d
		return to
	}
	for round := 0; !(doneA && doneB) && round < 4*maxOut; round++ {
		for _, ch := range pattern {
			to := false
			switch ch {
			case 'A':
				to = stepA()
			case 'B':
				to = stepB()
			case 'a':
				for !doneA && !to {
					to = stepA()
				}
			case 'b':
				for !doneB && !to {
					to = stepB()
				}
			case '!':
				for k := 0; k < 3 && !doneA && !to && ea == 0; k++ {
					to = stepA()
				}
			}
			if to {
				return ra, rb, "timeout", ""
			}
		}
	}
	return ra, rb, "done", ""
}

// cancelled: A's context is cancelled after k steps while B goes on; A must have yielded a prefix of what
// it yields alone, then the context error, then nothing; B must yield what it yields alone
func cancelled(cc *c56.Compiled, inA, inB any, vars []any, k int) (ra, rb, started []emitted, tail []string, status string, panicked string) {
	defer func() {
		if r := recover(); r != nil {
			panicked = fmt.Sprint(r)
		}
	}()
	ctxA, cancelA := context.WithCancel(context.Background())
	defer cancelA()
	ctxB, cancelB := context.WithTimeout(context.Background(), 3*time.Second)
	defer cancelB()
	itA := cc.Code.RunWithContext(ctxA, inA, vars...)
	itB := cc.Code.RunWithContext(ctxB, inB, vars...)
	doneA, doneB, ea, eb := false, false, 0, 0
	for i := 0; i < k && !doneA; i++ {
		doneA, _ = step(itA, &ra, &ea)
		if !doneB {
			var to bool
			doneB, to = step(itB, &rb, &eb)
			if to {
				return ra, rb, nil, nil, "timeout", ""
			}
		}
	}
	cancelA()
	itA.Next() // the context error (or the end); then a run STARTED after the cancellation must be undisturbed
	itC := cc.Code.RunWithContext(ctxB, inB, vars...)
	var rc []emitted
	ec := 0
	for d := false; !d; {
		var to bool
		d, to = step(itC, &rc, &ec)
		if to {
			return ra, rb, nil, nil, "timeout", ""
		}
	}
	started = rc
	for i := 0; i < 3; i++ { // A after cancellation, B in between
		w, ok := itA.Next()
		switch {
		case !ok:
			tail = append(tail, "end")
		case w == context.Canceled:
			tail = append(tail, "canceled")
		default:
			tail = append(tail, "value:"+c56.Snap(w))
		}
		if !doneB {
			var to bool
			doneB, to = step(itB, &rb, &eb)
			if to {
				return ra, rb, started, tail, "timeout", ""
			}
		}
	}
	for !doneB {
		var to bool
		doneB, to = step(itB, &rb, &eb)
		if to {
			return ra, rb, started, tail, "timeout", ""
		}
	}
	return ra, rb, started, tail, "done", ""
}

var errTextFamily = regexp.MustCompile(`^(getpath|setpath|delpaths)\(.*\) cannot be applied to`)

// recheck compares every emitted value with its snapshot at emission.  One narrow family is tagged "errtext:":
// the emitted value is an ERROR of getpath/setpath/delpaths whose message previews the container it was
// applied to and renders it lazily; that container is the accumulator of an update reduction (owned by its
// allocator) and keeps being updated in place when the iterator is advanced after the error, so the TEXT of the
// error drifts although no JSON value the run emitted (and nothing of the caller's) changes.
func recheck(what string, vals []emitted) string {
	for i, e := range vals {
		if s := c56.Snap(e.val); s != e.snap {
			if err, isErr := e.val.(error); isErr && strings.HasPrefix(e.snap, "(err ") && errTextFamily.MatchString(err.Error()) {
				if _, isVal := err.(gojq.ValueError); !isVal {
					return fmt.Sprintf("errtext: %s: output #%d is an error of getpath/setpath/delpaths whose message changed after emission: was %s now %s",
						what, i, clip(hexMsg(e.snap)), clip(err.Error()))
				}
			}
			return fmt.Sprintf("%s: output #%d changed after emission: was %s now %s", what, i, clip(e.snap), clip(s))
		}
	}
	return ""
}

func hexMsg(snap string) string {
	h := strings.TrimSuffix(strings.TrimPrefix(snap, "(err "), ")")
	if b, err := hex.DecodeString(h); err == nil {
		return string(b)
	}
	return snap
}

func clip(s string) string {
	if len(s) > 300 {
		return s[:300] + "..."
	}
	return s
}

// snapRoots renders memory the run must not write: by value INCLUDING the hidden capacity of arrays
func snapRoots(roots []any) string {
	var b strings.Builder
	for _, r := range roots {
		b.WriteString(c56.SnapCap(r))
		b.WriteByte('|')
	}
	return b.String()
}

func snapsOf(vals []emitted) []string {
	out := make([]string, len(vals))
	for i, e := range vals {
		out[i] = e.snap
	}
	return out
}
func bytesOf(vals []emitted) []string {
	out := make([]string, len(vals))
	for i, e := range vals {
		out[i] = c56.Bytes(e.val)
	}
	return out
}

func same(what string, a, b []string) string {
	if i := c56.FirstDiff(a, b); i >= 0 {
		x, y := "<end>", "<end>"
		if i < len(a) {
			x = a[i]
		}
		if i < len(b) {
			y = b[i]
		}
		return fmt.Sprintf("%s: output #%d differs: %s vs %s", what, i, clip(x), clip(y))
	}
	return ""
}

// history runs the history of one job in one aliasing mode; returns "" or the first broken invariant.
func history(c *Ctx, j c56.Job, mode int) (viol string, digest string, skipped string) {
	cc, err := c56.Compile(j.Program, []string{"$v"})
	if err != nil {
		return "", "", "compile"
	}
	dec := func(text string) any {
		v, err := c56.Decode(text)
		if err != nil {
			return nil
		}
		return v
	}
	varText := "null"
	if len(j.Vars) > 0 {
		varText = j.Vars[0]
	}
	in := c56.Alias(dec(j.Input), mode)
	va := c56.Alias(dec(varText), mode)
	vars := []any{va.Value}
	sIn, sVar := snapRoots(in.Roots), snapRoots(va.Roots)
	consts := gojq.VerifCodeConstants(cc.Code)
	sConst := snapRoots(consts)
	untouched := func(when string) string {
		if s := snapRoots(in.Roots); s != sIn {
			return when + ": the input (or caller memory sharing its backing arrays) was modified: was " + clip(sIn) + " now " + clip(s)
		}
		if s := snapRoots(va.Roots); s != sVar {
			return when + ": a variable value was modified: was " + clip(sVar) + " now " + clip(s)
		}
		if s := snapRoots(consts); s != sConst {
			return when + ": a constant embedded in the code was modified: was " + clip(sConst) + " now " + clip(s)
		}
		return ""
	}
	// run 1: every emitted value stays unchanged while the iterator advances and after it finished
	t0 := time.Now()
	r1, st1, v := collect(cc, in.Value, vars, func(sofar []emitted) string { return recheck("run 1 advancing", sofar) })
	if st1 == "timeout" {
		return "", "", "timeout"
	}
	if v == "" && time.Since(t0) > slowLimit {
		return "", "", "slow"
	}
	if v != "" {
		return v, "", ""
	}
	if v = recheck("run 1 finished", r1); v != "" {
		return v, "", ""
	}
	// reference program (defining reduction written in jq): same outputs on the same input
	if j.Ref != "" {
		cr, err := c56.Compile(j.Ref, []string{"$v"})
		if err != nil {
			return "the reference program does not compile: " + err.Error(), "", ""
		}
		rr, str, _ := collect(cr, dec(j.Input), []any{dec(varText)}, nil)
		if str == "timeout" {
			return "", "", "timeout"
		}
		if v = same("program vs its defining reduction "+j.Ref, snapsOf(rr), snapsOf(r1)); v != "" {
			return v, "", ""
		}
	}
	if v = untouched("after run 1"); v != "" {
		return v, "", ""
	}
	b1 := bytesOf(r1)
	h := sha1.New()
	for _, s := range b1 {
		h.Write([]byte(s))
		h.Write([]byte{0})
	}
	digest = strconv.Itoa(len(r1)) + " " + hex.EncodeToString(h.Sum(nil))[:16]
	// run 2: same input object again
	r2, st2, _ := collect(cc, in.Value, vars, nil)
	if st2 == "timeout" {
		return "", digest, "timeout"
	}
	if v = same("run 2 (same input object) vs run 1", snapsOf(r1), snapsOf(r2)); v != "" {
		return v, digest, ""
	}
	if v = same("run 2 serialisation vs run 1", b1, bytesOf(r2)); v != "" {
		return v, digest, ""
	}
	if v = recheck("after run 2", r1); v != "" {
		return v, digest, ""
	}
	if v = untouched("after run 2"); v != "" {
		return v, digest, ""
	}
	// run 3: equal fresh copy without aliasing
	r3, st3, _ := collect(cc, dec(j.Input), []any{dec(varText)}, nil)
	if st3 == "timeout" {
		return "", digest, "timeout"
	}
	if v = same("run 3 (equal fresh copy) vs run 1", snapsOf(r1), snapsOf(r3)); v != "" {
		return v, digest, ""
	}
	if v = same("run 3 serialisation vs run 1", b1, bytesOf(r3)); v != "" {
		return v, digest, ""
	}
	// runs interleaved with another input: two live iterators of the same Code stepped alternately
	otherText := j.Other
	if otherText == "" {
		otherText = c56.Inputs[(len(j.Program)+mode)%len(c56.Inputs)]
	}
	other := c56.Alias(dec(otherText), mode)
	// B alone on this (warm) Code, consumed the same way
	rbs, stbs, _ := collect(cc, other.Value, vars, nil)
	if stbs == "timeout" {
		return "", digest, "timeout"
	}
	patterns := [][]string{{"BBA", "AB", "AABB", "bA", "!bA", "ABB"}, {"AB", "!bA"}, {"BBA", "AABB"}}[mode%3]
	for _, pat := range patterns {
		ra, rb, sti, pan := interleave(cc, in.Value, other.Value, vars, pat)
		if pan != "" {
			return "two iterators of one Code advanced alternately (pattern " + pat + "): panic: " + pan, digest, ""
		}
		if sti == "timeout" {
			return "", digest, "timeout"
		}
		if v = same("iterator A advanced alternately with iterator B (pattern "+pat+") vs A alone", snapsOf(r1), snapsOf(ra)); v != "" {
			return v, digest, ""
		}
		if v = same("iterator B advanced alternately with iterator A (pattern "+pat+") vs B alone", snapsOf(rbs), snapsOf(rb)); v != "" {
			return v, digest, ""
		}
	}
	// the same with A's context cancelled mid-run
	{
		k := len(r1) / 2
		ra, rb, rcs, tail, stc, pan := cancelled(cc, in.Value, other.Value, vars, k)
		if pan != "" {
			return "iterator A cancelled mid-run while iterator B goes on: panic: " + pan, digest, ""
		}
		if stc == "timeout" {
			return "", digest, "timeout"
		}
		if len(ra) > len(r1) || c56.FirstDiff(snapsOf(r1)[:len(ra)], snapsOf(ra)) >= 0 {
			return "iterator A before its cancellation is not a prefix of A alone: " + clip(strings.Join(snapsOf(ra), " ")), digest, ""
		}
		if v = same("a run started after iterator A was cancelled vs B alone", snapsOf(rbs), snapsOf(rcs)); v != "" {
			return v, digest, ""
		}
		if k < len(r1) && !(len(tail) == 3 && tail[0] == "end" && tail[1] == "end" && tail[2] == "end") {
			return "iterator A after cancellation yields " + clip(strings.Join(tail, ", ")) + " (expected the context error, then the end)", digest, ""
		}
		if v = same("iterator B while iterator A is cancelled mid-run vs B alone", snapsOf(rbs), snapsOf(rb)); v != "" {
			return v, digest, ""
		}
	}
	if v = recheck("after interleaved runs", r1); v != "" {
		return v, digest, ""
	}
	// run 4: same input object after all of the above; and everything emitted so far is still intact
	r4, st4, _ := collect(cc, in.Value, vars, nil)
	if st4 == "timeout" {
		return "", digest, "timeout"
	}
	if v = same("run 4 (after runs on other inputs) vs run 1", snapsOf(r1), snapsOf(r4)); v != "" {
		return v, digest, ""
	}
	if v = same("run 4 serialisation vs run 1", b1, bytesOf(r4)); v != "" {
		return v, digest, ""
	}
	// cold vs warm: what a Code yields on an input must not depend on what the Code ran before.
	// run B on the warm Code (after all the runs on A), then A again; each is compared with a FRESH Code.
	rbw, stb, _ := collect(cc, other.Value, vars, nil)
	r5, st5, _ := collect(cc, in.Value, vars, nil)
	if stb == "timeout" || st5 == "timeout" {
		return "", digest, "timeout"
	}
	if v = same("run on A after a run on B (A, B, A' on one Code) vs run 1", snapsOf(r1), snapsOf(r5)); v != "" {
		return v, digest, ""
	}
	for _, fresh := range []struct {
		what string
		text string
		warm []emitted
	}{{"input A", j.Input, r5}, {"input B", otherText, rbw}} {
		cf, err := c56.Compile(j.Program, []string{"$v"})
		if err != nil {
			return "compile of the same program failed the second time: " + err.Error(), digest, ""
		}
		rc, stc, _ := collect(cf, dec(fresh.text), []any{dec(varText)}, nil)
		if stc == "timeout" {
			return "", digest, "timeout"
		}
		if v = same("warm Code (has run other inputs) vs FRESH Code on "+fresh.what, snapsOf(rc), snapsOf(fresh.warm)); v != "" {
			return v, digest, ""
		}
		if v = same("warm Code vs FRESH Code serialisation on "+fresh.what, bytesOf(rc), bytesOf(fresh.warm)); v != "" {
			return v, digest, ""
		}
	}
	for _, rs := range [][]emitted{r1, r2, r3, rbs, r4, r5} {
		if v = recheck("at the end of the history", rs); v != "" {
			return v, digest, ""
		}
	}
	if v = untouched("at the end of the history"); v != "" {
		return v, digest, ""
	}
	return "", digest, ""
}

// runHist: args: jobs=<file> (corpus jobs appended to generated ones), start=<k>, replay=<case text>
func runHist(c *Ctx) {
	var jobs []c56.Job
	start, shard, nshard := 0, 0, 1
	modes := []int{0, 1, 2}
	for _, a := range c.Args {
		if p, ok := strings.CutPrefix(a, "jobs="); ok {
			js, err := c56.LoadJobs(p)
			if err != nil {
				fmt.Fprintln(os.Stderr, "cannot load jobs:", err)
				os.Exit(2)
			}
			jobs = append(jobs, js...)
		} else if s, ok := strings.CutPrefix(a, "start="); ok {
			start, _ = strconv.Atoi(s)
		} else if s, ok := strings.CutPrefix(a, "shard="); ok {
			fmt.Sscanf(s, "%d/%d", &shard, &nshard)
		} else if s, ok := strings.CutPrefix(a, "replay="); ok {
			_, extra, j, ok := c56.ParseCase(s)
			if !ok {
				fmt.Fprintln(os.Stderr, "cannot parse case")
				os.Exit(2)
			}
			m, _ := strconv.Atoi(strings.TrimPrefix(extra, "alias="))
			modes = []int{m}
			jobs = []c56.Job{j}
			c.N = -1
		}
	}
	probeInputs := 2
	if c.Tier == "thorough" {
		probeInputs = len(c56.Inputs)
		slowLimit = 1500 * time.Millisecond
	}
	if c.N >= 0 {
		jobs = append(c56.GenJobs(c.Rng, c.N, probeInputs), jobs...)
	}
	for i := start; i < len(jobs); i++ {
		if i%nshard != shard {
			continue
		}
		j := jobs[i]
		say("B %d", i)
		say("J %d\t%s", i, c56.CaseText("c05", j, "alias=%d"))
		tj := time.Now()
		for _, mode := range modes {
			if j.Origin == "corpus" && mode == 1 {
				continue
			}
			viol, digest, skipped := history(c, j, mode)
			c.Count("origin:" + j.Origin)
			if skipped != "" {
				say("S %d %s", i, skipped)
				c.Count("skipped:" + skipped)
				if skipped != "" {
					break
				}
				continue
			}
			if digest == "" {
				digest = "0 -"
			}
			say("H %d %d %s %s", i, mode, j.Origin, digest)
			if d := time.Since(tj); d > 300*time.Millisecond && mode == 2 {
				say("T %d %d %s", i, d.Milliseconds(), strings.ReplaceAll(j.Program, "\n", " "))
			}
			if viol != "" {
				say("V %s\t%s", c56.CaseText("c05", j, "alias="+strconv.Itoa(mode)), strings.ReplaceAll(viol, "\n", " "))
			}
		}
	}
	say("E")
}


// say writes one protocol record to stdout immediately (a later crash must not lose it).
func say(format string, a ...any) {
	os.Stdout.WriteString(fmt.Sprintf(format, a...) + "\n")
}
