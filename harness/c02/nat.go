package main

import (
	"encoding/json"
	"fmt"
	"math"
	"math/big"
	"sort"
	"strconv"
	"strings"

	. "verifharness/hlib"

	"github.com/itchyny/gojq"
)

// ------------------------------------------------------------------------------------------------
// transport

const dumpDepth = 60

// dump renders a value for the models: markers as "empty", anything nested deeper than dumpDepth as a
// whole "cyc" (the caller checks tooDeep first and replaces the whole dump)
func dump(v any) string {
	if !within(v, 0, dumpDepth) {
		return "cyc"
	}
	var sb strings.Builder
	dumpTo(&sb, v)
	return sb.String()
}

// dumpFull renders a value with every slice extended to its CAPACITY (v[:cap(v)], recursively): the cells a
// later in-place growth would expose are part of what the model has to agree on
func dumpFull(v any) string {
	if !withinFull(v, 0, dumpDepth) {
		return "cyc"
	}
	var sb strings.Builder
	dumpToF(&sb, v, true)
	return sb.String()
}

func withinFull(v any, d, max int) bool {
	if d > max {
		return false
	}
	switch v := v.(type) {
	case []any:
		for _, x := range v[:cap(v)] {
			if !withinFull(x, d+1, max) {
				return false
			}
		}
	case map[string]any:
		for _, x := range v {
			if !withinFull(x, d+1, max) {
				return false
			}
		}
	}
	return true
}

func within(v any, d, max int) bool {
	if d > max {
		return false
	}
	switch v := v.(type) {
	case []any:
		for _, x := range v {
			if !within(x, d+1, max) {
				return false
			}
		}
	case map[string]any:
		for _, x := range v {
			if !within(x, d+1, max) {
				return false
			}
		}
	}
	return true
}

func dumpTo(sb *strings.Builder, v any) { dumpToF(sb, v, false) }

func dumpToF(sb *strings.Builder, v any, full bool) {
	switch v := v.(type) {
	case nil:
		sb.WriteString("null")
	case bool:
		if v {
			sb.WriteString("true")
		} else {
			sb.WriteString("false")
		}
	case int:
		fmt.Fprintf(sb, "(i %d)", v)
	case string:
		sb.WriteString("(s " + Hexs([]byte(v)) + ")")
	case []any:
		sb.WriteString("(a")
		if full {
			v = v[:cap(v)]
		}
		for _, x := range v {
			sb.WriteByte(' ')
			dumpToF(sb, x, full)
		}
		sb.WriteByte(')')
	case map[string]any:
		keys := make([]string, 0, len(v))
		for k := range v {
			keys = append(keys, k)
		}
		sort.Strings(keys)
		sb.WriteString("(o")
		for _, k := range keys {
			sb.WriteString(" (" + Hexs([]byte(k)) + " ")
			dumpToF(sb, v[k], full)
			sb.WriteByte(')')
		}
		sb.WriteByte(')')
	default:
		if gojq.VerifIsDelMarker(v) {
			sb.WriteString("empty")
			return
		}
		fmt.Fprintf(sb, "(unknown %s)", Hexs([]byte(fmt.Sprintf("%T", v))))
	}
}

// path components: string, int, slice {start,end}, or a bad component
type comp struct {
	kind       byte // 'k', 'i', 's', 'b'
	key        string
	idx        int
	hasS, hasE bool
	sv, ev     any // when non-nil: the Go value of the bound (float64, *big.Int, json.Number) instead of s / e
	s, e       int
	bad        any
}

func (c comp) goVal() any {
	switch c.kind {
	case 'k':
		return c.key
	case 'i':
		return c.idx
	case 's':
		m := map[string]any{"start": nil, "end": nil}
		if c.hasS {
			m["start"] = c.s
		}
		if c.hasE {
			m["end"] = c.e
		}
		if c.sv != nil {
			m["start"] = c.sv
		}
		if c.ev != nil {
			m["end"] = c.ev
		}
		return m
	}
	return c.bad
}

func (c comp) sexp() string {
	switch c.kind {
	case 'k':
		return "(k " + Hexs([]byte(c.key)) + ")"
	case 'i':
		return fmt.Sprintf("(i %d)", c.idx)
	case 's':
		s, e := "n", "n"
		if c.hasS {
			s = fmt.Sprint(c.s)
		}
		if c.hasE {
			e = fmt.Sprint(c.e)
		}
		if c.sv != nil {
			s = boundSexp(c.sv)
		}
		if c.ev != nil {
			e = boundSexp(c.ev)
		}
		return "(sl " + s + " " + e + ")"
	}
	return "bad"
}

type gpath []comp

func (p gpath) goVal() []any {
	r := make([]any, len(p))
	for i, c := range p {
		r[i] = c.goVal()
	}
	return r
}
func (p gpath) sexp() string {
	var sb strings.Builder
	sb.WriteString("(p")
	for _, c := range p {
		sb.WriteByte(' ')
		sb.WriteString(c.sexp())
	}
	sb.WriteByte(')')
	return sb.String()
}

// randPath: a path loosely guided by v (valid steps mostly; sometimes wrong-typed, out of range, bad)
func (g *gen) randPath(v any, maxlen int) gpath {
	r := g.r
	var p gpath
	n := r.Intn(maxlen + 1)
	for len(p) < n {
		var c comp
		kind := r.Intn(20)
		switch x := v.(type) {
		case []any:
			if kind < 1 {
				c = comp{kind: 'k', key: keys[r.Intn(3)]}
				v = nil
			} else if kind < 2 {
				c = comp{kind: 'b', bad: g.badComp()}
			} else if kind < 13 {
				i := r.Intn(len(x)+4) - len(x) - 1
				if r.Chance(1, 30) {
					i = 0x20000000 + r.Intn(2)
				}
				c = comp{kind: 'i', idx: i}
				j := i
				if j < 0 {
					j += len(x)
				}
				if j >= 0 && j < len(x) {
					v = x[j]
				} else {
					v = nil
				}
			} else {
				c = g.sliceComp(len(x))
				v = sliceOf(x, c)
			}
		case map[string]any:
			if kind < 1 {
				c = comp{kind: 'i', idx: r.Intn(3)}
				v = nil
			} else if kind < 2 {
				c = comp{kind: 'b', bad: g.badComp()}
			} else if kind < 3 {
				c = g.sliceComp(2)
				v = nil
			} else {
				c = comp{kind: 'k', key: keys[r.Intn(3)]}
				v = x[c.key]
			}
		default:
			switch r.Intn(4) {
			case 0:
				c = comp{kind: 'k', key: keys[r.Intn(3)]}
			case 1:
				c = comp{kind: 'i', idx: r.Intn(5) - 1}
			case 2:
				c = g.sliceComp(2)
			default:
				c = comp{kind: 'k', key: keys[r.Intn(3)]}
			}
			v = nil
		}
		p = append(p, c)
	}
	return p
}

func (g *gen) badComp() any {
	if g.r.Intn(2) == 0 {
		return nil
	}
	return true
}

// special slice bounds: fractions, -0.0, NaN, +-Inf, 1e300, big integers, json.Number spellings
func specialBounds() []any {
	big1, _ := new(big.Int).SetString("18446744073709551616", 10)
	big2, _ := new(big.Int).SetString("-18446744073709551616", 10)
	return []any{0.5, -0.5, 1.5, -1.5, 2.9, -2.9, math.Copysign(0, -1), math.NaN(), math.Inf(1), math.Inf(-1), 1e300,
		big1, big2, json.Number("1.5"), json.Number("-1e0"), json.Number("-1.5"), json.Number("2"), 2.0, -1.0}
}

// boundSexp: a slice bound for the models: an integer, (fr <floor>) for a non-integer, nan
func boundSexp(v any) string {
	switch x := v.(type) {
	case int:
		return fmt.Sprint(x)
	case *big.Int:
		return x.String()
	case json.Number:
		t := x.String()
		if strings.ContainsAny(t, ".eE") {
			f, _ := strconv.ParseFloat(t, 64)
			return boundSexp(f)
		}
		b, _ := new(big.Int).SetString(t, 10)
		return b.String()
	case float64:
		switch {
		case math.IsNaN(x):
			return "nan"
		case math.IsInf(x, 1):
			return "100000000000000000000"
		case math.IsInf(x, -1):
			return "-100000000000000000000"
		}
		fl := math.Floor(x)
		bi, _ := new(big.Float).SetFloat64(fl).Int(nil)
		if fl == x {
			return bi.String()
		}
		return "(fr " + bi.String() + ")"
	}
	return "n"
}

// the integer start / end the code's rounding gives (toInt truncates, toIntCeil rounds up), for guidance only
func boundInt(v any, ceil bool) int {
	switch x := v.(type) {
	case int:
		return x
	case *big.Int:
		if x.Sign() > 0 {
			return 1 << 40
		}
		return -(1 << 40)
	case json.Number:
		f, _ := strconv.ParseFloat(x.String(), 64)
		return boundInt(f, ceil)
	case float64:
		if math.IsNaN(x) {
			return -(1 << 40)
		}
		if ceil {
			x = math.Ceil(x)
		}
		if x > 1e12 {
			return 1 << 40
		}
		if x < -1e12 {
			return -(1 << 40)
		}
		return int(x)
	}
	return 0
}

func (g *gen) sliceComp(n int) comp {
	r := g.r
	c := comp{kind: 's'}
	defer func() {}()
	if r.Chance(1, 3) {
		sb := specialBounds()
		if r.Chance(2, 3) {
			c.sv = sb[r.Intn(len(sb))]
		}
		if r.Chance(2, 3) || c.sv == nil {
			c.ev = sb[r.Intn(len(sb))]
		}
	}
	if r.Chance(3, 4) {
		c.hasS, c.s = true, r.Intn(n+4)-n-1
	}
	if r.Chance(3, 4) {
		c.hasE, c.e = true, r.Intn(n+4)-n-1
	}
	return c
}

func clampI(i, lo, hi int) int {
	if i < 0 {
		i += hi
	}
	if i < lo {
		return lo
	}
	if i < hi {
		return i
	}
	return hi
}

func sliceOf(x []any, c comp) any {
	st, en := 0, len(x)
	if c.sv != nil {
		st = clampI(boundInt(c.sv, false), 0, len(x))
	} else if c.hasS {
		st = clampI(c.s, 0, len(x))
	}
	if c.ev != nil {
		en = clampI(boundInt(c.ev, true), st, len(x))
	} else if c.hasE {
		en = clampI(c.e, st, len(x))
	}
	return x[st:en]
}

func clone(v any) any {
	switch v := v.(type) {
	case []any:
		w := make([]any, len(v))
		for i, x := range v {
			w[i] = clone(x)
		}
		return w
	case map[string]any:
		w := make(map[string]any, len(v))
		for k, x := range v {
			w[k] = clone(x)
		}
		return w
	}
	return v
}

func natRes(v any) string {
	if _, ok := v.(error); ok {
		return "err"
	}
	return dump(v)
}

// natCase: one native call, either executed and emitted as a line for the model, or (replay mode) turned
// into a jq-level case for the defining-reduction oracle
type natCase struct {
	kind string // getpath, setpath, delpaths
	v    any
	p    gpath
	ps   []gpath
	n    any
}

func (nc *natCase) oracleCase() *Case {
	js := func(x any) string { b, _ := json.Marshal(x); return string(b) }
	switch nc.kind {
	case "delpaths":
		var l []any
		for _, p := range nc.ps {
			l = append(l, p.goVal())
		}
		if l == nil {
			l = []any{}
		}
		return &Case{Kind: "eq", Q: []string{"delpaths(" + js(l) + ")", "_dref(" + js(l) + ")"}, AddDefs: true, Input: js(nc.v), Op: "delpaths"}
	case "setpath":
		for _, c := range nc.p {
			if c.kind != 'k' && c.kind != 'i' {
				return nil
			}
		}
		p, n := js(nc.p.goVal()), js(nc.n)
		return &Case{Kind: "eq", Q: []string{"setpath(" + p + "; " + n + ") | getpath(" + p + ")", "setpath(" + p + "; " + n + ") | " + n}, Input: js(nc.v), Op: "setpath"}
	}
	return nil
}

// the systematic delpaths block: slices reaching the end, negative indices and bounds, out-of-range
// indices as single-component paths (and slice+index), all ordered pairs and a seed-dependent part of the
// ordered triples, on two small arrays
func natTailCases(seed uint64, all bool) []*natCase {
	sl := func(s, e int, hs, he bool) gpath { return gpath{comp{kind: 's', hasS: hs, s: s, hasE: he, e: e}} }
	ix := func(i int) gpath { return gpath{comp{kind: 'i', idx: i}} }
	alts := []gpath{sl(2, 0, true, false), sl(1, 4, true, true), sl(-2, 0, true, false), sl(0, 0, true, false), sl(3, 0, true, false),
		sl(4, 0, true, false), sl(5, 0, true, false), sl(-1, 0, true, false), ix(-1), ix(-2), ix(-4), ix(-5),
		sl(0, -1, false, true), sl(-3, -1, true, true), sl(1, -1, true, true), ix(4), ix(7), ix(0), ix(2), sl(1, 2, true, true),
		append(sl(1, 0, true, false), comp{kind: 'i', idx: -1}), append(sl(0, -1, false, true), comp{kind: 'i', idx: 0})}
	inputs := []func() any{
		func() any { return []any{0, 1, 2, 3} },
		func() any { return []any{[]any{0, 1}, map[string]any{"a": 2}, 4, []any{5}} },
	}
	var cs []*natCase
	// special bounds (fractions, -0.0, NaN, +-Inf, 1e300, big ints, json.Number) in start and end position:
	// read (getpath), write (setpath) and delete (delpaths) through the same slice
	sb := append([]any{nil, 1, -1}, specialBounds()...)
	for _, arr := range []func() any{func() any { return []any{1, 2, 3} }, func() any { return []any{0, 1, 2, 3, 4} }} {
		for _, sv := range sb {
			for _, ev := range sb {
				c := comp{kind: 's', sv: sv, ev: ev}
				if i, ok := sv.(int); ok {
					c.sv, c.hasS, c.s = nil, true, i
				}
				if i, ok := ev.(int); ok {
					c.ev, c.hasE, c.e = nil, true, i
				}
				p := gpath{c}
				cs = append(cs, &natCase{kind: "getpath", v: arr(), p: p},
					&natCase{kind: "setpath", v: arr(), p: p, n: []any{"x"}},
					&natCase{kind: "setpath", v: arr(), p: p, n: []any{"x", "y"}},
					&natCase{kind: "delpaths", v: arr(), ps: []gpath{p}},
					&natCase{kind: "delpaths", v: arr(), ps: []gpath{p, {comp{kind: 'i', idx: -1}}}})
			}
		}
	}
	n := len(alts)
	for _, in := range inputs {
		for i := 0; i < n; i++ {
			for j := 0; j < n; j++ {
				cs = append(cs, &natCase{kind: "delpaths", v: in(), ps: []gpath{alts[i], alts[j]}})
				for k := 0; k < n; k++ {
					if all || (uint64(i*n*n+j*n+k)+seed)%8 == 0 {
						cs = append(cs, &natCase{kind: "delpaths", v: in(), ps: []gpath{alts[i], alts[j], alts[k]}})
					}
				}
			}
		}
	}
	return cs
}

// runNat: getpath / setpath / delpaths natives on JSON values versus the value-level model.
// Arguments: "replay:i,j,..." prints, instead of running anything, the jq-level oracle cases (JSON) of the
// lines with these indices; "search" runs all triples of the systematic block.
func runNat(c *Ctx) {
	g := newGen(c.Rng)
	r := c.Rng
	replay := map[int]bool{}
	isReplay, all := false, c.Tier != "quick"
	for _, a := range c.Args {
		if l, ok := strings.CutPrefix(a, "replay:"); ok {
			isReplay = true
			for _, x := range strings.Split(l, ",") {
				var i int
				if _, err := fmt.Sscan(x, &i); err == nil {
					replay[i] = true
				}
			}
		}
		all = all || a == "search"
	}
	guard := func(what string, f func() any) (res any) {
		defer func() {
			if p := recover(); p != nil {
				c.Violation("panic in %s: %v", what, p)
				res = fmt.Errorf("panic")
			}
		}()
		return f()
	}
	cases := natTailCases(c.Seed, all)
	for i := 0; i < c.N; i++ {
		v := g.value(1 + r.Intn(3))
		switch r.Intn(3) {
		case 0:
			cases = append(cases, &natCase{kind: "getpath", v: v, p: g.randPath(v, 4)})
		case 1:
			p := g.randPath(v, 4)
			cases = append(cases, &natCase{kind: "setpath", v: v, p: p, n: g.value(r.Intn(2))})
		default:
			np := 1 + r.Intn(4)
			nc := &natCase{kind: "delpaths", v: v}
			for j := 0; j < np; j++ {
				nc.ps = append(nc.ps, g.randPath(v, 3))
			}
			cases = append(cases, nc)
		}
	}
	for i, nc := range cases {
		if isReplay {
			if replay[i] {
				if oc := nc.oracleCase(); oc != nil {
					b, _ := json.Marshal(oc)
					c.Emit("%s", b)
				}
			}
			continue
		}
		v := nc.v
		pristine := clone(v)
		vs := dump(v)
		switch nc.kind {
		case "getpath":
			res := guard("getpath", func() any { return gojq.VerifGetpath(v, nc.p.goVal()) })
			c.Emit("(getpath %s %s %s)", vs, nc.p.sexp(), natRes(res))
		case "setpath":
			res := guard("setpath", func() any { return gojq.VerifSetpathPlain(v, nc.p.goVal(), nc.n) })
			c.Emit("(setpath %s %s %s %s)", vs, nc.p.sexp(), dump(nc.n), natRes(res))
		default:
			var ps []any
			var sx []string
			for _, p := range nc.ps {
				ps = append(ps, p.goVal())
				sx = append(sx, p.sexp())
			}
			res := guard("delpaths", func() any { return gojq.VerifDelpathsPlain(v, ps) })
			c.Emit("(delpaths %s (%s) %s)", vs, strings.Join(sx, " "), natRes(res))
		}
		c.Count("nat:" + nc.kind)
		if !equal(v, pristine) {
			c.Violation("native-input-mutated: a path native modified its input %s", vs)
		}
	}
}
