package main

import . "verifharness/hlib"

func runNat(c *Ctx)  {}
func runHeap(c *Ctx) {}
