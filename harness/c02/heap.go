package main

import (
	"fmt"
	"strings"

	. "verifharness/hlib"

	"github.com/itchyny/gojq"
)

// ------------------------------------------------------------------------------------------------
// heap stream: Go heaps with aliasing -> update / deleteEmpty / getpath through the hook natives

type hobj struct {
	isMap bool
	back  []any          // backing array (full capacity)
	m     map[string]any // map
	cells []string       // transport form of the initial cells (arrays) in order
	mkeys []string
	mvals []string
}

type hcell struct {
	v any
	s string
}

// a random initial heap: objects refer only to objects with a larger index (acyclic), arrays are seen
// through slice headers with off >= 0 and cap >= len
func (g *gen) heapObjs() ([]*hobj, hcell) {
	r := g.r
	n := 1 + r.Intn(5)
	objs := make([]*hobj, n)
	for i := n - 1; i >= 0; i-- {
		o := &hobj{}
		objs[i] = o
		cell := func() hcell {
			if i+1 < n && r.Chance(1, 2) {
				return g.refTo(objs, i+1+r.Intn(n-i-1))
			}
			return g.scalarCell()
		}
		if r.Chance(3, 5) || i == 0 && r.Chance(1, 2) {
			k := r.Intn(5)
			o.back = make([]any, k)
			for j := 0; j < k; j++ {
				c := cell()
				o.back[j] = c.v
				o.cells = append(o.cells, c.s)
			}
		} else {
			o.isMap = true
			o.m = map[string]any{}
			for _, k := range keys {
				if r.Chance(1, 2) {
					c := cell()
					o.m[k] = c.v
					o.mkeys = append(o.mkeys, k)
					o.mvals = append(o.mvals, c.s)
				}
			}
		}
	}
	return objs, g.refTo(objs, 0)
}

func (g *gen) scalarCell() hcell {
	r := g.r
	switch r.Intn(6) {
	case 0:
		return hcell{nil, "null"}
	case 1:
		return hcell{true, "true"}
	case 2:
		return hcell{"s", "(s 73)"}
	default:
		i := r.Intn(10)
		return hcell{i, fmt.Sprintf("(i %d)", i)}
	}
}

func (g *gen) refTo(objs []*hobj, a int) hcell {
	o := objs[a]
	if o.isMap {
		return hcell{o.m, fmt.Sprintf("(mp %d)", a)}
	}
	n := len(o.back)
	off, l := 0, n
	if g.r.Chance(1, 2) && n > 0 {
		off = g.r.Intn(n + 1)
		l = g.r.Intn(n - off + 1)
	}
	return hcell{o.back[off : off+l], fmt.Sprintf("(sl %d %d %d %d)", a, off, l, n-off)}
}

func (o *hobj) sexp() string {
	var sb strings.Builder
	if o.isMap {
		// sorted by key as the model keeps maps sorted
		sb.WriteString("(map")
		idx := make([]int, len(o.mkeys))
		for i := range idx {
			idx[i] = i
		}
		for i := 0; i < len(idx); i++ {
			for j := i + 1; j < len(idx); j++ {
				if o.mkeys[idx[j]] < o.mkeys[idx[i]] {
					idx[i], idx[j] = idx[j], idx[i]
				}
			}
		}
		for _, i := range idx {
			sb.WriteString(" (" + Hexs([]byte(o.mkeys[i])) + " " + o.mvals[i] + ")")
		}
		sb.WriteByte(')')
		return sb.String()
	}
	sb.WriteString("(arr")
	for _, c := range o.cells {
		sb.WriteByte(' ')
		sb.WriteString(c)
	}
	sb.WriteByte(')')
	return sb.String()
}

func (o *hobj) dump() string {
	if o.isMap {
		return dump(o.m)
	}
	return dump(o.back[:cap(o.back)])
}

// new-value expressions
type nexpr struct {
	kind string // lit, cur, wrap1, wrap2, obj
	lit  hcell
	p    gpath
	sub  *nexpr
	key  string
}

func (e *nexpr) sexp() string {
	switch e.kind {
	case "lit":
		return e.lit.s
	case "cur":
		return "(cur " + e.p.sexp() + ")"
	case "obj":
		return "(obj " + Hexs([]byte(e.key)) + " " + e.sub.sexp() + ")"
	}
	return "(" + e.kind + " " + e.sub.sexp() + ")"
}

// eval: the value in the Go heap (aliases for cur); error when getpath fails
func (e *nexpr) eval(state any) (any, bool) {
	switch e.kind {
	case "lit":
		return e.lit.v, true
	case "cur":
		x := gojq.VerifGetpath(state, e.p.goVal())
		if _, ok := x.(error); ok {
			return nil, false
		}
		return x, true
	}
	x, ok := e.sub.eval(state)
	if !ok {
		return nil, false
	}
	switch e.kind {
	case "wrap1":
		return []any{x}, true
	case "wrap2":
		return []any{x, x}, true
	}
	return map[string]any{e.key: x}, true
}

func (g *gen) nexprFor(state any, p gpath) *nexpr {
	r := g.r
	var e *nexpr
	if g.safeNew {
		// only values that contain no container made during the run: literals, objects of the initial
		// heap (never written), and fresh wrappers around them
		if len(g.objs) > 0 && r.Chance(1, 2) {
			e = &nexpr{kind: "lit", lit: g.refTo(g.objs, r.Intn(len(g.objs)))}
		} else {
			e = &nexpr{kind: "lit", lit: g.scalarCell()}
		}
		for r.Chance(1, 3) {
			switch r.Intn(3) {
			case 0:
				e = &nexpr{kind: "wrap1", sub: e}
			case 1:
				e = &nexpr{kind: "wrap2", sub: e}
			default:
				e = &nexpr{kind: "obj", key: keys[r.Intn(3)], sub: e}
			}
		}
		return e
	}
	switch r.Intn(10) {
	case 0, 1, 2:
		e = &nexpr{kind: "lit", lit: g.scalarCell()}
	case 3, 4, 5, 6:
		e = &nexpr{kind: "cur", p: p} // f's input: the value at the path
	case 7:
		if len(p) > 0 {
			e = &nexpr{kind: "cur", p: p[:r.Intn(len(p))]}
		} else {
			e = &nexpr{kind: "cur", p: p}
		}
	default:
		e = &nexpr{kind: "cur", p: g.randPath(state, 3)}
	}
	for r.Chance(2, 5) {
		switch r.Intn(3) {
		case 0:
			e = &nexpr{kind: "wrap1", sub: e}
		case 1:
			e = &nexpr{kind: "wrap2", sub: e}
		default:
			e = &nexpr{kind: "obj", key: keys[r.Intn(3)], sub: e}
		}
	}
	return e
}

// heapPath: paths for the heap stream; mostly valid, overlapping with earlier ones
func (g *gen) heapPath(state any, prev []gpath) gpath {
	r := g.r
	if g.safeNew && r.Chance(1, 3) {
		// slice(s) followed by further components
		var p gpath
		if r.Chance(1, 2) && within(state, 0, dumpDepth) {
			p = g.randPath(state, 2)
			for i := range p {
				if p[i].kind == 'b' {
					p[i] = comp{kind: 'i', idx: 0}
				}
			}
		}
		p = append(p, g.sliceComp(4))
		if r.Chance(1, 3) {
			p = append(p, g.sliceComp(3))
		}
		p = append(p, comp{kind: 'i', idx: r.Intn(6) - 2})
		if r.Chance(1, 3) {
			p = append(p, g.randPath(nil, 1)...)
		}
		return p
	}
	if len(prev) > 0 && r.Chance(1, 2) {
		q := prev[r.Intn(len(prev))]
		switch r.Intn(4) {
		case 0:
			return q
		case 1:
			if len(q) > 0 {
				return q[:r.Intn(len(q))]
			}
			return q
		case 2:
			ext := g.randPath(nil, 1)
			return append(append(gpath{}, q...), ext...)
		default:
			if len(q) > 0 {
				k := r.Intn(len(q))
				p := append(gpath{}, q[:k]...)
				p = append(p, g.sliceComp(3))
				if r.Chance(1, 2) {
					p = append(p, comp{kind: 'i', idx: r.Intn(4)})
				}
				return p
			}
		}
	}
	if !within(state, 0, dumpDepth) {
		return g.randPath(nil, 2)
	}
	p := g.randPath(state, 3)
	// no bad components here (kept for the nat stream): they only produce errors
	for i := range p {
		if p[i].kind == 'b' {
			p[i] = comp{kind: 'i', idx: 0}
		}
	}
	return p
}

// runHeapSafe: the same operations, but every new value is free of containers made during the run (the side
// condition of C02_abs_update) and paths prefer slices followed by further components: judged against VALUE
// semantics, a deviation would refute the statement left open for inner slices
func runHeapSafe(c *Ctx) {
	g := newGen(c.Rng)
	g.safeNew = true
	for i := 0; i < c.N; i++ {
		line, viol := g.heapCase()
		if viol != "" {
			c.Violation("%s", viol)
		}
		c.Emit("%s", line)
		c.Count("heapsafe")
	}
}

func runHeap(c *Ctx) {
	g := newGen(c.Rng)
	for i := 0; i < c.N; i++ {
		line, viol := g.heapCase()
		if viol != "" {
			c.Violation("%s", viol)
		}
		c.Emit("%s", line)
		c.Count("heap")
	}
	c.Stats["grow_cases"] = g.grow
	c.Stats["grow_cases_exposing"] = g.growExposing
}

// growObjs: the initial heap of a GROWTH scenario (fix 73ac0b6): one array of n cells, mostly non-nil, seen
// through a full header, at the root or under key "a" of a map
func (g *gen) growObjs() ([]*hobj, hcell, gpath, int) {
	r := g.r
	n := 1 + r.Intn(5)
	arr := &hobj{back: make([]any, n)}
	for j := 0; j < n; j++ {
		c := g.scalarCell()
		if c.v == nil && r.Chance(3, 4) {
			c = hcell{j + 20, fmt.Sprintf("(i %d)", j+20)}
		}
		arr.back[j] = c.v
		arr.cells = append(arr.cells, c.s)
	}
	if r.Chance(1, 2) {
		return []*hobj{arr}, hcell{arr.back, fmt.Sprintf("(sl 0 0 %d %d)", n, n)}, gpath{}, n
	}
	m := &hobj{isMap: true, m: map[string]any{"a": arr.back}, mkeys: []string{"a"}, mvals: []string{fmt.Sprintf("(sl 1 0 %d %d)", n, n)}}
	return []*hobj{m, arr}, hcell{m.m, "(mp 0)"}, gpath{comp{kind: 'k', key: "a"}}, n
}

type scriptOp struct {
	p gpath
	e *nexpr
}

// growScript: (1) a write below q makes the reduction own a copy of the array (len l1 = cap c1, or more cells
// than the original when the index lies beyond it); (2) the array at q is replaced by a PREFIX SLICE of itself
// (what an update body like .[:k] returns): same pointer, len k, the cells k..c1-1 keep their stale content;
// (3) writes at indices k .. c1-1 (in-place growth over stale cells) and beyond (reallocation)
func (g *gen) growScript(q gpath, n int) ([]scriptOp, int, int) {
	r := g.r
	at := func(i int) gpath { return append(append(gpath{}, q...), comp{kind: 'i', idx: i}) }
	i0 := r.Intn(n + 2)
	l1 := n
	if i0 >= n {
		l1 = i0 + 1
	}
	k := r.Intn(l1 + 1)
	sl := comp{kind: 's', hasS: r.Chance(1, 2), s: 0, hasE: true, e: k}
	if r.Chance(1, 8) && k > 0 {
		sl = comp{kind: 's', hasS: true, s: 1, hasE: true, e: k} // an inner slice: not the allocator's pointer
	}
	ops := []scriptOp{
		{at(i0), &nexpr{kind: "lit", lit: g.scalarCell()}},
		{q, &nexpr{kind: "cur", p: append(append(gpath{}, q...), sl)}},
	}
	m := 1 + r.Intn(3)
	first := -1
	for x := 0; x < m; x++ {
		j := k + r.Intn(l1-k+3)
		if first < 0 {
			first = j
		}
		e := &nexpr{kind: "lit", lit: g.scalarCell()}
		if r.Chance(1, 5) {
			e = &nexpr{kind: "cur", p: q}
		}
		ops = append(ops, scriptOp{at(j), e})
	}
	return ops, k, first
}

func (g *gen) heapCase() (line string, viol string) {
	r := g.r
	var script []scriptOp
	var objs []*hobj
	var root hcell
	if !g.safeNew && r.Chance(1, 5) {
		var q gpath
		var n int
		objs, root, q, n = g.growObjs()
		var k, first int
		script, k, first = g.growScript(q, n)
		g.grow++
		if first > k {
			g.growExposing++ // the first scripted write grows over at least one cell behind the prefix
		}
	} else {
		objs, root = g.heapObjs()
	}
	g.objs = objs
	var osx []string
	for _, o := range objs {
		osx = append(osx, o.sexp())
	}
	shared := r.Chance(5, 6) || g.safeNew || script != nil
	var a *gojq.VerifAlloc
	if shared {
		a = gojq.VerifNewAlloc()
	}
	state := root.v
	var ops []string
	var prev []gpath
	failed := false
	nops := 1 + r.Intn(4)
	if script != nil {
		nops = len(script) + r.Intn(2)
	}
	defer func() {
		if p := recover(); p != nil {
			viol = fmt.Sprintf("panic in a path native: %v (heap case %s)", p, strings.Join(ops, " "))
			line = "(skip)"
		}
	}()
	for k := 0; k < nops && !failed; k++ {
		if !within(state, 0, dumpDepth) {
			break // cyclic already: the natives may not terminate on it
		}
		var p gpath
		var e *nexpr
		x := r.Intn(12)
		if k < len(script) {
			p, e, x = script[k].p, script[k].e, 0
		} else {
			p = g.heapPath(state, prev)
		}
		prev = append(prev, p)
		switch {
		case x < 7:
			if e == nil {
				e = g.nexprFor(state, p)
			}
			ops = append(ops, "(set "+p.sexp()+" "+e.sexp()+")")
			n, ok := e.eval(state)
			if !ok {
				failed = true
				break
			}
			var err error
			if shared {
				state, err = a.VerifUpdate(state, p.goVal(), n, false)
			} else {
				var na *gojq.VerifAlloc
				state, err = na.VerifUpdate(state, p.goVal(), n, false)
			}
			failed = err != nil
		case x < 9 && shared:
			ops = append(ops, "(del "+p.sexp()+")")
			var err error
			state, err = a.VerifUpdate(state, p.goVal(), nil, true)
			failed = err != nil
		case x < 10 && shared:
			ops = append(ops, "(sweep)")
			state = a.VerifDeleteEmpty(state)
		default:
			np := 1 + r.Intn(3)
			var ps []any
			var sx []string
			for j := 0; j < np; j++ {
				q := g.heapPath(state, prev)
				prev = append(prev, q)
				ps = append(ps, q.goVal())
				sx = append(sx, q.sexp())
			}
			ops = append(ops, "(delpaths ("+strings.Join(sx, " ")+"))")
			var res any
			if shared {
				res = a.VerifDelpaths(state, ps)
			} else {
				res = gojq.VerifDelpathsPlain(state, ps)
			}
			if _, ok := res.(error); ok {
				failed = true
			} else {
				state = res
			}
		}
	}
	fin := "err"
	if !failed {
		fin = dump(state)
	}
	var pre []string
	for _, o := range objs {
		pre = append(pre, o.dump())
	}
	al := "off"
	if shared {
		al = "on"
	}
	// the result once more with every slice extended to its capacity: the hidden cells of the backing arrays
	full := "err"
	if !failed {
		full = dumpFull(state)
	}
	return fmt.Sprintf("(heap (objs %s) (root %s) (alloc %s) (ops %s) (res %s (pre %s) (full %s)))",
		strings.Join(osx, " "), root.s, al, strings.Join(ops, " "), fin, strings.Join(pre, " "), full), ""
}
