// C02 harness.  Streams:
//
//	oracle   implementation-only oracles (A): path(p) vs p, update operators vs their defining
//	         reductions written in jq and run on the same implementation, invalid-path errors.
//	         Cases run in CHILD processes (re-exec of this binary, stream "child") so that a fatal
//	         stack overflow / runaway allocation is attributed to the case that caused it.
//	nat      getpath/setpath/delpaths natives on JSON values, one s-expression line per case,
//	         judged by the extracted value-level model (coq/c02/Path.v).
//	heap     update/deleteEmpty/getpath on Go heaps with aliasing through the hook natives, judged by
//	         the extracted heap model (coq/c02/HeapPath.v).
//	one      run explicit cases given as arguments "query<TAB>input" through the oracle machinery.
package main

import (
	"bufio"
	"encoding/json"
	"fmt"
	"io"
	"os"
	"os/exec"
	"runtime/debug"
	"sort"
	"strings"
	"sync"
	"syscall"
	"time"

	. "verifharness/hlib"
)

func main() {
	Register("oracle", runOracle)
	Register("one", runOne)
	Register("nat", runNat)
	Register("heap", runHeap)
	Register("heapsafe", runHeapSafe)
	if len(os.Args) >= 2 && os.Args[1] == "child" {
		childMain()
		return
	}
	Main()
}

// ------------------------------------------------------------------------------------------------
// cases

// Case is one oracle case.  Kind:
//
//	eq    outputs of Q[0] equal outputs of Q[1] (same input)
//	path  path(P) lists exactly the paths of the outputs of P, in order
//	inv   Q[0] navigates from a computed value: must raise an error, and an invalid-path error when the
//	      navigation Q[1] itself succeeds on the computed value
type Case struct {
	ID    int      `json:"id"`
	Kind  string   `json:"kind"`
	Q     []string `json:"q"`
	Input string   `json:"input"`
	// for update operators: the path expression (with the sharing prefix) used to classify a failure,
	// and whether the update body can only produce scalars
	P       string `json:"p,omitempty"`
	Pre     string `json:"pre,omitempty"`
	ScalarF bool   `json:"scalarf,omitempty"`
	// the update body as the implementation runs it (F), as the reference runs it (FR, default F), and the
	// binder in front of the update (`(x) as $x | ` for `p op= x`): enough to rebuild the case with the body's
	// output copied (attribution of a failure, eval.go variantHolds)
	F       string `json:"f,omitempty"`
	FR      string `json:"fr,omitempty"`
	Bind    string `json:"bind,omitempty"`
	Op      string `json:"op,omitempty"`
	AddDefs bool   `json:"adddefs,omitempty"` // prepend the defining reductions to Q[1] (replayed native cases)
}

// canonical, replayable text of a case (also the KNOWN_FINDINGS key)
func (c *Case) Text() string {
	switch c.Kind {
	case "path":
		pre := c.Pre
		if strings.HasPrefix(c.Op, "sentinel:") {
			pre = ""
		}
		return "path-oracle query: " + pre + "path(" + c.Q[0] + ") input: " + c.Input
	case "inv":
		return "invalid-path query: " + c.Q[0] + " input: " + c.Input
	}
	return "query: " + c.Q[0] + " input: " + c.Input
}

type Result struct {
	ID     int    `json:"id"`
	OK     bool   `json:"ok"`
	What   string `json:"what,omitempty"`
	Detail string `json:"detail,omitempty"`
	Family string `json:"family,omitempty"`
	Attr   string `json:"attr,omitempty"`  // how the family attribution of a failing update case was decided
	Class  string `json:"class,omitempty"` // coverage class of the case (what actually happened)
}

// ------------------------------------------------------------------------------------------------
// parent: run cases in child processes

type crashInfo struct {
	c    *Case
	what string
}

// runCases evaluates the cases in nproc children; returns results by case index.
func runCases(cases []*Case, nproc int) []Result {
	res := make([]Result, len(cases))
	for i := range cases {
		cases[i].ID = i
		res[i].ID = -1
	}
	if nproc < 1 {
		nproc = 1
	}
	chunk := (len(cases) + nproc - 1) / nproc
	var wg sync.WaitGroup
	for w := 0; w < nproc; w++ {
		lo, hi := w*chunk, (w+1)*chunk
		if hi > len(cases) {
			hi = len(cases)
		}
		if lo >= hi {
			break
		}
		wg.Add(1)
		go func(part []*Case) {
			defer wg.Done()
			runPart(part, res)
		}(cases[lo:hi])
	}
	wg.Wait()
	return res
}

// runPart feeds a slice of cases to a child; when the child dies or stalls the case it was working on
// gets the blame and a new child continues after it.
func runPart(part []*Case, res []Result) {
	for len(part) > 0 {
		done, what := runChild(part, res)
		if done >= len(part) {
			return
		}
		c := part[done]
		res[c.ID] = Result{ID: c.ID, OK: false, What: "crash", Detail: what}
		if strings.Contains(what, "no answer") {
			// a stall (possibly only a loaded machine): run the case alone with a generous limit; when it
			// stalls again but the defining reduction alone stalls as well, the case is just too expensive
			// (e.g. a doubling body over many overlapping paths), not a discrepancy
			id := c.ID
			alone := *c
			alone.ID = 0
			rr := []Result{{ID: -1}}
			if d, w := runChildT([]*Case{&alone}, rr, 6*caseTimeout); d == 1 {
				rr[0].ID = id
				res[id] = rr[0]
			} else if c.Kind == "eq" {
				res[id].Detail = w
				ref := &Case{ID: 0, Kind: "refonly", Q: []string{c.Q[1]}, Input: c.Input}
				rr[0].ID = -1
				if d, _ := runChildT([]*Case{ref}, rr, 6*caseTimeout); d == 0 {
					res[id] = Result{ID: id, OK: true, Class: "stall-in-both"}
				}
			}
		}
		part = part[done+1:]
	}
}

const caseTimeout = 10 * time.Second

func runChild(part []*Case, res []Result) (int, string) { return runChildT(part, res, caseTimeout) }

func runChildT(part []*Case, res []Result, limit time.Duration) (int, string) {
	cmd := exec.Command(os.Args[0], "child")
	stdin, _ := cmd.StdinPipe()
	stdout, _ := cmd.StdoutPipe()
	var errbuf tailBuf
	cmd.Stderr = &errbuf
	if err := cmd.Start(); err != nil {
		return 0, "cannot start child: " + err.Error()
	}
	go func() {
		w := bufio.NewWriter(stdin)
		enc := json.NewEncoder(w)
		for _, c := range part {
			if enc.Encode(c) != nil {
				break
			}
		}
		w.Flush()
		stdin.Close()
	}()
	lines := make(chan string, 64)
	go func() {
		sc := bufio.NewScanner(stdout)
		sc.Buffer(make([]byte, 1<<20), 1<<26)
		for sc.Scan() {
			lines <- sc.Text()
		}
		close(lines)
	}()
	done := 0
	what := ""
loop:
	for done < len(part) {
		select {
		case l, ok := <-lines:
			if !ok {
				break loop
			}
			var r Result
			if json.Unmarshal([]byte(l), &r) != nil {
				continue
			}
			res[r.ID] = r
			done++
		case <-time.After(limit):
			what = fmt.Sprintf("no answer within %v (killed)", limit)
			cmd.Process.Kill()
			break loop
		}
	}
	cmd.Process.Kill()
	err := cmd.Wait()
	if done < len(part) && what == "" {
		what = "child died"
		if err != nil {
			what += ": " + err.Error()
		}
		if s := errbuf.String(); s != "" {
			what += ": " + firstLines(s, 3)
		}
	}
	return done, what
}

type tailBuf struct {
	mu sync.Mutex
	b  []byte
}

func (t *tailBuf) Write(p []byte) (int, error) {
	t.mu.Lock()
	defer t.mu.Unlock()
	if len(t.b) < 4096 {
		t.b = append(t.b, p...)
	}
	return len(p), nil
}
func (t *tailBuf) String() string { t.mu.Lock(); defer t.mu.Unlock(); return string(t.b) }

func firstLines(s string, n int) string {
	ls := strings.Split(s, "\n")
	if len(ls) > n {
		ls = ls[:n]
	}
	return strings.Join(ls, " | ")
}

// ------------------------------------------------------------------------------------------------
// child

func childMain() {
	// die fast and cheaply on runaway recursion / allocation
	debug.SetMaxStack(64 << 20)
	var lim syscall.Rlimit
	lim.Cur, lim.Max = 6<<30, 6<<30
	syscall.Setrlimit(syscall.RLIMIT_AS, &lim)
	debug.SetMemoryLimit(2 << 30)
	in := bufio.NewReaderSize(os.Stdin, 1<<20)
	out := bufio.NewWriter(os.Stdout)
	dec := json.NewDecoder(in)
	enc := json.NewEncoder(out)
	for {
		var c Case
		if err := dec.Decode(&c); err != nil {
			if err != io.EOF {
				fmt.Fprintln(os.Stderr, "child: bad case:", err)
			}
			break
		}
		r := evalCase(&c)
		enc.Encode(r)
		out.Flush()
	}
}

// ------------------------------------------------------------------------------------------------
// streams

func nprocFor(c *Ctx) int {
	if c.Tier == "quick" {
		return 8
	}
	return 16
}

func report(c *Ctx, cases []*Case, res []Result) {
	// sentinel status: a failing generated case of a known family is keyed by the family's canonical
	// case only while that canonical case itself fails
	sentFail := map[string]string{}
	for i, cs := range cases {
		if f, ok := strings.CutPrefix(cs.Op, "sentinel:"); ok && !res[i].OK {
			sentFail[f] = cs.Text()
		}
	}
	type viol struct{ Case, What, Detail, Family, Actual, JSON string }
	cj := func(cs *Case) string { b, _ := json.Marshal(cs); return string(b) }
	var viols []viol
	fam := map[string]int{}
	for i, cs := range cases {
		r := res[i]
		c.Count("kind:" + cs.Kind)
		if cs.Op != "" {
			c.Count("op:" + strings.SplitN(cs.Op, ":", 2)[0])
		}
		if r.Class != "" {
			c.Count("class:" + r.Class)
		}
		if r.ID < 0 {
			viols = append(viols, viol{cs.Text(), "not-run", "the child never answered for this case", "", cs.Text(), cj(cs)})
			continue
		}
		if r.OK {
			continue
		}
		key := cs.Text()
		if strings.HasPrefix(cs.Op, "sentinel:") {
			viols = append(viols, viol{key, r.What, r.Detail, strings.TrimPrefix(cs.Op, "sentinel:"), key, cj(cs)})
			continue
		}
		if r.Attr != "" {
			fam["attribution:"+r.Attr]++
		}
		if r.Family != "" {
			fam[r.Family]++
			if k, ok := sentFail[r.Family]; ok {
				viols = append(viols, viol{k, r.What, "generated case of the same family: " + key + " -- " + r.Detail, r.Family, key, cj(cs)})
				continue
			}
		}
		viols = append(viols, viol{key, r.What, r.Detail, r.Family, key, cj(cs)})
	}
	// one entry per key (first detail wins), stable order
	seen := map[string]bool{}
	var out []map[string]string
	for _, v := range viols {
		if seen[v.Case] {
			continue
		}
		seen[v.Case] = true
		out = append(out, map[string]string{"case": v.Case, "what": v.What, "detail": v.Detail, "family": v.Family, "actual": v.Actual, "json": v.JSON})
	}
	// shortest cases first: they are the most readable failing inputs
	sort.SliceStable(out, func(i, j int) bool {
		if len(out[i]["case"]) != len(out[j]["case"]) {
			return len(out[i]["case"]) < len(out[j]["case"])
		}
		return out[i]["case"] < out[j]["case"]
	})
	c.Stats["oracle_violations"] = out
	c.Stats["oracle_failing_cases"] = len(viols)
	c.Stats["family_hits"] = fam
	c.Stats["cases"] = len(cases)
	dist := map[string]bool{}
	for _, cs := range cases {
		dist[cs.Text()] = true
	}
	c.Stats["distinct_cases"] = len(dist)
	for i, cs := range cases {
		if i%(len(cases)/6+1) == 0 {
			c.Emit("%s", cs.Text())
		}
	}
}

func runOracle(c *Ctx) {
	g := newGen(c.Rng)
	cases := sentinelCases()
	cases = append(cases, regressionCases()...)
	gc := growCases()
	c.Stats["grow_block_cases"] = len(gc)
	cases = append(cases, gc...)
	cases = append(cases, fixedCases()...)
	cases = append(cases, nestedCases()...)
	cases = append(cases, bindOptCases()...)
	search := false
	for _, a := range c.Args {
		search = search || a == "search"
	}
	cases = append(cases, tailCases(c.Seed, search || c.Tier != "quick")...)
	cases = append(cases, fracCases()...)
	n := c.N
	for i := 0; i < n; i++ {
		cases = append(cases, g.randomCase())
	}
	c.Stats["grow_random_cases"] = g.growRandom
	res := runCases(cases, nprocFor(c))
	report(c, cases, res)
}

// runOne: explicit cases "kind<TAB>q0<TAB>q1<TAB>input" (replay)
func runOne(c *Ctx) {
	var cases []*Case
	for _, a := range c.Args {
		var cs Case
		if err := json.Unmarshal([]byte(a), &cs); err != nil {
			fmt.Fprintln(os.Stderr, "bad case:", err)
			os.Exit(2)
		}
		cases = append(cases, &cs)
	}
	res := runCases(cases, 1)
	report(c, cases, res)
	for i := range cases {
		b, _ := json.Marshal(res[i])
		c.Emit("%s", b)
	}
}
