package main

import (
	"encoding/json"
	"fmt"
	"strings"

	. "verifharness/hlib"
)

// The defining reductions, written out in jq over path(p) with getpath/setpath/delpaths.
//
//	_mref   `p |= f`: for every path of p (computed on the original input), in order: the FIRST output
//	        of f on the current value at that path is stored there; when f is empty the path is collected
//	        and all collected paths are deleted together at the end (_dref, so that indices keep their
//	        meaning)
//	_aref   `p = $x`
//	_norm   a path resolved against a value: negative indices and slice bounds become positions of THAT value,
//	        a slice becomes the index paths of the elements that READING it selects (.[s:e] applied to
//	        [0,1,...,n-1]: whatever rounding the read side applies to fractional / special bounds), paths that do not exist vanish; navigating
//	        into a scalar is the error "_norm: type" (then the case is inconclusive: whether deleting below
//	        an already deleted scalar is an error depends on the order in jq as well)
//	_dref   delpaths(ps): every path is resolved against the ORIGINAL value, paths below a deleted path are
//	        dropped, and the remaining index/key paths are deleted one by one in descending order
//	_ts     tostream by structural recursion; _pp paths by structural recursion
const defs = `def _clampi($i; $lo; $hi): (if $i < 0 then $i + $hi else $i end) | if . < $lo then $lo elif . < $hi then . else $hi end; ` +
	`def _norm($v; $p): if ($p | length) == 0 then [] else $p[0] as $k | $p[1:] as $r | ($v | type) as $t | ` +
	`if ($k | type) == "object" then (if $t == "array" then ($v | length) as $n | ` +
	`([range(0; $n)] | .[$k.start:$k.end]) as $idx | ` +
	`if ($r | length) == 0 then ($idx[] | [.]) else (_norm($v[$k.start:$k.end]; $r) | [.[0] + ($idx[0] // 0)] + .[1:]) end ` +
	`elif $t == "null" then empty else error("_norm: type") end) ` +
	`elif ($k | type) == "number" then (if $t == "array" then ($v | length) as $n | (if $k < 0 then $k + $n else $k end) as $i | ` +
	`if $i < 0 or $i >= $n then empty else [$i] + _norm($v[$i]; $r) end elif $t == "null" then empty else error("_norm: type") end) ` +
	`elif ($k | type) == "string" then (if $t == "object" then (if ($v | has($k)) then [$k] + _norm($v[$k]; $r) else empty end) ` +
	`elif $t == "null" then empty else error("_norm: type") end) else error("_norm: type") end end; ` +
	`def _dref(ps): . as $v | [(ps)[] | _norm($v; .)] | unique as $qs | ` +
	`[$qs[] | select(. as $q | any($qs[]; . as $r | ($r | length) < ($q | length) and $q[:($r | length)] == $r) | not)] | reverse | ` +
	`reduce .[] as $q ($v; delpaths([$q])); ` +
	`def _mref(p; f): reduce path(p) as $q ([., []]; . as [$v, $d] | [first($v | getpath($q) | f)] as $r | if ($r | length) == 0 then [$v, $d + [$q]] else [($v | setpath($q; $r[0])), $d] end) | . as [$v, $d] | $v | _dref($d); ` +
	`def _aref(p; $x): reduce path(p) as $q (.; setpath($q; $x)); ` +
	`def _ts($p): if (type == "array" or type == "object") and length > 0 then (keys as $ks | ($ks[] as $k | .[$k] | _ts($p + [$k])), [$p + [$ks[-1]]]) else [$p, .] end; ` +
	`def _pp: if type == "object" or type == "array" then (keys[] as $k | [$k], ([$k] + (.[$k] | _pp))) else empty end; `

type body struct {
	src    string
	scalar bool // can only produce scalars (never embeds a container)
}

var bodies = []body{
	{".", false}, {"[.]", false}, {"[.,.]", false}, {"7", true}, {"empty", true}, {".[0]", false}, {"{a:.}", false},
	{".+1", false}, {"null", true}, {"(1,2)", true}, {"(empty,3)", true}, {"{x:.,y:.}", false},
	{"if type == \"number\" then empty else . end", false}, {"select(type == \"number\")", true},
	{"length", true}, {"tojson", true}, {".[1:]?", false}, {"[.[]?]", false}, {"del(.[0]?)", false},
	{"(.[0]? |= 5)", false}, {". as $x | [$x, $x]", false}, {"if type == \"number\" and . % 2 == 0 then empty else . end", false},
	{".[]?", false}, {"error", true}, {"(., error)", false}, {"first(.[]?)", false}, {".a?", false}, {"[[.]]", false},
	{"if type == \"array\" then empty else [.] end", false}, {"not", true}, {"type", true},
	// bodies that return a PREFIX or INNER slice of their input (the value shares the backing array of a
	// container the reduction may own: defect repaired by 73ac0b6)
	{".[:1]?", false}, {".[0:1]?", false}, {".[:2]?", false}, {".[1:2]?", false}, {".[:-1]?", false},
	{"if type == \"array\" then .[:1] else 10 end", false}, {"if type == \"array\" then .[0:2] else . end", false},
}

var assignRhs = []body{{"7", true}, {"(1,2)", true}, {".", false}, {".a?", false}, {"[.]", false}, {"empty", true}, {"null", true},
	{".[0]?", false}, {"{a:1}", false}, {"[1,[2]]", false}, {"error", true}, {"(.[]?)", false}, {".[:1]?", false}, {".[1:2]?", false}}

var arithOps = []string{"+", "-", "*", "/", "%", "//"}
var arithRhs = []string{"1", "2", "(1,2)", "null", "[9]", "{c:1}", "\"s\"", ".", "length", "empty", ".[0]?", "0"}

type gen struct {
	r                  *Rng
	safeNew            bool    // heap stream: new values never contain a container made during the run
	objs               []*hobj // heap stream: the objects of the initial heap
	triple             bool    // oracle stream: the last alternatives() call returned an (A[i], A, A[j]) list
	growRandom         int     // oracle stream: random |= cases with such a list and a slice-returning body
	grow, growExposing int     // heap stream: growth scenarios generated / whose first write grows over hidden cells
}

func newGen(r *Rng) *gen { return &gen{r: r} }

func (g *gen) pick(xs ...string) string { return xs[g.r.Intn(len(xs))] }

// ---- inputs

var keys = []string{"a", "b", "c"}

func (g *gen) value(d int) any {
	r := g.r
	if d <= 0 || r.Chance(1, 4) {
		switch r.Intn(8) {
		case 0:
			return nil
		case 1:
			return r.Intn(2) == 0
		case 2:
			return "s"
		case 3:
			return []any{}
		case 4:
			return map[string]any{}
		default:
			return r.Intn(10)
		}
	}
	if r.Chance(1, 2) {
		n := r.Intn(5)
		a := make([]any, n)
		for i := range a {
			a[i] = g.value(d - 1)
		}
		return a
	}
	n := r.Intn(4)
	m := map[string]any{}
	for i := 0; i < n; i++ {
		m[keys[r.Intn(len(keys))]] = g.value(d - 1)
	}
	return m
}

func toJSON(v any) string {
	b, _ := json.Marshal(v)
	return string(b)
}

var prefixes = []string{"", "", "", "", ". as $s | {a:$s,b:$s} | ", ". as $s | [$s,$s] | ", "[., .[1:]?, .[:2]?] | ", ". as $s | [$s[1:]?, $s] | ",
	". as $s | {a:$s, b:[$s,$s]} | "}

// ---- concrete paths into a value

type step struct {
	txt string
}

// walk produces a concrete navigation chain (field / index / slice / slice+index) into v and returns
// the text and the list of prefixes' texts
func (g *gen) walk(v any, maxlen int) []string {
	r := g.r
	var steps []string
	for len(steps) < maxlen {
		switch x := v.(type) {
		case []any:
			n := len(x)
			switch r.Intn(10) {
			case 0, 1, 2, 3, 4:
				i := r.Intn(n + 2)
				if r.Chance(1, 5) && n > 0 {
					j := 1 + r.Intn(n+1)
					steps = append(steps, fmt.Sprintf("[-%d]", j))
					if n-j >= 0 {
						v = x[n-j]
					} else {
						v = nil
					}
					continue
				}
				steps = append(steps, fmt.Sprintf("[%d]", i))
				if i < n {
					v = x[i]
				} else {
					v = nil
				}
			case 5, 6, 7, 8:
				a, b := r.Intn(n+2), r.Intn(n+2)
				if a > b && r.Chance(3, 4) {
					a, b = b, a
				}
				if r.Chance(1, 6) {
					// fractional and special bounds (the value used for guidance is approximate)
					fb := []string{"0.5", "-0.5", "1.5", "-1.5", "2.9", "-2.9", "-0.0", "nan", "infinite", "-infinite", "1e300", "100000000000000000000", "-100000000000000000000"}
					switch r.Intn(3) {
					case 0:
						steps = append(steps, "["+fb[r.Intn(len(fb))]+":]")
					case 1:
						steps = append(steps, "[:"+fb[r.Intn(len(fb))]+"]")
					default:
						steps = append(steps, "["+fb[r.Intn(len(fb))]+":"+fb[r.Intn(len(fb))]+"]")
					}
					return steps
				}
				switch r.Intn(6) {
				case 0:
					steps = append(steps, fmt.Sprintf("[%d:]", a))
					b = n
				case 1:
					steps = append(steps, fmt.Sprintf("[:%d]", b))
					a = 0
				case 2:
					steps = append(steps, fmt.Sprintf("[%d:%d]", a-n, b))
				default:
					steps = append(steps, fmt.Sprintf("[%d:%d]", a, b))
				}
				if a > n {
					a = n
				}
				if b > n {
					b = n
				}
				if a < 0 {
					a = 0
				}
				if b < a {
					b = a
				}
				v = x[a:b]
			default:
				return steps
			}
		case map[string]any:
			k := keys[r.Intn(len(keys))]
			if r.Chance(1, 6) {
				steps = append(steps, fmt.Sprintf("[%q]", k))
			} else {
				steps = append(steps, "."+k)
			}
			v = x[k]
		case nil:
			if r.Chance(1, 2) {
				return steps
			}
			switch r.Intn(3) {
			case 0:
				steps = append(steps, "."+keys[r.Intn(3)])
			case 1:
				steps = append(steps, fmt.Sprintf("[%d]", r.Intn(3)))
			default:
				steps = append(steps, fmt.Sprintf("[%d:%d]", r.Intn(2), 1+r.Intn(3)))
			}
		default:
			return steps
		}
		if r.Chance(1, 4) {
			break
		}
	}
	return steps
}

func chain(steps []string) string {
	if len(steps) == 0 {
		return "."
	}
	s := strings.Join(steps, "")
	if strings.HasPrefix(s, "[") {
		return "." + s
	}
	return s
}

// overlapping alternatives around a concrete chain: the chain, prefixes, extensions, siblings, covering
// slices, slice+index forms
func (g *gen) alternatives(v any) []string {
	r := g.r
	base := g.walk(v, 3)
	g.triple = false
	if len(base) > 0 && r.Chance(1, 10) {
		// an array path between two element paths of the same array, in this order (A[i], A, A[j]): the second
		// path hands a copy the reduction owns to the body, the third writes into what the body returned
		par := base[:len(base)-1]
		el := func() string {
			return chain(append(append([]string{}, par...), g.pick("[0]", "[1]", "[2]", "[3]", "[4]", "[-1]", "[5]")))
		}
		g.triple = true
		return []string{el(), chain(par), el()}
	}
	alts := []string{chain(base)}
	n := 1 + r.Intn(3)
	for len(alts) < n+1 {
		switch r.Intn(9) {
		case 0: // prefix
			if len(base) > 0 {
				alts = append(alts, chain(base[:r.Intn(len(base))]))
			}
		case 1: // same again
			alts = append(alts, chain(base))
		case 2: // extension
			ext := append(append([]string{}, base...), g.pick(".a", "[0]", "[1]", "[0:1]", "[1:]", "[-1]", ".b", "[]?", "[2]"))
			alts = append(alts, chain(ext))
		case 3: // sibling / other walk
			alts = append(alts, chain(g.walk(v, 3)))
		case 4: // covering slice at the last level
			if len(base) > 0 {
				p := append(append([]string{}, base[:len(base)-1]...), g.pick("[0:1]", "[1:]", "[:2]", "[0:2]", "[1:2]", "[0:]", "[:1]", "[2:]", "[-1:]", "[:-1]"))
				if r.Chance(1, 2) {
					p = append(p, g.pick("[0]", "[1]", "[2]", "[-1]", "[0:1]", "[1:]"))
				}
				alts = append(alts, chain(p))
			}
		case 5: // iterate the parent
			if len(base) > 0 {
				p := append(append([]string{}, base[:len(base)-1]...), "[]?")
				alts = append(alts, chain(p))
			}
		case 6:
			alts = append(alts, g.pick(".[0:1][1]", ".[1:]", ".[0:2][2]", ".[2]", ".[1:][0]", ".[0]", ".[:1][2]", ".[1:2]", ".[0:1][0:2]", ".[1]", ".[0:2][0:1][1]"))
		case 7:
			alts = append(alts, g.pick("..", ".[]?", ".[]?[]?", "..|select(type == \"array\")", ".a", ".a?.b?", "first(.[]?)", "getpath([\"a\",0])"))
		default:
			alts = append(alts, g.pathExpr(v, 2))
		}
	}
	// random order
	for i := len(alts) - 1; i > 0; i-- {
		j := r.Intn(i + 1)
		alts[i], alts[j] = alts[j], alts[i]
	}
	if len(alts) > 3 {
		alts = alts[:3]
	}
	return alts
}

// ---- the path-safe grammar

func (g *gen) cond() string {
	return g.pick("type == \"array\"", "type == \"object\"", "type == \"number\"", ". == null", "length > 1", "true", "false", ".a?", ". != null",
		"(tojson | length) % 2 == 0", "type != \"array\" and type != \"object\"", "has(\"a\")?", "(.[0]? // null) != null")
}

func (g *gen) smallPathJSON() string {
	return g.pick(`[]`, `["a"]`, `[0]`, `["a",0]`, `[1,"b"]`, `["a","b"]`, `[0,0]`, `[{"start":0,"end":1}]`, `[{"start":1,"end":null},0]`, `["b",1]`, `[-1]`, `["c"]`)
}

// pathExpr: a random expression of the path-safe grammar, loosely guided by the value v
func (g *gen) pathExpr(v any, d int) string {
	r := g.r
	if d <= 0 {
		if r.Chance(2, 3) {
			return chain(g.walk(v, 2))
		}
		return g.pick(".", ".[]?", ".a", ".[0]", ".a?", "..", ".[1:]", "empty", ".[-1]?", ".[]", ".b")
	}
	sub := func() string { return g.pathExpr(v, d-1) }
	switch r.Intn(29) {
	case 26, 27:
		// src as PATTERN | body (destructuring patterns and ?// alternatives; the source is evaluated as an
		// expression, the body continues from the current location)
		src := g.pick(".", "(.|.)", "first(.)", ".a?", ".[0]?", "(.[]?)", "(.a?, .[0]?)", "..", ".[1:]?")
		pat := g.pick("$x", "[$a]", "[$a,$b]", "{$a}", "{a:$a}", "{\"a\":[$a]}", "[$a] ?// $a", "{$a} ?// [$a]", "[[$a]] ?// [$a] ?// $a", "{a:$a} ?// $a")
		return "((" + src + " as " + pat + " | " + sub() + ")?)"
	case 28:
		src := g.pick(".", "(.|.)", "first(.)")
		pat := g.pick("[$a]", "{$a}", "[$a,$b]", "{a:$a}", "$x")
		return "(" + src + " as " + pat + " | " + sub() + ")"
	case 0, 1, 2:
		return chain(g.walk(v, 3))
	case 3:
		return "(" + sub() + " | " + g.pathExpr(nil, d-1) + ")"
	case 4:
		return "(" + sub() + ", " + sub() + ")"
	case 5:
		return "(" + sub() + ", " + sub() + ", " + sub() + ")"
	case 6:
		return g.pick("..", "recurse", "recurse(.[]?)", "recurse(if type == \"array\" then .[0] elif type == \"object\" then .a else empty end; . != null)", "(.. | select("+g.cond()+"))", "recurse(.[]?; "+g.cond()+")", "..?")
	case 7:
		return "(" + sub() + " | select(" + g.cond() + "))"
	case 8:
		return "if " + g.cond() + " then " + sub() + " else " + sub() + " end"
	case 9:
		return "(" + sub() + " // " + sub() + ")"
	case 10:
		return "first(" + sub() + ")"
	case 11:
		return fmt.Sprintf("limit(%d; %s)", r.Intn(4), sub())
	case 12:
		return "getpath(" + g.smallPathJSON() + ")"
	case 13:
		return g.pick("empty", "error", "error(\"x\")", "(., error)", "(empty, .)")
	case 14:
		return "(" + sub() + ")?"
	case 15:
		return "(try " + sub() + ")"
	case 16:
		return "(. as $x | " + sub() + ")"
	case 17:
		return "((length? // 0) as $n | .[$n - 1]?)"
	case 18:
		return "((keys?[0]) as $k | .[$k]?)"
	case 19:
		return "(" + g.pick(".[]?", ".a?", ".[0]?", "first(.[]?)", "1", "(0,1)") + " as $x | " + sub() + ")"
	case 20:
		return "(" + sub() + ")" + g.pick("[]?", ".a?", "[0]?", "[1:]?", "[]", ".b", "[0]", "[-1:]")
	case 21:
		return "(" + sub() + " | " + g.pick("..", "recurse", ".[]?", "first(.[]?)", "getpath("+g.smallPathJSON()+")?") + ")"
	case 22:
		return "((0, 1) as $i | .[$i]?)"
	case 23:
		return "(.[] as [$x] | " + sub() + ")?"
	case 24:
		return "(" + sub() + " | if " + g.cond() + " then . else empty end)"
	default:
		return "(" + sub() + " | (" + g.pathExpr(nil, d-1) + ", .))"
	}
}

// ---- cases

func (g *gen) input() (string, any) {
	v := g.value(1 + g.r.Intn(3))
	if g.r.Chance(1, 3) {
		// arrays are where the hazards live
		n := g.r.Intn(5)
		a := make([]any, n)
		for i := range a {
			if g.r.Chance(1, 3) {
				a[i] = g.value(1)
			} else {
				a[i] = i
			}
		}
		v = a
	}
	return toJSON(v), v
}

func eqCase(op, pre, lhs, rhs, input string) *Case {
	return &Case{Kind: "eq", Q: []string{pre + lhs, defs + pre + rhs}, Input: input, Op: op, Pre: pre}
}

func (g *gen) randomCase() *Case {
	r := g.r
	input, v := g.input()
	pre := prefixes[r.Intn(len(prefixes))]
	cv := v
	if pre != "" {
		if code, err := compile(pre + "."); err == nil {
			in, _ := decode(input)
			if o, _ := runAll(code, in); len(o) == 1 && !o[0].isErr {
				cv = o[0].v
			} else {
				pre = ""
			}
		}
	}
	var p string
	g.triple = false
	if r.Chance(1, 2) {
		alts := g.alternatives(cv)
		p = "(" + strings.Join(alts, ", ") + ")"
		if len(alts) == 1 {
			p = alts[0]
		}
	} else {
		p = g.pathExpr(cv, 1+r.Intn(3))
	}
	k := r.Intn(100)
	switch {
	case k < 14:
		return &Case{Kind: "path", Q: []string{p}, Pre: pre, Input: input, Op: "path"}
	case k < 19:
		b := g.nestedBody(1 + r.Intn(3))
		q := p
		if r.Chance(1, 2) {
			q = g.pick(".[]", ".[]?", "(.[]? | select(type == \"array\" or type == \"object\"))", ".[]?[]?", ".a?", "..")
		}
		c := nestedCase("modify-nested", q, b, input)
		c.Q[0], c.Q[1] = pre+q+" |= ("+b.impl+")", defs+pre+"_mref("+q+"; ("+b.ref+"))"
		c.Pre = pre
		return c
	case k < 52:
		f := bodies[r.Intn(len(bodies))]
		if g.triple && r.Chance(1, 2) {
			f = bodies[len(bodies)-7+r.Intn(7)] // the slice-returning bodies
		}
		if g.triple && strings.Contains(f.src, ":") {
			g.growRandom++
		}
		c := eqCase("modify", pre, p+" |= ("+f.src+")", "_mref("+p+"; ("+f.src+"))", input)
		c.P, c.ScalarF, c.F = p, f.scalar, f.src
		return c
	case k < 64:
		x := assignRhs[r.Intn(len(assignRhs))]
		c := eqCase("assign", pre, p+" = ("+x.src+")", "("+x.src+") as $x | _aref("+p+"; $x)", input)
		c.P, c.ScalarF = p, true // `=` stores a value that existed before the reduction started
		return c
	case k < 72:
		op := arithOps[r.Intn(len(arithOps))]
		x := arithRhs[r.Intn(len(arithRhs))]
		c := eqCase("arith", pre, p+" "+op+"= ("+x+")", "("+x+") as $x | _mref("+p+"; . "+op+" $x)", input)
		c.P = p
		c.ScalarF = op != "+" && op != "//" && op != "-" && op != "*"
		c.F, c.Bind = ". "+op+" $x", "("+x+") as $x | "
		return c
	case k < 80:
		c := eqCase("del", pre, "del("+p+")", "_dref([path("+p+")])", input)
		c.P, c.ScalarF = p, true
		return c
	case k < 84:
		f := bodies[r.Intn(len(bodies))]
		c := eqCase("map_values", pre, "map_values("+f.src+")", "_mref(.[]; ("+f.src+"))", input)
		c.P, c.ScalarF, c.F = ".[]", f.scalar, f.src
		return c
	case k < 87:
		return eqCase("pick", pre, "pick("+p+")", ". as $v | reduce path("+p+") as $q (null; setpath($q; $v | getpath($q)))", input)
	case k < 89:
		if r.Chance(1, 2) {
			return eqCase("paths", pre, "[paths]", "[_pp]", input)
		}
		cnd := g.cond()
		return eqCase("paths", pre, "[paths("+cnd+")]", "[path(.. | select("+cnd+")) | select(length > 0)]", input)
	case k < 91:
		return eqCase("to_entries", pre, "to_entries", "keys as $ks | . as $v | [$ks[] | . as $k | {key: $k, value: ($v | getpath([$k]))}]", input)
	case k < 93:
		f := g.pick(".", ".value |= [.]", "select(.value != null)", ".key |= \"k\" + (. | tostring)", ".value = 1", "empty", "{key: .key, value: .}")
		return eqCase("with_entries", pre, "with_entries("+f+")", "keys as $ks | . as $v | [$ks[] | . as $k | {key: $k, value: ($v | getpath([$k]))} | "+f+"] | from_entries", input)
	case k < 96:
		switch r.Intn(3) {
		case 0:
			return eqCase("tostream", pre, "[tostream]", "[_ts([])]", input)
		case 1:
			return eqCase("tostream", pre, "[fromstream(tostream)]", "[.]", input)
		default:
			return eqCase("tostream", pre, "[tostream | select(length == 2) | .[1]]", ". as $v | [tostream | select(length == 2) | .[0] as $q | $v | getpath($q)]", input)
		}
	case k < 98:
		// delpaths with explicit path lists (existing and non-existing paths, duplicates, prefixes)
		ps := []string{}
		for i, n := 0, 1+r.Intn(4); i < n; i++ {
			ps = append(ps, "path("+chain(g.walk(cv, 3))+")")
		}
		l := "[" + strings.Join(ps, ", ") + "]"
		c := eqCase("delpaths", pre, "delpaths("+l+")", "_dref("+l+")", input)
		return c
	default:
		return g.invCase(input, pre)
	}
}

func (g *gen) invCase(input, pre string) *Case {
	comp := g.pick("[.]", "[1,[2]]", "{a:.}", "{a:{b:1}}", "[[0],[1]]", "([.]|.[0]|[.])", "{a:[1,2]}", "(tojson)", "\"computed\"", "[.,.]", "(.. |= .) | [.]", "{b:[.]}", "[3,4,5]")
	nav := g.pick(".[0]", ".a", ".[]", ".[1:]", "..", "getpath([\"a\"])", ".[0]?", ".a?", "first(.[])", ".[-1]", ".a.b", ".[0][0]", "getpath([0])", ".[]?", "recurse")
	form := g.r.Intn(7)
	var q, noop string
	e := comp + " | " + nav
	switch form {
	case 0:
		q, noop = "path("+e+")", "empty"
	case 1:
		q, noop = "("+e+") = 1", "."
	case 2:
		q, noop = "("+e+") |= ("+bodies[g.r.Intn(len(bodies))].src+")", "."
	case 3:
		q, noop = "del("+e+")", "."
	case 4:
		q, noop = "("+e+") += 1", "."
	case 5:
		q, noop = "path(.. | "+e+")", "empty"
	default:
		q, noop = "(.a?, ("+e+")) |= 1", "(.a?) |= 1"
	}
	return &Case{Kind: "inv", Q: []string{pre + q, pre + e, pre + noop}, Input: input, Op: "inv"}
}

// ---- sentinels: canonical cases of the allocator-aliasing family (DESIGN section 6: D4, D5) and the
// non-slice variant found while building this check (D9)

func sentinel(fam, lhs, rhs, input string) *Case {
	c := eqCase("sentinel:"+fam, "", lhs, rhs, input)
	c.Pre = fam
	c.Q = []string{lhs, defs + rhs}
	return c
}

func sentinelCases() []*Case {
	return []*Case{
		sentinel("D4", "(.[2],.[0:1][1]) |= 7", "_mref((.[2],.[0:1][1]); 7)", "[1,2,3]"),
		sentinel("D5", "(.[1:],.[1:]) |= [.]", "_mref((.[1:],.[1:]); [.])", "[0,1]"),
		sentinel("D9", "(.[0],.,.[0][0]) |= [.,.]", "_mref((.[0],.,.[0][0]); [.,.])", `[null]`),
		{Kind: "path", Q: []string{".[1:]"}, Input: `"abc"`, Op: "sentinel:D10", Pre: ""},
	}
}

// fixed neighbourhood and documentation cases, always run
func fixedCases() []*Case {
	var cs []*Case
	mod := func(p, f, input string, scalar bool) {
		c := eqCase("modify", "", p+" |= ("+f+")", "_mref("+p+"; ("+f+"))", input)
		c.P, c.ScalarF, c.F = p, scalar, f
		cs = append(cs, c)
	}
	asg := func(p, x, input string) {
		c := eqCase("assign", "", p+" = "+x, "("+x+") as $x | _aref("+p+"; $x)", input)
		c.P, c.ScalarF = p, true
		cs = append(cs, c)
	}
	// D8 of DESIGN section 6: not a defect (the reduction errors identically)
	mod("(.a.b,.a,.a.x.b)", "5", `{"a":{"b":1,"x":{"b":2}}}`, true)
	// the manual's examples
	mod("(.[] | select(. >= 2))", "empty", "[1,5,3,0,7]", true)
	mod(".[]", "(.,.)", "[1,2]", false)
	mod("(.a,.b)", ".+1", `{"a":1,"b":2}`, false)
	mod("..", "(numbers |= .+1)?", "[[1],2]", false)
	// the neighbourhood of D4/D5/D9: every order of small overlapping slice/index alternatives
	alts := []string{".[2]", ".[0:1][1]", ".[1:]", ".[0]", ".[0:2]", ".[1:][0]", ".[:1][1]", ".[0:1]", ".[1:2][1]", ".[0:2][0:1][1]"}
	fs := []body{{"7", true}, {"[.]", false}, {"empty", true}, {"[.,.]", false}, {".", false}}
	inputs := []string{"[1,2,3]", "[0,1]", "[[0],[1],[2]]"}
	for i, a := range alts {
		for j, b := range alts {
			if (i+2*j)%3 != 0 { // a third of the pairs in every run, all inputs and bodies
				continue
			}
			for _, f := range fs {
				for _, in := range inputs {
					mod("("+a+","+b+")", f.src, in, f.scalar)
				}
			}
			asg("("+a+","+b+")", "7", "[1,2,3]")
		}
	}
	objAlts := []string{".a[0]", ".a", ".a[0][0]", ".a[0:1]", ".a[1]"}
	for _, a := range objAlts {
		for _, b := range objAlts {
			for _, c3 := range objAlts {
				if a == b && b == c3 {
					continue
				}
				for _, f := range []body{{"[.,.]", false}, {"{x:.,y:.}", false}, {"7", true}} {
					mod("("+a+","+b+","+c3+")", f.src, `{"a":[null]}`, f.scalar)
				}
			}
		}
	}
	// invalid-path forms named in the task
	inv := func(q, nav, input string) {
		cs = append(cs, &Case{Kind: "inv", Q: []string{q, nav, "error"}, Input: input, Op: "inv"})
	}
	// a computed EMPTY array: pathIntact compares slices by pointer and length, and every zero-capacity slice has the same
	// (runtime zero-base) pointer, so an empty array computed from the input is taken for the input's own empty array
	inv("del(.a | . - [1] | .[])", ".a | . - [1] | .[]", `{"a":[]}`)
	inv("path(1|.a)", "1|.a", "null")
	inv("path([.]|.[0])", "[.]|.[0]", "null")
	inv("([1]|.[0]) = 1", "[1]|.[0]", "null")
	inv("([1]|.[0]) |= 1", "[1]|.[0]", "[1]")
	inv("del([1]|.[0])", "[1]|.[0]", "[1]")
	inv("({a:1}|.a) = 2", "{a:1}|.a", `{"a":1}`)
	inv("path(2|.)", "2|.", "1")
	inv("(.[0]|[7]|.[0]) |= 1", ".[0]|[7]|.[0]", "[[7]]")
	inv("path(.[]|tojson|.[0:1])", ".[]|tojson|.[0:1]", `["ab"]`)
	return cs
}

// ---- systematic block: slices reaching the end of the array in every position relative to negative
// indices, negative slice bounds and out-of-range indices; all ordered pairs, all (thorough/search) or a
// seed-dependent eighth (quick) of the ordered triples, over a small array ----

var tailAlts = []string{".[2:]", ".[1:4]", ".[-2:]", ".[0:]", ".[3:]", ".[4:]", ".[5:]", ".[-1:]", ".[-1]", ".[-2]", ".[-4]", ".[-5]",
	".[:-1]", ".[-3:-1]", ".[1:-1]", ".[4]", ".[7]", ".[0]", ".[2]", ".[1:2]"}

func tailCases(seed uint64, all bool) []*Case {
	var cs []*Case
	ops := []struct {
		name string
		mk   func(p string) (string, string)
	}{
		{"del", func(p string) (string, string) { return "del(" + p + ")", "_dref([path(" + p + ")])" }},
		{"modify", func(p string) (string, string) { return p + " |= (empty)", "_mref(" + p + "; (empty))" }},
		{"modify", func(p string) (string, string) {
			f := "if . == 1 or . == 3 then empty else . + 10 end"
			return p + " |= (" + f + ")", "_mref(" + p + "; (" + f + "))"
		}},
	}
	add := func(alts []string, pre, input string) {
		p := "(" + strings.Join(alts, ", ") + ")"
		if pre != "" {
			for i := range alts {
				alts[i] = pre + alts[i][1:]
			}
			p = "(" + strings.Join(alts, ", ") + ")"
		}
		for _, op := range ops {
			l, r := op.mk(p)
			c := eqCase(op.name, "", l, r, input)
			c.P, c.ScalarF = p, true
			cs = append(cs, c)
		}
	}
	n := len(tailAlts)
	for i := 0; i < n; i++ {
		for j := 0; j < n; j++ {
			add([]string{tailAlts[i], tailAlts[j]}, "", "[0,1,2,3]")
			if (i+j)%2 == 0 {
				add([]string{tailAlts[i], tailAlts[j]}, ".a", `{"a":[0,1,2,3],"b":[4]}`)
			}
			for k := 0; k < n; k++ {
				if all || (uint64(i*n*n+j*n+k)+seed)%8 == 0 {
					add([]string{tailAlts[i], tailAlts[j], tailAlts[k]}, "", "[0,1,2,3]")
				}
			}
		}
	}
	return cs
}

// ---- systematic block: fractional and special slice bounds in start and end position ----
// laws: the identity update is the identity; writing back a same-length value and reading it gives it back;
// updating through the slice touches exactly the elements reading selects; del removes as many elements as
// reading selects; path(.[a:b]) denotes what .[a:b] yields; del = the defining reduction.

var fracBounds = []string{"", "1", "-1", "0.5", "-0.5", "1.5", "-1.5", "2.9", "-2.9", "-0.0", "nan", "infinite", "-infinite", "1e300",
	"100000000000000000000", "-100000000000000000000"}

func fracCases() []*Case {
	var cs []*Case
	law := func(op, lhs, rhs, input string) {
		c := &Case{Kind: "eq", Q: []string{lhs, defs + rhs}, Input: input, Op: op}
		cs = append(cs, c)
	}
	jb := func(b string) string {
		if b == "" {
			return "null"
		}
		return b
	}
	for _, input := range []string{"[1,2,3]", "[0,1,2,3,4]"} {
		for _, a := range fracBounds {
			for _, b := range fracBounds {
				sl := ".[" + a + ":" + b + "]"
				if a == "" && b == "" {
					continue
				}
				pobj := `[{"start":` + jb(a) + `,"end":` + jb(b) + `}]`
				cs = append(cs, &Case{Kind: "path", Q: []string{sl}, Input: input, Op: "path"})
				law("law-identity", "("+sl+" |= .)", ".", input)
				law("law-update-selected", "("+sl+" |= map(. * 10))",
					". as $v | ([range(0; length)] | "+sl+") as $idx | reduce $idx[] as $i ($v; setpath([$i]; getpath([$i]) * 10))", input)
				law("law-set-get", "("+sl+" | map(. * 10)) as $w | setpath("+pobj+"; $w) | getpath("+pobj+")", sl+" | map(. * 10)", input)
				law("law-del-count", "del("+sl+") | length", "length - ("+sl+" | length)", input)
				law("law-getpath-read", "getpath("+pobj+")", sl, input)
				c := eqCase("del", "", "del("+sl+")", "_dref([path("+sl+")])", input)
				c.P, c.ScalarF = sl, true
				cs = append(cs, c)
				c = eqCase("assign", "", sl+" = ([\"x\"])", "([\"x\"]) as $x | _aref("+sl+"; $x)", input)
				c.P, c.ScalarF = sl, true
				cs = append(cs, c)
			}
		}
	}
	return cs
}

// ---- update bodies that are themselves updates / deletions (nested to depth 2-3) ----
// impl: the body as written (`q |= f`, del(q), map_values(f)); ref: the same body with every inner update
// replaced by its defining reduction (_mref / _dref), so that the reference contains no compiled update at all

type nbody struct{ impl, ref string }

func (g *gen) nestedBody(d int) nbody {
	r := g.r
	conds := []string{"type == \"number\" and . % 2 == 0", "type == \"number\" and . > 1", ". == 9", ". == null", "type == \"array\"",
		"type == \"number\"", "(type == \"array\" or type == \"object\") and length > 1", ". == 0"}
	cond := conds[r.Intn(len(conds))]
	if d <= 0 {
		switch r.Intn(5) {
		case 0:
			return nbody{"empty", "empty"}
		case 1:
			return nbody{".", "."}
		default:
			t := "if " + cond + " then empty else . end"
			return nbody{t, t}
		}
	}
	qs := []string{".[]?", ".[0]?", ".[1]?", ".a?", ".[]", ".[1:]?", ".b?", ".[-1]?", "(.[]? | select(type == \"number\"))", ".[]?[]?"}
	q := qs[r.Intn(len(qs))]
	in := g.nestedBody(d - 1)
	switch r.Intn(6) {
	case 0, 1:
		return nbody{"(" + q + " |= (" + in.impl + "))", "_mref(" + q + "; (" + in.ref + "))"}
	case 2:
		return nbody{"del(" + q + ")", "_dref([path(" + q + ")])"}
	case 3:
		return nbody{"(map_values(" + in.impl + ")?)", "(_mref(.[]; (" + in.ref + "))?)"}
	case 4:
		return nbody{"(if " + cond + " then empty else (" + in.impl + ") end)", "(if " + cond + " then empty else (" + in.ref + ") end)"}
	default:
		q2 := qs[r.Intn(len(qs))]
		return nbody{"(" + q + " |= (" + in.impl + ") | " + q2 + " |= empty)",
			"(_mref(" + q + "; (" + in.ref + ")) | _mref(" + q2 + "; empty))"}
	}
}

func nestedCase(op, p string, b nbody, input string) *Case {
	c := eqCase(op, "", p+" |= ("+b.impl+")", "_mref("+p+"; ("+b.ref+"))", input)
	c.P, c.ScalarF, c.F, c.FR = p, false, b.impl, b.ref
	return c
}

// systematic: an outer update that deletes `no` entries and, on another entry, runs an inner update that
// deletes `ni` entries (1..10 each: below and above any small preallocated capacity), in both orders and
// interleaved, on arrays and on objects, depth 2 and 3
func nestedCases() []*Case {
	var cs []*Case
	rowArr := func(ni int) string {
		xs := []string{"1"}
		for i := 0; i < ni; i++ {
			xs = append(xs, "9")
		}
		xs = append(xs, "5")
		return "[" + strings.Join(xs, ",") + "]"
	}
	rowObj := func(ni int) string {
		xs := []string{`"x":1`}
		for i := 0; i < ni; i++ {
			xs = append(xs, fmt.Sprintf(`"k%02d":9`, i))
		}
		xs = append(xs, `"z":5`)
		return "{" + strings.Join(xs, ",") + "}"
	}
	inner := nbody{"(.[] |= (if . == 9 then empty else . end))", "_mref(.[]; (if . == 9 then empty else . end))"}
	bodyA := nbody{"if .[0] == 0 then empty else " + inner.impl + " end", "if .[0] == 0 then empty else " + inner.ref + " end"}
	bodyO := nbody{"if .x == 0 then empty else " + inner.impl + " end", "if .x == 0 then empty else " + inner.ref + " end"}
	for no := 1; no <= 10; no++ {
		for ni := 1; ni <= 10; ni++ {
			for order := 0; order < 3; order++ {
				var rowsA, rowsO []string
				dead := func(k int) {
					for i := 0; i < k; i++ {
						rowsA = append(rowsA, "[0]")
						rowsO = append(rowsO, `{"x":0}`)
					}
				}
				live := func() { rowsA = append(rowsA, rowArr(ni)); rowsO = append(rowsO, rowObj(ni)) }
				switch order {
				case 0:
					dead(no)
					live()
				case 1:
					live()
					dead(no)
				default:
					dead(no / 2)
					live()
					dead(no - no/2)
					live()
				}
				cs = append(cs, nestedCase("modify-nested", ".[]", bodyA, "["+strings.Join(rowsA, ",")+"]"))
				var kv []string
				for i, ro := range rowsO {
					kv = append(kv, fmt.Sprintf(`"r%02d":%s`, i, ro))
				}
				cs = append(cs, nestedCase("modify-nested", ".[]", bodyO, "{"+strings.Join(kv, ",")+"}"))
				if ni <= 3 || no%3 == 0 {
					// depth 3: the same structure one level down
					b3 := nbody{"(.[] |= (" + bodyA.impl + "))", "_mref(.[]; (" + bodyA.ref + "))"}
					outer := nbody{"if length == 0 then empty else " + b3.impl + " end", "if length == 0 then empty else " + b3.ref + " end"}
					cs = append(cs, nestedCase("modify-nested", ".[]", outer, "[[],["+strings.Join(rowsA, ",")+"],[],["+strings.Join(rowsA, ",")+"]]"))
				}
			}
		}
	}
	// map_values and del as the nested operation
	for ni := 1; ni <= 10; ni++ {
		in := "[[0],[0]," + rowArr(ni) + ",[0]," + rowArr(ni) + "]"
		cs = append(cs,
			nestedCase("modify-nested", ".[]", nbody{"if .[0] == 0 then empty else map_values(if . == 9 then empty else . end) end",
				"if .[0] == 0 then empty else _mref(.[]; (if . == 9 then empty else . end)) end"}, in),
			nestedCase("modify-nested", ".[]", nbody{"if .[0] == 0 then empty else del(.[] | select(. == 9)) end",
				"if .[0] == 0 then empty else _dref([path(.[] | select(. == 9))]) end"}, in))
		c := eqCase("map_values", "", "map_values(if .[0] == 0 then empty else (.[] |= (if . == 9 then empty else . end)) end)",
			"_mref(.[]; (if .[0] == 0 then empty else _mref(.[]; (if . == 9 then empty else . end)) end))", in)
		cs = append(cs, c)
	}
	return cs
}

// ---- systematic block: update bodies that return a prefix / inner slice of their input, under path lists in
// which the path of an ARRAY lies between paths of its elements (A[i], A, A[j]): the first path makes the
// reduction own a copy of the array, the second hands that copy to the body, which returns a slice sharing
// its backing array, the third writes at or beyond the length of that slice (in-place growth over the cells
// the slice hides, fix 73ac0b6; or reallocation).  Also pairs (A, A[j]) (the array is still the input's:
// nothing may be written in place) and four paths (two writes after the slice). ----
var sliceBodies = []string{
	"if type == \"array\" then .[:1] else 10 end", "if type == \"array\" then .[0:1] else 10 end",
	"if type == \"array\" then .[:2] else . end", "if type == \"array\" then .[:0] else 10 end",
	"if type == \"array\" then .[1:2] else 10 end", "if type == \"array\" then .[:-1] else 10 end",
	"if type == \"array\" then (.[:2] | .[:1]) else [.] end", ".[:1]?", ".[0:1]? // 10",
	"if type == \"array\" then (.[:1], .) else 10 end", "if type == \"array\" then first(.[:1], 5) else null end",
}

func growCases() []*Case {
	var cs []*Case
	add := func(op string, alts []string, f, input string) {
		p := "(" + strings.Join(alts, ", ") + ")"
		c := eqCase(op, "", p+" |= ("+f+")", "_mref("+p+"; ("+f+"))", input)
		c.P, c.ScalarF, c.F = p, false, f
		cs = append(cs, c)
	}
	type base struct {
		arr   string // path of the array
		el    func(i int) string
		input string
	}
	bases := []base{
		{".a", func(i int) string { return fmt.Sprintf(".a[%d]", i) }, `{"a":[1,2,3]}`},
		{".", func(i int) string { return fmt.Sprintf(".[%d]", i) }, `[1,2,3]`},
		{".[1]", func(i int) string { return fmt.Sprintf(".[1][%d]", i) }, `[0,[1,2,3,4],5]`},
		{".a.b", func(i int) string { return fmt.Sprintf(".a.b[%d]", i) }, `{"a":{"b":[[1],[2],[3]],"c":[7]}}`},
	}
	for _, b := range bases {
		for _, f := range sliceBodies {
			for i := 0; i < 3; i++ {
				for j := 0; j < 6; j++ {
					add("modify-grow", []string{b.el(i), b.arr, b.el(j)}, f, b.input)
				}
			}
			for j := 0; j < 6; j++ {
				add("modify-grow", []string{b.arr, b.el(j)}, f, b.input)
				add("modify-grow", []string{b.el(0), b.arr, b.el(j), b.el((j + 2) % 6)}, f, b.input)
				add("modify-grow", []string{b.el(1), b.arr, b.arr, b.el(j)}, f, b.input)
			}
			add("modify-grow", []string{b.el(0), b.arr, b.arr + "[1:]"}, f, b.input)
			add("modify-grow", []string{b.el(0), b.arr, b.arr + "[2:4]"}, f, b.input)
			add("modify-grow", []string{b.el(0), b.arr, b.arr + "[-1]"}, f, b.input)
		}
	}
	return cs
}

// ---- regression cases for what was repaired or seeded before: run first, deterministic ----
func regressionCases() []*Case {
	var cs []*Case
	mod := func(p, f, ref, input string) {
		c := eqCase("regression", "", p+" |= ("+f+")", "_mref("+p+"; ("+ref+"))", input)
		cs = append(cs, c)
	}
	eq := func(l, r, input string) { cs = append(cs, eqCase("regression", "", l, r, input)) }
	// D4 (8b3b8e6): two-index reslice grew over the parent's next cell
	mod("(.[2],.[0:1][1])", "7", "7", "[1,2,3]")
	mod("(.[0],.[0:2][3])", "7", "7", "[1,2,3,4]")
	eq("(.[2],.[0:1][1]) = 7", "7 as $x | _aref((.[2],.[0:1][1]); $x)", "[1,2,3]")
	// D11 (73ac0b6): in-place growth of a prefix slice returned by the update body exposed stale elements
	mod("(.a[0],.a,.a[2])", "if type==\"array\" then .[0:1] else 10 end", "if type==\"array\" then .[0:1] else 10 end", `{"a":[1,2,3]}`)
	mod("(.[0],.,.[3])", ".[:1]? // 10", ".[:1]? // 10", "[1,2,3,4]")
	// D6 (96ad5a7): deleteEmpty sweeps only what delpaths copied
	eq("del(.a.q)", "_dref([path(.a.q)])", `{"a":{"q":1},"b":{"c":[1],"d":{"e":2}}}`)
	eq("del(.b.c[0], .a)", "_dref([path(.b.c[0], .a)])", `{"a":{"q":1},"b":{"c":[1],"d":{"e":2}}}`)
	// a deleted slice that reaches the end, then a negative index (seeded C02-2)
	eq("del(.[2:], .[-1])", "_dref([path(.[2:], .[-1])])", "[0,1,2,3]")
	mod("(.[2:], .[-1])", "empty", "empty", "[0,1,2,3]")
	eq("delpaths([[{\"start\":2,\"end\":null}],[-1]])", "_dref([[{\"start\":2,\"end\":null}],[-1]])", "[0,1,2,3]")
	// fractional slice bounds are rounded alike when read and when written (seeded C02-r2)
	eq("(.[-1.5:] |= .)", ".", "[1,2,3]")
	eq("(.[-1.5:] |= map(. * 10))", ". as $v | ([range(0; length)] | .[-1.5:]) as $idx | reduce $idx[] as $i ($v; setpath([$i]; getpath([$i]) * 10))", "[1,2,3]")
	eq("setpath([{\"start\":-1.5,\"end\":null}]; [\"x\"]) | getpath([{\"start\":-1.5,\"end\":null}])", "[\"x\"]", "[1,2,3]")
	eq("del(.[-1.5:]) | length", "length - (.[-1.5:] | length)", "[1,2,3]")
	// limit(..) as a path expression (seeded C02-r3a)
	cs = append(cs, &Case{Kind: "path", Q: []string{"limit(2; .[])"}, Input: "[1,2,3]", Op: "regression"},
		&Case{Kind: "path", Q: []string{"limit(1; .., .[0])"}, Input: "[[1],2]", Op: "regression"})
	mod("limit(2; .[])", ". + 1", ". + 1", "[1,2,3]")
	// destructuring a binding of `.` records no path component (seeded C02-r5a)
	cs = append(cs, &Case{Kind: "path", Q: []string{"(. as [$x] | .[1])"}, Input: "[1,2]", Op: "regression"},
		&Case{Kind: "path", Q: []string{"(. as {$a} | .a)"}, Input: `{"a":1}`, Op: "regression"})
	eq("(. as [$x] | .a) = 1", "1 as $x | _aref((. as [$x] | .a); $x)", "null")
	mod("(. as {$a} | .b)", "7", "7", `{"a":1}`)
	// `?` after a suffix is not a constant path: `=` must not take the setpath shortcut (seeded C02-r5b)
	eq(".a? = 1", "1 as $x | _aref(.a?; $x)", "[1]")
	eq(".[0]? = 1", "1 as $x | _aref(.[0]?; $x)", `{"a":1}`)
	eq(".a.b? = 1", "1 as $x | _aref(.a.b?; $x)", `{"a":[1]}`)
	// an update nested in an update, both deleting (seeded C02-r3b)
	mod(".[]", "if .[0] == 1 then empty else (.[1] |= empty) end", "if .[0] == 1 then empty else _mref(.[1]; empty) end", "[[1],[2,5],[3]]")
	return cs
}

// ---- systematic: destructuring binds and optional access as path-expression clauses ----
func bindOptCases() []*Case {
	var cs []*Case
	ops := func(p, input string) {
		cs = append(cs, &Case{Kind: "path", Q: []string{p}, Input: input, Op: "path"})
		c := eqCase("assign", "", p+" = (1)", "(1) as $x | _aref("+p+"; $x)", input)
		c.P, c.ScalarF = p, true
		cs = append(cs, c)
		c = eqCase("modify", "", p+" |= (7)", "_mref("+p+"; (7))", input)
		c.P, c.ScalarF = p, true
		cs = append(cs, c)
		c = eqCase("arith", "", p+" += (1)", "(1) as $x | _mref("+p+"; . + $x)", input)
		c.P, c.ScalarF = p, false
		cs = append(cs, c)
		c = eqCase("del", "", "del("+p+")", "_dref([path("+p+")])", input)
		c.P, c.ScalarF = p, true
		cs = append(cs, c)
	}
	inputs := []string{"null", "[1,2]", "[1]", `{"a":1}`, `{"a":[1,2],"b":{"a":3}}`, `[[1],{"a":2}]`, "5", "[]", "{}"}
	// src as PATTERN | body
	srcs := []string{".", "(.|.)", "first(.)", ".a", ".[0]", ".a?", ".[0]?"}
	pats := []string{"$x", "[$a]", "[$a,$b]", "{$a}", "{a:$a}", "[$a] ?// $a", "{$a} ?// [$a]"}
	bodies := []string{".[1]", ".a", ".", ".[0]?", ".a?", ".[]?"}
	binputs := []string{"null", "[1,2]", `{"a":1}`, `{"a":[1,2],"b":{"a":3}}`, `[[1],{"a":2}]`, "5"}
	for si, src := range srcs {
		for _, pat := range pats {
			for bi, b := range bodies {
				for ii, in := range binputs {
					if si >= 3 && (bi+ii)%2 != 0 { // half of the combinations for the navigation sources
						continue
					}
					ops("("+src+" as "+pat+" | "+b+")", in)
				}
			}
		}
	}
	// optional access after every suffix kind, on matching and non-matching inputs
	sufs := []string{".a", "[0]", "[1:]", "[\"b\"]", "[-1]", "[]"}
	head := func(x string) string {
		if strings.HasPrefix(x, "[") {
			return "." + x
		}
		return x
	}
	for _, in := range inputs {
		for _, a := range sufs {
			for _, qa := range []string{"", "?"} {
				ops(head(a)+qa, in)
				for _, b := range sufs {
					for _, qb := range []string{"", "?"} {
						if qa == "" && qb == "" {
							continue
						}
						ops(head(a)+qa+b+qb, in)
					}
				}
			}
		}
	}
	return cs
}
