package main

import (
	"encoding/json"
	"fmt"
	"math"
	"math/big"
	"sort"
	"strings"

	"github.com/itchyny/gojq"
)

const (
	maxOutputs = 200
	maxDepth   = 400
)

// out is one element of an output stream: a value or an error message
type out struct {
	v     any
	err   string
	isErr bool
}

func compile(src string, vars ...string) (*gojq.Code, error) {
	q, err := gojq.Parse(src)
	if err != nil {
		return nil, fmt.Errorf("parse %q: %v", src, err)
	}
	code, err := gojq.Compile(q, gojq.WithVariables(vars))
	if err != nil {
		return nil, fmt.Errorf("compile %q: %v", src, err)
	}
	return code, nil
}

// runAll runs code on input; a panic of the implementation is reported as a pseudo error "PANIC: ..."
func runAll(code *gojq.Code, input any, vals ...any) (outs []out, trunc bool) {
	defer func() {
		if r := recover(); r != nil {
			outs = append(outs, out{isErr: true, err: fmt.Sprintf("PANIC: %v", r)})
		}
	}()
	it := code.Run(input, vals...)
	for {
		v, ok := it.Next()
		if !ok {
			return outs, false
		}
		if e, ok := v.(error); ok {
			outs = append(outs, out{isErr: true, err: e.Error()})
			return outs, false // an error ends the stream for our purposes (top-level error terminates the query)
		}
		outs = append(outs, out{v: v})
		if len(outs) >= maxOutputs {
			return outs, true
		}
	}
}

func decode(s string) (any, error) {
	dec := json.NewDecoder(strings.NewReader(s))
	dec.UseNumber()
	var v any
	if err := dec.Decode(&v); err != nil {
		return nil, err
	}
	return normalize(v), nil
}

// normalize converts json.Number to int/float64 like the cli does
func normalize(v any) any {
	switch v := v.(type) {
	case json.Number:
		if i, err := v.Int64(); err == nil {
			return int(i)
		}
		f, _ := v.Float64()
		return f
	case []any:
		for i, x := range v {
			v[i] = normalize(x)
		}
		return v
	case map[string]any:
		for k, x := range v {
			v[k] = normalize(x)
		}
		return v
	}
	return v
}

// depthOK: depth-bounded walk; false when the value is nested deeper than maxDepth (cyclic values are)
func depthOK(v any, d int) bool {
	if d > maxDepth {
		return false
	}
	switch v := v.(type) {
	case []any:
		for _, x := range v {
			if !depthOK(x, d+1) {
				return false
			}
		}
	case map[string]any:
		for _, x := range v {
			if !depthOK(x, d+1) {
				return false
			}
		}
	}
	return true
}

func numEq(a, b any) (bool, bool) {
	af, aok := toF(a)
	bf, bok := toF(b)
	if !aok || !bok {
		return false, false
	}
	if ai, ok := a.(*big.Int); ok {
		if bi, ok := b.(*big.Int); ok {
			return ai.Cmp(bi) == 0, true
		}
	}
	return af == bf || (math.IsNaN(af) && math.IsNaN(bf)), true
}

func toF(a any) (float64, bool) {
	switch a := a.(type) {
	case int:
		return float64(a), true
	case float64:
		return a, true
	case *big.Int:
		f, _ := new(big.Float).SetInt(a).Float64()
		return f, true
	case json.Number:
		f, _ := a.Float64()
		return f, true
	}
	return 0, false
}

// equal: structural equality of two acyclic values (callers check depthOK first)
func equal(a, b any) bool {
	if eq, isnum := numEq(a, b); isnum {
		return eq
	}
	switch a := a.(type) {
	case nil:
		return b == nil
	case bool:
		bb, ok := b.(bool)
		return ok && a == bb
	case string:
		bb, ok := b.(string)
		return ok && a == bb
	case []any:
		bb, ok := b.([]any)
		if !ok || len(a) != len(bb) {
			return false
		}
		for i := range a {
			if !equal(a[i], bb[i]) {
				return false
			}
		}
		return true
	case map[string]any:
		bb, ok := b.(map[string]any)
		if !ok || len(a) != len(bb) {
			return false
		}
		for k, x := range a {
			y, ok := bb[k]
			if !ok || !equal(x, y) {
				return false
			}
		}
		return true
	}
	return false
}

func show(v any) string {
	if !depthOK(v, 0) {
		return "<cyclic-or-too-deep>"
	}
	b, err := gojq.Marshal(v)
	if err != nil {
		return fmt.Sprintf("<unmarshalable %T: %v>", v, err)
	}
	if len(b) > 600 {
		return string(b[:600]) + "..."
	}
	return string(b)
}

func showOuts(os []out) string {
	var sb strings.Builder
	for i, o := range os {
		if i > 0 {
			sb.WriteString(" ; ")
		}
		if i >= 12 {
			sb.WriteString("...")
			break
		}
		if o.isErr {
			sb.WriteString("ERROR(" + o.err + ")")
		} else {
			sb.WriteString(show(o.v))
		}
	}
	if len(os) == 0 {
		return "<no output>"
	}
	return sb.String()
}

// cmpStreams compares two output streams: same length, same error positions, equal values.
// Error MESSAGES are not compared (wording is not constrained by the property), except that a PANIC of
// the implementation is never acceptable.
func cmpStreams(l, r []out) (bool, string) {
	for _, o := range l {
		if o.isErr && strings.HasPrefix(o.err, "PANIC") {
			return false, "panic"
		}
		if !o.isErr && !depthOK(o.v, 0) {
			return false, "cyclic-value"
		}
	}
	for _, o := range r {
		if !o.isErr && !depthOK(o.v, 0) {
			return false, "cyclic-value-in-reference"
		}
	}
	if len(l) != len(r) {
		return false, "differs-from-defining-reduction"
	}
	for i := range l {
		if l[i].isErr != r[i].isErr {
			return false, "differs-from-defining-reduction"
		}
		if !l[i].isErr && !equal(l[i].v, r[i].v) {
			return false, "differs-from-defining-reduction"
		}
	}
	return true, ""
}

func evalCase(c *Case) (res Result) {
	res.ID = c.ID
	defer func() {
		if r := recover(); r != nil {
			res.OK = false
			res.What = "panic"
			res.Detail = fmt.Sprintf("%v", r)
		}
	}()
	switch c.Kind {
	case "eq":
		return evalEq(c)
	case "path":
		return evalPath(c)
	case "inv":
		return evalInv(c)
	case "refonly":
		code, err := compile(c.Q[0])
		if err != nil {
			return harnessErr(c, err)
		}
		in, err := decode(c.Input)
		if err != nil {
			return harnessErr(c, err)
		}
		runAll(code, in)
		res.OK = true
		return res
	}
	res.What = "harness"
	res.Detail = "unknown case kind " + c.Kind
	return res
}

func harnessErr(c *Case, err error) Result {
	return Result{ID: c.ID, OK: false, What: "harness", Detail: err.Error()}
}

func evalEq(c *Case) Result {
	if c.AddDefs && !strings.HasPrefix(c.Q[1], defs) {
		c.Q[1] = defs + c.Q[1]
	}
	lc, err := compile(c.Q[0])
	if err != nil {
		return harnessErr(c, err)
	}
	rc, err := compile(c.Q[1])
	if err != nil {
		return harnessErr(c, err)
	}
	in1, err := decode(c.Input)
	if err != nil {
		return harnessErr(c, err)
	}
	in2, _ := decode(c.Input)
	in3, _ := decode(c.Input)
	l, lt := runAll(lc, in1)
	r, rt := runAll(rc, in2)
	res := Result{ID: c.ID, OK: true}
	res.Class = classOf(l)
	if n := len(r); n > 0 && r[n-1].isErr && strings.Contains(r[n-1].err, "_norm: type") {
		// the reduction has no defined value (a path navigates into a scalar of the value it is resolved against)
		res.Class = "inconclusive-norm"
		if ok, what := cmpStreams(l, l); !ok {
			res.OK, res.What, res.Detail = false, what, "operator gives "+showOuts(l)
		}
		return res
	}
	if ok, what := cmpStreams(l, r); !ok || lt != rt {
		res.OK = false
		res.What = what
		if what == "" {
			res.What = "differs-from-defining-reduction"
		}
		res.Detail = "operator gives " + showOuts(l) + "  defining reduction " + strings.TrimPrefix(c.Q[1], defs) + " gives " + showOuts(r)
	} else if !depthOK(in1, 0) || !equal(in1, in3) {
		res.OK = false
		res.What = "input-mutated"
		res.Detail = "the input value was modified in place: now " + show(in1)
	}
	if !res.OK && c.P != "" {
		res.Family = classify(c, in3)
		if res.Family == "D5" || res.Family == "D9" {
			res.Family, res.Attr = attribute(c, res.Family)
			if res.Family == "" {
				res.Detail += "  [" + attrText[res.Attr] + "]"
			}
		}
	}
	return res
}

// ------------------------------------------------------------------------------------------------
// attribution of a failing `p |= f` case to the known allocator-aliasing findings D5 / D9.
//
// C02_modify_sound proves the compiled reduction equal to the defining one when the body satisfies body_ok:
// its output contains no container the allocator may still write in place.  D5 and D9 are runs outside that
// condition in one specific way: the output EMBEDS such a container below a container the body built ([.],
// [.,.], {a:.}: then it has two owners, or an owner the allocator does not know).  A path list on which that
// can happen (classify) is necessary for the family, not sufficient: the same path lists reach other code
// (in-place growth, reslicing, the sweep).  So the case is re-run twice with the body's output copied:
//
//	deep   (f | tojson | fromjson): nothing of the running state is left in the output, body_ok holds, the
//	       theorem applies.  Still failing => the failure does not come from what the body returns: NOT D5/D9.
//	top    (f | a fresh top-level container with the SAME children): removes exactly the case in which the
//	       output itself is (a slice of) a container of the running state, replacing its own input (one owner,
//	       inside the relaxed hypothesis C02_abs_update_prefix_open); keeps every embedded container.
//	       Passing => the failure needed the output to BE such a container/slice: NOT D5/D9 (the defect
//	       repaired by 73ac0b6 has this shape).  Failing (and deep passing) => embedded alias: D5/D9.
const copyDeep = "tojson | fromjson"
const copyTop = `if type == "array" then [.[]] elif type == "object" then (. as $o | [keys[] | {key: ., value: $o[.]}] | from_entries) else . end`

var attrText = map[string]string{
	"fails-with-fresh-output": "not attributed to the D5/D9 family: the case fails as well when the update body's output is replaced by a fresh deep copy, so the failure does not come from a container of the running state embedded by the body",
	"top-level-alias":         "not attributed to the D5/D9 family: the case passes as soon as the TOP-LEVEL container of the update body's output is copied (children shared as before), so the output embeds nothing: it IS a container of the running state or a slice of one",
	"no-body":                 "not attributed to the D5/D9 family: the case does not record its update body, the attribution test cannot be made",
	"variant-error":           "not attributed to the D5/D9 family: the attribution variants could not be run",
}

func attribute(c *Case, fam string) (string, string) {
	if c.F == "" {
		return "", "no-body"
	}
	top, err := variantHolds(c, copyTop)
	if err != nil {
		return "", "variant-error"
	}
	if top {
		return "", "top-level-alias"
	}
	deep, err := variantHolds(c, copyDeep)
	if err != nil {
		return "", "variant-error"
	}
	if !deep {
		return "", "fails-with-fresh-output"
	}
	return fam, "embedded-alias"
}

// variantHolds: does `p |= (f | copy)` equal its defining reduction `_mref(p; (f | copy))` on the case's input
func variantHolds(c *Case, cp string) (bool, error) {
	fr := c.FR
	if fr == "" {
		fr = c.F
	}
	lc, err := compile(c.Pre + c.Bind + c.P + " |= ((" + c.F + ") | " + cp + ")")
	if err != nil {
		return false, err
	}
	rc, err := compile(defs + c.Pre + c.Bind + "_mref(" + c.P + "; ((" + fr + ") | " + cp + "))")
	if err != nil {
		return false, err
	}
	in1, err := decode(c.Input)
	if err != nil {
		return false, err
	}
	in2, _ := decode(c.Input)
	in3, _ := decode(c.Input)
	l, lt := runAll(lc, in1)
	r, rt := runAll(rc, in2)
	if ok, _ := cmpStreams(l, r); !ok || lt != rt {
		return false, nil
	}
	return depthOK(in1, 0) && equal(in1, in3), nil
}

func classOf(l []out) string {
	if len(l) == 0 {
		return "empty"
	}
	if l[len(l)-1].isErr {
		if len(l) == 1 {
			return "error"
		}
		return "values-then-error"
	}
	return "value"
}

func evalPath(c *Case) Result {
	p := c.Q[0]
	pre := c.Pre
	if strings.HasPrefix(c.Op, "sentinel:") {
		pre = ""
	}
	pc, err := compile(pre + "path(" + p + ")")
	if err != nil {
		return harnessErr(c, err)
	}
	vc, err := compile(pre + p)
	if err != nil {
		return harnessErr(c, err)
	}
	gc, err := compile("getpath($q)", "$q")
	if err != nil {
		return harnessErr(c, err)
	}
	in1, err := decode(c.Input)
	if err != nil {
		return harnessErr(c, err)
	}
	in2, _ := decode(c.Input)
	in3, _ := decode(c.Input)
	ps, pt := runAll(pc, in1)
	vs, vt := runAll(vc, in2)
	res := Result{ID: c.ID, OK: true, Class: classOf(vs)}
	fail := func(what, detail string) Result {
		res.OK = false
		res.What = what
		res.Detail = detail + "  path(p) gives " + showOuts(ps) + "  p gives " + showOuts(vs)
		return res
	}
	if ok, what := cmpStreams(ps, ps); !ok {
		return fail(what, "")
	}
	if len(ps) != len(vs) || pt != vt {
		return fail("path-count", "number of outputs differs;")
	}
	for i := range ps {
		if ps[i].isErr != vs[i].isErr {
			return fail("path-error-position", fmt.Sprintf("output %d: error on one side only;", i))
		}
		if ps[i].isErr {
			continue
		}
		q, ok := ps[i].v.([]any)
		if !ok {
			return fail("path-not-array", fmt.Sprintf("output %d of path(p) is not an array;", i))
		}
		base := in3
		if pre != "" {
			bc, err := compile(pre + ".")
			if err != nil {
				return harnessErr(c, err)
			}
			b, _ := runAll(bc, in3)
			if len(b) != 1 || b[0].isErr {
				return harnessErr(c, fmt.Errorf("prefix failed"))
			}
			base = b[0].v
		}
		g, _ := runAll(gc, base, q)
		if len(g) != 1 || g[0].isErr {
			if throughString(base, q) {
				res.Family = "D10"
			}
			return fail("path-getpath-error", fmt.Sprintf("getpath(%s) gives %s;", show(q), showOuts(g)))
		}
		if !depthOK(vs[i].v, 0) || !equal(g[0].v, vs[i].v) {
			return fail("path-value", fmt.Sprintf("output %d: getpath(%s) = %s but p gives %s;", i, show(q), show(g[0].v), show(vs[i].v)))
		}
	}
	return res
}

func evalInv(c *Case) Result {
	qc, err := compile(c.Q[0])
	if err != nil {
		return harnessErr(c, err)
	}
	nc, err := compile(c.Q[1])
	if err != nil {
		return harnessErr(c, err)
	}
	in1, err := decode(c.Input)
	if err != nil {
		return harnessErr(c, err)
	}
	in2, _ := decode(c.Input)
	in3, _ := decode(c.Input)
	l, _ := runAll(qc, in1)
	nav, _ := runAll(nc, in2)
	res := Result{ID: c.ID, OK: true}
	navOK := len(nav) > 0 && !nav[0].isErr
	if navOK {
		res.Class = "inv:nav-succeeds"
	} else {
		res.Class = "inv:nav-fails"
	}
	if strings.Contains(c.Q[1], "?") || strings.Contains(c.Q[1], "try") {
		// error suppression may turn the invalid-path error into "no path": then nothing may be updated
		nc2, err := compile(c.Q[2])
		if err != nil {
			return harnessErr(c, err)
		}
		in4, _ := decode(c.Input)
		want, _ := runAll(nc2, in4)
		if len(l) == 0 || !l[0].isErr {
			if ok, _ := cmpStreams(l, want); ok {
				res.Class = "inv:suppressed-no-update"
				return res
			}
		}
	}
	if len(l) == 0 || !l[0].isErr {
		res.OK = false
		res.What = "no-invalid-path-error"
		res.Detail = "navigation from a computed value did not raise an error: " + showOuts(l)
		return res
	}
	if strings.HasPrefix(l[0].err, "PANIC") {
		res.OK = false
		res.What = "panic"
		res.Detail = l[0].err
		return res
	}
	if navOK && !strings.Contains(l[0].err, "invalid path") {
		res.OK = false
		res.What = "wrong-error-class"
		res.Detail = "expected an invalid-path error, got: " + l[0].err
		return res
	}
	if !depthOK(in1, 0) || !equal(in1, in3) {
		res.OK = false
		res.What = "input-mutated"
		res.Detail = "the input value was modified in place: now " + show(in1)
	}
	return res
}

// ------------------------------------------------------------------------------------------------
// classification of a failing update case (see docs/C02.md): the failure belongs to the known
// allocator-aliasing family iff the hypotheses of the positive theorem (HeapPath: no slice component on
// a container touched before; the new value does not embed a container of the running state) can be
// violated by this case: two of its paths (or one path listed twice) may lie on one root-to-leaf line
// and either a slice component is involved or the update body can produce containers.
func classify(c *Case, input any) string {
	pc, err := compile(c.Pre + "[path(" + c.P + ")]")
	if err != nil {
		return ""
	}
	o, _ := runAll(pc, input)
	if len(o) != 1 || o[0].isErr {
		return ""
	}
	ps, _ := o[0].v.([]any)
	var paths [][]any
	for _, p := range ps {
		if q, ok := p.([]any); ok {
			paths = append(paths, q)
		}
	}
	hasSlice := func(p []any) bool {
		for _, k := range p {
			if _, ok := k.(map[string]any); ok {
				return true
			}
		}
		return false
	}
	// the base value the paths refer to
	base := input
	if c.Pre != "" {
		if bc, err := compile(c.Pre + "."); err == nil {
			if b, _ := runAll(bc, input); len(b) == 1 && !b[0].isErr {
				base = b[0].v
			}
		}
	}
	for _, q := range paths {
		if throughString(base, q) {
			return "D10"
		}
	}
	_ = hasSlice
	sliceHazard, embedHazard := false, false
	for j, qj := range paths {
		for i, qi := range paths {
			if i == j {
				continue
			}
			// the array sliced by q_j at position k has been copied into an allocated array by q_i
			for k, comp := range qj {
				if _, ok := comp.(map[string]any); ok && mayPrefix(qj[:k], qi) {
					sliceHazard = true
				}
			}
			// q_j reads a container that q_i has made allocated (q_j is an ancestor-or-self of q_i)
			if mayPrefix(qj, qi) {
				embedHazard = true
			}
		}
	}
	switch {
	case sliceHazard && c.ScalarF:
		return "D4"
	case sliceHazard:
		return "D5"
	case embedHazard && !c.ScalarF:
		return "D9"
	}
	return ""
}

// mayPrefix: p may denote an ancestor-or-self location of q (negative indices and slices are treated
// as possibly equal to any array position)
func mayPrefix(p, q []any) bool {
	// slices re-base indices, so compare loosely: every component of p must be compatible with the
	// component of q at the same position after dropping slice components on both sides
	strip := func(x []any) ([]any, bool) {
		var r []any
		s := false
		for _, k := range x {
			if _, ok := k.(map[string]any); ok {
				s = true
				continue
			}
			r = append(r, k)
		}
		return r, s
	}
	ps, pslice := strip(p)
	qs, qslice := strip(q)
	loose := pslice || qslice
	if len(ps) > len(qs) {
		return false
	}
	for i := range ps {
		a, b := ps[i], qs[i]
		as, aok := a.(string)
		bs, bok := b.(string)
		if aok != bok {
			return false
		}
		if aok {
			if as != bs {
				return false
			}
			continue
		}
		af, _ := toF(a)
		bf, _ := toF(b)
		if af == bf || af < 0 || bf < 0 || loose {
			continue
		}
		return false
	}
	return true
}

func sortedKeys(m map[string]any) []string {
	ks := make([]string, 0, len(m))
	for k := range m {
		ks = append(ks, k)
	}
	sort.Strings(ks)
	return ks
}

// throughString: the path q navigates into a string of v (gojq indexes and slices strings; getpath does not)
func throughString(v any, q []any) bool {
	for _, k := range q {
		switch x := v.(type) {
		case string:
			return true
		case []any:
			f, ok := toF(k)
			if !ok {
				if m, ok := k.(map[string]any); ok {
					st, en := 0, len(x)
					if sv, ok := toF(m["start"]); ok {
						st = clampI(int(sv), 0, len(x))
					}
					if ev, ok := toF(m["end"]); ok {
						en = clampI(int(ev), st, len(x))
					}
					v = x[st:en]
					continue
				}
				return false
			}
			i := int(f)
			if i < 0 {
				i += len(x)
			}
			if i < 0 || i >= len(x) {
				return false
			}
			v = x[i]
		case map[string]any:
			s, ok := k.(string)
			if !ok {
				return false
			}
			v = x[s]
		default:
			return false
		}
	}
	return false
}
