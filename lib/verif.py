"""Common machinery for /verif checks (see DESIGN.md section 0 and 1).

A check does: regen (translators) -> prove (coq make + props file with Print Assumptions)
-> correspond (harness on the implementation, extracted model on the same lines) -> verdict.
"""
import hashlib
import json
import os
import re
import shutil
import subprocess
import sys
import time

ROOT = os.path.dirname(os.path.dirname(os.path.abspath(__file__)))
REPO = os.environ.get("VERIF_REPO", "/repo")
COQ = os.path.join(ROOT, "coq")
BUILD = os.path.join(ROOT, "build")
NCPU = str(os.cpu_count() or 4)


def go_env():
    e = dict(os.environ)
    e["GOFLAGS"] = "-mod=mod"
    e["GOPROXY"] = "off"
    e.pop("GOSUMDB", None)      # GOSUMDB=off breaks the offline toolchain switch to go1.24
    e.pop("GOTOOLCHAIN", None)
    return e


def sh(cmd, cwd=None, timeout=1800, env=None, stdin=None):
    """Run a command; returns (rc, combined output). rc 124 on timeout."""
    try:
        p = subprocess.run(cmd, cwd=cwd, env=env, input=stdin, stdout=subprocess.PIPE,
                           stderr=subprocess.STDOUT, timeout=timeout, shell=isinstance(cmd, str))
        return p.returncode, p.stdout.decode("utf-8", "replace")
    except subprocess.TimeoutExpired as e:
        out = (e.stdout or b"").decode("utf-8", "replace")
        return 124, out + "\n[timeout after %ss]" % timeout


# ---------------------------------------------------------------------------------------------
# translators

def regen(only):
    """Run the named translators (tools/go2coq/<name>/) against the current /repo tree; each rewrites
    its coq/gen/*.v (only when the content changed). Returns (ok, log)."""
    src = os.path.join(ROOT, "tools", "go2coq")
    os.makedirs(os.path.join(COQ, "gen"), exist_ok=True)
    os.makedirs(BUILD, exist_ok=True)
    allok, logs = True, []
    for name in only:
        exe = os.path.join(BUILD, "go2coq-" + name)
        rc, out = sh(["go", "build", "-o", exe, "./" + name], cwd=src, env=go_env(), timeout=600)
        if rc != 0:
            allok = False
            logs.append("cannot build translator %s:\n%s" % (name, out))
            continue
        rc, out = sh([exe, "-repo", REPO, "-out", os.path.join(COQ, "gen")], timeout=300)
        logs.append(out)
        allok = allok and rc == 0
    return allok, "\n".join(logs)


def all_translators():
    src = os.path.join(ROOT, "tools", "go2coq")
    return sorted(d for d in os.listdir(src) if os.path.isdir(os.path.join(src, d)) and d != "g2c")


# ---------------------------------------------------------------------------------------------
# Coq

def coq_files():
    fs = []
    for d, _, names in os.walk(COQ):
        rel = os.path.relpath(d, COQ)
        if rel.startswith("extract") or rel.startswith("cases"):
            continue
        for n in names:
            if n.endswith(".v"):
                fs.append(os.path.normpath(os.path.join(rel, n)))
    return sorted(fs)


def coq_project():
    """(Re)write _CoqProject and Makefile.coq when the file list changed."""
    files = coq_files()
    text = "-Q . Verif\n-arg -w -arg -all\n" + "\n".join(files) + "\n"
    p = os.path.join(COQ, "_CoqProject")
    old = open(p).read() if os.path.exists(p) else ""
    if old != text or not os.path.exists(os.path.join(COQ, "Makefile.coq")):
        open(p, "w").write(text)
        rc, out = sh(["coq_makefile", "-f", "_CoqProject", "-o", "Makefile.coq"], cwd=COQ)
        if rc != 0:
            raise RuntimeError("coq_makefile failed:\n" + out)


def coq_make(targets, timeout=3000):
    """Full .vo build (never -vos) of the given .v files and their dependencies.
    Returns (ok, log)."""
    coq_project()
    vos = [t[:-2] + ".vo" if t.endswith(".v") else t for t in targets]
    rc, out = sh(["make", "-f", "Makefile.coq", "-j", NCPU, "-k"] + vos, cwd=COQ, timeout=timeout)
    return rc == 0, out


def coqc_props(vfile, timeout=900):
    """Always recompile a props file (tiny) to capture its Print Assumptions output."""
    rc, out = sh(["coqc", "-Q", ".", "Verif", "-w", "-all", vfile], cwd=COQ, timeout=timeout)
    return rc == 0, out


def parse_assumptions(out):
    """Split coqc output of a props file into per-theorem assumption reports (in order)."""
    reports = []
    cur = None
    for line in out.splitlines():
        if line.startswith("Closed under the global context"):
            reports.append([])
            cur = None
        elif line.startswith("Axioms:"):
            cur = []
            reports.append(cur)
        elif cur is not None:
            m = re.match(r"^([A-Za-z_][\w.']*)\s*(:|$)", line)
            if m:
                cur.append(m.group(1))
            elif line and not line[0].isspace():
                cur = None
    return reports


def theorem_names(vfile):
    txt = open(os.path.join(COQ, vfile)).read()
    txt = re.sub(r"\(\*.*?\*\)", "", txt, flags=re.S)
    return re.findall(r"^\s*Theorem\s+([\w']+)", txt, flags=re.M)


FORBIDDEN = re.compile(r"\b(Admitted|admit|Axiom|Axioms|Parameter|Parameters|Conjecture|Conjectures|"
                       r"Unset\s+Guard|bypass_check|Admit\s+Obligations|type-in-type|impredicative-set)\b")


def dep_cone(vfiles):
    """Transitive closure of `From Verif Require Import a.b` dependencies (as .v paths relative to coq/)."""
    seen, todo = [], list(vfiles)
    while todo:
        f = todo.pop()
        if f in seen or not os.path.exists(os.path.join(COQ, f)):
            continue
        seen.append(f)
        txt = re.sub(r"\(\*.*?\*\)", "", open(os.path.join(COQ, f)).read(), flags=re.S)
        for m in re.finditer(r"From\s+Verif\s+Require\s+(?:Import\s+|Export\s+)?(.*?)\.(?:\s|$)", txt, flags=re.S):
            for mod in m.group(1).split():
                todo.append(mod.replace(".", "/") + ".v")
        for m in re.finditer(r"(?<!Verif )Require\s+(?:Import\s+|Export\s+)?((?:Verif\.[\w.']+\s*)+?)\.(?:\s|$)", txt, flags=re.S):
            for mod in m.group(1).split():
                todo.append(mod[len("Verif."):].replace(".", "/") + ".v")
    return sorted(seen)


def scan_forbidden(files=None):
    """No admits/axioms/guard switches in the given files (default: whole development; comments
    stripped).  Variable/Hypothesis are only allowed inside Sections (checked textually)."""
    bad = []
    for f in (files if files is not None else coq_files()):
        txt = open(os.path.join(COQ, f)).read()
        txt = re.sub(r"\(\*.*?\*\)", "", txt, flags=re.S)
        for i, line in enumerate(txt.splitlines(), 1):
            if FORBIDDEN.search(line):
                bad.append("%s:%d: %s" % (f, i, line.strip()))
        depth = 0
        for i, line in enumerate(txt.splitlines(), 1):
            if re.match(r"^\s*Section\s+\w+", line):
                depth += 1
            elif re.match(r"^\s*End\s+\w+", line) and depth > 0:
                depth -= 1
            elif depth == 0 and re.match(r"^\s*(Variable|Variables|Hypothesis|Hypotheses|Context)\b", line):
                bad.append("%s:%d: %s outside a Section" % (f, i, line.strip()))
    return bad


# ---------------------------------------------------------------------------------------------
# extracted models

def build_model(name, extract_v, module, deps=None):
    """Extract (ExtrOcamlBasic only) and compile build/extract/<name>/<name>model.
    extract_v: path relative to coq/ of the Extraction file producing <module>.ml;
    deps: model .v files (no proofs) to build first.
    Returns (exe or None, log)."""
    if deps:
        ok, log = coq_make(deps)
        if not ok:
            return None, log
    d = os.path.join(BUILD, "extract", name)
    exe = os.path.join(d, name + "model")
    h = hashlib.sha1()
    for f in dep_cone([extract_v]) + ["../ml/driver.ml"]:
        h.update(f.encode())
        h.update(open(os.path.join(COQ, f), "rb").read())
    key = h.hexdigest()
    keyfile = os.path.join(d, ".conehash")
    if os.path.exists(exe) and os.path.exists(keyfile) and open(keyfile).read() == key:
        return exe, "model unchanged (cone hash %s): reusing extracted binary" % key[:10]
    shutil.rmtree(d, ignore_errors=True)
    os.makedirs(d)
    shutil.copy(os.path.join(COQ, extract_v), os.path.join(d, "Extract.v"))
    rc, out = sh(["coqc", "-Q", COQ, "Verif", "-w", "-all", "Extract.v"], cwd=d, timeout=900)
    if rc != 0:
        return None, out
    shutil.copy(os.path.join(ROOT, "ml", "driver.ml"), d)
    modcap = module[0].upper() + module[1:]
    open(os.path.join(d, "main.ml"), "w").write(
        "module D = Driver.Make (%s)\nlet () = D.main ()\n" % modcap)
    rc, out2 = sh(["ocamlfind", "ocamlopt", "-w", "-a", "-O3", "-inline", "100",
                   module + ".mli", module + ".ml", "driver.ml", "main.ml", "-o", exe], cwd=d, timeout=900)
    if rc != 0:
        return None, out + out2
    open(keyfile, "w").write(key)
    return exe, out + out2


def run_model(exe, cases_path, timeout=3000, shards=None):
    """Run the extracted model over a cases file; returns list of output lines (same order)."""
    shards = shards or min(16, os.cpu_count() or 4)
    lines = open(cases_path, "rb").read().split(b"\n")
    if lines and lines[-1] == b"":
        lines.pop()
    if len(lines) < 200:
        shards = 1
    chunk = (len(lines) + shards - 1) // shards if lines else 1
    procs = []
    for i in range(shards):
        part = lines[i * chunk:(i + 1) * chunk]
        if not part:
            continue
        p = subprocess.Popen([exe], stdin=subprocess.PIPE, stdout=subprocess.PIPE, stderr=subprocess.PIPE)
        procs.append((p, b"\n".join(part) + b"\n"))
    outs = []
    import threading
    results = [None] * len(procs)

    def work(i, p, data):
        try:
            o, e = p.communicate(data, timeout=timeout)
            results[i] = (p.returncode, o, e)
        except subprocess.TimeoutExpired:
            p.kill()
            results[i] = (124, b"", b"timeout")
    ths = [threading.Thread(target=work, args=(i, p, d)) for i, (p, d) in enumerate(procs)]
    for t in ths:
        t.start()
    for t in ths:
        t.join()
    for rc, o, e in results:
        if rc != 0:
            raise RuntimeError("model run failed rc=%s: %s" % (rc, e.decode("utf-8", "replace")[:500]))
        outs += o.decode("utf-8", "replace").split("\n")[:-1]
    return [l.decode("utf-8", "replace") for l in lines], outs


# ---------------------------------------------------------------------------------------------
# harness

def build_harness(name, tags="verif", out=None, extra_flags=None):
    """Rebuild harness/<name> from the CURRENT /repo working tree with hooks on (tag verif).
    Each build uses its own -modfile (build/mod/<out>.mod + .sum) so that concurrent checks, possibly
    against different trees ($VERIF_REPO), never write the same go.mod/go.sum."""
    h = os.path.join(ROOT, "harness")
    out = out or ("harness-" + name)
    md = os.path.join(BUILD, "mod")
    os.makedirs(md, exist_ok=True)
    modfile = os.path.join(md, out + ".mod")
    gomod = ("module verifharness\n\ngo 1.24.0\n\nrequire github.com/itchyny/gojq v0.0.0\n\n"
             "replace github.com/itchyny/gojq => %s\n" % REPO)
    open(modfile, "w").write(gomod)
    shutil.copy(os.path.join(REPO, "go.sum"), os.path.join(md, out + ".sum"))
    if not os.path.exists(os.path.join(h, "go.mod")):
        open(os.path.join(h, "go.mod"), "w").write(gomod)      # only marks the module root; not read
    exe = os.path.join(BUILD, out)
    cmd = ["go", "build", "-modfile=" + modfile, "-tags", tags] + (extra_flags or []) + ["-o", exe, "./" + name]
    rc, out_ = sh(cmd, cwd=h, env=go_env(), timeout=1800)
    return (exe if rc == 0 else None), out_


def run_harness(prog, stream, seed, n, tier, extra=None, timeout=3000, name=None):
    """Run build/harness-<prog> <stream>; cases go to build/cases/<name>.cases"""
    exe = os.path.join(BUILD, "harness-" + prog)
    name = name or stream
    cases = os.path.join(BUILD, "cases", name + ".cases")
    stats = os.path.join(BUILD, "cases", name + ".stats.json")
    os.makedirs(os.path.dirname(cases), exist_ok=True)
    for f in (cases, stats):
        if os.path.exists(f):
            os.remove(f)
    cmd = [exe, stream, "-seed", str(seed), "-n", str(n), "-tier", tier, "-out", cases, "-stats", stats] + (extra or [])
    rc, out = sh(cmd, timeout=timeout, env=go_env())
    st = {}
    if os.path.exists(stats):
        try:
            st = json.load(open(stats))
        except Exception:
            st = {}
    return rc, out, cases, st


# ---------------------------------------------------------------------------------------------
# known findings, replays, evidence, verdict

def known_findings(prop):
    """Entries 'finding: property=Cxx case=<text> :: <what fails>' of KNOWN_FINDINGS.txt."""
    p = os.path.join(ROOT, "KNOWN_FINDINGS.txt")
    res = []
    if os.path.exists(p):
        for line in open(p):
            line = line.rstrip("\n")
            m = re.match(r"^finding:\s+property=(\S+)\s+case=(.*?)\s+::\s+(.*)$", line)
            if m and m.group(1) == prop:
                res.append((m.group(2), m.group(3)))
    return res


class Check:
    def __init__(self, prop, tier, seed, evidence_name=None):
        """evidence_name: write evidence/<evidence_name>.json instead of evidence/<prop>.json (for a property
        decided by several sub-checks whose evidence files are merged by merge_evidence)."""
        self.evidence_name = evidence_name or prop
        self.prop = prop
        self.tier = tier
        self.seed = seed
        self.t0 = time.time()
        self.obligations = []        # (name, ok, assumptions or None)
        self.violations = []         # dict(kind, what, case, details, found_input)
        self.known_hits = []
        self.coverage = {}
        self.assumptions = []
        self.trusted = []
        self.samples = []
        self.checker_cmds = []
        self.notes = []
        self.evaluations = 0
        self.distinct = set()
        self.known = known_findings(prop)

    # -- proofs ------------------------------------------------------------------------------
    def prove(self, props_file, deps=None, timeout=3000):
        """Build deps, then compile the props file and record one obligation per Theorem in it."""
        bad = scan_forbidden(dep_cone([props_file] + list(deps or [])))
        if bad:
            self.obligations.append(("no-admits-no-axioms scan", False, None))
            self.broken_obligation("forbidden-constructs", "\n".join(bad[:20]))
            return False
        targets = list(deps or [])
        ok, log = coq_make(targets + [props_file], timeout=timeout)
        self.checker_cmds.append("make -C coq -f Makefile.coq -j%s %s" % (NCPU, props_file[:-2] + ".vo"))
        names = theorem_names(props_file)
        if not ok:
            for n in names:
                self.obligations.append((n, False, None))
            self.broken_obligation(props_file, tail(log, 60))
            return False
        ok2, out = coqc_props(props_file)
        self.checker_cmds.append("coqc -Q . Verif %s" % props_file)
        reports = parse_assumptions(out)
        if not ok2 or len(reports) < len(names):
            for n in names:
                self.obligations.append((n, False, None))
            self.broken_obligation(props_file, "props file did not print assumptions for every theorem\n" + tail(out, 40))
            return False
        for n, r in zip(names, reports):
            self.obligations.append((n, True, r))
            for a in r:
                t = "axiom (std library) used by %s: %s" % (n, a)
                if t not in self.trusted:
                    self.trusted.append(t)
        return True

    def broken_obligation(self, what, details):
        self.violations.append(dict(kind="broken-obligation", what=what, details=details, found_input=False, case=None))

    def broken_correspondence(self, stream, case, details, found_input=False):
        self.violations.append(dict(kind="broken-correspondence", what=stream, case=case, details=details,
                                    found_input=found_input))

    def failing_input(self, what, case, details):
        """A concrete input on which the IMPLEMENTATION violates the property statement."""
        for ktext, kwhat in self.known:
            if ktext == case:
                self.known_hits.append((ktext, kwhat))
                return
        self.violations.append(dict(kind="failing-input", what=what, case=case, details=details, found_input=True))

    def note_case(self, text, nontrivial=True):
        self.evaluations += 1
        if nontrivial:
            self.distinct.add(hashlib.sha1(text.encode("utf-8", "replace")).digest()[:8])

    # -- finish ------------------------------------------------------------------------------
    def finish(self, rule, extra_cov=None, level="proof"):
        wall = time.time() - self.t0
        nob = len(self.obligations)
        ndis = sum(1 for o in self.obligations if o[1])
        # a broken obligation with a found failing input is reported through the failing input
        viols = self.violations
        found = [v for v in viols if v["found_input"]]
        broken = [v for v in viols if not v["found_input"]]
        lines = []
        os.makedirs(os.path.join(ROOT, "replays"), exist_ok=True)
        for ktext, kwhat in sorted(set(self.known_hits)):
            lines.append("KNOWN-FINDING: property=%s %s [case=%s]" % (self.prop, kwhat, ktext))
        rc = 0
        if found:
            for v in found[:5]:
                path = write_replay(self.prop, v, self.seed, broken)
                lines.append("VIOLATION property=%s replay=%s" % (self.prop, path))
            rc = 1
        elif broken:
            v = dict(broken[0])
            v["all_broken"] = [dict(kind=b["kind"], what=b["what"]) for b in broken]
            path = write_replay(self.prop, v, self.seed, [])
            lines.append("VIOLATION property=%s replay=%s no-failing-input-found" % (self.prop, path))
            rc = 1
        cov = dict(
            obligations=max(nob, 0), discharged=ndis,
            checker_cmd="; ".join(dict.fromkeys(self.checker_cmds)) or "none",
            trusted_base=BASE_TRUSTED + self.trusted,
            theorems=[dict(name=o[0], proved=o[1], axioms=o[2]) for o in self.obligations],
            evaluations=self.evaluations, distinct_nontrivial=len(self.distinct), rule=rule,
            samples=self.samples[:12], known_findings_hit=[k[0] for k in sorted(set(self.known_hits))],
            notes=self.notes,
        )
        if extra_cov:
            cov.update(extra_cov)
        ev = dict(property_id=self.prop, tier=self.tier, seed=self.seed, level=level, coverage=cov,
                  assumptions=self.assumptions, wall_s=round(wall, 2), violations=len(found) + len(broken))
        os.makedirs(os.path.join(ROOT, "evidence"), exist_ok=True)
        with open(os.path.join(ROOT, "evidence", self.evidence_name + ".json"), "w") as f:
            json.dump(ev, f, indent=1, sort_keys=True)
            f.write("\n")
        for l in lines:
            print(l)
        print("%s tier=%s obligations=%d/%d evaluations=%d distinct=%d wall=%.1fs => %s" % (
            self.prop, self.tier, ndis, nob, self.evaluations, len(self.distinct), wall,
            "HELD" if rc == 0 else "VIOLATION"))
        sys.stdout.flush()
        return rc


BASE_TRUSTED = [
    "Coq 8.16.1 kernel and coqc (vm_compute used; native_compute not used)",
    "Coq extraction to OCaml with ExtrOcamlBasic only (Extract Inductive bool/option/unit/list/prod/sumbool/sumor; "
    "Extract Inlined Constant andb/orb); no Extract directive of our own; OCaml 4.13.1; ml/driver.ml (moves bytes only)",
    "the Go harness (generates cases, runs the implementation built from /repo with -tags verif, records what it did)",
    "tools/go2coq translator for coq/gen/*.v",
]


def tail(s, n):
    ls = s.splitlines()
    return "\n".join(ls[-n:])


def write_replay(prop, v, seed, also):
    h = hashlib.sha1(json.dumps([v.get("kind"), v.get("what"), v.get("case")], sort_keys=True).encode()).hexdigest()[:10]
    path = os.path.join(ROOT, "replays", "%s-%s.json" % (prop, h))
    d = dict(property=prop, seed=seed)
    d.update(v)
    if also:
        d["also_broken"] = [dict(kind=b["kind"], what=b["what"]) for b in also]
    with open(path, "w") as f:
        json.dump(d, f, indent=1)
        f.write("\n")
    return path


def compare_model(check, exe, cases_path, stream, describe=None, max_report=5, nontrivial=None, spec=False, count=True):
    """Run extracted model over harness lines. Every non-'ok' verdict is a mismatch impl != model
    (or impl != spec when spec=True: lines are wrapped as (spec <line>)).
    Returns list of (line, verdict)."""
    if spec:
        sp = cases_path + ".spec"
        with open(cases_path) as f, open(sp, "w") as g:
            for l in f:
                g.write("(spec " + l.rstrip("\n") + ")\n")
        lines, outs = run_model(exe, sp)
        lines = [l[6:-1] for l in lines]
        stream = stream + ":spec"
    else:
        lines, outs = run_model(exe, cases_path)
    mism = []
    if len(lines) != len(outs):
        check.broken_correspondence(stream, None, "model produced %d verdicts for %d cases" % (len(outs), len(lines)))
        return mism
    for l, o in zip(lines, outs):
        if not spec and count:
            check.note_case(l, nontrivial(l) if nontrivial else True)
        if o != "ok":
            mism.append((l, o))
    if lines and not spec:
        step = max(1, len(lines) // 4)
        for i in range(0, len(lines), step):
            check.samples.append(dict(stream=stream, case=lines[i], verdict=outs[i]))
    return mism


def merge_evidence(prop, parts, tier, seed, wall):
    """Merge evidence/<part>.json files (written in this run by sub-checks) into evidence/<prop>.json."""
    cov = dict(obligations=0, discharged=0, evaluations=0, distinct_nontrivial=0, samples=[], theorems=[],
               trusted_base=[], checker_cmd=[], rule=[], parts={}, known_findings_hit=[], notes=[])
    assumptions, violations = [], 0
    for part in parts:
        f = os.path.join(ROOT, "evidence", part + ".json")
        if not os.path.exists(f):
            cov["parts"][part] = "missing (sub-check did not finish)"
            violations += 1
            continue
        e = json.load(open(f))
        c = e["coverage"]
        for k in ("obligations", "discharged", "evaluations", "distinct_nontrivial"):
            cov[k] += int(c.get(k, 0))
        cov["samples"] += [dict(part=part, sample=x) for x in c.get("samples", [])[:6]]
        cov["theorems"] += c.get("theorems", [])
        for t in c.get("trusted_base", []):
            if t not in cov["trusted_base"]:
                cov["trusted_base"].append(t)
        cov["checker_cmd"].append(c.get("checker_cmd", ""))
        cov["rule"].append("[%s] %s" % (part, c.get("rule", "")))
        cov["known_findings_hit"] += c.get("known_findings_hit", [])
        cov["notes"] += c.get("notes", [])
        cov["parts"][part] = {k: v for k, v in c.items() if k not in ("samples", "theorems", "trusted_base")}
        for a in e.get("assumptions", []):
            if a not in assumptions:
                assumptions.append(a)
        violations += int(e.get("violations", 0))
    cov["checker_cmd"] = "; ".join(x for x in cov["checker_cmd"] if x)
    cov["rule"] = " ".join(cov["rule"])
    ev = dict(property_id=prop, tier=tier, seed=seed, level="proof", coverage=cov, assumptions=assumptions,
              wall_s=round(wall, 2), violations=violations)
    with open(os.path.join(ROOT, "evidence", prop + ".json"), "w") as f:
        json.dump(ev, f, indent=1, sort_keys=True)
        f.write("\n")
