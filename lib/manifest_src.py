"""Source of MANIFEST.json (run bin/mkmanifest).  One entry per claimed property."""
TRUST = ("Trusted: Coq 8.16.1 kernel (vm_compute, no native_compute); extraction with ExtrOcamlBasic only + ml/driver.ml; "
         "the Go harness; translators under tools/go2coq. ")
TECH = "machine-checked proof in Coq + extracted-model correspondence check against the implementation"

CHECKS = {
 "C10": dict(
  text=("Coq theorems over the int kernels TRANSLATED from operator.go/func.go on every run (exactness of + - * / % negate "
        "abs/length for all int64 operand pairs: int result iff it fits, exact big integer otherwise; division/modulo by zero "
        "are errors; modulo has the dividend's sign), lifted by a hand model of binopTypeSwitch to integers of any size in all "
        "9 representation pairs, Compare on integers, decimal printing reads back exactly. The hand model is tied to the code "
        "by a correspondence stream through the public API judged by the extracted model; the implementation is also judged "
        "against exact integer arithmetic (property oracle), number literals must print verbatim and floats in shortest "
        "round-trip valid-JSON form (implementation-level oracles against strconv)."),
  note=TRUST + "Assumed: Go int is 64-bit two's complement; math/big exact; float digits are strconv's (shortest round trip "
       "checked against strconv, not proved).",
  ref="DESIGN.md §5 C10", tech="proof over a model regenerated from source by a translator + correspondence"),
 "C15": dict(
  text=("Coq model of the command's run loop after flag parsing (cli.go run/runInternal/process/printValues, exit-status "
        "bookkeeping incl. the deferred --exit-status override, halt handling) with the library abstracted to the list of "
        "outcomes it yields per input; exit-code constants and ExitCode() methods are TRANSLATED from cli/cli.go, cli/error.go "
        "on every run. 12 theorems: stdout is the concatenation of rendered outputs with the selected terminator, diagnostics "
        "never on stdout, an error ends only that input, halt stops at once with code mod 256, and the exit status equals the "
        "documented table as a total function of the outcome history (induction over inputs and outcomes). Correspondence: "
        "in-process CLI runs (hook VerifRun) vs the model fed with the library's own outcomes; thorough tier also the built binary."),
  note=TRUST + "Flag parsing is not part of this model (C08 models parseFlags); texts of library error messages pass through; "
       "rendering of values is delegated to the encoder (C12).",
  ref="DESIGN.md §5 C15, docs/C15.md", tech=TECH),
}
ORDER = ["C%02d" % i for i in range(1, 21)]
NOT_APPLICABLE = {}
PENDING_REASON = "check under construction in this development (builder not finished); not claimed yet"
